(* C05: every value the CSS sanitiser returns stays inside its declaration (spec/CssScan.v), references only
   URLs with an allow-listed scheme, and every name it returns is a run of letters and '-'.
   For every property name and every value, on every sanitiser path. *)
From Coq.Strings Require Import Byte String.
From Coq Require Import List NArith Bool Lia.
Import ListNotations.
From V Require Import lib.Bytes model.Url spec.Whatwg spec.CssScan gen.Tables05 model.Css.
Open Scope N_scope.

(* ------------------------------------------------------------------------------------------ *)
(* Side-conditions on the tables dumped from the live code (gen/Tables05.v).  Each is re-checked
   whenever the Go tables change; a failure here means the model no longer describes the code.  *)
Lemma table_kinds_known : forallb (fun e : bytes * N => snd e <? 4) css_table = true.
Proof. vm_compute. reflexivity. Qed.
Lemma pat_identifier_modelled : css_pat_identifier = bs "^[-a-zA-Z]+$".
Proof. reflexivity. Qed.
Lemma pat_regular_modelled : css_pat_regular = bs "^(?:[*/]?(?:[0-9a-zA-Z+-.!#%_ \t]|$))*$".
Proof. reflexivity. Qed.
Lemma pat_enum_modelled : css_pat_enum = bs "^[a-zA-Z-]*$".
Proof. reflexivity. Qed.
Lemma pat_generic_font_modelled : css_pat_generic_font = bs "^[a-zA-Z][- a-zA-Z]+$".
Proof. reflexivity. Qed.
Lemma url_forms_modelled :
  url_forms = [(bs "url(""", bs """)"); (bs "url('", bs "')"); (bs "url(", bs ")")].
Proof. reflexivity. Qed.
Lemma innocuous_name_ok : name_ok css_innocuous_name = true.
Proof. vm_compute. reflexivity. Qed.
Lemma innocuous_value_regular : regular_ok css_innocuous_value = true.
Proof. vm_compute. reflexivity. Qed.

(* ------------------------------------------------------------------------------------------ *)
(* generic list facts *)
Lemma run_app s a b : run s (a ++ b) = run (run s a) b.
Proof. unfold run. apply fold_left_app. Qed.
Lemma run_cons s c r : run s (c :: r) = run (step s c) r.
Proof. reflexivity. Qed.
Lemma run_nil s : run s [] = s.
Proof. reflexivity. Qed.

Lemma forallb_app_r {A} (f : A -> bool) a b : forallb f (a ++ b) = true -> forallb f b = true.
Proof. rewrite forallb_app. intros H; apply andb_prop in H; tauto. Qed.
Lemma forallb_app_l' {A} (f : A -> bool) a b : forallb f (a ++ b) = true -> forallb f a = true.
Proof. rewrite forallb_app. intros H; apply andb_prop in H; tauto. Qed.
Lemma forallb_rev {A} (f : A -> bool) l : forallb f (rev l) = forallb f l.
Proof.
  induction l as [|x l IH]; [reflexivity|]. cbn. rewrite forallb_app, IH. cbn. rewrite andb_true_r. apply andb_comm.
Qed.
Lemma existsb_false_forallb {A} (f : A -> bool) l : existsb f l = false -> forallb (fun x => negb (f x)) l = true.
Proof.
  induction l as [|x l IH]; [reflexivity|]. cbn. intros H. apply orb_false_elim in H as [H1 H2]. rewrite H1, (IH H2). reflexivity.
Qed.

Lemma has_prefix_split p s : has_prefix p s = true -> s = p ++ skipn (length p) s.
Proof.
  revert s; induction p as [|x p IH]; intros s H; [reflexivity|].
  destruct s as [|y s]; [discriminate|]. cbn in H. apply andb_prop in H as [E H]. apply byte_eqb_eq in E. subst y.
  cbn. f_equal. apply IH. exact H.
Qed.

Lemma drop_while_split f s : exists l, s = l ++ drop_while f s /\ forallb f l = true.
Proof.
  induction s as [|b s [l [E F]]]; [exists []; split; reflexivity|]. cbn. destruct (f b) eqn:Fb.
  - exists (b :: l). split; [cbn; f_equal; exact E|cbn; rewrite Fb; exact F].
  - exists []. split; reflexivity.
Qed.

(* strings.Trim with the CSS white-space cutset removes only such bytes *)
Lemma trim_css_split s : exists l r, s = l ++ trim_css s ++ r /\ forallb cut_css_ws l = true /\ forallb cut_css_ws r = true.
Proof.
  unfold trim_css. destruct (drop_while_split cut_css_ws s) as [l [E F]].
  destruct (drop_while_split cut_css_ws (rev (drop_while cut_css_ws s))) as [r [E2 F2]].
  exists l, (rev r). split; [|split; [exact F|rewrite forallb_rev; exact F2]].
  rewrite E at 1. f_equal. rewrite <- rev_app_distr, <- E2, rev_involutive. reflexivity.
Qed.

(* strings.TrimSpace removes only bytes of white-space runes *)
Lemma strip_prefixes_split (g : byte -> bool) L : forallb (forallb g) L = true ->
  forall fuel s, exists l, s = l ++ strip_prefixes L fuel s /\ forallb g l = true.
Proof.
  intros HL. induction fuel as [|f IH]; intros s; [exists []; split; reflexivity|].
  cbn. destruct (find (fun w => has_prefix w s) L) as [w|] eqn:Fd; [|exists []; split; reflexivity].
  apply find_some in Fd as [Hin Hp]. destruct (IH (skipn (length w) s)) as [l [E F]].
  exists (w ++ l). split.
  - rewrite <- app_assoc, <- E. apply has_prefix_split. exact Hp.
  - rewrite forallb_app, F, andb_true_r. rewrite forallb_forall in HL. apply HL. exact Hin.
Qed.

(* bytes of white-space runes: ASCII white space (with VT) or a non-ASCII byte *)
Definition fws (b : byte) : bool := in_range 9 13 b || Byte.eqb b x20 || (128 <=? bN b).
Lemma space_runes_fws : forallb (forallb fws) space_runes = true.
Proof. vm_compute. reflexivity. Qed.
Lemma space_runes_rev_fws : forallb (forallb fws) (map (@rev byte) space_runes) = true.
Proof. vm_compute. reflexivity. Qed.

Lemma trim_space_split s : exists l r, s = l ++ trim_space s ++ r /\ forallb fws l = true /\ forallb fws r = true.
Proof.
  unfold trim_space.
  destruct (strip_prefixes_split fws space_runes space_runes_fws (length s) s) as [l [E F]].
  set (s1 := strip_prefixes space_runes (length s) s) in *.
  destruct (strip_prefixes_split fws _ space_runes_rev_fws (length s1) (rev s1)) as [r [E2 F2]].
  exists l, (rev r). split; [|split; [exact F|rewrite forallb_rev; exact F2]].
  rewrite E at 1. f_equal. rewrite <- rev_app_distr, <- E2, rev_involutive. reflexivity.
Qed.

(* strings.Split / the text it was split from *)
Fixpoint join_comma (l : list bytes) : bytes :=
  match l with
  | [] => []
  | [x] => x
  | x :: r => x ++ x2c :: join_comma r
  end.
Lemma join_cons2 x y r : join_comma (x :: y :: r) = x ++ x2c :: join_comma (y :: r).
Proof. reflexivity. Qed.
Lemma split_comma_nonempty s : split_comma s <> [].
Proof. induction s as [|c r IH]; cbn; [discriminate|]. destruct (Byte.eqb c x2c); [discriminate|]. destruct (split_comma r); discriminate. Qed.
Lemma join_split s : join_comma (split_comma s) = s.
Proof.
  induction s as [|c r IH]; [reflexivity|]. cbn [split_comma].
  destruct (Byte.eqb c x2c) eqn:E.
  - apply byte_eqb_eq in E. subst c. pose proof (split_comma_nonempty r) as N.
    destruct (split_comma r) as [|h t] eqn:S; [congruence|]. rewrite join_cons2. cbn [app]. rewrite IH. reflexivity.
  - pose proof (split_comma_nonempty r) as N. destruct (split_comma r) as [|h t] eqn:S; [congruence|].
    destruct t as [|h2 t2]; cbn [join_comma app] in *; f_equal; exact IH.
Qed.
Lemma forallb_join f l : forallb f (join_comma l) = true -> forall i, In i l -> forallb f i = true.
Proof.
  induction l as [|x r IH]; intros H i Hin; [destruct Hin|].
  destruct r as [|y r'].
  - destruct Hin as [<-|[]]. exact H.
  - rewrite join_cons2 in H. rewrite forallb_app in H. apply andb_prop in H as [Hx Hr]. cbn [forallb] in Hr.
    apply andb_prop in Hr as [_ Hr]. destruct Hin as [<-|Hin]; [exact Hx|]. apply IH; assumption.
Qed.

(* ------------------------------------------------------------------------------------------ *)
(* the scanner on bytes that have no structural meaning between tokens *)
Definition plain (c : byte) : bool :=
  negb (Byte.eqb c x3b || Byte.eqb c x7b || Byte.eqb c x7d || Byte.eqb c x3c || Byte.eqb c x5b || Byte.eqb c x28
        || Byte.eqb c x29 || Byte.eqb c x5d || Byte.eqb c x22 || Byte.eqb c x27 || Byte.eqb c x2f || Byte.eqb c x5c).

Lemma step_normal_plain s c : md s = Normal -> plain c = true ->
  exists pv, step s c = mk Normal (stack s) pv [] (urls s).
Proof.
  destruct s as [m stk pv cu us]; cbn [md stack urls]; intros -> P.
  unfold step, step_normal; cbn [md stack prev urls cur].
  destruct c; try discriminate P; vm_compute; eexists; reflexivity.
Qed.
Lemma step_slash_plain s c : md s = Slash -> plain c = true -> Byte.eqb c x2a = false ->
  exists pv, step s c = mk Normal (stack s) pv [] (urls s).
Proof.
  destruct s as [m stk pv cu us]; cbn [md stack urls]; intros -> P Q.
  unfold step, step_normal; cbn [md stack prev urls cur].
  destruct c; try discriminate P; try discriminate Q; vm_compute; eexists; reflexivity.
Qed.
Lemma step_normal_slash s : md s = Normal -> step s x2f = mk Slash (stack s) [] [] (urls s).
Proof. destruct s as [m stk pv cu us]; cbn [md]; intros ->. reflexivity. Qed.

Lemma run_plain l : forall s, md s = Normal -> forallb plain l = true ->
  md (run s l) = Normal /\ stack (run s l) = stack s /\ urls (run s l) = urls s.
Proof.
  induction l as [|c l IH]; intros s M P; [auto|]. cbn in P. apply andb_prop in P as [Pc Pl].
  rewrite run_cons. destruct (step_normal_plain s c M Pc) as [pv E]. rewrite E.
  destruct (IH (mk Normal (stack s) pv [] (urls s)) eq_refl Pl) as [A [B C]]. auto.
Qed.

(* ---------- regular and enum values ---------- *)
Lemma safe_char_plain c : safe_char c = true -> plain c = true /\ Byte.eqb c x2a = false.
Proof. destruct c; vm_compute; intros; try discriminate; split; reflexivity. Qed.
Lemma star_slash_cases c : star_slash c = true -> c = x2a \/ c = x2f.
Proof. destruct c; try discriminate; auto. Qed.

Lemma regular_run : forall v s, stack s = [] ->
  (md s = Normal \/ (md s = Slash /\ match v with [] => True | d :: _ => safe_char d = true end)) ->
  regular_ok v = true ->
  accepting (run s v) = true /\ urls (run s v) = urls s.
Proof.
  induction v as [|c r IH]; intros s St M R.
  - rewrite run_nil. split; [|reflexivity]. unfold accepting. rewrite St. destruct M as [-> | [-> _]]; reflexivity.
  - rewrite run_cons. cbn [regular_ok] in R. destruct (safe_char c) eqn:Sc.
    + destruct (safe_char_plain c Sc) as [P Q].
      assert (exists pv, step s c = mk Normal (stack s) pv [] (urls s)) as [pv E].
      { destruct M as [M | [M _]]; [apply step_normal_plain|apply step_slash_plain]; assumption. }
      rewrite E. destruct (IH (mk Normal (stack s) pv [] (urls s)) St (or_introl eq_refl) R) as [A B]. auto.
    + destruct (star_slash c) eqn:SS; [|discriminate].
      assert (md s = Normal) as M'. { destruct M as [M | [_ M]]; [exact M|congruence]. }
      assert (exists s', step s c = s' /\ stack s' = [] /\ urls s' = urls s /\
              (md s' = Normal \/ md s' = Slash)) as [s' [E [St' [U' M2]]]].
      { destruct (star_slash_cases c SS) as [-> | ->].
        - destruct (step_normal_plain s x2a M' eq_refl) as [pv E]. eexists; split; [exact E|]. cbn. auto.
        - rewrite (step_normal_slash s M'). eexists; split; [reflexivity|]. cbn. auto. }
      rewrite E. destruct r as [|d r'].
      * rewrite run_nil. split; [|exact U']. unfold accepting. rewrite St'. destruct M2 as [-> | ->]; reflexivity.
      * apply andb_prop in R as [Sd R'].
        destruct (IH s' St') as [A B].
        { destruct M2 as [M2|M2]; [left; exact M2|right; split; [exact M2|exact Sd]]. }
        { cbn [regular_ok]. rewrite Sd. exact R'. }
        rewrite B. auto.
Qed.

Lemma regular_ok_confined v : regular_ok v = true -> confined v = true /\ urls_ok v = true.
Proof.
  intros R. destruct (regular_run v init eq_refl (or_introl eq_refl) R) as [A B].
  split; [exact A|]. unfold urls_ok, urls_of. rewrite B. reflexivity.
Qed.

Theorem regular_confined v : confined (sanitize_regular v) = true /\ urls_ok (sanitize_regular v) = true.
Proof.
  unfold sanitize_regular. destruct (regular_ok v) eqn:R; apply regular_ok_confined; [exact R|exact innocuous_value_regular].
Qed.

Lemma innocuous_value_confined : confined css_innocuous_value = true /\ urls_ok css_innocuous_value = true.
Proof. apply regular_ok_confined. exact innocuous_value_regular. Qed.

(* the enum pattern is a sub-language of the regular one *)
Lemma ident_byte_safe c : ident_byte c = true -> safe_char c = true.
Proof. destruct c; vm_compute; congruence. Qed.
Lemma enum_regular v : forallb ident_byte v = true -> regular_ok v = true.
Proof.
  induction v as [|c r IH]; [reflexivity|]. cbn [forallb regular_ok]. intros H. apply andb_prop in H as [Hc Hr].
  rewrite (ident_byte_safe c Hc). exact (IH Hr).
Qed.
Theorem enum_confined v : confined (sanitize_enum v) = true /\ urls_ok (sanitize_enum v) = true.
Proof.
  unfold sanitize_enum. destruct (forallb ident_byte v) eqn:E.
  - apply regular_ok_confined, enum_regular, E.
  - exact innocuous_value_confined.
Qed.

(* ---------- property names ---------- *)
Lemma lower_keeps c : ident_byte c = true -> (css_alpha (lower c) || Byte.eqb (lower c) x2d) = true.
Proof. destruct c; vm_compute; congruence. Qed.
Theorem property_name_ok p : name_ok (sanitize_property p) = true.
Proof.
  unfold sanitize_property. destruct (ident_ok p) eqn:E; [|exact innocuous_name_ok].
  unfold ident_ok in E. destruct p as [|c r]; [discriminate|]. unfold name_ok. cbn [map].
  change (forallb (fun b => css_alpha b || Byte.eqb b x2d) (map lower (c :: r)) = true).
  rewrite forallb_forall in *. intros x Hx. apply in_map_iff in Hx as [y [<- Hy]]. apply lower_keeps. apply E. exact Hy.
Qed.

(* ---------- strings ---------- *)
Definition str_inner (q c : byte) : bool :=
  negb (Byte.eqb c q) && negb (css_nl c) && negb (Byte.eqb c x3c) && negb (Byte.eqb c x5c).
Lemma step_str_inner s q u c : md s = Str q u -> str_inner q c = true ->
  step s c = mk (Str q u) (stack s) [] (if u then c :: cur s else []) (urls s).
Proof.
  intros M H. unfold str_inner in H. repeat (apply andb_prop in H as [H ?]).
  rewrite negb_true_iff in *. unfold step. rewrite M.
  rewrite H. replace (css_nl c || Byte.eqb c x3c) with false by (symmetry; apply orb_false_intro; assumption).
  rewrite H0. reflexivity.
Qed.
Lemma run_str q u m : forall s, md s = Str q u -> forallb (str_inner q) m = true ->
  md (run s m) = Str q u /\ stack (run s m) = stack s /\ urls (run s m) = urls s /\
  (u = true -> cur (run s m) = rev m ++ cur s).
Proof.
  induction m as [|c m IH]; intros s M H; [auto|]. cbn in H. apply andb_prop in H as [Hc Hm].
  rewrite run_cons, (step_str_inner s q u c M Hc).
  destruct (IH (mk (Str q u) (stack s) [] (if u then c :: cur s else []) (urls s)) eq_refl Hm) as [A [B [C D]]].
  repeat split; try assumption. intros ->. rewrite (D eq_refl). cbn. rewrite <- app_assoc. reflexivity.
Qed.
Lemma step_str_close s q u : md s = Str q u ->
  step s q = mk Normal (stack s) [] [] (if u then rev (cur s) :: urls s else urls s).
Proof. intros M. unfold step. rewrite M, byte_eqb_refl. destruct u; reflexivity. Qed.

(* ---------- font-family ---------- *)
Lemma fws_plain c : fws c = true -> plain c = true.
Proof. destruct c; vm_compute; congruence. Qed.
Lemma font_rest_plain c : font_rest_byte c = true -> plain c = true.
Proof. destruct c; vm_compute; congruence. Qed.
Lemma m_alpha_plain c : m_alpha c = true -> plain c = true.
Proof. destruct c; vm_compute; congruence. Qed.
Lemma font_bad_inner c : font_bad c = false -> str_inner x22 c = true.
Proof. destruct c; vm_compute; congruence. Qed.
Lemma forallb_impl {A} (f g : A -> bool) l : (forall x, f x = true -> g x = true) -> forallb f l = true -> forallb g l = true.
Proof. intros H. induction l as [|x l IH]; [reflexivity|]. cbn. intros E. apply andb_prop in E as [E1 E2]. rewrite (H x E1), (IH E2). reflexivity. Qed.

Definition G (us : list bytes) (s : st) : Prop := md s = Normal /\ stack s = [] /\ urls s = us.

Lemma G_plain us l s : G us s -> forallb plain l = true -> G us (run s l).
Proof. intros [M [S U]] P. destruct (run_plain l s M P) as [A [B C]]. repeat split; congruence. Qed.

Lemma font_item_run us i s : G us s -> font_item_ok i = true -> G us (run s i).
Proof.
  intros Gs H. destruct (trim_space_split i) as [l [r [E [Fl Fr]]]].
  unfold font_item_ok in H. rewrite E. rewrite !run_app.
  apply G_plain; [|exact (forallb_impl _ _ _ fws_plain Fr)].
  pose proof (G_plain us l s Gs (forallb_impl _ _ _ fws_plain Fl)) as G1.
  set (s1 := run s l) in *. clearbody s1. clear E.
  destruct (trim_space i) as [|c rr]; [discriminate|].
  destruct (Byte.eqb c x22) eqn:Q.
  - apply byte_eqb_eq in Q. subst c.
    destruct (rev rr) as [|d m] eqn:Rv; [discriminate|].
    apply andb_prop in H as [Hd Hm]. apply byte_eqb_eq in Hd. subst d.
    assert (rr = rev m ++ [x22]) as ->. { rewrite <- (rev_involutive rr), Rv. reflexivity. }
    destruct G1 as [M [S U]].
    rewrite run_cons.
    assert (step s1 x22 = mk (Str x22 false) (stack s1) [] [] (urls s1)) as ->.
    { destruct s1 as [m1 stk pv cu us1]; cbn [md] in M; subst; reflexivity. }
    rewrite run_app.
    apply negb_true_iff in Hm. apply existsb_false_forallb in Hm.
    assert (forallb (str_inner x22) (rev m) = true) as Hi.
    { eapply forallb_impl; [|exact Hm]. intros x Hx. apply font_bad_inner. apply negb_true_iff. exact Hx. }
    destruct (run_str x22 false (rev m) (mk (Str x22 false) (stack s1) [] [] (urls s1)) eq_refl Hi) as [A [B [C _]]].
    set (s2 := run _ (rev m)) in *. clearbody s2. cbn [stack urls] in B, C.
    rewrite run_cons, run_nil, (step_str_close s2 x22 false A). repeat split; cbn; congruence.
  - apply G_plain; [exact G1|].
    unfold generic_font in H. destruct rr as [|c2 r2]; [discriminate|]. apply andb_prop in H as [Hc Hr].
    cbn [forallb]. rewrite (m_alpha_plain c Hc). cbn [andb]. exact (forallb_impl _ _ _ font_rest_plain Hr).
Qed.

Lemma G_comma us s : G us s -> G us (step s x2c).
Proof. intros [M [S U]]. destruct (step_normal_plain s x2c M eq_refl) as [pv E]. rewrite E. repeat split; assumption. Qed.

Lemma items_run (P : st -> Prop) (ok : bytes -> Prop) :
  (forall s i, P s -> ok i -> P (run s i)) -> (forall s, P s -> P (step s x2c)) ->
  forall items s, P s -> (forall i, In i items -> ok i) -> P (run s (join_comma items)).
Proof.
  intros Hi Hc. induction items as [|x r IH]; intros s Ps Hok; [exact Ps|].
  destruct r as [|y r'].
  - cbn [join_comma]. apply Hi; [exact Ps|]. apply Hok. left; reflexivity.
  - rewrite join_cons2, run_app, run_cons. apply IH.
    + apply Hc. apply Hi; [exact Ps|]. apply Hok. left; reflexivity.
    + intros i Hin. apply Hok. right; exact Hin.
Qed.

Theorem font_family_confined v : confined (sanitize_font_family v) = true /\ urls_ok (sanitize_font_family v) = true.
Proof.
  unfold sanitize_font_family. destruct (forallb font_item_ok (split_comma v)) eqn:E; [|exact innocuous_value_confined].
  rewrite forallb_forall in E.
  pose proof (items_run (G []) (fun i => font_item_ok i = true) (fun s i => font_item_run [] i s) (G_comma [])
                (split_comma v) init (conj eq_refl (conj eq_refl eq_refl)) E) as [M [S U]].
  rewrite join_split in *. unfold confined, urls_ok, urls_of, accepting. rewrite M, S, U. split; reflexivity.
Qed.

(* ------------------------------------------------------------------------------------------ *)
(* background-image *)

Lemma has_suffix_split p s : has_suffix p s = true -> s = firstn (length s - length p) s ++ p.
Proof.
  unfold has_suffix. intros H. apply has_prefix_split in H. rewrite rev_length, skipn_rev in H.
  rewrite <- (rev_involutive s) at 1. rewrite H, rev_app_distr, !rev_involutive. reflexivity.
Qed.

(* one url( form of the table: either the item is prefix ++ body ++ suffix, or prefix and suffix overlap,
   in which case the body still ends with the ')' of the suffix and is rejected by the ContainsAny test *)
Lemma form_shape pre suf sb t :
  has_prefix pre t = true -> has_suffix suf t = true -> suf = sb ++ [x29] ->
  (forall y, pre <> y ++ [x29]) ->
  let body := trim_suffix suf (trim_prefix pre t) in
  t = pre ++ body ++ suf \/ existsb url_bad body = true.
Proof.
  intros Hp Hs Esuf Hpre body. subst body. unfold trim_prefix. rewrite Hp.
  pose proof (has_prefix_split pre t Hp) as Et. set (u := skipn (length pre) t) in *.
  unfold trim_suffix. destruct (has_suffix suf u) eqn:Hu.
  - left. rewrite Et at 1. f_equal. apply has_suffix_split. exact Hu.
  - right. apply has_suffix_split in Hs. rewrite Esuf in Hs.
    set (y := firstn _ t) in Hs. clearbody y.
    destruct u as [|a u'] eqn:Eu.
    + exfalso. rewrite app_nil_r in Et. apply (Hpre (y ++ sb)). rewrite <- app_assoc. congruence.
    + assert (a :: u' <> []) as Ne by discriminate.
      destruct (exists_last Ne) as [u2 [z Ez]]. rewrite Ez in *.
      rewrite Et in Hs. rewrite !app_assoc in Hs. apply app_inj_tail in Hs as [_ ->].
      rewrite existsb_app. cbn. apply orb_true_r.
Qed.

Lemma find_form_shape t body : find_form url_forms t = Some body ->
  existsb url_bad body = true \/
  t = bs "url(" ++ x22 :: body ++ [x22; x29] \/ t = bs "url(" ++ x27 :: body ++ [x27; x29] \/ t = bs "url(" ++ body ++ [x29].
Proof.
  rewrite url_forms_modelled. cbn [find_form].
  assert (forall q y, bs "url(" ++ [q] <> y ++ [x29] \/ q = x29) as Hq.
  { intros q y. destruct (Byte.eqb q x29) eqn:E; [right; apply byte_eqb_eq; exact E|left].
    intros H. change (bs "url(" ++ [q]) with ([x75; x72; x6c; x28] ++ [q]) in H.
    apply app_inj_tail in H as [_ ->]. discriminate. }
  destruct (has_prefix (bs "url(""") t && has_suffix (bs """)") t) eqn:F1.
  { apply andb_prop in F1 as [Hp Hs]. intros [= <-].
    destruct (form_shape _ _ [x22] t Hp Hs eq_refl) as [E|E]; [|right; left; exact E|left; exact E].
    intros y. destruct (Hq x22 y) as [H|H]; [exact H|discriminate]. }
  destruct (has_prefix (bs "url('") t && has_suffix (bs "')") t) eqn:F2.
  { apply andb_prop in F2 as [Hp Hs]. intros [= <-].
    destruct (form_shape _ _ [x27] t Hp Hs eq_refl) as [E|E]; [|right; right; left; exact E|left; exact E].
    intros y. destruct (Hq x27 y) as [H|H]; [exact H|discriminate]. }
  destruct (has_prefix (bs "url(") t && has_suffix (bs ")") t) eqn:F3; [|discriminate].
  apply andb_prop in F3 as [Hp Hs]. intros [= <-].
  destruct (form_shape _ _ [] t Hp Hs eq_refl) as [E|E]; [|right; right; right; exact E|left; exact E].
  intros y H. change (bs "url(") with ([x75; x72; x6c] ++ [x28]) in H. apply app_inj_tail in H as [_ H]. discriminate.
Qed.

(* ---------- the URL inside: scheme ---------- *)
Definition parse_contract (parse : bytes -> option bytes) : Prop :=
  forall b sc, parse b = Some sc -> existsb ctl_byte (pre_hash b) = false /\ sc = go_scheme b.

Lemma alpha_agree c : is_alpha c = m_alpha c.
Proof. destruct c; vm_compute; reflexivity. Qed.
Lemma scheme_char_agree c : is_scheme_char c = scheme_byte c.
Proof. destruct c; vm_compute; reflexivity. Qed.
Lemma scheme_rest_agree r : scheme_rest r = go_scheme_rest r.
Proof. induction r as [|c r IH]; [reflexivity|]. cbn. rewrite scheme_char_agree, IH. reflexivity. Qed.

Definition lowasc (b : byte) : bool := (bN b <? 128) && Byte.eqb (lower b) b.
Lemma scheme_byte_lowasc c : scheme_byte c = true -> lowasc (lower c) = true.
Proof. destruct c; vm_compute; congruence. Qed.
Lemma m_alpha_scheme c : m_alpha c = true -> scheme_byte c = true.
Proof. destruct c; vm_compute; congruence. Qed.
Lemma go_scheme_rest_lowasc r : forall t, go_scheme_rest r = Some t -> forallb lowasc t = true.
Proof.
  induction r as [|c r IH]; intros t H; [discriminate|]. cbn in H.
  destruct (Byte.eqb c x3a); [injection H as <-; reflexivity|].
  destruct (scheme_byte c) eqn:S; [|discriminate].
  destruct (go_scheme_rest r) as [t'|]; [|discriminate]. injection H as <-. cbn. rewrite (scheme_byte_lowasc c S). exact (IH t' eq_refl).
Qed.
Lemma go_scheme_lowasc b : forallb lowasc (go_scheme b) = true.
Proof.
  unfold go_scheme. destruct b as [|c r]; [reflexivity|]. destruct (m_alpha c) eqn:A; [|reflexivity].
  destruct (go_scheme_rest r) as [t|] eqn:R; [|reflexivity]. cbn.
  rewrite (scheme_byte_lowasc c (m_alpha_scheme c A)). exact (go_scheme_rest_lowasc r t R).
Qed.

Lemma fold_match_lowasc t : forall x, forallb lowasc x = true -> fold_match x t = true -> x = t.
Proof.
  induction t as [|c t IH]; intros x L H.
  - destruct x; [reflexivity|discriminate].
  - destruct x as [|b x']; [discriminate|]. cbn in L. apply andb_prop in L as [Lb Lx].
    unfold lowasc in Lb. apply andb_prop in Lb as [Asc Low]. apply byte_eqb_eq in Low.
    cbn [fold_match] in H. rewrite Low in H. destruct (Byte.eqb b c) eqn:E.
    + apply byte_eqb_eq in E. subst c. f_equal. exact (IH x' Lx H).
    + exfalso. destruct c; try discriminate H; destruct x' as [|b2 x2]; try discriminate H;
        destruct b; try discriminate H; discriminate Asc.
Qed.

Lemma url_bad_not_tabnl c : url_bad c = false -> is_tabnl c = false /\ Byte.eqb c x5c = false.
Proof. destruct c; vm_compute; intros; try discriminate; split; reflexivity. Qed.
Lemma first_byte_solid c : url_bad c = false -> (Byte.eqb c x23 = true \/ ctl_byte c = false) -> is_c0_space c = false.
Proof. destruct c; vm_compute; intros H [K|K]; congruence. Qed.

Lemma preprocess_body body : existsb url_bad body = false -> existsb ctl_byte (pre_hash body) = false ->
  preprocess body = body.
Proof.
  intros B C. unfold preprocess.
  assert (drop_while is_c0_space body = body) as ->.
  { destruct body as [|c r]; [reflexivity|]. cbn in B. apply orb_false_elim in B as [Bc _].
    cbn [drop_while]. rewrite first_byte_solid; [reflexivity|exact Bc|].
    cbn [pre_hash] in C. destruct (Byte.eqb c x23); [left; reflexivity|right]. cbn in C. apply orb_false_elim in C as [C _]. exact C. }
  clear C. induction body as [|c r IH]; [reflexivity|]. cbn in B. apply orb_false_elim in B as [Bc Br].
  cbn. destruct (url_bad_not_tabnl c Bc) as [-> _]. cbn. f_equal. exact (IH Br).
Qed.

Section Contract.
Variable parse : bytes -> option bytes.
Hypothesis contract : parse_contract parse.

Lemma body_url_ok body : existsb url_bad body = false -> url_is_safe parse body = true -> url_ok body = true.
Proof.
  intros B S. unfold url_ok. apply andb_true_intro. split.
  - apply negb_true_iff. clear S. induction body as [|c r IH]; [reflexivity|]. cbn in B |- *.
    apply orb_false_elim in B as [Bc Br]. destruct (url_bad_not_tabnl c Bc) as [_ ->]. exact (IH Br).
  - unfold url_is_safe in S. destruct (parse body) as [sc|] eqn:P; [|discriminate].
    destruct (contract body sc P) as [C ->].
    unfold browser_scheme. rewrite (preprocess_body body B C).
    pose proof (go_scheme_lowasc body) as L. unfold go_scheme in *.
    destruct body as [|c r]; [reflexivity|]. rewrite alpha_agree. destruct (m_alpha c) eqn:A; [|reflexivity].
    rewrite scheme_rest_agree. destruct (go_scheme_rest r) as [t|] eqn:R; [|reflexivity]. cbn [option_map].
    repeat (apply orb_prop in S as [S|S]); apply (fold_match_lowasc _ _ L) in S; rewrite S; reflexivity.
Qed.

(* ---------- the scanner over one url(...) item ---------- *)
Definition G0 (s : st) : Prop := md s = Normal /\ stack s = [] /\ prev s = [] /\ forallb url_ok (urls s) = true.

Lemma step_ws0 s c : G0 s -> cut_css_ws c = true -> G0 (step s c).
Proof.
  intros [M [S [P U]]] W. destruct s as [m stk pv cu us]; cbn [md stack prev urls] in *; subst.
  destruct c; try discriminate W; repeat split; assumption.
Qed.
Lemma run_ws0 l : forall s, G0 s -> forallb cut_css_ws l = true -> G0 (run s l).
Proof.
  induction l as [|c l IH]; intros s Gs W; [exact Gs|]. cbn in W. apply andb_prop in W as [Wc Wl].
  rewrite run_cons. apply IH; [apply step_ws0; assumption|exact Wl].
Qed.
Lemma step_comma0 s : G0 s -> G0 (step s x2c).
Proof.
  intros [M [S [P U]]]. destruct s as [m stk pv cu us]; cbn [md stack prev urls] in *; subst. repeat split; assumption.
Qed.
Lemma run_url_open s : G0 s -> run s (bs "url(") = mk UrlStart [] [] [] (urls s).
Proof.
  intros [M [S [P U]]]. destruct s as [m stk pv cu us]; cbn [md stack prev urls] in *; subst. reflexivity.
Qed.

Lemma url_bad_inner q c : css_quote q = true -> url_bad c = false -> Byte.eqb c x3c = false -> str_inner q c = true.
Proof.
  intros Q. assert (q = x22 \/ q = x27) as [-> | ->] by (destruct q; try discriminate Q; auto);
  destruct c; vm_compute; congruence.
Qed.

(* quoted forms: url("body") and url('body') *)
Lemma quoted_item_run q body s : css_quote q = true -> G0 s ->
  existsb url_bad body = false -> forallb (fun c => negb (angle c)) body = true -> url_ok body = true ->
  G0 (run s (bs "url(" ++ q :: body ++ [q; x29])).
Proof.
  intros Q Gs B A U. rewrite run_app, (run_url_open s Gs), run_cons.
  assert (step (mk UrlStart [] [] [] (urls s)) q = mk (Str q true) [x29] [] [] (urls s)) as ->.
  { destruct q; try discriminate Q; reflexivity. }
  rewrite run_app.
  assert (forallb (str_inner q) body = true) as Hi.
  { apply existsb_false_forallb in B. clear U. induction body as [|c r IH]; [reflexivity|].
    cbn in B, A |- *. apply andb_prop in B as [Bc Br]. apply andb_prop in A as [Ac Ar].
    rewrite IH by assumption. rewrite andb_true_r. apply url_bad_inner; [exact Q|apply negb_true_iff; exact Bc|].
    unfold angle in Ac. apply negb_true_iff in Ac. apply orb_false_elim in Ac as [Ac _]. exact Ac. }
  destruct (run_str q true body (mk (Str q true) [x29] [] [] (urls s)) eq_refl Hi) as [M [S [Us C]]].
  set (s2 := run _ body) in *. clearbody s2. cbn [stack urls cur] in *. specialize (C eq_refl). rewrite app_nil_r in C.
  rewrite run_cons, (step_str_close s2 q true M), S, C, Us, rev_involutive, run_cons, run_nil.
  destruct Gs as [_ [_ [_ Ug]]]. repeat split; try reflexivity. cbn. rewrite U, Ug. reflexivity.
Qed.

(* unquoted form: url(body); control bytes after a '#' make it a bad-url, which still ends at the ')' *)
Lemma step_raw_byte s c : md s = UrlStart \/ md s = UrlRaw -> url_bad c = false -> Byte.eqb c x3c = false ->
  step s c = if css_nonprintable c then bad_url s else mk UrlRaw (stack s) [] (c :: cur s) (urls s).
Proof.
  intros M B A. destruct s as [m stk pv cu us]; cbn [md] in M. unfold bad_url; cbn [stack cur urls].
  destruct M as [-> | ->]; destruct c; try discriminate B; try discriminate A; reflexivity.
Qed.
Lemma step_bad_byte s c : md s = BadUrl -> url_bad c = false -> Byte.eqb c x3c = false -> step s c = s.
Proof.
  intros M B A. destruct s as [m stk pv cu us]; cbn [md] in M; subst.
  destruct c; try discriminate B; try discriminate A; reflexivity.
Qed.
Lemma run_raw body : forall s, md s = UrlStart \/ md s = UrlRaw \/ md s = BadUrl ->
  existsb url_bad body = false -> forallb (fun c => negb (angle c)) body = true ->
  let s' := run s body in
  stack s' = stack s /\ urls s' = urls s /\
  (md s' = BadUrl \/ ((md s' = UrlStart \/ md s' = UrlRaw) /\ cur s' = rev body ++ cur s)).
Proof.
  induction body as [|c r IH]; intros s M B A.
  - cbn. repeat split. destruct M as [M|[M|M]]; auto.
  - cbn in B, A. apply orb_false_elim in B as [Bc Br]. apply andb_prop in A as [Ac Ar].
    unfold angle in Ac. apply negb_true_iff in Ac. apply orb_false_elim in Ac as [Ac _].
    rewrite run_cons.
    assert (exists s1, step s c = s1 /\ stack s1 = stack s /\ urls s1 = urls s /\
            (md s1 = BadUrl \/ (md s1 = UrlRaw /\ cur s1 = c :: cur s))) as [s1 [E [S1 [U1 M1]]]].
    { destruct M as [M|[M|M]].
      - rewrite (step_raw_byte s c (or_introl M) Bc Ac). destruct (css_nonprintable c); eexists; split; try reflexivity; cbn; auto.
      - rewrite (step_raw_byte s c (or_intror M) Bc Ac). destruct (css_nonprintable c); eexists; split; try reflexivity; cbn; auto.
      - rewrite (step_bad_byte s c M Bc Ac). eexists; split; [reflexivity|]. auto. }
    rewrite E. destruct (IH s1) as [S2 [U2 M2]]; try assumption.
    { destruct M1 as [M1|[M1 _]]; auto. }
    cbn zeta in *. repeat split; try congruence.
    destruct M2 as [M2|[M2 C2]]; [left; exact M2|].
    destruct M1 as [M1|[M1 C1]].
    + (* once bad, always bad *) exfalso. clear -M1 M2 Br Ar.
      assert (forall r s1, md s1 = BadUrl -> existsb url_bad r = false -> forallb (fun c => negb (angle c)) r = true -> md (run s1 r) = BadUrl) as K.
      { clear. induction r as [|c r IH]; intros s1 M B A; [exact M|]. cbn in B, A.
        apply orb_false_elim in B as [Bc Br]. apply andb_prop in A as [Ac Ar].
        unfold angle in Ac. apply negb_true_iff in Ac. apply orb_false_elim in Ac as [Ac _].
        rewrite run_cons, (step_bad_byte s1 c M Bc Ac). apply IH; assumption. }
      rewrite (K r s1 M1 Br Ar) in M2. destruct M2; discriminate.
    + right. split; [exact M2|]. rewrite C2, C1. cbn. rewrite <- app_assoc. reflexivity.
Qed.

Lemma raw_item_run body s : G0 s ->
  existsb url_bad body = false -> forallb (fun c => negb (angle c)) body = true -> url_ok body = true ->
  G0 (run s (bs "url(" ++ body ++ [x29])).
Proof.
  intros Gs B A U. rewrite run_app, (run_url_open s Gs), run_app.
  destruct (run_raw body (mk UrlStart [] [] [] (urls s)) (or_introl eq_refl) B A) as [S [Us M]].
  set (s2 := run _ body) in *. clearbody s2. cbn [stack urls cur] in *.
  rewrite run_cons, run_nil. destruct Gs as [_ [_ [_ Ug]]].
  destruct s2 as [m stk pv cu us]; cbn [md stack urls cur] in *; subst.
  destruct M as [-> | [[-> | ->] ->]]; repeat split; try reflexivity; try exact Ug;
    cbn; rewrite app_nil_r, rev_involutive, U, Ug; reflexivity.
Qed.

Lemma bg_item_run s i : G0 s -> (bg_item_ok parse i = true /\ forallb (fun c => negb (angle c)) i = true) -> G0 (run s i).
Proof.
  intros Gs [H A]. destruct (trim_css_split i) as [l [r [E [Fl Fr]]]].
  unfold bg_item_ok in H. destruct (find_form url_forms (trim_css i)) as [body|] eqn:F; [|discriminate].
  apply andb_prop in H as [B S]. apply negb_true_iff in B. unfold contains_any in B.
  rewrite E in A |- *. rewrite !run_app. apply run_ws0; [|exact Fr].
  pose proof (run_ws0 l s Gs Fl) as G1. set (s1 := run s l) in *. clearbody s1.
  apply forallb_app_r, forallb_app_l' in A.
  pose proof (body_url_ok body B S) as U.
  destruct (find_form_shape _ _ F) as [K|[K|[K|K]]]; [congruence| | |]; rewrite K in A |- *.
  - apply quoted_item_run; try assumption; [reflexivity|].
    apply forallb_app_r in A. cbn [forallb] in A. apply andb_prop in A as [_ A]. apply forallb_app_l' in A. exact A.
  - apply quoted_item_run; try assumption; [reflexivity|].
    apply forallb_app_r in A. cbn [forallb] in A. apply andb_prop in A as [_ A]. apply forallb_app_l' in A. exact A.
  - apply raw_item_run; try assumption.
    apply forallb_app_r in A. apply forallb_app_l' in A. exact A.
Qed.

Theorem background_image_confined v :
  confined (sanitize_background_image parse v) = true /\ urls_ok (sanitize_background_image parse v) = true.
Proof.
  unfold sanitize_background_image. destruct (contains_any angle v) eqn:A; [exact innocuous_value_confined|].
  destruct (forallb (bg_item_ok parse) (split_comma v)) eqn:E; [|exact innocuous_value_confined].
  rewrite forallb_forall in E. unfold contains_any in A. apply existsb_false_forallb in A.
  assert (G0 (run init (join_comma (split_comma v)))) as [M [S [_ U]]].
  { apply (items_run G0 (fun i => bg_item_ok parse i = true /\ forallb (fun c => negb (angle c)) i = true)).
    - exact bg_item_run.
    - exact step_comma0.
    - repeat split; reflexivity.
    - intros i Hin. split; [apply E; exact Hin|]. apply (forallb_join _ (split_comma v)); [rewrite join_split; exact A|exact Hin]. }
  rewrite join_split in *. unfold confined, urls_ok, urls_of, accepting. rewrite M, S, U. split; reflexivity.
Qed.

(* ---------- SanitizeCSS ---------- *)
Lemma lookup_kind p t k : lookup p t = Some k -> forallb (fun e : bytes * N => snd e <? 4) t = true -> k < 4.
Proof.
  induction t as [|[key v] t IH]; [discriminate|]. cbn. intros H F. apply andb_prop in F as [Fv Ft].
  destruct (bytes_eqb key p); [injection H as <-; apply N.ltb_lt; exact Fv|exact (IH H Ft)].
Qed.

Theorem value_confined p v : confined (sanitize_value parse p v) = true /\ urls_ok (sanitize_value parse p v) = true.
Proof.
  unfold sanitize_value. destruct (lookup p css_table) as [k|] eqn:L; [|apply regular_confined].
  pose proof (lookup_kind p css_table k L table_kinds_known) as K.
  assert (k = 0 \/ k = 1 \/ k = 2 \/ k = 3) as [-> | [-> | [-> | ->]]] by lia; cbn.
  - apply regular_confined.
  - apply enum_confined.
  - apply font_family_confined.
  - apply background_image_confined.
Qed.

Theorem css_confined p v :
  let (p', v') := sanitize_css parse p v in name_ok p' = true /\ confined v' = true /\ urls_ok v' = true.
Proof.
  unfold sanitize_css. destruct (bytes_eqb (sanitize_property p) css_innocuous_name).
  - split; [exact innocuous_name_ok|exact innocuous_value_confined].
  - split; [apply property_name_ok|apply value_confined].
Qed.

(* any rejected input is replaced by the fixed innocuous name / value; accepted input is returned as it is
   (the name lower-cased) *)
Theorem css_input_or_innocuous p v :
  let (p', v') := sanitize_css parse p v in
  (p' = map lower p \/ p' = css_innocuous_name) /\ (v' = v \/ v' = css_innocuous_value).
Proof.
  unfold sanitize_css. destruct (bytes_eqb (sanitize_property p) css_innocuous_name); [auto|].
  split.
  - unfold sanitize_property. destruct (ident_ok p); auto.
  - unfold sanitize_value. destruct (lookup (sanitize_property p) css_table) as [k|] eqn:L.
    + pose proof (lookup_kind _ css_table k L table_kinds_known) as K.
      assert (k = 0 \/ k = 1 \/ k = 2 \/ k = 3) as [-> | [-> | [-> | ->]]] by lia; cbn;
        unfold sanitize_regular, sanitize_enum, sanitize_font_family, sanitize_background_image;
        repeat match goal with |- context [if ?b then _ else _] => destruct b end; auto.
    + unfold sanitize_regular. destruct (regular_ok v); auto.
Qed.

End Contract.

(* ------------------------------------------------------------------------------------------ *)
(* the style attribute *)
Definition piece_ok (p : piece) : Prop :=
  match p with
  | PDecl n v => name_ok n = true /\ confined v = true /\ urls_ok v = true
  | PSafeDecl n _ => name_ok n = true         (* the value is trusted by its type *)
  | PText _ | PUnsupported => True            (* developer-written text / the fixed constant *)
  end.

Section StyleAttr.
Variable parse : bytes -> option bytes.
Hypothesis contract : parse_contract parse.

Lemma sa_value_ok : forall v ps, sa_value parse v = Some ps -> Forall piece_ok ps.
Proof.
  fix IH 1. intros v ps H. destruct v; cbn [sa_value] in H.
  - injection H as <-. repeat constructor.
  - injection H as <-. repeat constructor.
  - injection H as <-. constructor.
  - injection H as <-. repeat constructor.
  - injection H as <-. apply Forall_forall. intros x Hx. apply in_map_iff in Hx as [[k y] [<- _]].
    cbn [fst snd]. pose proof (css_confined parse contract k y) as C. destruct (sanitize_css parse k y). exact C.
  - injection H as <-. apply Forall_forall. intros x Hx. apply in_map_iff in Hx as [[k y] [<- _]].
    cbn. apply property_name_ok.
  - pose proof (css_confined parse contract k v) as C. destruct (sanitize_css parse k v).
    injection H as <-. repeat constructor; apply C.
  - exact (IH v ps H).
  - discriminate.
  - revert ps H. induction l as [|x r IHl]; intros ps H.
    + injection H as <-. constructor.
    + destruct (sa_value parse x) as [a|] eqn:Ea; [|discriminate].
      match type of H with match ?g with _ => _ end = _ => destruct g as [b|] eqn:Eb; [|discriminate] end.
      injection H as <-. apply Forall_app. split; [exact (IH x a Ea)|exact (IHl b eq_refl)].
  - injection H as <-. repeat constructor.
Qed.

Theorem style_attr_confined : forall vals ps, sa_values parse vals = Some ps -> Forall piece_ok ps.
Proof.
  induction vals as [|x r IH]; intros ps H; cbn [sa_values] in H.
  - injection H as <-. constructor.
  - match type of H with match ?g with _ => _ end = _ => destruct g as [a|] eqn:Ea; [|discriminate] end.
    destruct (sa_values parse r) as [b|] eqn:Eb; [|discriminate]. injection H as <-.
    apply Forall_app. split; [|exact (IH b eq_refl)].
    destruct x; try discriminate Ea; try exact (sa_value_ok _ _ Ea). injection Ea as <-. constructor.
Qed.

(* every byte of the attribute value is HTML-escaped: nothing in it can close the attribute or open a tag *)
Definition attr_safe (b : byte) : bool := negb (Byte.eqb b x22 || Byte.eqb b x27 || Byte.eqb b x3c || Byte.eqb b x3e).
Lemma html_esc_safe t : forallb attr_safe (html_esc t) = true.
Proof.
  induction t as [|c r IH]; [reflexivity|]. cbn [html_esc]. rewrite forallb_app, IH, andb_true_r.
  destruct c; reflexivity.
Qed.
Lemma render_piece_safe p : forallb attr_safe (render_piece p) = true.
Proof.
  destruct p; cbn [render_piece]; rewrite ?forallb_app, ?html_esc_safe; try reflexivity.
  - destruct (has_suffix [x3b] t); reflexivity.
Qed.
Theorem style_attr_closed : forall vals out, style_attr parse vals = Some out -> forallb attr_safe out = true.
Proof.
  intros vals out H. unfold style_attr in H. destruct (sa_values parse vals) as [ps|]; [|discriminate].
  injection H as <-. induction ps as [|p ps IH]; [reflexivity|]. cbn [map concat]. rewrite forallb_app, render_piece_safe, IH. reflexivity.
Qed.
End StyleAttr.

(* ------------------------------------------------------------------------------------------ *)
(* confined, read as in the emitted text: "name:value;" written for confined values reads back, with the
   same scanner, as exactly those declarations - the ';' the emitter writes is the one that ends each *)
Lemma bad_absorbing v : forall s, md s = Bad -> md (run s v) = Bad.
Proof.
  induction v as [|c r IH]; intros s M; [exact M|]. rewrite run_cons. apply IH. unfold step. rewrite M. exact M.
Qed.
Lemma accepting_not_bad s : md s = Bad -> accepting s = false.
Proof. unfold accepting. intros ->. reflexivity. Qed.
Lemma accepting_semicolon s : accepting s = true -> md (step s x3b) = Bad.
Proof.
  destruct s as [m stk pv cu us]. unfold accepting; cbn [md stack].
  destruct m; try discriminate; destruct stk; try discriminate; reflexivity.
Qed.

Lemma take_value_confined v : forall s acc rest, accepting (run s v) = true ->
  take_value s (v ++ x3b :: rest) acc = Some (rev acc ++ v, rest).
Proof.
  induction v as [|c r IH]; intros s acc rest A.
  - rewrite run_nil in A. cbn. rewrite A. cbn. rewrite app_nil_r. reflexivity.
  - rewrite run_cons in A. cbn [app take_value].
    assert (md (step s c) <> Bad) as NB.
    { intros B. rewrite (accepting_not_bad _ (bad_absorbing r _ B)) in A. discriminate. }
    assert (accepting s && Byte.eqb c x3b = false) as ->.
    { destruct (accepting s) eqn:As; [|reflexivity]. destruct (Byte.eqb c x3b) eqn:E; [|reflexivity].
      apply byte_eqb_eq in E. subst c. exfalso. apply NB. apply accepting_semicolon. exact As. }
    rewrite (IH (step s c) (c :: acc) rest A). cbn [rev]. rewrite <- app_assoc. cbn [app].
    destruct (md (step s c)); try reflexivity. congruence.
Qed.

Lemma take_name_nocolon n : forall acc r, forallb (fun b => negb (Byte.eqb b x3a)) n = true ->
  take_name (n ++ x3a :: r) acc = Some (rev acc ++ n, r).
Proof.
  induction n as [|c n IH]; intros acc r H.
  - cbn. rewrite app_nil_r. reflexivity.
  - cbn in H. apply andb_prop in H as [Hc Hn]. apply negb_true_iff in Hc. cbn [app take_name]. rewrite Hc.
    rewrite (IH (c :: acc) r Hn). cbn [rev]. rewrite <- app_assoc. reflexivity.
Qed.
Lemma name_ok_nocolon n : name_ok n = true -> forallb (fun b => negb (Byte.eqb b x3a)) n = true /\ n <> [].
Proof.
  unfold name_ok. destruct n as [|c r]; [discriminate|]. intros H. split; [|discriminate].
  eapply forallb_impl; [|exact H]. intros x. destruct x; vm_compute; congruence.
Qed.

Definition render_decl (d : bytes * bytes) : bytes := fst d ++ x3a :: snd d ++ [x3b].
Definition render_decls (ds : list (bytes * bytes)) : bytes := concat (map render_decl ds).

Lemma render_cons n v ds : render_decls ((n, v) :: ds) = n ++ x3a :: (v ++ x3b :: render_decls ds).
Proof.
  unfold render_decls. cbn [map concat]. unfold render_decl at 1. cbn [fst snd].
  rewrite <- app_assoc. cbn [app]. rewrite <- app_assoc. reflexivity.
Qed.
Lemma decls_unfold f t : t <> [] ->
  decls (S f) t = match take_name t [] with
                  | None => None
                  | Some (n, r) =>
                      match take_value init r [] with
                      | None => None
                      | Some (val, r') => match decls f r' with Some ds => Some ((n, val) :: ds) | None => None end
                      end
                  end.
Proof. destruct t; [congruence|reflexivity]. Qed.

Lemma decls_roundtrip ds : forall fuel, (length ds < fuel)%nat ->
  Forall (fun d => name_ok (fst d) = true /\ confined (snd d) = true) ds ->
  decls fuel (render_decls ds) = Some ds.
Proof.
  induction ds as [|[n v] ds IH]; intros fuel L F.
  - destruct fuel; reflexivity.
  - inversion F as [|? ? [Hn Hv] F']; subst. cbn [fst snd] in *.
    destruct (name_ok_nocolon n Hn) as [NC NE].
    destruct fuel as [|f]; [cbn in L; lia|].
    rewrite render_cons, decls_unfold by (destruct n; [congruence|discriminate]).
    rewrite (take_name_nocolon n [] _ NC). cbn [rev app].
    rewrite (take_value_confined v init [] (render_decls ds) Hv). cbn [rev app].
    rewrite (IH f); [reflexivity|cbn in L; lia|exact F'].
Qed.

Lemma render_decls_length ds : (length ds <= length (render_decls ds))%nat.
Proof.
  induction ds as [|d ds IH]; [cbn; lia|]. unfold render_decls in *. cbn [map concat length]. rewrite app_length.
  unfold render_decl at 1. rewrite app_length. cbn [length]. lia.
Qed.

Theorem decl_list_roundtrip ds :
  Forall (fun d => name_ok (fst d) = true /\ confined (snd d) = true) ds ->
  decl_list (render_decls ds) = Some ds.
Proof.
  intros F. unfold decl_list. apply decls_roundtrip; [|exact F]. pose proof (render_decls_length ds). lia.
Qed.

(* templ.SanitizeCSS (css component expressions): the text written for a dynamic property reads back as
   exactly one declaration, whose name and value are the sanitiser's *)
Theorem templ_css_reads_back parse : parse_contract parse -> forall p v,
  let (p', v') := sanitize_css parse p v in
  templ_sanitize_css parse false p v = p' ++ [x3a] ++ v' ++ [x3b] /\
  decl_list (templ_sanitize_css parse false p v) = Some [(p', v')].
Proof.
  intros C p v. pose proof (css_confined parse C p v) as H. unfold templ_sanitize_css.
  destruct (sanitize_css parse p v) as [p' v']. destruct H as [Hn [Hc _]]. split; [reflexivity|].
  replace (p' ++ [x3a] ++ v' ++ [x3b]) with (render_decls [(p', v')]).
  - apply decl_list_roundtrip. repeat constructor; assumption.
  - rewrite render_cons. unfold render_decls. cbn. reflexivity.
Qed.

(* the contract is satisfiable: a parser that fails on a control byte before '#' and otherwise reports go_scheme *)
Definition parse_example (b : bytes) : option bytes :=
  if existsb ctl_byte (pre_hash b) then None else Some (go_scheme b).
Lemma parse_example_contract : parse_contract parse_example.
Proof.
  intros b sc. unfold parse_example. destruct (existsb ctl_byte (pre_hash b)) eqn:E; [discriminate|].
  intros [= <-]. split; reflexivity.
Qed.
