(* C04 end to end: what the BROWSER ends up with for a dynamic href / action.
     templ.URL (model/Url.v)  ->  templ.EscapeString between double quotes (model/Escape.v, model/DocFrag.v)
     ->  tokenizer (spec/HtmlTok.v)  ->  character references of the attribute value (spec/HtmlRefs.v)
     ->  WHATWG scheme extraction (spec/Whatwg.v).
   Also: the full named-reference table of the standard (spec/HtmlEntities.v) satisfies [table_ok]. *)
From Coq.Strings Require Import Byte String.
From Coq Require Import List Arith NArith Bool Lia.
Import ListNotations.
From V Require Import lib.Bytes spec.HtmlTok spec.HtmlRefs spec.HtmlEntities spec.Whatwg spec.UrlSink spec.DocExpect
  model.Escape model.StyleAttr model.DocFrag model.Url proofs.EscapeProof proofs.TokProof proofs.UrlProof.

(* ---------- a linear decidable condition for table_ok: names strictly increasing ---------- *)
Fixpoint bytes_ltb (a b : bytes) : bool :=
  match a, b with
  | [], _ :: _ => true
  | _, [] => false
  | x :: a', y :: b' => if (bN x <? bN y)%N then true else if Byte.eqb x y then bytes_ltb a' b' else false
  end.
Fixpoint names_sorted (t : list (bytes * bytes)) : bool :=
  match t with
  | a :: r => match r with b :: _ => bytes_ltb (fst a) (fst b) | [] => true end && names_sorted r
  | [] => true
  end.
Definition table_sorted_okb (t : list (bytes * bytes)) : bool :=
  forallb (fun p => semi_okb (fst p)) t && names_sorted t &&
  existsb (fun p => bytes_eqb (fst p) (bs "amp;") && bytes_eqb (snd p) [x26]) t &&
  existsb (fun p => bytes_eqb (fst p) (bs "lt;") && bytes_eqb (snd p) [x3c]) t &&
  existsb (fun p => bytes_eqb (fst p) (bs "gt;") && bytes_eqb (snd p) [x3e]) t.

Lemma bytes_ltb_irrefl a : bytes_ltb a a = false.
Proof. induction a as [|x a IH]; cbn; [reflexivity|]. rewrite N.ltb_irrefl, byte_eqb_refl. exact IH. Qed.

Lemma bytes_ltb_trans a : forall b c, bytes_ltb a b = true -> bytes_ltb b c = true -> bytes_ltb a c = true.
Proof.
  induction a as [|x a IH]; intros [|y b] [|z c]; cbn; intros H1 H2; try discriminate; try reflexivity.
  destruct (bN x <? bN y)%N eqn:Lxy.
  - apply N.ltb_lt in Lxy. destruct (bN y <? bN z)%N eqn:Lyz.
    + apply N.ltb_lt in Lyz. assert (L : (bN x <? bN z)%N = true) by (apply N.ltb_lt; lia). rewrite L. reflexivity.
    + destruct (Byte.eqb y z) eqn:Eyz; [|discriminate]. apply byte_eqb_eq in Eyz. subst z.
      assert (L : (bN x <? bN y)%N = true) by (apply N.ltb_lt; exact Lxy). rewrite L. reflexivity.
  - destruct (Byte.eqb x y) eqn:Exy; [|discriminate]. apply byte_eqb_eq in Exy. subst y.
    destruct (bN x <? bN z)%N; [reflexivity|]. destruct (Byte.eqb x z); [|discriminate]. exact (IH _ _ H1 H2).
Qed.

Lemma names_sorted_above a t : names_sorted (a :: t) = true -> forall b, In b t -> bytes_ltb (fst a) (fst b) = true.
Proof.
  revert a; induction t as [|c t IH]; intros a H b HIn; [destruct HIn|].
  cbn [names_sorted] in H. apply andb_prop in H as [H1 H2]. destruct HIn as [->|HIn]; [exact H1|].
  apply (bytes_ltb_trans _ (fst c)); [exact H1|]. exact (IH c H2 b HIn).
Qed.

Lemma names_sorted_fun t : names_sorted t = true ->
  forall nm v v', In (nm, v) t -> In (nm, v') t -> v = v'.
Proof.
  induction t as [|a t IH]; intros H nm v v' I1 I2; [destruct I1|].
  assert (Ht : names_sorted t = true) by (cbn [names_sorted] in H; apply andb_prop in H as [_ H]; exact H).
  destruct I1 as [E1|I1], I2 as [E2|I2].
  - congruence.
  - subst a. pose proof (names_sorted_above _ _ H _ I2) as L. cbn in L. rewrite bytes_ltb_irrefl in L. discriminate.
  - subst a. pose proof (names_sorted_above _ _ H _ I1) as L. cbn in L. rewrite bytes_ltb_irrefl in L. discriminate.
  - exact (IH Ht nm v v' I1 I2).
Qed.

Lemma table_sorted_okb_sound t : table_sorted_okb t = true -> table_ok t.
Proof.
  unfold table_sorted_okb. intros H. repeat (apply andb_prop in H as [H ?]).
  split.
  - intros nm v HIn. apply semi_okb_sound. rewrite forallb_forall in H. apply (H (nm, v) HIn).
  - apply names_sorted_fun. assumption.
  - apply existsb_pair. assumption.
  - apply existsb_pair. assumption.
  - apply existsb_pair. assumption.
Qed.

(* the 2231 named references of the HTML standard *)
Lemma html5_entities_ok : table_ok html5_entities.
Proof. apply table_sorted_okb_sound. vm_compute. reflexivity. Qed.
Lemma html5_entities_count : length html5_entities = 2231%nat.
Proof. vm_compute. reflexivity. Qed.

(* ---------- sanitise -> escape -> decode -> scheme ---------- *)
Section Compose.
Variable named : list (bytes * bytes).
Variable encode_cp : N -> bytes.
Hypothesis Htab : table_ok named.
Hypothesis Henc : encoder_ok encode_cp.

(* what the browser's URL parser is handed is exactly what the sanitiser returned, so it is the failure URL or the
   input itself, and then it has no scheme or an allow-listed one *)
Theorem rendered_value_sound s :
  let d := decode_refs named encode_cp true (escape (url s)) in
  d = url s /\ rendered_ok s d.
Proof.
  cbv zeta. rewrite (escape_decodes named encode_cp true Htab Henc). split; [reflexivity|].
  destruct (url_sound s) as [F|[E S]]; [left; exact F|right]. rewrite E. split; [reflexivity|exact S].
Qed.
End Compose.

(* the two URL sinks as document fragments: <a href={ templ.URL(s) }> children </a> and <form action=...> *)
Definition link_tree (s : bytes) (ch : list tree) : tree := TElem (bs "a") [ADyn (bs "href") (url s)] ch.
Definition form_tree (s : bytes) (ch : list tree) : tree := TElem (bs "form") [ADyn (bs "action") (url s)] ch.

Lemma link_tokens s ch : forallb wf ch = true ->
  tok (render (link_tree s ch)) =
  TStart (bs "a") [(bs "href", escape (url s))] false :: flat_map expected ch ++ [TEnd (bs "a")].
Proof.
  intros W. unfold link_tree. rewrite document_fragment; [reflexivity|].
  change (wf (TElem (bs "a") [ADyn (bs "href") (url s)] ch)) with (true && forallb wf ch). exact W.
Qed.
Lemma form_tokens s ch : forallb wf ch = true ->
  tok (render (form_tree s ch)) =
  TStart (bs "form") [(bs "action", escape (url s))] false :: flat_map expected ch ++ [TEnd (bs "form")].
Proof.
  intros W. unfold form_tree. rewrite document_fragment; [reflexivity|].
  change (wf (TElem (bs "form") [ADyn (bs "action") (url s)] ch)) with (true && forallb wf ch). exact W.
Qed.

(* the decidable form of the end-to-end predicate, evaluated by the harness on the implementation's own output *)
Lemma failure_url_is_failed : failure_url = failed. Proof. reflexivity. Qed.
Lemma rendered_okb_spec s d : rendered_okb s d = true <-> rendered_ok s d.
Proof.
  unfold rendered_okb, rendered_ok. rewrite orb_true_iff, andb_true_iff, !bytes_eqb_eq, safeb_safe. reflexivity.
Qed.

(* with the standard's table *)
Theorem rendered_value_sound_html5 s : decode_attr (escape (url s)) = url s /\ rendered_ok s (decode_attr (escape (url s))).
Proof. exact (rendered_value_sound html5_entities utf8_cp html5_entities_ok utf8_cp_ok s). Qed.
