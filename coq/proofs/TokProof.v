(* Proofs: escaped strings are holes for the tokenizer; attribute writers and whole fragments tokenise as written. *)
From Coq.Strings Require Import Byte String.
From Coq Require Import List Arith NArith Bool Lia.
Import ListNotations.
From V Require Import lib.Bytes spec.HtmlTok spec.HtmlRefs model.Escape model.StyleAttr model.DocFrag spec.DocExpect proofs.EscapeProof proofs.StyleAttrProof proofs.TokRunProof proofs.TokRawProof proofs.ScriptPartsProof.
Open Scope nat_scope.

Lemma inert_no_lt s : inert s = true -> no_lt s = true.
Proof.
  unfold inert, no_lt. intros H. rewrite forallb_forall in *. intros c Hc. specialize (H c Hc).
  destruct (inert_no c H) as [E _]. rewrite E. reflexivity.
Qed.
Lemma escape_no_lt s : no_lt (escape s) = true.
Proof. apply inert_no_lt. apply escape_inert. Qed.

Theorem tok_text_hole x nm s q : plain_text x = true ->
  run (Text x nm) (escape s ++ q) = let '(st, e) := run (Text x nm) q in (st, chars (escape s) ++ e).
Proof. intros P. apply run_text_nolt; [exact P|apply escape_no_lt]. Qed.

(* ---------- double-quoted attribute value hole ---------- *)
Lemma run_dq_inert t k acc v rest : inert v = true -> run (AttrValDQ t k acc) (v ++ rest) = run (AttrValDQ t k (acc ++ v)) rest.
Proof.
  revert acc; induction v as [|b r IH]; intros acc H; [rewrite app_nil_r; reflexivity|].
  unfold inert in H. cbn [forallb] in H. apply andb_prop in H as [Hb Hr]. destruct (inert_no b Hb) as [_ [_ [Q _]]].
  cbn [app]. rewrite (run_silent _ b (AttrValDQ t k (acc ++ [b]))); [|cbn [step]; rewrite Q; reflexivity].
  rewrite (IH _ Hr). rewrite <- app_assoc. reflexivity.
Qed.

Lemma run_dq_nodq t k acc v rest : no_dq v = true -> run (AttrValDQ t k acc) (v ++ rest) = run (AttrValDQ t k (acc ++ v)) rest.
Proof.
  revert acc; induction v as [|b r IH]; intros acc H; [rewrite app_nil_r; reflexivity|].
  unfold no_dq in H. cbn [forallb] in H. apply andb_prop in H as [Hb Hr]. apply negb_true_iff in Hb.
  cbn [app]. rewrite (run_silent _ b (AttrValDQ t k (acc ++ [b]))); [|cbn [step]; rewrite Hb; reflexivity].
  rewrite (IH _ Hr). rewrite <- app_assoc. reflexivity.
Qed.
(* any byte string without '<' is a text hole; any byte string without a double quote is an attribute hole *)
Theorem hole_safe_suffices v : hole_safe v = true ->
  (forall x nm q, plain_text x = true -> run (Text x nm) (v ++ q) = let '(st, e) := run (Text x nm) q in (st, chars v ++ e)) /\
  (forall t k acc q, run (AttrValDQ t k acc) (v ++ x22 :: q) = run (AfterAttrValQ (push t k (acc ++ v))) q).
Proof.
  unfold hole_safe. intros H. apply andb_prop in H as [H1 H2]. split.
  - intros x nm q P. apply run_text_nolt; assumption.
  - intros t k acc q. rewrite (run_dq_nodq _ _ _ _ _ H2). apply run_silent. reflexivity.
Qed.

Theorem tok_attr_hole t k acc s q :
  run (AttrValDQ t k acc) (escape s ++ x22 :: q) = run (AfterAttrValQ (push t k (acc ++ escape s))) q.
Proof. rewrite (run_dq_inert _ _ _ _ _ (escape_inert s)). apply run_silent. reflexivity. Qed.

(* ---------- attribute names ---------- *)
Lemma name_byte_parts b : name_byte b = true ->
  is_ws b = false /\ Byte.eqb b x3e = false /\ Byte.eqb b x2f = false /\ Byte.eqb b x3d = false /\ esc1 b = [b].
Proof.
  unfold name_byte. intros H. repeat (apply andb_prop in H as [H ?]).
  repeat match goal with X : negb _ = true |- _ => apply negb_true_iff in X end.
  repeat split; try assumption.
  unfold esc1. repeat match goal with X : Byte.eqb b _ = false |- _ => rewrite X; clear X end. reflexivity.
Qed.

Lemma escape_name k : forallb name_byte k = true -> escape k = k.
Proof.
  induction k as [|b r IH]; [reflexivity|]. cbn [forallb]. intros H. apply andb_prop in H as [Hb Hr].
  rewrite escape_cons. destruct (name_byte_parts b Hb) as [_ [_ [_ [_ E]]]]. rewrite E. cbn [app]. f_equal. apply IH. exact Hr.
Qed.
Lemma name_shaped_bytes k : name_shaped k = true -> forallb name_byte k = true.
Proof. destruct k; [discriminate|intros H; exact H]. Qed.

Lemma step_attr_name_byte t n b : name_byte b = true -> step (AttrName t n) b = (AttrName t (n ++ [lower b]), []).
Proof.
  intros H. destruct (name_byte_parts b H) as [W [G [S [Q _]]]].
  cbn [step]. unfold step_attr_name. rewrite W, G, S, Q. reflexivity.
Qed.
Lemma run_attr_name t k : forallb name_byte k = true ->
  forall n rest, run (AttrName t n) (k ++ rest) = run (AttrName t (n ++ map lower k)) rest.
Proof.
  induction k as [|b r IH]; intros H n rest; [cbn [map]; rewrite app_nil_r; reflexivity|].
  cbn [forallb] in H. apply andb_prop in H as [Hb Hr].
  cbn [app map]. rewrite (run_silent _ _ _ _ (step_attr_name_byte t n b Hb)). rewrite (IH Hr). rewrite <- app_assoc. reflexivity.
Qed.

(* the states between two attributes of a tag, and the tag built so far *)
Definition settle (st : tstate) : option tagacc :=
  match st with
  | TagName e n => Some (TA e n [])
  | BeforeAttrName t => Some t
  | AttrName t k => Some (push t k [])
  | AfterAttrName t k => Some (push t k [])
  | AfterAttrValQ t => Some t
  | _ => None
  end.

Lemma settle_space st t : settle st = Some t -> exists st', step st x20 = (st', []) /\
  (forall c, name_byte c = true -> step st' c = (AttrName t [lower c], [])).
Proof.
  destruct st; try discriminate; cbn [settle]; intros E; inversion E; subst; clear E.
  - exists (BeforeAttrName (TA e n [])). split; [reflexivity|]. intros c H. destruct (name_byte_parts c H) as [W [G [S [Q _]]]].
    cbn [step]. unfold step_before_attr_name. rewrite W, G, S. reflexivity.
  - exists (BeforeAttrName t). split; [reflexivity|]. intros c H. destruct (name_byte_parts c H) as [W [G [S [Q _]]]].
    cbn [step]. unfold step_before_attr_name. rewrite W, G, S. reflexivity.
  - exists (AfterAttrName t0 k). split; [reflexivity|]. intros c H. destruct (name_byte_parts c H) as [W [G [S [Q _]]]].
    cbn [step]. unfold step_after_attr_name. rewrite W, G, S, Q. reflexivity.
  - exists (AfterAttrName t0 k). split; [reflexivity|]. intros c H. destruct (name_byte_parts c H) as [W [G [S [Q _]]]].
    cbn [step]. unfold step_after_attr_name. rewrite W, G, S, Q. reflexivity.
  - exists (BeforeAttrName t). split; [reflexivity|]. intros c H. destruct (name_byte_parts c H) as [W [G [S [Q _]]]].
    cbn [step]. unfold step_before_attr_name. rewrite W, G, S. reflexivity.
Qed.

Lemma settle_close st t : settle st = Some t -> step st x3e = emit_tag t false.
Proof.
  destruct st; try discriminate; cbn [settle]; intros E; inversion E; subst; clear E; reflexivity.
Qed.

Lemma start_name st t k rest : settle st = Some t -> name_shaped k = true ->
  run st ([x20] ++ k ++ rest) = run (AttrName t (map lower k)) rest.
Proof.
  intros S H. destruct k as [|c k']; [discriminate|]. cbn [name_shaped forallb] in H. apply andb_prop in H as [Hc Hk].
  destruct (settle_space st t S) as [st' [S1 S2]].
  cbn [app]. rewrite (run_silent _ _ _ _ S1). rewrite (run_silent _ _ _ _ (S2 c Hc)).
  rewrite (run_attr_name t k' Hk). reflexivity.
Qed.

Lemma kv_step st t k v rest : settle st = Some t -> name_shaped k = true ->
  run st (attr_kv k v ++ rest) = run (AfterAttrValQ (push t (map lower k) (escape v))) rest.
Proof.
  intros S H. unfold attr_kv. rewrite (escape_name k (name_shaped_bytes k H)). rewrite <- !app_assoc.
  rewrite (start_name st t k _ S H). cbn [app].
  rewrite (run_silent _ x3d (BeforeAttrValue t (map lower k))) by reflexivity.
  rewrite (run_silent _ x22 (AttrValDQ t (map lower k) [])) by reflexivity.
  change (escape v ++ x22 :: rest) with (escape v ++ x22 :: rest). rewrite tok_attr_hole. reflexivity.
Qed.

Lemma kv_raw_step st t k v rest : settle st = Some t -> name_shaped k = true -> inert v = true ->
  run st ([x20] ++ k ++ [x3d; x22] ++ v ++ [x22] ++ rest) = run (AfterAttrValQ (push t (map lower k) v)) rest.
Proof.
  intros S H I. rewrite (start_name st t k _ S H). cbn [app].
  rewrite (run_silent _ x3d (BeforeAttrValue t (map lower k))) by reflexivity.
  rewrite (run_silent _ x22 (AttrValDQ t (map lower k) [])) by reflexivity.
  rewrite (run_dq_inert _ _ _ _ _ I). apply run_silent. reflexivity.
Qed.

(* the style-attribute value ends exactly at the author's quote, whatever the CSS sanitisers returned *)
Theorem style_attr_hole t k acc vs q :
  run (AttrValDQ t k acc) (style_attr vs ++ x22 :: q) = run (AfterAttrValQ (push t k (acc ++ style_attr vs))) q.
Proof. rewrite (run_dq_inert _ _ _ _ _ (style_attr_inert vs)). apply run_silent. reflexivity. Qed.

Lemma bool_step st t k rest : settle st = Some t -> name_shaped k = true ->
  run st (attr_bool k ++ rest) = run (AttrName t (map lower k)) rest.
Proof.
  intros S H. unfold attr_bool. rewrite (escape_name k (name_shaped_bytes k H)). rewrite <- !app_assoc.
  apply start_name; assumption.
Qed.

(* pushing a list of attributes *)
Definition pushall (t : tagacc) (l : list (bytes * bytes)) : tagacc :=
  let '(TA e n acc) := t in TA e n (rev l ++ acc).
Lemma pushall_nil t : pushall t [] = t.
Proof. destruct t; reflexivity. Qed.
Lemma pushall_push t k v l : pushall (push t k v) l = pushall t ((k, v) :: l).
Proof. destruct t. cbn. rewrite <- app_assoc. reflexivity. Qed.
Lemma pushall_app t l1 l2 : pushall (pushall t l1) l2 = pushall t (l1 ++ l2).
Proof. destruct t. cbn. rewrite rev_app_distr, app_assoc. reflexivity. Qed.

(* one entry of an attribute map *)
Lemma render_attr_step st t kv rest : settle st = Some t -> name_shaped (fst kv) = true ->
  exists st', run st (render_attr kv ++ rest) = run st' rest /\ settle st' = Some (pushall t (expected_attr kv)).
Proof.
  intros S H. destruct kv as [k v]. cbn [fst] in H.
  assert (KV : forall s, exists st', run st (attr_kv k s ++ rest) = run st' rest /\ settle st' = Some (pushall t [(map lower k, escape s)])).
  { intros s. eexists. split; [apply kv_step; eassumption|]. cbn [settle]. rewrite <- pushall_push, pushall_nil. reflexivity. }
  assert (BO : exists st', run st (attr_bool k ++ rest) = run st' rest /\ settle st' = Some (pushall t [(map lower k, [])])).
  { eexists. split; [apply bool_step; eassumption|]. cbn [settle]. rewrite <- pushall_push, pushall_nil. reflexivity. }
  assert (NO : exists st', run st ([] ++ rest) = run st' rest /\ settle st' = Some (pushall t [])).
  { exists st. split; [reflexivity|]. rewrite pushall_nil. exact S. }
  destruct v as [s|[s|]|[|]|[[|]|]|s [|]|[|] [|]|[|]|]; cbn [render_attr expected_attr]; first [apply KV | exact BO | exact NO].
Qed.

Lemma render_attrs_sorted_step m : forall st t rest, settle st = Some t -> forallb (fun kv => name_shaped (fst kv)) m = true ->
  exists st', run st (render_attrs_sorted m ++ rest) = run st' rest /\ settle st' = Some (pushall t (flat_map expected_attr m)).
Proof.
  induction m as [|kv m IH]; intros st t rest S H.
  - exists st. split; [reflexivity|]. cbn [flat_map]. rewrite pushall_nil. exact S.
  - cbn [forallb] in H. apply andb_prop in H as [Hk Hm]. unfold render_attrs_sorted. cbn [flat_map]. rewrite <- app_assoc.
    destruct (render_attr_step st t kv (flat_map render_attr m ++ rest) S Hk) as [st1 [R1 S1]].
    destruct (IH st1 _ rest S1 Hm) as [st2 [R2 S2]]. exists st2. split.
    + rewrite R1. exact R2.
    + rewrite S2. rewrite pushall_app. reflexivity.
Qed.

(* sorting keeps the entries *)
Lemma insert_kv_forall (P : bytes * aval -> bool) kv l : P kv = true -> forallb P l = true -> forallb P (insert_kv kv l) = true.
Proof.
  intros Hk. induction l as [|h t IH]; intros H; cbn [insert_kv].
  - cbn. rewrite Hk. reflexivity.
  - cbn [forallb] in H. apply andb_prop in H as [Hh Ht]. destruct (bytes_leb (fst kv) (fst h)).
    + cbn [forallb]. rewrite Hk, Hh, Ht. reflexivity.
    + cbn [forallb]. rewrite Hh, (IH Ht). reflexivity.
Qed.
Lemma sort_kv_forall (P : bytes * aval -> bool) m : forallb P m = true -> forallb P (sort_kv m) = true.
Proof.
  induction m as [|kv m IH]; intros H; [reflexivity|]. cbn [forallb] in H. apply andb_prop in H as [Hk Hm].
  cbn [sort_kv fold_right]. apply insert_kv_forall; [exact Hk|apply IH; exact Hm].
Qed.

Lemma render_attrs_step m st t rest : settle st = Some t -> forallb (fun kv => name_shaped (fst kv)) m = true ->
  exists st', run st (render_attrs m ++ rest) = run st' rest /\ settle st' = Some (pushall t (expected_attrs m)).
Proof.
  intros S H. unfold render_attrs, expected_attrs. apply render_attrs_sorted_step; [exact S|apply sort_kv_forall; exact H].
Qed.

(* ---------- tag names ---------- *)
Lemma alpha_name_byte c : is_alpha c = true -> name_byte c = true.
Proof. destruct c; vm_compute; congruence. Qed.
Lemma step_tag_name_byte e n b : name_byte b = true -> step (TagName e n) b = (TagName e (n ++ [lower b]), []).
Proof.
  intros H. destruct (name_byte_parts b H) as [W [G [S _]]]. cbn [step]. unfold step_tag_name. rewrite W, S, G. reflexivity.
Qed.
Lemma run_tag_name e k : forallb name_byte k = true ->
  forall n rest, run (TagName e n) (k ++ rest) = run (TagName e (n ++ map lower k)) rest.
Proof.
  induction k as [|b r IH]; intros H n rest; [cbn [map]; rewrite app_nil_r; reflexivity|].
  cbn [forallb] in H. apply andb_prop in H as [Hb Hr].
  cbn [app map]. rewrite (run_silent _ _ _ _ (step_tag_name_byte e n b Hb)). rewrite (IH Hr). rewrite <- app_assoc. reflexivity.
Qed.
Lemma elem_name_escape n : elem_name n = true -> escape n = n.
Proof.
  destruct n as [|c r]; [discriminate|]. cbn [elem_name]. intros H. apply andb_prop in H as [Hc Hr].
  apply escape_name. cbn [forallb]. rewrite (alpha_name_byte c Hc), Hr. reflexivity.
Qed.
Lemma open_name n rest : elem_name n = true -> run Data ([x3c] ++ n ++ rest) = run (TagName false (map lower n)) rest.
Proof.
  destruct n as [|c r]; [discriminate|]. cbn [elem_name]. intros H. apply andb_prop in H as [Hc Hr].
  cbn [app]. unfold Data. rewrite (run_silent _ x3c TagOpen) by reflexivity.
  rewrite (run_silent _ c (TagName false [lower c])).
  - rewrite (run_tag_name false r Hr). reflexivity.
  - cbn [step]. rewrite Hc. destruct c; try discriminate Hc; reflexivity.
Qed.
Lemma close_name_data n rest : elem_name n = true ->
  run Data ([x3c; x2f] ++ n ++ x3e :: rest) = let '(st, e) := run Data rest in (st, TEnd (map lower n) :: e).
Proof.
  destruct n as [|c r]; [discriminate|]. cbn [elem_name]. intros H. apply andb_prop in H as [Hc Hr].
  cbn [app]. unfold Data. rewrite (run_silent _ x3c TagOpen) by reflexivity. rewrite (run_silent _ x2f EndTagOpen) by reflexivity.
  rewrite (run_silent _ c (TagName true [lower c])) by (cbn [step]; rewrite Hc; reflexivity).
  rewrite (run_tag_name true r Hr). rewrite (run_emit _ x3e Data [TEnd (lower c :: map lower r)]) by reflexivity.
  reflexivity.
Qed.

(* ---------- element attributes ---------- *)
Definition Forall_fix {A : Type} (P : A -> Prop) (f : forall x, P x) : forall l, Forall P l :=
  fix go l := match l with [] => Forall_nil P | x :: r => Forall_cons x (f x) (go r) end.

Definition attr_goal (a : attr) : Prop := forall st t rest, settle st = Some t -> wf_attr a = true ->
  exists st', run st (render_attr_t a ++ rest) = run st' rest /\ settle st' = Some (pushall t (expected_attr_t a)).
Lemma attrs_from l : Forall attr_goal l -> forall st t rest, settle st = Some t -> forallb wf_attr l = true ->
  exists st', run st (flat_map render_attr_t l ++ rest) = run st' rest /\ settle st' = Some (pushall t (flat_map expected_attr_t l)).
Proof.
  induction 1 as [|x a Hx _ IH]; intros st t rest S H.
  - exists st. split; [reflexivity|]. cbn [flat_map]. rewrite pushall_nil. exact S.
  - cbn [forallb] in H. apply andb_prop in H as [Wx Wa]. cbn [flat_map]. rewrite <- app_assoc.
    destruct (Hx st t (flat_map render_attr_t a ++ rest) S Wx) as [st1 [R1 S1]].
    destruct (IH st1 _ rest S1 Wa) as [st2 [R2 S2]]. exists st2. split.
    + rewrite R1. exact R2.
    + rewrite S2. rewrite pushall_app. reflexivity.
Qed.
Fixpoint attr_t_step (a : attr) : attr_goal a.
Proof.
  unfold attr_goal. intros st t rest S H.
  destruct a as [k v|k|k s|k b|m|vs|c th el]; cbn [render_attr_t expected_attr_t wf_attr] in *.
  - eexists. split; [apply kv_step; eassumption|]. cbn [settle]. rewrite <- pushall_push, pushall_nil. reflexivity.
  - eexists. split; [apply bool_step; eassumption|]. cbn [settle]. rewrite <- pushall_push, pushall_nil. reflexivity.
  - eexists. split; [apply kv_step; eassumption|]. cbn [settle]. rewrite <- pushall_push, pushall_nil. reflexivity.
  - destruct b.
    + eexists. split; [apply bool_step; eassumption|]. cbn [settle]. rewrite <- pushall_push, pushall_nil. reflexivity.
    + exists st. split; [reflexivity|]. rewrite pushall_nil. exact S.
  - apply render_attrs_step; assumption.
  - eexists. split.
    + rewrite <- !app_assoc. apply (kv_raw_step st t (bs "style") (style_attr vs) rest S eq_refl (style_attr_inert vs)).
    + cbn [settle]. rewrite <- pushall_push, pushall_nil. reflexivity.
  - (* if / else inside the tag: the list taken *)
    destruct c.
    + exact (attrs_from th (Forall_fix attr_goal attr_t_step th) st t rest S H).
    + exact (attrs_from el (Forall_fix attr_goal attr_t_step el) st t rest S H).
Qed.
Lemma attrs_t_step a : forall st t rest, settle st = Some t -> forallb wf_attr a = true ->
  exists st', run st (flat_map render_attr_t a ++ rest) = run st' rest /\ settle st' = Some (pushall t (flat_map expected_attr_t a)).
Proof. apply attrs_from. apply (Forall_fix attr_goal attr_t_step). Qed.

(* a whole start tag *)
Lemma open_tag n a rest : elem_name n = true -> forallb wf_attr a = true ->
  run Data ([x3c] ++ n ++ flat_map render_attr_t a ++ x3e :: rest) =
  let '(st, e) := run (after_start (map lower n)) rest in (st, TStart (map lower n) (flat_map expected_attr_t a) false :: e).
Proof.
  intros Hn Ha. rewrite (open_name n _ Hn).
  destruct (attrs_t_step a (TagName false (map lower n)) _ (x3e :: rest) eq_refl Ha) as [st1 [R1 S1]].
  rewrite R1. rewrite (run_emit _ x3e _ _ _ (settle_close st1 _ S1)).
  cbn [pushall emit_tag]. rewrite app_nil_r, rev_involutive. reflexivity.
Qed.

(* ---------- RCDATA / RAWTEXT / script element bodies and their end tags ---------- *)
Lemma alpha_lower b : is_alpha (lower b) = is_alpha b.
Proof. destruct b; vm_compute; reflexivity. Qed.
Lemma text_kind_alpha m : text_kind m <> XData -> forallb is_alpha m = true.
Proof.
  unfold text_kind, isn.
  repeat match goal with
  | |- context [bytes_eqb m ?c] => destruct (bytes_eqb m c) eqn:E; [apply bytes_eqb_eq in E; subst m; intros _; vm_compute; reflexivity|clear E]
  end.
  cbn. congruence.
Qed.
Lemma text_kind_plain m : plain_text (text_kind m) = true.
Proof. unfold text_kind. repeat match goal with |- context [if ?c then _ else _] => destruct c end; reflexivity. Qed.
Lemma forallb_alpha_lower n : forallb is_alpha (map lower n) = forallb is_alpha n.
Proof. induction n as [|b r IH]; [reflexivity|]. cbn [map forallb]. rewrite alpha_lower, IH. reflexivity. Qed.

Lemma run_raw_end_name x nm k : forallb is_alpha k = true ->
  forall buf rest, run (RawEndName x nm buf) (k ++ rest) = run (RawEndName x nm (buf ++ k)) rest.
Proof.
  induction k as [|b r IH]; intros H buf rest; [rewrite app_nil_r; reflexivity|].
  cbn [forallb] in H. apply andb_prop in H as [Hb Hr].
  cbn [app]. rewrite (run_silent _ b (RawEndName x nm (buf ++ [b]))) by (cbn [step]; rewrite Hb; reflexivity).
  rewrite (IH Hr). rewrite <- app_assoc. reflexivity.
Qed.

Definition raw_kind (x : tx) : bool := match x with XRcdata | XRawtext | XScript => true | _ => false end.
Lemma close_name_raw x n rest : raw_kind x = true -> n <> [] -> forallb is_alpha n = true ->
  run (Text x (map lower n)) ([x3c; x2f] ++ n ++ x3e :: rest) = let '(st, e) := run Data rest in (st, TEnd (map lower n) :: e).
Proof.
  intros X Hne Ha. destruct n as [|c r]; [congruence|]. cbn [forallb] in Ha. apply andb_prop in Ha as [Hc Hr].
  cbn [app].
  rewrite (run_silent _ x3c (RawLt x (map lower (c :: r)))) by (destruct x; try discriminate X; reflexivity).
  rewrite (run_silent _ x2f (RawEndOpen x (map lower (c :: r)))) by reflexivity.
  rewrite (run_silent _ c (RawEndName x (map lower (c :: r)) [c])) by (cbn [step]; rewrite Hc; reflexivity).
  rewrite (run_raw_end_name x _ r Hr).
  rewrite (run_emit _ x3e Data [TEnd (map lower (c :: r))]); [reflexivity|].
  cbn [step app]. change (is_alpha x3e) with false. cbv iota. rewrite bytes_eqb_refl. reflexivity.
Qed.

(* ---------- induction over trees (nested lists, lists of lists) ---------- *)
Section TreeInd.
Variable P : tree -> Prop.
Hypothesis HText : forall v, P (TText v).
Hypothesis HStr : forall s, P (TStr s).
Hypothesis HElem : forall n a ch, Forall P ch -> P (TElem n a ch).
Hypothesis HVoid : forall n a, P (TVoid n a).
Hypothesis HCmt : forall d, P (TCmt d).
Hypothesis HDoc : forall d, P (TDoc d).
Hypothesis HRaw : forall n a v, P (TRaw n a v).
Hypothesis HScript : forall a ps, P (TScript a ps).
Hypothesis HIf : forall c th el, Forall P th -> Forall P el -> P (TIf c th el).
Hypothesis HFor : forall its, Forall (Forall P) its -> P (TFor its).
Hypothesis HSwitch : forall i cs, Forall (Forall P) cs -> P (TSwitch i cs).
Hypothesis HCall : forall b, Forall P b -> P (TCall b).
Hypothesis HChildren : forall b, Forall P b -> P (TChildren b).
Fixpoint tree_ind' (t : tree) : P t :=
  match t with
  | TText v => HText v
  | TStr s => HStr s
  | TElem n a ch => HElem n a ch (Forall_fix P tree_ind' ch)
  | TVoid n a => HVoid n a
  | TCmt d => HCmt d
  | TDoc d => HDoc d
  | TRaw n a v => HRaw n a v
  | TScript a ps => HScript a ps
  | TIf c th el => HIf c th el (Forall_fix P tree_ind' th) (Forall_fix P tree_ind' el)
  | TFor its => HFor its (Forall_fix (Forall P) (Forall_fix P tree_ind') its)
  | TSwitch i cs => HSwitch i cs (Forall_fix (Forall P) (Forall_fix P tree_ind') cs)
  | TCall b => HCall b (Forall_fix P tree_ind' b)
  | TChildren b => HChildren b (Forall_fix P tree_ind' b)
  end.
End TreeInd.

(* sequences of nodes rendered one after the other from a state the tokenizer comes back to *)
Definition seq_goal (S : tstate) (t : tree) : Prop :=
  forall rest, run S (render t ++ rest) = let '(st, e) := run S rest in (st, expected t ++ e).
Section Seq.
Variable W : tree -> bool.
Variable S : tstate.
Definition G (t : tree) : Prop := W t = true -> seq_goal S t.
Lemma seq_list l : Forall G l -> forallb W l = true ->
  forall rest, run S (flat_map render l ++ rest) = let '(st, e) := run S rest in (st, flat_map expected l ++ e).
Proof.
  induction 1 as [|c l Hc _ IH]; intros H rest; [cbn; destruct (run S rest); reflexivity|].
  cbn [forallb] in H. apply andb_prop in H as [Wc Wl]. cbn [flat_map]. rewrite <- app_assoc.
  rewrite (Hc Wc). rewrite (IH Wl). destruct (run S rest). rewrite app_assoc. reflexivity.
Qed.
Lemma seq_list2 ll : Forall (Forall G) ll -> forallb (forallb W) ll = true ->
  forall rest, run S (flat_map (flat_map render) ll ++ rest) = let '(st, e) := run S rest in (st, flat_map (flat_map expected) ll ++ e).
Proof.
  induction 1 as [|l ll Hl _ IH]; intros H rest; [cbn; destruct (run S rest); reflexivity|].
  cbn [forallb] in H. apply andb_prop in H as [Wl Wll]. cbn [flat_map]. rewrite <- app_assoc.
  rewrite (seq_list l Hl Wl). rewrite (IH Wll). destruct (run S rest). rewrite app_assoc. reflexivity.
Qed.
Lemma seq_pick cs : Forall (Forall G) cs -> forall i, pick (forallb W) true i cs = true ->
  forall rest, run S (pick (flat_map render) [] i cs ++ rest) = let '(st, e) := run S rest in (st, pick (flat_map expected) [] i cs ++ e).
Proof.
  induction 1 as [|c cs Hc _ IH]; intros i H rest; [cbn; destruct (run S rest); reflexivity|].
  destruct i as [|i]; cbn [pick] in *.
  - apply (seq_list c Hc H).
  - apply (IH i H).
Qed.
End Seq.

(* content of RCDATA / RAWTEXT / script parents *)
Lemma flat_tree x nm : plain_text x = true -> forall t, flat t = true -> seq_goal (Text x nm) t.
Proof.
  intros P. induction t using tree_ind'; intros F; try discriminate F; cbn [flat] in F; unfold seq_goal; intros rest; cbn [render expected].
  - apply run_text_nolt; assumption.
  - apply tok_text_hole; assumption.
  - destruct c; [apply (seq_list flat (Text x nm) th H F)|apply (seq_list flat (Text x nm) el H0 F)].
  - apply (seq_list2 flat (Text x nm) its H F).
  - apply (seq_pick flat (Text x nm) cs H i F).
  - apply (seq_list flat (Text x nm) b H F).
  - apply (seq_list flat (Text x nm) b H F).
Qed.
Lemma flat_children x nm ch rest : plain_text x = true -> forallb flat ch = true ->
  run (Text x nm) (flat_map render ch ++ rest) = let '(st, e) := run (Text x nm) rest in (st, flat_map expected ch ++ e).
Proof.
  intros P F. apply (seq_list flat (Text x nm)); [|exact F]. apply Forall_forall. intros t _. exact (flat_tree x nm P t).
Qed.

(* ---------- the document theorem ---------- *)
Lemma c01_tree (t : tree) : wf t = true -> seq_goal Data t.
Proof.
  induction t using tree_ind'; intros W; unfold seq_goal; intros rest.
  - cbn [render expected]. apply run_text_nolt; [reflexivity|exact W].
  - cbn [render expected]. apply tok_text_hole. reflexivity.
  - cbn [wf] in W. apply andb_prop in W as [W Wc]. apply andb_prop in W as [Wn Wa].
    cbn [render expected]. rewrite (elem_name_escape n Wn). rewrite <- !app_assoc.
    change ([x3e] ++ flat_map render ch ++ [x3c; x2f] ++ n ++ [x3e] ++ rest)
      with (x3e :: (flat_map render ch ++ [x3c; x2f] ++ n ++ x3e :: rest)).
    rewrite (open_tag n a _ Wn Wa). unfold after_start. pose proof (text_kind_plain (map lower n)) as PK.
    destruct (text_kind (map lower n)) eqn:K; try discriminate Wc; try discriminate PK; clear PK.
    + (* normal element: children are tokenised in the data state *)
      rewrite (seq_list wf Data ch H Wc). rewrite (close_name_data n rest Wn). destruct (run Data rest). cbn [app]. rewrite <- app_assoc. reflexivity.
    + rewrite (flat_children XRcdata _ ch _ eq_refl Wc).
      assert (Al : forallb is_alpha n = true) by (rewrite <- forallb_alpha_lower; apply text_kind_alpha; rewrite K; discriminate).
      rewrite (close_name_raw XRcdata n rest eq_refl) by (try exact Al; destruct n; discriminate).
      destruct (run Data rest). cbn [app]. rewrite <- app_assoc. reflexivity.
    + rewrite (flat_children XRawtext _ ch _ eq_refl Wc).
      assert (Al : forallb is_alpha n = true) by (rewrite <- forallb_alpha_lower; apply text_kind_alpha; rewrite K; discriminate).
      rewrite (close_name_raw XRawtext n rest eq_refl) by (try exact Al; destruct n; discriminate).
      destruct (run Data rest). cbn [app]. rewrite <- app_assoc. reflexivity.
    + rewrite (flat_children XScript _ ch _ eq_refl Wc).
      assert (Al : forallb is_alpha n = true) by (rewrite <- forallb_alpha_lower; apply text_kind_alpha; rewrite K; discriminate).
      rewrite (close_name_raw XScript n rest eq_refl) by (try exact Al; destruct n; discriminate).
      destruct (run Data rest). cbn [app]. rewrite <- app_assoc. reflexivity.
  - cbn [wf] in W. apply andb_prop in W as [W Wk]. apply andb_prop in W as [Wn Wa].
    cbn [render expected]. rewrite (elem_name_escape n Wn). rewrite <- !app_assoc.
    change ([x3e] ++ rest) with (x3e :: rest).
    rewrite (open_tag n a _ Wn Wa). unfold after_start.
    destruct (text_kind (map lower n)); try discriminate Wk. reflexivity.
  - (* comment *)
    cbn [render expected wf] in *. change (bs "<!--") with [x3c; x21; x2d; x2d]. change (bs "-->") with [x2d; x2d; x3e].
    rewrite <- !app_assoc. apply (comment_tokens d rest W).
  - (* doctype *)
    cbn [render expected wf] in *. rewrite <- !app_assoc. change ([x3e] ++ rest) with (x3e :: rest). apply (doctype_tokens d rest W).
  - (* raw element with static content *)
    cbn [wf] in W. apply andb_prop in W as [W Ok]. apply andb_prop in W as [Wn Wa].
    cbn [render expected]. rewrite (elem_name_escape n Wn). rewrite <- !app_assoc.
    change ([x3e] ++ v ++ [x3c; x2f] ++ n ++ [x3e] ++ rest) with (x3e :: (v ++ [x3c; x2f] ++ n ++ x3e :: rest)).
    rewrite (open_tag n a _ Wn Wa). unfold after_start.
    assert (Hne : n <> []) by (destruct n; discriminate).
    destruct (text_kind (map lower n)) eqn:K; try discriminate Ok.
    + assert (Al : forallb is_alpha n = true) by (rewrite <- forallb_alpha_lower; apply text_kind_alpha; rewrite K; discriminate).
      rewrite (raw_static_tokens XRawtext n v rest eq_refl Hne Al Ok). destruct (run Data rest). cbn [app]. rewrite <- app_assoc. reflexivity.
    + assert (Al : forallb is_alpha n = true) by (rewrite <- forallb_alpha_lower; apply text_kind_alpha; rewrite K; discriminate).
      rewrite (raw_static_tokens XScript n v rest eq_refl Hne Al Ok). destruct (run Data rest). cbn [app]. rewrite <- app_assoc. reflexivity.
  - (* script element with static and dynamic parts *)
    cbn [wf] in W. apply andb_prop in W as [Wa Wp]. cbn [render expected].
    change (bs "<script") with ([x3c] ++ bs "script"). change (bs "</script>") with ([x3c; x2f] ++ bs "script" ++ [x3e]).
    rewrite <- !app_assoc.
    change ([x3e] ++ flat_map part_bytes ps ++ [x3c; x2f] ++ bs "script" ++ [x3e] ++ rest)
      with (x3e :: (flat_map part_bytes ps ++ [x3c; x2f] ++ bs "script" ++ x3e :: rest)).
    rewrite (open_tag (bs "script") a _ eq_refl Wa).
    change (after_start (map lower (bs "script"))) with (Text XScript (bs "script")).
    rewrite (script_parts_tokens ps Wp rest). destruct (run Data rest). cbn [app]. rewrite <- app_assoc. reflexivity.
  - (* if / else *)
    cbn [render expected wf] in *. destruct c; [apply (seq_list wf Data th H W)|apply (seq_list wf Data el H0 W)].
  - cbn [render expected wf] in *. apply (seq_list2 wf Data its H W).
  - cbn [render expected wf] in *. apply (seq_pick wf Data cs H i W).
  - cbn [render expected wf] in *. apply (seq_list wf Data b H W).
  - cbn [render expected wf] in *. apply (seq_list wf Data b H W).
Qed.

Theorem document_fragment t : wf t = true -> tok (render t) = expected t.
Proof.
  intros W. unfold tok. pose proof (c01_tree t W []) as H. rewrite app_nil_r in H. rewrite H. cbn. rewrite !app_nil_r. reflexivity.
Qed.
(* and the tokenizer is back in the data state, so anything after the fragment is read as the author wrote it *)
Theorem document_fragment_state t : wf t = true -> fst (run Data (render t)) = Data.
Proof. intros W. pose proof (c01_tree t W []) as H. rewrite app_nil_r in H. rewrite H. reflexivity. Qed.

(* ---------- RenderAttributes inside a start tag ---------- *)
Theorem render_attrs_tokens m : forallb (fun kv => name_shaped (fst kv)) m = true ->
  tok (bs "<x" ++ render_attrs m ++ [x3e]) = [TStart (bs "x") (expected_attrs m) false].
Proof.
  intros H. pose proof (open_tag (bs "x") [ASpread m] [] eq_refl) as O. cbn [forallb wf_attr flat_map] in O.
  rewrite H in O. specialize (O eq_refl). rewrite !app_nil_r in O.
  unfold tok. change (bs "<x" ++ render_attrs m ++ [x3e]) with ([x3c] ++ bs "x" ++ render_attr_t (ASpread m) ++ [x3e]).
  rewrite O. reflexivity.
Qed.

(* ---------- script start tags: id / type / nonce are attribute holes ---------- *)
Definition opt_exp (name v : bytes) : list (bytes * bytes) := match v with [] => [] | _ => [(name, escape v)] end.
Definition opt_attr_t (name v : bytes) : list attr := match v with [] => [] | _ => [ADyn name v] end.
Lemma opt_attr_as_t name v : escape name = name -> opt_attr name v = flat_map render_attr_t (opt_attr_t name v).
Proof.
  intros E. destruct v as [|c r]; [reflexivity|]. cbn [opt_attr opt_attr_t flat_map render_attr_t]. unfold attr_kv. rewrite E.
  rewrite app_nil_r. reflexivity.
Qed.

Theorem json_script_header_tokens id ty nonce :
  run Data (json_script_header id ty nonce) =
  (Text XScript (bs "script"), [TStart (bs "script") (opt_exp (bs "id") id ++ opt_exp (bs "type") ty ++ opt_exp (bs "nonce") nonce) false]).
Proof.
  unfold json_script_header.
  rewrite (opt_attr_as_t (bs "id") id eq_refl), (opt_attr_as_t (bs "type") ty eq_refl), (opt_attr_as_t (bs "nonce") nonce eq_refl).
  set (al := opt_attr_t (bs "id") id ++ opt_attr_t (bs "type") ty ++ opt_attr_t (bs "nonce") nonce).
  replace (bs "<script" ++ flat_map render_attr_t (opt_attr_t (bs "id") id) ++ flat_map render_attr_t (opt_attr_t (bs "type") ty)
             ++ flat_map render_attr_t (opt_attr_t (bs "nonce") nonce) ++ [x3e])
    with ([x3c] ++ bs "script" ++ flat_map render_attr_t al ++ x3e :: [])
    by (unfold al; rewrite !flat_map_app, <- !app_assoc; reflexivity).
  rewrite (open_tag (bs "script") al [] eq_refl).
  - cbn [run]. f_equal. f_equal. f_equal. unfold al. rewrite !flat_map_app.
    destruct id, ty, nonce; reflexivity.
  - unfold al. rewrite !forallb_app. destruct id, ty, nonce; reflexivity.
Qed.

Theorem script_header_tokens nonce :
  run Data (script_header nonce) = (Text XScript (bs "script"), [TStart (bs "script") (opt_exp (bs "nonce") nonce) false]).
Proof.
  unfold script_header. rewrite (opt_attr_as_t (bs "nonce") nonce eq_refl).
  pose proof (open_tag (bs "script") (opt_attr_t (bs "nonce") nonce) [] eq_refl) as O.
  change (bs "<script") with ([x3c] ++ bs "script"). rewrite <- app_assoc. change ([x3e]) with (x3e :: []). rewrite O.
  - cbn [run]. f_equal. f_equal. f_equal. destruct nonce; reflexivity.
  - destruct nonce; reflexivity.
Qed.
