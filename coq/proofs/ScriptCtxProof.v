(* Proofs about model/ScriptCtx.v: the bytes the runtime writes for any operation sequence tokenise to the
   script elements of spec/ScriptExpect.v. *)
From Coq.Strings Require Import Byte String.
From Coq Require Import List NArith Bool.
Import ListNotations.
From V Require Import lib.Bytes spec.HtmlTok spec.HtmlRefs model.Escape model.StyleAttr model.DocFrag spec.DocExpect
  model.ScriptCtx spec.ScriptExpect proofs.TokProof.

Definition sel_bytes (e : sel) : bytes :=
  json_script_header (se_id e) (se_ty e) (se_nonce e) ++ se_body e ++ bs "</script>".
Definition sel_attrs (e : sel) : list attr :=
  opt_attr_t (bs "id") (se_id e) ++ opt_attr_t (bs "type") (se_ty e) ++ opt_attr_t (bs "nonce") (se_nonce e).
Definition sel_tree (e : sel) : tree := TRaw (bs "script") (sel_attrs e) (se_body e).

Lemma sel_bytes_tree e : sel_bytes e = render (sel_tree e).
Proof.
  unfold sel_bytes, sel_tree, sel_attrs, json_script_header. cbn [render].
  rewrite (opt_attr_as_t (bs "id") _ eq_refl), (opt_attr_as_t (bs "type") _ eq_refl), (opt_attr_as_t (bs "nonce") _ eq_refl).
  rewrite !flat_map_app, <- !app_assoc. reflexivity.
Qed.
Lemma sel_tokens_tree e : sel_tokens e = expected (sel_tree e).
Proof.
  unfold sel_tokens, sel_tree, sel_attrs. cbn [expected]. rewrite !flat_map_app.
  destruct e as [i t n b]; cbn [se_id se_ty se_nonce se_body]. destruct i, t, n; reflexivity.
Qed.
Lemma sel_wf e : raw_static_ok XScript (bs "script") (se_body e) = true -> wf (sel_tree e) = true.
Proof.
  intros H. unfold sel_tree, sel_attrs. cbn [wf]. rewrite !forallb_app.
  change (text_kind (map lower (bs "script"))) with XScript. change (map lower (bs "script")) with (bs "script"). rewrite H.
  destruct e as [i t n b]; cbn [se_id se_ty se_nonce]. destruct i, t, n; reflexivity.
Qed.

Lemma sels_seq els : forallb (fun e => raw_static_ok XScript (bs "script") (se_body e)) els = true ->
  forall rest, run Data (flat_map sel_bytes els ++ rest) = let '(st, e) := run Data rest in (st, flat_map sel_tokens els ++ e).
Proof.
  induction els as [|e els IH]; intros W rest; [cbn; destruct (run Data rest); reflexivity|].
  cbn [forallb] in W. apply andb_prop in W as [We Wl]. cbn [flat_map]. rewrite <- app_assoc.
  rewrite sel_bytes_tree, sel_tokens_tree. rewrite (c01_tree (sel_tree e) (sel_wf e We)). rewrite (IH Wl).
  destruct (run Data rest). rewrite app_assoc. reflexivity.
Qed.

(* ---------- the model writes exactly the intended elements ---------- *)
Lemma script_elem_sel nonce body : script_elem nonce body = sel_bytes (SEL [] [] nonce body).
Proof. reflexivity. Qed.

Lemma items_loop_fresh l : forall seen,
  items_loop seen l = (flat_map cs_fn (fresh seen l), rev (map cs_name (fresh seen l)) ++ seen).
Proof.
  induction l as [|s r IH]; intros seen; [reflexivity|]. cbn [items_loop fresh].
  destruct (seen_has (cs_name s) seen); [apply IH|]. rewrite IH. cbn [flat_map map rev]. rewrite <- app_assoc. reflexivity.
Qed.
Lemma render_items_elems nonce seen l :
  render_items nonce seen l = (flat_map sel_bytes (op_elems nonce seen (OItems l)), op_seen seen (OItems l)).
Proof.
  unfold render_items. rewrite items_loop_fresh. cbn [op_elems op_seen]. unfold defs.
  destruct (flat_map cs_fn (fresh seen l)); [reflexivity|]. cbn [flat_map]. rewrite app_nil_r. reflexivity.
Qed.
Lemma render_op_elems nonce seen o :
  render_op nonce seen o = (flat_map sel_bytes (op_elems nonce seen o), op_seen seen o).
Proof.
  destruct o as [l|s|id ty own body]; cbn [render_op].
  - apply render_items_elems.
  - unfold render_cs. rewrite render_items_elems. cbn [op_elems op_seen]. rewrite flat_map_app.
    destruct (cs_call s); [reflexivity|]. cbn [flat_map]. rewrite app_nil_r. reflexivity.
  - cbn [op_elems op_seen flat_map]. rewrite app_nil_r. reflexivity.
Qed.
Lemma render_ops_elems keep nonce ops : forall seen,
  render_ops keep nonce seen ops = flat_map sel_bytes (ops_elems keep nonce seen ops).
Proof.
  induction ops as [|o r IH]; intros seen; [reflexivity|]. cbn [render_ops ops_elems].
  rewrite render_op_elems. rewrite flat_map_app. rewrite IH. reflexivity.
Qed.

Theorem script_ops_seq keep nonce seen ops rest : ops_wf keep nonce seen ops = true ->
  run Data (render_ops keep nonce seen ops ++ rest) =
  let '(st, e) := run Data rest in (st, ops_expected keep nonce seen ops ++ e).
Proof. intros W. rewrite render_ops_elems. apply (sels_seq _ W). Qed.

Theorem script_ops_tokens keep nonce seen ops : ops_wf keep nonce seen ops = true ->
  tok (render_ops keep nonce seen ops) = ops_expected keep nonce seen ops /\
  fst (run Data (render_ops keep nonce seen ops)) = Data.
Proof.
  intros W. pose proof (script_ops_seq keep nonce seen ops [] W) as H. rewrite app_nil_r in H.
  unfold tok. rewrite H. cbn. rewrite !app_nil_r. split; reflexivity.
Qed.

(* every script start tag read back carries the nonce as its only attribute when the element comes from a script
   template (the part of the statement the CSP nonce sink is about) *)
Lemma script_template_elems_nonce keep nonce ops : forall seen e,
  (forall id ty own body, ~ In (OJson id ty own body) ops) ->
  In e (ops_elems keep nonce seen ops) -> se_id e = [] /\ se_ty e = [] /\ se_nonce e = nonce.
Proof.
  induction ops as [|o r IH]; intros seen e NJ I; [destruct I|]. cbn [ops_elems] in I. apply in_app_or in I as [I|I].
  - destruct o as [l|s|id ty own body]; cbn [op_elems] in I.
    + unfold defs in I. destruct (flat_map cs_fn (fresh seen l)); [destruct I|]. destruct I as [<-|[]]. repeat split.
    + apply in_app_or in I as [I|I].
      * unfold defs in I. destruct (flat_map cs_fn (fresh seen [s])); [destruct I|]. destruct I as [<-|[]]. repeat split.
      * destruct (cs_call s); [destruct I|]. destruct I as [<-|[]]. repeat split.
    + exfalso. apply (NJ id ty own body). left. reflexivity.
  - apply (IH (if keep then op_seen seen o else []) e); [|exact I]. intros id ty own body J. apply (NJ id ty own body). right. exact J.
Qed.
