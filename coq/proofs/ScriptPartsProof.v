(* Script element content: static parts (author's responsibility, spec/DocExpect.v) and dynamic parts whose bytes
   are clean or cool in the sense of C03 (spec/JsLex.v; proofs/JsEscProof.v proves this of the JavaScript escaper
   and of the JSON encoder and that such bytes hold no '<').  No '<' in the dynamic data: the script-data state
   cannot be left. *)
From Coq.Strings Require Import Byte String.
From Coq Require Import List Arith NArith Bool Lia.
Import ListNotations.
From V Require Import lib.Bytes spec.HtmlTok model.Escape model.StyleAttr model.DocFrag spec.DocExpect proofs.TokRunProof proofs.TokRawProof.
From V Require spec.JsLex proofs.JsEscProof.
Open Scope nat_scope.

Lemma dyn_no_lt d : JsLex.clean d || JsLex.cool d = true -> no_lt d = true.
Proof.
  intros H. apply orb_prop in H as [H|H].
  - exact (JsEscProof.clean_no_lt d H).
  - exact (JsEscProof.cool_no_lt d H).
Qed.

Theorem script_parts_tokens ps : parts_ok ps = true -> forall rest,
  run (Text XScript (bs "script")) (flat_map part_bytes ps ++ [x3c; x2f] ++ bs "script" ++ x3e :: rest) =
  let '(st, e) := run Data rest in (st, chars (flat_map part_bytes ps) ++ TEnd (bs "script") :: e).
Proof.
  induction ps as [|p ps IH]; intros H rest.
  - apply (raw_static_tokens XScript (bs "script") [] rest eq_refl); [discriminate|reflexivity|reflexivity].
  - destruct p as [v|d]; cbn [parts_ok flat_map part_bytes] in *.
    + apply andb_prop in H as [H Hr]. apply andb_prop in H as [Ok Se]. destruct ps as [|p2 ps2].
      * cbn [flat_map]. rewrite app_nil_r.
        apply (raw_static_tokens XScript (bs "script") v rest eq_refl); [discriminate|reflexivity|exact Ok].
      * rewrite <- app_assoc. rewrite (raw_settled_tokens XScript (bs "script") v _ eq_refl Ok Se).
        rewrite (IH Hr rest). destruct (run Data rest). unfold chars. rewrite map_app, <- app_assoc. reflexivity.
    + apply andb_prop in H as [Hd Hr]. rewrite <- app_assoc.
      rewrite (run_text_nolt XScript (bs "script") d _ eq_refl (dyn_no_lt d Hd)).
      rewrite (IH Hr rest). destruct (run Data rest). unfold chars. rewrite map_app, <- app_assoc. reflexivity.
Qed.
