(* The tokenizer on comment bodies and on the static content of raw-text elements:
   under the author-side conditions of spec/DocExpect.v the body is read as ONE comment / as character data
   up to the author's end tag. *)
From Coq.Strings Require Import Byte String.
From Coq Require Import List Arith NArith Bool Lia.
Import ListNotations.
From V Require Import lib.Bytes spec.HtmlTok model.Escape model.StyleAttr model.DocFrag spec.DocExpect proofs.TokRunProof.
Open Scope nat_scope.

Lemma beq_true a b : Byte.eqb a b = true -> a = b. Proof. apply byte_eqb_eq. Qed.
Lemma beq_sym a b : Byte.eqb a b = Byte.eqb b a.
Proof.
  destruct (Byte.eqb a b) eqn:E.
  - apply byte_eqb_eq in E. subst. symmetry. apply byte_eqb_refl.
  - symmetry. apply byte_eqb_neq. apply byte_eqb_neq in E. congruence.
Qed.

(* ====================== comments ====================== *)
(* what of a possible end marker has been seen: nothing, -, --, --! *)
Inductive cpend := C0 | C1 | C2 | C3.
Definition cbytes (c : cpend) : bytes :=
  match c with C0 => [] | C1 => [x2d] | C2 => [x2d; x2d] | C3 => [x2d; x2d; x21] end.
Definition cstate (acc : bytes) (c : cpend) : tstate :=
  match c with C0 => Comment acc | C1 => CommentEndDash acc | C2 => CommentEnd acc | C3 => CommentEndBang acc end.

Lemma no_cend_suffix a s : no_cend (a ++ s) = true -> no_cend s = true.
Proof.
  induction a as [|x a IH]; [trivial|]. cbn [app no_cend]. intros H. apply andb_prop in H as [_ H]. apply IH. exact H.
Qed.
Lemma no_cend_head s : no_cend s = true -> has_prefix [x2d; x2d; x3e] s = false /\ has_prefix [x2d; x2d; x21; x3e] s = false.
Proof.
  destruct s as [|b r]; [split; reflexivity|]. cbn [no_cend]. intros H. apply andb_prop in H as [H _]. apply andb_prop in H as [H1 H2].
  apply negb_true_iff in H1. apply negb_true_iff in H2. split; assumption.
Qed.

Lemma comment_eq q X Y : X = Y ->
  (let '(st, e) := run Data q in (st, TComment X :: e)) = (let '(st, e) := run Data q in (st, TComment Y :: e)).
Proof. intros ->. reflexivity. Qed.

Lemma comment_body r : forall c acc q, no_cend (cbytes c ++ r) = true ->
  run (cstate acc c) (r ++ x2d :: x2d :: x3e :: q) = let '(st, e) := run Data q in (st, TComment (acc ++ cbytes c ++ r) :: e).
Proof.
  induction r as [|b r IH]; intros c acc q H.
  - cbn [app]. destruct c; cbn [cstate cbytes app].
    + rewrite (run_silent _ x2d (CommentEndDash acc)) by reflexivity. rewrite (run_silent _ x2d (CommentEnd acc)) by reflexivity.
      rewrite (run_emit _ x3e Data [TComment acc]) by reflexivity. apply comment_eq. rewrite app_nil_r. reflexivity.
    + rewrite (run_silent _ x2d (CommentEnd acc)) by reflexivity. rewrite (run_silent _ x2d (CommentEnd (acc ++ [x2d]))) by reflexivity.
      rewrite (run_emit _ x3e Data [TComment (acc ++ [x2d])]) by reflexivity. apply comment_eq. reflexivity.
    + rewrite (run_silent _ x2d (CommentEnd (acc ++ [x2d]))) by reflexivity.
      rewrite (run_silent _ x2d (CommentEnd ((acc ++ [x2d]) ++ [x2d]))) by reflexivity.
      rewrite (run_emit _ x3e Data [TComment ((acc ++ [x2d]) ++ [x2d])]) by reflexivity. apply comment_eq. rewrite <- app_assoc. reflexivity.
    + rewrite (run_silent _ x2d (CommentEndDash (acc ++ [x2d; x2d; x21]))) by reflexivity.
      rewrite (run_silent _ x2d (CommentEnd (acc ++ [x2d; x2d; x21]))) by reflexivity.
      rewrite (run_emit _ x3e Data [TComment (acc ++ [x2d; x2d; x21])]) by reflexivity. apply comment_eq. reflexivity.
  - cbn [app]. destruct c; cbn [cstate cbytes app] in *.
    + (* nothing pending *)
      destruct (Byte.eqb b x2d) eqn:D.
      * apply beq_true in D. subst b. rewrite (run_silent _ x2d (cstate acc C1)) by reflexivity.
        rewrite (IH C1 acc q H). apply comment_eq. reflexivity.
      * rewrite (run_silent _ b (cstate (acc ++ [b]) C0)) by (cbn [step cstate]; unfold step_comment; rewrite D; reflexivity).
        rewrite (IH C0 (acc ++ [b]) q (no_cend_suffix [b] r H)). apply comment_eq. cbn [cbytes app]. rewrite <- app_assoc. reflexivity.
    + (* - pending *)
      destruct (Byte.eqb b x2d) eqn:D.
      * apply beq_true in D. subst b. rewrite (run_silent _ x2d (cstate acc C2)) by reflexivity.
        rewrite (IH C2 acc q H). apply comment_eq. reflexivity.
      * rewrite (run_silent _ b (cstate (acc ++ [x2d] ++ [b]) C0)).
        -- rewrite (IH C0 _ q (no_cend_suffix [x2d; b] r H)). apply comment_eq. cbn [cbytes app]. rewrite <- app_assoc. reflexivity.
        -- cbn [step cstate]. rewrite D. unfold step_comment. rewrite D. rewrite <- app_assoc. reflexivity.
    + (* -- pending *)
      destruct (no_cend_head _ H) as [H1 _]. cbn [has_prefix] in H1.
      change (Byte.eqb x2d x2d) with true in H1. cbn [andb] in H1. rewrite (beq_sym x3e b) in H1.
      destruct (Byte.eqb b x3e) eqn:G; [cbn in H1; discriminate H1|].
      destruct (Byte.eqb b x21) eqn:B.
      * apply beq_true in B. subst b. rewrite (run_silent _ x21 (cstate acc C3)) by reflexivity.
        rewrite (IH C3 acc q H). apply comment_eq. reflexivity.
      * destruct (Byte.eqb b x2d) eqn:D.
        -- apply beq_true in D. subst b. rewrite (run_silent _ x2d (cstate (acc ++ [x2d]) C2)) by reflexivity.
           rewrite (IH C2 (acc ++ [x2d]) q (no_cend_suffix [x2d] _ H)). apply comment_eq. cbn [cbytes app]. rewrite <- app_assoc. reflexivity.
        -- rewrite (run_silent _ b (cstate (acc ++ [x2d; x2d] ++ [b]) C0)).
           ++ rewrite (IH C0 _ q (no_cend_suffix [x2d; x2d; b] r H)). apply comment_eq. cbn [cbytes app]. rewrite <- app_assoc. reflexivity.
           ++ cbn [step cstate]. rewrite G, B, D. unfold step_comment. rewrite D. rewrite <- app_assoc. reflexivity.
    + (* --! pending *)
      destruct (no_cend_head _ H) as [_ H2]. cbn [has_prefix] in H2.
      change (Byte.eqb x2d x2d) with true in H2. change (Byte.eqb x21 x21) with true in H2. cbn [andb] in H2. rewrite (beq_sym x3e b) in H2.
      destruct (Byte.eqb b x3e) eqn:G; [cbn in H2; discriminate H2|].
      destruct (Byte.eqb b x2d) eqn:D.
      * apply beq_true in D. subst b. rewrite (run_silent _ x2d (cstate (acc ++ [x2d; x2d; x21]) C1)) by reflexivity.
        rewrite (IH C1 _ q (no_cend_suffix [x2d; x2d; x21] _ H)). apply comment_eq. cbn [cbytes app]. rewrite <- app_assoc. reflexivity.
      * rewrite (run_silent _ b (cstate (acc ++ [x2d; x2d; x21] ++ [b]) C0)).
        -- rewrite (IH C0 _ q (no_cend_suffix [x2d; x2d; x21; b] r H)). apply comment_eq. cbn [cbytes app]. rewrite <- app_assoc. reflexivity.
        -- cbn [step cstate]. rewrite D, G. unfold step_comment. rewrite D. rewrite <- app_assoc. reflexivity.
Qed.

(* a whole comment, from the data state *)
Theorem comment_tokens d q : comment_ok d = true ->
  run Data ([x3c; x21; x2d; x2d] ++ d ++ [x2d; x2d; x3e] ++ q) = let '(st, e) := run Data q in (st, TComment d :: e).
Proof.
  unfold comment_ok. intros H. apply andb_prop in H as [H Hc]. apply andb_prop in H as [Hs1 Hs2].
  apply negb_true_iff in Hs1. apply negb_true_iff in Hs2.
  cbn [app]. unfold Data.
  rewrite (run_silent _ x3c TagOpen) by reflexivity. rewrite (run_silent _ x21 (MarkupDecl [])) by reflexivity.
  rewrite (run_silent _ x2d (MarkupDecl [x2d])) by reflexivity. rewrite (run_silent _ x2d CommentStart) by reflexivity.
  destruct d as [|b r].
  - cbn [app]. rewrite (run_silent _ x2d CommentStartDash) by reflexivity. rewrite (run_silent _ x2d (CommentEnd [])) by reflexivity.
    rewrite (run_emit _ x3e Data [TComment []]) by reflexivity. reflexivity.
  - cbn [has_prefix] in Hs1. rewrite andb_true_r in Hs1. rewrite (beq_sym x3e b) in Hs1. cbn [app].
    destruct (Byte.eqb b x2d) eqn:D.
    + apply beq_true in D. subst b. rewrite (run_silent _ x2d CommentStartDash) by reflexivity.
      destruct r as [|b2 r2].
      * cbn [app]. rewrite (run_silent _ x2d (CommentEnd [])) by reflexivity. rewrite (run_silent _ x2d (CommentEnd [x2d])) by reflexivity.
        rewrite (run_emit _ x3e Data [TComment [x2d]]) by reflexivity. reflexivity.
      * cbn [has_prefix] in Hs2. change (Byte.eqb x2d x2d) with true in Hs2. rewrite andb_true_r in Hs2. cbn [andb] in Hs2. rewrite (beq_sym x3e b2) in Hs2. cbn [app].
        destruct (Byte.eqb b2 x2d) eqn:D2.
        -- apply beq_true in D2. subst b2. rewrite (run_silent _ x2d (cstate [] C2)) by reflexivity.
           rewrite (comment_body r2 C2 [] q Hc). apply comment_eq. reflexivity.
        -- rewrite (run_silent _ b2 (cstate ([x2d] ++ [b2]) C0)).
           ++ rewrite (comment_body r2 C0 _ q (no_cend_suffix [x2d; b2] r2 Hc)). apply comment_eq. reflexivity.
           ++ cbn [step cstate]. rewrite D2, Hs2. unfold step_comment. rewrite D2. reflexivity.
    + rewrite (run_silent _ b (cstate [b] C0)).
      * rewrite (comment_body r C0 _ q (no_cend_suffix [b] r Hc)). apply comment_eq. reflexivity.
      * cbn [step cstate]. rewrite D, Hs1. unfold step_comment. rewrite D. reflexivity.
Qed.

(* doctype:  <!doctype d>  with no > in d *)
Lemma run_doctype d : no_gt d = true -> forall acc q,
  run (Doctype acc) (d ++ x3e :: q) = let '(st, e) := run Data q in (st, TDoctype (acc ++ d) :: e).
Proof.
  induction d as [|b r IH]; intros H acc q.
  - cbn [app]. rewrite (run_emit _ x3e Data [TDoctype acc]) by reflexivity. rewrite app_nil_r. reflexivity.
  - unfold no_gt in H. cbn [forallb] in H. apply andb_prop in H as [Hb Hr]. apply negb_true_iff in Hb.
    cbn [app]. rewrite (run_silent _ b (Doctype (acc ++ [b]))) by (cbn [step]; rewrite Hb; reflexivity).
    rewrite (IH Hr). rewrite <- app_assoc. reflexivity.
Qed.
Theorem doctype_tokens d q : no_gt d = true ->
  run Data (bs "<!doctype " ++ d ++ x3e :: q) = let '(st, e) := run Data q in (st, TDoctype (x20 :: d) :: e).
Proof.
  intros H. change (bs "<!doctype ") with ([x3c; x21; x64; x6f; x63; x74; x79; x70; x65; x20]). cbn [app]. unfold Data.
  rewrite (run_silent _ x3c TagOpen) by reflexivity. rewrite (run_silent _ x21 (MarkupDecl [])) by reflexivity.
  rewrite (run_silent _ x64 (MarkupDecl [x64])) by reflexivity.
  rewrite (run_silent _ x6f (MarkupDecl [x64; x6f])) by reflexivity.
  rewrite (run_silent _ x63 (MarkupDecl [x64; x6f; x63])) by reflexivity.
  rewrite (run_silent _ x74 (MarkupDecl [x64; x6f; x63; x74])) by reflexivity.
  rewrite (run_silent _ x79 (MarkupDecl [x64; x6f; x63; x74; x79])) by reflexivity.
  rewrite (run_silent _ x70 (MarkupDecl [x64; x6f; x63; x74; x79; x70])) by reflexivity.
  rewrite (run_silent _ x65 (Doctype [])) by reflexivity.
  rewrite (run_silent _ x20 (Doctype [x20])) by reflexivity.
  apply (run_doctype d H [x20] q).
Qed.

(* ====================== static content of raw-text elements ====================== *)
Definition pbytes (p : pnd) : bytes :=
  match p with P0 => [] | PLt => [x3c] | PEndOpen => [x3c; x2f] | PName buf => [x3c; x2f] ++ buf end.
Definition pstate (x : tx) (nm : bytes) (p : pnd) : tstate :=
  match p with P0 => Text x nm | PLt => RawLt x nm | PEndOpen => RawEndOpen x nm | PName buf => RawEndName x nm buf end.
Definition raw2 (x : tx) : bool := match x with XRawtext | XScript => true | _ => false end.
(* the invariant: what is pending followed by what remains holds no end tag (and, in a script, no <! ) *)
Definition inv (x : tx) (nm : bytes) (s : bytes) : bool :=
  no_close nm s && match x with XScript => no_bang s | _ => true end.

Lemma no_close_suffix nm a s : no_close nm (a ++ s) = true -> no_close nm s = true.
Proof. induction a as [|c a IH]; [trivial|]. cbn [app no_close]. intros H. apply andb_prop in H as [_ H]. apply IH. exact H. Qed.
Lemma no_bang_suffix a s : no_bang (a ++ s) = true -> no_bang s = true.
Proof. induction a as [|c a IH]; [trivial|]. cbn [app no_bang]. intros H. apply andb_prop in H as [_ H]. apply IH. exact H. Qed.
Lemma inv_suffix x nm a s : inv x nm (a ++ s) = true -> inv x nm s = true.
Proof.
  unfold inv. intros H. apply andb_prop in H as [H1 H2]. rewrite (no_close_suffix nm a s H1). destruct x; try exact H2.
  apply (no_bang_suffix a s H2).
Qed.

Lemma has_prefix_app_self (p r : bytes) : has_prefix p (p ++ r) = true.
Proof. induction p as [|c p IH]; [reflexivity|]. cbn. rewrite byte_eqb_refl. exact IH. Qed.

(* in RawEndName the buffer is not the element's name, whatever follows *)
Lemma name_not_closed x nm buf r : inv x nm (pbytes (PName buf) ++ r) = true -> bytes_eqb (map lower buf) nm = false.
Proof.
  unfold inv. intros H. apply andb_prop in H as [H _]. cbn [pbytes app no_close] in H. apply andb_prop in H as [H _].
  apply negb_true_iff in H. destruct (bytes_eqb (map lower buf) nm) eqn:E; [|reflexivity]. exfalso.
  apply bytes_eqb_eq in E. cbn [map has_prefix] in H. change (lower x3c) with x3c in H. change (lower x2f) with x2f in H.
  change (Byte.eqb x3c x3c) with true in H. change (Byte.eqb x2f x2f) with true in H. cbn [andb] in H.
  rewrite map_app in H. rewrite E in H. rewrite has_prefix_app_self in H. discriminate H.
Qed.
Lemma lt_not_bang nm r b : inv XScript nm (pbytes PLt ++ b :: r) = true -> Byte.eqb b x21 = false.
Proof.
  unfold inv. intros H. apply andb_prop in H as [_ H]. cbn [pbytes app no_bang] in H. apply andb_prop in H as [H _].
  apply negb_true_iff in H. cbn [has_prefix] in H. change (Byte.eqb x3c x3c) with true in H. cbn [andb] in H.
  rewrite andb_true_r in H. rewrite (beq_sym x21 b) in H. exact H.
Qed.

Lemma alpha_not_lt b : is_alpha b = true -> Byte.eqb b x3c = false.
Proof. destruct b; vm_compute; congruence. Qed.

(* one step of a pending state on a byte: the new pending state is [adv], and everything that is no longer
   pending is emitted as character tokens *)
Lemma raw_step x nm p b r : raw2 x = true -> inv x nm (pbytes p ++ b :: r) = true ->
  exists em, step (pstate x nm p) b = (pstate x nm (adv p b), chars em) /\ em ++ pbytes (adv p b) = pbytes p ++ [b].
Proof.
  intros X I. unfold adv. destruct (Byte.eqb b x3c) eqn:L.
  - apply beq_true in L. subst b. destruct p as [| | |buf]; cbn [pstate pbytes].
    + exists []. split; [destruct x; try discriminate X; reflexivity|reflexivity].
    + exists [x3c]. split; [destruct x; try discriminate X; reflexivity|reflexivity].
    + exists [x3c; x2f]. split; [destruct x; try discriminate X; reflexivity|reflexivity].
    + exists ([x3c; x2f] ++ buf). split; [|rewrite <- app_assoc; reflexivity].
      cbn [step]. change (is_alpha x3c) with false. cbv iota. change (is_ws x3c) with false.
      change (Byte.eqb x3c x2f) with false. change (Byte.eqb x3c x3e) with false. rewrite !andb_false_r.
      destruct x; try discriminate X; unfold reconsume_text, step_text; change (Byte.eqb x3c x3c) with true;
        cbv beta iota zeta; rewrite app_nil_r; reflexivity.
  - destruct p as [| | |buf]; cbn [pstate pbytes].
    + exists [b]. split; [|reflexivity]. destruct x; try discriminate X; cbn [step step_text]; rewrite L; reflexivity.
    + destruct (Byte.eqb b x2f) eqn:S.
      * exists []. split; [|apply beq_true in S; subst b; reflexivity]. cbn [step]. rewrite S. reflexivity.
      * exists [x3c; b]. split; [|reflexivity]. cbn [step]. rewrite S.
        destruct x; try discriminate X.
        -- unfold reconsume_text. cbn [step_text]. rewrite L. reflexivity.
        -- rewrite (lt_not_bang nm r b I). unfold reconsume_text. cbn [step_text]. rewrite L. reflexivity.
    + destruct (is_alpha b) eqn:A.
      * exists []. split; [|reflexivity]. cbn [step]. rewrite A. reflexivity.
      * exists [x3c; x2f; b]. split; [|reflexivity]. cbn [step]. rewrite A. unfold reconsume_text.
        destruct x; try discriminate X; cbn [step_text]; rewrite L; reflexivity.
    + destruct (is_alpha b) eqn:A.
      * exists []. split; [|rewrite <- app_assoc; reflexivity]. cbn [step]. rewrite A. reflexivity.
      * exists (([x3c; x2f] ++ buf) ++ [b]). split; [|rewrite app_nil_r; reflexivity].
        cbn [step]. rewrite A. rewrite (name_not_closed x nm buf (b :: r) I). cbn [andb]. unfold reconsume_text.
        destruct x; try discriminate X; cbn [step_text]; rewrite L; unfold chars; rewrite !map_app; reflexivity.
Qed.

(* static content followed by anything: the pending state at the end is the fold of [adv] *)
Lemma raw_run x nm : raw2 x = true -> forall r p q, inv x nm (pbytes p ++ r) = true ->
  exists em, run (pstate x nm p) (r ++ q) = (let '(st, e) := run (pstate x nm (fold_left adv r p)) q in (st, chars em ++ e))
             /\ em ++ pbytes (fold_left adv r p) = pbytes p ++ r.
Proof.
  intros X. induction r as [|b r IH]; intros p q I.
  - exists []. split; [cbn; destruct (run (pstate x nm p) q); reflexivity|cbn; rewrite app_nil_r; reflexivity].
  - destruct (raw_step x nm p b r X I) as [em1 [S1 E1]].
    assert (I' : inv x nm (pbytes (adv p b) ++ r) = true).
    { apply (inv_suffix x nm em1). rewrite app_assoc, E1, <- app_assoc. exact I. }
    destruct (IH (adv p b) q I') as [em2 [S2 E2]].
    exists (em1 ++ em2). split.
    + cbn [app fold_left]. rewrite (run_emit _ _ _ _ _ S1). rewrite S2.
      destruct (run (pstate x nm (fold_left adv r (adv p b))) q). unfold chars. rewrite map_app, app_assoc. reflexivity.
    + cbn [fold_left]. rewrite <- app_assoc, E2, app_assoc, E1, <- app_assoc. reflexivity.
Qed.

(* the author's end tag read from any pending state *)
Lemma raw_close x nm p n rest : raw2 x = true -> n <> [] -> forallb is_alpha n = true -> nm = map lower n ->
  run (pstate x nm p) ([x3c; x2f] ++ n ++ x3e :: rest) = let '(st, e) := run Data rest in (st, chars (pbytes p) ++ TEnd nm :: e).
Proof.
  intros X Hne Ha ->. destruct n as [|c r]; [congruence|]. cbn [forallb] in Ha. apply andb_prop in Ha as [Hc Hr].
  assert (F : step (pstate x (map lower (c :: r)) p) x3c = (RawLt x (map lower (c :: r)), chars (pbytes p))).
  { destruct p as [| | |buf]; cbn [pstate pbytes].
    - destruct x; try discriminate X; reflexivity.
    - destruct x; try discriminate X; reflexivity.
    - destruct x; try discriminate X; reflexivity.
    - cbn [step]. change (is_alpha x3c) with false. cbv iota. change (is_ws x3c) with false.
      change (Byte.eqb x3c x2f) with false. change (Byte.eqb x3c x3e) with false. rewrite !andb_false_r.
      destruct x; try discriminate X; unfold reconsume_text, step_text; change (Byte.eqb x3c x3c) with true;
        cbv beta iota zeta; rewrite app_nil_r; reflexivity. }
  cbn [app]. rewrite (run_emit _ _ _ _ _ F).
  rewrite (run_silent _ x2f (RawEndOpen x (map lower (c :: r)))) by reflexivity.
  rewrite (run_silent _ c (RawEndName x (map lower (c :: r)) [c])) by (cbn [step]; rewrite Hc; reflexivity).
  assert (N : forall k, forallb is_alpha k = true -> forall buf q, run (RawEndName x (map lower (c :: r)) buf) (k ++ q) = run (RawEndName x (map lower (c :: r)) (buf ++ k)) q).
  { induction k as [|b k IHk]; intros H buf q; [rewrite app_nil_r; reflexivity|].
    cbn [forallb] in H. apply andb_prop in H as [Hb Hk]. cbn [app].
    rewrite (run_silent _ b (RawEndName x (map lower (c :: r)) (buf ++ [b]))) by (cbn [step]; rewrite Hb; reflexivity).
    rewrite (IHk Hk). rewrite <- app_assoc. reflexivity. }
  rewrite (N r Hr). rewrite (run_emit _ x3e Data [TEnd (map lower (c :: r))]).
  - destruct (run Data rest). reflexivity.
  - cbn [step app]. change (is_alpha x3e) with false. cbv iota. rewrite bytes_eqb_refl. reflexivity.
Qed.

(* static content and the author's end tag *)
Theorem raw_static_tokens x n v rest : raw2 x = true -> n <> [] -> forallb is_alpha n = true ->
  raw_static_ok x (map lower n) v = true ->
  run (Text x (map lower n)) (v ++ [x3c; x2f] ++ n ++ x3e :: rest) = let '(st, e) := run Data rest in (st, chars v ++ TEnd (map lower n) :: e).
Proof.
  intros X Hne Ha Ok.
  assert (I : inv x (map lower n) (pbytes P0 ++ v) = true).
  { unfold inv, raw_static_ok in *. cbn [pbytes app]. destruct x; try discriminate X; [rewrite Ok; reflexivity|exact Ok]. }
  destruct (raw_run x (map lower n) X v P0 ([x3c; x2f] ++ n ++ x3e :: rest) I) as [em [R E]].
  change (Text x (map lower n)) with (pstate x (map lower n) P0). rewrite R. clear R.
  remember (fold_left adv v P0) as pf eqn:Hp. clear Hp.
  rewrite (raw_close x (map lower n) _ n rest X Hne Ha eq_refl). destruct (run Data rest).
  cbn [pbytes app] in E. rewrite <- E. unfold chars. rewrite map_app, <- app_assoc. reflexivity.
Qed.

(* a settled static part leaves the tokenizer in the text state *)
Theorem raw_settled_tokens x nm v q : raw2 x = true -> raw_static_ok x nm v = true -> settled v = true ->
  run (Text x nm) (v ++ q) = let '(st, e) := run (Text x nm) q in (st, chars v ++ e).
Proof.
  intros X Ok Se.
  assert (I : inv x nm (pbytes P0 ++ v) = true).
  { unfold inv, raw_static_ok in *. cbn [pbytes app]. destruct x; try discriminate X; [rewrite Ok; reflexivity|exact Ok]. }
  destruct (raw_run x nm X v P0 q I) as [em [R E]].
  change (Text x nm) with (pstate x nm P0). rewrite R. unfold settled in Se.
  destruct (fold_left adv v P0); try discriminate Se. cbn [pbytes pstate app] in *. rewrite app_nil_r in E. subst em. reflexivity.
Qed.
