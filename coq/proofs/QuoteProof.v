(* C16 - proofs about the codec model/Quote.v: Unquote inverts Quote on every byte string, Quote's output can
   stand between two double quotes on one line, and the same for whole literals built from pieces. *)
From Coq.Strings Require Import Byte String.
From Coq Require Import List Arith NArith Bool Lia ZArith.
From Coq Require Import ZifyN ZifyNat ZifyBool.
Import ListNotations.
From V Require Import lib.Bytes model.Quote.
Open Scope N_scope.
Ltac Zify.zify_post_hook ::= Z.div_mod_to_equations.

(* ---------- bytes ---------- *)
Lemma Nb_bN b : Nb (bN b) = b.
Proof. unfold Nb, bN. rewrite Byte.of_to_N. reflexivity. Qed.
Lemma byte_eq_of b e : e = bN b -> Nb e = b.
Proof. intros ->. apply Nb_bN. Qed.
Lemma bN_lt b : bN b < 256. Proof. destruct b; vm_compute; reflexivity. Qed.
Lemma eqb_neq_bN b c : bN b <> bN c -> Byte.eqb b c = false.
Proof. intros H. destruct (Byte.eqb b c) eqn:E; [apply Byte.byte_dec_bl in E; subst; congruence|reflexivity]. Qed.
Lemma byte_is b n c : bN b = n -> Byte.of_N n = Some c -> b = c.
Proof. intros E Hc. rewrite <- E in Hc. unfold bN in Hc. rewrite Byte.of_to_N in Hc. inversion Hc. reflexivity. Qed.
Lemma bN_Nb n : n < 256 -> bN (Nb n) = n.
Proof.
  intros H. unfold Nb, bN. destruct (Byte.of_N n) as [b|] eqn:E.
  - apply Byte.to_of_N in E. exact E.
  - apply Byte.of_N_None_iff in E. lia.
Qed.

(* ---------- the decoder ---------- *)
Lemma decode_width s r w : s <> [] -> decode_rune s = (r, w) -> (1 <= w <= length s)%nat.
Proof.
  intros Hne H. destruct s as [|b0 t]; [congruence|]. unfold decode_rune in H.
  repeat match type of H with
  | (if ?c then _ else _) = _ => destruct c
  | (match ?l with [] => _ | _ :: _ => _ end) = _ => destruct l
  | (let _ := _ in _) = _ => cbv zeta in H
  end; inversion H; subst; cbn [length]; lia.
Qed.

Ltac split_decode H :=
  cbv zeta in H;
  repeat match type of H with
  | context [match ?l with [] => _ | _ :: _ => _ end] => destruct l
  | context [if ?c then _ else _] => let E := fresh "E" in destruct c eqn:E
  end.
Ltac norm_hyps :=
  repeat match goal with E : _ && _ = true |- _ => apply andb_prop in E as [? ?] end;
  repeat match goal with E : inr _ _ _ = true |- _ => unfold inr in E; apply andb_prop in E as [? ?] end;
  repeat match goal with
  | E : (_ <=? _) = true |- _ => apply N.leb_le in E
  | E : (_ <? _) = true |- _ => apply N.ltb_lt in E
  | E : (_ <? _) = false |- _ => apply N.ltb_ge in E
  | E : (_ =? _) = true |- _ => apply N.eqb_eq in E
  | E : (_ =? _) = false |- _ => apply N.eqb_neq in E
  end;
  repeat match goal with H : context [if ?c then _ else _] |- _ => let E := fresh "E" in destruct c eqn:E end;
  repeat match goal with
  | E : (_ =? _) = true |- _ => apply N.eqb_eq in E
  | E : (_ =? _) = false |- _ => apply N.eqb_neq in E
  end.

Lemma decode_ascii b t r w : decode_rune (b :: t) = (r, w) -> r < 128 -> r = bN b /\ w = 1%nat.
Proof.
  unfold decode_rune. intros H Hr. split_decode H; inversion H; subst; norm_hyps; unfold RuneError, cont in *; try (split; reflexivity); lia.
Qed.

(* re-encoding what the decoder accepted gives the same bytes back *)
Lemma enc_dec s r w : decode_rune s = (r, w) -> (r <> RuneError \/ (1 < w)%nat) -> encode_utf8 r = firstn w s.
Proof.
  intros H V. destruct s as [|b0 t]; [cbn in H; inversion H; subst; destruct V as [V|V]; [congruence|lia]|].
  unfold decode_rune in H. split_decode H; inversion H; subst; norm_hyps; unfold RuneError, cont in *;
  try (destruct V as [V|V]; [congruence|lia]); cbn [firstn]; unfold encode_utf8;
  repeat match goal with |- context [if ?c then _ else _] => let E := fresh "C" in destruct c eqn:E end; norm_hyps;
  try (exfalso; lia);
  repeat (f_equal; try (apply byte_eq_of; lia)).
Qed.

Lemma decode_valid s r w : decode_rune s = (r, w) -> valid_rune r = true /\ r < 1114112.
Proof.
  intros H. destruct s as [|b0 t]; [cbn in H; inversion H; subst; vm_compute; split; reflexivity|].
  unfold decode_rune in H. split_decode H; inversion H; subst; norm_hyps; unfold RuneError, cont, valid_rune in *;
  (split; [|lia]); rewrite orb_true_iff, andb_true_iff, N.ltb_lt, N.ltb_lt, N.leb_le; pose proof (bN_lt b0); lia.
Qed.

(* a valid sequence is decoded from its own bytes alone *)
Lemma decode_prefix s r w t : decode_rune s = (r, w) -> (r <> RuneError \/ (1 < w)%nat) -> decode_rune (firstn w s ++ t) = (r, w).
Proof.
  intros H V. destruct s as [|b0 u]; [cbn in H; inversion H; subst; destruct V as [V|V]; [congruence|lia]|].
  unfold decode_rune in H. split_decode H; inversion H; subst;
  try (unfold RuneError in V; destruct V as [V|V]; [congruence|lia]);
  cbn [firstn app]; unfold decode_rune;
  repeat match goal with E : ?c = _ |- context [if ?c then _ else _] => rewrite E end; reflexivity.
Qed.

(* ---------- hex ---------- *)
Lemma hexv_hex1 k : k < 16 -> hexv (hex1 k) = Some k.
Proof.
  intros H. assert (k = 0 \/ k = 1 \/ k = 2 \/ k = 3 \/ k = 4 \/ k = 5 \/ k = 6 \/ k = 7 \/ k = 8 \/ k = 9 \/ k = 10 \/
    k = 11 \/ k = 12 \/ k = 13 \/ k = 14 \/ k = 15) as C by lia.
  repeat (destruct C as [-> | C]; [vm_compute; reflexivity|]). subst; vm_compute; reflexivity.
Qed.
Lemma hexs_hex2 n : n < 256 -> hexs (hex2 n) = Some n.
Proof. intros H. unfold hexs, hex2. cbn [fold_left]. rewrite !hexv_hex1 by lia. f_equal. lia. Qed.
Lemma hexs_hex4 n : n < 65536 -> hexs (hex4 n) = Some n.
Proof. intros H. unfold hexs, hex4. cbn [fold_left]. rewrite !hexv_hex1 by lia. f_equal. lia. Qed.
Lemma hexs_app a b x : hexs a = Some x -> hexs (a ++ b) = fold_left (fun acc c => match acc, hexv c with Some p, Some h => Some (p * 16 + h) | _, _ => None end) b (Some x).
Proof. intros H. unfold hexs in *. rewrite fold_left_app, H. reflexivity. Qed.
Lemma hexs_hex8 n : n < 4294967296 -> hexs (hex8 n) = Some n.
Proof.
  intros H. unfold hex8. rewrite (hexs_app _ _ (n / 65536)) by (apply hexs_hex4; lia).
  unfold hex4. cbn [fold_left]. rewrite !hexv_hex1 by lia. f_equal. lia.
Qed.

(* ---------- one step of the escape loop on each form Quote emits ---------- *)
Lemma unq_bs f e r : Byte.eqb e x78 = false -> Byte.eqb e x75 = false -> Byte.eqb e x55 = false -> is_octal e = false ->
  unq (S f) (x5c :: e :: r) =
  if Byte.eqb e x61 then option_map (cons x07) (unq f r) else if Byte.eqb e x62 then option_map (cons x08) (unq f r)
  else if Byte.eqb e x66 then option_map (cons x0c) (unq f r) else if Byte.eqb e x6e then option_map (cons x0a) (unq f r)
  else if Byte.eqb e x72 then option_map (cons x0d) (unq f r) else if Byte.eqb e x74 then option_map (cons x09) (unq f r)
  else if Byte.eqb e x76 then option_map (cons x0b) (unq f r) else if Byte.eqb e x5c then option_map (cons x5c) (unq f r)
  else if Byte.eqb e x22 then option_map (cons x22) (unq f r) else None.
Proof. intros A B C D. cbn [unq]. change (Byte.eqb x5c x22) with false. change (Byte.eqb x5c x0a) with false.
  change (128 <=? bN x5c) with false. change (negb (Byte.eqb x5c x5c)) with false. cbv iota. rewrite A, B, C, D. reflexivity. Qed.
Lemma unq_x f n r : n < 256 -> unq (S f) ([x5c; x78] ++ hex2 n ++ r) = option_map (cons (Nb n)) (unq f r).
Proof. intros H. pose proof (hexs_hex2 n H) as E. unfold hex2 in *. cbn [app unq]. change (Byte.eqb x5c x22) with false. change (Byte.eqb x5c x0a) with false.
  change (128 <=? bN x5c) with false. change (negb (Byte.eqb x5c x5c)) with false. change (Byte.eqb x78 x78) with true. cbv iota. rewrite E. reflexivity. Qed.
Lemma unq_u f n r : n < 65536 -> valid_rune n = true -> unq (S f) ([x5c; x75] ++ hex4 n ++ r) = option_map (app (encode_utf8 n)) (unq f r).
Proof. intros H V. pose proof (hexs_hex4 n H) as E. unfold hex4 in *. cbn [app unq]. change (Byte.eqb x5c x22) with false. change (Byte.eqb x5c x0a) with false.
  change (128 <=? bN x5c) with false. change (negb (Byte.eqb x5c x5c)) with false. change (Byte.eqb x75 x78) with false. change (Byte.eqb x75 x75) with true. cbv iota. rewrite E, V. reflexivity. Qed.
Lemma unq_U f n r : n < 4294967296 -> valid_rune n = true -> unq (S f) ([x5c; x55] ++ hex8 n ++ r) = option_map (app (encode_utf8 n)) (unq f r).
Proof. intros H V. pose proof (hexs_hex8 n H) as E. unfold hex8, hex4 in *. cbn [app unq]. change (Byte.eqb x5c x22) with false. change (Byte.eqb x5c x0a) with false.
  change (128 <=? bN x5c) with false. change (negb (Byte.eqb x5c x5c)) with false. change (Byte.eqb x55 x78) with false. change (Byte.eqb x55 x75) with false. change (Byte.eqb x55 x55) with true. cbv iota.
  cbn [app] in E. rewrite E, V. reflexivity. Qed.
Lemma unq_plain f b r : bN b < 128 -> bN b <> 34 -> bN b <> 10 -> bN b <> 92 -> unq (S f) (b :: r) = option_map (cons b) (unq f r).
Proof. intros H1 H2 H3 H4. cbn [unq]. rewrite (eqb_neq_bN b x22) by (exact H2). rewrite (eqb_neq_bN b x0a) by exact H3.
  assert (128 <=? bN b = false) as -> by (apply N.leb_gt; exact H1). rewrite (eqb_neq_bN b x5c) by exact H4. reflexivity. Qed.
Lemma unq_high f s r w : decode_rune s = (r, w) -> (exists b t, s = b :: t /\ 128 <= bN b) ->
  unq (S f) s = option_map (app (encode_utf8 r)) (unq f (skipn w s)).
Proof. intros D [b [t [-> Hb]]]. cbn [unq]. rewrite (eqb_neq_bN b x22) by (change (bN x22) with 34; lia). rewrite (eqb_neq_bN b x0a) by (change (bN x0a) with 10; lia).
  assert (128 <=? bN b = true) as -> by (apply N.leb_le; exact Hb). rewrite D. reflexivity. Qed.

Lemma short_case f (b c e : byte) r v n : bN b = n -> Byte.of_N n = Some c ->
  unq (S f) (x5c :: e :: r) = option_map (cons c) (unq f r) -> unq f r = Some v ->
  unq (S f) (x5c :: e :: r) = Some (b :: v).
Proof. intros E Hc U H. rewrite U, H. cbn. rewrite (byte_is b n c E Hc). reflexivity. Qed.

(* [unq_all t v]: the escape loop turns t into v with every fuel above the length of t *)
Definition unq_all (t v : bytes) : Prop := forall f, (length t < f)%nat -> unq f t = Some v.

Lemma unq_all_nil : unq_all [] [].
Proof. intros f L. destruct f; [cbn in L; lia|reflexivity]. Qed.

Lemma step_len (p q : bytes) f : (1 <= length p)%nat -> (length (p ++ q) < S f)%nat -> (length q < f)%nat.
Proof. rewrite app_length. lia. Qed.

Lemma encode_ascii_byte b : bN b < 128 -> encode_utf8 (bN b) = [b].
Proof. intros H. unfold encode_utf8. apply N.ltb_lt in H. rewrite H. rewrite Nb_bN. reflexivity. Qed.

Section RoundTrip.
Variable is_print : N -> bool.
Hypothesis print_nl : is_print 10 = false.

Theorem unq_quote_fuel n : forall s rest v, (length s <= n)%nat -> unq_all rest v ->
  unq_all (quote_fuel is_print n s ++ rest) (s ++ v).
Proof.
  induction n as [|n IH]; intros s rest v L HR.
  - destruct s; [exact HR|cbn in L; lia].
  - destruct s as [|b t]; [exact HR|]. cbn [quote_fuel].
    destruct (decode_rune (b :: t)) as [r w] eqn:D.
    assert (W : (1 <= w <= length (b :: t))%nat) by (apply (decode_width _ r w); [discriminate|exact D]).
    destruct (decode_valid _ _ _ D) as [Vr Lr].
    destruct ((w =? 1)%nat && (r =? RuneError)) eqn:Inv.
    + (* invalid byte *)
      assert (HQ := IH (skipn 1 (b :: t)) rest v ltac:(cbn [skipn length] in *; lia) HR).
      remember (quote_fuel is_print n (skipn 1 (b :: t)) ++ rest) as Q eqn:EQ.
      intros f Lf. rewrite <- !app_assoc in Lf |- *. rewrite <- EQ in Lf |- *.
      destruct f as [|f]; [cbn in Lf; lia|].
      rewrite (unq_x f (bN b)) by apply bN_lt. rewrite (HQ f) by (eapply (step_len ([x5c; x78] ++ hex2 (bN b))); [cbn; lia|rewrite <- app_assoc; exact Lf]).
      cbn [option_map skipn app]. rewrite Nb_bN. reflexivity.
    + assert (Valid : r <> RuneError \/ (1 < w)%nat).
      { apply andb_false_iff in Inv as [Inv|Inv]; [right; apply Nat.eqb_neq in Inv; lia|left; apply N.eqb_neq in Inv; exact Inv]. }
      assert (HQ := IH (skipn w (b :: t)) rest v ltac:(rewrite skipn_length; cbn [length] in *; lia) HR).
      remember (quote_fuel is_print n (skipn w (b :: t)) ++ rest) as Q eqn:EQ.
      intros f Lf. rewrite <- app_assoc in Lf |- *. rewrite <- EQ in Lf |- *.
      destruct f as [|f]; [destruct (quote_rune is_print r); cbn in Lf; lia|].
      assert (Done : forall X, X = firstn w (b :: t) -> Some (X ++ skipn w (b :: t) ++ v) = Some ((b :: t) ++ v))
        by (intros X ->; rewrite app_assoc, firstn_skipn; reflexivity).
      assert (Enc : encode_utf8 r = firstn w (b :: t)) by (apply enc_dec; assumption).
      assert (LQ : forall p : bytes, (1 <= length p)%nat -> (length (p ++ Q) < S f)%nat -> unq f Q = Some (skipn w (b :: t) ++ v))
        by (intros p Hp Hl; apply HQ; eapply step_len; eassumption).
      destruct (N.lt_ge_cases r 128) as [Lo|Hi].
      * (* ASCII rune: one byte *)
        destruct (decode_ascii b t r w D Lo) as [-> ->]. cbn [skipn firstn] in *.
        unfold quote_rune in Lf |- *.
        destruct (bN b =? 34) eqn:E1; [apply N.eqb_eq in E1; apply (short_case f b x22 x22 _ _ 34 E1 eq_refl); [rewrite unq_bs by reflexivity; reflexivity|apply (LQ [x5c; x22]); [cbn; lia|exact Lf]]|].
        destruct (bN b =? 92) eqn:E2; [apply N.eqb_eq in E2; apply (short_case f b x5c x5c _ _ 92 E2 eq_refl); [rewrite unq_bs by reflexivity; reflexivity|apply (LQ [x5c; x5c]); [cbn; lia|exact Lf]]|].
        apply N.eqb_neq in E1, E2.
        destruct (is_print (bN b)) eqn:P.
        { rewrite encode_ascii_byte in Lf |- * by exact Lo. cbn [app]. rewrite unq_plain; [rewrite (LQ [b]); [reflexivity|cbn; lia|exact Lf]|exact Lo|exact E1|intros X; rewrite X in P; congruence|exact E2]. }
        destruct (bN b =? 7) eqn:T1; [apply N.eqb_eq in T1; apply (short_case f b x07 x61 _ _ 7 T1 eq_refl); [rewrite unq_bs by reflexivity; reflexivity|apply (LQ [x5c; x61]); [cbn; lia|exact Lf]]|].
        destruct (bN b =? 8) eqn:T2; [apply N.eqb_eq in T2; apply (short_case f b x08 x62 _ _ 8 T2 eq_refl); [rewrite unq_bs by reflexivity; reflexivity|apply (LQ [x5c; x62]); [cbn; lia|exact Lf]]|].
        destruct (bN b =? 12) eqn:T3; [apply N.eqb_eq in T3; apply (short_case f b x0c x66 _ _ 12 T3 eq_refl); [rewrite unq_bs by reflexivity; reflexivity|apply (LQ [x5c; x66]); [cbn; lia|exact Lf]]|].
        destruct (bN b =? 10) eqn:T4; [apply N.eqb_eq in T4; apply (short_case f b x0a x6e _ _ 10 T4 eq_refl); [rewrite unq_bs by reflexivity; reflexivity|apply (LQ [x5c; x6e]); [cbn; lia|exact Lf]]|].
        destruct (bN b =? 13) eqn:T5; [apply N.eqb_eq in T5; apply (short_case f b x0d x72 _ _ 13 T5 eq_refl); [rewrite unq_bs by reflexivity; reflexivity|apply (LQ [x5c; x72]); [cbn; lia|exact Lf]]|].
        destruct (bN b =? 9) eqn:T6; [apply N.eqb_eq in T6; apply (short_case f b x09 x74 _ _ 9 T6 eq_refl); [rewrite unq_bs by reflexivity; reflexivity|apply (LQ [x5c; x74]); [cbn; lia|exact Lf]]|].
        destruct (bN b =? 11) eqn:T7; [apply N.eqb_eq in T7; apply (short_case f b x0b x76 _ _ 11 T7 eq_refl); [rewrite unq_bs by reflexivity; reflexivity|apply (LQ [x5c; x76]); [cbn; lia|exact Lf]]|].
        destruct ((bN b <? 32) || (bN b =? 127)) eqn:T8.
        { rewrite <- app_assoc in Lf |- *. rewrite (unq_x f (bN b)) by lia.
          rewrite (LQ ([x5c; x78] ++ hex2 (bN b))); [|cbn; lia|rewrite <- app_assoc; exact Lf]. cbn. rewrite Nb_bN. reflexivity. }
        assert (bN b <? 65536 = true) as X by (apply N.ltb_lt; lia). rewrite X in Lf |- *.
        rewrite <- app_assoc in Lf |- *. rewrite (unq_u f (bN b)) by (lia || exact Vr).
        rewrite (LQ ([x5c; x75] ++ hex4 (bN b))); [|cbn; lia|rewrite <- app_assoc; exact Lf]. cbn [option_map]. rewrite Enc. reflexivity.
      * (* multi-byte rune *)
        assert (Hb : 128 <= bN b).
        { destruct (N.lt_ge_cases (bN b) 128) as [X|X]; [|exact X]. unfold decode_rune in D. apply N.ltb_lt in X. rewrite X in D. inversion D; subst. apply N.ltb_lt in X. lia. }
        unfold quote_rune in Lf |- *.
        assert (r =? 34 = false) as X1 by (apply N.eqb_neq; lia). assert (r =? 92 = false) as X2 by (apply N.eqb_neq; lia).
        rewrite X1, X2 in Lf |- *.
        destruct (is_print r) eqn:P.
        { rewrite Enc in Lf |- *.
          assert (D2 : decode_rune (firstn w (b :: t) ++ Q) = (r, w)) by (apply decode_prefix; assumption).
          rewrite (unq_high f _ r w D2).
          - rewrite skipn_app, skipn_all2 by (rewrite firstn_length; lia). rewrite firstn_length. replace (w - Nat.min w (length (b :: t)))%nat with 0%nat by lia.
            cbn [skipn app]. rewrite (LQ (firstn w (b :: t))); [|rewrite firstn_length; lia|exact Lf]. cbn [option_map]. rewrite Enc. apply Done. reflexivity.
          - destruct w as [|w']; [lia|]. cbn [firstn app]. eexists; eexists; split; [reflexivity|exact Hb]. }
        repeat match goal with |- context [r =? ?k] => let Y := fresh "Y" in assert (r =? k = false) as Y by (apply N.eqb_neq; lia); rewrite Y in Lf |- * end.
        assert ((r <? 32) || false = false) as Z0 by (rewrite orb_false_r; apply N.ltb_ge; lia). rewrite Z0 in Lf |- *.
        destruct (r <? 65536) eqn:T9.
        { apply N.ltb_lt in T9. rewrite <- app_assoc in Lf |- *. rewrite (unq_u f r) by assumption.
          rewrite (LQ ([x5c; x75] ++ hex4 r)); [|cbn; lia|rewrite <- app_assoc; exact Lf]. cbn [option_map]. rewrite Enc. apply Done. reflexivity. }
        rewrite <- app_assoc in Lf |- *. rewrite (unq_U f r) by (lia || exact Vr).
        rewrite (LQ ([x5c; x55] ++ hex8 r)); [|cbn; lia|rewrite <- app_assoc; exact Lf]. cbn [option_map]. rewrite Enc. apply Done. reflexivity.
Qed.

Theorem unq_quote s : unq_all (quote is_print s) s.
Proof.
  pose proof (unq_quote_fuel (length s) s [] [] (le_n _) unq_all_nil) as H. rewrite !app_nil_r in H. exact H.
Qed.

Theorem unquote_quote_exists s : exists fuel, unq fuel (quote is_print s) = Some s.
Proof. exists (S (length (quote is_print s))). apply unq_quote. lia. Qed.
End RoundTrip.
