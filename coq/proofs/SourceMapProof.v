(* C07 proofs, part 1: SourceMap.Add (model/SourceMap.v) fills both lookup tables at every rune start of every
   line of an expression (and one past the end of each line), leaves all other keys alone, and Adds with
   disjoint key sets do not disturb each other.  No ASCII restriction: lines are walked by UTF-8 lead-byte
   widths exactly as the model (and spec.SmSpec.rune_starts) does. *)
From Coq.Strings Require Import Byte String.
From Coq Require Import List Arith NArith Bool Lia ZifyN ZifyNat ZifyBool.
Import ListNotations.
From V Require Import lib.Bytes lib.Sexp model.Ast model.Gen model.SourceMap spec.SmSpec.
Local Open Scope nat_scope.

(* ================= definitions used in the statements ================= *)

(* rune starts of a line, plus the offset one past its end (SmSpec.rune_starts with the fuel the spec uses) *)
Notation rstarts l := (rune_starts (S (length l)) l 0).

(* where the rune walk of a line stops (= length of the line unless it ends in a truncated multi-byte sequence) *)
Fixpoint rune_end (fuel : nat) (line : bytes) (off : nat) : nat :=
  match fuel with O => off | S f =>
  match line with
  | [] => off
  | b :: _ => rune_end f (skipn (lead_width b) line) (off + lead_width b)
  end end.
Notation rend l := (rune_end (S (length l)) l 0).
Definition aligned (l : bytes) : Prop := rend l = length l.
Definition alignedb (l : bytes) : bool := rend l =? length l.

(* byte offset of line i inside the expression text, as Add counts it (roff) and as the text has it (line_off) *)
Fixpoint roff (lines : list bytes) (i : nat) : nat :=
  match i, lines with S k, l :: r => rend l + 1 + roff r k | _, _ => 0 end.
Fixpoint line_off (lines : list bytes) (i : nat) : nat :=
  match i, lines with S k, l :: r => length l + 1 + line_off r k | _, _ => 0 end.

(* column of the start of line i: the recorded column on the first line, 0 on later lines *)
Definition col0 (i : nat) (c : N) : N := if i =? 0 then c else 0%N.

Notation elines e := (split_on x0a (e_val e) []).

(* the keys Add writes for an expression, per table *)
Definition line_keys (l : bytes) (ln c0 : N) : list key :=
  map (fun j => (ln, (c0 + N.of_nat j)%N)) (rstarts l).
Fixpoint lines_keys (lines : list bytes) (ln c0 : N) : list key :=
  match lines with [] => [] | l :: r => line_keys l ln c0 ++ lines_keys r (N.succ ln) 0%N end.
Definition src_keys (e : expr) : list key := lines_keys (elines e) (e_fl e) (e_fc e).
Definition tgt_keys (e : expr) (tp : pos) : list key := lines_keys (elines e) (snd (fst tp)) (snd tp).
Definition disj (a b : list key) : Prop := forall k, In k a -> ~ In k b.

(* "the entries of e (written at target position tp) are in the two tables" *)
Definition entries (e : expr) (tp : pos) (m : smap * smap) : Prop :=
  forall i l j, nth_error (elines e) i = Some l -> In j (rstarts l) ->
    sget (e_fl e + N.of_nat i, col0 i (e_fc e) + N.of_nat j)%N (fst m)
      = Some (fst (fst tp) + N.of_nat (roff (elines e) i) + N.of_nat j, snd (fst tp) + N.of_nat i, col0 i (snd tp) + N.of_nat j)%N
    /\ sget (snd (fst tp) + N.of_nat i, col0 i (snd tp) + N.of_nat j)%N (snd m)
      = Some (e_fi e + N.of_nat (roff (elines e) i) + N.of_nat j, e_fl e + N.of_nat i, col0 i (e_fc e) + N.of_nat j)%N.

Definition sm_fold (adds : list (expr * pos)) (m : smap * smap) : smap * smap :=
  fold_left (fun m '(e, p) => sm_add e p m) adds m.

(* ================= put / sget ================= *)
Definition keq (a b : key) : bool := (fst a =? fst b)%N && (snd a =? snd b)%N.
Lemma keq_eq a b : keq a b = true <-> a = b.
Proof.
  unfold keq. destruct a, b; cbn [fst snd]. rewrite andb_true_iff, !N.eqb_eq.
  split; [intros [-> ->]; reflexivity|intros H; inversion H; auto].
Qed.
Lemma keq_refl a : keq a a = true.
Proof. apply keq_eq. reflexivity. Qed.
Lemma keq_neq a b : a <> b -> keq a b = false.
Proof. intros H. destruct (keq a b) eqn:E; [apply keq_eq in E; congruence|reflexivity]. Qed.

Lemma sget_put_same k v m : sget k (put k v m) = Some v.
Proof.
  induction m as [|[k' v'] r IH]; cbn [put sget].
  - fold (keq k k). rewrite keq_refl. reflexivity.
  - fold (keq k k'). destruct (keq k k') eqn:E.
    + cbn [sget]. fold (keq k k). rewrite keq_refl. reflexivity.
    + destruct ((fst k <? fst k')%N || ((fst k =? fst k')%N && (snd k <? snd k')%N)).
      * cbn [sget]. fold (keq k k). rewrite keq_refl. reflexivity.
      * cbn [sget]. fold (keq k k'). rewrite E. exact IH.
Qed.
Lemma sget_put_other k k2 v m : k2 <> k -> sget k2 (put k v m) = sget k2 m.
Proof.
  intros Hn. pose proof (keq_neq _ _ Hn) as Nk.
  induction m as [|[k' v'] r IH]; cbn [put sget].
  - fold (keq k2 k). rewrite Nk. reflexivity.
  - fold (keq k k'). destruct (keq k k') eqn:E.
    + apply keq_eq in E. subst k'. cbn [sget]. fold (keq k2 k). rewrite Nk. reflexivity.
    + destruct ((fst k <? fst k')%N || ((fst k =? fst k')%N && (snd k <? snd k')%N)).
      * cbn [sget]. fold (keq k2 k). rewrite Nk. reflexivity.
      * cbn [sget]. fold (keq k2 k'). destruct (keq k2 k'); [reflexivity|exact IH].
Qed.

(* ================= rune walk ================= *)
Lemma lead_width_rune_width b : lead_width b = rune_width b.
Proof. reflexivity. Qed.
Lemma lead_width_pos b : 1 <= lead_width b.
Proof. unfold lead_width. cbv zeta. destruct (_ <? 128); [lia|]. destruct (_ <? 224); [lia|]. destruct (_ <? 240); lia. Qed.

Lemma rune_starts_shift f : forall l off, rune_starts f l off = map (fun x => off + x) (rune_starts f l 0).
Proof.
  induction f as [|f IH]; intros l off; cbn [rune_starts].
  - cbn. f_equal. lia.
  - destruct l as [|b r].
    + cbn. f_equal. lia.
    + cbn [map]. f_equal; [lia|].
      rewrite (IH _ (off + lead_width b)), (IH _ (0 + lead_width b)), map_map.
      apply map_ext. intros x. lia.
Qed.
Lemma rune_end_shift f : forall l off, rune_end f l off = off + rune_end f l 0.
Proof.
  induction f as [|f IH]; intros l off; cbn [rune_end]; [lia|].
  destruct l as [|b r]; [lia|].
  rewrite (IH _ (off + lead_width b)), (IH _ (0 + lead_width b)). lia.
Qed.
Lemma rune_starts_zero f l : In 0 (rune_starts f l 0).
Proof. destruct f; cbn [rune_starts]; [left; reflexivity|]. destruct l; left; reflexivity. Qed.

(* ================= one line ================= *)
Lemma add_line_spec : forall fuel line si sl sc ti tl tc m,
  let r := add_line fuel line (si, sl, sc) (ti, tl, tc) m in
  let m' := fst (fst r) in
  let rs := rune_starts fuel line 0 in
  let en := N.of_nat (rune_end fuel line 0) in
  (forall j, In j rs -> sget (sl, sc + N.of_nat j)%N (fst m') = Some (ti + N.of_nat j, tl, tc + N.of_nat j)%N) /\
  (forall j, In j rs -> sget (tl, tc + N.of_nat j)%N (snd m') = Some (si + N.of_nat j, sl, sc + N.of_nat j)%N) /\
  (forall k, (forall j, In j rs -> k <> (sl, sc + N.of_nat j)%N) -> sget k (fst m') = sget k (fst m)) /\
  (forall k, (forall j, In j rs -> k <> (tl, tc + N.of_nat j)%N) -> sget k (snd m') = sget k (snd m)) /\
  snd (fst r) = (si + en, sl, sc + en)%N /\ snd r = (ti + en, tl, tc + en)%N.
Proof.
  assert (Base : forall si sl sc ti tl tc (m : smap * smap),
    let m1 := (put (sl, sc) (ti, tl, tc) (fst m), put (tl, tc) (si, sl, sc) (snd m)) in
    (forall j, In j [0] -> sget (sl, sc + N.of_nat j)%N (fst m1) = Some (ti + N.of_nat j, tl, tc + N.of_nat j)%N) /\
    (forall j, In j [0] -> sget (tl, tc + N.of_nat j)%N (snd m1) = Some (si + N.of_nat j, sl, sc + N.of_nat j)%N) /\
    (forall k, (forall j, In j [0] -> k <> (sl, sc + N.of_nat j)%N) -> sget k (fst m1) = sget k (fst m)) /\
    (forall k, (forall j, In j [0] -> k <> (tl, tc + N.of_nat j)%N) -> sget k (snd m1) = sget k (snd m)) /\
    (si, sl, sc) = (si + N.of_nat 0, sl, sc + N.of_nat 0)%N /\ (ti, tl, tc) = (ti + N.of_nat 0, tl, tc + N.of_nat 0)%N).
  { intros. cbn [fst snd]. repeat split.
    - intros j [<-|[]]. cbn [N.of_nat]. rewrite !N.add_0_r. apply sget_put_same.
    - intros j [<-|[]]. cbn [N.of_nat]. rewrite !N.add_0_r. apply sget_put_same.
    - intros k Hk. apply sget_put_other. specialize (Hk 0 (or_introl eq_refl)). cbn [N.of_nat] in Hk. rewrite N.add_0_r in Hk. exact Hk.
    - intros k Hk. apply sget_put_other. specialize (Hk 0 (or_introl eq_refl)). cbn [N.of_nat] in Hk. rewrite N.add_0_r in Hk. exact Hk.
    - cbn [N.of_nat]. rewrite !N.add_0_r. reflexivity.
    - cbn [N.of_nat]. rewrite !N.add_0_r. reflexivity. }
  induction fuel as [|f IH]; intros line si sl sc ti tl tc m.
  - cbn [add_line rune_starts rune_end fst snd]. apply Base.
  - destruct line as [|b rest].
    + cbn [add_line rune_starts rune_end fst snd]. apply Base.
    + cbn [add_line rune_starts rune_end]. cbv zeta.
      change (rune_width b) with (lead_width b).
      set (k := lead_width b). set (l2 := skipn k (b :: rest)).
      set (m1 := (put (sl, sc) (ti, tl, tc) (fst m), put (tl, tc) (si, sl, sc) (snd m))).
      pose proof (lead_width_pos b) as Kp. fold k in Kp.
      specialize (IH l2 (si + N.of_nat k)%N sl (sc + N.of_nat k)%N (ti + N.of_nat k)%N tl (tc + N.of_nat k)%N m1).
      cbv zeta in IH. destruct IH as (P1 & P2 & Q1 & Q2 & E1 & E2).
      rewrite (rune_starts_shift f l2 (0 + k)), (rune_end_shift f l2 (0 + k)).
      set (rs := rune_starts f l2 0) in *. set (en := rune_end f l2 0) in *.
      set (r := add_line f l2 _ _ m1) in *.
      repeat split.
      * intros j [<-|Hj].
        -- rewrite Q1.
           ++ unfold m1. cbn [fst N.of_nat]. rewrite !N.add_0_r. apply sget_put_same.
           ++ intros j Hj E. inversion E. lia.
        -- apply in_map_iff in Hj. destruct Hj as (j' & <- & Hj').
           replace (N.of_nat (0 + k + j')) with (N.of_nat k + N.of_nat j')%N by lia. rewrite !N.add_assoc.
           apply P1. exact Hj'.
      * intros j [<-|Hj].
        -- rewrite Q2.
           ++ unfold m1. cbn [snd N.of_nat]. rewrite !N.add_0_r. apply sget_put_same.
           ++ intros j Hj E. inversion E. lia.
        -- apply in_map_iff in Hj. destruct Hj as (j' & <- & Hj').
           replace (N.of_nat (0 + k + j')) with (N.of_nat k + N.of_nat j')%N by lia. rewrite !N.add_assoc.
           apply P2. exact Hj'.
      * intros q Hq. rewrite Q1.
        -- unfold m1. cbn [fst]. apply sget_put_other. specialize (Hq 0 (or_introl eq_refl)).
           cbn [N.of_nat] in Hq. rewrite N.add_0_r in Hq. exact Hq.
        -- intros j Hj. specialize (Hq (0 + k + j) (or_intror (in_map _ _ _ Hj))).
           replace (N.of_nat (0 + k + j)) with (N.of_nat k + N.of_nat j)%N in Hq by lia. rewrite !N.add_assoc in Hq. exact Hq.
      * intros q Hq. rewrite Q2.
        -- unfold m1. cbn [snd]. apply sget_put_other. specialize (Hq 0 (or_introl eq_refl)).
           cbn [N.of_nat] in Hq. rewrite N.add_0_r in Hq. exact Hq.
        -- intros j Hj. specialize (Hq (0 + k + j) (or_intror (in_map _ _ _ Hj))).
           replace (N.of_nat (0 + k + j)) with (N.of_nat k + N.of_nat j)%N in Hq by lia. rewrite !N.add_assoc in Hq. exact Hq.
      * rewrite E1. f_equal; [f_equal|]; lia.
      * rewrite E2. f_equal; [f_equal|]; lia.
Qed.

(* ================= all lines of one Add ================= *)
Lemma col0_S i c : col0 (S i) c = 0%N.
Proof. reflexivity. Qed.
Lemma col0_0 c : col0 0 c = c.
Proof. reflexivity. Qed.
Lemma col0_zero i : col0 i 0%N = 0%N.
Proof. unfold col0. destruct (i =? 0); reflexivity. Qed.

Lemma add_lines_spec : forall lines (isfirst : bool) si sl sc ti tl tc m,
  let sc0 := if isfirst then sc else 0%N in
  let tc0 := if isfirst then tc else 0%N in
  let m' := add_lines lines isfirst (si, sl, sc) (ti, tl, tc) m in
  (forall i l j, nth_error lines i = Some l -> In j (rstarts l) ->
     sget (sl + N.of_nat i, col0 i sc0 + N.of_nat j)%N (fst m')
       = Some (ti + N.of_nat (roff lines i) + N.of_nat j, tl + N.of_nat i, col0 i tc0 + N.of_nat j)%N /\
     sget (tl + N.of_nat i, col0 i tc0 + N.of_nat j)%N (snd m')
       = Some (si + N.of_nat (roff lines i) + N.of_nat j, sl + N.of_nat i, col0 i sc0 + N.of_nat j)%N) /\
  (forall k, (forall i l j, nth_error lines i = Some l -> In j (rstarts l) -> k <> (sl + N.of_nat i, col0 i sc0 + N.of_nat j)%N) ->
     sget k (fst m') = sget k (fst m)) /\
  (forall k, (forall i l j, nth_error lines i = Some l -> In j (rstarts l) -> k <> (tl + N.of_nat i, col0 i tc0 + N.of_nat j)%N) ->
     sget k (snd m') = sget k (snd m)).
Proof.
  induction lines as [|l r IH]; intros isfirst si sl sc ti tl tc m; cbv zeta.
  - cbn [add_lines]. split; [|split]; intros; try reflexivity. destruct i; discriminate.
  - cbn [add_lines].
    set (sc0 := if isfirst then sc else 0%N). set (tc0 := if isfirst then tc else 0%N).
    assert (Eg : add_line (S (length l)) l (if isfirst then (si, sl, sc) else (si, sl, 0%N)) (if isfirst then (ti, tl, tc) else (ti, tl, 0%N)) m
                 = add_line (S (length l)) l (si, sl, sc0) (ti, tl, tc0) m) by (unfold sc0, tc0; destruct isfirst; reflexivity).
    rewrite Eg. clear Eg.
    pose proof (add_line_spec (S (length l)) l si sl sc0 ti tl tc0 m) as AL. cbv zeta in AL.
    destruct (add_line (S (length l)) l (si, sl, sc0) (ti, tl, tc0) m) as [[m1 [[si' sl'] sc']] [[ti' tl'] tc']].
    cbn [fst snd] in AL. destruct AL as (P1 & P2 & Q1 & Q2 & E1 & E2).
    inversion E1; subst si' sl' sc'. inversion E2; subst ti' tl' tc'. clear E1 E2.
    set (en := rend l) in *.
    specialize (IH false (N.succ (si + N.of_nat en)) (N.succ sl) 0%N (N.succ (ti + N.of_nat en)) (N.succ tl) 0%N m1).
    cbv zeta in IH. destruct IH as (R1 & R2 & R3).
    set (m' := add_lines r false _ _ m1) in *.
    split; [|split].
    + intros i l0 j Hn Hj. destruct i as [|i].
      * cbn in Hn. inversion Hn; subst l0. cbn [roff N.of_nat col0 Nat.eqb]. rewrite !N.add_0_r. split.
        -- rewrite R2; [apply P1; exact Hj|]. intros i l0 j0 _ _ E. inversion E. lia.
        -- rewrite R3; [apply P2; exact Hj|]. intros i l0 j0 _ _ E. inversion E. lia.
      * cbn [nth_error] in Hn. destruct (R1 i l0 j Hn Hj) as [A B]. cbn [roff]. fold en.
        rewrite !col0_S. rewrite !col0_zero in A, B.
        replace (sl + N.of_nat (S i))%N with (N.succ sl + N.of_nat i)%N by lia.
        replace (tl + N.of_nat (S i))%N with (N.succ tl + N.of_nat i)%N by lia.
        replace (ti + N.of_nat (en + 1 + roff r i))%N with (N.succ (ti + N.of_nat en) + N.of_nat (roff r i))%N by lia.
        replace (si + N.of_nat (en + 1 + roff r i))%N with (N.succ (si + N.of_nat en) + N.of_nat (roff r i))%N by lia.
        split; assumption.
    + intros k Hk. rewrite R2.
      * apply Q1. intros j Hj. specialize (Hk 0 l j eq_refl Hj). cbn [N.of_nat col0 Nat.eqb] in Hk. rewrite N.add_0_r in Hk. exact Hk.
      * intros i l0 j Hn Hj. specialize (Hk (S i) l0 j Hn Hj). rewrite col0_S in Hk. rewrite col0_zero.
        replace (sl + N.of_nat (S i))%N with (N.succ sl + N.of_nat i)%N in Hk by lia. exact Hk.
    + intros k Hk. rewrite R3.
      * apply Q2. intros j Hj. specialize (Hk 0 l j eq_refl Hj). cbn [N.of_nat col0 Nat.eqb] in Hk. rewrite N.add_0_r in Hk. exact Hk.
      * intros i l0 j Hn Hj. specialize (Hk (S i) l0 j Hn Hj). rewrite col0_S in Hk. rewrite col0_zero.
        replace (tl + N.of_nat (S i))%N with (N.succ tl + N.of_nat i)%N in Hk by lia. exact Hk.
Qed.

(* ================= key sets ================= *)
Lemma in_lines_keys : forall lines ln c0 k,
  In k (lines_keys lines ln c0) <->
  exists i l j, nth_error lines i = Some l /\ In j (rstarts l) /\ k = (ln + N.of_nat i, col0 i c0 + N.of_nat j)%N.
Proof.
  induction lines as [|l r IH]; intros ln c0 k; cbn [lines_keys].
  - split; [intros []|intros (i & l & j & H & _)]. destruct i; discriminate.
  - rewrite in_app_iff, IH. unfold line_keys. rewrite in_map_iff. split.
    + intros [(j & <- & Hj)|(i & l0 & j & Hn & Hj & ->)].
      * exists 0, l, j. cbn [nth_error N.of_nat col0 Nat.eqb]. rewrite N.add_0_r. auto.
      * exists (S i), l0, j. cbn [nth_error]. rewrite col0_S, ?col0_zero. repeat split; auto. f_equal. lia.
    + intros (i & l0 & j & Hn & Hj & ->). destruct i as [|i].
      * left. cbn in Hn. inversion Hn; subst l0. exists j. cbn [N.of_nat col0 Nat.eqb]. rewrite N.add_0_r. auto.
      * right. exists i, l0, j. cbn [nth_error] in Hn. rewrite col0_S, ?col0_zero. repeat split; auto. f_equal. lia.
Qed.

(* ================= SourceMap.Add ================= *)
Lemma sm_add_entries e tp m : entries e tp (sm_add e tp m).
Proof.
  destruct tp as [[ti tl] tc]. unfold entries, sm_add. cbn [fst snd].
  pose proof (add_lines_spec (elines e) true (e_fi e) (e_fl e) (e_fc e) ti tl tc m) as H. cbv zeta in H.
  destruct H as (H & _). exact H.
Qed.
Lemma sm_add_other_src e tp m k : ~ In k (src_keys e) -> sget k (fst (sm_add e tp m)) = sget k (fst m).
Proof.
  destruct tp as [[ti tl] tc]. intros Hk. unfold sm_add.
  pose proof (add_lines_spec (elines e) true (e_fi e) (e_fl e) (e_fc e) ti tl tc m) as H. cbv zeta in H.
  destruct H as (_ & H & _). apply H. intros i l j Hn Hj E. apply Hk. unfold src_keys. apply in_lines_keys. exists i, l, j. auto.
Qed.
Lemma sm_add_other_tgt e tp m k : ~ In k (tgt_keys e tp) -> sget k (snd (sm_add e tp m)) = sget k (snd m).
Proof.
  destruct tp as [[ti tl] tc]. intros Hk. unfold sm_add.
  pose proof (add_lines_spec (elines e) true (e_fi e) (e_fl e) (e_fc e) ti tl tc m) as H. cbv zeta in H.
  destruct H as (_ & _ & H). apply H. intros i l j Hn Hj E. apply Hk. unfold tgt_keys. cbn [fst snd]. apply in_lines_keys. exists i, l, j. auto.
Qed.
Lemma sm_add_preserves e tp m :
  (forall k, ~ In k (src_keys e) -> sget k (fst (sm_add e tp m)) = sget k (fst m)) /\
  (forall k, ~ In k (tgt_keys e tp) -> sget k (snd (sm_add e tp m)) = sget k (snd m)).
Proof. split; intros; [apply sm_add_other_src|apply sm_add_other_tgt]; assumption. Qed.

(* the entries of e are exactly at its keys *)
Lemma entries_keys e tp m : entries e tp m ->
  (forall k, In k (src_keys e) -> sget k (fst m) <> None) /\ (forall k, In k (tgt_keys e tp) -> sget k (snd m) <> None).
Proof.
  intros H. split; intros k Hk; apply in_lines_keys in Hk; destruct Hk as (i & l & j & Hn & Hj & ->);
    destruct (H i l j Hn Hj) as [A B]; congruence.
Qed.

(* ================= a sequence of Adds ================= *)
Lemma sm_fold_other : forall post m,
  (forall k, (forall e' tp', In (e', tp') post -> ~ In k (src_keys e')) -> sget k (fst (sm_fold post m)) = sget k (fst m)) /\
  (forall k, (forall e' tp', In (e', tp') post -> ~ In k (tgt_keys e' tp')) -> sget k (snd (sm_fold post m)) = sget k (snd m)).
Proof.
  induction post as [|[e' tp'] post IH]; intros m; cbn [sm_fold fold_left]; [split; reflexivity|].
  fold (sm_fold post (sm_add e' tp' m)). destruct (IH (sm_add e' tp' m)) as [A B]. split; intros k Hk.
  - rewrite A by (intros; apply (Hk e'0 tp'0); right; assumption). apply sm_add_other_src. apply (Hk e' tp'). left; reflexivity.
  - rewrite B by (intros; apply (Hk e'0 tp'0); right; assumption). apply sm_add_other_tgt. apply (Hk e' tp'). left; reflexivity.
Qed.

Lemma entries_survive e tp post m :
  entries e tp m ->
  (forall e' tp', In (e', tp') post -> disj (src_keys e) (src_keys e') /\ disj (tgt_keys e tp) (tgt_keys e' tp')) ->
  entries e tp (sm_fold post m).
Proof.
  intros He Hd i l j Hn Hj. destruct (He i l j Hn Hj) as [A B]. destruct (sm_fold_other post m) as [F G]. split.
  - rewrite F; [exact A|]. intros e' tp' Hin. apply (proj1 (Hd e' tp' Hin)). unfold src_keys. apply in_lines_keys. exists i, l, j. auto.
  - rewrite G; [exact B|]. intros e' tp' Hin. apply (proj2 (Hd e' tp' Hin)). unfold tgt_keys. apply in_lines_keys. exists i, l, j. auto.
Qed.

Lemma sm_fold_app a b m : sm_fold (a ++ b) m = sm_fold b (sm_fold a m).
Proof. unfold sm_fold. apply fold_left_app. Qed.

Lemma adds_disjoint pre e tp post :
  (forall e' tp', In (e', tp') post -> disj (src_keys e) (src_keys e') /\ disj (tgt_keys e tp) (tgt_keys e' tp')) ->
  entries e tp (sourcemap (pre ++ (e, tp) :: post)).
Proof.
  intros Hd. unfold sourcemap. change (entries e tp (sm_fold (pre ++ [(e, tp)] ++ post) ([], []))).
  rewrite !sm_fold_app. apply entries_survive; [|exact Hd]. cbn [sm_fold fold_left]. apply sm_add_entries.
Qed.

(* pairwise version: every Add of the list survives *)
Inductive pairwise_disj : list (expr * pos) -> Prop :=
| pd_nil : pairwise_disj []
| pd_cons e tp r : (forall e' tp', In (e', tp') r -> disj (src_keys e) (src_keys e') /\ disj (tgt_keys e tp) (tgt_keys e' tp')) ->
                   pairwise_disj r -> pairwise_disj ((e, tp) :: r).
Lemma pairwise_disj_app_r a b : pairwise_disj (a ++ b) -> pairwise_disj b.
Proof. induction a as [|[e tp] a IH]; cbn; [auto|]. intros H. inversion H; auto. Qed.
Lemma adds_pairwise_disjoint adds : pairwise_disj adds -> forall e tp, In (e, tp) adds -> entries e tp (sourcemap adds).
Proof.
  intros Hp e tp Hin. apply in_split in Hin. destruct Hin as (pre & post & ->).
  apply adds_disjoint. apply pairwise_disj_app_r in Hp. inversion Hp; assumption.
Qed.

(* ================= consecutive positions ================= *)
Lemma nth_skipn_add {A} (d : A) : forall k l j, nth (k + j) l d = nth j (skipn k l) d.
Proof. induction k; intros l j; [reflexivity|]. destruct l; [destruct j; reflexivity|]. cbn [plus nth skipn]. apply IHk. Qed.
(* the rune start after j is j + width of the lead byte at j *)
Lemma rune_starts_next : forall f l j, length l < f -> In j (rune_starts f l 0) -> j < length l ->
  In (j + lead_width (nth j l x00)) (rune_starts f l 0).
Proof.
  induction f as [|f IH]; intros l j Hf Hj Hl; [lia|].
  destruct l as [|b r]; [cbn in Hl; lia|]. cbn [rune_starts] in *.
  set (k := lead_width b) in *. pose proof (lead_width_pos b) as Kp. fold k in Kp.
  rewrite (rune_starts_shift f _ (0 + k)) in *. destruct Hj as [<-|Hj].
  - right. cbn [nth]. fold k. apply in_map_iff. exists 0. split; [lia|apply rune_starts_zero].
  - apply in_map_iff in Hj. destruct Hj as (j' & <- & Hj'). right. apply in_map_iff.
    assert (Hlen : length (skipn k (b :: r)) = length (b :: r) - k) by apply skipn_length.
    exists (j' + lead_width (nth j' (skipn k (b :: r)) x00)). split.
    + replace (0 + k + j') with (k + j') by lia. rewrite (nth_skipn_add x00 k (b :: r) j'). lia.
    + apply IH; [cbn [length] in *; lia|exact Hj'|cbn [length] in *; lia].
Qed.

Lemma consecutive e (tp : pos) m i l j :
  nth_error (elines e) i = Some l -> In j (rstarts l) -> j < length l ->
  let k := lead_width (nth j l x00) in
  let m' := sm_add e tp m in
  exists a b, In (j + k) (rstarts l) /\
    sget (e_fl e + N.of_nat i, col0 i (e_fc e) + N.of_nat j)%N (fst m') = Some a /\
    sget (e_fl e + N.of_nat i, col0 i (e_fc e) + N.of_nat j + N.of_nat k)%N (fst m') = Some b /\
    b = (fst (fst a) + N.of_nat k, snd (fst a), snd a + N.of_nat k)%N /\
    sget (snd (fst a), snd a) (snd m') = Some (e_fi e + N.of_nat (roff (elines e) i) + N.of_nat j, e_fl e + N.of_nat i, col0 i (e_fc e) + N.of_nat j)%N /\
    sget (snd (fst b), snd b) (snd m') = Some (e_fi e + N.of_nat (roff (elines e) i) + N.of_nat j + N.of_nat k, e_fl e + N.of_nat i, col0 i (e_fc e) + N.of_nat j + N.of_nat k)%N.
Proof.
  intros Hn Hj Hl. cbv zeta. set (k := lead_width (nth j l x00)).
  assert (Hj2 : In (j + k) (rstarts l)) by (apply rune_starts_next; [lia|exact Hj|exact Hl]).
  destruct (sm_add_entries e tp m i l j Hn Hj) as [A1 B1]. destruct (sm_add_entries e tp m i l (j + k) Hn Hj2) as [A2 B2].
  replace (N.of_nat (j + k)) with (N.of_nat j + N.of_nat k)%N in A2, B2 by lia. rewrite !N.add_assoc in A2, B2.
  eexists. eexists. split; [exact Hj2|]. split; [exact A1|]. split; [exact A2|]. cbn [fst snd].
  split; [reflexivity|]. split; [exact B1|exact B2].
Qed.

(* ================= decidable disjointness (for concrete instances) ================= *)
Definition disjb (a b : list key) : bool := forallb (fun k => negb (existsb (keq k) b)) a.
Lemma disjb_disj a b : disjb a b = true -> disj a b.
Proof.
  unfold disjb, disj. rewrite forallb_forall. intros H k Hk Hk'. specialize (H k Hk). apply negb_true_iff in H.
  assert (existsb (keq k) b = true) by (apply existsb_exists; exists k; split; [exact Hk'|apply keq_refl]). congruence.
Qed.
Fixpoint pairwise_disjb (l : list (expr * pos)) : bool :=
  match l with
  | [] => true
  | (e, tp) :: r => forallb (fun '(e', tp') => disjb (src_keys e) (src_keys e') && disjb (tgt_keys e tp) (tgt_keys e' tp')) r && pairwise_disjb r
  end.
Lemma pairwise_disjb_ok l : pairwise_disjb l = true -> pairwise_disj l.
Proof.
  induction l as [|[e tp] r IH]; intros H; [constructor|]. cbn [pairwise_disjb] in H. apply andb_true_iff in H. destruct H as [H1 H2].
  constructor; [|apply IH; exact H2]. intros e' tp' Hin. rewrite forallb_forall in H1. specialize (H1 _ Hin). cbn beta iota in H1.
  apply andb_true_iff in H1. destruct H1. split; apply disjb_disj; assumption.
Qed.
