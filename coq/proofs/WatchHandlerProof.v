(* C16 - proofs about the event handler's development-mode state (model/WatchHandler.v): the text file on disk is
   the text file of the latest generation after every event of a session, TextUpdated says exactly whether the file
   changed, templates do not disturb one another, a whole session is sound for the program compiled at the last
   recompile request, and hashing the literals without separators is not. *)
From Coq.Strings Require Import Byte String.
From Coq Require Import List Arith NArith Bool Lia.
Import ListNotations.
From V Require Import lib.Bytes model.Quote model.WatchMode model.WatchHandler proofs.QuoteProof proofs.WatchModeProof.
Open Scope N_scope.

Section HandlerState.
Variable H : Type.
Variable hash : bytes -> H.
Variable zero : H.
Variable heqb : H -> H -> bool.
Hypothesis heqb_spec : forall a b, heqb a b = true <-> a = b.
Variable S : Type.
Variable skel_eqb : S -> S -> bool.

Definition text_of (g : gen_output S) : bytes := text_file (g_literals g).

(* what is needed of the hash function: on the text files of THIS session it has no collision and is never the zero array
   (no injective function into 32 bytes exists; the harness checks this of sha256 on every session it runs) *)
Definition collision_free (ts : list bytes) : Prop :=
  (forall a b, In a ts -> In b ts -> hash a = hash b -> a = b) /\ (forall a, In a ts -> hash a <> zero).

(* the invariant: the hash the handler remembers is the hash of the file on disk, which is the text file of the
   generation it remembers *)
Definition current (ts : list bytes) (st : hfile H S) : Prop :=
  match h_prev st with
  | None => h_hash st = zero /\ h_disk st = None
  | Some g => In (text_of g) ts /\ h_hash st = hash (text_of g) /\ h_disk st = Some (text_of g)
  end.

Lemma heqb_refl a : heqb a a = true.
Proof. apply heqb_spec. reflexivity. Qed.
Lemma heqb_false a b : a <> b -> heqb a b = false.
Proof. intros N. destruct (heqb a b) eqn:E; [apply heqb_spec in E; contradiction|reflexivity]. Qed.

Lemma current_new ts : current ts (h_new H zero S).
Proof. cbn. split; reflexivity. Qed.

Lemma handle_step ts st g : collision_free ts -> current ts st -> In (text_of g) ts ->
  let r := handle H hash heqb S skel_eqb st g in
  current ts (fst r) /\ h_prev (fst r) = Some g /\ h_disk (fst r) = Some (text_of g) /\
  (r_text (snd r) = true <-> h_disk st <> Some (text_of g)) /\
  r_go (snd r) = match h_prev st with None => true | Some p => has_changed skel_eqb p g end.
Proof.
  intros [Inj Nz] Cur Hin. unfold handle, handle_by. cbn [fst snd r_text r_go h_prev h_disk h_hash].
  fold (text_of g). unfold current in *. cbn [h_prev h_disk h_hash].
  destruct (heqb (h_hash st) (hash (text_of g))) eqn:E; cbn [negb].
  - apply heqb_spec in E. destruct (h_prev st) as [p|].
    + destruct Cur as [Pin [Ph Pd]]. rewrite Ph in E. apply Inj in E; [|exact Pin|exact Hin].
      split; [rewrite <- E; repeat split; assumption|]. split; [reflexivity|]. split; [rewrite <- E; exact Pd|].
      split; [|reflexivity]. split; [discriminate|]. intros N. exfalso. apply N. rewrite <- E. exact Pd.
    + destruct Cur as [Ph Pd]. exfalso. apply (Nz _ Hin). congruence.
  - split; [repeat split; assumption|]. split; [reflexivity|]. split; [reflexivity|]. split; [|reflexivity].
    split; [|intros _; reflexivity]. intros _ D.
    destruct (h_prev st) as [p|].
    + destruct Cur as [Pin [Ph Pd]]. rewrite Pd in D. injection D as D. rewrite Ph, D, heqb_refl in E. discriminate.
    + destruct Cur as [_ Pd]. rewrite Pd in D. discriminate.
Qed.

Lemma run1_app hashed gs1 : forall gs2 st,
  run1_by H hash heqb S skel_eqb hashed st (gs1 ++ gs2) =
  let '(st1, r1) := run1_by H hash heqb S skel_eqb hashed st gs1 in
  let '(st2, r2) := run1_by H hash heqb S skel_eqb hashed st1 gs2 in (st2, r1 ++ r2).
Proof.
  induction gs1 as [|g gs1 IH]; intros gs2 st.
  - cbn [app run1_by]. destruct (run1_by H hash heqb S skel_eqb hashed st gs2). reflexivity.
  - cbn [app run1_by]. destruct (handle_by H hash heqb S skel_eqb hashed st g) as [st1 a]. rewrite IH.
    destruct (run1_by H hash heqb S skel_eqb hashed st1 gs1) as [st2 r1].
    destruct (run1_by H hash heqb S skel_eqb hashed st2 gs2) as [st3 r2]. reflexivity.
Qed.

Lemma run1_length hashed gs : forall st, length (snd (run1_by H hash heqb S skel_eqb hashed st gs)) = length gs.
Proof.
  induction gs as [|g gs IH]; intros st; [reflexivity|]. cbn [run1_by].
  destruct (handle_by H hash heqb S skel_eqb hashed st g) as [st1 a]. specialize (IH st1).
  destruct (run1_by H hash heqb S skel_eqb hashed st1 gs) as [st2 rs]. cbn [snd length] in *. rewrite IH. reflexivity.
Qed.

(* the generation the handler remembers is the last one, whatever is hashed *)
Lemma run1_prev hashed gs : forall st d, gs <> [] ->
  h_prev (fst (run1_by H hash heqb S skel_eqb hashed st gs)) = Some (last gs d).
Proof.
  induction gs as [|g gs IH]; intros st d Hne; [congruence|]. cbn [run1_by].
  destruct (handle_by H hash heqb S skel_eqb hashed st g) as [st1 a] eqn:E1.
  destruct gs as [|g2 gs'].
  - cbn [run1_by fst last]. unfold handle_by in E1. injection E1 as E1 _. subst st1. reflexivity.
  - specialize (IH st1 d ltac:(discriminate)).
    destruct (run1_by H hash heqb S skel_eqb hashed st1 (g2 :: gs')) as [st2 rs]. cbn [fst] in *. exact IH.
Qed.

Lemma run1_current ts gs : forall st, collision_free ts -> current ts st -> (forall g, In g gs -> In (text_of g) ts) ->
  current ts (fst (run1 H hash heqb S skel_eqb st gs)).
Proof.
  induction gs as [|g gs IH]; intros st CF Cur Hin; [exact Cur|].
  unfold run1. cbn [run1_by]. fold (handle H hash heqb S skel_eqb st g).
  destruct (handle_step ts st g CF Cur (Hin g (or_introl eq_refl))) as [C1 _].
  destruct (handle H hash heqb S skel_eqb st g) as [st1 a]. cbn [fst] in C1.
  specialize (IH st1 CF C1 (fun g' Hg => Hin g' (or_intror Hg))). unfold run1 in IH.
  destruct (run1_by H hash heqb S skel_eqb text_file st1 gs) as [st2 rs]. exact IH.
Qed.

(* AFTER EVERY SESSION the text file on disk is the text file of the latest generation, and the handler remembers
   that generation and the hash of that file *)
Theorem handler_disk_current gs d : gs <> [] -> collision_free (map text_of gs) ->
  let st := fst (run1 H hash heqb S skel_eqb (h_new H zero S) gs) in
  h_prev st = Some (last gs d) /\ h_disk st = Some (text_of (last gs d)) /\ h_hash st = hash (text_of (last gs d)).
Proof.
  intros Hne CF st.
  assert (P : h_prev st = Some (last gs d)) by (apply run1_prev; exact Hne).
  assert (C : current (map text_of gs) st).
  { apply run1_current; [exact CF|apply current_new|]. intros g Hg. apply in_map. exact Hg. }
  unfold current in C. rewrite P in C. destruct C as [_ [Ch Cd]]. repeat split; assumption.
Qed.

(* TextUpdated is true for the first generation, and afterwards exactly when the text file differs from the one
   written for the generation before: a file that has to change is never left as it was *)
Theorem text_updated_iff pre g d a0 : collision_free (map text_of (pre ++ [g])) ->
  r_text (last (snd (run1 H hash heqb S skel_eqb (h_new H zero S) (pre ++ [g]))) a0) = true <->
  (pre = [] \/ text_of (last pre d) <> text_of g).
Proof.
  intros CF. unfold run1. rewrite run1_app.
  destruct (run1_by H hash heqb S skel_eqb text_file (h_new H zero S) pre) as [st1 r1] eqn:E1.
  assert (C1 : current (map text_of (pre ++ [g])) st1).
  { replace st1 with (fst (run1 H hash heqb S skel_eqb (h_new H zero S) pre)) by (unfold run1; rewrite E1; reflexivity).
    apply run1_current; [exact CF|apply current_new|]. intros g' Hg. apply in_map. apply in_or_app. left. exact Hg. }
  assert (Gin : In (text_of g) (map text_of (pre ++ [g]))) by (apply in_map; apply in_or_app; right; left; reflexivity).
  destruct (handle_step _ st1 g CF C1 Gin) as [_ [_ [_ [T _]]]].
  cbn [run1_by]. fold (handle H hash heqb S skel_eqb st1 g).
  destruct (handle H hash heqb S skel_eqb st1 g) as [st2 a]. cbn [snd] in T |- *.
  replace (last (r1 ++ [a]) a0) with a by (symmetry; apply last_last). rewrite T.
  destruct pre as [|p pre'].
  - cbn [run1_by] in E1. injection E1 as E1 _. subst st1. cbn. split; [intros _; left; reflexivity|intros _; discriminate].
  - assert (P : h_prev st1 = Some (last (p :: pre') d)).
    { replace st1 with (fst (run1_by H hash heqb S skel_eqb text_file (h_new H zero S) (p :: pre'))) by (rewrite E1; reflexivity).
      apply run1_prev. discriminate. }
    unfold current in C1. rewrite P in C1. destruct C1 as [_ [_ Cd]]. rewrite Cd. split.
    + intros N. right. intros E. apply N. rewrite E. reflexivity.
    + intros [N|N]; [discriminate|]. intros E. injection E as E. contradiction.
Qed.

(* ---------- several templates through one handler ---------- *)
Variable K : Type.
Variable keqb : K -> K -> bool.
Hypothesis keqb_spec : forall a b, keqb a b = true <-> a = b.

Lemma keqb_refl k : keqb k k = true.
Proof. apply keqb_spec. reflexivity. Qed.

(* under every interleaving of the events of different templates, what the handler holds for template k, the file on
   disk for k and the answers given to k's events are those of k's own events alone *)
Theorem run_frame evs : forall (m : hmap H S K) k,
  fst (run H hash heqb S skel_eqb K keqb m evs) k = fst (run1 H hash heqb S skel_eqb (m k) (events_of S K keqb k evs)) /\
  answers_of S K keqb k evs (snd (run H hash heqb S skel_eqb K keqb m evs)) = snd (run1 H hash heqb S skel_eqb (m k) (events_of S K keqb k evs)).
Proof.
  induction evs as [|ev evs IH]; intros m k; [split; reflexivity|].
  cbn [run events_of]. unfold handle_event.
  destruct (handle H hash heqb S skel_eqb (m (fst ev)) (snd ev)) as [st a] eqn:E.
  specialize (IH (h_set H S K keqb m (fst ev) st) k).
  destruct (run H hash heqb S skel_eqb K keqb (h_set H S K keqb m (fst ev) st) evs) as [m2 rs].
  cbn [fst snd answers_of] in *.
  destruct (keqb (fst ev) k) eqn:Ek.
  - apply keqb_spec in Ek. subst k. unfold h_set in IH. rewrite keqb_refl in IH.
    unfold run1 in *. cbn [run1_by]. fold (handle H hash heqb S skel_eqb (m (fst ev)) (snd ev)). rewrite E.
    destruct (run1_by H hash heqb S skel_eqb text_file st (events_of S K keqb (fst ev) evs)) as [st2 rs2].
    cbn [fst snd] in *. destruct IH as [I1 I2]. split; [exact I1|rewrite I2; reflexivity].
  - unfold h_set in IH. rewrite Ek in IH. exact IH.
Qed.
End HandlerState.

(* ---------- a whole session on a compiled template ---------- *)
Definition gen_outs (l : list (gen_opts * list uop)) : list (gen_output (list uop)) := map (fun p => gen_out (fst p) (snd p)) l.

Lemma last_map {A B : Type} (f : A -> B) l : forall d, last (map f l) (f d) = f (last l d).
Proof. induction l as [|a l IH]; intros d; [reflexivity|]. destruct l as [|b l']; [reflexivity|]. apply (IH d). Qed.

Lemma last_cons_dflt {A : Type} (rest : list A) : forall x d, last (x :: rest) d = last rest x.
Proof.
  induction rest as [|y rest IH]; intros x d; [reflexivity|].
  change (last (x :: y :: rest) d) with (last (y :: rest) d). rewrite (IH y d), (IH y x). reflexivity.
Qed.

Lemma last_app_cons {A : Type} (pre : list A) x rest d : last (pre ++ x :: rest) d = last rest x.
Proof.
  induction pre as [|p pre IH]; [apply last_cons_dflt|].
  change ((p :: pre) ++ x :: rest) with (p :: (pre ++ x :: rest)).
  rewrite last_cons_dflt. rewrite <- IH. destruct (pre ++ x :: rest) eqn:E; [destruct pre; discriminate|].
  rewrite (last_cons_dflt l a p), (last_cons_dflt l a d). reflexivity.
Qed.

Section Session.
Variable H : Type.
Variable hash : bytes -> H.
Variable zero : H.
Variable heqb : H -> H -> bool.
Hypothesis heqb_spec : forall a b, heqb a b = true <-> a = b.
Variable St : Type.
Variable sem : sink -> bytes -> bytes.
Variable ev_str : St -> bytes -> bytes.
Variable ev_bool : St -> bytes -> bool.
Variable code : bytes -> nat -> St -> option (St * bytes * nat).

(* the answers to the events that follow a generation (o, u) all say "no recompilation" exactly when the edits form a
   text-only chain from (o, u): the handler compares every generation with the one before *)
Lemma run1_chain hashed rest : forall o u (st : hfile H (list uop)), h_prev st = Some (gen_out o u) ->
  forallb (fun a => negb (r_go a)) (snd (run1_by H hash heqb (list uop) skel_eqb hashed st (gen_outs rest))) = text_only_chain o u rest.
Proof.
  induction rest as [|[o1 u1] rest IH]; intros o u st P; [reflexivity|].
  cbn [gen_outs map run1_by fst snd text_only_chain]. unfold handle_by at 1. rewrite P.
  match goal with |- context [run1_by _ _ _ _ _ _ ?st1 _] => specialize (IH o1 u1 st1 eq_refl) end.
  unfold gen_outs in IH.
  match goal with |- context [run1_by ?a ?b ?c ?d ?e ?f ?st1 ?l] => destruct (run1_by a b c d e f st1 l) as [st2 rs] end.
  cbn [snd forallb r_go] in *. rewrite IH. reflexivity.
Qed.

(* SESSION SOUNDNESS.  Any sequence of generations of one template through the handler, starting from a fresh
   handler: pre, then (o, u), then rest.  If every answer after the one for (o, u) says "no recompilation" - so the
   program the developer is running was compiled from u, at the handler's last recompile request or earlier - then
   the text file ON DISK at the end of the session makes that program render, from every position, in every state,
   with every fuel, what a fresh build of the last version renders. *)
Theorem session_sound pre o u rest :
  let gs := gen_outs (pre ++ (o, u) :: rest) in
  let r := run1 H hash heqb (list uop) skel_eqb (h_new H zero (list uop)) gs in
  collision_free H hash zero (map (text_of (list uop)) gs) ->
  forallb (fun a => negb (r_go a)) (skipn (Datatypes.S (length pre)) (snd r)) = true ->
  lits_ok (snd (last rest (o, u))) = true ->
  exists file, h_disk (fst r) = Some file /\
    forall fuel pc s,
    exec St sem ev_str ev_bool code (lk_dev file) fuel (compile u) pc s =
    exec St sem ev_str ev_bool code lk_normal fuel (compile (snd (last rest (o, u)))) pc s.
Proof.
  intros gs r CF Go Ok.
  assert (Hne : gs <> []) by (unfold gs, gen_outs; destruct pre; discriminate).
  destruct (handler_disk_current H hash zero heqb heqb_spec (list uop) skel_eqb gs (gen_out o u) Hne CF) as [_ [D _]].
  fold r in D. exists (text_of (list uop) (last gs (gen_out o u))). split; [exact D|].
  assert (L : last gs (gen_out o u) = gen_out (fst (last rest (o, u))) (snd (last rest (o, u)))).
  { unfold gs, gen_outs. rewrite (last_map (fun p => gen_out (fst p) (snd p)) _ (o, u)). rewrite last_app_cons. reflexivity. }
  rewrite L. unfold text_of. cbn [gen_out g_literals].
  apply text_only_chain_sound; [|exact Ok].
  (* the answers after (o, u) are the chain *)
  assert (Split : gs = gen_outs (pre ++ [(o, u)]) ++ gen_outs rest).
  { unfold gs, gen_outs. rewrite <- map_app, <- app_assoc. reflexivity. }
  unfold r, run1 in Go. rewrite Split, run1_app in Go.
  destruct (run1_by H hash heqb (list uop) skel_eqb text_file (h_new H zero (list uop)) (gen_outs (pre ++ [(o, u)]))) as [st1 r1] eqn:E1.
  assert (P : h_prev st1 = Some (gen_out o u)).
  { replace st1 with (fst (run1_by H hash heqb (list uop) skel_eqb text_file (h_new H zero (list uop)) (gen_outs (pre ++ [(o, u)])))) by (rewrite E1; reflexivity).
    rewrite (run1_prev H hash heqb (list uop) skel_eqb text_file _ _ (gen_out o u)) by (unfold gen_outs; destruct pre; discriminate).
    unfold gen_outs. rewrite (last_map (fun p => gen_out (fst p) (snd p)) _ (o, u)). rewrite last_last. reflexivity. }
  assert (Len : length r1 = Datatypes.S (length pre)).
  { replace r1 with (snd (run1_by H hash heqb (list uop) skel_eqb text_file (h_new H zero (list uop)) (gen_outs (pre ++ [(o, u)])))) by (rewrite E1; reflexivity).
    rewrite run1_length. unfold gen_outs. rewrite map_length, app_length. cbn [length]. lia. }
  pose proof (run1_chain text_file rest o u st1 P) as Ch.
  destruct (run1_by H hash heqb (list uop) skel_eqb text_file st1 (gen_outs rest)) as [st2 r2]. cbn [snd] in *.
  rewrite <- Len in Go. rewrite skipn_app, skipn_all, Nat.sub_diag in Go. cbn [skipn app] in Go.
  rewrite <- Ch. exact Go.
Qed.
End Session.

(* ---------- REGRESSION: hashing the literals one after another, without a separator ----------
   The file is still strings.Join(Literals, LF) when it is written, but the hash that guards the write is taken of
   the concatenation.  Moving an expression through static text - <p l { s } q>  ->  <p { s } l q> - keeps the
   concatenation, the number of literals, the expressions and the skeleton: no recompilation is asked for, the file
   is NOT rewritten, and the running program shows the previous version.  For every hash function that is never
   zero, every writer semantics under which some value is written non-empty, every meaning of other statements. *)
Section Unseparated.
Variable H : Type.
Variable hash : bytes -> H.
Variable zero : H.
Variable heqb : H -> H -> bool.
Hypothesis heqb_spec : forall a b, heqb a b = true <-> a = b.
Variable St : Type.
Variable sem : sink -> bytes -> bytes.
Variable ev_bool : St -> bytes -> bool.
Variable code : bytes -> nat -> St -> option (St * bytes * nat).

Definition wm  (l : byte) : list uop := [ULit [x70; l]; UExpr SText (bs "s"); ULit [x71]].
Definition wm' (l : byte) : list uop := [ULit [x70]; UExpr SText (bs "s"); ULit [l; x71]].

Definition stale (x : bytes) (s : St) (l : byte) : Prop :=
  let r := run1_by H hash heqb (list uop) skel_eqb (@concat byte) (h_new H zero (list uop)) [gen_out o0 (wm l); gen_out o0 (wm' l)] in
  map r_go (snd r) = [true; false] /\ map r_text (snd r) = [true; false] /\ lits_ok (wm' l) = true /\
  h_disk (fst r) = Some (text_file (lits (wm l))) /\ text_file (lits (wm l)) <> text_file (lits (wm' l)) /\
  exec St sem (fun _ _ => x) ev_bool code (lk_dev (text_file (lits (wm l)))) 8 (compile (wm l)) 0 s <>
  exec St sem (fun _ _ => x) ev_bool code lk_normal 8 (compile (wm' l)) 0 s.

Theorem unseparated_hash_refuted : (forall t, hash t <> zero) ->
  forall (x : bytes) (c0 : byte) (rest : bytes) (s : St), sem SText x = c0 :: rest -> exists l : byte, stale x s l.
Proof.
  intros Nz x c0 rest s HS.
  assert (G : forall l : byte, l <> c0 ->
              unquote [x70; l] = Some [x70; l] -> unquote [l; x71] = Some [l; x71] -> no_lf [x70; l] = true -> no_lf [l; x71] = true ->
              has_changed skel_eqb (gen_out o0 (wm l)) (gen_out o0 (wm' l)) = false -> stale x s l).
  { intros l Hl U1 U2 N1 N2 HC. unfold stale.
    cbn [run1_by]. unfold handle_by. cbn [h_new h_hash h_prev h_disk gen_out g_literals lits wm wm' concat app fst snd map r_go r_text].
    rewrite (heqb_false H heqb heqb_spec zero (hash [x70; l; x71])) by (intros E; apply (Nz [x70; l; x71]); congruence).
    cbn [negb]. rewrite (heqb_refl H heqb heqb_spec). cbn [negb].
    change (gen_out o0 [ULit [x70; l]; UExpr SText (bs "s"); ULit [x71]]) with (gen_out o0 (wm l)).
    change (gen_out o0 [ULit [x70]; UExpr SText (bs "s"); ULit [l; x71]]) with (gen_out o0 (wm' l)).
    rewrite HC.
    split; [reflexivity|]. split; [reflexivity|].
    split; [unfold lits_ok; cbn [lits wm' forallb]; rewrite N2; reflexivity|].
    split; [reflexivity|].
    split; [cbn; intros E; injection E as E; destruct l; discriminate|].
    unfold wm, wm', compile. cbn [compile_from exec nth_error lits]. unfold lk_dev, lk_normal, normal_write.
    rewrite (dev_write_join [[x70; l]; [x71]] 0); [|cbn [forallb]; rewrite N1; reflexivity|cbn; lia].
    rewrite (dev_write_join [[x70; l]; [x71]] 1); [|cbn [forallb]; rewrite N1; reflexivity|cbn; lia].
    cbn [nth]. rewrite U1, U2. replace (unquote [x71]) with (Some [x71]) by (vm_compute; reflexivity).
    replace (unquote [x70]) with (Some [x70]) by (vm_compute; reflexivity). rewrite HS.
    cbn [option_map app]. intros E. injection E as E. congruence. }
  destruct (Byte.eqb c0 x61) eqn:E.
  - apply byte_eqb_eq in E. subst. exists x62. apply G; try (vm_compute; reflexivity). discriminate.
  - apply byte_eqb_neq in E. exists x61. apply G; try (vm_compute; reflexivity). congruence.
Qed.
End Unseparated.

(* ---------- the instance the extracted model runs: the hash of a text is the text itself ---------- *)
Lemma oeqb_spec a b : oeqb a b = true <-> a = b.
Proof.
  destruct a as [x|], b as [y|]; cbn [oeqb]; try (split; [discriminate|congruence]); [|split; reflexivity].
  rewrite bytes_eqb_eq. split; congruence.
Qed.
Lemma id_hash_collision_free ts : collision_free (option bytes) id_hash None ts.
Proof. split; [intros a b _ _ E; injection E as E; exact E|intros a _; discriminate]. Qed.
