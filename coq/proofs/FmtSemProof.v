(* Proofs for C08 over the formatter model: a format/parse round trip changes layout only (erase_layout), and the
   generator's space decisions are preserved when there is no tight block follower. *)
From Coq.Strings Require Import Byte String.
From Coq Require Import List Arith NArith Bool Lia.
Import ListNotations.
From V Require Import lib.Bytes lib.Sexp model.Fmt model.FmtReasons spec.FmtSpec proofs.FmtProof.
Local Open Scope nat_scope.

Lemma erase_node_eq n : erase_node n =
  match n with
  | NText v _ => NText v SpNone
  | NStr v _ => NStr v SpNone
  | NGoCode src _ _ => NGoCode src false SpNone
  | NElem name attrs _ ch _ _ => NElem name attrs false (elist erase_node ch) false SpNone
  | NCall src ref ch => NCall src ref (elist erase_node ch)
  | NIf v th elifs el' => NIf v (elist erase_node th) (ecases erase_node elifs) (elist erase_node el')
  | NSwitch v cases => NSwitch v (ecases erase_node cases)
  | NFor v b => NFor v (elist erase_node b)
  | _ => n
  end.
Proof. destruct n; reflexivity. Qed.
Lemma erase_set_trailing n t : erase_node (set_trailing n t) = erase_node n.
Proof. destruct n; reflexivity. Qed.

Section EStep.
Variable R : nat -> node -> node.
Hypothesis HR : forall lvl n, erase_node (R lvl n) = erase_node n.
Hypothesis HW : forall lvl n, is_ws (R lvl n) = is_ws n.
Lemma elist_rnodes : forall l start lvl indent, elist erase_node (rnodes R start lvl indent l) = elist erase_node l.
Proof.
  induction l as [|c r IH]; intros; [reflexivity|]. rewrite rnodes_cons. cbn [elist].
  destruct (is_ws c) eqn:E; [apply IH|]. cbn [elist]. rewrite is_ws_set_trailing, HW, E, erase_set_trailing, HR, IH. reflexivity.
Qed.
Lemma elist_keep_block : forall l start lvl indent, elist erase_node (keep_block l (rnodes R start lvl indent l)) = elist erase_node l.
Proof.
  intros. unfold keep_block. destruct (rnodes R start lvl indent l) eqn:E.
  - rewrite <- (elist_rnodes l start lvl indent), E. destruct l; reflexivity.
  - rewrite <- E. apply elist_rnodes.
Qed.
Lemma ecases_rnodes : forall cs start, ecases erase_node (map (fun '(cv, cb) => (cv, rnodes R start start true cb)) cs) = ecases erase_node cs.
Proof. induction cs as [|[cv cb] cs IH]; intros; [reflexivity|]. cbn [map ecases]. rewrite elist_rnodes, IH. reflexivity. Qed.
End EStep.

Lemma erase_reparse_node : forall f lvl n, erase_node (reparse_node f lvl n) = erase_node n.
Proof.
  induction f; [reflexivity|]. intros lvl n. rewrite reparse_node_S. cbv zeta.
  pose proof (fun lvl n => is_ws_reparse f lvl n) as HW.
  destruct n; try reflexivity; rewrite !erase_node_eq.
  - (* NElem *) f_equal. destruct (existsb _ children) eqn:Hc.
    + destruct ichildren; apply elist_rnodes; assumption.
    + clear -Hc. induction children as [|c r IH]; [reflexivity|]. cbn in Hc. cbn [elist]. destruct (is_ws c); [auto|discriminate].
  - f_equal. apply elist_keep_block; assumption.
  - f_equal; [apply elist_rnodes|apply ecases_rnodes|apply elist_keep_block]; assumption.
  - f_equal. apply ecases_rnodes; assumption.
  - f_equal. apply elist_rnodes; assumption.
Qed.

Theorem reparse_only_changes_layout : forall f, erase_layout (reparse f) = erase_layout f.
Proof.
  intros f. unfold erase_layout. cbn [reparse f_header f_pkg f_nodes]. f_equal. rewrite map_map. apply map_ext.
  intros [| | |]; try reflexivity. cbn [reparse_fnode erase_fnode]. f_equal. rewrite reparse_top_eq.
  apply elist_rnodes; intros; [apply erase_reparse_node|apply is_ws_reparse].
Qed.

Lemma gs_node_eq n nxi : gs_node n nxi =
  match n with
  | NElem _ _ _ ch _ _ => gs_list gs_node ch false
  | NCall _ _ ch => gs_list gs_node ch false
  | NIf _ th elifs el => gs_list gs_node th nxi ++ gs_cases gs_node elifs nxi ++ gs_list gs_node el nxi
  | NSwitch _ cs => gs_cases gs_node cs nxi
  | NFor _ b => gs_list gs_node b nxi
  | _ => []
  end.
Proof. destruct n; reflexivity. Qed.

Lemma ok_node_eq n nxi : ok_node n nxi =
  match n with
  | NElem _ _ _ ch ic _ => ok_list ok_node ic ch false
  | NCall _ _ ch => ok_list ok_node true ch false
  | NIf _ th elifs el => ok_list ok_node true th nxi && ok_cases ok_node elifs nxi && ok_list ok_node true el nxi
  | NSwitch _ cs => ok_cases ok_node cs nxi
  | NFor _ b => ok_list ok_node true b nxi
  | _ => true
  end.
Proof. destruct n; reflexivity. Qed.

Lemma g_inl_set_trailing n t : g_inl (set_trailing n t) = g_inl n. Proof. destruct n; reflexivity. Qed.
Lemma g_inl_reparse f l n : g_inl (reparse_node f l n) = g_inl n. Proof. destruct f; [reflexivity|]. destruct n; reflexivity. Qed.
Lemma g_trail_set_trailing n t : g_trail (set_trailing n t) = match g_trail n with Some _ => Some t | None => None end.
Proof. destruct n; reflexivity. Qed.
Lemma g_trail_reparse f l n : g_trail (reparse_node f l n) = g_trail n. Proof. destruct f; [reflexivity|]. destruct n; reflexivity. Qed.
Lemma g_trail_trail_of n t : g_trail n = Some t -> trail_of n = Some t. Proof. destruct n; try discriminate; auto. Qed.
Lemma gs_set_trailing n t nxi : gs_node (set_trailing n t) nxi = gs_node n nxi. Proof. destruct n; reflexivity. Qed.

Lemma next_inl_rnodes f : forall r start lvl indent nxi, next_inl (rnodes (reparse_node f) start lvl indent r) nxi = next_inl r nxi.
Proof.
  induction r as [|x r IH]; intros; [reflexivity|]. rewrite rnodes_cons. cbn [next_inl]. destruct (is_ws x) eqn:E; [apply IH|].
  cbn [next_inl]. rewrite is_ws_set_trailing, is_ws_reparse, E, g_inl_set_trailing, g_inl_reparse. reflexivity.
Qed.

Lemma g_space_stable f lvl indent c r nx :
  tight indent c r nx = false ->
  g_space (set_trailing (reparse_node f lvl c) (eff_trail indent c r)) nx = g_space c nx.
Proof.
  unfold tight, g_space, eff_trail. rewrite g_trail_set_trailing, g_trail_reparse, g_inl_set_trailing, g_inl_reparse.
  destruct (g_trail c) as [t|] eqn:E; [|reflexivity]. rewrite (g_trail_trail_of _ _ E).
  destruct (indent && _); [|reflexivity]. cbn [andb]. destruct t; try reflexivity.
  destruct (g_inl c), nx; try reflexivity. discriminate.
Qed.

Section GStep.
Variable f : nat.
Hypothesis IH : forall n lvl nxi, ok_node n nxi = true -> gs_node (reparse_node f lvl n) nxi = gs_node n nxi.
Lemma gs_rnodes : forall l start lvl indent nxi, ok_list ok_node indent l nxi = true ->
  gs_list gs_node (rnodes (reparse_node f) start lvl indent l) nxi = gs_list gs_node l nxi.
Proof.
  induction l as [|c r IHl]; intros start lvl indent nxi H; [reflexivity|].
  rewrite rnodes_cons. cbn [gs_list ok_list] in *. destruct (is_ws c) eqn:E; [apply IHl; exact H|].
  apply andb_true_iff in H. destruct H as [H H3]. apply andb_true_iff in H. destruct H as [H1 H2]. apply negb_true_iff in H1.
  cbn [gs_list]. rewrite is_ws_set_trailing, is_ws_reparse, E, next_inl_rnodes.
  rewrite (g_space_stable _ _ _ _ _ _ H1), gs_set_trailing, (IH _ _ _ H2), (IHl _ _ _ _ H3). reflexivity.
Qed.
Lemma gs_allws R : forall l start lvl indent nxi, rnodes R start lvl indent l = [] -> gs_list gs_node l nxi = [].
Proof. induction l as [|c r IHl]; intros; [reflexivity|]. rewrite rnodes_cons in H. cbn [gs_list]. destruct (is_ws c); [eauto|discriminate]. Qed.
Lemma gs_keep_block : forall l start lvl nxi, ok_list ok_node true l nxi = true ->
  gs_list gs_node (keep_block l (rnodes (reparse_node f) start lvl true l)) nxi = gs_list gs_node l nxi.
Proof.
  intros. unfold keep_block. destruct (rnodes (reparse_node f) start lvl true l) eqn:E.
  - rewrite (gs_allws _ _ _ _ _ _ E). destruct l; reflexivity.
  - rewrite <- E. apply gs_rnodes. exact H.
Qed.
Lemma gs_cases_rnodes : forall cs start nxi, ok_cases ok_node cs nxi = true ->
  gs_cases gs_node (map (fun '(cv, cb) => (cv, rnodes (reparse_node f) start start true cb)) cs) nxi = gs_cases gs_node cs nxi.
Proof.
  induction cs as [|[cv cb] cs IHc]; intros start nxi H; [reflexivity|]. cbn [map gs_cases ok_cases] in *.
  apply andb_true_iff in H. destruct H as [H1 H2]. rewrite gs_rnodes by exact H1. rewrite IHc by exact H2. reflexivity.
Qed.
Lemma gstep : forall n lvl nxi, ok_node n nxi = true -> gs_node (reparse_node (S f) lvl n) nxi = gs_node n nxi.
Proof.
  intros n lvl nxi H. rewrite reparse_node_S. cbv zeta. rewrite ok_node_eq in H.
  destruct n; try reflexivity; rewrite !gs_node_eq.
  - destruct (existsb (fun c => negb (is_ws c)) children) eqn:Hc.
    + destruct ichildren; apply gs_rnodes; exact H.
    + clear -Hc. induction children as [|c r IHc]; [reflexivity|]. cbn in Hc. cbn [gs_list]. destruct (is_ws c); [auto|discriminate].
  - apply gs_keep_block. exact H.
  - apply andb_true_iff in H. destruct H as [H H3]. apply andb_true_iff in H. destruct H as [H1 H2].
    rewrite gs_rnodes, gs_cases_rnodes, gs_keep_block by assumption. reflexivity.
  - apply gs_cases_rnodes. exact H.
  - apply gs_rnodes. exact H.
Qed.
End GStep.

Lemma gs_reparse_node : forall f n lvl nxi, ok_node n nxi = true -> gs_node (reparse_node f lvl n) nxi = gs_node n nxi.
Proof. induction f; [reflexivity|]. apply gstep. exact IHf. Qed.

Theorem space_rule_partial : forall f, trailing_semantics_preserved f = true -> gen_spaces (reparse f) = gen_spaces f.
Proof.
  intros f H. unfold gen_spaces, trailing_semantics_preserved in *. cbn [reparse f_nodes]. rewrite forallb_forall in H.
  induction (f_nodes f) as [|n r IHr]; [reflexivity|]. cbn [map flat_map]. rewrite IHr by (intros; apply H; right; assumption).
  f_equal. specialize (H n (or_introl eq_refl)). destruct n; try reflexivity. cbn [reparse_fnode]. rewrite reparse_top_eq.
  apply (gs_rnodes 200 (gs_reparse_node 200)). exact H.
Qed.

(* ---------- the guard is exact: every tight block follower adds a space ---------- *)
Fixpoint cnt (l : list bool) : nat := match l with [] => 0 | b :: r => (if b then 1 else 0) + cnt r end.
Lemma cnt_app a b : cnt (a ++ b) = cnt a + cnt b.
Proof. induction a; [reflexivity|]. cbn [app cnt]. rewrite IHa. lia. Qed.

Lemma g_space_new f lvl indent c r nx :
  g_space (set_trailing (reparse_node f lvl c) (eff_trail indent c r)) nx = g_space c nx || tight indent c r nx.
Proof.
  unfold tight, g_space, eff_trail. rewrite g_trail_set_trailing, g_trail_reparse, g_inl_set_trailing, g_inl_reparse.
  destruct (g_trail c) as [t|] eqn:E; [|rewrite !andb_false_r; reflexivity]. rewrite (g_trail_trail_of _ _ E).
  destruct (indent && _); cbn [andb]; destruct t; destruct (g_inl c), nx; reflexivity.
Qed.

Section CStep.
Variable f : nat.
Hypothesis IH : forall n lvl nxi, cnt (gs_node n nxi) <= cnt (gs_node (reparse_node f lvl n) nxi) /\
  (ndepth n <= f -> ok_node n nxi = false -> cnt (gs_node n nxi) < cnt (gs_node (reparse_node f lvl n) nxi)).
Lemma cnt_rnodes : forall l start lvl indent nxi,
  cnt (gs_list gs_node l nxi) <= cnt (gs_list gs_node (rnodes (reparse_node f) start lvl indent l) nxi) /\
  (dlist l <= f -> ok_list ok_node indent l nxi = false -> cnt (gs_list gs_node l nxi) < cnt (gs_list gs_node (rnodes (reparse_node f) start lvl indent l) nxi)).
Proof.
  induction l as [|c r IHl]; intros start lvl indent nxi; [split; [cbn; lia|cbn; intros; discriminate]|].
  rewrite rnodes_cons. cbn [gs_list ok_list dlist]. destruct (is_ws c) eqn:E.
  - destruct (IHl start lvl indent nxi) as [A B]. split; [exact A|]. intros Hd Ho. apply B; [lia|exact Ho].
  - cbn [gs_list]. rewrite is_ws_set_trailing, is_ws_reparse, E, next_inl_rnodes, g_space_new, gs_set_trailing.
    cbn [cnt]. rewrite !cnt_app.
    destruct (IHl start (next_lvl start (eff_trail indent c r)) indent nxi) as [A B].
    destruct (IH c lvl (next_inl r nxi)) as [C D].
    set (b := next_inl r nxi) in *.
    assert (T : tight indent c r b = true -> g_space c b = false).
    { unfold tight, g_space. destruct (g_trail c) as [[| |]|]; rewrite ?andb_false_r; try discriminate; reflexivity. }
    split.
    + destruct (g_space c b); cbn [orb]; [lia|]. destruct (tight indent c r b); lia.
    + intros Hd Ho. destruct (tight indent c r b) eqn:Ht.
      * rewrite (T eq_refl). cbn [orb]. lia.
      * cbn [negb andb] in Ho. rewrite orb_false_r. destruct (ok_node c b) eqn:Hc.
        -- cbn [andb] in Ho. specialize (B ltac:(lia) Ho). lia.
        -- specialize (D ltac:(lia) eq_refl). lia.
Qed.
Lemma cnt_allws R : forall l start lvl indent nxi, rnodes R start lvl indent l = [] -> gs_list gs_node l nxi = [] /\ ok_list ok_node indent l nxi = true.
Proof. induction l as [|c r IHl]; intros; [split; reflexivity|]. rewrite rnodes_cons in H. cbn [gs_list ok_list]. destruct (is_ws c); [eauto|discriminate]. Qed.
Lemma cnt_keep_block : forall l start lvl nxi,
  cnt (gs_list gs_node l nxi) <= cnt (gs_list gs_node (keep_block l (rnodes (reparse_node f) start lvl true l)) nxi) /\
  (dlist l <= f -> ok_list ok_node true l nxi = false -> cnt (gs_list gs_node l nxi) < cnt (gs_list gs_node (keep_block l (rnodes (reparse_node f) start lvl true l)) nxi)).
Proof.
  intros. unfold keep_block. destruct (rnodes (reparse_node f) start lvl true l) eqn:E.
  - destruct (cnt_allws _ _ _ _ _ nxi E) as [A B]. rewrite A, B. split; [destruct l; cbn; lia|intros; discriminate].
  - rewrite <- E. apply cnt_rnodes.
Qed.
Lemma cnt_cases : forall cs start nxi,
  cnt (gs_cases gs_node cs nxi) <= cnt (gs_cases gs_node (map (fun '(cv, cb) => (cv, rnodes (reparse_node f) start start true cb)) cs) nxi) /\
  (dcases cs <= f -> ok_cases ok_node cs nxi = false -> cnt (gs_cases gs_node cs nxi) < cnt (gs_cases gs_node (map (fun '(cv, cb) => (cv, rnodes (reparse_node f) start start true cb)) cs) nxi)).
Proof.
  induction cs as [|[cv cb] cs IHc]; intros start nxi; [split; [cbn; lia|cbn; intros; discriminate]|]. cbn [map gs_cases ok_cases dcases]. rewrite !cnt_app.
  destruct (cnt_rnodes cb start start true nxi) as [A B]. destruct (IHc start nxi) as [C D].
  split; [lia|]. intros Hd Ho. destruct (ok_list ok_node true cb nxi).
  - cbn [andb] in Ho. specialize (D ltac:(lia) Ho). lia.
  - specialize (B ltac:(lia) eq_refl). lia.
Qed.
Lemma cstep : forall n lvl nxi, cnt (gs_node n nxi) <= cnt (gs_node (reparse_node (S f) lvl n) nxi) /\
  (ndepth n <= S f -> ok_node n nxi = false -> cnt (gs_node n nxi) < cnt (gs_node (reparse_node (S f) lvl n) nxi)).
Proof.
  intros n lvl nxi. rewrite reparse_node_S. cbv zeta. rewrite ok_node_eq, ndepth_eq.
  destruct n; try (split; [cbn; lia|cbn; intros; discriminate]); rewrite !gs_node_eq.
  - destruct (existsb (fun c => negb (is_ws c)) children) eqn:Hc.
    + destruct ichildren.
      * destruct (cnt_rnodes children (S lvl) (S lvl) true false) as [A B]. split; [exact A|]. intros; apply B; [lia|assumption].
      * destruct (cnt_rnodes children 0 0 false false) as [A B]. split; [exact A|]. intros; apply B; [lia|assumption].
    + assert (X : gs_list gs_node children false = [] /\ ok_list ok_node ichildren children false = true).
      { clear -Hc. induction children as [|c r IHc]; [split; reflexivity|]. cbn in Hc. cbn [gs_list ok_list]. destruct (is_ws c); [auto|discriminate]. }
      destruct X as [X1 X2]. rewrite X1, X2. split; [cbn; lia|intros; discriminate].
  - destruct (cnt_keep_block children (S lvl) (S lvl) false) as [A B]. split; [exact A|]. intros; apply B; [lia|assumption].
  - rewrite !cnt_app.
    destruct (cnt_rnodes th (S lvl) (S lvl) true nxi) as [A1 B1]. destruct (cnt_cases elifs (S lvl) nxi) as [A2 B2].
    destruct (cnt_keep_block el (S lvl) (S lvl) nxi) as [A3 B3].
    split; [lia|]. intros Hd Ho.
    destruct (ok_list ok_node true th nxi); [|specialize (B1 ltac:(lia) eq_refl); lia].
    destruct (ok_cases ok_node elifs nxi); [|specialize (B2 ltac:(lia) eq_refl); lia].
    cbn [andb] in Ho. specialize (B3 ltac:(lia) Ho). lia.
  - destruct (cnt_cases cases (S (S lvl)) nxi) as [A B]. split; [exact A|]. intros; apply B; [lia|assumption].
  - destruct (cnt_rnodes body (S lvl) (S lvl) true nxi) as [A B]. split; [exact A|]. intros; apply B; [lia|assumption].
Qed.
End CStep.

Lemma cnt_reparse_node : forall f n lvl nxi, cnt (gs_node n nxi) <= cnt (gs_node (reparse_node f lvl n) nxi) /\
  (ndepth n <= f -> ok_node n nxi = false -> cnt (gs_node n nxi) < cnt (gs_node (reparse_node f lvl n) nxi)).
Proof.
  induction f; [|apply cstep; exact IHf]. intros n lvl nxi. split; [cbn; lia|]. intro H. rewrite ndepth_eq in H. lia.
Qed.

Theorem space_rule_exact : forall f, shallow f = true ->
  (gen_spaces (reparse f) = gen_spaces f <-> trailing_semantics_preserved f = true).
Proof.
  intros f Hs. split; [|apply space_rule_partial].
  intro Heq. destruct (trailing_semantics_preserved f) eqn:G; [reflexivity|]. exfalso.
  assert (L : cnt (gen_spaces f) < cnt (gen_spaces (reparse f))); [|rewrite Heq in L; lia].
  clear Heq. unfold gen_spaces, trailing_semantics_preserved, shallow in *. cbn [reparse f_nodes].
  induction (f_nodes f) as [|n r IHr]; [discriminate G|]. cbn [map flat_map forallb] in *. rewrite !cnt_app.
  apply andb_true_iff in Hs. destruct Hs as [Hs1 Hs2].
  assert (M : cnt (flat_map (fun n => match n with FTempl _ ch => gs_list gs_node ch false | _ => [] end) r)
              <= cnt (flat_map (fun n => match n with FTempl _ ch => gs_list gs_node ch false | _ => [] end) (map reparse_fnode r))).
  { clear. induction r as [|m r IHm]; [cbn; lia|]. cbn [map flat_map]. rewrite !cnt_app.
    destruct m; cbn [reparse_fnode]; try lia. rewrite reparse_top_eq.
    destruct (cnt_rnodes 200 (cnt_reparse_node 200) children 1 1 true false) as [A _]. lia. }
  destruct n; cbn [reparse_fnode]; try (cbn [andb] in G; specialize (IHr Hs2 G); lia).
  rewrite reparse_top_eq. cbn [shallow_fnode] in Hs1. apply Nat.leb_le in Hs1.
  destruct (cnt_rnodes 200 (cnt_reparse_node 200) children 1 1 true false) as [A B].
  destruct (ok_list ok_node true children false).
  - cbn [andb] in G. specialize (IHr Hs2 G). lia.
  - specialize (B Hs1 eq_refl). lia.
Qed.
