(* C02, element vocabulary: the fragment node of an accepted element carries the classification of the specification's tables. *)
From Coq.Strings Require Import Byte String.
From Coq Require Import List Arith NArith Bool.
Import ListNotations.
From V Require Import lib.Bytes lib.Sexp model.Ast model.Gen spec.Denote model.IrFragPrint model.IrFrag proofs.IrFragDenoteProof.

Lemma element_class_by_spec_tables :
  forall (call_ok : bytes -> bool) (fuel : nat) (name : bytes) (attrs : list attr) (ch : list node) (t : trailing) (n : nd),
    to_frag call_ok fuel (NElem name attrs ch t) = Some n ->
    exists a c, n = Elem name (Denote.block_name name) (Denote.void_name name) a c t.
Proof.
  intros call_ok fuel name attrs ch t n H. destruct fuel as [|f]; [discriminate|].
  cbn [to_frag] in H.
  destruct (negb (name_ok name) || (is_void_name name && negb (is_nil ch))); [discriminate|].
  destruct (opt_list (map (to_fattr 40 true name) attrs)) as [a|]; [|discriminate].
  destruct (opt_list (map (to_frag call_ok f) ch)) as [c|]; [|discriminate].
  injection H as <-. rewrite block_same, void_same. eauto.
Qed.
