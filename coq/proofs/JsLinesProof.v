(* Proofs for the line-ending statements of C03 (props/C03.v):
     tracker_crlf   the model of templ's quote tracker gives a template saved with CR LF line endings the verdicts it
                    gives the LF file - the same expressions recognised, the same InsideStringLiteral flags, the contents
                    ended at the same symbol - for EVERY template (no fragment, no guard)
     lexer_crlf     the specification's lexer gives the holes of a CR-free template the same lexical positions in the
                    CR LF file
     crlf_judged    hence on the tracker fragment the CR LF file's flags are its holes' lexical positions *)
From Coq.Strings Require Import Byte String.
From Coq Require Import List NArith Bool Lia Arith.
Import ListNotations.
From V Require Import lib.Bytes lib.Utf8 spec.JsLex spec.JsScript model.JsEsc model.JsTrack proofs.JsEscProof proofs.JsScriptProof.

(* ---------------- look-ahead is blind to the change ---------------- *)
Definition plain_pat (p : bytes) : bool := forallb (fun b => negb (Byte.eqb b x0a) && negb (Byte.eqb b x0d)) p.

Lemma crlf_cons x r : crlf (x :: r) = crlf_sym x ++ crlf r.
Proof. reflexivity. Qed.
Lemma crlf_app a b : crlf (a ++ b) = crlf a ++ crlf b.
Proof. unfold crlf. apply flat_map_app. Qed.
Lemma crlf_other c r : Byte.eqb c x0a = false -> crlf (SB c :: r) = SB c :: crlf r.
Proof. intros H. rewrite crlf_cons. cbn [crlf_sym]. rewrite H. reflexivity. Qed.
Lemma crlf_lf r : crlf (SB x0a :: r) = SB x0d :: SB x0a :: crlf r.
Proof. reflexivity. Qed.
Lemma crlf_hole i r : crlf (SH i :: r) = SH i :: crlf r.
Proof. reflexivity. Qed.

Lemma sb_prefix_crlf : forall p r, plain_pat p = true -> sb_prefix p (crlf r) = sb_prefix p r.
Proof.
  induction p as [|a p IH]; intros r H; [destruct r; reflexivity|].
  cbn [plain_pat forallb] in H. apply andb_prop in H as [Ha Hp]. apply andb_prop in Ha as [A1 A2].
  apply negb_true_iff in A1. apply negb_true_iff in A2.
  destruct r as [|[c|i] r]; [reflexivity| |reflexivity].
  destruct (Byte.eqb c x0a) eqn:E.
  - apply byte_eqb_eq in E. subst c. rewrite crlf_lf. cbn [sb_prefix]. rewrite A1, A2. reflexivity.
  - rewrite crlf_other by exact E. cbn [sb_prefix]. f_equal. apply IH. exact Hp.
Qed.
Lemma sb_prefix_head a p x r : plain_pat p = true -> sb_prefix (a :: p) (x :: crlf r) = sb_prefix (a :: p) (x :: r).
Proof. intros H. destruct x as [c|i]; [|reflexivity]. cbn [sb_prefix]. f_equal. apply sb_prefix_crlf. exact H. Qed.
Lemma s_next_is_sb b r : s_next_is b r = sb_prefix [b] r.
Proof. destruct r as [|[d|i] r]; cbn [s_next_is sb_prefix]; try reflexivity. rewrite (byte_eqb_sym b d), andb_true_r. reflexivity. Qed.
Lemma s_next_is_crlf b r : plain_pat [b] = true -> s_next_is b (crlf r) = s_next_is b r.
Proof. intros H. rewrite !s_next_is_sb. apply sb_prefix_crlf. exact H. Qed.
Lemma s_lt_at_crlf c r : s_lt_at (SB c :: crlf r) = s_lt_at (SB c :: r).
Proof.
  unfold s_lt_at, s_lsps_at, ls_bytes, ps_bytes.
  rewrite (sb_prefix_head xe2 [x80; xa8] (SB c) r eq_refl), (sb_prefix_head xe2 [x80; xa9] (SB c) r eq_refl). reflexivity.
Qed.

(* ========================================================================================== *)
(* the model of templ's quote tracker                                                         *)

(* the second character of a comment opener is still to be read *)
Definition twf (k : tst) (s : list sym) : Prop :=
  match k with KLineOpen _ => s_next_is x2f s = true | KBlockOpen _ => s_next_is x2a s = true | _ => True end.
Definition relab (n' : nat) (e : fev) : fev := match e with FEnd _ => FEnd n' | _ => e end.

Lemma tstep_other k x r n n' : x <> SB x0a ->
  tstep k (x :: crlf r) n' = (fst (tstep k (x :: r) n), map (relab n') (snd (tstep k (x :: r) n))).
Proof.
  intros NL. unfold tstep, tstep_gen, lt_slash, slash_slash, slash_star.
  rewrite (sb_prefix_head x3c [x2f] x r eq_refl), (sb_prefix_head x2f [x2f] x r eq_refl), (sb_prefix_head x2f [x2a] x r eq_refl).
  destruct k as [d top ws|d|d|d|d|d st|]; try reflexivity.
  - destruct (ws && match x with SB c => is_ws c | SH _ => false end); [reflexivity|].
    destruct ((top || is_none d) && sb_prefix [x3c; x2f] (x :: r)); [reflexivity|].
    destruct x as [c|i]; [|reflexivity].
    destruct ((is_none d || false && top) && sb_prefix [x2f; x2f] (SB c :: r)); [reflexivity|].
    destruct ((is_none d || false && top) && sb_prefix [x2f; x2a] (SB c :: r)); [reflexivity|].
    destruct (Byte.eqb c x5c); reflexivity.
  - destruct x; reflexivity.
  - destruct x as [c|i]; [|reflexivity]. destruct (Byte.eqb c x0a); reflexivity.
  - destruct x as [c|i]; [|reflexivity]. destruct (st && Byte.eqb c x2f); reflexivity.
Qed.

Lemma tstep_twf k x r n : twf k (x :: r) -> twf (fst (tstep k (x :: r) n)) r.
Proof.
  intros _. unfold tstep, tstep_gen, lt_slash, slash_slash, slash_star.
  destruct k as [d top ws|d|d|d|d|d st|]; try exact I.
  - destruct (ws && match x with SB c => is_ws c | SH _ => false end); [exact I|].
    destruct ((top || is_none d) && sb_prefix [x3c; x2f] (x :: r)); [exact I|].
    destruct x as [c|i]; [|exact I].
    rewrite !sb_prefix_two.
    destruct ((is_none d || false && top) && (Byte.eqb c x2f && s_next_is x2f r)) eqn:A.
    { apply andb_prop in A as [_ A]. apply andb_prop in A as [_ A]. exact A. }
    destruct ((is_none d || false && top) && (Byte.eqb c x2f && s_next_is x2a r)) eqn:B.
    { apply andb_prop in B as [_ B]. apply andb_prop in B as [_ B]. exact B. }
    destruct (Byte.eqb c x5c); exact I.
  - destruct x as [c|i]; [|exact I]. destruct (Byte.eqb c x0a); exact I.
  - destruct x as [c|i]; [|exact I]. destruct (st && Byte.eqb c x2f); exact I.
Qed.

(* CR LF where the LF file has LF: two steps, the same state, nothing reported *)
Lemma tstep_lf k r R n n1 n2 : twf k (SB x0a :: r) ->
  exists k' km, tstep k (SB x0a :: r) n = (k', []) /\
                tstep k (SB x0d :: SB x0a :: R) n1 = (km, []) /\ tstep km (SB x0a :: R) n2 = (k', []).
Proof.
  intros W. destruct k as [d top ws|d|d|d|d|d st|]; cbn [twf s_next_is] in W; try discriminate W;
    try destruct d as [[| |]|].
  all: try (destruct ws; destruct top); try destruct st; eexists; eexists; repeat split; reflexivity.
Qed.

Lemma tstep_evs k s n : let e := snd (tstep k s n) in e = [] \/ e = [FEnd n] \/ (exists b, e = [FHole b]) \/ e = [FSwallowed].
Proof.
  cbv zeta. unfold tstep, tstep_gen. destruct s as [|x r]; [left; reflexivity|].
  destruct k as [d top ws|d|d|d|d|d st|]; try (left; reflexivity).
  - destruct (ws && match x with SB c => is_ws c | SH _ => false end); [left; reflexivity|].
    destruct ((top || is_none d) && sb_prefix lt_slash (x :: r)); [right; left; reflexivity|].
    destruct x as [c|i]; [|right; right; left; eexists; reflexivity].
    destruct ((is_none d || false && top) && sb_prefix slash_slash (SB c :: r)); [left; reflexivity|].
    destruct ((is_none d || false && top) && sb_prefix slash_star (SB c :: r)); [left; reflexivity|].
    destruct (Byte.eqb c x5c); left; reflexivity.
  - destruct x; [left|right; right; right]; reflexivity.
  - destruct x as [c|i]; [|right; right; right; reflexivity]. destruct (Byte.eqb c x0a); left; reflexivity.
  - destruct x as [c|i]; [|right; right; right; reflexivity]. destruct (st && Byte.eqb c x2f); left; reflexivity.
Qed.

Lemma relab_crlf_end k s n n' full : length (crlf (firstn n full)) = n' ->
  map (relab n') (snd (tstep k s n)) = map (crlf_end full) (snd (tstep k s n)).
Proof.
  intros H. destruct (tstep_evs k s n) as [E|[E|[[b E]|E]]]; rewrite E; cbn [map relab crlf_end]; try reflexivity.
  rewrite H. reflexivity.
Qed.

Lemma firstn_pre (pre s : list sym) : firstn (length pre) (pre ++ s) = pre.
Proof. rewrite firstn_app, Nat.sub_diag, firstn_all. cbn [firstn]. apply app_nil_r. Qed.

Lemma trun_crlf : forall s pre k, twf k s ->
  trun k (crlf s) (length (crlf pre)) = map (crlf_end (pre ++ s)) (trun k s (length pre)).
Proof.
  induction s as [|x r IH]; intros pre k W; [reflexivity|].
  assert (A : (pre ++ [x]) ++ r = pre ++ x :: r) by (rewrite <- app_assoc; reflexivity).
  assert (L : length (pre ++ [x]) = S (length pre)) by (rewrite app_length; cbn [length]; lia).
  destruct x as [c|i].
  - destruct (Byte.eqb c x0a) eqn:E.
    + apply byte_eqb_eq in E. subst c. rewrite crlf_lf.
      destruct (tstep_lf k r (crlf r) (length pre) (length (crlf pre)) (S (length (crlf pre))) W) as (k' & km & T0 & T1 & T2).
      rewrite (trun_cons k (SB x0d)), T1. cbn [fst snd app]. rewrite (trun_cons km (SB x0a)), T2. cbn [fst snd app].
      rewrite (trun_cons k (SB x0a) r), T0. cbn [fst snd app].
      pose proof (tstep_twf k (SB x0a) r (length pre) W) as W'. rewrite T0 in W'. cbn [fst] in W'.
      specialize (IH (pre ++ [SB x0a]) k' W'). rewrite A, L in IH. rewrite <- IH. f_equal.
      rewrite crlf_app, app_length. cbn. lia.
    + rewrite crlf_other by exact E.
      rewrite (trun_cons k (SB c) (crlf r)), (tstep_other k (SB c) r (length pre) (length (crlf pre))).
      2:{ intros X. inversion X. subst c. discriminate E. }
      cbn [fst snd]. rewrite (trun_cons k (SB c) r), map_app. f_equal.
      * apply relab_crlf_end. rewrite firstn_pre. reflexivity.
      * pose proof (tstep_twf k (SB c) r (length pre) W) as W'.
        specialize (IH (pre ++ [SB c]) _ W'). rewrite A, L in IH. rewrite <- IH. f_equal.
        rewrite crlf_app, app_length. cbn [crlf flat_map crlf_sym]. rewrite E. cbn. lia.
  - rewrite crlf_hole.
    rewrite (trun_cons k (SH i) (crlf r)), (tstep_other k (SH i) r (length pre) (length (crlf pre))) by discriminate.
    cbn [fst snd]. rewrite (trun_cons k (SH i) r), map_app. f_equal.
    + apply relab_crlf_end. rewrite firstn_pre. reflexivity.
    + pose proof (tstep_twf k (SH i) r (length pre) W) as W'.
      specialize (IH (pre ++ [SH i]) _ W'). rewrite A, L in IH. rewrite <- IH. f_equal.
      rewrite crlf_app, app_length. cbn. lia.
Qed.

Theorem tracker_crlf s : track (crlf s) = map (crlf_end s) (track s).
Proof. unfold track. apply (trun_crlf s [] (KChar None true false)). exact I. Qed.

Lemma flags_crlf_end full l : flags (map (crlf_end full) l) = flags l.
Proof. induction l as [|[b| |m] l IH]; cbn [map crlf_end flags]; [reflexivity|rewrite IH; reflexivity|exact IH|reflexivity]. Qed.

Lemma crlf_etag tpl : crlf (tpl ++ map SB end_tag) = crlf tpl ++ map SB end_tag.
Proof. rewrite crlf_app. reflexivity. Qed.

Theorem tracker_crlf_flags tpl :
  flags (track (crlf tpl ++ map SB end_tag)) = flags (track (tpl ++ map SB end_tag)).
Proof. rewrite <- crlf_etag, tracker_crlf. apply flags_crlf_end. Qed.

(* ========================================================================================== *)
(* the specification's lexer                                                                  *)

Definition msim (m m' : mode) : Prop :=
  match m, m' with
  | MCode _, MCode _ => True
  | MStr q e _, MStr q' e' _ => q = q' /\ e = e' /\ e <> E2
  | MLine _, MLine _ => True
  | MBlockOpen _, MBlockOpen _ => True
  | MBlock _ s, MBlock _ s' => s = s'
  | MStop, MStop => True
  | _, _ => False
  end.

Lemma pos_code_tok acc : positions (code_tok acc) = [].
Proof. destruct acc; reflexivity. Qed.

Ltac done := cbn [fst snd msim positions app]; rewrite ?positions_app, ?pos_code_tok; repeat split; try reflexivity; try discriminate.

(* a symbol other than LF and CR: one step each, the same decision *)
Lemma step_other vals m m' x r :
  msim m m' -> x <> SB x0a -> x <> SB x0d ->
  msim (fst (step vals m (x :: r))) (fst (step vals m' (x :: crlf r))) /\
  positions (snd (step vals m' (x :: crlf r))) = positions (snd (step vals m (x :: r))).
Proof.
  intros S N1 N2.
  destruct m as [acc|q e ps|acc|acc|acc st|]; destruct m' as [acc'|q' e' ps'|acc'|acc'|acc' st'|]; cbn [msim] in S; try contradiction.
  - destruct x as [c|i]; cbn [step].
    + rewrite (s_next_is_crlf x2f r eq_refl), (s_next_is_crlf x2a r eq_refl).
      destruct (quote_of c); [done|].
      destruct (Byte.eqb c x2f && s_next_is x2f r); [done|].
      destruct (Byte.eqb c x2f && s_next_is x2a r); done.
    + done.
  - destruct S as (<- & <- & NE). destruct x as [c|i]; cbn [step].
    + rewrite (s_next_is_crlf x7b r eq_refl), s_lt_at_crlf.
      assert (C : Byte.eqb c x0d = false) by (apply byte_eqb_neq; intros ->; apply N2; reflexivity).
      destruct e; [|rewrite C; done|congruence].
      destruct (Byte.eqb c x5c); [done|].
      destruct (Byte.eqb c (qbyte q)); [done|].
      destruct (is_backtick q && Byte.eqb c x24 && s_next_is x7b r); [done|].
      destruct (negb (is_backtick q) && s_lt_at (SB c :: r)); done.
    + destruct e; [done|done|congruence].
  - destruct x as [c|i]; cbn [step]; [|done].
    rewrite s_lt_at_crlf. destruct (s_lt_at (SB c :: r)); done.
  - destruct x as [c|i]; cbn [step]; done.
  - subst st'. destruct x as [c|i]; cbn [step]; [|done].
    destruct (st && Byte.eqb c x2f); done.
  - done.
Qed.

(* CR LF where the LF file has LF *)
Lemma step_lf vals m m' r R :
  msim m m' ->
  let a := step vals m (SB x0a :: r) in
  let b1 := step vals m' (SB x0d :: SB x0a :: R) in
  let b2 := step vals (fst b1) (SB x0a :: R) in
  msim (fst a) (fst b2) /\ positions (snd a) = [] /\ positions (snd b1) = [] /\ positions (snd b2) = [].
Proof.
  intros S. cbv zeta.
  destruct m as [acc|q e ps|acc|acc|acc st|]; destruct m' as [acc'|q' e' ps'|acc'|acc'|acc' st'|]; cbn [msim] in S; try contradiction.
  - cbn. repeat split; reflexivity.
  - destruct S as (<- & <- & NE). destruct e; [|cbn; repeat split; try reflexivity; discriminate|congruence].
    destruct q; cbn; repeat split; try reflexivity; discriminate.
  - cbn. repeat split; reflexivity.
  - cbn. repeat split; reflexivity.
  - subst st'. destruct st; cbn; repeat split; reflexivity.
  - cbn. repeat split; reflexivity.
Qed.

Lemma pos_flush m : positions (flush m) = [].
Proof. destruct m; try reflexivity. apply pos_code_tok. Qed.

Lemma run_crlf vals : forall s m m', msim m m' -> no_cr s = true ->
  positions (run vals m' (crlf s)) = positions (run vals m s).
Proof.
  induction s as [|x r IH]; intros m m' S NC.
  - cbn [crlf flat_map run]. rewrite !pos_flush. reflexivity.
  - cbn [no_cr forallb] in NC. apply andb_prop in NC as [NX NC].
    destruct x as [c|i].
    + apply negb_true_iff in NX.
      destruct (Byte.eqb c x0a) eqn:E.
      * apply byte_eqb_eq in E. subst c. rewrite crlf_lf.
        destruct (step_lf vals m m' r (crlf r) S) as (S' & P0 & P1 & P2).
        rewrite (run_cons vals m'), (run_cons vals (fst (step vals m' (SB x0d :: SB x0a :: crlf r)))), (run_cons vals m).
        rewrite !positions_app, P0, P1, P2. cbn [app]. apply IH; [exact S'|exact NC].
      * rewrite crlf_other by exact E.
        destruct (step_other vals m m' (SB c) r S) as (S' & P).
        { intros X. inversion X. subst c. discriminate E. }
        { intros X. inversion X. subst c. discriminate NX. }
        rewrite (run_cons vals m'), (run_cons vals m), !positions_app, P. f_equal. apply IH; [exact S'|exact NC].
    + rewrite crlf_hole.
      destruct (step_other vals m m' (SH i) r S) as (S' & P); try discriminate.
      rewrite (run_cons vals m'), (run_cons vals m), !positions_app, P. f_equal. apply IH; [exact S'|exact NC].
Qed.

Theorem lexer_crlf vals tpl : no_cr tpl = true ->
  positions (lex_script vals (crlf tpl)) = positions (lex_script vals tpl).
Proof. intros NC. unfold lex_script. apply run_crlf; [exact I|exact NC]. Qed.

(* both: on the tracker fragment, the CR LF file's flags are its holes' lexical positions *)
Theorem crlf_judged vals tpl : tracker_fragment vals tpl = true -> no_cr tpl = true ->
  flags (track (crlf tpl ++ map SB end_tag)) = positions (lex_script vals (crlf tpl)).
Proof.
  intros F NC. rewrite tracker_crlf_flags, (tracker_agrees vals tpl F), flags_holes. symmetry. apply lexer_crlf. exact NC.
Qed.
