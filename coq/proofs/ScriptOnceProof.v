(* Proofs about spec/ScriptOnce.v: the in-band pass [resolve] computes the registry semantics [run] on encoded documents, and
   in the finished document every hoisted script is defined no later than its hoist. *)
From Coq.Strings Require Import Byte String.
From Coq Require Import List Arith NArith Bool Lia.
Import ListNotations.
From V Require Import lib.Bytes spec.ScriptOnce.

(* ---------- resolve on an encoded document ---------- *)
Lemma resolve_bytes s : forall rest seen pend, no_byte x04 s = true ->
  resolve (s ++ rest) MOut seen pend = s ++ resolve rest MOut seen pend.
Proof.
  induction s as [|b r IH]; intros rest seen pend H; [reflexivity|].
  cbn [no_byte forallb] in H. apply andb_prop in H as [Hb Hr]. apply negb_true_iff in Hb.
  cbn [app resolve]. rewrite Hb. f_equal. apply IH. exact Hr.
Qed.
Lemma resolve_name n : forall acc rest seen pend, no_byte x02 n = true ->
  resolve (n ++ x02 :: rest) (MName acc) seen pend = resolve rest (MFn (rev acc ++ n) []) seen pend.
Proof.
  induction n as [|b r IH]; intros acc rest seen pend H.
  - cbn [app resolve]. rewrite byte_eqb_refl, app_nil_r. reflexivity.
  - cbn [no_byte forallb] in H. apply andb_prop in H as [Hb Hr]. apply negb_true_iff in Hb.
    cbn [app resolve]. rewrite Hb. rewrite (IH (b :: acc) rest seen pend Hr). cbn [rev]. rewrite <- app_assoc. reflexivity.
Qed.
Lemma resolve_fn f : forall n acc rest seen pend, no_byte x03 f = true ->
  resolve (f ++ x03 :: rest) (MFn n acc) seen pend
  = if seen_name n seen then resolve rest MGroup seen pend else resolve rest MGroup (n :: seen) (pend ++ rev acc ++ f).
Proof.
  induction f as [|b r IH]; intros n acc rest seen pend H.
  - cbn [app resolve]. rewrite byte_eqb_refl, app_nil_r. reflexivity.
  - cbn [no_byte forallb] in H. apply andb_prop in H as [Hb Hr]. apply negb_true_iff in Hb.
    cbn [app resolve]. rewrite Hb. rewrite (IH n (b :: acc) rest seen pend Hr). cbn [rev]. rewrite <- (app_assoc (rev acc)). reflexivity.
Qed.
Lemma resolve_item i rest seen pend : item_ok i = true ->
  resolve (enc_item i ++ rest) MGroup seen pend
  = if seen_name (fst i) seen then resolve rest MGroup seen pend else resolve rest MGroup (fst i :: seen) (pend ++ snd i).
Proof.
  destruct i as [n f]. intros H. cbn [item_ok] in H. apply andb_prop in H as [Hn Hf]. cbn [fst snd].
  unfold enc_item. rewrite <- !app_assoc. cbn [app resolve].
  replace (Byte.eqb x01 x01) with true by reflexivity.
  rewrite (resolve_name n [] _ seen pend Hn). cbn [rev app].
  rewrite (resolve_fn f n [] rest seen pend Hf). reflexivity.
Qed.
Lemma resolve_items l : forall rest seen pend, forallb item_ok l = true ->
  resolve (flat_map enc_item l ++ rest) MGroup seen pend
  = resolve rest MGroup (snd (fresh_fns seen l)) (pend ++ fst (fresh_fns seen l)).
Proof.
  induction l as [|i r IH]; intros rest seen pend H.
  - cbn. rewrite app_nil_r. reflexivity.
  - cbn [forallb] in H. apply andb_prop in H as [Hi Hr]. cbn [flat_map]. rewrite <- app_assoc.
    rewrite (resolve_item i _ seen pend Hi). destruct i as [n f]. cbn [fst snd fresh_fns].
    destruct (seen_name n seen).
    + apply IH. exact Hr.
    + rewrite (IH rest (n :: seen) (pend ++ f) Hr). destruct (fresh_fns (n :: seen) r) as [o s']. cbn [fst snd]. rewrite <- app_assoc. reflexivity.
Qed.
Lemma resolve_hoist l rest seen pend : forallb item_ok l = true ->
  resolve (enc_hoist l ++ rest) MOut seen pend
  = script_elem (fst (fresh_fns seen l)) ++ resolve rest MOut (snd (fresh_fns seen l)) [].
Proof.
  intros H. unfold enc_hoist. rewrite <- !app_assoc. cbn [app resolve].
  replace (Byte.eqb x04 x04) with true by reflexivity.
  rewrite (resolve_items l _ seen [] H). cbn [app resolve].
  replace (Byte.eqb x05 x01) with false by reflexivity. replace (Byte.eqb x05 x05) with true by reflexivity. reflexivity.
Qed.
Lemma resolve_pend_irrelevant s : forall seen p q, resolve s MOut seen p = resolve s MOut seen q.
Proof.
  induction s as [|b r IH]; intros seen p q; [reflexivity|]. cbn [resolve]. destruct (Byte.eqb b x04); [reflexivity|]. f_equal. apply IH.
Qed.
Theorem resolve_enc ps : forall seen pend, forallb piece_ok ps = true -> resolve (enc ps) MOut seen pend = run seen ps.
Proof.
  induction ps as [|p r IH]; intros seen pend H; [reflexivity|].
  cbn [forallb] in H. apply andb_prop in H as [Hp Hr]. unfold enc. cbn [flat_map]. fold (enc r).
  destruct p as [s|l]; cbn [enc_piece piece_ok run] in *.
  - rewrite (resolve_bytes s _ seen pend Hp). f_equal. apply IH. exact Hr.
  - rewrite (resolve_hoist l _ seen pend Hp). destruct (fresh_fns seen l) as [o s']. cbn [fst snd]. f_equal. apply IH. exact Hr.
Qed.
Lemma resolve_tr_ok s : forall m seen pend acc, resolve_tr s m seen pend acc = rev acc ++ resolve s m seen pend.
Proof.
  induction s as [|b r IH]; intros m seen pend acc.
  - cbn [resolve_tr resolve]. rewrite rev_append_rev, !app_nil_r. reflexivity.
  - destruct m as [| |n|n f]; cbn [resolve_tr resolve].
    + destruct (Byte.eqb b x04); rewrite IH; [reflexivity|]. cbn [rev]. rewrite <- app_assoc. reflexivity.
    + destruct (Byte.eqb b x01); [apply IH|]. destruct (Byte.eqb b x05); [|apply IH].
      rewrite IH, rev_append_rev, rev_app_distr, rev_involutive, <- app_assoc. reflexivity.
    + destruct (Byte.eqb b x02); apply IH.
    + destruct (Byte.eqb b x03); [|apply IH]. destruct (seen_name n seen); apply IH.
Qed.
Corollary resolve_doc_enc ps : forallb piece_ok ps = true -> resolve_doc (enc ps) = run [] ps.
Proof. intros H. unfold resolve_doc. rewrite resolve_tr_ok. cbn [rev app]. apply resolve_enc. exact H. Qed.

(* ---------- every hoisted script is defined no later than its hoist ---------- *)
Definition infix (f s : bytes) : Prop := exists a b, s = a ++ f ++ b.
Definition consistent (l : list sitem) : Prop := forall n f f', In (n, f) l -> In (n, f') l -> f = f'.

Lemma infix_app_l f s t : infix f s -> infix f (t ++ s).
Proof. intros [a [b E]]. exists (t ++ a), b. rewrite E, <- app_assoc. reflexivity. Qed.
Lemma infix_app_r f s t : infix f s -> infix f (s ++ t).
Proof. intros [a [b E]]. exists a, (b ++ t). rewrite E, <- !app_assoc. reflexivity. Qed.
Lemma infix_script_elem f o : infix f o -> infix f (script_elem o).
Proof.
  intros H. destruct o as [|c o']; [exact H|]. unfold script_elem. apply infix_app_l, infix_app_r. exact H.
Qed.
Lemma seen_name_cons n m seen : seen_name n (m :: seen) = bytes_eqb n m || seen_name n seen.
Proof. reflexivity. Qed.
Lemma consistent_tail i l : consistent (i :: l) -> consistent l.
Proof. intros H n f f' A B. apply (H n f f'); right; assumption. Qed.
Lemma consistent_app_l a b : consistent (a ++ b) -> consistent a.
Proof. intros H n f f' A B. apply (H n f f'); apply in_or_app; left; assumption. Qed.
Lemma consistent_app_r a b : consistent (a ++ b) -> consistent b.
Proof. intros H n f f' A B. apply (H n f f'); apply in_or_app; right; assumption. Qed.

Lemma fresh_defines l : forall seen n f, consistent l -> In (n, f) l -> seen_name n seen = false -> infix f (fst (fresh_fns seen l)).
Proof.
  induction l as [|[n0 f0] r IH]; intros seen n f Hc Hin Hs; [destruct Hin|].
  cbn [fresh_fns]. destruct (bytes_eqb n n0) eqn:En.
  - apply bytes_eqb_eq in En. subst n0. rewrite Hs.
    assert (f0 = f) by (apply (Hc n f0 f); [left; reflexivity|exact Hin]). subst f0.
    destruct (fresh_fns (n :: seen) r) as [o s']. cbn [fst]. exists [], o. reflexivity.
  - assert (Hin' : In (n, f) r).
    { destruct Hin as [E|Hin']; [|exact Hin']. inversion E; subst. rewrite bytes_eqb_refl in En. discriminate. }
    destruct (seen_name n0 seen).
    + apply (IH seen n f); [eapply consistent_tail; exact Hc|exact Hin'|exact Hs].
    + specialize (IH (n0 :: seen) n f (consistent_tail _ _ Hc) Hin').
      rewrite seen_name_cons, En, Hs in IH. specialize (IH eq_refl).
      destruct (fresh_fns (n0 :: seen) r) as [o s']. cbn [fst] in *. apply infix_app_l. exact IH.
Qed.
Lemma fresh_seen l : forall seen n, seen_name n (snd (fresh_fns seen l)) = true -> seen_name n seen = true \/ exists f, In (n, f) l.
Proof.
  induction l as [|[n0 f0] r IH]; intros seen n H; [left; exact H|].
  cbn [fresh_fns] in H. destruct (seen_name n0 seen).
  - destruct (IH seen n H) as [A|[f A]]; [left; exact A|right; exists f; right; exact A].
  - destruct (fresh_fns (n0 :: seen) r) as [o s'] eqn:Ef. cbn [snd] in H.
    assert (H' : seen_name n (snd (fresh_fns (n0 :: seen) r)) = true) by (rewrite Ef; exact H).
    destruct (IH (n0 :: seen) n H') as [A|[f A]].
    + rewrite seen_name_cons in A. apply orb_prop in A as [A|A]; [|left; exact A].
      apply bytes_eqb_eq in A. subst n0. right. exists f0. left. reflexivity.
    + right. exists f. right. exact A.
Qed.
Lemma named_dec n (l : list sitem) : (exists f, In (n, f) l) \/ (forall f, ~ In (n, f) l).
Proof.
  induction l as [|[n0 f0] r IH]; [right; intros f []|].
  destruct (bytes_eqb n n0) eqn:En.
  - apply bytes_eqb_eq in En. subst n0. left. exists f0. left. reflexivity.
  - destruct IH as [[f A]|A]; [left; exists f; right; exact A|].
    right. intros f [E|B]; [inversion E; subst; rewrite bytes_eqb_refl in En; discriminate|exact (A f B)].
Qed.

Theorem run_defines ps : forall seen n f,
  consistent (items_of ps) -> In (n, f) (items_of ps) -> seen_name n seen = false -> infix f (run seen ps).
Proof.
  induction ps as [|p r IH]; intros seen n f Hc Hin Hs; [destruct Hin|].
  destruct p as [s|l]; cbn [run].
  - apply infix_app_l. apply (IH seen n f); assumption.
  - unfold items_of in Hc, Hin. cbn [flat_map] in Hc, Hin. fold (items_of r) in Hc, Hin.
    destruct (fresh_fns seen l) as [o s'] eqn:Ef.
    destruct (named_dec n l) as [[f' A]|A].
    + assert (f' = f) by (apply (Hc n f' f); [apply in_or_app; left; exact A|exact Hin]). subst f'.
      apply infix_app_r, infix_script_elem.
      replace o with (fst (fresh_fns seen l)) by (rewrite Ef; reflexivity).
      apply (fresh_defines l seen n f); [eapply consistent_app_l; exact Hc|exact A|exact Hs].
    + apply infix_app_l. apply (IH s' n f).
      * eapply consistent_app_r; exact Hc.
      * apply in_app_or in Hin as [B|B]; [destruct (A f B)|exact B].
      * destruct (seen_name n s') eqn:E; [|reflexivity].
        assert (E' : seen_name n (snd (fresh_fns seen l)) = true) by (rewrite Ef; exact E).
        destruct (fresh_seen l seen n E') as [B|[f' B]]; [congruence|destruct (A f' B)].
Qed.
(* in the document rendered up to and including a hoist (fresh render context), every script of the hoist is defined *)
Corollary hoisted_defined a l n f :
  consistent (items_of (a ++ [PHoist l])) -> In (n, f) l -> infix f (run [] (a ++ [PHoist l])).
Proof.
  intros Hc Hin. apply (run_defines _ [] n f); [exact Hc| |reflexivity].
  unfold items_of. rewrite flat_map_app. apply in_or_app. right. cbn. rewrite app_nil_r. exact Hin.
Qed.
