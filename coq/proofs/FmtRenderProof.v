(* C08 at the level of rendered output: under the guards, the canonical view (proofs/DenoteCanonProof.v) of the
   re-parsed file equals the canonical view of the original, hence both render the same bytes / the same failure for
   every template name, environment and fuel. *)
From Coq.Strings Require Import Byte String.
From Coq Require Import List Arith NArith Bool Lia.
Import ListNotations.
From V Require Import lib.Bytes lib.Sexp.
From V Require model.Fmt.
From V Require Import model.FmtReasons spec.FmtSpec proofs.FmtProof proofs.FmtSemProof.
From V Require Import model.Ast model.Url spec.Denote spec.FmtEmbed proofs.DenoteCanonProof.
Local Open Scope nat_scope.

Lemma block_name_same n : Fmt.is_block_name n = block_name n. Proof. reflexivity. Qed.
Lemma void_name_same n : Fmt.is_void_name n = void_name n. Proof. reflexivity. Qed.

Local Notation E := embed_node.
Definition A (m : Fmt.node) : node := embed_node (respace_node m).
Definition wsp : node := NWs [x20].
Definition ecases (l : list (bytes * list Fmt.node)) : list (expr * list node) :=
  map (fun '(cv, cb) => (mkexpr cv, map embed_node cb)) l.

Lemma respace_node_eq n : respace_node n =
  match n with
  | Fmt.NElem name attrs ia ch ic t => Fmt.NElem name attrs ia (rs_list respace_node ch) ic t
  | Fmt.NCallT v => Fmt.NCall [v] [v] []
  | Fmt.NCall src ref ch => Fmt.NCall src ref (rs_keep respace_node ch)
  | Fmt.NIf v th elifs el => Fmt.NIf v (rs_list respace_node th) (rs_cases respace_node elifs) (rs_keep respace_node el)
  | Fmt.NSwitch v cases => Fmt.NSwitch v (rs_cases respace_node cases)
  | Fmt.NFor v b => Fmt.NFor v (rs_list respace_node b)
  | _ => n
  end.
Proof. destruct n; reflexivity. Qed.
Lemma shaped_node_eq n : shaped_node n =
  match n with
  | Fmt.NElem name _ _ ch _ _ =>
      (negb (Fmt.is_void_name name) || match ch with [] => true | _ => existsb (fun c => negb (Fmt.is_ws c)) ch end) && sh_list shaped_node ch
  | Fmt.NCall _ _ ch => ws_canonical ch && sh_list shaped_node ch
  | Fmt.NIf _ th elifs el => ws_canonical th && sh_list shaped_node th && sh_cases shaped_node elifs && (ws_canonical el && sh_list shaped_node el)
  | Fmt.NSwitch _ cs => sh_cases shaped_node cs
  | Fmt.NFor _ b => ws_canonical b && sh_list shaped_node b
  | _ => true
  end.
Proof. destruct n; reflexivity. Qed.

(* ---------- kinds survive embed / respace ---------- *)
Lemma is_wsn_E c : is_wsn (E c) = Fmt.is_ws c. Proof. destruct c; reflexivity. Qed.
Lemma is_wsn_A c : is_wsn (A c) = Fmt.is_ws c. Proof. destruct c; reflexivity. Qed.
Lemma inl_E c : inline_or_text (Some (E c)) = g_inl c. Proof. destruct c; reflexivity. Qed.
Lemma inl_A c : inline_or_text (Some (A c)) = g_inl c. Proof. destruct c; reflexivity. Qed.
Lemma all_wsn_E l : all_wsn (map E l) = all_ws l.
Proof. induction l as [|c r IH]; [reflexivity|]. cbn [map]. rewrite all_wsn_cons, is_wsn_E, IH. reflexivity. Qed.
Lemma all_ws_cons c r : all_ws (c :: r) = Fmt.is_ws c && all_ws r. Proof. reflexivity. Qed.
Arguments all_ws : simpl never.
Lemma non_trailer_set m t : non_trailer (Fmt.set_trailing m t) = non_trailer m.
Proof. destruct m; reflexivity. Qed.
Lemma non_trailer_reparse f lvl m : non_trailer (Fmt.reparse_node f lvl m) = non_trailer m.
Proof. unfold non_trailer. rewrite trail_of_reparse. reflexivity. Qed.

(* ---------- the trailing mark set by the sibling list ---------- *)
Lemma canon_set m t' nx :
  match g_trail m with Some t => norm_t (embed_trail t') (g_inl m) nx = norm_t (embed_trail t) (g_inl m) nx | None => True end ->
  canon_node nx (A (Fmt.set_trailing m t')) = canon_node nx (A m).
Proof.
  destruct m; cbn [Fmt.set_trailing g_trail]; try reflexivity; intro H; unfold A; rewrite !respace_node_eq; cbn [embed_node]; rewrite !canon_node_eq.
  - f_equal. exact H.
  - f_equal. exact H.
  - f_equal. exact H.
Qed.
Lemma norm_stable indent c r nxF nx t :
  g_trail c = Some t -> tight indent c r nxF = false -> (nx = true -> nxF = true) ->
  norm_t (embed_trail (eff_trail indent c r)) (g_inl c) nx = norm_t (embed_trail t) (g_inl c) nx.
Proof.
  intros G Ht Hn. unfold tight in Ht. unfold eff_trail. rewrite G in Ht. rewrite (g_trail_trail_of _ _ G).
  destruct (indent && _); [|reflexivity].
  destruct t; try reflexivity. cbn [andb] in Ht.
  destruct (g_inl c); [|reflexivity]. destruct nx; [|reflexivity]. rewrite (Hn eq_refl) in Ht. discriminate.
Qed.

Lemma next_inl_allws nxi : forall r, all_ws r = true -> next_inl r nxi = nxi.
Proof. induction r as [|y r IH]; [reflexivity|]. rewrite all_ws_cons. intro H. apply andb_true_iff in H. destruct H as [H1 H2]. cbn [next_inl]. rewrite H1. auto. Qed.
Lemma head_imp nxD nxF r : (nxD = true -> nxF = true) ->
  (if all_ws r then nxD else head_inl (map E r)) = true -> next_inl r nxF = true.
Proof.
  intros Hn. destruct (all_ws r) eqn:Aw; [intro H; rewrite (next_inl_allws _ _ Aw); auto|].
  destruct r as [|y r']; [discriminate|]. cbn [map head_inl next_inl]. rewrite inl_E. destruct y; try discriminate; auto.
Qed.
Lemma first_imp nxD nxF : (nxD = true -> nxF = true) -> forall r, first_inl (map E r) nxD = true -> next_inl r nxF = true.
Proof.
  intros Hn. induction r as [|y r IH]; [exact Hn|]. cbn [map first_inl next_inl]. rewrite is_wsn_E, inl_E. destruct (Fmt.is_ws y); auto.
Qed.

(* ---------- sibling lists ---------- *)
Section Lists.
Variable f : nat.
Hypothesis IH : forall n lvl nxD nxF, ndepth n <= f -> (nxD = true -> nxF = true) -> ok_node n nxF = true -> shaped_node n = true ->
  canon_node nxD (A (Fmt.reparse_node f lvl n)) = canon_node nxD (E n).
Definition L (start lvl : nat) (indent : bool) (l : list Fmt.node) : list node :=
  map embed_node (rs_list respace_node (rnodes (Fmt.reparse_node f) start lvl indent l)).
Lemma head_for_rnodes : forall r start lvl indent,
  head_for (skip_ws (rnodes (Fmt.reparse_node f) start lvl indent r)) = head_for (skip_ws r).
Proof.
  induction r as [|y r IHr]; intros; [reflexivity|]. rewrite rnodes_cons. cbn [skip_ws]. destruct (Fmt.is_ws y) eqn:W; [apply IHr|].
  cbn [skip_ws]. rewrite is_ws_set_trailing, is_ws_reparse, W. cbn [head_for]. destruct f; [destruct y; reflexivity|]. destruct y; reflexivity.
Qed.
Lemma L_cons start lvl indent c r : L start lvl indent (c :: r) =
  if Fmt.is_ws c then L start lvl indent r
  else A (Fmt.set_trailing (Fmt.reparse_node f lvl c) (eff_trail indent c r)) ::
       (if wants_ws c r then [wsp] else []) ++ L start (next_lvl start (eff_trail indent c r)) indent r.
Proof.
  unfold L. rewrite rnodes_cons. destruct (Fmt.is_ws c) eqn:W; [reflexivity|]. cbn [rs_list].
  rewrite is_ws_set_trailing, is_ws_reparse, W. unfold wants_ws at 1. rewrite non_trailer_set, non_trailer_reparse, head_for_rnodes.
  fold (wants_ws c r). destruct (wants_ws c r); reflexivity.
Qed.
Lemma all_wsn_L : forall l start lvl indent, all_wsn (L start lvl indent l) = all_ws l.
Proof.
  induction l as [|c r IHl]; intros; [reflexivity|]. rewrite L_cons, all_ws_cons. destruct (Fmt.is_ws c) eqn:W; [apply IHl|].
  rewrite all_wsn_cons, is_wsn_A, is_ws_set_trailing, is_ws_reparse, W. reflexivity.
Qed.
Lemma first_inl_L nxi : forall l start lvl indent, first_inl (L start lvl indent l) nxi = first_inl (map E l) nxi.
Proof.
  induction l as [|c r IHl]; intros; [reflexivity|]. rewrite L_cons. cbn [map first_inl]. rewrite is_wsn_E. destruct (Fmt.is_ws c) eqn:W; [apply IHl|].
  cbn [first_inl]. rewrite is_wsn_A, is_ws_set_trailing, is_ws_reparse, W, inl_A, inl_E, g_inl_set_trailing, g_inl_reparse. reflexivity.
Qed.

Lemma elem_step indent c r lvl nx nF : ndepth c <= f -> ok_node c nF = true -> shaped_node c = true ->
  tight indent c r nF = false -> (nx = true -> nF = true) ->
  canon_node nx (A (Fmt.set_trailing (Fmt.reparse_node f lvl c) (eff_trail indent c r))) = canon_node nx (E c).
Proof.
  intros Hd Ho Hs Ht Hn. rewrite canon_set; [apply (IH _ _ _ nF); assumption|].
  rewrite g_trail_reparse, g_inl_reparse. destruct (g_trail c) as [t|] eqn:G; [|exact I].
  apply (norm_stable _ _ _ nF); assumption.
Qed.

(* element and template children: every white-space node is stripped *)
Lemma strip_step nxD nxF (Hn : nxD = true -> nxF = true) : forall l start lvl indent (pfx : bool),
  dlist l <= f -> sh_list shaped_node l = true -> ok_list ok_node indent l nxF = true ->
  cstrip canon_node nxD ((if pfx then [wsp] else []) ++ L start lvl indent l) = cstrip canon_node nxD (map E l).
Proof.
  assert (P : forall (pfx : bool) X, cstrip canon_node nxD ((if pfx then [wsp] else []) ++ X) = cstrip canon_node nxD X) by (intros [|] X; reflexivity).
  induction l as [|c r IHl]; intros start lvl indent pfx Hd Hs Ho; rewrite P; [reflexivity|].
  rewrite L_cons. cbn [map cstrip dlist sh_list ok_list] in *. rewrite is_wsn_E. destruct (Fmt.is_ws c) eqn:W.
  - rewrite <- (IHl start lvl indent false); [reflexivity|lia|..]; try assumption.
    apply andb_true_iff in Hs. apply Hs.
  - apply andb_true_iff in Hs. destruct Hs as [Hs1 Hs2].
    apply andb_true_iff in Ho. destruct Ho as [Ho Ho3]. apply andb_true_iff in Ho. destruct Ho as [Ho1 Ho2]. apply negb_true_iff in Ho1.
    cbn [cstrip]. rewrite is_wsn_A, is_ws_set_trailing, is_ws_reparse, W.
    rewrite (IHl _ _ indent (wants_ws c r)); [|lia|assumption|assumption].
    f_equal. 
    assert (F : first_inl ((if wants_ws c r then [wsp] else []) ++ L start (next_lvl start (eff_trail indent c r)) indent r) nxD = first_inl (map E r) nxD).
    { destruct (wants_ws c r); cbn [app first_inl is_wsn wsp]; apply first_inl_L. }
    rewrite F. apply (elem_step _ _ _ _ _ (next_inl r nxF)); try assumption; [lia|]. apply first_imp. exact Hn.
Qed.

(* bodies: the white space between the first and the last node is kept *)
Lemma wsc_allws st pn l : all_ws l = true -> wsc st pn l = true.
Proof. destruct l; [reflexivity|]. cbn [wsc]. intro H. rewrite H. reflexivity. Qed.
Lemma body_step nxD nxF (Hn : nxD = true -> nxF = true) : forall l (pn st : bool) start lvl indent,
  (pn = true -> st = true) -> wsc st pn l = true ->
  dlist l <= f -> sh_list shaped_node l = true -> ok_list ok_node indent l nxF = true ->
  cbody canon_node nxD st ((if pn then [wsp] else []) ++ L start lvl indent l) = cbody canon_node nxD st (map E l).
Proof.
  induction l as [|c r IHl]; intros pn st start lvl indent Hp Hw Hd Hs Ho.
  { destruct pn, st; reflexivity. }
  destruct (all_ws (c :: r)) eqn:AW.
  { rewrite (cbody_allws _ _ (map E (c :: r))) by (rewrite all_wsn_E; exact AW).
    apply cbody_allws. destruct pn; cbn [app]; rewrite ?all_wsn_cons, all_wsn_L, AW; reflexivity. }
  cbn [wsc] in Hw. rewrite AW in Hw. rewrite L_cons. cbn [map dlist sh_list ok_list] in *.
  apply andb_true_iff in Hs. destruct Hs as [Hs1 Hs2].
  destruct (Fmt.is_ws c) eqn:W.
  - (* a white-space node of the original: it sits right after a non-trailer, where the re-parsed body has one too *)
    rewrite all_ws_cons, W in AW. cbn [andb] in AW.
    apply andb_true_iff in Hw. destruct Hw as [Hw1 Hw2].
    cbn [cbody]. rewrite is_wsn_E, W, all_wsn_E, AW. cbn [negb]. rewrite andb_true_r.
    destruct st.
    + subst pn. cbn [app cbody is_wsn wsp]. rewrite all_wsn_L, AW. cbn [negb andb]. f_equal; [destruct c; try discriminate; reflexivity|].
      apply (IHl false true); try assumption; [discriminate|lia].
    + destruct pn; [discriminate (Hp eq_refl)|]. cbn [app]. apply (IHl false false); try assumption; lia.
  - apply andb_true_iff in Hw. destruct Hw as [Hw1 Hw2]. apply negb_true_iff in Hw1. subst pn. cbn [app].
    apply andb_true_iff in Ho. destruct Ho as [Ho Ho3]. apply andb_true_iff in Ho. destruct Ho as [Ho1 Ho2]. apply negb_true_iff in Ho1.
    cbn [cbody]. rewrite is_wsn_E, W, is_wsn_A, is_ws_set_trailing, is_ws_reparse, W.
    set (X := (if wants_ws c r then [wsp] else []) ++ L start (next_lvl start (eff_trail indent c r)) indent r).
    assert (AX : all_wsn X = all_ws r).
    { unfold X. destruct (wants_ws c r); cbn [app]; rewrite ?all_wsn_cons; cbn [is_wsn wsp andb]; apply all_wsn_L. }
    assert (HX : all_ws r = false -> head_inl X = head_inl (map E r)).
    { intro AR. unfold X. destruct r as [|y r']; [discriminate|]. cbn [wsc] in Hw2. rewrite AR in Hw2. cbn [map head_inl].
      destruct (wants_ws c (y :: r')); cbn [app head_inl].
      - destruct (Fmt.is_ws y) eqn:Wy; [destruct y; try discriminate; reflexivity|discriminate].
      - destruct (Fmt.is_ws y) eqn:Wy; [discriminate|]. rewrite L_cons, Wy. cbn [head_inl]. rewrite inl_A, inl_E, g_inl_set_trailing, g_inl_reparse. reflexivity. }
    rewrite AX, all_wsn_E.
    assert (NX : (if all_ws r then nxD else head_inl X) = (if all_ws r then nxD else head_inl (map E r))).
    { destruct (all_ws r) eqn:AR; [reflexivity|]. apply HX. reflexivity. }
    rewrite NX. f_equal.
    + apply (elem_step _ _ _ _ _ (next_inl r nxF)); try assumption; [lia|]. apply head_imp. exact Hn.
    + unfold X. apply (IHl (wants_ws c r) true); try assumption; [reflexivity|lia].
Qed.

Lemma rnodes_nil_allws R : forall l start lvl indent, rnodes R start lvl indent l = [] -> all_ws l = true.
Proof.
  induction l as [|c r IHl]; intros start lvl indent H; [reflexivity|]. rewrite rnodes_cons in H. rewrite all_ws_cons.
  destruct (Fmt.is_ws c); [eauto|discriminate].
Qed.
Lemma body_keep nxD nxF (Hn : nxD = true -> nxF = true) l start lvl :
  ws_canonical l = true -> dlist l <= f -> sh_list shaped_node l = true -> ok_list ok_node true l nxF = true ->
  cbody canon_node nxD false (map E (rs_keep respace_node (keep_block l (rnodes (Fmt.reparse_node f) start lvl true l)))) = cbody canon_node nxD false (map E l).
Proof.
  intros Hw Hd Hs Ho. unfold keep_block. destruct (rnodes (Fmt.reparse_node f) start lvl true l) as [|n0 l0] eqn:Er.
  - rewrite (cbody_allws _ _ (map E l)) by (rewrite all_wsn_E; apply (rnodes_nil_allws _ _ _ _ _ Er)). destruct l; reflexivity.
  - assert (W : Fmt.is_ws n0 = false).
    { apply (rnodes_wsfree f l start lvl true). rewrite Er. left. reflexivity. }
    assert (K : rs_keep respace_node (n0 :: l0) = rs_list respace_node (n0 :: l0)).
    { cbn [rs_keep rs_list]. rewrite W. destruct (wants_ws n0 l0); reflexivity. }
    rewrite K, <- Er. apply (body_step nxD nxF Hn l false false start lvl true); try assumption. discriminate.
Qed.
Lemma keep_nonempty l start lvl : l <> [] ->
  exists y r, map E (rs_keep respace_node (keep_block l (rnodes (Fmt.reparse_node f) start lvl true l))) = y :: r.
Proof.
  intro H. destruct (keep_block l (rnodes (Fmt.reparse_node f) start lvl true l)) as [|k0 kl] eqn:K.
  - apply keep_block_nil in K. destruct K. contradiction.
  - cbn [rs_keep]. destruct (rs_list respace_node (k0 :: kl)); cbn [map]; eauto.
Qed.
Lemma cases_step nxD nxF (Hn : nxD = true -> nxF = true) : forall cs start,
  dcases cs <= f -> sh_cases shaped_node cs = true -> ok_cases ok_node cs nxF = true ->
  ccases canon_node nxD (ecases (rs_cases respace_node (map (fun '(cv, cb) => (cv, rnodes (Fmt.reparse_node f) start start true cb)) cs))) = ccases canon_node nxD (ecases cs).
Proof.
  induction cs as [|[cv cb] cs IHc]; intros start Hd Hs Ho; [reflexivity|]. cbn [map rs_cases ecases ccases dcases sh_cases ok_cases] in *.
  apply andb_true_iff in Hs. destruct Hs as [Hs Hs3]. apply andb_true_iff in Hs. destruct Hs as [Hs1 Hs2].
  apply andb_true_iff in Ho. destruct Ho as [Ho1 Ho2].
  f_equal; [f_equal|].
  - apply (body_step nxD nxF Hn cb false false start start true); try assumption; [discriminate|lia].
  - apply IHc; try assumption. lia.
Qed.
Lemma strip_allws nxi : forall l, all_ws l = true -> cstrip canon_node nxi (map E l) = [].
Proof. induction l as [|c r IHl]; [reflexivity|]. rewrite all_ws_cons. intro H. apply andb_true_iff in H. destruct H as [H1 H2]. cbn [map cstrip]. rewrite is_wsn_E, H1. auto. Qed.
Lemma existsb_allws l : existsb (fun c => negb (Fmt.is_ws c)) l = negb (all_ws l).
Proof. induction l as [|c r IHl]; [reflexivity|]. cbn [existsb]. rewrite all_ws_cons, IHl. destruct (Fmt.is_ws c); reflexivity. Qed.

Lemma node_step : forall n lvl nxD nxF, ndepth n <= S f -> (nxD = true -> nxF = true) -> ok_node n nxF = true -> shaped_node n = true ->
  canon_node nxD (A (Fmt.reparse_node (S f) lvl n)) = canon_node nxD (E n).
Proof.
  intros n lvl nxD nxF Hd Hn Ho Hs. rewrite reparse_node_S. cbv zeta. rewrite ok_node_eq in Ho. rewrite shaped_node_eq in Hs. rewrite ndepth_eq in Hd.
  destruct n; try reflexivity; unfold A; rewrite respace_node_eq; cbn [embed_node]; rewrite !canon_node_eq.
  - (* NElem *)
    apply andb_true_iff in Hs. destruct Hs as [Hv Hs].
    assert (X : cstrip canon_node false (map E (rs_list respace_node
                 (if existsb (fun c => negb (Fmt.is_ws c)) children
                  then if ichildren then rnodes (Fmt.reparse_node f) (S lvl) (S lvl) true children else rnodes (Fmt.reparse_node f) 0 0 false children
                  else []))) = cstrip canon_node false (map E children)).
    { rewrite existsb_allws. destruct (all_ws children) eqn:AW; cbn [negb].
      - rewrite (strip_allws _ _ AW). reflexivity.
      - destruct ichildren; apply (strip_step false false (fun H => H) children _ _ _ false); try assumption; lia. }
    rewrite X. f_equal. rewrite <- void_name_same in *. destruct (Fmt.is_void_name name); [|reflexivity].
    cbn [negb orb] in Hv. destruct children as [|c0 ch]; [reflexivity|].
    rewrite existsb_allws in Hv. apply negb_true_iff in Hv.
    unfold keepw. destruct (cstrip canon_node false (map E (c0 :: ch))) eqn:Z; [|reflexivity].
    exfalso. clear -Hv Z. revert Z. generalize (c0 :: ch) Hv. clear. induction l as [|c r IHl]; [discriminate|].
    rewrite all_ws_cons. cbn [map cstrip]. rewrite is_wsn_E. destruct (Fmt.is_ws c); [exact IHl|discriminate].
  - (* NCall *)
    apply andb_true_iff in Hs. destruct Hs as [Hw Hs].
    destruct children as [|c0 ch]; [reflexivity|].
    destruct (keep_nonempty (c0 :: ch) (S lvl) (S lvl)) as [y [r K]]; [discriminate|].
    assert (B := body_keep false false (fun H => H) (c0 :: ch) (S lvl) (S lvl) Hw ltac:(lia) Hs Ho).
    cbv beta iota. rewrite K. rewrite <- K. rewrite B. cbn [map]. unfold keepw.
    destruct (cbody canon_node false false (E c0 :: map E ch)) eqn:Z; [|reflexivity]. rewrite K. reflexivity.
  - (* NIf *)
    apply andb_true_iff in Hs. destruct Hs as [Hs Hs3]. apply andb_true_iff in Hs. destruct Hs as [Hs Hs2]. apply andb_true_iff in Hs. destruct Hs as [Hw1 Hs1].
    apply andb_true_iff in Hs3. destruct Hs3 as [Hw3 Hs3].
    apply andb_true_iff in Ho. destruct Ho as [Ho Ho3]. apply andb_true_iff in Ho. destruct Ho as [Ho1 Ho2].
    f_equal.
    + apply (body_step nxD nxF Hn th false false (S lvl) (S lvl) true); try assumption; [discriminate|lia].
    + apply (cases_step nxD nxF Hn); try assumption. lia.
    + apply (body_keep nxD nxF Hn); try assumption. lia.
  - (* NSwitch *)
    f_equal. apply (cases_step nxD nxF Hn); try assumption. lia.
  - (* NFor *)
    apply andb_true_iff in Hs. destruct Hs as [Hw Hs].
    f_equal. apply (body_step nxD nxF Hn body false false (S lvl) (S lvl) true); try assumption; [discriminate|lia].
Qed.
End Lists.

Lemma canon_reparse_node : forall f n lvl nxD nxF, ndepth n <= f -> (nxD = true -> nxF = true) -> ok_node n nxF = true -> shaped_node n = true ->
  canon_node nxD (A (Fmt.reparse_node f lvl n)) = canon_node nxD (E n).
Proof.
  induction f as [|f IHf]; [|apply node_step; exact IHf].
  intros n lvl nxD nxF H. rewrite ndepth_eq in H. lia.
Qed.

(* ---------- whole files ---------- *)
Definition guards (f : Fmt.file) : bool := trailing_semantics_preserved f && parser_shaped f && shallow f.

Lemma canon_table_preserved f : trailing_semantics_preserved f = true -> parser_shaped f = true -> shallow f = true ->
  canon_tbl (templ_table (embed (reparse_ws f))) = canon_tbl (templ_table (embed f)).
Proof.
  unfold parser_shaped. intros H1 H2 H3. apply andb_true_iff in H2. destruct H2 as [H2 _]. revert H1 H2 H3.
  unfold trailing_semantics_preserved, ws_shaped, shallow, templ_table, reparse_ws, respace, Fmt.reparse, embed.
  cbn [Ast.f_nodes Fmt.f_nodes]. intros H1 H2 H3. rewrite forallb_forall in H1, H2, H3.
  induction (Fmt.f_nodes f) as [|n r IHr]; [reflexivity|].
  cbn [map flat_map]. unfold canon_tbl in *. rewrite !map_app. rewrite IHr by (intros; (apply H1 || apply H2 || apply H3); right; assumption).
  f_equal. specialize (H1 n (or_introl eq_refl)). specialize (H2 n (or_introl eq_refl)). specialize (H3 n (or_introl eq_refl)).
  destruct n; try reflexivity. cbn [Fmt.reparse_fnode respace_fnode embed_fnode map fst snd e_val mkexpr]. f_equal. f_equal.
  rewrite reparse_top_eq. cbn [shallow_fnode] in H3. apply Nat.leb_le in H3.
  exact (strip_step 200 (canon_reparse_node 200) false false (fun H => H) children 1 1 true false H3 H2 H1).
Qed.

Theorem render_preserved_fuel : forall f, trailing_semantics_preserved f = true -> parser_shaped f = true -> shallow f = true ->
  forall fuel name ev, denote_fuel fuel (embed (reparse_ws f)) name ev = denote_fuel fuel (embed f) name ev.
Proof. intros f H1 H2 H3 fuel name ev. rewrite !denote_depends_on_canon, canon_table_preserved by assumption. reflexivity. Qed.

Theorem render_preserved : forall f, trailing_semantics_preserved f = true -> parser_shaped f = true -> shallow f = true ->
  forall name ev, denote_case (embed (reparse_ws f)) name ev = denote_case (embed f) name ev.
Proof. intros. rewrite !denote_case_fuel. apply render_preserved_fuel; assumption. Qed.
Print Assumptions render_preserved.
