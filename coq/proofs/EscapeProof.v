(* Proofs about the escaper against the tokenizer / reference-decoding specifications. *)
From Coq.Strings Require Import Byte String.
From Coq Require Import List Arith NArith Bool Lia.
Import ListNotations.
From V Require Import lib.Bytes spec.HtmlTok spec.HtmlRefs model.Escape.
Open Scope nat_scope.

Lemma beq_eq a b : Byte.eqb a b = true -> a = b. Proof. apply byte_eqb_eq. Qed.

(* ---------- the five cases of esc1 ---------- *)
Lemma esc1_cases b :
  (b = x26 /\ esc1 b = bs "&amp;") \/ (b = x27 /\ esc1 b = bs "&#39;") \/ (b = x3c /\ esc1 b = bs "&lt;") \/
  (b = x3e /\ esc1 b = bs "&gt;") \/ (b = x22 /\ esc1 b = bs "&#34;") \/
  (Byte.eqb b x26 = false /\ Byte.eqb b x27 = false /\ Byte.eqb b x3c = false /\ Byte.eqb b x3e = false /\
   Byte.eqb b x22 = false /\ esc1 b = [b]).
Proof.
  unfold esc1.
  destruct (Byte.eqb b x26) eqn:E1; [apply beq_eq in E1; subst; auto|].
  destruct (Byte.eqb b x27) eqn:E2; [apply beq_eq in E2; subst; auto|].
  destruct (Byte.eqb b x3c) eqn:E3; [apply beq_eq in E3; subst; auto 6|].
  destruct (Byte.eqb b x3e) eqn:E4; [apply beq_eq in E4; subst; auto 7|].
  destruct (Byte.eqb b x22) eqn:E5; [apply beq_eq in E5; subst; auto 8|].
  auto 12.
Qed.

Lemma escape_cons b s : escape (b :: s) = esc1 b ++ escape s.
Proof. reflexivity. Qed.
Lemma escape_app a b : escape (a ++ b) = escape a ++ escape b.
Proof. unfold escape. apply flat_map_app. Qed.

(* ---------- escape output is inert ---------- *)
Lemma esc1_inert b : inert (esc1 b) = true.
Proof.
  destruct (esc1_cases b) as [[_ ->]|[[_ ->]|[[_ ->]|[[_ ->]|[[_ ->]|[_ [E2 [E3 [E4 [E5 ->]]]]]]]]]]; try reflexivity.
  unfold inert, meta. cbn [forallb]. rewrite E2, E3, E4, E5. reflexivity.
Qed.

Theorem escape_inert s : inert (escape s) = true.
Proof.
  induction s as [|b r IH]; [reflexivity|]. rewrite escape_cons. unfold inert in *.
  rewrite forallb_app. rewrite IH. pose proof (esc1_inert b) as H. unfold inert in H. rewrite H. reflexivity.
Qed.

Lemma inert_no b : negb (meta b) = true ->
  Byte.eqb b x3c = false /\ Byte.eqb b x3e = false /\ Byte.eqb b x22 = false /\ Byte.eqb b x27 = false.
Proof.
  unfold meta. intros H. apply negb_true_iff in H.
  destruct (Byte.eqb b x3c); [discriminate|]. destruct (Byte.eqb b x3e); [discriminate|].
  destruct (Byte.eqb b x22); [discriminate|]. destruct (Byte.eqb b x27); [discriminate|]. auto.
Qed.

Theorem escape_amps s : amps_are_refs (escape s) = true.
Proof.
  induction s as [|b r IH]; [reflexivity|]. rewrite escape_cons.
  destruct (esc1_cases b) as [[_ ->]|[[_ ->]|[[_ ->]|[[_ ->]|[[_ ->]|[E1 [_ [_ [_ [_ ->]]]]]]]]]];
    try (cbn; exact IH).
  cbn [app amps_are_refs]. rewrite E1. exact IH.
Qed.

(* ---------- decoding the escaped form gives the string back ---------- *)
Section Decode.
Variable named : list (bytes * bytes).
Variable encode_cp : N -> bytes.
Variable in_attr : bool.
Hypothesis Htab : table_ok named.
Hypothesis Henc : encoder_ok encode_cp.

Lemma prefix_of_spec p s rest : prefix_of p s = Some rest <-> s = p ++ rest.
Proof.
  revert s; induction p as [|a p IH]; intros s; cbn.
  - split; [intros H; inversion H; reflexivity|intros ->; reflexivity].
  - destruct s as [|b s]; [split; discriminate|]. destruct (Byte.eqb a b) eqn:E.
    + apply beq_eq in E. subst. rewrite IH. split; [intros ->; reflexivity|intros H; inversion H; reflexivity].
    + split; [discriminate|]. intros H. inversion H; subst. rewrite byte_eqb_refl in E. discriminate.
Qed.

Definition no_semi (k : bytes) := forallb (fun c => negb (Byte.eqb c x3b)) k = true.

Lemma app_eq_split (a b c d : bytes) : a ++ b = c ++ d -> length c <= length a -> exists m, a = c ++ m /\ d = m ++ b.
Proof.
  revert c; induction a as [|x a IH]; intros c H L.
  - destruct c; [|cbn in L; lia]. exists []. split; [reflexivity|]. cbn in H. subst. reflexivity.
  - destruct c as [|y c]; [exists (x :: a); split; [reflexivity|cbn in H; subst; reflexivity]|].
    cbn in H. inversion H; subst. destruct (IH c H2) as [m [-> ->]]; [cbn in L; lia|]. exists m. split; reflexivity.
Qed.

Lemma name_is_key nm v k rest rest' : In (nm, v) named -> no_semi k ->
  k ++ x3b :: rest = nm ++ rest' -> length (k ++ [x3b]) <= length nm -> nm = k ++ [x3b] /\ rest' = rest.
Proof.
  intros HIn Hk E L. symmetry in E.
  replace (k ++ x3b :: rest) with ((k ++ [x3b]) ++ rest) in E by (rewrite <- app_assoc; reflexivity).
  destruct (app_eq_split nm rest' (k ++ [x3b]) rest E L) as [m [Hnm Hrest]].
  assert (m = []) as ->.
  { apply (names_semi named Htab nm v HIn k m). rewrite Hnm. rewrite <- app_assoc. reflexivity. }
  rewrite app_nil_r in Hnm. cbn in Hrest. subst. split; reflexivity.
Qed.

(* invariant of the longest-match loop: the accumulator is shorter than the key, or it is the key *)
Lemma best_key tbl k v rest acc :
  (forall nm w, In (nm, w) tbl -> In (nm, w) named) -> no_semi k ->
  (In (k ++ [x3b], v) tbl \/ acc = Some (k ++ [x3b], v, rest)) ->
  (forall n w r, acc = Some (n, w, r) -> (length n < length (k ++ [x3b]))%nat \/ acc = Some (k ++ [x3b], v, rest)) ->
  In (k ++ [x3b], v) named ->
  best tbl (k ++ x3b :: rest) acc = Some (k ++ [x3b], v, rest).
Proof.
  intros Hsub Hk. revert acc. induction tbl as [|[nm w] tbl IH]; intros acc Hhas Hacc Hnamed.
  - cbn. destruct Hhas as [H|H]; [destruct H|subst; reflexivity].
  - cbn [best]. assert (Hsub' : forall nm w, In (nm, w) tbl -> In (nm, w) named) by (intros; apply Hsub; right; assumption).
    destruct (prefix_of nm (k ++ x3b :: rest)) as [rest'|] eqn:P.
    + apply prefix_of_spec in P.
      assert (Hnm : In (nm, w) named) by (apply Hsub; left; reflexivity).
      destruct (le_lt_dec (length (k ++ [x3b])) (length nm)) as [Lge|Llt].
      * destruct (name_is_key nm w k rest rest' Hnm Hk P Lge) as [-> ->].
        assert (w = v) as -> by (eapply (names_fun named Htab); eassumption).
        destruct acc as [[[n w0] r0]|].
        -- destruct (Hacc n w0 r0 eq_refl) as [Hlt|Heq].
           ++ apply Nat.ltb_lt in Hlt. rewrite Hlt. apply IH; auto; intros n' w' r' E; right; exact E.
           ++ inversion Heq; subst. rewrite Nat.ltb_irrefl. apply IH; auto.
        -- apply IH; auto; intros n' w' r' E; right; exact E.
      * assert (Hhas' : In (k ++ [x3b], v) tbl \/ acc = Some (k ++ [x3b], v, rest)).
        { destruct Hhas as [[E|H]|H]; [|left; exact H|right; exact H]. inversion E; subst. lia. }
        destruct acc as [[[n w0] r0]|].
        -- destruct (Nat.ltb (length n) (length nm)) eqn:C.
           ++ apply IH; auto.
              ** destruct Hhas' as [H|H]; [left; exact H|]. inversion H; subst. apply Nat.ltb_lt in C. lia.
              ** intros n' w' r' E. inversion E; subst. left. exact Llt.
           ++ apply IH; auto.
        -- apply IH; auto.
           ++ destruct Hhas' as [H|H]; [left; exact H|discriminate].
           ++ intros n' w' r' E. inversion E; subst. left. exact Llt.
    + apply IH; auto. destruct Hhas as [[E|H]|H]; [|left; exact H|right; exact H].
      inversion E; subst. assert (prefix_of (k ++ [x3b]) (k ++ x3b :: rest) = Some rest) as Q.
      { apply prefix_of_spec. rewrite <- app_assoc. reflexivity. } rewrite Q in P. discriminate.
Qed.

Lemma best_named k v rest : no_semi k -> In (k ++ [x3b], v) named ->
  best named (k ++ x3b :: rest) None = Some (k ++ [x3b], v, rest).
Proof.
  intros Hk HIn. apply best_key; auto. intros n w r E. discriminate.
Qed.

Lemma ends_semi_snoc k : ends_semi (k ++ [x3b]) = true.
Proof. unfold ends_semi. rewrite rev_app_distr. reflexivity. Qed.

Notation dec := (decode_fuel named encode_cp in_attr).

Lemma decode_plain f b r : Byte.eqb b x26 = false -> dec (S f) (b :: r) = b :: dec f r.
Proof. intros H. cbn [decode_fuel]. rewrite H. reflexivity. Qed.

(* a named reference  & c k' ;  whose first byte is not '#' *)
Lemma decode_named f c k v r : no_semi (c :: k) -> In ((c :: k) ++ [x3b], v) named -> Byte.eqb c x23 = false ->
  dec (S f) (x26 :: (c :: k) ++ x3b :: r) = v ++ dec f r.
Proof.
  intros Hk HIn Hh. pose proof (best_named (c :: k) v r Hk HIn) as B.
  cbn [decode_fuel app]. change (Byte.eqb x26 x26) with true. cbn [negb]. rewrite Hh.
  cbn [app] in B. rewrite B. pose proof (ends_semi_snoc (c :: k)) as ES. cbn [app] in ES. rewrite ES. cbn [negb]. rewrite andb_false_r. reflexivity.
Qed.

(* a decimal reference with two digits d1 d2 *)
Lemma decode_dec2 f d1 d2 r cp b : is_dec d1 = true -> is_dec d2 = true ->
  Byte.eqb d1 x78 || Byte.eqb d1 x58 = false ->
  ((0 * 10 + (bN d1 - 48)) * 10 + (bN d2 - 48))%N = cp -> fix_cp cp = cp -> Byte.of_N cp = Some b -> (cp < 128)%N ->
  dec (S f) (x26 :: x23 :: d1 :: d2 :: x3b :: r) = b :: dec f r.
Proof.
  intros D1 D2 NX E F OB L. cbn [decode_fuel]. change (Byte.eqb x26 x26) with true. cbn [negb].
  change (Byte.eqb x23 x23) with true. cbv iota. rewrite NX. cbn [take_dec]. rewrite D1, D2.
  change (is_dec x3b) with false. cbv iota. rewrite E. change (Byte.eqb x3b x3b) with true. cbv iota.
  rewrite F. rewrite (Henc cp b OB L). reflexivity.
Qed.

Lemma decode_fuel_escape s : forall f, length (escape s) <= f -> dec f (escape s) = s.
Proof.
  induction s as [|b s IH]; intros f Hf.
  - destruct f; reflexivity.
  - rewrite escape_cons in *. rewrite app_length in Hf.
    destruct f as [|f]; [destruct (esc1_cases b) as [[_ E]|[[_ E]|[[_ E]|[[_ E]|[[_ E]|[_ [_ [_ [_ [_ E]]]]]]]]]]; rewrite E in Hf; cbn in Hf; lia|].
    destruct (esc1_cases b) as [[-> E]|[[-> E]|[[-> E]|[[-> E]|[[-> E]|[E1 [_ [_ [_ [_ E]]]]]]]]]]; rewrite E in *; cbn [length bs list_byte_of_string] in Hf.
    + change (bs "&amp;" ++ escape s) with (x26 :: (x61 :: bs "mp") ++ x3b :: escape s).
      rewrite (decode_named f x61 (bs "mp") [x26] (escape s)); [|reflexivity|exact (has_amp named Htab)|reflexivity]. rewrite IH by (cbn in Hf; lia). reflexivity.
    + change (bs "&#39;" ++ escape s) with (x26 :: x23 :: x33 :: x39 :: x3b :: escape s).
      rewrite (decode_dec2 f x33 x39 (escape s) 39%N x27); try reflexivity. rewrite IH by (cbn in Hf; lia). reflexivity.
    + change (bs "&lt;" ++ escape s) with (x26 :: (x6c :: bs "t") ++ x3b :: escape s).
      rewrite (decode_named f x6c (bs "t") [x3c] (escape s)); [|reflexivity|exact (has_lt named Htab)|reflexivity]. rewrite IH by (cbn in Hf; lia). reflexivity.
    + change (bs "&gt;" ++ escape s) with (x26 :: (x67 :: bs "t") ++ x3b :: escape s).
      rewrite (decode_named f x67 (bs "t") [x3e] (escape s)); [|reflexivity|exact (has_gt named Htab)|reflexivity]. rewrite IH by (cbn in Hf; lia). reflexivity.
    + change (bs "&#34;" ++ escape s) with (x26 :: x23 :: x33 :: x34 :: x3b :: escape s).
      rewrite (decode_dec2 f x33 x34 (escape s) 34%N x22); try reflexivity. rewrite IH by (cbn in Hf; lia). reflexivity.
    + cbn [app]. rewrite decode_plain by exact E1. rewrite IH; [reflexivity|]. cbn in Hf. lia.
Qed.

Theorem escape_decodes s : decode_refs named encode_cp in_attr (escape s) = s.
Proof. apply decode_fuel_escape. apply le_n. Qed.
End Decode.

(* a decidable sufficient condition for table_ok, so that any concrete table is checked by computation *)
Definition semi_okb (nm : bytes) : bool := forallb (fun c => negb (Byte.eqb c x3b)) (removelast nm).
Definition table_okb (t : list (bytes * bytes)) : bool :=
  forallb (fun p => semi_okb (fst p)) t &&
  forallb (fun p => forallb (fun q => implb (bytes_eqb (fst p) (fst q)) (bytes_eqb (snd p) (snd q))) t) t &&
  existsb (fun p => bytes_eqb (fst p) (bs "amp;") && bytes_eqb (snd p) [x26]) t &&
  existsb (fun p => bytes_eqb (fst p) (bs "lt;") && bytes_eqb (snd p) [x3c]) t &&
  existsb (fun p => bytes_eqb (fst p) (bs "gt;") && bytes_eqb (snd p) [x3e]) t.

Lemma removelast_app_cons (a : bytes) x b : b <> [] -> removelast (a ++ x :: b) = a ++ x :: removelast b.
Proof.
  intros H. rewrite removelast_app by discriminate. f_equal. cbn. destruct b; [congruence|reflexivity].
Qed.
Lemma semi_okb_sound nm : semi_okb nm = true -> semi_last nm.
Proof.
  intros H a b E. destruct b as [|y b]; [reflexivity|]. exfalso. subst nm. unfold semi_okb in H.
  rewrite removelast_app_cons in H by discriminate. rewrite forallb_app in H. apply andb_prop in H as [_ H].
  cbn in H. discriminate.
Qed.
Lemma existsb_pair t k v : existsb (fun p : bytes * bytes => bytes_eqb (fst p) k && bytes_eqb (snd p) v) t = true -> In (k, v) t.
Proof.
  intros H. apply existsb_exists in H as [[a b] [HIn E]]. cbn in E. apply andb_prop in E as [E1 E2].
  apply bytes_eqb_eq in E1. apply bytes_eqb_eq in E2. subst. exact HIn.
Qed.
Lemma table_okb_sound t : table_okb t = true -> table_ok t.
Proof.
  unfold table_okb. intros H. repeat (apply andb_prop in H as [H ?]).
  split.
  - intros nm v HIn. apply semi_okb_sound. rewrite forallb_forall in H. apply (H (nm, v) HIn).
  - intros nm v v' I1 I2. match goal with X : forallb (fun p => forallb _ t) t = true |- _ => rename X into F end.
    rewrite forallb_forall in F. specialize (F (nm, v) I1). rewrite forallb_forall in F. specialize (F (nm, v') I2).
    cbn in F. rewrite bytes_eqb_refl in F. cbn in F. apply bytes_eqb_eq in F. exact F.
  - apply existsb_pair. assumption.
  - apply existsb_pair. assumption.
  - apply existsb_pair. assumption.
Qed.

(* the concrete table and encoder of spec/HtmlRefs.v satisfy the hypotheses *)
Lemma min_table_ok : table_ok min_table.
Proof. apply table_okb_sound. vm_compute. reflexivity. Qed.

Lemma utf8_cp_ok : encoder_ok utf8_cp.
Proof.
  intros n b H L. unfold utf8_cp. apply N.ltb_lt in L. rewrite L. unfold Nb. rewrite H. reflexivity.
Qed.

Corollary escape_decodes_min in_attr s : decode_min in_attr (escape s) = s.
Proof. apply escape_decodes; [exact min_table_ok|exact utf8_cp_ok]. Qed.
