(* C16 - side conditions on the table dumped from strconv.IsPrint (gen/Tables16.v); re-checked whenever the table changes. *)
From Coq.Strings Require Import Byte String.
From Coq Require Import List NArith Bool.
Import ListNotations.
From V Require Import lib.Bytes model.Quote model.QuoteGo proofs.QuoteProof proofs.QuoteLitProof.
Open Scope N_scope.

(* the one fact the theorems use *)
Lemma go_is_print_lf : go_is_print 10 = false.
Proof. vm_compute. reflexivity. Qed.

(* sanity of the dump: no C0 control character and not DEL is printable; the ASCII graphic range and space are *)
Lemma go_is_print_controls : forallb (fun r => negb (go_is_print r)) (127 :: map N.of_nat (seq 0 32)) = true.
Proof. vm_compute. reflexivity. Qed.
Lemma go_is_print_ascii : forallb go_is_print (map N.of_nat (seq 32 95)) = true.
Proof. vm_compute. reflexivity. Qed.

Theorem go_unquote_quote s : unquote (go_quote s) = Some s.
Proof. apply unquote_quote. exact go_is_print_lf. Qed.
Theorem go_quote_scan_ok s : scan_ok (go_quote s) = true.
Proof. apply quote_scan_ok. exact go_is_print_lf. Qed.
