(* C07 proofs, part 2: the RangeWriter model (model/Gen.v: raw, close_literal, wi_, wr_, wl_) keeps
   Current = position of the end of everything written so far, so the range start returned for an expression
   write is the position (index, line, column) of the first byte of that expression in the generated text. *)
From Coq.Strings Require Import Byte String.
From Coq Require Import List Arith NArith Bool Lia ZifyN ZifyNat ZifyBool.
Import ListNotations.
From V Require Import lib.Bytes lib.Sexp model.Ast model.Gen spec.SmSpec.
Local Open Scope nat_scope.

Definition outtext (w : rw) : bytes := concat (rev (out w)).
Notation p0 := (0%N, 0%N, 0%N).
(* the writer invariant: Current is the position reached by walking the whole output *)
Definition wf (w : rw) : Prop := cur w = advance p0 (outtext w).

(* ================= advance / pos_of ================= *)
Lemma advance_app : forall a p b, advance p (a ++ b) = advance (advance p a) b.
Proof. induction a as [|x a IH]; intros p b; [reflexivity|]. destruct p as [[i l] c]. cbn [app advance]. apply IH. Qed.

Lemma pos_walk_advance : forall s i p, pos_walk s i p = advance p (firstn i s).
Proof.
  induction s as [|b r IH]; intros i p; destruct i; cbn [pos_walk firstn advance]; try reflexivity.
  destruct p as [[ix l] c]. apply IH.
Qed.
Lemma pos_of_app pre rest : pos_of (pre ++ rest) (N.of_nat (length pre)) = advance p0 pre.
Proof.
  unfold pos_of. rewrite pos_walk_advance, Nat2N.id, firstn_app, Nat.sub_diag, firstn_all. cbn [firstn]. rewrite app_nil_r. reflexivity.
Qed.
Lemma advance_index : forall s p, fst (fst (advance p s)) = (fst (fst p) + N.of_nat (length s))%N.
Proof.
  induction s as [|b r IH]; intros [[i l] c]; cbn [advance length fst]; [lia|].
  rewrite IH. destruct (Byte.eqb b x0a); cbn [fst]; lia.
Qed.
Lemma pos_of_index_le s n : (fst (fst (pos_of s n)) <= N.of_nat (length s))%N.
Proof.
  unfold pos_of. rewrite pos_walk_advance, advance_index. cbn [fst]. rewrite firstn_length. lia.
Qed.
(* if a recorded position is the pos_of of its own index, that index is inside the text and the position is
   the walk of the text before it *)
Lemma pos_of_self s (tp : pos) : tp = pos_of s (fst (fst tp)) ->
  exists pre rest, s = pre ++ rest /\ fst (fst tp) = N.of_nat (length pre) /\ tp = advance p0 pre.
Proof.
  intros H. set (n := N.to_nat (fst (fst tp))).
  exists (firstn n s), (skipn n s). rewrite firstn_skipn. split; [reflexivity|].
  assert (E : tp = advance p0 (firstn n s)) by (rewrite H at 1; unfold pos_of; apply pos_walk_advance).
  split; [|exact E].
  pose proof (f_equal (fun p => fst (fst p)) E) as E2. cbv beta in E2. rewrite advance_index in E2. cbn [fst] in E2. lia.
Qed.

(* ================= the writer operations ================= *)
Lemma outtext_raw s w : outtext (raw s w) = outtext w ++ s.
Proof. unfold outtext, raw. cbn [out rev]. rewrite concat_app. cbn [concat]. rewrite app_nil_r. reflexivity. Qed.

Lemma wf_rw0 : wf rw0.
Proof. reflexivity. Qed.
Lemma wf_raw s w : wf w -> wf (raw s w).
Proof. unfold wf. intros H. rewrite outtext_raw, advance_app, <- H. reflexivity. Qed.

(* an operation that only appends to the output and keeps the invariant *)
Definition appends (f : rw -> rw) : Prop := forall w, wf w -> wf (f w) /\ exists s, outtext (f w) = outtext w ++ s.
Lemma appends_raw s : appends (raw s).
Proof. intros w H. split; [apply wf_raw; exact H|]. exists s. apply outtext_raw. Qed.
Lemma appends_comp f g : appends f -> appends g -> appends (fun w => g (f w)).
Proof.
  intros Hf Hg w H. destruct (Hf w H) as [H1 [s1 E1]]. destruct (Hg (f w) H1) as [H2 [s2 E2]].
  split; [exact H2|]. exists (s1 ++ s2). rewrite E2, E1, app_assoc. reflexivity.
Qed.
Lemma appends_id : appends (fun w => w).
Proof. intros w H. split; [exact H|]. exists []. rewrite app_nil_r. reflexivity. Qed.
Lemma appends_close_literal lvl : appends (close_literal lvl).
Proof.
  intros w H. unfold close_literal.
  set (w1 := {| out := out w; inlit := false; builder := []; index := S (index w); lits := _ :: lits w; cur := cur w |}).
  assert (H1 : wf w1) by exact H.
  assert (E1 : outtext w1 = outtext w) by reflexivity.
  match goal with |- wf (raw ?a (raw ?b w1)) /\ _ => destruct (appends_comp _ _ (appends_raw b) (appends_raw a) w1 H1) as [A [s B]] end.
  split; [exact A|]. exists s. rewrite <- E1. exact B.
Qed.
Lemma appends_close_if lvl : appends (fun w => if inlit w then close_literal lvl w else w).
Proof. intros w H. destruct (inlit w); [apply appends_close_literal|apply appends_id]; exact H. Qed.
Lemma appends_wi lvl s : appends (wi_ lvl s).
Proof.
  unfold wi_. apply (appends_comp (fun w => raw (tabs lvl) (if inlit w then close_literal lvl w else w)) (raw s)); [|apply appends_raw].
  apply (appends_comp (fun w => if inlit w then close_literal lvl w else w) (raw (tabs lvl))); [apply appends_close_if|apply appends_raw].
Qed.
Lemma appends_wr s : appends (wr_ s).
Proof. unfold wr_. apply (appends_comp (fun w => if inlit w then close_literal 0 w else w) (raw s)); [apply appends_close_if|apply appends_raw]. Qed.
Lemma appends_wl s : appends (wl_ s).
Proof. intros w H. split; [exact H|]. exists []. rewrite app_nil_r. reflexivity. Qed.

Lemma writer_position :
  wf rw0 /\
  forall w, wf w ->
    (forall s, wf (raw s w)) /\ (forall lvl, wf (close_literal lvl w)) /\ (forall lvl s, wf (wi_ lvl s w)) /\
    (forall s, wf (wr_ s w)) /\ (forall s, wf (wl_ s w)).
Proof.
  split; [exact wf_rw0|]. intros w H. repeat split; intros.
  - apply wf_raw; exact H.
  - apply appends_close_literal; exact H.
  - apply appends_wi; exact H.
  - apply appends_wr; exact H.
  - apply appends_wl; exact H.
Qed.
(* the invariant read through the specification's pos_of: Current is the position of the first byte written next *)
Lemma wf_pos_of w rest : wf w -> cur w = pos_of (outtext w ++ rest) (N.of_nat (length (outtext w))).
Proof. intros H. rewrite pos_of_app. exact H. Qed.

(* inlit after the operations *)
Lemma inlit_raw s w : inlit (raw s w) = inlit w.
Proof. reflexivity. Qed.
Lemma inlit_close lvl w : inlit (close_literal lvl w) = false.
Proof. reflexivity. Qed.
Lemma inlit_close_if lvl w : inlit (if inlit w then close_literal lvl w else w) = false.
Proof. destruct (inlit w) eqn:E; [reflexivity|exact E]. Qed.
Lemma inlit_wi lvl s w : inlit (wi_ lvl s w) = false.
Proof. unfold wi_. rewrite !inlit_raw. apply inlit_close_if. Qed.
Lemma inlit_wr s w : inlit (wr_ s w) = false.
Proof. unfold wr_. rewrite !inlit_raw. apply inlit_close_if. Qed.
Lemma wr_not_inlit s w : inlit w = false -> wr_ s w = raw s w.
Proof. unfold wr_. intros ->. reflexivity. Qed.

(* ================= expression writes ================= *)
(* generator: Write(e.Value) paired with sourceMap.Add(e, range) *)
Lemma wre_holds e g : wf (w g) ->
  exists pre, adds (wre e g) = (e, advance p0 pre) :: adds g
    /\ outtext (w (wre e g)) = pre ++ e_val e
    /\ (exists s, pre = outtext (w g) ++ s)
    /\ wf (w (wre e g)) /\ inlit (w (wre e g)) = false.
Proof.
  intros H. unfold wre.
  set (g1 := upd (fun w => if inlit w then close_literal 0 w else w) g).
  destruct (appends_close_if 0 (w g) H) as [H1 [s E]].
  assert (Hw1 : w g1 = (if inlit (w g) then close_literal 0 (w g) else w g)) by reflexivity.
  assert (I1 : inlit (w g1) = false) by (rewrite Hw1; apply inlit_close_if).
  exists (outtext (w g1)). cbn [add_map adds w wr upd].
  assert (W1 : wf (w g1)) by (rewrite Hw1; exact H1).
  rewrite (wr_not_inlit _ _ I1). rewrite outtext_raw. pose proof W1 as W1'. unfold wf in W1'. rewrite W1'.
  split; [reflexivity|]. split; [reflexivity|]. split; [exists s; rewrite Hw1; exact E|].
  split; [apply wf_raw; exact W1|]. rewrite inlit_raw. exact I1.
Qed.
(* generator: WriteIndent(level, s) whose returned range (after the tabs) is mapped to e *)
Lemma wie_holds lvl e s g : wf (w g) ->
  exists pre, adds (wie lvl e s g) = (e, advance p0 pre) :: adds g
    /\ outtext (w (wie lvl e s g)) = pre ++ s
    /\ (exists s0, pre = outtext (w g) ++ s0)
    /\ wf (w (wie lvl e s g)) /\ inlit (w (wie lvl e s g)) = false.
Proof.
  intros H. unfold wie.
  set (f1 := fun w => raw (tabs lvl) (if inlit w then close_literal lvl w else w)).
  assert (A1 : appends f1) by (apply (appends_comp (fun w => if inlit w then close_literal lvl w else w) (raw (tabs lvl))); [apply appends_close_if|apply appends_raw]).
  destruct (A1 (w g) H) as [H1 [s0 E]].
  exists (outtext (f1 (w g))). cbn [add_map adds w upd]. fold f1.
  rewrite outtext_raw. pose proof H1 as H1'. unfold wf in H1'. rewrite H1'.
  split; [reflexivity|]. split; [reflexivity|]. split; [exists s0; exact E|].
  split; [apply wf_raw; exact H1|]. rewrite inlit_raw. unfold f1. rewrite inlit_raw. apply inlit_close_if.
Qed.
(* the package clause of gen_all: written with Write, mapped with the position before the write *)
Lemma pkg_holds e s g : wf (w g) -> inlit (w g) = false ->
  let g' := add_map e (cur (w g)) (wr s g) in
  adds g' = (e, advance p0 (outtext (w g))) :: adds g /\ outtext (w g') = outtext (w g) ++ s /\ wf (w g') /\ inlit (w g') = false.
Proof.
  intros H I. cbn [add_map adds w wr upd]. rewrite (wr_not_inlit _ _ I), outtext_raw. pose proof H as H'. unfold wf in H'. rewrite H'.
  split; [reflexivity|]. split; [reflexivity|]. split; [apply wf_raw; exact H|]. rewrite inlit_raw. exact I.
Qed.

(* statement form used in props/C07.v: the generated text is pre ++ e.Value, the recorded position is the
   specification's position of offset |pre| of that text, and its index is |pre| *)
Lemma target_holds_expression_bytes e g : wf (w g) ->
  exists pre tp, adds (wre e g) = (e, tp) :: adds g
    /\ outtext (w (wre e g)) = pre ++ e_val e
    /\ tp = pos_of (outtext (w (wre e g))) (N.of_nat (length pre))
    /\ fst (fst tp) = N.of_nat (length pre)
    /\ wf (w (wre e g)).
Proof.
  intros H. destruct (wre_holds e g H) as (pre & A & B & _ & C & _).
  exists pre, (advance p0 pre). split; [exact A|]. split; [exact B|]. split; [rewrite B; symmetry; apply pos_of_app|].
  split; [rewrite advance_index; cbn [fst]; lia|exact C].
Qed.
Lemma target_holds_expression_bytes_indent lvl e s g : wf (w g) ->
  exists pre tp, adds (wie lvl e (e_val e ++ s) g) = (e, tp) :: adds g
    /\ outtext (w (wie lvl e (e_val e ++ s) g)) = pre ++ e_val e ++ s
    /\ tp = pos_of (outtext (w (wie lvl e (e_val e ++ s) g))) (N.of_nat (length pre))
    /\ fst (fst tp) = N.of_nat (length pre)
    /\ wf (w (wie lvl e (e_val e ++ s) g)).
Proof.
  intros H. destruct (wie_holds lvl e (e_val e ++ s) g H) as (pre & A & B & _ & C & _).
  exists pre, (advance p0 pre). split; [exact A|]. split; [exact B|]. split; [rewrite B; symmetry; apply pos_of_app|].
  split; [rewrite advance_index; cbn [fst]; lia|exact C].
Qed.
