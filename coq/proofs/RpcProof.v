(* C18 - proofs about model/Rpc.v: framing round trip over message sequences, totality,
   chunk stability; connection invariants under every schedule. *)
From Coq.Strings Require Import Byte String.
From Coq Require Import List Arith NArith Bool Lia.
Import ListNotations.
From V Require Import lib.Bytes model.Rpc spec.RpcWire spec.RpcCall.

(* ====================================================================================== *)
(*  Part 1.  framing                                                                      *)
(* ====================================================================================== *)
Section Framing.
Open Scope N_scope.

(* a byte that no TrimSpace step touches, from either side *)
Definition nsp (b : byte) : Prop :=
  is_space b = false /\ (forall c, sp2 b c = false) /\ (forall c d, sp3 b c d = false)
  /\ (forall c, sp2 c b = false) /\ (forall c d, sp3 d c b = false).

Lemma nsp_ascii b : (bN b <? 128) = true -> is_space b = false -> nsp b.
Proof.
  intros A S. destruct b; try discriminate A; try discriminate S;
    (repeat split; intros; unfold sp2, sp3, sp_e280; cbn; rewrite ?andb_false_r; reflexivity).
Qed.

Lemma dig_spec k : k < 10 ->
  is_digit (dig k) = true /\ bN (dig k) - 48 = k /\ nsp (dig k) /\ Byte.eqb (dig k) x0a = false.
Proof.
  intros H.
  assert (k = 0 \/ k = 1 \/ k = 2 \/ k = 3 \/ k = 4 \/ k = 5 \/ k = 6 \/ k = 7 \/ k = 8 \/ k = 9) as C by lia.
  repeat (destruct C as [-> | C];
          [split; [reflexivity|split; [reflexivity|split; [apply nsp_ascii; reflexivity|reflexivity]]]|]).
  subst. split; [reflexivity|split; [reflexivity|split; [apply nsp_ascii; reflexivity|reflexivity]]].
Qed.

(* parsing the decimal rendering gives the number back, whatever follows *)
Lemma parse_decf f : forall n t acc, n < 10 ^ N.of_nat f ->
  exists k, parse_digits (decf f n ++ t) acc = parse_digits t (acc * 10 ^ k + n).
Proof.
  induction f as [|f IH]; intros n t acc H.
  - cbn in H. assert (n = 0) by lia. subst. exists 0. cbn. f_equal; lia.
  - cbn [decf]. destruct (n <? 10) eqn:L.
    + apply N.ltb_lt in L. destruct (dig_spec n L) as [D1 [D2 _]]. exists 1. cbn [app parse_digits].
      rewrite D1. unfold dstep. rewrite D2. f_equal; lia.
    + apply N.ltb_ge in L. rewrite <- app_assoc.
      assert (Hq : n / 10 < 10 ^ N.of_nat f).
      { rewrite Nat2N.inj_succ, N.pow_succ_r' in H. apply N.div_lt_upper_bound; lia. }
      destruct (IH (n / 10) ([dig (n mod 10)] ++ t) acc Hq) as [k E]. rewrite E. cbn [app parse_digits].
      assert (M : n mod 10 < 10) by (apply N.mod_lt; lia). destruct (dig_spec _ M) as [D1 [D2 _]].
      rewrite D1. unfold dstep. rewrite D2.
      exists (k + 1). f_equal. rewrite N.pow_add_r. pose proof (N.div_mod n 10). lia.
Qed.

(* shape of a rendered number: digits only, each untouched by trimming and not a newline *)
Definition plain (b : byte) : Prop := is_digit b = true /\ nsp b /\ Byte.eqb b x0a = false.

Lemma decf_plain f n : (0 < f)%nat -> Forall plain (decf f n) /\ decf f n <> [].
Proof.
  revert n. induction f as [|f IH]; intros n Hf; [lia|]. cbn [decf]. destruct (n <? 10) eqn:L.
  - apply N.ltb_lt in L. destruct (dig_spec n L) as [D1 [_ [D3 D4]]]. split; [|discriminate].
    constructor; [split; [exact D1|split; [exact D3|exact D4]]|constructor].
  - apply N.ltb_ge in L. assert (M : n mod 10 < 10) by (apply N.mod_lt; lia).
    destruct (dig_spec _ M) as [D1 [_ [D3 D4]]].
    split; [|destruct (decf f (n / 10)); discriminate].
    apply Forall_app. split.
    + destruct f as [|f']; [constructor|]. apply IH. lia.
    + constructor; [split; [exact D1|split; [exact D3|exact D4]]|constructor].
Qed.

Lemma decf_last f n : exists Y k, decf (S f) n = Y ++ [dig k] /\ k < 10.
Proof.
  cbn [decf]. destruct (n <? 10) eqn:L.
  - apply N.ltb_lt in L. exists [], n. split; [reflexivity|exact L].
  - exists (decf f (n / 10)), (n mod 10). split; [reflexivity|apply N.mod_lt; lia].
Qed.

Lemma split_line_app a b : Forall (fun c => Byte.eqb c x0a = false) a ->
  split_line (a ++ x0a :: b) = Some (a ++ [x0a], b).
Proof.
  induction a as [|c a IH]; intros H; cbn [app split_line]; [reflexivity|].
  inversion H; subst. rewrite H2, (IH H3). reflexivity.
Qed.

Lemma split_colon_app a b : Forall (fun c => Byte.eqb c x3a = false) a ->
  split_colon (a ++ x3a :: b) = Some (a, b).
Proof.
  induction a as [|c a IH]; intros H; cbn [app split_colon]; [reflexivity|].
  inversion H; subst. rewrite H2, (IH H3). reflexivity.
Qed.

Lemma trim_l_nsp c r : nsp c -> trim_l (c :: r) = c :: r.
Proof.
  intros [S [A [B _]]]. destruct r as [|c' [|d' r2]]; cbn [trim_l]; rewrite S; try reflexivity;
    rewrite A; try reflexivity. rewrite B. reflexivity.
Qed.
Lemma trim_lr_nsp c r : nsp c -> trim_lr (c :: r) = c :: r.
Proof.
  intros [S [_ [_ [A B]]]]. destruct r as [|c' [|d' r2]]; cbn [trim_lr]; rewrite S; try reflexivity;
    rewrite A; try reflexivity. rewrite B. reflexivity.
Qed.

(* trimming  c :: m ++ [d] ++ CRLF  where c and d are untouched bytes *)
Lemma trim_line c m d : nsp c -> nsp d -> trim ((c :: m ++ [d]) ++ crlf) = c :: m ++ [d].
Proof.
  intros Hc Hd. unfold trim, rev'. rewrite <- !rev_alt. rewrite <- app_comm_cons. rewrite trim_l_nsp by exact Hc.
  change (c :: (m ++ [d]) ++ crlf) with (((c :: m) ++ [d]) ++ crlf).
  rewrite !rev_app_distr. change (rev crlf) with [x0a; x0d]. change (rev [d]) with [d].
  cbn [app].
  assert (E : forall X, trim_lr (x0a :: x0d :: X) = trim_lr X) by reflexivity.
  rewrite E. rewrite trim_lr_nsp by exact Hd.
  change (d :: rev (c :: m)) with (rev [d] ++ rev (c :: m)). rewrite <- rev_app_distr, rev_involutive.
  reflexivity.
Qed.

Lemma trim_crlf : trim crlf = [].
Proof. reflexivity. Qed.

Lemma parse_int32_digits b r : is_digit b = true ->
  parse_int32 (b :: r) =
  match parse_digits (b :: r) 0 with
  | Some n => if n <=? 2147483647 then Some (false, n) else None
  | None => None end.
Proof. intros H. destruct b; try discriminate H; reflexivity. Qed.

Lemma hdr_no_nl : Forall (fun c => Byte.eqb c x0a = false) (hdr_name ++ [x3a; x20]).
Proof. repeat constructor. Qed.
Lemma hdr_no_colon : Forall (fun c => Byte.eqb c x3a = false) hdr_name.
Proof. repeat constructor. Qed.

(* the header loop on a well-formed header, generic in the digit string D *)
Lemma headers_ok D Y k n tail fu len0 :
  Forall plain D -> D = Y ++ [dig k] -> k < 10 -> D <> [] ->
  parse_digits D 0 = Some n -> 0 < n -> n <= 2147483647 ->
  headers (S (S fu)) (hdr_name ++ [x3a; x20] ++ D ++ crlf ++ crlf ++ tail) len0 = HOk n tail.
Proof.
  intros Dp DY Hk Dne Pd Hn0 Hn1.
  destruct (dig_spec k Hk) as [_ [_ [K3 K4]]].
  assert (NoNl : Forall (fun c => Byte.eqb c x0a = false) ((hdr_name ++ [x3a; x20]) ++ D ++ [x0d])).
  { apply Forall_app. split; [exact hdr_no_nl|]. apply Forall_app. split; [|repeat constructor].
    eapply Forall_impl; [|exact Dp]. intros a [_ [_ Z]]. exact Z. }
  assert (E1 : hdr_name ++ [x3a; x20] ++ D ++ crlf ++ crlf ++ tail
               = ((hdr_name ++ [x3a; x20]) ++ D ++ [x0d]) ++ x0a :: (crlf ++ tail)).
  { unfold crlf. rewrite <- !app_assoc. cbn [app]. reflexivity. }
  rewrite E1. cbn [headers]. rewrite (split_line_app _ _ NoNl).
  assert (E2 : ((hdr_name ++ [x3a; x20]) ++ D ++ [x0d]) ++ [x0a]
               = (x43 :: (tl hdr_name ++ [x3a; x20] ++ Y) ++ [dig k]) ++ crlf).
  { rewrite DY. unfold crlf, hdr_name. cbn [bs list_byte_of_string tl app]. rewrite <- !app_assoc.
    cbn [app]. reflexivity. }
  rewrite E2. rewrite trim_line; [|apply nsp_ascii; reflexivity|exact K3].
  assert (E3 : x43 :: (tl hdr_name ++ [x3a; x20] ++ Y) ++ [dig k] = hdr_name ++ x3a :: x20 :: D).
  { rewrite DY. unfold hdr_name. cbn [bs list_byte_of_string tl app]. rewrite <- !app_assoc. reflexivity. }
  assert (SC : split_colon (hdr_name ++ x3a :: x20 :: D) = Some (hdr_name, x20 :: D))
    by (apply split_colon_app; exact hdr_no_colon).
  rewrite <- E3 in SC. cbv iota. rewrite SC. rewrite bytes_eqb_refl.
  destruct D as [|d0 D']; [congruence|].
  inversion Dp as [|? ? P0 _]; subst. destruct P0 as [Dg [Ds _]].
  assert (Tv : trim (x20 :: d0 :: D') = d0 :: D').
  { unfold trim, rev'. rewrite <- !rev_alt. assert (E : forall X, trim_l (x20 :: X) = trim_l X) by reflexivity. rewrite E.
    rewrite trim_l_nsp by exact Ds. rewrite DY. rewrite rev_app_distr. change (rev [dig k]) with [dig k].
    cbn [app]. rewrite trim_lr_nsp by exact K3.
    change (dig k :: rev Y) with (rev [dig k] ++ rev Y). rewrite <- rev_app_distr, rev_involutive. reflexivity. }
  rewrite Tv. rewrite parse_int32_digits by exact Dg. rewrite Pd.
  assert (n <=? 2147483647 = true) as -> by (apply N.leb_le; lia).
  assert (0 <? n = true) as -> by (apply N.ltb_lt; exact Hn0).
  cbn [headers]. change (split_line (crlf ++ tail)) with (Some (crlf, tail)). cbv iota.
  rewrite trim_crlf. reflexivity.
Qed.

(* the reader finds in the header written for p the number of BYTES of p, whatever follows the header *)
Lemma header_counts_bytes_gen p tail : payload_ok p ->
  headers (S (length (frame_header p ++ tail))) (frame_header p ++ tail) 0 = HOk (N.of_nat (length p)) tail.
Proof.
  intros [Hne Hlen]. set (n := N.of_nat (length p)) in *.
  assert (Hn0 : 0 < n) by (destruct p; [congruence|unfold n; cbn [length]; lia]).
  unfold frame_header. fold n. unfold dec10.
  assert (Hpow : n < 10 ^ N.of_nat 20) by (change (10 ^ N.of_nat 20) with 100000000000000000000; lia).
  remember 20%nat as F eqn:EF. assert (HF : (0 < F)%nat) by lia.
  destruct (decf_plain F n HF) as [Dp Dne].
  destruct F as [|f]; [lia|]. destruct (decf_last f n) as [Y [k [DY Hk]]].
  destruct (parse_decf (S f) n [] 0 Hpow) as [kk E]. rewrite app_nil_r in E. cbn [parse_digits] in E.
  replace (0 * 10 ^ kk + n) with n in E by lia.
  set (D := decf (S f) n) in *. clearbody D. clear EF.
  assert (E1 : (hdr_name ++ [x3a; x20] ++ D ++ crlf ++ crlf) ++ tail
               = hdr_name ++ [x3a; x20] ++ D ++ crlf ++ crlf ++ tail)
    by (rewrite <- !app_assoc; reflexivity).
  rewrite E1.
  assert (exists fu, length (hdr_name ++ [x3a; x20] ++ D ++ crlf ++ crlf ++ tail) = S fu) as [fu Efu].
  { unfold hdr_name. cbn [bs list_byte_of_string app length]. eexists; reflexivity. }
  rewrite Efu. apply (headers_ok D Y k n tail fu 0 Dp DY Hk Dne E Hn0). lia.
Qed.

Lemma header_counts_bytes p rest : payload_ok p ->
  headers (S (length (frame p ++ rest))) (frame p ++ rest) 0 = HOk (N.of_nat (length p)) (p ++ rest).
Proof.
  intros H. unfold frame. rewrite <- app_assoc. apply header_counts_bytes_gen. exact H.
Qed.

(* a header alone: the reader waits for the body *)
Lemma read_frame_header_only p : payload_ok p -> read_frame (frame_header p) = RNeedMore.
Proof.
  intros H. unfold read_frame. pose proof (header_counts_bytes_gen p [] H) as E. rewrite app_nil_r in E.
  rewrite E. destruct H as [Hne Hlen].
  assert (N.of_nat (length p) =? 0 = false) as ->.
  { apply N.eqb_neq. destruct p; [congruence|cbn [length]; lia]. }
  cbn [length].
  assert (N.of_nat 0 <? N.of_nat (length p) = true) as -> by (apply N.ltb_lt; destruct p; [congruence|cbn [length]; lia]).
  reflexivity.
Qed.

Lemma frames_roundtrip1 p rest : payload_ok p -> read_frame (frame p ++ rest) = ROk p rest.
Proof.
  intros H. unfold read_frame. rewrite (header_counts_bytes p rest H). destruct H as [Hne Hlen].
  assert (N.of_nat (length p) =? 0 = false) as ->.
  { apply N.eqb_neq. destruct p; [congruence|cbn [length]; lia]. }
  rewrite app_length.
  assert (N.of_nat (length p + length rest) <? N.of_nat (length p) = false) as -> by (apply N.ltb_ge; lia).
  rewrite Nat2N.id. rewrite firstn_app, firstn_all, Nat.sub_diag. cbn [firstn]. rewrite app_nil_r.
  rewrite skipn_app, skipn_all, Nat.sub_diag. reflexivity.
Qed.

Lemma read_frame_nil : read_frame [] = RNeedMore.
Proof. reflexivity. Qed.

Lemma frame_nonempty p : (1 <= length (frame p))%nat.
Proof. unfold frame, frame_header. rewrite !app_length. unfold hdr_name. cbn [bs list_byte_of_string length]. lia. Qed.

Lemma read_all_frames msgs : forall fuel rest,
  Forall payload_ok msgs -> (length msgs < fuel)%nat ->
  read_all fuel (concat (map frame msgs) ++ rest) =
  (let '(l, e) := read_all (fuel - length msgs) rest in (msgs ++ l, e)).
Proof.
  induction msgs as [|p msgs IH]; intros fuel rest Hok Hf.
  - cbn [map concat app length]. rewrite Nat.sub_0_r. destruct (read_all fuel rest). reflexivity.
  - inversion Hok; subst. cbn [map concat length] in *. destruct fuel as [|f]; [lia|].
    cbn [read_all]. rewrite <- app_assoc. rewrite frames_roundtrip1 by assumption.
    rewrite IH by (try assumption; lia). cbn [Nat.sub].
    destruct (read_all (f - length msgs) rest). reflexivity.
Qed.

Lemma frames_len msgs : (length msgs <= length (concat (map frame msgs)))%nat.
Proof.
  induction msgs as [|p m IH]; cbn [map concat length]; [lia|]. rewrite app_length.
  pose proof (frame_nonempty p). lia.
Qed.

(* every sequence of messages is read back as the same sequence, then a clean end of input *)
Theorem frames_roundtrip msgs : Forall payload_ok msgs ->
  read_stream (concat (map frame msgs)) = (msgs, EndEof).
Proof.
  intros H. unfold read_stream.
  pose proof (frames_len msgs) as L.
  pose proof (read_all_frames msgs (S (length (concat (map frame msgs)))) [] H) as R.
  rewrite app_nil_r in R. rewrite R by lia.
  destruct (S (length (concat (map frame msgs))) - length msgs)%nat eqn:E; [lia|].
  cbn [read_all]. rewrite read_frame_nil. rewrite app_nil_r. reflexivity.
Qed.

(* ---------- totality: fuel is never exhausted, every frame consumes input ---------- *)
Lemma split_line_len s l r : split_line s = Some (l, r) -> s = l ++ r /\ l <> [].
Proof.
  revert l r. induction s as [|b s IH]; intros l r H; cbn [split_line] in H; [discriminate|].
  destruct (Byte.eqb b x0a).
  - inversion H; subst. split; [reflexivity|discriminate].
  - destruct (split_line s) as [[l' t]|] eqn:E; [|discriminate]. inversion H; subst.
    destruct (IH l' r eq_refl) as [-> _]. split; [reflexivity|discriminate].
Qed.

Lemma headers_total : forall fuel s len, (length s < fuel)%nat ->
  match headers fuel s len with
  | HOk _ rest => exists h, s = h ++ rest /\ h <> []
  | HFuel => False
  | _ => True
  end.
Proof.
  induction fuel as [|f IH]; intros s len Hf; [lia|]. cbn [headers].
  destruct (split_line s) as [[line rest]|] eqn:SL; [|exact I].
  destruct (split_line_len _ _ _ SL) as [Es Hl].
  assert (Lr : (length rest < f)%nat).
  { subst s. rewrite app_length in Hf. destruct line; [congruence|cbn [length] in Hf; lia]. }
  assert (Rec : forall len', match headers f rest len' with
                             | HOk _ rest' => exists h, s = h ++ rest' /\ h <> []
                             | HFuel => False | _ => True end).
  { intros len'. pose proof (IH rest len' Lr) as R. destruct (headers f rest len'); try exact R.
    destruct R as [h [E Hh]]. exists (line ++ h). split; [subst s rest; rewrite app_assoc; reflexivity|].
    destruct line; [congruence|discriminate]. }
  destruct (trim line) as [|l0 l]; [exists line; split; assumption|].
  destruct (split_colon (l0 :: l)) as [[name value]|]; [|exact I].
  destruct (bytes_eqb name hdr_name); [|apply Rec].
  destruct (parse_int32 (trim value)) as [[[|] n]|]; try exact I.
  destruct (0 <? n); [apply Rec|exact I].
Qed.

Theorem read_frame_total s :
  match read_frame s with
  | ROk p rest => exists h, s = h ++ p ++ rest /\ h <> [] /\ p <> []
  | RFuel => False
  | RNeedMore | RErr _ => True
  end.
Proof.
  unfold read_frame. pose proof (headers_total (S (length s)) s 0 (Nat.lt_succ_diag_r _)) as H.
  destruct (headers (S (length s)) s 0) as [n rest| |e|]; try exact H.
  destruct (n =? 0) eqn:E0; [exact I|]. apply N.eqb_neq in E0.
  destruct (N.of_nat (length rest) <? n) eqn:L; [exact I|]. apply N.ltb_ge in L.
  destruct H as [h [Es Hh]]. exists h. rewrite firstn_skipn. split; [exact Es|split; [exact Hh|]].
  intros Z. apply (f_equal (@length byte)) in Z. rewrite firstn_length_le in Z by lia. cbn in Z. lia.
Qed.

Lemma read_all_total : forall fuel s, (length s < fuel)%nat -> snd (read_all fuel s) <> EndFuel.
Proof.
  induction fuel as [|f IH]; intros s Hf; [lia|]. cbn [read_all].
  pose proof (read_frame_total s) as T. destruct (read_frame s) as [p rest| |e|].
  - destruct T as [h [Es [Hh Hp]]].
    assert (Lr : (length rest < f)%nat).
    { subst s. rewrite !app_length in Hf. destruct h; [congruence|cbn [length] in Hf; lia]. }
    pose proof (IH rest Lr) as R. destruct (read_all f rest). exact R.
  - destruct s; discriminate.
  - discriminate.
  - contradiction.
Qed.

Theorem read_stream_total s : snd (read_stream s) <> EndFuel.
Proof. apply read_all_total. lia. Qed.

(* ---------- chunk stability: what has been decided on a prefix is not changed by later bytes ---------- *)
Lemma split_line_more s t l r : split_line s = Some (l, r) -> split_line (s ++ t) = Some (l, r ++ t).
Proof.
  revert l r. induction s as [|b s IH]; intros l r H; cbn [split_line app] in *; [discriminate|].
  destruct (Byte.eqb b x0a); [inversion H; subst; reflexivity|].
  destruct (split_line s) as [[l' t']|] eqn:E; [|discriminate]. inversion H; subst.
  rewrite (IH l' r eq_refl). reflexivity.
Qed.

Lemma headers_more t : forall f1 s len f2, (f1 <= f2)%nat ->
  match headers f1 s len with
  | HOk n rest => headers f2 (s ++ t) len = HOk n (rest ++ t)
  | HErr e => headers f2 (s ++ t) len = HErr e
  | _ => True
  end.
Proof.
  induction f1 as [|f IH]; intros s len f2 Hf; [exact I|]. destruct f2 as [|g]; [lia|]. cbn [headers].
  destruct (split_line s) as [[line rest]|] eqn:SL; [|exact I].
  rewrite (split_line_more _ t _ _ SL).
  destruct (trim line) as [|l0 l]; [reflexivity|].
  destruct (split_colon (l0 :: l)) as [[name value]|]; [|reflexivity].
  assert (Rec : forall len', match headers f rest len' with
                             | HOk n rest' => headers g (rest ++ t) len' = HOk n (rest' ++ t)
                             | HErr e => headers g (rest ++ t) len' = HErr e | _ => True end)
    by (intros len'; apply IH; lia).
  destruct (bytes_eqb name hdr_name); [|apply Rec].
  destruct (parse_int32 (trim value)) as [[[|] n]|]; try reflexivity.
  destruct (0 <? n); [apply Rec|reflexivity].
Qed.

Theorem read_frame_stable s t :
  match read_frame s with
  | ROk p rest => read_frame (s ++ t) = ROk p (rest ++ t)
  | RErr e => read_frame (s ++ t) = RErr e
  | _ => True
  end.
Proof.
  unfold read_frame.
  pose proof (headers_more t (S (length s)) s 0 (S (length (s ++ t)))) as H.
  rewrite app_length in H. specialize (H ltac:(lia)). rewrite <- app_length in H.
  destruct (headers (S (length s)) s 0) as [n rest| |e|]; try exact I.
  - rewrite H. destruct (n =? 0); [reflexivity|].
    destruct (N.of_nat (length rest) <? n) eqn:L; [exact I|]. apply N.ltb_ge in L.
    rewrite app_length.
    assert (N.of_nat (length rest + length t) <? n = false) as -> by (apply N.ltb_ge; lia).
    rewrite firstn_app, skipn_app.
    replace (N.to_nat n - length rest)%nat with 0%nat by lia. cbn [firstn skipn]. rewrite app_nil_r. reflexivity.
  - rewrite H. reflexivity.
Qed.

(* ---------- a frame cut short: the reader waits, whatever the cut ---------- *)
Lemma frame_cut_needs_more p k : payload_ok p -> (k < length (frame p))%nat ->
  read_frame (firstn k (frame p)) = RNeedMore.
Proof.
  intros OK Hk.
  pose proof (read_frame_stable (firstn k (frame p)) (skipn k (frame p))) as ST.
  rewrite firstn_skipn in ST.
  pose proof (frames_roundtrip1 p [] OK) as RT. rewrite app_nil_r in RT.
  pose proof (read_frame_total (firstn k (frame p))) as TT.
  assert (NE : skipn k (frame p) <> []).
  { intros Z. apply (f_equal (@length byte)) in Z. rewrite skipn_length in Z. cbn [length] in Z. lia. }
  destruct (read_frame (firstn k (frame p))) as [q rest| |e|]; [| reflexivity | |destruct TT].
  - rewrite RT in ST. injection ST as E1 E2. symmetry in E2. apply app_eq_nil in E2. destruct E2 as [_ E2]. destruct (NE E2).
  - rewrite RT in ST. discriminate ST.
Qed.

(* complete frames followed by bytes on which the reader waits *)
Lemma read_stream_frames_then msgs X : Forall payload_ok msgs -> read_frame X = RNeedMore ->
  read_stream (concat (map frame msgs) ++ X) = (msgs, match X with [] => EndEof | _ => EndTrunc end).
Proof.
  intros OK NM. unfold read_stream. pose proof (frames_len msgs) as LN.
  rewrite read_all_frames by (try assumption; rewrite app_length; lia).
  destruct (S (length (concat (map frame msgs) ++ X)) - length msgs)%nat eqn:E; [rewrite app_length in E; lia|].
  cbn [read_all]. rewrite NM. rewrite app_nil_r. reflexivity.
Qed.

End Framing.

(* ====================================================================================== *)
(*  Part 2.  the connection: invariants of every reachable state                          *)
(* ====================================================================================== *)
Section Conn.
Opaque frame_header.

Definition holds (p : pc) : bool := is_pc p PLocked || is_pc p PHeader || is_pc p PBody.
Definition reg (p : pc) : bool := is_pc p PReady || holds p || is_pc p PWait || is_pc p PSel.
Definition has_id (th : thread) : bool := is_call th && negb (is_pc (t_pc th) PStart).
Definition call_result (o : option result) : bool :=
  match o with Some (Got _) | Some Cancelled | Some WriteFailed | Some TransportErr => true | _ => false end.

Record inv (s : state) : Prop := {
  i_wire : wire s = concat (map frame (sent s)) ++ partial s;
  i_lock : forall t, holds (t_pc (threads s t)) = true <-> lock s = Some t;
  i_chan : forall t r, t_chan (threads s t) = Some r -> fst r = t_id (threads s t) /\ has_id (threads s t) = true;
  i_run : forall r t, run s = Some (r, t) -> fst r = t_id (threads s t) /\ has_id (threads s t) = true;
  i_ret : forall t, match t_ret (threads s t) with
                    | Some (Got r) => fst r = t_id (threads s t) /\ has_id (threads s t) = true
                    | Some Cancelled | Some WriteFailed => t_ctx (threads s t) = true
                    | Some TransportErr => down s = true
                    | _ => True end;
  i_pend : forall id t, In (id, t) (pending s) <->
             (is_call (threads s t) && reg (t_pc (threads s t)) = true /\ t_id (threads s t) = id);
  i_uniq : forall t1 t2, has_id (threads s t1) = true -> has_id (threads s t2) = true ->
             t_id (threads s t1) = t_id (threads s t2) -> t1 = t2;
  i_ids : forall t, has_id (threads s t) = true -> 1 <= t_id (threads s t) <= next_id s;
  i_done : forall t, is_call (threads s t) = true ->
             is_pc (t_pc (threads s t)) PSel || is_pc (t_pc (threads s t)) PDone = true ->
             call_result (t_ret (threads s t)) = true;
  i_kind : forall t, is_pc (t_pc (threads s t)) PWait || is_pc (t_pc (threads s t)) PSel = true ->
             is_call (threads s t) = true
}.

Lemma is_pc_eq p q : is_pc p q = true -> p = q.
Proof. destruct p, q; try discriminate; reflexivity. Qed.

Lemma nth_mk prog t :
  nth t (map mk_thread prog) dead = dead \/ exists kp, nth t (map mk_thread prog) dead = mk_thread kp.
Proof.
  revert t. induction prog as [|kp prog IH]; intros t; cbn [map nth].
  - left. destruct t; reflexivity.
  - destruct t as [|t]; [right; exists kp; reflexivity|apply IH].
Qed.

Lemma inv_init prog : inv (init prog).
Proof.
  assert (T : forall t, let th := nth t (map mk_thread prog) dead in
            t_chan th = None /\ t_ret th = None /\ has_id th = false /\ holds (t_pc th) = false
            /\ (is_call th = true -> t_pc th = PStart)).
  { intros t. destruct (nth_mk prog t) as [->|[[k p] ->]].
    - cbn. repeat split; try reflexivity. discriminate.
    - destruct k; cbn; repeat split; try reflexivity; discriminate. }
  cbv zeta in T.
  constructor; unfold partial; cbn [init threads wire sent pending lock run next_id].
  - reflexivity.
  - intros t. destruct (T t) as [_ [_ [_ [H _]]]]. rewrite H. split; discriminate.
  - intros t r H. destruct (T t) as [C _]. congruence.
  - discriminate.
  - intros t. destruct (T t) as [_ [R _]]. rewrite R. exact I.
  - intros id t. split; [intros []|]. intros [H _]. destruct (T t) as [_ [_ [_ [_ P]]]].
    apply andb_prop in H as [H1 H2]. rewrite (P H1) in H2. discriminate.
  - intros t1 t2 H. destruct (T t1) as [_ [_ [X _]]]. congruence.
  - intros t H. destruct (T t) as [_ [_ [X _]]]. congruence.
  - intros t H1 H2. destruct (T t) as [_ [_ [_ [_ P]]]]. rewrite (P H1) in H2. discriminate.
  - intros t H. destruct (nth_mk prog t) as [E|[[k p] E]]; rewrite E in *; [discriminate H|destruct k; [reflexivity|discriminate H]].
Qed.


Lemma is_call_true th : is_call th = true -> t_kind th = KCall.
Proof. unfold is_call. destruct (t_kind th); [reflexivity|discriminate]. Qed.

Ltac split_hyps :=
  repeat match goal with
  | H : _ && _ = true |- _ => apply andb_prop in H; destruct H
  | H : is_pc _ _ = true |- _ => apply is_pc_eq in H
  | H : is_call _ = true |- _ => apply is_call_true in H
  end.

Ltac inv_step H :=
  cbn [step] in H;
  repeat match type of H with
  | match ?c with _ => _ end = Some _ => let E := fresh "E" in destruct c eqn:E; try discriminate H
  end;
  inversion H; subst; clear H; split_hyps.

Ltac proj := unfold failed in *;
             cbn [threads pending lock wire sent next_id run down torn senders closed with_threads
                  t_kind t_pc t_id t_payload t_chan t_ctx t_ret set_pc] in *.

Lemma upd_same f t v : upd f t v t = v.
Proof. unfold upd. rewrite Nat.eqb_refl. reflexivity. Qed.
Lemma upd_other f t v x : x <> t -> upd f t v x = f x.
Proof. unfold upd. intros H. destruct (Nat.eqb_spec x t); [contradiction|reflexivity]. Qed.

(* case split a thread index against the acting thread *)
Ltac cases_t x t :=
  destruct (Nat.eq_dec x t) as [?|?]; [subst x; rewrite ?upd_same in *|rewrite ?upd_other in * by assumption].


Ltac rw_facts :=
  repeat match goal with
  | H : t_pc (threads _ _) = _ |- _ => rewrite H in *
  | H : lock _ = _ |- _ => rewrite H in *
  | H : run _ = _ |- _ => rewrite H in *
  | H : t_chan (threads _ _) = _ |- _ => rewrite H in *
  | H : t_ctx (threads _ _) = _ |- _ => rewrite H in *
  | H : t_kind (threads _ _) = _ |- _ => rewrite H in *
  end.
Ltac norm := unfold has_id, is_call in *; proj; rw_facts; cbn [is_pc holds reg has_id negb andb orb call_result fst snd] in *.

Ltac split_down := match goal with |- context [down ?x] => let DN := fresh "DN" in destruct (down x) eqn:DN end.

Lemma step_wire s a s' : inv s -> step s a = Some s' -> wire s' = concat (map frame (sent s')) ++ partial s'.
Proof.
  intros I H. pose proof (i_wire s I) as W. pose proof (i_lock s I) as L. clear I.
  destruct a; inv_step H;
  try (assert (LK : lock s = Some t) by (apply L; norm; reflexivity)); clear L;
  unfold partial in *; norm; rewrite ?upd_same; norm;
  split_down; cbn [negb] in *; try discriminate; try assumption;
  try (destruct (lock s) as [t0|]; [cases_t t0 t|]; norm);
  try (destruct (lock s) as [t0|]; [cases_t t0 n|]; norm);
  rewrite ?map_app, ?concat_app; cbn [map concat]; rewrite ?app_nil_r in *;
  try assumption; try (rewrite W; reflexivity);
  try (rewrite W; unfold frame; rewrite <- ?app_assoc; reflexivity).
Qed.

Lemma step_lock s a s' : inv s -> step s a = Some s' -> forall t, holds (t_pc (threads s' t)) = true <-> lock s' = Some t.
Proof.
  intros I H x. pose proof (i_lock s I) as L. clear I.
  destruct a; inv_step H; try (pose proof (L x) as Lx); try (pose proof (L t) as Lt);
  try (assert (LK : lock s = Some t) by (apply L; norm; reflexivity)); clear L;
  norm; try (cases_t x t); try (cases_t x n); norm; try assumption; try tauto;
  try (destruct (t_kind (threads s t)) eqn:K); norm;
  try (intuition congruence).
Qed.

Lemma step_chan s a s' : inv s -> step s a = Some s' ->
  forall x r, t_chan (threads s' x) = Some r -> fst r = t_id (threads s' x) /\ has_id (threads s' x) = true.
Proof.
  intros I H x r. pose proof (i_chan s I x r) as C. pose proof (i_run s I) as R. clear I.
  destruct a; inv_step H; try (pose proof (R _ _ eq_refl) as Rn); clear R;
  norm; try (cases_t x t); try (cases_t x n); norm; try assumption;
  try (destruct (t_kind (threads s t)) eqn:K); norm; try assumption;
  try discriminate;
  try (intros Q; destruct (C Q); discriminate);
  try (intros Q; inversion Q; subst; assumption).
Qed.

Lemma lookup_in id l v : lookup id l = Some v -> In (id, v) l.
Proof.
  induction l as [|[k x] r IH]; cbn; [discriminate|]. destruct (Nat.eqb_spec k id).
  - intros H; inversion H; subst; left; reflexivity.
  - intros H; right; apply IH; exact H.
Qed.
Lemma reg_has_id th : is_call th && reg (t_pc th) = true -> has_id th = true.
Proof. unfold has_id. intros H. apply andb_prop in H as [H1 H2]. rewrite H1. destruct (t_pc th); try discriminate; reflexivity. Qed.

Lemma step_run s a s' : inv s -> step s a = Some s' ->
  forall r x, run s' = Some (r, x) -> fst r = t_id (threads s' x) /\ has_id (threads s' x) = true.
Proof.
  intros I H r x. pose proof (i_run s I r x) as R. pose proof (i_pend s I) as P. clear I.
  destruct a; inv_step H;
  norm; try (cases_t x t); try (cases_t x n); norm; try assumption;
  try (destruct (t_kind (threads s t)) eqn:K); norm; try assumption;
  try discriminate;
  try (intros Q; destruct (R Q); discriminate);
  try (intros Q; inversion Q; subst;
       match goal with HL : lookup _ _ = Some _ |- _ => apply lookup_in in HL; apply P in HL; destruct HL as [A B] end;
       split; [symmetry; exact B|apply reg_has_id in A; exact A]).
Qed.

Lemma step_ret s a s' : inv s -> step s a = Some s' ->
  forall x, match t_ret (threads s' x) with
            | Some (Got r) => fst r = t_id (threads s' x) /\ has_id (threads s' x) = true
            | Some Cancelled | Some WriteFailed => t_ctx (threads s' x) = true
            | Some TransportErr => down s' = true
            | _ => True end.
Proof.
  intros I H x. pose proof (i_ret s I x) as R. pose proof (i_chan s I) as C. pose proof (i_done s I x) as D. clear I.
  destruct a; inv_step H;
  norm; try (cases_t x t); try (cases_t x n); norm; try assumption;
  try (destruct (t_kind (threads s t)) eqn:K); norm; try assumption; try reflexivity;
  try discriminate;
  try (destruct (t_ret (threads s t)) as [[]|]; try exact I; try reflexivity; try assumption;
       destruct R; discriminate);
  try (destruct (C _ _ E0) as [A B]; rewrite ?K, ?E in B; cbn in B; split; [exact A|first [reflexivity|discriminate B]]);
  try (destruct (t_ret (threads s x)) as [[]|]; try exact I; try reflexivity; assumption).
Qed.

Lemma step_done s a s' : inv s -> step s a = Some s' ->
  forall x, is_call (threads s' x) = true ->
    is_pc (t_pc (threads s' x)) PSel || is_pc (t_pc (threads s' x)) PDone = true ->
    call_result (t_ret (threads s' x)) = true.
Proof.
  intros I H x. pose proof (i_done s I x) as D. clear I.
  destruct a; inv_step H;
  norm; try (cases_t x t); try (cases_t x n); norm; try assumption;
  try (destruct (t_kind (threads s t)) eqn:K); norm; try assumption; try reflexivity;
  try discriminate; try (intros; discriminate); try (intros; reflexivity).
Qed.

Lemma step_ids s a s' : inv s -> step s a = Some s' ->
  forall x, has_id (threads s' x) = true -> 1 <= t_id (threads s' x) <= next_id s'.
Proof.
  intros I H x. pose proof (i_ids s I x) as D. clear I.
  destruct a; inv_step H;
  norm; try (cases_t x t); try (cases_t x n); norm; try assumption;
  try (destruct (t_kind (threads s t)) eqn:K); norm; try assumption;
  try discriminate; try (intros Q; try specialize (D Q); lia).
Qed.

Lemma step_uniq s a s' : inv s -> step s a = Some s' ->
  forall x y, has_id (threads s' x) = true -> has_id (threads s' y) = true ->
    t_id (threads s' x) = t_id (threads s' y) -> x = y.
Proof.
  intros I H x y. pose proof (i_uniq s I x y) as U. pose proof (i_ids s I) as D. clear I.
  destruct a; inv_step H;
  norm; try (cases_t x t); try (cases_t y t); try (cases_t x n); try (cases_t y n); norm; try assumption;
  try reflexivity; try (intros; reflexivity);
  try (destruct (t_kind (threads s t)) eqn:K); norm; try assumption; try (intros; discriminate);
  try (intros Q1 Q2 Q3; first [specialize (D _ Q1)|specialize (D _ Q2)]; lia).
Qed.

Lemma step_kind s a s' : inv s -> step s a = Some s' ->
  forall x, is_pc (t_pc (threads s' x)) PWait || is_pc (t_pc (threads s' x)) PSel = true ->
            is_call (threads s' x) = true.
Proof.
  intros I H x. pose proof (i_kind s I x) as D. clear I.
  destruct a; inv_step H;
  norm; try (cases_t x t); try (cases_t x n); norm; try assumption;
  try (destruct (t_kind (threads s t)) eqn:K); norm; try assumption; try reflexivity;
  try discriminate; try (intros; discriminate); try (intros; reflexivity);
  try (apply D; reflexivity).
Qed.

Lemma in_delete id k x l : In (k, x) (delete id l) <-> In (k, x) l /\ k <> id.
Proof.
  unfold delete. rewrite filter_In. cbn [fst]. split; intros [A B]; (split; [exact A|]).
  - destruct (Nat.eqb_spec k id); [discriminate|assumption].
  - destruct (Nat.eqb_spec k id); [contradiction|reflexivity].
Qed.

Lemma step_pend s a s' : inv s -> step s a = Some s' ->
  forall id x, In (id, x) (pending s') <->
    (is_call (threads s' x) && reg (t_pc (threads s' x)) = true /\ t_id (threads s' x) = id).
Proof.
  intros I H id x. pose proof (i_pend s I id x) as P. pose proof (i_uniq s I) as U.
  pose proof (i_kind s I) as KD. clear I.
  destruct a; inv_step H;
  norm; try (cases_t x t); try (cases_t x n); norm; try assumption;
  try (destruct (t_kind (threads s t)) eqn:K); norm; try assumption.
  1-2: split; [intros Q; apply P in Q; destruct Q; discriminate|intros [Q _]; discriminate].
  1-2: (split; [intros [Q|Q]; [inversion Q; auto|apply P in Q; destruct Q; discriminate]
               |intros [_ Q]; left; subst; reflexivity]).
  1-2: (cbn [In]; split; [intros [Q|Q]; [inversion Q; congruence|apply P; exact Q]
                         |intros Q; right; apply P; exact Q]).
  1-2: (rewrite in_delete; split; [intros [Q1 Q2]; apply P in Q1; destruct Q1 as [Q3 Q4]; first [discriminate Q3|congruence]
                                  |intros [Q _]; discriminate]).
  - rewrite in_delete. split; [intros [Q _]; apply P; exact Q|].
    intros Q. split; [apply P; exact Q|]. intros Eq. destruct Q as [Q1 Q2].
    apply n. apply U; [apply reg_has_id; exact Q1| |congruence].
    rewrite K, E. reflexivity.
  - specialize (KD t). rewrite E, K in KD. discriminate (KD eq_refl).
Qed.

Theorem step_inv s a s' : inv s -> step s a = Some s' -> inv s'.
Proof.
  intros I H. constructor.
  - eapply step_wire; eassumption.
  - eapply step_lock; eassumption.
  - eapply step_chan; eassumption.
  - eapply step_run; eassumption.
  - eapply step_ret; eassumption.
  - eapply step_pend; eassumption.
  - eapply step_uniq; eassumption.
  - eapply step_ids; eassumption.
  - eapply step_done; eassumption.
  - eapply step_kind; eassumption.
Qed.

Theorem reachable_inv prog tr : forall s, exec (init prog) tr = Some s -> inv s.
Proof.
  assert (G : forall tr s s', inv s -> exec s tr = Some s' -> inv s').
  { induction tr0 as [|a r IH]; intros s s' I H; cbn [exec] in H; [inversion H; subst; exact I|].
    destruct (step s a) as [s1|] eqn:S; [|discriminate]. eapply IH; [eapply step_inv; eassumption|exact H]. }
  intros s H. eapply G; [apply inv_init|exact H].
Qed.


(* ---------- every response a call holds was read off the wire by the loop ---------- *)
Definition reads_ok (Q : resp -> Prop) (a : action) : Prop := match a with ARead r => Q r | _ => True end.
Definition from_wire (Q : resp -> Prop) (s : state) : Prop :=
  (forall t r, t_chan (threads s t) = Some r -> Q r) /\
  (forall r t, run s = Some (r, t) -> Q r) /\
  (forall t r, t_ret (threads s t) = Some (Got r) -> Q r).

Lemma from_wire_init Q prog : from_wire Q (init prog).
Proof.
  unfold from_wire. cbn [init threads run]. repeat split; try discriminate.
  - intros t r H. destruct (nth_mk prog t) as [E|[[k p] E]]; rewrite E in H; discriminate H.
  - intros t r H. destruct (nth_mk prog t) as [E|[[k p] E]]; rewrite E in H; discriminate H.
Qed.

Lemma from_wire_step Q s a s' : from_wire Q s -> reads_ok Q a -> step s a = Some s' -> from_wire Q s'.
Proof.
  intros [C [R F]] HA H. unfold from_wire.
  destruct a; inv_step H; cbn [reads_ok] in HA; (split; [|split]); norm.
  all: try (intros x r0; cases_t x t; norm; try (destruct (t_kind (threads s t)) eqn:K); norm;
            intros Q0; try discriminate Q0; first [eapply C; eassumption|eapply F; eassumption|idtac]).
  all: try (intros r0 x Q0; try discriminate Q0; first [eapply R; eassumption|idtac]).
  all: try (inversion Q0; subst; first [eapply C; eassumption|eapply R; eassumption|assumption]).
  all: try (intros x r0; cases_t x n; norm; intros Q0; try discriminate Q0;
            first [eapply C; eassumption|eapply F; eassumption|inversion Q0; subst; eapply R; reflexivity]).
  all: try (eapply F; eassumption); try (eapply C; eassumption).
  all: cases_t r0 n; norm; try (eapply F; eassumption); try (eapply C; eassumption);
       try (inversion Q0; subst; eapply R; reflexivity).
Qed.

Lemma from_wire_exec Q : forall tr s s', from_wire Q s -> Forall (reads_ok Q) tr -> exec s tr = Some s' -> from_wire Q s'.
Proof.
  induction tr as [|a r IH]; intros s s' I F H; cbn [exec] in H; [inversion H; subst; exact I|].
  destruct (step s a) as [s1|] eqn:S; [|discriminate]. inversion F; subst.
  eapply IH; [eapply from_wire_step; eassumption|assumption|exact H].
Qed.

Lemma NoDup_app_one {A} (l : list A) (x : A) : NoDup l -> ~ In x l -> NoDup (l ++ [x]).
Proof.
  induction l as [|a l IH]; intros N Hx; cbn [app]; [constructor; [intros []|constructor]|].
  inversion N; subst. constructor.
  - rewrite in_app_iff. cbn [In]. intros [Q|[Q|[]]]; [contradiction|subst; apply Hx; left; reflexivity].
  - apply IH; [assumption|]. intros Q. apply Hx. right. exact Q.
Qed.

(* ---------- only payloads of the program reach the wire; what a failed Write leaves is a proper
   prefix of one frame ---------- *)
Definition payloads_ok (Q : bytes -> Prop) (s : state) : Prop :=
  (forall t, t_pc (threads s t) <> PDone -> Q (t_payload (threads s t))) /\ Forall Q (sent s) /\
  (down s = true -> exists p k, Q p /\ k < length (frame p) /\ torn s = firstn k (frame p)).

Lemma payloads_init Q prog : Forall Q (map snd prog) -> payloads_ok Q (init prog).
Proof.
  intros H. split; [|split; [constructor|discriminate]]. cbn [init threads]. intros t.
  revert t. induction prog as [|[k p] prog IH]; intros t; cbn [map nth].
  - destruct t; cbn; congruence.
  - inversion H; subst. destruct t as [|t]; [intros _; cbn; assumption|apply IH; assumption].
Qed.

Lemma torn_header p k : k < length (frame_header p) ->
  k < length (frame p) /\ firstn k (frame_header p) = firstn k (frame p).
Proof.
  intros H. unfold frame. rewrite app_length. split; [lia|].
  rewrite firstn_app. replace (k - length (frame_header p)) with 0 by lia. cbn [firstn]. rewrite app_nil_r. reflexivity.
Qed.
Lemma torn_body p k : k < length p ->
  length (frame_header p) + k < length (frame p) /\
  frame_header p ++ firstn k p = firstn (length (frame_header p) + k) (frame p).
Proof.
  intros H. unfold frame. rewrite app_length. split; [lia|]. rewrite firstn_app_2. reflexivity.
Qed.

Lemma payloads_step Q s a s' : payloads_ok Q s -> step s a = Some s' -> payloads_ok Q s'.
Proof.
  intros [P [F T]] H. unfold payloads_ok.
  destruct a; inv_step H; (split; [intros x; proj; try (cases_t x t); try (cases_t x n); norm;
     try (destruct (t_kind (threads s t)) eqn:K); norm; intros Q0; try congruence;
     try (apply P; congruence)|split; [norm; try assumption|norm; try assumption]]).
  - apply Forall_app. split; [assumption|]. constructor; [apply P; congruence|constructor].
  - intros _. destruct (down s) eqn:DN; [apply T; reflexivity|].
    match goal with HL : (_ <? _) = true |- _ => apply Nat.ltb_lt in HL; destruct (torn_header _ _ HL) as [A B] end.
    exists (t_payload (threads s t)), k. split; [apply P; congruence|split; assumption].
  - intros _. destruct (down s) eqn:DN; [apply T; reflexivity|].
    match goal with HL : (_ <? _) = true |- _ => apply Nat.ltb_lt in HL; destruct (torn_body _ _ HL) as [A B] end.
    exists (t_payload (threads s t)), (length (frame_header (t_payload (threads s t))) + k).
    split; [apply P; congruence|split; assumption].
Qed.

Lemma payloads_exec Q : forall tr s s', payloads_ok Q s -> exec s tr = Some s' -> payloads_ok Q s'.
Proof.
  induction tr as [|a r IH]; intros s s' I H; cbn [exec] in H; [inversion H; subst; exact I|].
  destruct (step s a) as [s1|] eqn:S; [|discriminate]. eapply IH; [eapply payloads_step; eassumption|exact H].
Qed.

(* ---------- which writes are on the wire: exactly those whose c.write returned nil ---------- *)
Definition early (p : pc) : bool := negb (is_pc p PSel || is_pc p PDone).

Record sinv (s : state) : Prop := {
  s_early : forall t, early (t_pc (threads s t)) = true -> t_ret (threads s t) = None;
  s_wrote : forall t, In t (senders s) <-> wrote (threads s t) = true;
  s_nodup : NoDup (senders s);
  s_sent : sent s = map (fun t => t_payload (threads s t)) (senders s)
}.

Lemma sinv_init prog : sinv (init prog).
Proof.
  assert (T : forall t, let th := nth t (map mk_thread prog) dead in t_ret th = None /\ wrote th = false).
  { intros t. destruct (nth_mk prog t) as [->|[[k p] ->]]; [split; reflexivity|destruct k; split; reflexivity]. }
  cbv zeta in T. constructor; cbn [init threads senders sent].
  - intros t _. apply T.
  - intros t. destruct (T t) as [_ W]. rewrite W. split; [intros []|discriminate].
  - constructor.
  - reflexivity.
Qed.

Lemma step_payload s a s' : step s a = Some s' -> forall x, t_payload (threads s' x) = t_payload (threads s x).
Proof.
  intros H x. destruct a; inv_step H; norm; try (cases_t x t); try (cases_t x n); norm;
    try (destruct (t_kind (threads s t)) eqn:K); norm; reflexivity.
Qed.

Lemma step_early s a s' : sinv s -> step s a = Some s' ->
  forall x, early (t_pc (threads s' x)) = true -> t_ret (threads s' x) = None.
Proof.
  intros I H x. pose proof (s_early s I x) as D. clear I. unfold early in *.
  destruct a; inv_step H;
  norm; try (cases_t x t); try (cases_t x n); norm; try assumption;
  try (destruct (t_kind (threads s t)) eqn:K); norm; try assumption;
  try discriminate; try (intros; discriminate); try (intros; apply D; reflexivity).
Qed.

Lemma step_wrote s a s' : sinv s -> step s a = Some s' ->
  forall x, In x (senders s') <-> wrote (threads s' x) = true.
Proof.
  intros I H x. pose proof (s_wrote s I x) as W. pose proof (s_early s I) as D. clear I. unfold wrote, early in *.
  destruct a; inv_step H;
  norm; try (cases_t x t); try (cases_t x n); norm; try assumption;
  try (specialize (D t); rewrite ?H, ?H0, ?E in D; cbn in D; specialize (D eq_refl));
  try (destruct (t_kind (threads s t)) eqn:K); norm; rw_facts; cbn [orb] in *; try assumption;
  try (rewrite D in W; cbn in W; exact W);
  try (rewrite in_app_iff; cbn [In]; tauto);
  try (rewrite in_app_iff; cbn [In]; split; [intros [Q|[Q|[]]]; [apply W; exact Q|congruence]|intros Q; left; apply W; exact Q]).
Qed.

Lemma step_nodup s a s' : sinv s -> step s a = Some s' -> NoDup (senders s').
Proof.
  intros I H. pose proof (s_nodup s I) as N. pose proof (s_wrote s I) as W. pose proof (s_early s I) as D. clear I.
  destruct a; inv_step H; norm; try assumption.
  apply NoDup_app_one; [exact N|]. intros Q. apply W in Q. unfold wrote in Q. rewrite H in Q.
  specialize (D t). unfold early in D. rewrite H in D. rewrite (D eq_refl) in Q. discriminate Q.
Qed.

Lemma step_sent s a s' : sinv s -> step s a = Some s' ->
  sent s' = map (fun t => t_payload (threads s' t)) (senders s').
Proof.
  intros I H. pose proof (s_sent s I) as N. clear I.
  rewrite (map_ext _ (fun t => t_payload (threads s t)) (step_payload s a s' H)).
  destruct a; inv_step H; norm; try assumption.
  rewrite map_app, N. reflexivity.
Qed.

Theorem step_sinv s a s' : sinv s -> step s a = Some s' -> sinv s'.
Proof.
  intros I H. constructor.
  - eapply step_early; eassumption.
  - eapply step_wrote; eassumption.
  - eapply step_nodup; eassumption.
  - eapply step_sent; eassumption.
Qed.

Theorem reachable_sinv prog tr : forall s, exec (init prog) tr = Some s -> sinv s.
Proof.
  assert (G : forall tr s s', sinv s -> exec s tr = Some s' -> sinv s').
  { induction tr0 as [|a r IH]; intros s s' I H; cbn [exec] in H; [inversion H; subst; exact I|].
    destruct (step s a) as [s1|] eqn:S; [|discriminate]. eapply IH; [eapply step_sinv; eassumption|exact H]. }
  intros s H. eapply G; [apply sinv_init|exact H].
Qed.
(* ---------- the end of the stream: what the observable history (the schedule) says about a state ---------- *)
(* the responses the read loop took off the stream, in order, up to the end of the stream *)
Fixpoint reads (tr : list action) : list resp :=
  match tr with
  | [] => []
  | ARead r :: l => r :: reads l
  | AEof :: _ => []
  | _ :: l => reads l
  end.
Definition is_ctx (t : nat) (a : action) : bool := match a with ACtx x => Nat.eqb x t | _ => false end.
Definition is_wfail (a : action) : bool := match a with AHeaderFail _ _ | ABodyFail _ _ => true | _ => false end.
Definition is_eof (a : action) : bool := match a with AEof => true | _ => false end.
Definition ctx_in (t : nat) (tr : list action) : bool := existsb (is_ctx t) tr.
Definition wfail_in (tr : list action) : bool := existsb is_wfail tr.
Definition eof_in (tr : list action) : bool := existsb is_eof tr.

Lemma step_closed s a s' : step s a = Some s' -> closed s' = closed s || is_eof a.
Proof.
  intros H. destruct a; inv_step H; norm; cbn [is_eof]; rewrite ?orb_false_r; try reflexivity; try assumption.
Qed.
Lemma step_read_open s r s' : step s (ARead r) = Some s' -> closed s = false.
Proof. intros H. inv_step H; reflexivity. Qed.
Lemma step_ctx s a s' x : step s a = Some s' -> t_ctx (threads s' x) = t_ctx (threads s x) || is_ctx x a.
Proof.
  intros H. destruct a; inv_step H; norm; cbn [is_ctx]; rewrite ?orb_false_r;
  try (cases_t x t); try (cases_t x n); norm; try (destruct (t_kind (threads s t)) eqn:K); norm;
  rewrite ?orb_false_r, ?orb_true_r, ?Nat.eqb_refl; try reflexivity.
  all: try (rewrite orb_true_r; reflexivity).
  all: destruct (Nat.eqb_spec t x); [congruence|rewrite orb_false_r; reflexivity].
Qed.
Lemma step_down s a s' : step s a = Some s' -> down s' = down s || is_wfail a.
Proof.
  intros H. destruct a; inv_step H; norm; cbn [is_wfail]; rewrite ?orb_false_r, ?orb_true_r; reflexivity.
Qed.

Lemma exec_closed : forall tr s s', exec s tr = Some s' -> closed s' = closed s || eof_in tr.
Proof.
  induction tr as [|a l IH]; intros s s' H; cbn [exec] in H.
  - inversion H; subst. cbn. rewrite orb_false_r. reflexivity.
  - destruct (step s a) as [s1|] eqn:S; [|discriminate]. rewrite (IH _ _ H), (step_closed _ _ _ S).
    unfold eof_in. cbn [existsb]. rewrite orb_assoc. reflexivity.
Qed.
Lemma exec_ctx t : forall tr s s', exec s tr = Some s' -> t_ctx (threads s' t) = t_ctx (threads s t) || ctx_in t tr.
Proof.
  induction tr as [|a l IH]; intros s s' H; cbn [exec] in H.
  - inversion H; subst. cbn. rewrite orb_false_r. reflexivity.
  - destruct (step s a) as [s1|] eqn:S; [|discriminate]. rewrite (IH _ _ H), (step_ctx _ _ _ t S).
    unfold ctx_in. cbn [existsb]. rewrite orb_assoc. reflexivity.
Qed.
Lemma exec_down : forall tr s s', exec s tr = Some s' -> down s' = down s || wfail_in tr.
Proof.
  induction tr as [|a l IH]; intros s s' H; cbn [exec] in H.
  - inversion H; subst. cbn. rewrite orb_false_r. reflexivity.
  - destruct (step s a) as [s1|] eqn:S; [|discriminate]. rewrite (IH _ _ H), (step_down _ _ _ S).
    unfold wfail_in. cbn [existsb]. rewrite orb_assoc. reflexivity.
Qed.
(* once the loop has returned nothing is read any more *)
Lemma exec_closed_no_read : forall tr s s' r, exec s tr = Some s' -> closed s = true -> ~ In (ARead r) tr.
Proof.
  induction tr as [|a l IH]; intros s s' r H C; cbn [exec] in H; [intros []|].
  destruct (step s a) as [s1|] eqn:S; [|discriminate]. intros [Q|Q].
  - subst a. apply step_read_open in S. congruence.
  - refine (IH _ _ r H _ Q). rewrite (step_closed _ _ _ S), C. reflexivity.
Qed.
Lemma exec_closed_no_eof : forall tr s s', exec s tr = Some s' -> closed s = true -> ~ In AEof tr.
Proof.
  induction tr as [|a l IH]; intros s s' H C; cbn [exec] in H; [intros []|].
  destruct (step s a) as [s1|] eqn:S; [|discriminate]. intros [Q|Q].
  - subst a. cbn [step] in S. destruct (run s); [discriminate|]. rewrite C in S. discriminate.
  - refine (IH _ _ H _ Q). rewrite (step_closed _ _ _ S), C. reflexivity.
Qed.
(* every response read along a schedule was read before the end of the stream *)
Lemma exec_reads : forall tr s s' r, exec s tr = Some s' -> In (ARead r) tr -> In r (reads tr).
Proof.
  induction tr as [|a l IH]; intros s s' r H Q; cbn [exec] in H; [destruct Q|].
  destruct (step s a) as [s1|] eqn:S; [|discriminate].
  assert (T : In (ARead r) l -> In r (reads l)) by (apply (IH _ _ r H)).
  destruct Q as [Q|Q]; [subst a; left; reflexivity|].
  destruct a; cbn [reads]; try (apply T; exact Q); [right; apply T; exact Q|].
  exfalso. refine (exec_closed_no_read _ _ _ r H _ Q). rewrite (step_closed _ _ _ S). apply orb_true_r.
Qed.
Lemma init_flags prog t : t_ctx (threads (init prog) t) = false /\ down (init prog) = false /\ closed (init prog) = false.
Proof.
  cbn [init threads down closed]. split; [|split; reflexivity].
  destruct (nth_mk prog t) as [->|[[k p] ->]]; reflexivity.
Qed.
End Conn.

(* ====================================================================================== *)
(*  Part 3.  the statements of props/C18.v                                                *)
(* ====================================================================================== *)

Theorem no_interleave prog tr s : exec (init prog) tr = Some s ->
  wire s = concat (map frame (sent s)) ++ partial s /\
  (partial s = [] \/
   (down s = false /\ exists t, lock s = Some t /\ t_pc (threads s t) = PHeader /\
             partial s = frame_header (t_payload (threads s t))) \/
   (down s = true /\ exists p k, k < length (frame p) /\ partial s = firstn k (frame p))).
Proof.
  intros H. pose proof (reachable_inv prog tr s H) as I. split; [apply (i_wire s I)|].
  destruct (payloads_exec (fun _ => True) tr _ _ (payloads_init _ prog ltac:(apply Forall_forall; intros; exact Logic.I)) H)
    as [_ [_ PT]].
  unfold partial. destruct (down s) eqn:DN.
  - right. right. split; [reflexivity|]. destruct (PT eq_refl) as [p [k [_ [A B]]]]. exists p, k. split; assumption.
  - destruct (lock s) as [t|]; [|left; reflexivity].
    destruct (is_pc (t_pc (threads s t)) PHeader) eqn:E; [|left; reflexivity].
    right. left. split; [reflexivity|]. exists t. split; [reflexivity|]. split; [apply is_pc_eq; exact E|reflexivity].
Qed.

Lemma header_nonempty p : frame_header p <> [].
Proof. unfold frame_header, hdr_name. cbn [bs list_byte_of_string app]. discriminate. Qed.

Theorem peer_reads_sent prog tr s : Forall payload_ok (map snd prog) -> exec (init prog) tr = Some s ->
  read_stream (wire s) = (sent s, match partial s with [] => EndEof | _ => EndTrunc end).
Proof.
  intros HP H. pose proof (reachable_inv prog tr s H) as I. pose proof (i_wire s I) as W.
  destruct (payloads_exec payload_ok tr _ _ (payloads_init payload_ok prog HP) H) as [PT [PS PD]].
  rewrite W. apply read_stream_frames_then; [exact PS|].
  unfold partial. destruct (down s) eqn:DN.
  - destruct (PD eq_refl) as [p [k [OK [A B]]]]. rewrite B. apply frame_cut_needs_more; assumption.
  - destruct (lock s) as [t|]; [|reflexivity].
    destruct (is_pc (t_pc (threads s t)) PHeader) eqn:E; [|reflexivity].
    apply read_frame_header_only. apply PT. apply is_pc_eq in E. congruence.
Qed.

Lemma msgs_eqb_refl l : msgs_eqb l l = true.
Proof. induction l as [|x l IH]; cbn [msgs_eqb]; [reflexivity|]. rewrite bytes_eqb_refl, IH. reflexivity. Qed.

(* whatever Writes succeed, fail or are cancelled, at whatever moment: the frames on the connection are
   those of exactly the writes that returned nil, each once, in lock order; between writes the bytes
   satisfy the wire specification *)
Theorem writes_on_wire prog tr s : Forall payload_ok (map snd prog) -> exec (init prog) tr = Some s ->
  sent s = map (fun t => t_payload (threads s t)) (senders s) /\ NoDup (senders s) /\
  (forall t, In t (senders s) <-> wrote (threads s t) = true) /\
  (lock s = None -> wire_spec (sent s) (down s) (wire s) = true) /\
  (lock s = None -> down s = false -> wire s = concat (map frame (sent s))).
Proof.
  intros HP H. pose proof (reachable_sinv prog tr s H) as SI. pose proof (reachable_inv prog tr s H) as I.
  split; [apply (s_sent s SI)|]. split; [apply (s_nodup s SI)|]. split; [apply (s_wrote s SI)|]. split.
  - intros L. unfold wire_spec. rewrite (peer_reads_sent prog tr s HP H). rewrite msgs_eqb_refl. cbn [andb].
    unfold partial. rewrite L. destruct (down s); [destruct (torn s); reflexivity|reflexivity].
  - intros L D. rewrite (i_wire s I). unfold partial. rewrite L, D. apply app_nil_r.
Qed.

Theorem call_gets_own_response prog tr s : exec (init prog) tr = Some s ->
  (forall t, is_call (threads s t) = true -> t_pc (threads s t) = PDone ->
     (exists r, t_ret (threads s t) = Some (Got r) /\ fst r = t_id (threads s t) /\ In (ARead r) tr /\ In r (reads tr))
     \/ (t_ret (threads s t) = Some Cancelled /\ t_ctx (threads s t) = true)
     \/ (t_ret (threads s t) = Some WriteFailed /\ t_ctx (threads s t) = true)
     \/ (t_ret (threads s t) = Some TransportErr /\ down s = true))
  /\ (forall t1 t2, is_call (threads s t1) = true -> is_call (threads s t2) = true ->
        t_pc (threads s t1) = PDone -> t_pc (threads s t2) = PDone ->
        t_id (threads s t1) = t_id (threads s t2) -> t1 = t2).
Proof.
  intros H. pose proof (reachable_inv prog tr s H) as I. split.
  - intros t C P.
    assert (FW : from_wire (fun r => In (ARead r) tr) s).
    { eapply from_wire_exec; [apply from_wire_init| |exact H].
      apply Forall_forall. intros a Ha. destruct a; cbn [reads_ok]; first [exact Ha|exact Logic.I]. }
    destruct FW as [_ [_ FW]].
    pose proof (i_done s I t C) as D. rewrite P in D. specialize (D eq_refl).
    pose proof (i_ret s I t) as R.
    destruct (t_ret (threads s t)) as [[r| | | |]|] eqn:E; try discriminate D.
    + left. exists r. split; [reflexivity|]. split; [apply R|]. split; [apply (FW t r E)|].
      eapply exec_reads; [exact H|apply (FW t r E)].
    + right. left. split; [reflexivity|exact R].
    + right. right. left. split; [reflexivity|exact R].
    + right. right. right. split; [reflexivity|exact R].
  - intros t1 t2 C1 C2 P1 P2 E. apply (i_uniq s I); try exact E; unfold has_id; rewrite ?C1, ?C2, ?P1, ?P2; reflexivity.
Qed.

(* ---------- the end of the stream ---------- *)
Definition outcome_of (r : result) : outcome :=
  match r with
  | Got r => OGot (fst r) (snd r)
  | Cancelled | WriteFailed => OCancelled
  | TransportErr => OWriteError
  | Sent => OOther
  end.
(* what the schedule shows about call t with identifier id *)
Definition facts (tr : list action) (t id : nat) : call_facts :=
  mkFacts id (reads tr) (ctx_in t tr) (wfail_in tr) (eof_in tr).

Lemma state_flags prog tr s : exec (init prog) tr = Some s ->
  (forall t, t_ctx (threads s t) = ctx_in t tr) /\ down s = wfail_in tr /\ closed s = eof_in tr.
Proof.
  intros H. split; [|split].
  - intros t. rewrite (exec_ctx t _ _ _ H). destruct (init_flags prog t) as [-> _]. reflexivity.
  - rewrite (exec_down _ _ _ H). destruct (init_flags prog 0) as [_ [-> _]]. reflexivity.
  - rewrite (exec_closed _ _ _ H). destruct (init_flags prog 0) as [_ [_ ->]]. reflexivity.
Qed.

Lemma in_reads_existsb r l : In r l -> existsb (fun q : resp => Nat.eqb (fst q) (fst r) && Nat.eqb (snd q) (snd r)) l = true.
Proof.
  intros H. apply existsb_exists. exists r. split; [exact H|]. rewrite !Nat.eqb_refl. reflexivity.
Qed.

Theorem calls_meet_spec prog tr s : exec (init prog) tr = Some s ->
  forall t, is_call (threads s t) = true -> t_pc (threads s t) = PDone ->
    exists r, t_ret (threads s t) = Some r /\
              call_ok (facts tr t (t_id (threads s t))) (outcome_of r) = true.
Proof.
  intros H t C P. destruct (state_flags prog tr s H) as [FC [FD _]].
  destruct (call_gets_own_response prog tr s H) as [G _].
  destruct (G t C P) as [[r [E [I [_ R]]]]|[[E X]|[[E X]|[E X]]]]; rewrite E; eexists; (split; [reflexivity|]);
    cbn [outcome_of call_ok facts f_id f_read f_cancelled f_wfailed].
  - rewrite I, Nat.eqb_refl. cbn [andb]. rewrite <- I. apply in_reads_existsb. exact R.
  - rewrite <- FC. exact X.
  - rewrite <- FC. exact X.
  - rewrite <- FD. exact X.
Qed.

(* a call whose context was never cancelled, on a connection whose Writes never failed: once it has returned
   it has returned the response carrying its id, read before the end of the stream - wherever the end of the
   stream falls in the schedule *)
Theorem uncancelled_call_returns_response prog tr s : exec (init prog) tr = Some s ->
  forall t, is_call (threads s t) = true -> t_pc (threads s t) = PDone ->
    ctx_in t tr = false -> wfail_in tr = false ->
    exists r, t_ret (threads s t) = Some (Got r) /\ fst r = t_id (threads s t) /\ In r (reads tr).
Proof.
  intros H t C P NC NW. destruct (state_flags prog tr s H) as [FC [FD _]].
  destruct (call_gets_own_response prog tr s H) as [G _].
  destruct (G t C P) as [[r [E [I [_ R]]]]|[[E X]|[[E X]|[E X]]]].
  - exists r. repeat split; assumption.
  - rewrite FC, NC in X. discriminate X.
  - rewrite FC, NC in X. discriminate X.
  - rewrite FD, NW in X. discriminate X.
Qed.

Lemma exec_app : forall tr1 tr2 s s', exec s (tr1 ++ tr2) = Some s' ->
  exists s1, exec s tr1 = Some s1 /\ exec s1 tr2 = Some s'.
Proof.
  induction tr1 as [|a l IH]; intros tr2 s s' H; cbn [app exec] in *; [exists s; split; [reflexivity|exact H]|].
  destruct (step s a) as [s1|]; [|discriminate]. apply IH. exact H.
Qed.

(* after the end of the stream nothing is read, and the end comes once *)
Theorem nothing_read_after_end prog tr1 tr2 s : exec (init prog) (tr1 ++ AEof :: tr2) = Some s ->
  closed s = true /\ (forall r, ~ In (ARead r) tr2) /\ ~ In AEof tr2 /\ eof_in tr1 = false.
Proof.
  intros H. destruct (exec_app _ _ _ _ H) as [s1 [H1 H2]]. cbn [exec] in H2.
  destruct (step s1 AEof) as [s2|] eqn:S; [|discriminate].
  assert (C2 : closed s2 = true) by (rewrite (step_closed _ _ _ S); apply orb_true_r).
  split; [rewrite (exec_closed _ _ _ H2), C2; reflexivity|]. split; [|split].
  - intros r. eapply exec_closed_no_read; eassumption.
  - eapply exec_closed_no_eof; eassumption.
  - cbn [step] in S. destruct (run s1); [discriminate|]. destruct (closed s1) eqn:C1; [discriminate|].
    rewrite (exec_closed _ _ _ H1) in C1. destruct (init_flags prog 0) as [_ [_ C0]]. rewrite C0 in C1. exact C1.
Qed.

Theorem pending_empty_at_quiescence prog tr s : exec (init prog) tr = Some s -> quiescent s ->
  pending s = [] /\ lock s = None /\ (down s = false -> wire s = concat (map frame (sent s))).
Proof.
  intros H Q. pose proof (reachable_inv prog tr s H) as I.
  assert (L : lock s = None).
  { destruct (lock s) as [t|] eqn:E; [|reflexivity]. apply (i_lock s I) in E. rewrite (Q t) in E. discriminate E. }
  split; [|split; [exact L|]].
  - destruct (pending s) as [|[id t] l] eqn:E; [reflexivity|].
    assert (X : In (id, t) (pending s)) by (rewrite E; left; reflexivity).
    apply (i_pend s I) in X. destruct X as [X _]. rewrite (Q t) in X. apply andb_prop in X as [_ X]. discriminate X.
  - intros D. rewrite (i_wire s I). unfold partial. rewrite L, D. apply app_nil_r.
Qed.
