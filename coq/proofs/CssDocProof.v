(* C05 end to end, HTML side: the documents generated code writes for a dynamic style attribute and for css
   component classes, read by the tokenizer of spec/HtmlTok.v:
     - <elem style="out">...</elem>: the raw attribute value the tokenizer reports is exactly out, and the CSS
       the browser's CSS parser receives after attribute decoding reads back as the declarations written;
     - <style type="text/css">classes</style>: the element's text is exactly the classes' text (RAWTEXT: nothing
       is decoded, the element ends at the </style> RenderCSSItems writes) and reads back as the rules written. *)
From Coq.Strings Require Import Byte String.
From Coq Require Import List Arith NArith Bool Lia.
Import ListNotations.
From V Require Import lib.Bytes spec.HtmlTok spec.HtmlRefs spec.CssSink spec.DocExpect
  model.Escape model.StyleAttr model.DocFrag model.CssRender
  proofs.EscapeProof proofs.TokProof proofs.CssProof proofs.CssRenderProof.
From V Require model.Css.

(* ---------- the style attribute ---------- *)
Definition style_tree (elem raw : bytes) (ch : list tree) : tree := TElem elem [ADyn (bs "style") raw] ch.

Lemma style_tree_tokens elem raw ch :
  elem_name elem = true -> text_kind (map lower elem) = XData -> forallb wf ch = true ->
  tok (render (style_tree elem raw ch)) =
  TStart (map lower elem) [(bs "style", escape raw)] false :: flat_map expected ch ++ [TEnd (map lower elem)].
Proof.
  intros E K W. unfold style_tree. rewrite document_fragment; [reflexivity|].
  cbn [wf]. rewrite E, K. exact W.
Qed.

Lemma style_tree_bytes elem raw ch : elem_name elem = true ->
  render (style_tree elem raw ch) = style_attr_elem elem (escape raw) (flat_map render ch).
Proof.
  intros E. unfold style_tree, style_attr_elem. cbn [render flat_map render_attr_t]. rewrite (elem_name_escape elem E).
  unfold attr_kv. change (escape (bs "style")) with (bs "style"). rewrite app_nil_r.
  repeat rewrite <- app_assoc. reflexivity.
Qed.

Lemma find_style_head n v more : find_style n (TStart n [(bs "style", v)] false :: more) = Some v.
Proof. cbn [find_style]. rewrite bytes_eqb_refl. reflexivity. Qed.

Section StyleAttrDoc.
Variable parse : bytes -> option bytes.
Hypothesis contract : parse_contract parse.

(* sanitise -> html escape -> written between the quotes -> tokenizer -> attribute decoding -> CSS scanner *)
Theorem style_attr_document elem vals ps out ch :
  elem_name elem = true -> text_kind (map lower elem) = XData -> forallb wf ch = true ->
  Css.sa_values parse vals = Some ps -> Css.style_attr parse vals = Some out -> all_sanitised ps = true ->
  let doc := style_attr_elem elem out (flat_map render ch) in
  tok doc = TStart (map lower elem) [(bs "style", out)] false :: flat_map expected ch ++ [TEnd (map lower elem)] /\
  style_attr_css doc (map lower elem) = Some (raw_text ps) /\
  style_attr_okb doc (map lower elem) (length ps) = true.
Proof.
  intros E K W Hv Ho A doc.
  pose proof (style_attr_escape parse vals ps Hv) as Eo. rewrite Ho in Eo. injection Eo as Eo.
  assert (T : tok doc = TStart (map lower elem) [(bs "style", out)] false :: flat_map expected ch ++ [TEnd (map lower elem)]).
  { unfold doc. rewrite Eo. rewrite <- (style_tree_bytes elem (raw_text ps) ch E). exact (style_tree_tokens elem _ ch E K W). }
  split; [exact T|].
  assert (S : style_attr_css doc (map lower elem) = Some (css_decode_attr out)).
  { unfold style_attr_css. rewrite T, find_style_head. reflexivity. }
  split.
  - rewrite S, Eo, css_decode_escape. reflexivity.
  - unfold style_attr_okb. rewrite S. exact (style_attr_okb_holds parse contract vals ps out Hv Ho A).
Qed.
End StyleAttrDoc.

(* ---------- the <style> element ---------- *)
Lemma lower_lt c : Byte.eqb x3c (lower c) = Byte.eqb x3c c.
Proof. destruct c; reflexivity. Qed.
Lemma nolt_no_close nm s : nolt s = true -> no_close nm s = true.
Proof.
  induction s as [|c r IH]; intros H; [reflexivity|]. cbn [nolt forallb] in H. apply andb_prop in H as [Hc Hr].
  cbn [no_close map has_prefix]. rewrite lower_lt. apply negb_true_iff in Hc.
  assert (Byte.eqb x3c c = false) as ->.
  { destruct (Byte.eqb x3c c) eqn:X; [|reflexivity]. apply byte_eqb_eq in X. subst c. discriminate. }
  cbn [andb negb]. exact (IH Hr).
Qed.

Definition style_raw (text : bytes) : tree := TRaw (bs "style") [AConst (bs "type") (bs "text/css")] text.

Lemma style_raw_wf text : nolt text = true -> wf (style_raw text) = true.
Proof.
  intros H. unfold style_raw. cbn [wf].
  change (elem_name (bs "style")) with true. change (forallb wf_attr [AConst (bs "type") (bs "text/css")]) with true.
  change (map lower (bs "style")) with (bs "style"). change (text_kind (bs "style")) with XRawtext.
  cbn [andb raw_static_ok]. exact (nolt_no_close _ _ H).
Qed.

Lemma style_raw_bytes text : render (style_raw text) = bs "<style type=""text/css"">" ++ text ++ bs "</style>".
Proof.
  unfold style_raw. cbn [render flat_map render_attr_t]. unfold attr_kv.
  change (escape (bs "style")) with (bs "style"). change (escape (bs "type")) with (bs "type").
  change (escape (bs "text/css")) with (bs "text/css"). rewrite app_nil_r.
  repeat rewrite <- app_assoc. reflexivity.
Qed.

Theorem style_element_tokens text rest : nolt text = true -> forallb wf rest = true ->
  tok (bs "<style type=""text/css"">" ++ text ++ bs "</style>" ++ flat_map render rest) =
  TStart (bs "style") [(bs "type", bs "text/css")] false :: chars text ++ TEnd (bs "style") :: flat_map expected rest.
Proof.
  intros H W.
  replace (bs "<style type=""text/css"">" ++ text ++ bs "</style>" ++ flat_map render rest)
    with (render (TCall (style_raw text :: rest))).
  - rewrite document_fragment; [|cbn [wf forallb]; rewrite (style_raw_wf text H); exact W].
    cbn [expected flat_map]. unfold style_raw at 1. cbn [expected flat_map expected_attr_t].
    change (map lower (bs "style")) with (bs "style"). change (map lower (bs "type")) with (bs "type").
    change (escape (bs "text/css")) with (bs "text/css"). cbn [app]. rewrite <- app_assoc. reflexivity.
  - cbn [render flat_map]. rewrite style_raw_bytes. repeat rewrite <- app_assoc. reflexivity.
Qed.

Lemma style_scan_chars text : forall acc more out,
  style_scan (chars text ++ more) (Some acc) out = style_scan more (Some (rev text ++ acc)) out.
Proof.
  induction text as [|c r IH]; intros acc more out; [reflexivity|]. cbn [chars map app style_scan].
  fold (chars r). rewrite IH. cbn [rev]. rewrite <- app_assoc. reflexivity.
Qed.
Lemma style_scan_element a text more out :
  style_scan (TStart (bs "style") a false :: chars text ++ TEnd (bs "style") :: more) None out =
  style_scan more None (text :: out).
Proof.
  cbn [style_scan]. change (isn (bs "style") "style") with true. cbv iota. rewrite style_scan_chars.
  cbn [style_scan]. change (isn (bs "style") "style") with true. cbv iota. rewrite app_nil_r, rev_involutive. reflexivity.
Qed.

Section StyleElemDoc.
Variable parse : bytes -> option bytes.
Hypothesis contract : parse_contract parse.

(* css components -> templ.SanitizeCSS for every expression property -> class text -> <style> element ->
   tokenizer (RAWTEXT) -> style sheet scanner *)
Theorem style_element_document cs rest : cs <> [] -> classes_ok cs -> forallb wf rest = true ->
  let doc := style_element parse cs ++ flat_map render rest in
  tok doc = TStart (bs "style") [(bs "type", bs "text/css")] false :: chars (style_text parse cs) ++ TEnd (bs "style") :: flat_map expected rest /\
  style_scan (tok doc) None [] = style_scan (flat_map expected rest) None [style_text parse cs] /\
  style_elem_okb (style_text parse cs) (map (fun c => length (snd c)) cs) = true.
Proof.
  intros NE F W doc.
  assert (T : tok doc = TStart (bs "style") [(bs "type", bs "text/css")] false :: chars (style_text parse cs) ++ TEnd (bs "style") :: flat_map expected rest).
  { unfold doc, style_element. destruct cs as [|c cs']; [congruence|]. repeat rewrite <- app_assoc.
    exact (style_element_tokens _ rest (style_text_nolt parse contract _ F) W). }
  split; [exact T|]. split.
  - rewrite T. apply style_scan_element.
  - exact (style_elem_okb_holds parse contract cs F).
Qed.

Corollary style_element_alone cs : cs <> [] -> classes_ok cs ->
  style_texts (style_element parse cs) = Some [style_text parse cs].
Proof.
  intros NE F. destruct (style_element_document cs [] NE F eq_refl) as [_ [S _]]. cbn [flat_map] in S.
  rewrite app_nil_r in S. unfold style_texts. rewrite S. reflexivity.
Qed.
End StyleElemDoc.
