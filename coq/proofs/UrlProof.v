(* url_sound: templ.URL returns its input unchanged only when the WHATWG parser finds no
   scheme or an allow-listed one.  For every byte string. *)
From Coq.Strings Require Import Byte String.
From Coq Require Import List NArith Bool Lia.
Import ListNotations.
From V Require Import lib.Bytes model.Url spec.Whatwg.
Open Scope N_scope.

Lemma split_colon_spec s p q : split_colon s = Some (p, q) ->
  s = p ++ x3a :: q /\ forallb (fun b => negb (Byte.eqb b x3a)) p = true.
Proof.
  revert p q; induction s as [|b r IH]; intros p q H; cbn in H; [discriminate|].
  destruct (Byte.eqb b x3a) eqn:E.
  - inversion H; subst. apply byte_eqb_eq in E; subst. split; reflexivity.
  - destruct (split_colon r) as [[p' q']|] eqn:S; [|discriminate]. inversion H; subst.
    destruct (IH _ _ eq_refl) as [-> Hp]. split; [reflexivity|]. cbn. rewrite E. exact Hp.
Qed.

Lemma split_colon_none s : split_colon s = None -> forallb (fun b => negb (Byte.eqb b x3a)) s = true.
Proof.
  induction s as [|b r IH]; cbn; [reflexivity|].
  destruct (Byte.eqb b x3a); [discriminate|]. destruct (split_colon r) as [[? ?]|]; [discriminate|]. auto.
Qed.

(* scheme_rest fails when a non-scheme, non-colon byte precedes every colon *)
Definition stopper (b : byte) : bool := negb (Byte.eqb b x3a) && negb (is_scheme_char b).

Lemma scheme_rest_no_colon l : forallb (fun b => negb (Byte.eqb b x3a)) l = true -> scheme_rest l = None.
Proof.
  induction l as [|b r IH]; cbn; [reflexivity|]. intros H. apply andb_prop in H as [Hb Hr].
  apply negb_true_iff in Hb. rewrite Hb. destruct (is_scheme_char b); [rewrite (IH Hr)|]; reflexivity.
Qed.

Lemma scheme_rest_stopper a x b :
  forallb (fun c => negb (Byte.eqb c x3a)) a = true -> stopper x = true -> scheme_rest (a ++ x :: b) = None.
Proof.
  intros Ha Hx. induction a as [|c a IH]; cbn.
  - unfold stopper in Hx. apply andb_prop in Hx as [H1 H2]. apply negb_true_iff in H1, H2. rewrite H1, H2. reflexivity.
  - cbn in Ha. apply andb_prop in Ha as [Hc Ha]. apply negb_true_iff in Hc. rewrite Hc.
    destruct (is_scheme_char c); [rewrite (IH Ha)|]; reflexivity.
Qed.

Definition scheme_all (l : bytes) : option bytes :=
  match l with b :: r => if is_alpha b then option_map (cons (lower b)) (scheme_rest r) else None | [] => None end.

Lemma scheme_all_stopper a x b :
  forallb (fun c => negb (Byte.eqb c x3a)) a = true -> stopper x = true -> scheme_all (a ++ x :: b) = None.
Proof.
  intros Ha Hx. destruct a as [|c a]; cbn.
  - assert (is_alpha x = false) as ->; [|reflexivity].
    unfold stopper in Hx. apply andb_prop in Hx as [_ H2]. apply negb_true_iff in H2.
    unfold is_scheme_char in H2. destruct (is_alpha x); [discriminate|reflexivity].
  - cbn in Ha. apply andb_prop in Ha as [_ Ha]. destruct (is_alpha c); [|reflexivity].
    rewrite (scheme_rest_stopper a x b Ha Hx). reflexivity.
Qed.

(* preprocessing keeps stoppers that are not whitespace/control, keeps "no colon" *)
Lemma filter_no_colon f l : forallb (fun c => negb (Byte.eqb c x3a)) l = true ->
  forallb (fun c => negb (Byte.eqb c x3a)) (filter f l) = true.
Proof. induction l as [|c l IH]; cbn; [auto|]. intros H. apply andb_prop in H as [H1 H2].
  destruct (f c); cbn; [rewrite H1|]; auto. Qed.
Lemma drop_while_no_colon f l : forallb (fun c => negb (Byte.eqb c x3a)) l = true ->
  forallb (fun c => negb (Byte.eqb c x3a)) (drop_while f l) = true.
Proof. induction l as [|c l IH]; cbn; [auto|]. intros H. destruct (f c); [|exact H].
  apply andb_prop in H as [_ H2]; auto. Qed.

Definition solid (b : byte) : bool := negb (is_c0_space b) && negb (is_tabnl b).

Lemma preprocess_app_solid a x b : solid x = true ->
  exists a', preprocess (a ++ x :: b) = a' ++ x :: filter (fun c => negb (is_tabnl c)) b /\
             (forallb (fun c => negb (Byte.eqb c x3a)) a = true -> forallb (fun c => negb (Byte.eqb c x3a)) a' = true).
Proof.
  intros Hx. unfold solid in Hx. apply andb_prop in Hx as [H1 H2]. apply negb_true_iff in H1.
  unfold preprocess. induction a as [|c a IH]; cbn.
  - rewrite H1. cbn. rewrite H2. exists []. split; auto.
  - destruct (is_c0_space c) eqn:E.
    + destruct IH as [a' [Ha' Hc]]. exists a'. split; [exact Ha'|]. intros H. apply Hc.
      cbn in H. apply andb_prop in H as [_ H]; exact H.
    + cbn. rewrite filter_app. cbn. rewrite H2.
      destruct (negb (is_tabnl c)) eqn:T.
      * exists (c :: filter (fun c0 => negb (is_tabnl c0)) a). split; [reflexivity|].
        intros H. cbn in H. apply andb_prop in H as [Hc Ha]. cbn. rewrite Hc. apply filter_no_colon; exact Ha.
      * exists (filter (fun c0 => negb (is_tabnl c0)) a). split; [reflexivity|].
        intros H. cbn in H. apply andb_prop in H as [_ Ha]. apply filter_no_colon; exact Ha.
Qed.

Lemma browser_scheme_stopper a x b :
  forallb (fun c => negb (Byte.eqb c x3a)) a = true -> stopper x = true -> solid x = true ->
  browser_scheme (a ++ x :: b) = None.
Proof.
  intros Ha Hx Hs. destruct (preprocess_app_solid a x b Hs) as [a' [E Hc]].
  change (browser_scheme (a ++ x :: b)) with (scheme_all (preprocess (a ++ x :: b))).
  rewrite E. apply scheme_all_stopper; auto.
Qed.

Lemma browser_scheme_no_colon s : forallb (fun c => negb (Byte.eqb c x3a)) s = true -> browser_scheme s = None.
Proof.
  intros H. change (browser_scheme s) with (scheme_all (preprocess s)).
  assert (Hp : forallb (fun c => negb (Byte.eqb c x3a)) (preprocess s) = true).
  { unfold preprocess. apply filter_no_colon, drop_while_no_colon, H. }
  destruct (preprocess s) as [|b r]; cbn; [reflexivity|].
  cbn in Hp. apply andb_prop in Hp as [_ Hr]. rewrite (scheme_rest_no_colon r Hr). destruct (is_alpha b); reflexivity.
Qed.

(* a '/' (or a non-ASCII lead byte) is a solid stopper *)
Lemma slash_stop : stopper x2f = true /\ solid x2f = true. Proof. split; vm_compute; reflexivity. Qed.

Lemma in_split (x : byte) l : existsb (fun b => Byte.eqb b x) l = true -> exists a b, l = a ++ x :: b.
Proof.
  induction l as [|c l IH]; cbn; [discriminate|]. destruct (Byte.eqb c x) eqn:E.
  - apply byte_eqb_eq in E; subst. intros _. exists [], l. reflexivity.
  - cbn. intros H. destruct (IH H) as [a [b ->]]. exists (c :: a), b. reflexivity.
Qed.

Lemma forallb_app_l {A} (f : A -> bool) a b : forallb f (a ++ b) = true -> forallb f a = true.
Proof. rewrite forallb_app. intros H; apply andb_prop in H; tauto. Qed.

(* characterisation of fold_match against a lower-case ASCII-letter constant *)
Definition letters (t : bytes) : bool := forallb (fun c => let n := bN c in (97 <=? n) && (n <=? 122)) t.

Lemma lower_letter_alpha b c : Byte.eqb (lower b) c = true -> (let n := bN c in (97 <=? n) && (n <=? 122)) = true ->
  is_alpha b = true /\ lower b = c /\ solid b = true /\ is_scheme_char b = true /\ Byte.eqb b x3a = false.
Proof.
  intros E L. apply byte_eqb_eq in E. subst c. revert L.
  destruct b; vm_compute; intros; try discriminate; repeat split.
Qed.

Lemma fold_match_cases p t : letters t = true -> fold_match p t = true ->
  (map lower p = t /\ forallb (fun b => is_alpha b && solid b) p = true) \/
  (exists a x b, p = a ++ x :: b /\ stopper x = true /\ solid x = true).
Proof.
  revert p; induction t as [|c t IH]; intros p L H.
  - destruct p; [left; split; reflexivity|discriminate].
  - cbn in L. apply andb_prop in L as [Lc Lt].
    destruct p as [|b p']; [discriminate|].
    cbn [fold_match] in H. destruct (Byte.eqb (lower b) c) eqn:E.
    + destruct (lower_letter_alpha b c E Lc) as [A [Lw [S _]]].
      destruct (IH p' Lt H) as [[M F]|[a [x [b' [-> [Sx Sl]]]]]].
      * left. cbn. rewrite Lw, M, A, S, F. split; reflexivity.
      * right. exists (b :: a), x, b'. repeat split; assumption.
    + right. exists [], b, p'. split; [reflexivity|].
      (* the byte b is a non-ASCII lead byte: 0xE2 or 0xC5 *)
      destruct c; try discriminate; destruct p' as [|b2 p2]; try discriminate;
      destruct b; try discriminate; split; vm_compute; reflexivity.
Qed.

Lemma allowed_letters : forallb letters allowed = true. Proof. vm_compute; reflexivity. Qed.

Lemma scheme_rest_letters p q : forallb (fun b => is_alpha b && solid b) p = true ->
  scheme_rest (p ++ x3a :: q) = Some (map lower p).
Proof.
  induction p as [|b p IH]; cbn; [reflexivity|]. intros H. apply andb_prop in H as [Hb Hp].
  apply andb_prop in Hb as [A S].
  assert (Byte.eqb b x3a = false) as ->. { revert A. destruct b; vm_compute; congruence. }
  unfold is_scheme_char. rewrite A. cbn. rewrite (IH Hp). reflexivity.
Qed.

Lemma preprocess_solid_prefix p r : p <> [] -> forallb (fun b => is_alpha b && solid b) p = true ->
  exists r', preprocess (p ++ r) = p ++ r' /\ (forall q, r = x3a :: q -> exists q', r' = x3a :: q').
Proof.
  intros Hne H. unfold preprocess. destruct p as [|b p]; [congruence|]. cbn in H |- *.
  apply andb_prop in H as [Hb Hp]. apply andb_prop in Hb as [A S].
  unfold solid in S. apply andb_prop in S as [S1 S2]. apply negb_true_iff in S1. rewrite S1. cbn. rewrite S2.
  exists (filter (fun c => negb (is_tabnl c)) r). split.
  - f_equal. rewrite filter_app. f_equal.
    clear -Hp. induction p as [|c p IH]; cbn; [reflexivity|]. cbn in Hp. apply andb_prop in Hp as [Hc Hp].
    apply andb_prop in Hc as [_ S]. unfold solid in S. apply andb_prop in S as [_ S2]. rewrite S2, (IH Hp). reflexivity.
  - intros q ->. cbn. eexists; reflexivity.
Qed.

Theorem url_sound : forall s, url s = failed \/ (url s = s /\ safe s).
Proof.
  intros s. unfold url, safe. destruct (split_colon s) as [[p q]|] eqn:S.
  - destruct (split_colon_spec _ _ _ S) as [-> Hp].
    destruct (has_slash p) eqn:Sl.
    + right. split; [reflexivity|]. unfold has_slash in Sl. destruct (in_split _ _ Sl) as [a [b ->]].
      rewrite <- app_assoc. cbn [app]. destruct slash_stop as [St So].
      rewrite (browser_scheme_stopper a x2f (b ++ x3a :: q)); [exact I| |exact St|exact So].
      eapply forallb_app_l; exact Hp.
    + destruct (existsb (fold_match p) allowed) eqn:Ex; [|left; reflexivity].
      right. split; [reflexivity|]. apply existsb_exists in Ex as [t [Ht Fm]].
      assert (Lt : letters t = true). { pose proof allowed_letters as AL. rewrite forallb_forall in AL. apply AL, Ht. }
      destruct (fold_match_cases p t Lt Fm) as [[M F]|[a [x [b [-> [Sx So]]]]]].
      * assert (p <> []) as Hne. { intros ->. cbn in M. subst t. revert Ht. vm_compute. intuition discriminate. }
        destruct (preprocess_solid_prefix p (x3a :: q) Hne F) as [r' [E Hq]].
        destruct (Hq q eq_refl) as [q' ->].
        change (browser_scheme (p ++ x3a :: q)) with (scheme_all (preprocess (p ++ x3a :: q))). rewrite E.
        destruct p as [|b0 p0]; [congruence|]. cbn [app scheme_all]. cbn in F. apply andb_prop in F as [Fb Fp].
        apply andb_prop in Fb as [A _]. rewrite A. rewrite (scheme_rest_letters p0 q' Fp). cbn. cbn in M. rewrite M. exact Ht.
      * rewrite <- app_assoc. cbn [app].
        rewrite (browser_scheme_stopper a x (b ++ x3a :: q)); [exact I| |exact Sx|exact So].
        eapply forallb_app_l; exact Hp.
  - right. split; [reflexivity|]. rewrite (browser_scheme_no_colon s (split_colon_none s S)). exact I.
Qed.

Lemma spec_allowed_is_allowed : spec_allowed = allowed. Proof. reflexivity. Qed.

Lemma safeb_safe s : safeb s = true <-> safe s.
Proof.
  unfold safeb, safe. destruct (browser_scheme s) as [sc|]; [|tauto].
  rewrite existsb_exists. split.
  - intros [x [Hx E]]. apply bytes_eqb_eq in E. subst. exact Hx.
  - intros H. exists sc. split; [exact H|apply bytes_eqb_refl].
Qed.

(* the failure URL is itself stable *)
Lemma url_failed : url failed = failed. Proof. vm_compute. reflexivity. Qed.

Theorem url_idempotent : forall s, url (url s) = url s.
Proof.
  intros s. destruct (url_sound s) as [E|[E _]]; rewrite E; [apply url_failed|exact E].
Qed.

(* the sanitiser never invents output: it returns the input or the failure constant *)
Theorem url_input_or_failed : forall s, url s = s \/ url s = failed.
Proof.
  intros s. unfold url. destruct (split_colon s) as [[p q]|]; [|left; reflexivity].
  destruct (has_slash p); [left; reflexivity|]. destruct (existsb _ _); [left|right]; reflexivity.
Qed.

(* ---- generator dispatch: every spelling an HTML parser reads as a/href or form/action
   takes the sanitising writer ---- *)
Lemma fold_match_lower s t : letters t = true -> map lower s = t -> fold_match s t = true.
Proof.
  revert t; induction s as [|b s IH]; intros t L E; cbn in E; subst t; [reflexivity|].
  cbn [map fold_match]. rewrite byte_eqb_refl. cbn in L. apply andb_prop in L as [_ L]. apply IH; [exact L|reflexivity].
Qed.

Theorem url_sink_dispatch : forall elem attr,
  (map lower elem = bs "a"%string /\ map lower attr = bs "href"%string) \/
  (map lower elem = bs "form"%string /\ map lower attr = bs "action"%string) ->
  url_sink elem attr = true.
Proof.
  intros elem attr [[He Ha]|[He Ha]]; unfold url_sink.
  - rewrite (fold_match_lower elem (bs "a"%string) eq_refl He), (fold_match_lower attr (bs "href"%string) eq_refl Ha). reflexivity.
  - rewrite (fold_match_lower elem (bs "form"%string) eq_refl He), (fold_match_lower attr (bs "action"%string) eq_refl Ha).
    apply orb_true_r.
Qed.
