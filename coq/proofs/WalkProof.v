(* Proofs for C15 (model/Walk.v against spec/WalkSpec.v). *)
From Coq.Strings Require Import Byte String.
From Coq Require Import List NArith ZArith Bool Lia Permutation Arith.
Import ListNotations.
From V Require Import lib.Bytes model.Walk spec.WalkSpec.

Arguments sfx_gen : simpl never.
Arguments sfx_templ : simpl never.
Arguments sfx_go : simpl never.

(* ---------- equality tests ---------- *)
Lemma comps_eqb_eq a b : comps_eqb a b = true <-> a = b.
Proof.
  revert b; induction a as [|x a IH]; destruct b as [|y b]; cbn; split; intros H;
    try reflexivity; try discriminate.
  - apply andb_prop in H as [H1 H2]. apply bytes_eqb_eq in H1. apply IH in H2. congruence.
  - inversion H; subst. rewrite bytes_eqb_refl. cbn. apply IH. reflexivity.
Qed.
Lemma path_eqb_eq (a b : path) : path_eqb a b = true <-> a = b.
Proof.
  destruct a as [d n], b as [d' n']. unfold path_eqb; cbn. split; intros H.
  - apply andb_prop in H as [H1 H2]. apply comps_eqb_eq in H1. apply bytes_eqb_eq in H2. congruence.
  - inversion H; subst. apply andb_true_intro; split; [apply comps_eqb_eq|apply bytes_eqb_eq]; reflexivity.
Qed.
Lemma path_eqb_refl (a : path) : path_eqb a a = true.
Proof. apply path_eqb_eq; reflexivity. Qed.
Lemma path_eqb_neq (a b : path) : path_eqb a b = false <-> a <> b.
Proof.
  split.
  - intros H E. apply path_eqb_eq in E. congruence.
  - intros H. destruct (path_eqb a b) eqn:E; [apply path_eqb_eq in E; contradiction|reflexivity].
Qed.
Lemma path_eq_dec (a b : path) : {a = b} + {a <> b}.
Proof. destruct (path_eqb a b) eqn:E; [left; apply path_eqb_eq; exact E|right; apply path_eqb_neq; exact E]. Qed.

Lemma mem_in p l : mem p l = true <-> In p l.
Proof.
  unfold mem. rewrite existsb_exists. split.
  - intros [x [H1 H2]]. apply path_eqb_eq in H2. subst. exact H1.
  - intros H. exists p. split; [exact H|apply path_eqb_refl].
Qed.
Lemma mem_false p l : mem p l = false <-> ~ In p l.
Proof.
  split.
  - intros H I. apply mem_in in I. congruence.
  - intros H. destruct (mem p l) eqn:E; [apply mem_in in E; contradiction|reflexivity].
Qed.
Lemma mem_snoc p l x : mem p (l ++ [x]) = mem p l || path_eqb p x.
Proof. unfold mem. rewrite existsb_app. cbn. rewrite orb_false_r. reflexivity. Qed.
Lemma nodupb_sound l : nodupb l = true -> NoDup l.
Proof.
  induction l as [|x r IH]; cbn; intros H; [constructor|].
  apply andb_prop in H as [H1 H2]. constructor; [|apply IH; exact H2].
  apply negb_true_iff in H1. apply mem_false. exact H1.
Qed.

(* ---------- prefixes and suffixes ---------- *)
Lemma strip_prefix_spec p s r : strip_prefix p s = Some r <-> s = p ++ r.
Proof.
  revert s; induction p as [|x p IH]; intros s; cbn.
  - split; intros H; [inversion H; reflexivity|subst; reflexivity].
  - destruct s as [|y s]; [split; intros H; discriminate|].
    destruct (Byte.eqb x y) eqn:E.
    + apply byte_eqb_eq in E. subst. rewrite IH. split; intros H; [subst; reflexivity|inversion H; reflexivity].
    + apply byte_eqb_neq in E. split; intros H; [discriminate|inversion H; congruence].
Qed.
Lemma strip_suffix_spec suf s r : strip_suffix suf s = Some r <-> s = r ++ suf.
Proof.
  unfold strip_suffix. destruct (strip_prefix (rev suf) (rev s)) as [x|] eqn:E.
  - apply strip_prefix_spec in E. split; intros H.
    + inversion H; subst. rewrite <- (rev_involutive s), E, rev_app_distr, rev_involutive. reflexivity.
    + f_equal. subst s. rewrite rev_app_distr in E. apply app_inv_head in E. rewrite <- E. apply rev_involutive.
  - split; intros H; [discriminate|]. subst s. rewrite rev_app_distr in E.
    assert (X : strip_prefix (rev suf) (rev suf ++ rev r) = Some (rev r)) by (apply strip_prefix_spec; reflexivity).
    congruence.
Qed.
Lemma strip_suffix_app suf r : strip_suffix suf (r ++ suf) = Some r.
Proof. apply strip_suffix_spec. reflexivity. Qed.

(* a name cannot end in both "_templ.go" and ".templ" *)
Lemma suffixes_exclusive a b : a ++ sfx_gen <> b ++ sfx_templ.
Proof.
  intros H. apply (f_equal (@rev byte)) in H. rewrite !rev_app_distr in H.
  remember (rev a) as ra. remember (rev b) as rb. vm_compute in H. discriminate H.
Qed.

Lemma source_target q p : source_of q = Some p <-> target_of p = Some q.
Proof.
  unfold source_of, target_of. destruct q as [d n], p as [d' n']. cbn. split.
  - destruct (strip_suffix sfx_gen n) as [st|] eqn:E; [|discriminate]. intros H. inversion H; subst.
    apply strip_suffix_spec in E. subst n. rewrite strip_suffix_app. reflexivity.
  - destruct (strip_suffix sfx_templ n') as [st|] eqn:E; [|discriminate]. intros H. inversion H; subst.
    apply strip_suffix_spec in E. subst n'. rewrite strip_suffix_app. reflexivity.
Qed.
Lemma source_not_target p s : source_of p = Some s -> target_of p = None.
Proof.
  unfold source_of, target_of. destruct (strip_suffix sfx_gen (snd p)) as [a|] eqn:E; [|discriminate]. intros _.
  destruct (strip_suffix sfx_templ (snd p)) as [b|] eqn:F; [|reflexivity].
  apply strip_suffix_spec in E. apply strip_suffix_spec in F. rewrite E in F. apply suffixes_exclusive in F. contradiction.
Qed.
Lemma target_not_source p g : target_of p = Some g -> source_of p = None.
Proof.
  intros H. destruct (source_of p) as [s|] eqn:E; [|reflexivity]. apply source_not_target in E. congruence.
Qed.
Lemma source_fst q p : source_of q = Some p -> fst p = fst q.
Proof. unfold source_of. destruct (strip_suffix sfx_gen (snd q)); [|discriminate]. intros H; inversion H; reflexivity. Qed.

(* ---------- map updates ---------- *)
Lemma upd_same (t : fs) p v : upd t p v p = v.
Proof. unfold upd. rewrite path_eqb_refl. reflexivity. Qed.
Lemma upd_other (t : fs) p v q : q <> p -> upd t p v q = t q.
Proof. intros H. unfold upd. apply path_eqb_neq in H. rewrite H. reflexivity. Qed.

Section Handlers.
Variable generate : path -> bytes -> option bytes.
Variable keep lazy : bool.
Variable now : Z.
Notation effect := (effect generate keep lazy).
Notation apply_action := (apply_action now).
Notation handle := (handle generate keep lazy now).
Notation run := (run generate keep lazy now).
Notation step := (step generate keep lazy now).
Notation steps := (steps generate keep lazy now).

(* what a handler may write, and where *)
Lemma effect_write t p g c k : effect t p = (AWrite g c, k) ->
  target_of p = Some g /\ source_of p = None /\ exists cc mt, t p = Some (File cc mt) /\ k = O.
Proof.
  unfold effect. destruct (source_of p) as [src|] eqn:S.
  - destruct (t src); [discriminate|]. destruct keep; [discriminate|]. destruct (is_dir (t p)); discriminate.
  - destruct (t p) as [e|] eqn:T; [|discriminate]. destruct (target_of p) as [g'|] eqn:G; [|discriminate].
    destruct e as [cc mt|]; [|discriminate].
    destruct (lazy && newer (t g') mt); [discriminate|]. destruct (generate p cc); [|discriminate].
    destruct (is_dir (t g')); [discriminate|].
    intros H; inversion H; subst. split; [reflexivity|]. split; [reflexivity|]. exists cc, mt. split; reflexivity.
Qed.
Lemma effect_remove t p g k : effect t p = (ARemove g, k) ->
  g = p /\ k = O /\ keep = false /\ exists src, source_of p = Some src /\ t src = None.
Proof.
  unfold effect. destruct (source_of p) as [src|] eqn:S.
  - destruct (t src) eqn:T; [discriminate|]. destruct keep eqn:K; [discriminate|].
    destruct (is_dir (t p)); [discriminate|].
    intros H; inversion H; subst. repeat split; try reflexivity. exists src. split; [reflexivity|exact T].
  - destruct (t p) as [e|]; [|discriminate]. destruct (target_of p) as [g'|]; [|discriminate].
    destruct e as [cc mt|]; [|discriminate].
    destruct (lazy && newer (t g') mt); [discriminate|]. destruct (generate p cc); [|discriminate].
    destruct (is_dir (t g')); discriminate.
Qed.
(* a directory is never written over or removed *)
Lemma effect_write_nodir t p g c k : effect t p = (AWrite g c, k) -> is_dir (t g) = false.
Proof.
  unfold effect. destruct (source_of p) as [src|] eqn:S.
  - destruct (t src); [discriminate|]. destruct keep; [discriminate|]. destruct (is_dir (t p)); discriminate.
  - destruct (t p) as [e|] eqn:T; [|discriminate]. destruct (target_of p) as [g'|] eqn:G; [|discriminate].
    destruct e as [cc mt|]; [|discriminate].
    destruct (lazy && newer (t g') mt); [discriminate|]. destruct (generate p cc); [|discriminate].
    destruct (is_dir (t g')) eqn:D; [discriminate|]. intros H; inversion H; subst. exact D.
Qed.
Lemma effect_remove_nodir t p g k : effect t p = (ARemove g, k) -> is_dir (t g) = false.
Proof.
  unfold effect. destruct (source_of p) as [src|] eqn:S.
  - destruct (t src) eqn:T; [discriminate|]. destruct keep eqn:K; [discriminate|].
    destruct (is_dir (t p)) eqn:D; [discriminate|]. intros H; inversion H; subst. exact D.
  - destruct (t p) as [e|]; [|discriminate]. destruct (target_of p) as [g'|]; [|discriminate].
    destruct e as [cc mt|]; [|discriminate].
    destruct (lazy && newer (t g') mt); [discriminate|]. destruct (generate p cc); [|discriminate].
    destruct (is_dir (t g')); discriminate.
Qed.
Lemma apply_effect_dir t w q : is_dir (t q) = true -> apply_action (fst (effect t w)) t q = t q.
Proof.
  intros D. destruct (effect t w) as [a k] eqn:E. destruct a as [|g c|g]; cbn [fst Walk.apply_action]; [reflexivity| |].
  - destruct (path_eq_dec q g) as [->|N]; [|apply upd_other; exact N].
    apply effect_write_nodir in E. congruence.
  - destruct (path_eq_dec q g) as [->|N]; [|apply upd_other; exact N].
    apply effect_remove_nodir in E. congruence.
Qed.
(* what a handler reads *)
Lemma effect_reads t t' p :
  (forall s, source_of p = Some s -> t' s = t s) ->
  (forall s, source_of p = Some s -> t s = None -> t' p = t p) ->
  (source_of p = None -> t' p = t p) ->
  (forall g, source_of p = None -> t p <> None -> target_of p = Some g -> t' g = t g) ->
  effect t' p = effect t p.
Proof.
  intros H1 H0 H2 H3. unfold effect. destruct (source_of p) as [src|] eqn:S.
  - rewrite (H1 src eq_refl). destruct (t src) eqn:TS; [reflexivity|]. rewrite (H0 src eq_refl TS). reflexivity.
  - rewrite (H2 eq_refl). destruct (t p) as [e|] eqn:T; [|reflexivity].
    destruct (target_of p) as [g|] eqn:G; [|reflexivity].
    rewrite (H3 g eq_refl) by (try congruence; reflexivity). reflexivity.
Qed.

(* ---------- the tree after any set of handlers has completed ---------- *)
(* a _templ.go path q is written by the handler of its template when that exists, else by its own handler *)
Definition char (t : fs) (es : list path) (q : path) : option entry :=
  match source_of q with
  | None => t q
  | Some src =>
      match t src with
      | Some _ => if mem src es then apply_action (fst (effect t src)) t q else t q
      | None => if mem q es then apply_action (fst (effect t q)) t q else t q
      end
  end.
Definition nfail (t : fs) (es : list path) : nat := list_sum (map (fun p => snd (effect t p)) es).

Lemma char_nongen t es q : source_of q = None -> char t es q = t q.
Proof. intros H. unfold char. rewrite H. reflexivity. Qed.

Lemma char_dir t es q : is_dir (t q) = true -> char t es q = t q.
Proof.
  intros D. unfold char. destruct (source_of q) as [src|]; [|reflexivity].
  destruct (t src); [destruct (mem src es)|destruct (mem q es)]; try reflexivity; apply apply_effect_dir; exact D.
Qed.

(* a handler that has not run yet still sees what it would have seen at the start *)
Lemma effect_char t es p : ~ In p es -> forall T, (forall q, T q = char t es q) -> effect T p = effect t p.
Proof.
  intros N T HT. apply effect_reads.
  - intros s S. rewrite HT. apply char_nongen.
    apply source_target in S. eapply target_not_source; exact S.
  - intros s S TS. rewrite HT. unfold char. rewrite S, TS. apply mem_false in N. rewrite N. reflexivity.
  - intros S. rewrite HT. apply char_nongen. exact S.
  - intros g S TP G. rewrite HT. unfold char. apply source_target in G. rewrite G.
    destruct (t p) eqn:E; [|congruence]. apply mem_false in N. rewrite N. reflexivity.
Qed.

Lemma apply_action_at a (T T' : fs) q : T q = T' q -> apply_action a T q = apply_action a T' q.
Proof.
  intros H. destruct a as [|g c|g]; cbn; try exact H; unfold upd; destruct (path_eqb q g); auto.
Qed.

(* completing the handler of p (not completed before) *)
Lemma char_snoc t es p q : ~ In p es ->
  apply_action (fst (effect t p)) (char t es) q = char t (es ++ [p]) q.
Proof.
  intros N. unfold char at 2. destruct (source_of q) as [src|] eqn:S.
  - (* q is a _templ.go name *)
    destruct (t src) as [e|] eqn:TS.
    + rewrite mem_snoc. destruct (path_eqb src p) eqn:E.
      * apply path_eqb_eq in E. subst p. apply mem_false in N. rewrite N. cbn [orb].
        apply apply_action_at. unfold char. rewrite S, TS, N. reflexivity.
      * rewrite orb_false_r.
        assert (X : apply_action (fst (effect t p)) (char t es) q = char t es q).
        { destruct (effect t p) as [a k] eqn:Ef. destruct a as [|g c|g]; cbn; try reflexivity.
          - apply effect_write in Ef as [G _]. apply source_target in G.
            apply upd_other. intros ->. rewrite S in G. inversion G. subst. rewrite path_eqb_refl in E. discriminate.
          - apply effect_remove in Ef as [-> [_ [_ [s' [S' T']]]]].
            apply upd_other. intros ->. rewrite S in S'. inversion S'; subst. congruence. }
        rewrite X. unfold char. rewrite S, TS. reflexivity.
    + rewrite mem_snoc. destruct (path_eqb q p) eqn:E.
      * apply path_eqb_eq in E. subst p. apply mem_false in N. rewrite N. cbn [orb].
        apply apply_action_at. unfold char. rewrite S, TS, N. reflexivity.
      * rewrite orb_false_r.
        assert (X : apply_action (fst (effect t p)) (char t es) q = char t es q).
        { destruct (effect t p) as [a k] eqn:Ef. destruct a as [|g c|g]; cbn; try reflexivity.
          - apply effect_write in Ef as [G [_ [cc [mt [TP _]]]]]. apply source_target in G.
            apply upd_other. intros ->. rewrite S in G. inversion G. subst. congruence.
          - apply effect_remove in Ef as [-> _].
            apply upd_other. intros ->. rewrite path_eqb_refl in E. discriminate. }
        rewrite X. unfold char. rewrite S, TS. reflexivity.
  - (* any other path is never written *)
    destruct (effect t p) as [a k] eqn:Ef. destruct a as [|g c|g]; cbn.
    + apply char_nongen; exact S.
    + apply effect_write in Ef as [G _]. apply source_target in G.
      rewrite upd_other; [apply char_nongen; exact S|]. intros ->. congruence.
    + apply effect_remove in Ef as [-> [_ [_ [s' [S' _]]]]].
      rewrite upd_other; [apply char_nongen; exact S|]. intros ->. congruence.
Qed.

Lemma nfail_snoc t es p : nfail t (es ++ [p]) = (snd (effect t p) + nfail t es)%nat.
Proof. unfold nfail. rewrite map_app, list_sum_app. cbn. lia. Qed.

Lemma run_snoc st es p : run st (es ++ [p]) = handle (run st es) p.
Proof. unfold Walk.run. rewrite fold_left_app. reflexivity. Qed.

(* sequential runs *)
Lemma run_char t es : NoDup es ->
  (forall q, tree (run (init t) es) q = char t es q) /\ errs (run (init t) es) = nfail t es.
Proof.
  induction es as [|p es IH] using rev_ind; intros ND.
  - split; [|reflexivity]. intros q. cbn. unfold char. destruct (source_of q); [|reflexivity].
    destruct (t p); reflexivity.
  - apply NoDup_remove in ND as [ND N]. rewrite app_nil_r in *. destruct (IH ND) as [IT IE].
    rewrite run_snoc. unfold Walk.handle. cbn [tree errs].
    rewrite (effect_char t es p N _ IT). split.
    + intros q. rewrite <- char_snoc by exact N. apply apply_action_at. apply IT.
    + rewrite IE, nfail_snoc. reflexivity.
Qed.

(* [char] and [nfail] depend on the set of completed handlers only *)
Lemma char_perm t es es' q : (forall p, In p es <-> In p es') -> char t es q = char t es' q.
Proof.
  intros H. assert (M : forall p, mem p es = mem p es').
  { intros p. destruct (mem p es) eqn:A; symmetry; [apply mem_in, H, mem_in, A|].
    apply mem_false. intros I. apply H in I. apply mem_in in I. congruence. }
  unfold char. destruct (source_of q) as [src|]; [|reflexivity]. destruct (t src); rewrite M; reflexivity.
Qed.
Lemma nfail_perm t es es' : Permutation es es' -> nfail t es = nfail t es'.
Proof.
  intros P. unfold nfail. unfold list_sum in *. induction P; cbn [map fold_right] in *; lia.
Qed.

Lemma schedule_independent t es es' : NoDup es -> Permutation es es' ->
  (forall q, tree (run (init t) es) q = tree (run (init t) es') q)
  /\ errs (run (init t) es) = errs (run (init t) es').
Proof.
  intros ND P. assert (ND' : NoDup es') by (eapply Permutation_NoDup; eassumption).
  destruct (run_char t es ND) as [A B]. destruct (run_char t es' ND') as [A' B']. split.
  - intros q. rewrite A, A'. apply char_perm. intros p. split; apply Permutation_in; [exact P|symmetry; exact P].
  - rewrite B, B'. apply nfail_perm. exact P.
Qed.

(* ---------- interleaved runs: at most w handlers in flight, reads at start, write at completion ---------- *)
Definition inv (t : fs) (es : list path) (c : cfg) : Prop :=
  exists fin, Permutation es (fin ++ map fst (inflight c) ++ pending c)
    /\ (forall q, ctree c q = char t fin q) /\ cerrs c = nfail t fin
    /\ Forall (fun pa => snd pa = effect t (fst pa)) (inflight c).

Lemma inv_start t es : inv t es (start_cfg t es).
Proof.
  exists []. cbn. repeat split; try reflexivity; [|constructor].
  intros q. unfold char. destruct (source_of q); [|reflexivity]. destruct (t p); reflexivity.
Qed.

Lemma inv_step w t es c c' : NoDup es -> inv t es c -> step w c c' -> inv t es c'.
Proof.
  intros ND [fin [P [HT [HE HF]]]] St. inversion St; subst; clear St.
  - (* start: p reads the current tree *)
    rename H into Pe. rewrite Pe in P. exists fin. cbn [ctree cerrs pending inflight map fst].
    assert (N : ~ In p fin).
    { assert (ND' : NoDup (fin ++ map fst (inflight c) ++ p :: rest)) by (eapply Permutation_NoDup; eassumption).
      intros I. rewrite app_assoc in ND'. apply NoDup_remove_2 in ND'. apply ND'. rewrite <- app_assoc.
      apply in_or_app. left. exact I. }
    repeat split; try assumption.
    + etransitivity; [exact P|]. apply Permutation_app_head. symmetry. apply Permutation_middle.
    + constructor; [|exact HF]. cbn. apply effect_char with (es := fin); assumption.
  - (* finish *)
    rename H into Ie. rewrite Ie in P, HF. exists (fin ++ [p]). cbn [ctree cerrs pending inflight].
    rewrite map_app in P. cbn [map fst] in P.
    assert (ND' : NoDup (fin ++ (map fst pre ++ p :: map fst post) ++ pending c)) by (eapply Permutation_NoDup; eassumption).
    assert (N : ~ In p fin).
    { intros I. rewrite <- app_assoc in ND'. rewrite app_assoc in ND'. rewrite <- app_assoc in ND'.
      cbn in ND'. rewrite app_assoc in ND'. apply NoDup_remove_2 in ND'. apply ND'.
      apply in_or_app. left. apply in_or_app. left. exact I. }
    apply Forall_app in HF as [HF1 HF2]. inversion HF2 as [|x y Hx Hy]; subst. cbn in Hx.
    repeat split.
    + etransitivity; [exact P|]. rewrite map_app. rewrite <- !app_assoc. apply Permutation_app_head.
      cbn. rewrite <- Permutation_middle. reflexivity.
    + intros q. rewrite <- char_snoc by exact N. rewrite <- Hx. cbn [fst]. apply apply_action_at. apply HT.
    + rewrite nfail_snoc, <- Hx, HE. reflexivity.
    + apply Forall_app. split; assumption.
Qed.

Lemma inv_steps w t es c : NoDup es -> steps w (start_cfg t es) c -> inv t es c.
Proof.
  intros ND H. remember (start_cfg t es) as c0 eqn:E. induction H.
  - subst. apply inv_start.
  - eapply inv_step; [exact ND|apply IHsteps; exact E|eassumption].
Qed.

Lemma interleaving_char w t es c : NoDup es -> steps w (start_cfg t es) c -> finished c ->
  (forall q, ctree c q = char t es q) /\ cerrs c = nfail t es.
Proof.
  intros ND H [Fp Fi]. destruct (inv_steps w t es c ND H) as [fin [P [HT [HE _]]]].
  rewrite Fp, Fi in P. cbn in P. rewrite app_nil_r in P. split.
  - intros q. rewrite HT. apply char_perm. intros p. split; apply Permutation_in; [symmetry; exact P|exact P].
  - rewrite HE. apply nfail_perm. symmetry. exact P.
Qed.

(* the sequential schedule is one of the interleavings, for every w >= 1 *)
Lemma steps_trans w a b c : steps w a b -> steps w b c -> steps w a c.
Proof. intros H1 H2. induction H2; [exact H1|eapply steps_step; [apply IHsteps; exact H1|eassumption]]. Qed.

Lemma one_handler_steps w T e x l : (1 <= w)%nat ->
  steps w {| ctree := T; cerrs := e; pending := x :: l; inflight := [] |}
          {| ctree := tree (handle {| tree := T; errs := e |} x); cerrs := errs (handle {| tree := T; errs := e |} x);
             pending := l; inflight := [] |}.
Proof.
  intros W. eapply steps_step; [eapply steps_step; [apply steps_refl|]|].
  - eapply step_start; cbn [pending inflight length]; [reflexivity|lia].
  - cbn [ctree cerrs pending inflight]. destruct (effect T x) as [a k] eqn:Ef.
    pose proof (step_finish generate keep lazy now w
      {| ctree := T; cerrs := e; pending := l; inflight := [(x, (a, k))] |} [] x a k [] eq_refl) as S.
    cbn [ctree cerrs pending inflight app] in S. unfold Walk.handle. cbn [tree errs]. rewrite Ef. cbn [fst snd]. exact S.
Qed.

Lemma sequential_steps_gen w : (1 <= w)%nat -> forall es l T e,
  steps w {| ctree := T; cerrs := e; pending := es ++ l; inflight := [] |}
          {| ctree := tree (run {| tree := T; errs := e |} es); cerrs := errs (run {| tree := T; errs := e |} es);
             pending := l; inflight := [] |}.
Proof.
  intros W. induction es as [|x es IH]; intros l T e.
  - cbn. apply steps_refl.
  - cbn [app]. eapply steps_trans; [apply one_handler_steps; exact W|].
    specialize (IH l (tree (handle {| tree := T; errs := e |} x)) (errs (handle {| tree := T; errs := e |} x))).
    unfold Walk.run in *. cbn [fold_left].
    destruct (handle {| tree := T; errs := e |} x) as [T' e'] eqn:Hh. cbn [tree errs] in IH. exact IH.
Qed.

Lemma sequential_steps w t es : (1 <= w)%nat ->
  steps w (start_cfg t es)
          {| ctree := tree (run (init t) es); cerrs := errs (run (init t) es); pending := []; inflight := [] |}.
Proof.
  intros W. pose proof (sequential_steps_gen w W es [] t O) as H. rewrite app_nil_r in H. exact H.
Qed.

End Handlers.

(* ---------- the walk ---------- *)
Lemma insert_perm x l : Permutation (insert x l) (x :: l).
Proof.
  induction l as [|y r IH]; cbn; [reflexivity|].
  destruct (path_ltb (fst y) (fst x)); [|reflexivity].
  etransitivity; [apply perm_skip; exact IH|apply perm_swap].
Qed.
Lemma isort_perm l : Permutation (isort l) l.
Proof.
  induction l as [|x r IH]; cbn; [reflexivity|].
  etransitivity; [apply insert_perm|apply perm_skip; exact IH].
Qed.

Lemma lookup_some_in l p e : lookup l p = Some e -> In (p, e) l.
Proof.
  induction l as [|[q e'] r IH]; cbn; [discriminate|].
  destruct (path_eqb p q) eqn:E.
  - intros H; inversion H; subst. apply path_eqb_eq in E. subst. left; reflexivity.
  - intros H. right. apply IH; exact H.
Qed.
Lemma lookup_none_notin l p : lookup l p = None <-> ~ In p (map fst l).
Proof.
  induction l as [|[q e'] r IH]; cbn; [tauto|].
  destruct (path_eqb p q) eqn:E.
  - apply path_eqb_eq in E. subst. split; [discriminate|]. intros H. exfalso. apply H. left; reflexivity.
  - apply path_eqb_neq in E. rewrite IH. split; [intros H [X|X]; [congruence|contradiction]|tauto].
Qed.
Lemma in_lookup l p e : NoDup (map fst l) -> In (p, e) l -> lookup l p = Some e.
Proof.
  induction l as [|[q e'] r IH]; cbn; [contradiction|]. intros ND [H|H].
  - inversion H; subst. rewrite path_eqb_refl. reflexivity.
  - inversion ND as [|x y N ND']; subst. destruct (path_eqb p q) eqn:E.
    + apply path_eqb_eq in E. subst. exfalso. apply N. apply (in_map fst) in H. exact H.
    + apply IH; assumption.
Qed.

Lemma walk_in l p : NoDup (map fst l) -> (In p (walk l) <-> in_walk (lookup l) p = true).
Proof.
  intros ND. unfold walk, in_walk.
  rewrite in_map_iff. split.
  - intros [[q e] [H1 H2]]. cbn in H1. subst q. apply filter_In in H2 as [H2 H3].
    apply (Permutation_in _ (isort_perm l)) in H2. rewrite (in_lookup _ _ _ ND H2). exact H3.
  - destruct (lookup l p) as [e|] eqn:L; [|discriminate]. intros H. exists (p, e). split; [reflexivity|].
    apply filter_In. split; [|exact H]. apply (Permutation_in _ (Permutation_sym (isort_perm l))).
    apply lookup_some_in; exact L.
Qed.

Lemma filter_fst_nodup (f : path * entry -> bool) l : NoDup (map fst l) -> NoDup (map fst (filter f l)).
Proof.
  induction l as [|x r IH]; cbn; intros ND; [constructor|]. inversion ND as [|a b N ND']; subst.
  destruct (f x); [|apply IH; exact ND']. cbn. constructor; [|apply IH; exact ND'].
  intros I. apply N. apply in_map_iff in I as [y [Y1 Y2]]. apply filter_In in Y2 as [Y2 _].
  rewrite <- Y1. apply in_map. exact Y2.
Qed.
Lemma walk_nodup l : NoDup (map fst l) -> NoDup (walk l).
Proof.
  intros ND. unfold walk.
  apply filter_fst_nodup. eapply Permutation_NoDup; [|exact ND].
  apply Permutation_map. symmetry. apply isort_perm.
Qed.

(* ---------- the specification's vocabulary against the model's ---------- *)
Lemma byte_eqb_sym a b : Byte.eqb a b = Byte.eqb b a.
Proof.
  destruct (Byte.eqb a b) eqn:E; symmetry.
  - apply byte_eqb_eq in E. subst. apply byte_eqb_refl.
  - apply byte_eqb_neq. apply byte_eqb_neq in E. congruence.
Qed.
Lemma skipped_name_eq n : skipped_name n = should_skip_name n.
Proof.
  unfold skipped_name, should_skip_name. rewrite <- !orb_assoc. f_equal. f_equal.
  destruct n as [|b r]; [reflexivity|]. change (bs ".") with ["."%byte]. change (bs "_") with ["_"%byte].
  cbn [has_prefix]. rewrite !andb_true_r, (byte_eqb_sym b "."), (byte_eqb_sym b "_"). reflexivity.
Qed.
Lemma outside_visible p : outside_skipped p = visible_dir (fst p).
Proof.
  unfold outside_skipped, visible_dir. induction (fst p) as [|n r IH]; cbn; [reflexivity|].
  rewrite skipped_name_eq, IH. reflexivity.
Qed.
Lemma template_of_source q : template_of q = source_of q.
Proof. reflexivity. Qed.
Lemma sibling_of_target p : sibling_of p = target_of p.
Proof. reflexivity. Qed.
Lemma sibling_iff src g : sibling src g <-> source_of g = Some src.
Proof.
  unfold sibling, source_of. destruct src as [d n], g as [d' n']. cbn [fst snd]. split.
  - intros [-> [stem [-> ->]]]. change (bs "_templ.go") with sfx_gen. rewrite strip_suffix_app. reflexivity.
  - destruct (strip_suffix sfx_gen n') as [st|] eqn:E; [|discriminate]. intros H. inversion H; subst.
    apply strip_suffix_spec in E. split; [reflexivity|]. exists st. split; [reflexivity|exact E].
Qed.

Lemma templ_name_matches st : matches_pattern (st ++ sfx_templ) = true.
Proof. unfold matches_pattern, has_suffix. rewrite strip_suffix_app. apply orb_true_r. Qed.
Lemma gen_name_matches st : matches_pattern (st ++ sfx_gen) = true.
Proof.
  unfold matches_pattern, has_suffix.
  replace (st ++ sfx_gen) with ((st ++ bs "_templ") ++ sfx_go) by (rewrite <- app_assoc; reflexivity).
  rewrite strip_suffix_app. reflexivity.
Qed.
Lemma target_matches p g : target_of p = Some g -> matches_pattern (snd p) = true /\ matches_pattern (snd g) = true /\ fst g = fst p.
Proof.
  unfold target_of. destruct (strip_suffix sfx_templ (snd p)) as [st|] eqn:E; [|discriminate].
  intros H; inversion H; subst. apply strip_suffix_spec in E. rewrite E. cbn [fst snd].
  split; [apply templ_name_matches|]. split; [apply gen_name_matches|reflexivity].
Qed.

Lemma content_eqb_eq a b : content_eqb a b = true <-> a = b.
Proof.
  destruct a, b; cbn; split; intros H; try reflexivity; try discriminate.
  - apply bytes_eqb_eq in H. congruence.
  - inversion H. apply bytes_eqb_refl.
Qed.
Lemma entry_eqb_eq a b : entry_eqb a b = true <-> a = b.
Proof.
  destruct a as [[c m|]|], b as [[c' m'|]|]; cbn; split; intros H; try reflexivity; try discriminate.
  - apply andb_prop in H as [H1 H2]. apply bytes_eqb_eq in H1. apply Z.eqb_eq in H2. congruence.
  - inversion H; subst. rewrite bytes_eqb_refl, Z.eqb_refl. reflexivity.
Qed.

(* ---------- well-formedness, unpacked ---------- *)
Definition no_pattern_dirs (t : fs) : Prop := forall p, t p = Some Dir -> source_of p = None -> matches_pattern (snd p) = false.
Definition lazy_pre (generate : path -> bytes -> option bytes) (lazy : bool) (t : fs) : Prop :=
  lazy = true -> forall p c mt g gc gmt, visible_dir (fst p) = true -> t p = Some (File c mt) -> target_of p = Some g ->
    t g = Some (File gc gmt) -> Z.ltb mt gmt = true -> generate p c = Some gc.

Lemma wf_facts generate lazy root l : wf_tree generate lazy root l = true ->
  NoDup (map fst l) /\ matches_pattern root = false /\ no_pattern_dirs (lookup l) /\ lazy_pre generate lazy (lookup l).
Proof.
  unfold wf_tree. intros H. apply andb_prop in H as [H H5]. apply andb_prop in H as [H H4].
  apply andb_prop in H as [H H3]. apply andb_prop in H as [H1 H2].
  split; [apply nodupb_sound; exact H1|]. split; [apply negb_true_iff; exact H2|]. split.
  - intros p L S. apply lookup_some_in in L. rewrite forallb_forall in H4. specialize (H4 _ L).
    unfold dir_name_ok in H4. cbn [fst snd] in H4. rewrite S in H4. apply negb_true_iff. exact H4.
  - intros Lz p c mt g gc gmt V L G LG Lt. subst lazy. cbn in H5. rewrite forallb_forall in H5.
    apply lookup_some_in in L. specialize (H5 _ L). unfold lazy_ok in H5. cbn [fst snd] in H5.
    rewrite V in H5. cbn [negb] in H5. rewrite G, LG, Lt in H5.
    destruct (generate p c) as [code|]; [|discriminate]. apply bytes_eqb_eq in H5. congruence.
Qed.

Section Spec.
Variable generate : path -> bytes -> option bytes.
Variable keep lazy : bool.
Variable now : Z.
Notation effect := (effect generate keep lazy).
Notation char := (char generate keep lazy now).
Notation nfail := (nfail generate keep lazy).

(* the events of a run *)
Definition events_ok (l : listing) (es : list path) : Prop :=
  NoDup es /\ (forall p, In p (walk l) -> In p es)
  /\ (forall p, In p es -> In p (walk l) \/ late_gen (lookup l) p).

Lemma walk_events_ok l : NoDup (map fst l) -> events_ok l (walk l).
Proof. intros ND. split; [apply walk_nodup; exact ND|]. split; auto. Qed.

Lemma nfail_pos t es : nfail t es <> O <-> exists p, In p es /\ snd (effect t p) <> O.
Proof.
  unfold WalkProof.nfail, list_sum. induction es as [|x r IH]; cbn [map fold_right].
  - split; [congruence|intros [p [[] _]]].
  - split.
    + intros H. destruct (Nat.eq_dec (snd (effect t x)) O) as [Z|Z].
      * rewrite Z in H. cbn in H. apply IH in H as [p [I P]]. exists p. split; [right; exact I|exact P].
      * exists x. split; [left; reflexivity|exact Z].
    + intros [p [[->|I] P]]; [lia|]. assert (X : fold_right Init.Nat.add O (map (fun p => snd (effect t p)) r) <> O)
        by (apply IH; exists p; split; assumption). lia.
Qed.

(* membership of the two possible writers of a _templ.go path *)
Lemma template_in_events l es src e :
  NoDup (map fst l) -> events_ok l es -> lookup l src = Some e -> source_of src = None ->
  (In src es <-> in_walk (lookup l) src = true).
Proof.
  intros ND [_ [E1 E2]] L S. rewrite <- (walk_in l src ND). split; [|apply E1].
  intros I. destruct (E2 _ I) as [W|[s [S' _]]]; [exact W|congruence].
Qed.
Lemma orphan_in_events l es q src :
  NoDup (map fst l) -> events_ok l es -> source_of q = Some src -> lookup l src = None ->
  (In q es <-> in_walk (lookup l) q = true).
Proof.
  intros ND [_ [E1 E2]] S L. rewrite <- (walk_in l q ND). split; [|apply E1].
  intros I. destruct (E2 _ I) as [W|[s [S' T]]]; [exact W|]. rewrite S in S'. inversion S'; subst. contradiction.
Qed.

Lemma mem_iff p es (P : Prop) : (In p es <-> P) -> (mem p es = true <-> P).
Proof. intros H. rewrite mem_in. exact H. Qed.

Definition spec_content0 (t : fs) (q : path) : content :=
  if outside_skipped q then
    match template_of q with
    | Some src =>
        match t src with
        | Some (File c _) => match generate src c with Some code => CFile code | None => content_of (t q) end
        | Some Dir => content_of (t q)
        | None => if keep then content_of (t q) else CAbsent
        end
    | None => content_of (t q)
    end
  else content_of (t q).
Lemma spec_content_split t q :
  spec_content generate keep t q = if is_dir (t q) then CDir else spec_content0 t q.
Proof. unfold spec_content, spec_content0. destruct (t q) as [[c m|]|]; reflexivity. Qed.
Lemma is_dir_true o : is_dir o = true -> o = Some Dir.
Proof. destruct o as [[c m|]|]; cbn; congruence. Qed.

Theorem char_meets_spec root l es :
  wf_tree generate lazy root l = true -> events_ok l es ->
  forall (T : fs) (n : nat), (forall q, T q = char (lookup l) es q) -> n = nfail (lookup l) es ->
  spec_holds generate keep l T (exit_fail n).
Proof.
  intros WF EV T n HT Hn. destruct (wf_facts _ _ _ _ WF) as [ND [_ [NPD LP]]].
  set (t := lookup l) in *.
  assert (INW : forall p e, t p = Some e -> in_walk t p = emitted (p, e)).
  { intros p e L. unfold in_walk. rewrite L. reflexivity. }
  repeat split.
  - (* contents *)
    intros q. rewrite HT, spec_content_split. fold t. destruct (is_dir (t q)) eqn:D.
    { rewrite char_dir by exact D. rewrite (is_dir_true _ D). reflexivity. }
    unfold spec_content0. rewrite outside_visible, template_of_source. fold t.
    unfold WalkProof.char. destruct (source_of q) as [src|] eqn:S; [|destruct (visible_dir (fst q)); reflexivity].
    pose proof (proj1 (source_target _ _) S) as G. pose proof (target_not_source _ _ G) as SS.
    destruct (target_matches _ _ G) as [M1 [M2 F]].
    destruct (t src) as [e|] eqn:TS.
    + (* the template exists *)
      pose proof (template_in_events l es src e ND EV TS SS) as IE. fold t in IE. rewrite (INW _ _ TS) in IE.
      destruct src as [sd sn]. destruct q as [qd qn]. cbn [fst snd] in *. subst sd.
      unfold emitted in IE. rewrite M1 in IE.
      destruct e as [c mt|]; [|exfalso; apply (NPD _ TS) in SS; cbn in SS; congruence].
      rewrite andb_true_r in IE. cbn [andb] in IE. rewrite andb_true_r in IE.
      destruct (visible_dir qd) eqn:V.
      * assert (Me : mem (qd, sn) es = true) by (apply mem_in, IE; reflexivity). rewrite Me.
        unfold Walk.effect. rewrite SS, TS, G.
        destruct (lazy && newer (t (qd, qn)) mt) eqn:LZ.
        -- cbn [fst apply_action]. apply andb_prop in LZ as [LZ1 LZ2]. unfold newer in LZ2.
           destruct (t (qd, qn)) as [[gc gmt|]|] eqn:TQ; try discriminate.
           rewrite (LP LZ1 (qd, sn) c mt (qd, qn) gc gmt V TS G TQ LZ2). reflexivity.
        -- rewrite D. destruct (generate (qd, sn) c) as [code|]; cbn [fst apply_action]; [rewrite upd_same|]; reflexivity.
      * assert (Me : mem (qd, sn) es = false) by (apply mem_false; intros I; apply IE in I; discriminate). rewrite Me. reflexivity.
    + (* orphan *)
      pose proof (orphan_in_events l es q src ND EV S TS) as IE. fold t in IE.
      assert (Ef : effect t q = if keep then (ANone, O) else (ARemove q, O)).
      { unfold Walk.effect. rewrite S, TS, D. reflexivity. }
      destruct (mem q es) eqn:Me.
      * apply mem_in, IE in Me. unfold in_walk in Me.
        destruct (t q) as [e|] eqn:TQ; [|discriminate]. unfold emitted in Me. destruct q as [qd qn].
        apply andb_prop in Me as [Me _]. apply andb_prop in Me as [V _]. cbn [fst] in *. rewrite V.
        rewrite Ef. destruct keep; cbn [fst apply_action]; [rewrite TQ; reflexivity|rewrite upd_same; reflexivity].
      * destruct (visible_dir (fst q)) eqn:V; [|reflexivity]. destruct keep; [reflexivity|].
        destruct (t q) as [e|] eqn:TQ; [|reflexivity]. exfalso.
        assert (X : in_walk t q = true).
        { rewrite (INW _ _ TQ). destruct q as [qd qn]. cbn [fst snd] in *. unfold emitted. rewrite V, M2. cbn [andb].
          destruct e; [reflexivity|discriminate D]. }
        apply IE, mem_in in X. congruence.
  - (* nothing else is touched *)
    intros q MT. rewrite HT. unfold may_touch in MT. rewrite outside_visible, template_of_source in MT.
    unfold WalkProof.char. destruct (source_of q) as [src|] eqn:S; [|reflexivity].
    rewrite andb_true_r in MT.
    pose proof (proj1 (source_target _ _) S) as G. pose proof (target_not_source _ _ G) as SS.
    destruct (target_matches _ _ G) as [M1 [M2 F]].
    destruct (t src) as [e|] eqn:TS.
    + pose proof (template_in_events l es src e ND EV TS SS) as IE. fold t in IE. rewrite (INW _ _ TS) in IE.
      assert (Me : mem src es = false).
      { apply mem_false. intros I. apply IE in I. destruct src as [sd sn]. unfold emitted in I.
        cbn [fst snd] in *. subst sd. rewrite MT in I. discriminate. }
      rewrite Me. reflexivity.
    + pose proof (orphan_in_events l es q src ND EV S TS) as IE. fold t in IE.
      assert (Me : mem q es = false).
      { apply mem_false. intros I. apply IE in I. unfold in_walk in I.
        destruct (t q) as [e|]; [|discriminate]. destruct q as [qd qn]. unfold emitted in I. cbn [fst] in MT.
        rewrite MT in I. discriminate. }
      rewrite Me. reflexivity.
  - (* failure reported -> some template cannot be generated *)
    intros EF. unfold exit_fail in EF. apply negb_true_iff, Nat.eqb_neq in EF. subst n.
    apply nfail_pos in EF as [p [I P]]. destruct EV as [_ [E1 E2]].
    unfold Walk.effect in P. destruct (source_of p) as [s|] eqn:S.
    { fold t in P. destruct (t s); [cbn in P; congruence|]. destruct keep; [cbn in P; congruence|].
      destruct (is_dir (t p)); cbn in P; congruence. }
    destruct (E2 _ I) as [W|[s [S' _]]]; [|congruence].
    apply (walk_in l p ND) in W. fold t in W.
    fold t in P. destruct (t p) as [e|] eqn:TP; [|cbn in P; congruence].
    rewrite (INW _ _ TP) in W.
    destruct (target_of p) as [g|] eqn:G; [|cbn in P; congruence].
    destruct e as [c mt|].
    2:{ apply (NPD _ TP) in S. destruct (target_matches _ _ G) as [M1 _]. congruence. }
    exists p. split; [apply lookup_some_in in TP; apply (in_map fst) in TP; exact TP|].
    unfold fails. rewrite outside_visible, sibling_of_target, G. fold t. rewrite TP.
    destruct p as [pd pn]. unfold emitted in W. apply andb_prop in W as [W _]. apply andb_prop in W as [V _].
    cbn [fst]. rewrite V. cbn [andb].
    destruct (lazy && newer (t g) mt); [cbn in P; congruence|].
    destruct (generate (pd, pn) c); [|reflexivity].
    destruct (t g) as [[gc gm|]|]; cbn in P; congruence.
  - (* a template that cannot be generated -> failure reported *)
    intros [src [I Fl]]. unfold fails in Fl. rewrite outside_visible, sibling_of_target in Fl. fold t in Fl.
    apply andb_prop in Fl as [V F3].
    destruct (target_of src) as [g|] eqn:G; [|discriminate].
    destruct (t src) as [[c mt|]|] eqn:TS; try discriminate.
    pose proof (target_not_source _ _ G) as SS. destruct (target_matches _ _ G) as [M1 _].
    pose proof (template_in_events l es src _ ND EV TS SS) as IE. fold t in IE. rewrite (INW _ _ TS) in IE.
    assert (Ie : In src es).
    { apply IE. destruct src as [sd sn]. unfold emitted. cbn [fst snd] in *. rewrite V, M1. reflexivity. }
    unfold exit_fail. apply negb_true_iff, Nat.eqb_neq. subst n. apply nfail_pos. exists src. split; [exact Ie|].
    unfold Walk.effect. rewrite SS. fold t. rewrite TS, G.
    destruct (lazy && newer (t g) mt) eqn:LZ.
    + apply andb_prop in LZ as [LZ1 LZ2]. unfold newer in LZ2.
      destruct (t g) as [[gc gmt|]|] eqn:TQ; try discriminate.
      rewrite (LP LZ1 src c mt g gc gmt V TS G TQ LZ2) in F3. discriminate.
    + destruct (generate src c) eqn:GN; [|cbn; congruence].
      destruct (t g) as [[gc gmt|]|]; try discriminate; cbn; congruence.
Qed.

(* a second run leaves the contents of every path as they are *)
Theorem second_run_contents root l es now2 l1 es2 :
  wf_tree generate lazy root l = true -> events_ok l es ->
  NoDup (map fst l1) -> (forall q, lookup l1 q = char (lookup l) es q) -> events_ok l1 es2 ->
  forall q, content_of (WalkProof.char generate keep lazy now2 (lookup l1) es2 q) = content_of (lookup l1 q).
Proof.
  intros WF EV ND1 H1 EV2 q. destruct (wf_facts _ _ _ _ WF) as [ND [_ [NPD LP]]].
  set (t := lookup l) in *. set (t1 := lookup l1) in *.
  destruct (is_dir (t1 q)) eqn:D1.
  { rewrite char_dir by exact D1. reflexivity. }
  assert (D : is_dir (t q) = false).
  { destruct (is_dir (t q)) eqn:D; [|reflexivity]. rewrite H1 in D1.
    rewrite (char_dir generate keep lazy now t es q D) in D1. congruence. }
  unfold WalkProof.char at 1. destruct (source_of q) as [src|] eqn:S; [|reflexivity].
  pose proof (proj1 (source_target _ _) S) as G. pose proof (target_not_source _ _ G) as SS.
  assert (T1S : t1 src = t src) by (rewrite H1; apply char_nongen; exact SS).
  assert (T1Q : t1 q = WalkProof.char generate keep lazy now t es q) by apply H1.
  unfold WalkProof.char in T1Q. rewrite S in T1Q.
  rewrite T1S. destruct (t src) as [e|] eqn:TS.
  - destruct (mem src es2) eqn:M2; [|reflexivity].
    unfold Walk.effect. rewrite SS, T1S, G.
    destruct e as [c mt|]; [|reflexivity].
    destruct (lazy && newer (t1 q) mt); [reflexivity|].
    destruct (generate src c) as [code|] eqn:GN; [|reflexivity]. rewrite D1.
    cbn [fst apply_action]. rewrite upd_same. cbn [content_of].
    (* src was an event of the first run as well *)
    assert (I1 : In src es).
    { apply mem_in in M2. assert (T1S' : t1 src = Some (File c mt)) by congruence.
      apply (template_in_events l1 es2 src _ ND1 EV2 T1S' SS) in M2. fold t1 in M2.
      apply (template_in_events l es src _ ND EV TS SS). fold t.
      unfold in_walk in *. rewrite T1S' in M2. rewrite TS. exact M2. }
    apply mem_in in I1. rewrite I1 in T1Q. rewrite T1Q.
    unfold Walk.effect. rewrite SS, TS, G.
    destruct (lazy && newer (t q) mt) eqn:LZ.
    + cbn [fst apply_action]. apply andb_prop in LZ as [LZ1 LZ2]. unfold newer in LZ2.
      destruct (t q) as [[gc gmt|]|] eqn:TQ; try discriminate.
      assert (V : visible_dir (fst src) = true).
      { apply mem_in in I1. apply (template_in_events l es src _ ND EV TS SS) in I1. fold t in I1.
        unfold in_walk in I1. rewrite TS in I1. destruct src as [sd sn].
        unfold emitted in I1. apply andb_prop in I1 as [I1 _]. apply andb_prop in I1 as [I1 _]. exact I1. }
      rewrite (LP LZ1 src c mt q gc gmt V TS G TQ LZ2) in GN. inversion GN. reflexivity.
    + rewrite GN, D. cbn [fst apply_action]. rewrite upd_same. reflexivity.
  - destruct (mem q es2) eqn:M2; [|reflexivity].
    assert (Ef : forall tt, tt src = None -> is_dir (tt q) = false ->
                 Walk.effect generate keep lazy tt q = if keep then (ANone, O) else (ARemove q, O)).
    { intros tt H H'. unfold Walk.effect. rewrite S, H, H'. reflexivity. }
    rewrite (Ef t1) by congruence. destruct keep eqn:K; [reflexivity|].
    cbn [fst apply_action]. rewrite upd_same. cbn [content_of].
    (* q exists after the first run and is an event of the second: impossible, the first run removed it *)
    exfalso. apply mem_in in M2.
    assert (T1N : t1 src = None) by congruence.
    apply (orphan_in_events l1 es2 q src ND1 EV2 S T1N) in M2. fold t1 in M2.
    unfold in_walk in M2. destruct (t1 q) as [e|] eqn:T1Q'; [|discriminate].
    destruct (mem q es) eqn:M1.
    + rewrite (Ef t TS D) in T1Q. cbn [fst apply_action] in T1Q. rewrite upd_same in T1Q. discriminate.
    + assert (X : in_walk t q = true) by (unfold in_walk; rewrite <- T1Q; exact M2).
      apply (orphan_in_events l es q src ND EV S TS) in X. apply mem_in in X. congruence.
Qed.

(* the executable check decides the specification for finite after-trees *)
Lemma spec_check_sound l l' failed : spec_check generate keep l l' failed = true -> spec_holds generate keep l (lookup l') failed.
Proof.
  unfold spec_check. intros H. apply andb_prop in H as [H HF]. rewrite forallb_forall in H.
  assert (OUT : forall q, ~ In q (map fst l ++ map fst l' ++ siblings l) ->
                lookup l q = None /\ lookup l' q = None /\ forall src e, source_of q = Some src -> lookup l src = Some e -> False).
  { intros q N. split; [|split].
    - apply lookup_none_notin. intros I. apply N. apply in_or_app. left. exact I.
    - apply lookup_none_notin. intros I. apply N. apply in_or_app. right. apply in_or_app. left. exact I.
    - intros src e S L. apply N. apply in_or_app. right. apply in_or_app. right.
      unfold siblings. apply in_flat_map. exists (src, e). split; [apply lookup_some_in; exact L|].
      cbn [fst]. rewrite sibling_of_target. apply source_target in S. rewrite S. left. reflexivity. }
  split; [|split].
  - intros q. destruct (in_dec path_eq_dec q (map fst l ++ map fst l' ++ siblings l)) as [I|N].
    + apply H in I. apply andb_prop in I as [I _]. apply content_eqb_eq in I. exact I.
    + destruct (OUT q N) as [A [B C]]. rewrite B. unfold spec_content. rewrite template_of_source, A. cbn [content_of].
      destruct (outside_skipped q); [|reflexivity]. destruct (source_of q) as [src|] eqn:S; [|reflexivity].
      destruct (lookup l src) as [e|] eqn:L; [exfalso; eapply C; [reflexivity|exact L]|]. destruct keep; reflexivity.
  - intros q MT. destruct (in_dec path_eq_dec q (map fst l ++ map fst l' ++ siblings l)) as [I|N].
    + apply H in I. apply andb_prop in I as [_ I]. rewrite MT in I. cbn [orb] in I. apply entry_eqb_eq. exact I.
    + destruct (OUT q N) as [A [B _]]. congruence.
  - apply eqb_prop in HF. rewrite HF. rewrite existsb_exists. split.
    + intros [[p e] [I F]]. exists p. split; [apply (in_map fst) in I; exact I|exact F].
    + intros [src [I F]]. apply in_map_iff in I as [[p e] [E I]]. cbn in E. subst p. exists (src, e). split; assumption.
Qed.
End Spec.

(* ---------- the statements of props/C15.v ---------- *)
Section Main.
Variable generate : path -> bytes -> option bytes.
Variable keep lazy : bool.
Variable now : Z.
Notation steps := (steps generate keep lazy now).

Lemma generate_spec root l w es c :
  wf_tree generate lazy root l = true -> events_ok l es ->
  steps w (start_cfg (lookup l) es) c -> finished c ->
  spec_holds generate keep l (ctree c) (exit_fail (cerrs c)).
Proof.
  intros WF EV St Fi. destruct (interleaving_char generate keep lazy now w (lookup l) es c (proj1 EV) St Fi) as [A B].
  eapply char_meets_spec; eassumption.
Qed.

Lemma interleavings_agree (t : fs) es es' w w' c c' :
  NoDup es -> Permutation es es' ->
  steps w (start_cfg t es) c -> finished c -> steps w' (start_cfg t es') c' -> finished c' ->
  (forall q, ctree c q = ctree c' q) /\ cerrs c = cerrs c'.
Proof.
  intros ND P S1 F1 S2 F2. assert (ND' : NoDup es') by (eapply Permutation_NoDup; eassumption).
  destruct (interleaving_char generate keep lazy now w t es c ND S1 F1) as [A B].
  destruct (interleaving_char generate keep lazy now w' t es' c' ND' S2 F2) as [A' B']. split.
  - intros q. rewrite A, A'. apply char_perm. intros p. split; apply Permutation_in; [exact P|symmetry; exact P].
  - rewrite B, B'. apply nfail_perm. exact P.
Qed.

Lemma second_run_noop root l w es c now2 w2 l1 es2 c2 :
  wf_tree generate lazy root l = true -> events_ok l es ->
  steps w (start_cfg (lookup l) es) c -> finished c ->
  NoDup (map fst l1) -> (forall q, lookup l1 q = ctree c q) -> events_ok l1 es2 ->
  Walk.steps generate keep lazy now2 w2 (start_cfg (lookup l1) es2) c2 -> finished c2 ->
  forall q, content_of (ctree c2 q) = content_of (ctree c q).
Proof.
  intros WF EV S1 F1 ND1 H1 EV2 S2 F2 q.
  destruct (interleaving_char generate keep lazy now w (lookup l) es c (proj1 EV) S1 F1) as [A _].
  destruct (interleaving_char generate keep lazy now2 w2 (lookup l1) es2 c2 (proj1 EV2) S2 F2) as [A2 _].
  rewrite A2, <- H1. eapply second_run_contents; try eassumption.
  intros q'. rewrite H1. apply A.
Qed.

Lemma failure_isolated l (T : fs) failed : spec_holds generate keep l T failed ->
  (forall src, In src (map fst l) -> fails generate (lookup l) src = true -> failed = true)
  /\ (forall src g cc mt code, outside_skipped src = true -> sibling src g ->
        lookup l src = Some (File cc mt) -> generate src cc = Some code -> lookup l g <> Some Dir ->
        content_of (T g) = CFile code).
Proof.
  intros [A [_ C]]. split.
  - intros src I F. apply C. exists src. split; assumption.
  - intros src g cc mt code O Sb L G ND. rewrite A, spec_content_split.
    destruct (is_dir (lookup l g)) eqn:D; [apply is_dir_true in D; contradiction|]. unfold spec_content0.
    pose proof (proj1 (sibling_iff _ _) Sb) as S. rewrite template_of_source, S.
    assert (OG : outside_skipped g = true).
    { unfold outside_skipped in *. rewrite <- (source_fst _ _ S). exact O. }
    rewrite OG, L, G. reflexivity.
Qed.

Lemma untouched l (T : fs) failed : spec_holds generate keep l T failed ->
  forall q, ~ (outside_skipped q = true /\ exists src, sibling src q) -> T q = lookup l q.
Proof.
  intros [_ [B _]] q N. apply B. unfold may_touch. destruct (outside_skipped q) eqn:O; [|reflexivity].
  rewrite template_of_source. destruct (source_of q) as [src|] eqn:S; [|reflexivity].
  exfalso. apply N. split; [reflexivity|]. exists src. apply sibling_iff. exact S.
Qed.
End Main.

(* ---------- modification times do not matter ---------- *)
(* what the specification demands of a path, and whether a template fails, depend on the CONTENTS of the input tree
   only: modification times occur nowhere in them *)
Lemma spec_content_ext generate keep (t t' : fs) q :
  (forall p, content_of (t p) = content_of (t' p)) -> spec_content generate keep t q = spec_content generate keep t' q.
Proof.
  intros H. unfold spec_content. pose proof (H q) as Hq.
  assert (X : forall src,
    match t src with
    | Some (File c _) => match generate src c with Some code => CFile code | None => content_of (t q) end
    | Some Dir => content_of (t q)
    | None => if keep then content_of (t q) else CAbsent
    end =
    match t' src with
    | Some (File c _) => match generate src c with Some code => CFile code | None => content_of (t' q) end
    | Some Dir => content_of (t' q)
    | None => if keep then content_of (t' q) else CAbsent
    end).
  { intros src. pose proof (H src) as Hs. rewrite Hq.
    destruct (t src) as [[cs ms|]|], (t' src) as [[cs' ms'|]|]; cbn in Hs; try discriminate; try reflexivity.
    inversion Hs; subst. reflexivity. }
  destruct (t q) as [[c m|]|], (t' q) as [[c' m'|]|]; cbn in Hq; try discriminate; try reflexivity;
    destruct (outside_skipped q); try (cbn; congruence);
    destruct (template_of q) as [src|]; try (cbn; congruence); apply X.
Qed.
Lemma fails_ext generate (t t' : fs) src :
  (forall p, content_of (t p) = content_of (t' p)) -> fails generate t src = fails generate t' src.
Proof.
  intros H. unfold fails. destruct (outside_skipped src); [|reflexivity]. cbn [andb].
  destruct (sibling_of src) as [g|]; [|reflexivity].
  pose proof (H src) as Hs. pose proof (H g) as Hg.
  destruct (t src) as [[cs ms|]|], (t' src) as [[cs' ms'|]|]; cbn in Hs; try discriminate; try reflexivity.
  inversion Hs; subst. destruct (generate src cs'); [|reflexivity].
  destruct (t g) as [[cg mg|]|], (t' g) as [[cg' mg'|]|]; cbn in Hg; try discriminate; reflexivity.
Qed.
Lemma fails_in generate l src : fails generate (lookup l) src = true -> In src (map fst l).
Proof.
  unfold fails. intros H. apply andb_prop in H as [_ H]. destruct (sibling_of src); [|discriminate].
  destruct (lookup l src) as [e|] eqn:L; [|discriminate]. apply lookup_some_in in L. apply (in_map fst) in L. exact L.
Qed.
(* two trees with the same contents (whatever the times), both meeting the specification: same contents afterwards,
   same exit status *)
Lemma spec_times_irrelevant generate keep l l' (T T' : fs) f f' :
  (forall q, content_of (lookup l q) = content_of (lookup l' q)) ->
  spec_holds generate keep l T f -> spec_holds generate keep l' T' f' ->
  (forall q, content_of (T q) = content_of (T' q)) /\ f = f'.
Proof.
  intros H [A [_ C]] [A' [_ C']]. split.
  - intros q. rewrite A, A'. apply spec_content_ext. exact H.
  - assert (E : f = true <-> f' = true).
    { rewrite C, C'. split; intros [src [_ F]]; exists src.
      - rewrite (fails_ext generate _ _ src H) in F. split; [eapply fails_in; exact F|exact F].
      - rewrite <- (fails_ext generate _ _ src H) in F. split; [eapply fails_in; exact F|exact F]. }
    destruct f, f'; try reflexivity; [symmetry|]; apply E; reflexivity.
Qed.
