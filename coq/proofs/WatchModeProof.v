(* C16 - proofs about the text file, the development-mode lookup and the recompile decision (model/WatchMode.v). *)
From Coq.Strings Require Import Byte String.
From Coq Require Import List Arith NArith Bool Lia.
Import ListNotations.
From V Require Import lib.Bytes model.Quote model.WatchMode proofs.QuoteProof proofs.QuoteLitProof.
Open Scope N_scope.

(* ---------- strings.Split inverts strings.Join when no element contains the separator ---------- *)
Definition no_lf (l : bytes) : bool := no_byte x0a l.

Lemma split_nolf a : no_lf a = true -> split_lf a = [a].
Proof.
  induction a as [|c a IH]; intros H; [reflexivity|].
  cbn [no_lf no_byte forallb] in H. apply andb_prop in H as [Hc Ha]. apply negb_true_iff in Hc.
  cbn [split_lf]. rewrite Hc. rewrite (IH Ha). reflexivity.
Qed.

Lemma split_app a r : no_lf a = true -> split_lf (a ++ x0a :: r) = a :: split_lf r.
Proof.
  induction a as [|c a IH]; intros H.
  - cbn [app split_lf]. change (Byte.eqb x0a x0a) with true. reflexivity.
  - cbn [no_lf no_byte forallb] in H. apply andb_prop in H as [Hc Ha]. apply negb_true_iff in Hc.
    cbn [app split_lf]. rewrite Hc. rewrite (IH Ha). reflexivity.
Qed.

Theorem split_join literals : literals <> [] -> forallb no_lf literals = true -> split_lf (join_lf literals) = literals.
Proof.
  induction literals as [|a r IH]; intros Hne H; [congruence|].
  cbn [forallb] in H. apply andb_prop in H as [Ha Hr].
  destruct r as [|b r'].
  - cbn [join_lf]. apply split_nolf. exact Ha.
  - change (join_lf (a :: b :: r')) with (a ++ x0a :: join_lf (b :: r')).
    rewrite split_app by exact Ha. f_equal. apply IH; [discriminate|exact Hr].
Qed.

(* index i+1 of the file yields literal i *)
Theorem dev_write_join literals i : forallb no_lf literals = true -> (i < length literals)%nat ->
  dev_write (text_file literals) (S i) = unquote (nth i literals []).
Proof.
  intros H L. unfold dev_write, text_file.
  rewrite split_join; [|destruct literals; [cbn in L; lia|discriminate]|exact H].
  assert ((length literals <? S i)%nat = false) as -> by (apply Nat.ltb_ge; lia). reflexivity.
Qed.

(* the empty list is written as an empty file, which reads back as one empty line: no index is ever looked up in it *)
Lemma split_join_nil : split_lf (join_lf []) = [[]].
Proof. reflexivity. Qed.

(* ---------- numbering ---------- *)
Lemma compile_spec u : forall k i lit, In (OLit i lit) (compile_from k u) ->
  (k < i <= k + length (lits u))%nat /\ nth (i - S k) (lits u) [] = lit.
Proof.
  induction u as [|o u IH]; intros k i lit H; [destruct H|].
  destruct o as [l|s e|c n]; cbn [compile_from lits length] in *.
  - destruct H as [H|H].
    + inversion H; subst. split; [lia|]. replace (S k - S k)%nat with 0%nat by lia. reflexivity.
    + destruct (IH _ _ _ H) as [B E]. split; [lia|].
      replace (i - S k)%nat with (S (i - S (S k)))%nat by lia. exact E.
  - destruct H as [H|H]; [discriminate|]. apply IH. exact H.
  - destruct H as [H|H]; [discriminate|]. apply IH. exact H.
Qed.

Definition erase_op (o : op) : op := match o with OLit i _ => OLit i [] | x => x end.
Lemma compile_erase u : forall k, map erase_op (compile_from k u) = compile_from k (map erase u).
Proof.
  induction u as [|o u IH]; intros k; [reflexivity|].
  destruct o; cbn [compile_from map erase erase_op]; rewrite IH; reflexivity.
Qed.

Section Sound.
Variable sem : sink -> bytes -> bytes.
Variable ev_str : bytes -> bytes.
Variable ev_bool : bytes -> bool.

(* two programs with the same skeleton, the first looking its strings up in a file that holds the second's
   literals at the second's indices, render alike *)
Lemma run_sound file : forall P P' skip, map erase_op P = map erase_op P' ->
  (forall i lit, In (OLit i lit) P' -> dev_write file i = normal_write lit) ->
  run sem ev_str ev_bool (lk_dev file) P skip = run sem ev_str ev_bool lk_normal P' skip.
Proof.
  induction P as [|o P IH]; intros P' skip E H; destruct P' as [|o' P']; try discriminate; [reflexivity|].
  cbn [map] in E. injection E as Eo EP.
  assert (IH' : forall sk, run sem ev_str ev_bool (lk_dev file) P sk = run sem ev_str ev_bool lk_normal P' sk).
  { intros sk. apply IH; [exact EP|]. intros i lit Hin. apply H. right. exact Hin. }
  cbn [run]. destruct skip as [|k]; [|apply IH'].
  destruct o as [i l|s e|c n]; destruct o' as [i' l'|s' e'|c' n']; cbn [erase_op] in Eo; try discriminate.
  - injection Eo as ->. unfold lk_dev, lk_normal. rewrite (H i' l') by (left; reflexivity).
    destruct (normal_write l'); [rewrite IH'; reflexivity|reflexivity].
  - injection Eo as -> ->. rewrite IH'. reflexivity.
  - injection Eo as -> ->. apply IH'.
Qed.

Definition lits_ok (u : list uop) : bool := forallb no_lf (lits u).

(* same generated code up to the contents of string literals  =>  the compiled old program reading the new
   text file renders exactly what the newly generated program renders *)
Theorem skeleton_sound u u' : skeleton u = skeleton u' -> lits_ok u' = true ->
  run sem ev_str ev_bool (lk_dev (text_file (lits u'))) (compile u) 0 = run sem ev_str ev_bool lk_normal (compile u') 0.
Proof.
  intros E Ok. apply run_sound.
  - unfold compile. rewrite !compile_erase. unfold skeleton in E. rewrite E. reflexivity.
  - intros i lit Hin. unfold compile in Hin. destruct (compile_spec _ _ _ _ Hin) as [B Eq].
    destruct i as [|i]; [lia|]. rewrite dev_write_join; [|exact Ok|lia].
    unfold normal_write. replace (S i - 1)%nat with i in Eq by lia. rewrite Eq. reflexivity.
Qed.

(* first half of the property: the program reading its own text file *)
Theorem dev_equals_normal u : lits_ok u = true ->
  run sem ev_str ev_bool (lk_dev (text_file (lits u))) (compile u) 0 = run sem ev_str ev_bool lk_normal (compile u) 0.
Proof. intros H. apply skeleton_sound; [reflexivity|exact H]. Qed.
End Sound.

(* ---------- HasChanged ---------- *)
Lemma exprs_differ_false a : forall b, length a = length b -> exprs_differ a b = false -> a = b.
Proof.
  induction a as [|x a IH]; intros b L H; destruct b as [|y b]; try discriminate; [reflexivity|].
  cbn [exprs_differ] in H. destruct (bytes_eqb x y) eqn:E; [|discriminate]. apply bytes_eqb_eq in E. subst.
  f_equal. apply IH; [cbn in L; lia|exact H].
Qed.
Lemma exprs_differ_refl a : exprs_differ a a = false.
Proof. induction a as [|x a IH]; [reflexivity|]. cbn. rewrite bytes_eqb_refl. exact IH. Qed.

(* what a negative answer means *)
Theorem has_changed_false p u : has_changed p u = false <->
  o_version (g_opts p) = o_version (g_opts u) /\ o_file (g_opts p) = o_file (g_opts u) /\ o_skip (g_opts p) = o_skip (g_opts u) /\
  length (g_literals p) = length (g_literals u) /\ g_exprs p = g_exprs u.
Proof.
  unfold has_changed. split.
  - intros H.
    destruct (bytes_eqb (o_version (g_opts p)) (o_version (g_opts u))) eqn:A; [|discriminate].
    destruct (bytes_eqb (o_file (g_opts p)) (o_file (g_opts u))) eqn:B; [|discriminate].
    destruct (Bool.eqb (o_skip (g_opts p)) (o_skip (g_opts u))) eqn:C; [|discriminate].
    destruct (length (g_literals p) =? length (g_literals u))%nat eqn:D; [|discriminate].
    destruct (length (g_exprs p) =? length (g_exprs u))%nat eqn:E; [|discriminate].
    cbn [negb] in H. apply bytes_eqb_eq in A, B. apply Bool.eqb_prop in C. apply Nat.eqb_eq in D, E.
    repeat split; try assumption. apply exprs_differ_false; assumption.
  - intros [A [B [C [D E]]]]. rewrite A, B, C, D, E. rewrite !bytes_eqb_refl, Bool.eqb_reflx, !Nat.eqb_refl. cbn [negb].
    apply exprs_differ_refl.
Qed.

(* sequences of edits: "no recompilation needed" composes, so comparing with the previous generation (as the
   event handler does) is the same as comparing with the generation that was last compiled *)
Theorem has_changed_trans a b c : has_changed a b = false -> has_changed b c = false -> has_changed a c = false.
Proof.
  rewrite !has_changed_false. intros [A1 [A2 [A3 [A4 A5]]]] [B1 [B2 [B3 [B4 B5]]]].
  repeat split; etransitivity; eassumption.
Qed.
Theorem has_changed_refl a : has_changed a a = false.
Proof. apply has_changed_false. repeat split. Qed.
Theorem has_changed_sym a b : has_changed a b = false -> has_changed b a = false.
Proof. rewrite !has_changed_false. intros [A1 [A2 [A3 [A4 A5]]]]. repeat split; symmetry; assumption. Qed.

(* ---------- the coded criterion does not imply an equal skeleton: three witnesses ---------- *)
Definition o0 : gen_opts := {| o_version := bs "v"; o_file := bs "t.templ"; o_skip := false; o_date := [] |}.

(* (a) same expression, different writer: title={ c } -> style={ c } *)
Definition wa  : list uop := [ULit (bs "<p title=\"""); UExpr SAttr (bs "c"); ULit (bs "\""></p>")].
Definition wa' : list uop := [ULit (bs "<p style=\"""); UExpr SStyle (bs "c"); ULit (bs "\""></p>")].
(* (b) { s } moved into the preceding if-body *)
Definition wb  : list uop := [UIf (bs "b") 1; ULit (bs "<i>x</i>"); UExpr SText (bs "s"); ULit (bs "<hr>")].
Definition wb' : list uop := [UIf (bs "b") 2; ULit (bs "<i>x</i>"); UExpr SText (bs "s"); ULit (bs "<hr>")].
(* (c) a literal and an expression swapped *)
Definition wc  (l : byte) : list uop := [ULit [l]; UExpr SText (bs "s")].
Definition wc' (l : byte) : list uop := [UExpr SText (bs "s"); ULit [l]].

Lemma app_inv_mid (a b x y : bytes) : a ++ x ++ b = a ++ y ++ b -> x = y.
Proof. intros H. apply app_inv_head in H. apply app_inv_tail in H. exact H. Qed.

Theorem refuted_sink (sem : sink -> bytes -> bytes) (x : bytes) : sem SAttr x <> sem SStyle x ->
  has_changed (gen_out o0 wa) (gen_out o0 wa') = false /\ lits_ok wa' = true /\
  run sem (fun _ => x) (fun _ => true) (lk_dev (text_file (lits wa'))) (compile wa) 0 <>
  run sem (fun _ => x) (fun _ => true) lk_normal (compile wa') 0.
Proof.
  intros D. split; [vm_compute; reflexivity|]. split; [vm_compute; reflexivity|].
  assert (L : run sem (fun _ => x) (fun _ => true) (lk_dev (text_file (lits wa'))) (compile wa) 0
              = Some (bs "<p style=""" ++ sem SAttr x ++ bs """></p>")).
  { unfold wa, compile. cbn [compile_from run].
    replace (lk_dev (text_file (lits wa')) 1 (bs "<p title=\""")) with (Some (bs "<p style=""")) by (vm_compute; reflexivity).
    replace (lk_dev (text_file (lits wa')) 2 (bs "\""></p>")) with (Some (bs """></p>")) by (vm_compute; reflexivity).
    cbn [option_map app]. rewrite app_nil_r. reflexivity. }
  assert (R : run sem (fun _ => x) (fun _ => true) lk_normal (compile wa') 0
              = Some (bs "<p style=""" ++ sem SStyle x ++ bs """></p>")).
  { unfold wa', compile. cbn [compile_from run].
    replace (lk_normal 1 (bs "<p style=\""")) with (Some (bs "<p style=""")) by (vm_compute; reflexivity).
    replace (lk_normal 2 (bs "\""></p>")) with (Some (bs """></p>")) by (vm_compute; reflexivity).
    cbn [option_map app]. rewrite app_nil_r. reflexivity. }
  rewrite L, R. intros E. injection E as E. apply app_inv_tail in E. contradiction.
Qed.

Theorem refuted_control_flow (sem : sink -> bytes -> bytes) (x : bytes) : sem SText x <> [] ->
  has_changed (gen_out o0 wb) (gen_out o0 wb') = false /\ lits_ok wb' = true /\
  run sem (fun _ => x) (fun _ => false) (lk_dev (text_file (lits wb'))) (compile wb) 0 <>
  run sem (fun _ => x) (fun _ => false) lk_normal (compile wb') 0.
Proof.
  intros D. split; [vm_compute; reflexivity|]. split; [vm_compute; reflexivity|].
  assert (L : run sem (fun _ => x) (fun _ => false) (lk_dev (text_file (lits wb'))) (compile wb) 0
              = Some (sem SText x ++ bs "<hr>")).
  { unfold wb, compile. cbn [compile_from run].
    replace (lk_dev (text_file (lits wb')) 2 (bs "<hr>")) with (Some (bs "<hr>")) by (vm_compute; reflexivity).
    cbn [option_map app]. rewrite app_nil_r. reflexivity. }
  assert (R : run sem (fun _ => x) (fun _ => false) lk_normal (compile wb') 0 = Some (bs "<hr>")).
  { unfold wb', compile. cbn [compile_from run].
    replace (lk_normal 2 (bs "<hr>")) with (Some (bs "<hr>")) by (vm_compute; reflexivity). reflexivity. }
  rewrite L, R. intros E. injection E as E.
  assert (length (sem SText x ++ bs "<hr>") = length (bs "<hr>")) as Len by (rewrite E; reflexivity).
  rewrite app_length in Len. destruct (sem SText x); [congruence|cbn in Len; lia].
Qed.

Theorem refuted_order (sem : sink -> bytes -> bytes) (x : bytes) (c0 : byte) (rest : bytes) : sem SText x = c0 :: rest ->
  exists l : byte,
  has_changed (gen_out o0 (wc l)) (gen_out o0 (wc' l)) = false /\ lits_ok (wc' l) = true /\
  run sem (fun _ => x) (fun _ => true) (lk_dev (text_file (lits (wc' l)))) (compile (wc l)) 0 <>
  run sem (fun _ => x) (fun _ => true) lk_normal (compile (wc' l)) 0.
Proof.
  intros HS.
  assert (G : forall l : byte, l <> c0 -> unquote [l] = Some [l] -> no_lf [l] = true ->
     has_changed (gen_out o0 (wc l)) (gen_out o0 (wc' l)) = false /\ lits_ok (wc' l) = true /\
     run sem (fun _ => x) (fun _ => true) (lk_dev (text_file (lits (wc' l)))) (compile (wc l)) 0 <>
     run sem (fun _ => x) (fun _ => true) lk_normal (compile (wc' l)) 0).
  { intros l Hl U NL. split; [apply has_changed_false; repeat split|]. split; [unfold lits_ok; cbn; cbn in NL; rewrite NL; reflexivity|].
    unfold wc, wc', compile. cbn [compile_from run lits]. unfold lk_dev, lk_normal, normal_write.
    rewrite (dev_write_join [[l]] 0); [|cbn; cbn in NL; rewrite NL; reflexivity|cbn; lia]. cbn [nth]. rewrite U. rewrite HS.
    cbn [option_map app]. intros E. injection E as E. congruence. }
  destruct (Byte.eqb c0 x61) eqn:E.
  - apply byte_eqb_eq in E. subst. exists x62. apply G; [discriminate|vm_compute; reflexivity|vm_compute; reflexivity].
  - apply byte_eqb_neq in E. exists x61. apply G; [congruence|vm_compute; reflexivity|vm_compute; reflexivity].
Qed.

(* ---------- a guard under which the coded criterion is enough ---------- *)
Lemma alternating_skeleton n : forall u u', (length u <= n)%nat -> alternating u = true -> alternating u' = true ->
  exprs u = exprs u' -> skeleton u = skeleton u'.
Proof.
  induction n as [|n IH]; intros u u' L A A' E.
  - destruct u; [discriminate|cbn in L; lia].
  - destruct u as [|o u]; [discriminate|]. destruct u' as [|o' u']; [discriminate|].
    destruct o as [l| |]; try discriminate. destruct o' as [l'| |]; try discriminate.
    cbn [alternating] in A, A'.
    destruct u as [|p u]; destruct u' as [|p' u'].
    + reflexivity.
    + destruct p' as [|k' e'|]; try discriminate; destruct k'; discriminate.
    + destruct p as [|k e|]; try discriminate; destruct k; discriminate.
    + destruct p as [|k e|]; try discriminate. destruct k; try discriminate.
      destruct p' as [|k' e'|]; try discriminate. destruct k'; try discriminate.
      cbn [exprs] in E. injection E as -> E.
      unfold skeleton. cbn [map erase]. f_equal. f_equal. apply (IH u u'); [cbn [length] in L; lia|exact A|exact A'|exact E].
Qed.

Theorem has_changed_partial (sem : sink -> bytes -> bytes) (ev_str : bytes -> bytes) (ev_bool : bytes -> bool) o o' u u' :
  alternating u = true -> alternating u' = true -> lits_ok u' = true ->
  has_changed (gen_out o u) (gen_out o' u') = false ->
  run sem ev_str ev_bool (lk_dev (text_file (lits u'))) (compile u) 0 = run sem ev_str ev_bool lk_normal (compile u') 0.
Proof.
  intros A A' Ok H. apply skeleton_sound; [|exact Ok].
  apply has_changed_false in H. destruct H as [_ [_ [_ [_ E]]]]. cbn [gen_out g_exprs] in E.
  apply (alternating_skeleton (length u)); [apply le_n|exact A|exact A'|exact E].
Qed.

(* ---------- literals built by the generator: file round trip and lookup ---------- *)
Section Generated.
Variable is_print : N -> bool.
Hypothesis print_nl : is_print 10 = false.

Lemma generated_no_lf pss : forallb (forallb piece_ok) pss = true -> forallb no_lf (map (lit_text is_print) pss) = true.
Proof.
  induction pss as [|ps pss IH]; intros H; [reflexivity|].
  cbn [forallb map] in *. apply andb_prop in H as [H1 H2]. rewrite (IH H2), andb_true_r.
  apply scan_no_lf. apply lit_scan_ok; assumption.
Qed.

Theorem generated_file_roundtrip pss : pss <> [] -> forallb (forallb piece_ok) pss = true ->
  split_lf (text_file (map (lit_text is_print) pss)) = map (lit_text is_print) pss.
Proof.
  intros Hne H. unfold text_file. apply split_join; [destruct pss; [congruence|discriminate]|apply generated_no_lf; exact H].
Qed.

Theorem dev_lookup_lit pss i : forallb (forallb piece_ok) pss = true -> (i < length pss)%nat ->
  dev_write (text_file (map (lit_text is_print) pss)) (S i) = Some (lit_value (nth i pss [])) /\
  normal_write (lit_text is_print (nth i pss [])) = Some (lit_value (nth i pss [])).
Proof.
  intros H L.
  assert (Ok : forallb piece_ok (nth i pss []) = true).
  { rewrite forallb_forall in H. apply H. apply nth_In. exact L. }
  split.
  - rewrite dev_write_join; [|apply generated_no_lf; exact H|rewrite map_length; exact L].
    change (@nil byte) with (lit_text is_print []) at 1. rewrite map_nth. apply unquote_lit; assumption.
  - unfold normal_write. apply unquote_lit; assumption.
Qed.
End Generated.

Theorem has_changed_equivalence :
  (forall a, has_changed a a = false) /\
  (forall a b, has_changed a b = false -> has_changed b a = false) /\
  (forall a b c, has_changed a b = false -> has_changed b c = false -> has_changed a c = false).
Proof. exact (conj has_changed_refl (conj has_changed_sym has_changed_trans)). Qed.

Theorem has_changed_refuted : forall sem : sink -> bytes -> bytes,
  (forall x, sem SAttr x <> sem SStyle x ->
     has_changed (gen_out o0 wa) (gen_out o0 wa') = false /\ lits_ok wa' = true /\
     run sem (fun _ => x) (fun _ => true) (lk_dev (text_file (lits wa'))) (compile wa) 0 <>
     run sem (fun _ => x) (fun _ => true) lk_normal (compile wa') 0) /\
  (forall x, sem SText x <> [] ->
     has_changed (gen_out o0 wb) (gen_out o0 wb') = false /\ lits_ok wb' = true /\
     run sem (fun _ => x) (fun _ => false) (lk_dev (text_file (lits wb'))) (compile wb) 0 <>
     run sem (fun _ => x) (fun _ => false) lk_normal (compile wb') 0) /\
  (forall x c0 rest, sem SText x = c0 :: rest -> exists l : byte,
     has_changed (gen_out o0 (wc l)) (gen_out o0 (wc' l)) = false /\ lits_ok (wc' l) = true /\
     run sem (fun _ => x) (fun _ => true) (lk_dev (text_file (lits (wc' l)))) (compile (wc l)) 0 <>
     run sem (fun _ => x) (fun _ => true) lk_normal (compile (wc' l)) 0).
Proof. intros sem. exact (conj (refuted_sink sem) (conj (refuted_control_flow sem) (refuted_order sem))). Qed.
