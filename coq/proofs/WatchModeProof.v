(* C16 - proofs about the text file, the development-mode lookup and the recompile decision (model/WatchMode.v). *)
From Coq.Strings Require Import Byte String.
From Coq Require Import List Arith NArith Bool Lia.
Import ListNotations.
From V Require Import lib.Bytes model.Quote model.WatchMode proofs.QuoteProof proofs.QuoteLitProof.
Open Scope N_scope.

(* ---------- strings.Split inverts strings.Join when no element contains the separator ---------- *)
Definition no_lf (l : bytes) : bool := no_byte x0a l.

Lemma split_nolf a : no_lf a = true -> split_lf a = [a].
Proof.
  induction a as [|c a IH]; intros H; [reflexivity|].
  cbn [no_lf no_byte forallb] in H. apply andb_prop in H as [Hc Ha]. apply negb_true_iff in Hc.
  cbn [split_lf]. rewrite Hc. rewrite (IH Ha). reflexivity.
Qed.

Lemma split_app a r : no_lf a = true -> split_lf (a ++ x0a :: r) = a :: split_lf r.
Proof.
  induction a as [|c a IH]; intros H.
  - cbn [app split_lf]. change (Byte.eqb x0a x0a) with true. reflexivity.
  - cbn [no_lf no_byte forallb] in H. apply andb_prop in H as [Hc Ha]. apply negb_true_iff in Hc.
    cbn [app split_lf]. rewrite Hc. rewrite (IH Ha). reflexivity.
Qed.

Theorem split_join literals : literals <> [] -> forallb no_lf literals = true -> split_lf (join_lf literals) = literals.
Proof.
  induction literals as [|a r IH]; intros Hne H; [congruence|].
  cbn [forallb] in H. apply andb_prop in H as [Ha Hr].
  destruct r as [|b r'].
  - cbn [join_lf]. apply split_nolf. exact Ha.
  - change (join_lf (a :: b :: r')) with (a ++ x0a :: join_lf (b :: r')).
    rewrite split_app by exact Ha. f_equal. apply IH; [discriminate|exact Hr].
Qed.

(* index i+1 of the file yields literal i *)
Theorem dev_write_join literals i : forallb no_lf literals = true -> (i < length literals)%nat ->
  dev_write (text_file literals) (S i) = unquote (nth i literals []).
Proof.
  intros H L. unfold dev_write, text_file.
  rewrite split_join; [|destruct literals; [cbn in L; lia|discriminate]|exact H].
  assert ((length literals <? S i)%nat = false) as -> by (apply Nat.ltb_ge; lia). reflexivity.
Qed.

(* the empty list is written as an empty file, which reads back as one empty line: no index is ever looked up in it *)
Lemma split_join_nil : split_lf (join_lf []) = [[]].
Proof. reflexivity. Qed.

(* ---------- two programs that differ in literal contents only ---------- *)
Lemma Forall2_nth_error {A B : Type} (R : A -> B -> Prop) (P : list A) (P' : list B) : Forall2 R P P' ->
  forall pc, match nth_error P pc, nth_error P' pc with
             | Some a, Some b => R a b
             | None, None => True
             | _, _ => False
             end.
Proof.
  induction 1 as [|a b P P' Hab _ IH]; intros pc; destruct pc as [|pc]; cbn [nth_error]; auto. apply IH.
Qed.

Section Sim.
Variable St : Type.
Variable sem : sink -> bytes -> bytes.
Variable ev_str : St -> bytes -> bytes.
Variable ev_bool : St -> bytes -> bool.
Variable code : bytes -> nat -> St -> option (St * bytes * nat).

(* same statement apart from the contents of a literal; two code chunks may differ as long as they mean the same *)
Definition op_sim (a b : op) : Prop :=
  match a, b with
  | OLit i _, OLit j _ => i = j
  | OExpr k e, OExpr k' e' => k = k' /\ e = e'
  | OIf c n, OIf c' n' => c = c' /\ n = n'
  | OCode c, OCode c' => forall pc s, code c pc s = code c' pc s
  | _, _ => False
  end.

(* the first program looks its strings up in a file that holds, at every index the second program uses, what the
   second program's literal denotes: they render alike from every position, in every state, with every fuel *)
Lemma exec_sim file P P' : Forall2 op_sim P P' ->
  (forall i lit, In (OLit i lit) P' -> dev_write file i = normal_write lit) ->
  forall fuel pc s, exec St sem ev_str ev_bool code (lk_dev file) fuel P pc s = exec St sem ev_str ev_bool code lk_normal fuel P' pc s.
Proof.
  intros F H. induction fuel as [|f IH]; intros pc s; [reflexivity|].
  cbn [exec]. pose proof (Forall2_nth_error _ _ _ F pc) as N.
  destruct (nth_error P pc) as [o|] eqn:E; destruct (nth_error P' pc) as [o'|] eqn:E'; try contradiction; [|reflexivity].
  destruct o as [i l|k e|c n|c]; destruct o' as [i' l'|k' e'|c' n'|c']; cbn [op_sim] in N; try contradiction.
  - subst i'. unfold lk_dev, lk_normal. rewrite (H i l') by (eapply nth_error_In; exact E').
    destruct (normal_write l'); [rewrite IH; reflexivity|reflexivity].
  - destruct N as [-> ->]. rewrite IH. reflexivity.
  - destruct N as [-> ->]. apply IH.
  - rewrite N. destruct (code c' pc s) as [[[s' out] next]|]; [rewrite IH; reflexivity|reflexivity].
Qed.
End Sim.

(* ---------- numbering ---------- *)
Lemma numbered_spec P : forall k i lit, numbered_from k P = true -> In (OLit i lit) P ->
  (k < i <= k + length (op_lits P))%nat /\ nth (i - S k) (op_lits P) [] = lit.
Proof.
  induction P as [|o P IH]; intros k i lit N H; [destruct H|].
  destruct o as [j l|s e|c n|c]; cbn [numbered_from op_lits length] in *.
  - apply andb_prop in N as [Nj N]. apply Nat.eqb_eq in Nj. subst j. destruct H as [H|H].
    + inversion H; subst. split; [lia|]. replace (S k - S k)%nat with 0%nat by lia. reflexivity.
    + destruct (IH _ _ _ N H) as [B E]. split; [lia|].
      replace (i - S k)%nat with (S (i - S (S k)))%nat by lia. exact E.
  - destruct H as [H|H]; [discriminate|]. apply IH; assumption.
  - destruct H as [H|H]; [discriminate|]. apply IH; assumption.
  - destruct H as [H|H]; [discriminate|]. apply IH; assumption.
Qed.

(* a program whose calls are numbered 1, 2, ... finds each of its own literals in the file written from them *)
Lemma numbered_lookup P : numbered_from 0 P = true -> forallb no_lf (op_lits P) = true ->
  forall i lit, In (OLit i lit) P -> dev_write (text_file (op_lits P)) i = normal_write lit.
Proof.
  intros N Ok i lit Hin. destruct (numbered_spec _ _ _ _ N Hin) as [B Eq].
  destruct i as [|i]; [lia|]. rewrite dev_write_join; [|exact Ok|lia].
  unfold normal_write. replace (S i - 1)%nat with i in Eq by lia. rewrite Eq. reflexivity.
Qed.

Lemma compile_numbered u : forall k, numbered_from k (compile_from k u) = true.
Proof.
  induction u as [|o u IH]; intros k; [reflexivity|].
  destruct o; cbn [compile_from numbered_from]; rewrite ?Nat.eqb_refl; apply IH.
Qed.
Lemma compile_lits u : forall k, op_lits (compile_from k u) = lits u.
Proof.
  induction u as [|o u IH]; intros k; [reflexivity|].
  destruct o; cbn [compile_from op_lits lits]; rewrite IH; reflexivity.
Qed.

Definition lits_ok (u : list uop) : bool := forallb no_lf (lits u).

Section Sound.
Variable St : Type.
Variable sem : sink -> bytes -> bytes.
Variable ev_str : St -> bytes -> bytes.
Variable ev_bool : St -> bytes -> bool.
Variable code : bytes -> nat -> St -> option (St * bytes * nat).

Lemma skeleton_sim u : forall u' k, skeleton u = skeleton u' -> Forall2 (op_sim St code) (compile_from k u) (compile_from k u').
Proof.
  induction u as [|o u IH]; intros u' k E; destruct u' as [|o' u']; try discriminate; [constructor|].
  unfold skeleton in E. cbn [map] in E. injection E as Eo Eu.
  destruct o as [l|s e|c n|c es]; destruct o' as [l'|s' e'|c' n'|c' es']; cbn [erase] in Eo; try discriminate;
    cbn [compile_from]; (constructor; [|apply IH; exact Eu]); cbn [op_sim].
  - reflexivity.
  - injection Eo as -> ->. split; reflexivity.
  - injection Eo as -> ->. split; reflexivity.
  - injection Eo as -> _. reflexivity.
Qed.

(* same generated code up to the contents of string literals  =>  the compiled old program reading the new
   text file renders exactly what the newly generated program renders *)
Theorem skeleton_sound u u' : skeleton u = skeleton u' -> lits_ok u' = true ->
  forall fuel pc s,
  exec St sem ev_str ev_bool code (lk_dev (text_file (lits u'))) fuel (compile u) pc s =
  exec St sem ev_str ev_bool code lk_normal fuel (compile u') pc s.
Proof.
  intros E Ok. apply exec_sim.
  - apply skeleton_sim. exact E.
  - unfold compile. rewrite <- (compile_lits u' 0). apply numbered_lookup; [apply compile_numbered|].
    rewrite compile_lits. exact Ok.
Qed.

(* first half of the property: the program reading its own text file *)
Theorem dev_equals_normal u : lits_ok u = true ->
  forall fuel pc s,
  exec St sem ev_str ev_bool code (lk_dev (text_file (lits u))) fuel (compile u) pc s =
  exec St sem ev_str ev_bool code lk_normal fuel (compile u) pc s.
Proof. intros H. apply skeleton_sound; [reflexivity|exact H]. Qed.
End Sound.

(* ---------- HasChanged ---------- *)
Lemma exprs_differ_false a : forall b, length a = length b -> exprs_differ a b = false -> a = b.
Proof.
  induction a as [|x a IH]; intros b L H; destruct b as [|y b]; try discriminate; [reflexivity|].
  cbn [exprs_differ] in H. destruct (bytes_eqb x y) eqn:E; [|discriminate]. apply bytes_eqb_eq in E. subst.
  f_equal. apply IH; [cbn in L; lia|exact H].
Qed.
Lemma exprs_differ_refl a : exprs_differ a a = false.
Proof. induction a as [|x a IH]; [reflexivity|]. cbn. rewrite bytes_eqb_refl. exact IH. Qed.

Definition same_but_skeleton {S : Type} (p u : gen_output S) : Prop :=
  o_version (g_opts p) = o_version (g_opts u) /\ o_file (g_opts p) = o_file (g_opts u) /\ o_skip (g_opts p) = o_skip (g_opts u) /\
  length (g_literals p) = length (g_literals u) /\ g_exprs p = g_exprs u.

(* what the criterion of before 75525d5 compares *)
Theorem expr_list_criterion_false {S : Type} (p u : gen_output S) : expr_list_criterion p u = false <-> same_but_skeleton p u.
Proof.
  unfold expr_list_criterion, same_but_skeleton. split.
  - intros H.
    destruct (bytes_eqb (o_version (g_opts p)) (o_version (g_opts u))) eqn:A; [|discriminate].
    destruct (bytes_eqb (o_file (g_opts p)) (o_file (g_opts u))) eqn:B; [|discriminate].
    destruct (Bool.eqb (o_skip (g_opts p)) (o_skip (g_opts u))) eqn:C; [|discriminate].
    destruct (length (g_literals p) =? length (g_literals u))%nat eqn:D; [|discriminate].
    destruct (length (g_exprs p) =? length (g_exprs u))%nat eqn:E; [|discriminate].
    cbn [negb] in H. apply bytes_eqb_eq in A, B. apply Bool.eqb_prop in C. apply Nat.eqb_eq in D, E.
    repeat split; try assumption. apply exprs_differ_false; assumption.
  - intros [A [B [C [D E]]]]. rewrite A, B, C, D, E. rewrite !bytes_eqb_refl, Bool.eqb_reflx, !Nat.eqb_refl. cbn [negb].
    apply exprs_differ_refl.
Qed.

Section HasChanged.
Variable S : Type.
Variable eqb : S -> S -> bool.
Hypothesis eqb_spec : forall a b, eqb a b = true <-> a = b.

(* what a negative answer means: the old comparisons and EQUAL SKELETONS *)
Theorem has_changed_false (p u : gen_output S) : has_changed eqb p u = false <-> same_but_skeleton p u /\ g_skel p = g_skel u.
Proof.
  unfold has_changed. rewrite <- expr_list_criterion_false. split.
  - intros H. destruct (expr_list_criterion p u); [discriminate|]. split; [reflexivity|].
    destruct (eqb (g_skel p) (g_skel u)) eqn:E; [apply eqb_spec; exact E|discriminate].
  - intros [-> E]. apply eqb_spec in E. rewrite E. reflexivity.
Qed.

(* sequences of edits: "no recompilation needed" composes, so comparing with the previous generation (as the
   event handler does) is the same as comparing with the generation that was last compiled *)
Theorem has_changed_trans a b c : has_changed eqb a b = false -> has_changed eqb b c = false -> has_changed eqb a c = false.
Proof.
  rewrite !has_changed_false. unfold same_but_skeleton. intros [[A1 [A2 [A3 [A4 A5]]]] A6] [[B1 [B2 [B3 [B4 B5]]]] B6].
  repeat split; etransitivity; eassumption.
Qed.
Theorem has_changed_refl a : has_changed eqb a a = false.
Proof. apply has_changed_false. unfold same_but_skeleton. repeat split. Qed.
Theorem has_changed_sym a b : has_changed eqb a b = false -> has_changed eqb b a = false.
Proof. rewrite !has_changed_false. unfold same_but_skeleton. intros [[A1 [A2 [A3 [A4 A5]]]] A6]. repeat split; symmetry; assumption. Qed.

Theorem has_changed_equivalence :
  (forall a, has_changed eqb a a = false) /\
  (forall a b, has_changed eqb a b = false -> has_changed eqb b a = false) /\
  (forall a b c, has_changed eqb a b = false -> has_changed eqb b c = false -> has_changed eqb a c = false).
Proof. exact (conj has_changed_refl (conj has_changed_sym has_changed_trans)). Qed.

(* the fix only adds recompilations *)
Theorem has_changed_stricter p u : expr_list_criterion p u = true -> has_changed eqb p u = true.
Proof. unfold has_changed. intros ->. reflexivity. Qed.
End HasChanged.

Lemma list_eqb_spec {A : Type} (eqb : A -> A -> bool) : (forall a b, eqb a b = true <-> a = b) ->
  forall a b, list_eqb eqb a b = true <-> a = b.
Proof.
  intros Sp. induction a as [|x a IH]; intros b; destruct b as [|y b]; cbn [list_eqb]; split; intros H; try discriminate; try reflexivity.
  - apply andb_prop in H as [H1 H2]. apply Sp in H1. apply IH in H2. subst. reflexivity.
  - injection H as -> ->. apply andb_true_intro. split; [apply Sp; reflexivity|apply IH; reflexivity].
Qed.
Lemma sink_eqb_spec k k' : sink_eqb k k' = true <-> k = k'.
Proof.
  destruct k, k'; cbn [sink_eqb]; split; intros H; try discriminate; try reflexivity.
  - apply N.eqb_eq in H. subst. reflexivity.
  - injection H as ->. apply N.eqb_refl.
Qed.
Lemma uop_eqb_spec a b : uop_eqb a b = true <-> a = b.
Proof.
  destruct a as [l|k e|c n|c es], b as [l'|k' e'|c' n'|c' es']; cbn [uop_eqb]; split; intros H; try discriminate.
  - apply bytes_eqb_eq in H. subst. reflexivity.
  - injection H as ->. apply bytes_eqb_refl.
  - apply andb_prop in H as [H1 H2]. apply bytes_eqb_eq in H1. apply sink_eqb_spec in H2. subst. reflexivity.
  - injection H as -> ->. rewrite bytes_eqb_refl. apply sink_eqb_spec. reflexivity.
  - apply andb_prop in H as [H1 H2]. apply bytes_eqb_eq in H1. apply Nat.eqb_eq in H2. subst. reflexivity.
  - injection H as -> ->. rewrite bytes_eqb_refl, Nat.eqb_refl. reflexivity.
  - apply andb_prop in H as [H1 H2]. apply bytes_eqb_eq in H1. apply (list_eqb_spec _ bytes_eqb_eq) in H2. subst. reflexivity.
  - injection H as -> ->. rewrite bytes_eqb_refl. apply (list_eqb_spec _ bytes_eqb_eq). reflexivity.
Qed.
Lemma skel_eqb_spec a b : skel_eqb a b = true <-> a = b.
Proof. apply list_eqb_spec. exact uop_eqb_spec. Qed.

(* literal count and expression list are functions of the skeleton *)
Lemma lits_skeleton u : length (lits (skeleton u)) = length (lits u).
Proof. unfold skeleton. induction u as [|o u IH]; [reflexivity|]. destruct o; cbn [map erase lits length]; rewrite ?IH; reflexivity. Qed.
Lemma exprs_skeleton u : exprs (skeleton u) = exprs u.
Proof. unfold skeleton. induction u as [|o u IH]; [reflexivity|]. destruct o; cbn [map erase exprs]; rewrite ?IH; reflexivity. Qed.

(* at the level of compiled templates the answer is exactly: same options and same skeleton
   (so a different skeleton always asks for recompilation, and an equal one with equal options never does) *)
Theorem has_changed_iff_skeleton o o' u u' : has_changed skel_eqb (gen_out o u) (gen_out o' u') = false <->
  o_version o = o_version o' /\ o_file o = o_file o' /\ o_skip o = o_skip o' /\ skeleton u = skeleton u'.
Proof.
  rewrite (has_changed_false _ _ skel_eqb_spec). unfold same_but_skeleton. cbn [gen_out g_opts g_literals g_exprs g_skel]. split.
  - intros [[A [B [C _]]] E]. auto.
  - intros [A [B [C E]]]. repeat split; try assumption.
    + rewrite <- (lits_skeleton u), <- (lits_skeleton u'), E. reflexivity.
    + rewrite <- (exprs_skeleton u), <- (exprs_skeleton u'), E. reflexivity.
Qed.

(* ---------- the recompile decision is sound ---------- *)
Section Decision.
Variable St : Type.
Variable sem : sink -> bytes -> bytes.
Variable ev_str : St -> bytes -> bytes.
Variable ev_bool : St -> bytes -> bool.
Variable code : bytes -> nat -> St -> option (St * bytes * nat).

Theorem recompile_decision_sound o o' u u' : lits_ok u' = true ->
  has_changed skel_eqb (gen_out o u) (gen_out o' u') = false ->
  forall fuel pc s,
  exec St sem ev_str ev_bool code (lk_dev (text_file (lits u'))) fuel (compile u) pc s =
  exec St sem ev_str ev_bool code lk_normal fuel (compile u') pc s.
Proof.
  intros Ok H. apply skeleton_sound; [|exact Ok]. apply has_changed_iff_skeleton in H. apply H.
Qed.

(* a chain of edits each of which the handler answers "text only" (it compares every generation with the one before) *)
Fixpoint text_only_chain (o : gen_opts) (u : list uop) (rest : list (gen_opts * list uop)) : bool :=
  match rest with
  | [] => true
  | (o', u') :: r => negb (has_changed skel_eqb (gen_out o u) (gen_out o' u')) && text_only_chain o' u' r
  end.

Lemma chain_last o u rest : text_only_chain o u rest = true ->
  has_changed skel_eqb (gen_out o u) (gen_out (fst (last rest (o, u))) (snd (last rest (o, u)))) = false.
Proof.
  revert o u. induction rest as [|[o1 u1] r IH]; intros o u H.
  - cbn [last fst snd]. apply (has_changed_refl _ _ skel_eqb_spec).
  - cbn [text_only_chain] in H. apply andb_prop in H as [H1 H2]. apply negb_true_iff in H1.
    specialize (IH _ _ H2).
    assert (L : last ((o1, u1) :: r) (o, u) = last r (o1, u1)).
    { clear. revert o1 u1. induction r as [|x r IH]; intros o1 u1; [reflexivity|].
      change (last ((o1, u1) :: x :: r) (o, u)) with (last (x :: r) (o, u)). destruct x as [o2 u2]. rewrite IH.
      change (last ((o2, u2) :: r) (o1, u1)) with (match r with [] => (o2, u2) | _ :: _ => last r (o1, u1) end).
      destruct r; [reflexivity|]. clear. revert p. induction r as [|y r IH]; intros p; [reflexivity|].
      change (last (p :: y :: r) (o2, u2)) with (last (y :: r) (o2, u2)).
      change (last (p :: y :: r) (o1, u1)) with (last (y :: r) (o1, u1)). apply IH. }
    rewrite L. eapply (has_changed_trans _ _ skel_eqb_spec); eassumption.
Qed.

(* the program compiled before the first edit, reading the text file of the last version, renders what a fresh
   build of the last version renders *)
Theorem text_only_chain_sound o u rest : text_only_chain o u rest = true -> lits_ok (snd (last rest (o, u))) = true ->
  forall fuel pc s,
  exec St sem ev_str ev_bool code (lk_dev (text_file (lits (snd (last rest (o, u)))))) fuel (compile u) pc s =
  exec St sem ev_str ev_bool code lk_normal fuel (compile (snd (last rest (o, u)))) pc s.
Proof.
  intros H Ok. eapply recompile_decision_sound; [exact Ok|]. apply chain_last. exact H.
Qed.
End Decision.

(* ---------- literals built by the generator: file round trip and lookup ---------- *)
Section Generated.
Variable is_print : N -> bool.
Hypothesis print_nl : is_print 10 = false.

Lemma generated_no_lf pss : forallb (forallb piece_ok) pss = true -> forallb no_lf (map (lit_text is_print) pss) = true.
Proof.
  induction pss as [|ps pss IH]; intros H; [reflexivity|].
  cbn [forallb map] in *. apply andb_prop in H as [H1 H2]. rewrite (IH H2), andb_true_r.
  apply scan_no_lf. apply lit_scan_ok; assumption.
Qed.

Theorem generated_file_roundtrip pss : pss <> [] -> forallb (forallb piece_ok) pss = true ->
  split_lf (text_file (map (lit_text is_print) pss)) = map (lit_text is_print) pss.
Proof.
  intros Hne H. unfold text_file. apply split_join; [destruct pss; [congruence|discriminate]|apply generated_no_lf; exact H].
Qed.

Theorem dev_lookup_lit pss i : forallb (forallb piece_ok) pss = true -> (i < length pss)%nat ->
  dev_write (text_file (map (lit_text is_print) pss)) (S i) = Some (lit_value (nth i pss [])) /\
  normal_write (lit_text is_print (nth i pss [])) = Some (lit_value (nth i pss [])).
Proof.
  intros H L.
  assert (Ok : forallb piece_ok (nth i pss []) = true).
  { rewrite forallb_forall in H. apply H. apply nth_In. exact L. }
  split.
  - rewrite dev_write_join; [|apply generated_no_lf; exact H|rewrite map_length; exact L].
    change (@nil byte) with (lit_text is_print []) at 1. rewrite map_nth. apply unquote_lit; assumption.
  - unfold normal_write. apply unquote_lit; assumption.
Qed.
End Generated.


(* ---------- regression: the criterion of before 75525d5 does not imply an equal skeleton - three witnesses ---------- *)
Definition o0 : gen_opts := {| o_version := bs "v"; o_file := bs "t.templ"; o_skip := false; o_date := [] |}.

(* (a) same expression, different writer: title={ c } -> style={ c } *)
Definition wa  : list uop := [ULit (bs "<p title=\"""); UExpr SAttr (bs "c"); ULit (bs "\""></p>")].
Definition wa' : list uop := [ULit (bs "<p style=\"""); UExpr SStyle (bs "c"); ULit (bs "\""></p>")].
(* (b) { s } moved into the preceding if-body *)
Definition wb  : list uop := [UIf (bs "b") 1; ULit (bs "<i>x</i>"); UExpr SText (bs "s"); ULit (bs "<hr>")].
Definition wb' : list uop := [UIf (bs "b") 2; ULit (bs "<i>x</i>"); UExpr SText (bs "s"); ULit (bs "<hr>")].
(* (c) a literal and an expression swapped *)
Definition wc  (l : byte) : list uop := [ULit [l]; UExpr SText (bs "s")].
Definition wc' (l : byte) : list uop := [UExpr SText (bs "s"); ULit [l]].

(* the statement of one witness: the old criterion answers "text only", the repaired HasChanged answers "recompile",
   and the compiled old program reading the new text file does render other bytes than the fresh build
   (fuel 8 is more than the number of statements: both runs complete) *)
Definition regression (St : Type) (sem : sink -> bytes -> bytes) (code : bytes -> nat -> St -> option (St * bytes * nat))
  (x : bytes) (b : bool) (s : St) (u u' : list uop) : Prop :=
  expr_list_criterion (gen_out o0 u) (gen_out o0 u') = false /\
  has_changed skel_eqb (gen_out o0 u) (gen_out o0 u') = true /\ lits_ok u' = true /\
  exec St sem (fun _ _ => x) (fun _ _ => b) code (lk_dev (text_file (lits u'))) 8 (compile u) 0 s <>
  exec St sem (fun _ _ => x) (fun _ _ => b) code lk_normal 8 (compile u') 0 s.

Section Regression.
Variable St : Type.
Variable sem : sink -> bytes -> bytes.
Variable code : bytes -> nat -> St -> option (St * bytes * nat).
Variable s : St.

Theorem refuted_sink (x : bytes) : sem SAttr x <> sem SStyle x -> regression St sem code x true s wa wa'.
Proof.
  intros D. split; [vm_compute; reflexivity|]. split; [vm_compute; reflexivity|]. split; [vm_compute; reflexivity|].
  assert (L : exec St sem (fun _ _ => x) (fun _ _ => true) code (lk_dev (text_file (lits wa'))) 8 (compile wa) 0 s
              = Some (bs "<p style=""" ++ sem SAttr x ++ bs """></p>")).
  { unfold wa, compile. cbn [compile_from exec nth_error].
    replace (lk_dev (text_file (lits wa')) 1 (bs "<p title=\""")) with (Some (bs "<p style=""")) by (vm_compute; reflexivity).
    replace (lk_dev (text_file (lits wa')) 2 (bs "\""></p>")) with (Some (bs """></p>")) by (vm_compute; reflexivity).
    cbn [option_map app]. rewrite app_nil_r. reflexivity. }
  assert (R : exec St sem (fun _ _ => x) (fun _ _ => true) code lk_normal 8 (compile wa') 0 s
              = Some (bs "<p style=""" ++ sem SStyle x ++ bs """></p>")).
  { unfold wa', compile. cbn [compile_from exec nth_error].
    replace (lk_normal 1 (bs "<p style=\""")) with (Some (bs "<p style=""")) by (vm_compute; reflexivity).
    replace (lk_normal 2 (bs "\""></p>")) with (Some (bs """></p>")) by (vm_compute; reflexivity).
    cbn [option_map app]. rewrite app_nil_r. reflexivity. }
  rewrite L, R. intros E. injection E as E. apply app_inv_tail in E. contradiction.
Qed.

Theorem refuted_control_flow (x : bytes) : sem SText x <> [] -> regression St sem code x false s wb wb'.
Proof.
  intros D. split; [vm_compute; reflexivity|]. split; [vm_compute; reflexivity|]. split; [vm_compute; reflexivity|].
  assert (L : exec St sem (fun _ _ => x) (fun _ _ => false) code (lk_dev (text_file (lits wb'))) 8 (compile wb) 0 s
              = Some (sem SText x ++ bs "<hr>")).
  { unfold wb, compile. cbn [compile_from exec nth_error Nat.add].
    replace (lk_dev (text_file (lits wb')) 2 (bs "<hr>")) with (Some (bs "<hr>")) by (vm_compute; reflexivity).
    cbn [option_map app]. rewrite app_nil_r. reflexivity. }
  assert (R : exec St sem (fun _ _ => x) (fun _ _ => false) code lk_normal 8 (compile wb') 0 s = Some (bs "<hr>")).
  { unfold wb', compile. cbn [compile_from exec nth_error Nat.add].
    replace (lk_normal 2 (bs "<hr>")) with (Some (bs "<hr>")) by (vm_compute; reflexivity). reflexivity. }
  rewrite L, R. intros E. injection E as E.
  assert (length (sem SText x ++ bs "<hr>") = length (bs "<hr>")) as Len by (rewrite E; reflexivity).
  rewrite app_length in Len. destruct (sem SText x); [congruence|cbn in Len; lia].
Qed.

Theorem refuted_order (x : bytes) (c0 : byte) (rest : bytes) : sem SText x = c0 :: rest ->
  exists l : byte, regression St sem code x true s (wc l) (wc' l).
Proof.
  intros HS.
  assert (G : forall l : byte, l <> c0 -> unquote [l] = Some [l] -> no_lf [l] = true -> regression St sem code x true s (wc l) (wc' l)).
  { intros l Hl U NL. split; [apply expr_list_criterion_false; unfold same_but_skeleton; repeat split|].
    split; [unfold has_changed; replace (expr_list_criterion (gen_out o0 (wc l)) (gen_out o0 (wc' l))) with false
              by (symmetry; apply expr_list_criterion_false; unfold same_but_skeleton; repeat split); reflexivity|].
    split; [unfold lits_ok; cbn; cbn in NL; rewrite NL; reflexivity|].
    unfold wc, wc', compile. cbn [compile_from exec nth_error lits]. unfold lk_dev, lk_normal, normal_write.
    rewrite (dev_write_join [[l]] 0); [|cbn; cbn in NL; rewrite NL; reflexivity|cbn; lia]. cbn [nth]. rewrite U. rewrite HS.
    cbn [option_map app]. intros E. injection E as E. congruence. }
  destruct (Byte.eqb c0 x61) eqn:E.
  - apply byte_eqb_eq in E. subst. exists x62. apply G; [discriminate|vm_compute; reflexivity|vm_compute; reflexivity].
  - apply byte_eqb_neq in E. exists x61. apply G; [congruence|vm_compute; reflexivity|vm_compute; reflexivity].
Qed.
End Regression.

Theorem expr_list_criterion_refuted : forall (St : Type) (sem : sink -> bytes -> bytes)
  (code : bytes -> nat -> St -> option (St * bytes * nat)) (s : St),
  (forall x, sem SAttr x <> sem SStyle x -> regression St sem code x true s wa wa') /\
  (forall x, sem SText x <> [] -> regression St sem code x false s wb wb') /\
  (forall x c0 rest, sem SText x = c0 :: rest -> exists l : byte, regression St sem code x true s (wc l) (wc' l)).
Proof. intros St sem code s. exact (conj (refuted_sink St sem code s) (conj (refuted_control_flow St sem code s) (refuted_order St sem code s))). Qed.

(* ---------- the skeleton of generated code: text level ---------- *)
Lemma strip_spec p : forall s r, strip p s = Some r <-> s = p ++ r.
Proof.
  induction p as [|a p IH]; intros s r; cbn [strip app].
  - split; [intros H; injection H as ->; reflexivity|intros ->; reflexivity].
  - destruct s as [|b s]; [split; [discriminate|discriminate]|].
    destruct (Byte.eqb a b) eqn:E.
    + apply byte_eqb_eq in E. subst b. rewrite IH. split; [intros ->; reflexivity|intros H; injection H as ->; reflexivity].
    + apply byte_eqb_neq in E. split; [discriminate|intros H; injection H as -> _; congruence].
Qed.
Lemma strip_app p r : strip p (p ++ r) = Some r.
Proof. apply strip_spec. reflexivity. Qed.

Definition stops (f : byte -> bool) (b : bytes) : Prop := match b with [] => True | c :: _ => f c = false end.
Lemma span_spec f : forall s a b, span f s = (a, b) -> s = a ++ b /\ forallb f a = true /\ stops f b.
Proof.
  induction s as [|c s IH]; intros a b H; cbn [span] in H.
  - injection H as <- <-. repeat split.
  - destruct (f c) eqn:E.
    + destruct (span f s) as [a' b'] eqn:Sp. injection H as <- <-. destruct (IH _ _ eq_refl) as [-> [Fa St]].
      cbn [forallb app]. rewrite E, Fa. repeat split. exact St.
    + injection H as <- <-. repeat split. exact E.
Qed.
Lemma span_app f : forall a b, forallb f a = true -> stops f b -> span f (a ++ b) = (a, b).
Proof.
  induction a as [|c a IH]; intros b Fa St; cbn [app].
  - destruct b as [|d b]; [reflexivity|]. cbn [span]. cbn [stops] in St. rewrite St. reflexivity.
  - cbn [forallb] in Fa. apply andb_prop in Fa as [Fc Fa]. cbn [span]. rewrite Fc, (IH b Fa St). reflexivity.
Qed.
Lemma frev_rev s : frev s = rev s.
Proof. unfold frev. symmetry. apply rev_alt. Qed.
Lemma strip_end_spec p s r : strip_end p s = Some r <-> s = r ++ p.
Proof.
  unfold strip_end. rewrite !frev_rev. split.
  - intros H. destruct (strip (rev p) (rev s)) as [x|] eqn:E; [|discriminate]. cbn [option_map] in H. rewrite frev_rev in H. injection H as <-.
    apply strip_spec in E. apply (f_equal (@rev byte)) in E. rewrite rev_involutive, rev_app_distr, rev_involutive in E. exact E.
  - intros ->. rewrite rev_app_distr, strip_app. cbn [option_map]. rewrite frev_rev, rev_involutive. reflexivity.
Qed.

Lemma ws_open_stops : forall r, stops is_digit (ws_open ++ r).
Proof. intros r. vm_compute. reflexivity. Qed.

(* the first occurrence of p depends only on the text up to its end *)
Lemma strip_none_long p : forall x y y', (length p <= length x)%nat -> strip p (x ++ y) = None -> strip p (x ++ y') = None.
Proof.
  induction p as [|a p IH]; intros x y y' L H; [discriminate|].
  destruct x as [|b x]; [cbn in L; lia|]. cbn [app strip] in *. destruct (Byte.eqb a b); [|reflexivity].
  apply (IH x y y'); [cbn in L; lia|exact H].
Qed.
Definition first_at (p pre : bytes) : Prop := forall t, find_sub p (pre ++ p ++ t) = Some (pre, t).
Lemma find_sub_spec p : forall s a b, find_sub p s = Some (a, b) -> s = a ++ p ++ b /\ first_at p a.
Proof.
  induction s as [|c s IH]; intros a b H.
  - destruct p as [|a0 p]; [|cbn in H; discriminate]. cbn in H. injection H as <- <-.
    split; [reflexivity|]. intros t. cbn [app]. destruct t; reflexivity.
  - cbn [find_sub] in H. destruct (strip p (c :: s)) as [r|] eqn:E.
    + injection H as <- <-. apply strip_spec in E. split; [exact E|]. intros t. cbn [app].
      destruct (p ++ t) eqn:Ept; cbn [find_sub]; rewrite <- ?Ept, strip_app; reflexivity.
    + destruct (find_sub p s) as [[a' b']|] eqn:F; [|discriminate]. injection H as <- <-.
      destruct (IH _ _ eq_refl) as [-> Fa]. split; [reflexivity|]. intros t. cbn [app find_sub].
      replace (strip p (c :: a' ++ p ++ t)) with (@None bytes).
      * rewrite (Fa t). reflexivity.
      * symmetry. change (c :: a' ++ p ++ t) with ((c :: a') ++ p ++ t). rewrite app_assoc.
        apply (strip_none_long p ((c :: a') ++ p) b' t); [rewrite app_length; lia|]. rewrite <- app_assoc. exact E.
Qed.
Lemma first_at_tabs tb : forallb is_tab tb = true -> first_at ws_prefix tb.
Proof.
  induction tb as [|c tb IH]; intros T t.
  - cbn [app]. change (find_sub ws_prefix (ws_prefix ++ t)) with
      (match strip ws_prefix (ws_prefix ++ t) with Some r => Some ([], r) | None =>
         match ws_prefix ++ t with [] => None | c :: s' => match find_sub ws_prefix s' with Some (a, b) => Some (c :: a, b) | None => None end end end).
    rewrite strip_app. reflexivity.
  - cbn [forallb] in T. apply andb_prop in T as [Tc T]. unfold is_tab in Tc. apply byte_eqb_eq in Tc. subst c.
    cbn [app find_sub]. replace (strip ws_prefix (x09 :: tb ++ ws_prefix ++ t)) with (@None bytes) by reflexivity.
    rewrite (IH T t). reflexivity.
Qed.

(* ws_parse recognises exactly the lines  PRE prefix DIGITS , "LIT")  whose first call text is where PRE ends *)
Lemma ws_parse_spec l pre ds lit : ws_parse l = Some (pre, ds, lit) ->
  l = ws_line pre ds lit /\ first_at ws_prefix pre /\ forallb is_digit ds = true /\ ds <> [].
Proof.
  unfold ws_parse, ws_line. intros H.
  destruct (find_sub ws_prefix l) as [[pre0 r1]|] eqn:S1; [|discriminate]. apply find_sub_spec in S1 as [-> F1].
  destruct (span is_digit r1) as [ds0 r2] eqn:S3. apply span_spec in S3 as [-> [T3 _]].
  destruct ds0 as [|d ds0]; [discriminate|].
  destruct (strip ws_open r2) as [r3|] eqn:S4; [|discriminate]. apply strip_spec in S4 as ->.
  destruct (strip_end ws_close r3) as [lit0|] eqn:S5; [|discriminate]. apply strip_end_spec in S5 as ->.
  injection H as <- <- <-. split; [|split; [exact F1|split; [exact T3|discriminate]]].
  rewrite <- ?app_assoc. reflexivity.
Qed.
Lemma ws_parse_line pre ds lit : first_at ws_prefix pre -> forallb is_digit ds = true -> ds <> [] ->
  ws_parse (ws_line pre ds lit) = Some (pre, ds, lit).
Proof.
  intros T D N. unfold ws_parse, ws_line. rewrite (T _).
  rewrite (span_app is_digit ds _ D (ws_open_stops _)). destruct ds as [|d ds]; [congruence|].
  rewrite strip_app. replace (strip_end ws_close (lit ++ ws_close)) with (Some lit) by (symmetry; apply strip_end_spec; reflexivity).
  reflexivity.
Qed.

(* a line whose positions were erased ends with a closing brace: it is not a WriteString line *)
Lemma ws_line_rev tb ds lit : exists t, rev (ws_line tb ds lit) = x29 :: t.
Proof.
  unfold ws_line. rewrite !rev_app_distr. cbn [ws_close rev app]. eexists. reflexivity.
Qed.
Lemma erase_pos_cases l : erase_pos l = l \/ exists y, erase_pos l = y ++ pos_erased.
Proof.
  unfold erase_pos. destruct (span is_tab l) as [tb r]. destruct (strip err_prefix r); [|left; reflexivity].
  destruct (strip [x7d] (frev l)) as [a|]; [|left; reflexivity]. destruct (span is_digit a) as [c a1].
  destruct (strip col_rev a1) as [a2|]; [|left; reflexivity]. destruct (span is_digit a2) as [ln a3].
  destruct (strip line_rev a3) as [a4|]; [|left; reflexivity]. right. eexists. reflexivity.
Qed.
Lemma erase_pos_not_ws l : ws_parse l = None -> ws_parse (erase_pos l) = None.
Proof.
  intros H. destruct (erase_pos_cases l) as [->|[y E]]; [exact H|]. rewrite E.
  destruct (ws_parse (y ++ pos_erased)) as [[[tb ds] lit]|] eqn:W; [|reflexivity].
  apply ws_parse_spec in W as [W _]. destruct (ws_line_rev tb ds lit) as [t R]. rewrite <- W in R.
  rewrite rev_app_distr in R. cbn [pos_erased] in R. vm_compute (rev (bs ", Line: , Col: }")) in R. cbn [app] in R. discriminate.
Qed.

(* erase the literal of a WriteString call, the positions of any other statement *)
Definition erase_lop (o : op) : op := match o with OLit i _ => OLit i [] | OCode c => OCode (erase_pos c) | x => x end.

Lemma skel_line_ws l tb ds lit : ws_parse l = Some (tb, ds, lit) -> ws_parse (skel_line l) = Some (tb, ds, []).
Proof.
  intros H. unfold skel_line. rewrite H. apply ws_parse_spec in H as [_ [T [D N]]]. apply ws_parse_line; assumption.
Qed.
Lemma skel_line_not_ws l : ws_parse l = None -> ws_parse (skel_line l) = None.
Proof. intros H. unfold skel_line. rewrite H. apply erase_pos_not_ws. exact H. Qed.

(* ws_parse recognises exactly the WriteString lines (in particular every line TABS call); the skeleton of such a line
   is the line with an empty literal; the skeleton of any other line is the line without its error position, which is
   never a WriteString line *)
Theorem ws_recognition :
  (forall l pre ds lit, ws_parse l = Some (pre, ds, lit) ->
     l = ws_line pre ds lit /\ (forall t, find_sub ws_prefix (pre ++ ws_prefix ++ t) = Some (pre, t)) /\
     forallb is_digit ds = true /\ ds <> []) /\
  (forall pre ds lit, (forallb is_tab pre = true \/ forall t, find_sub ws_prefix (pre ++ ws_prefix ++ t) = Some (pre, t)) ->
     forallb is_digit ds = true -> ds <> [] ->
     ws_parse (ws_line pre ds lit) = Some (pre, ds, lit) /\ skel_line (ws_line pre ds lit) = ws_line pre ds []) /\
  (forall l, ws_parse l = None -> skel_line l = erase_pos l /\ ws_parse (erase_pos l) = None).
Proof.
  split; [exact ws_parse_spec|]. split.
  - intros pre ds lit T D N. assert (F : first_at ws_prefix pre) by (destruct T as [T|T]; [apply first_at_tabs; exact T|exact T]).
    split; [apply ws_parse_line; assumption|]. unfold skel_line. rewrite ws_parse_line by assumption. reflexivity.
  - intros l H. split; [unfold skel_line; rewrite H; reflexivity|apply erase_pos_not_ws; exact H].
Qed.

Lemma skel_line_op l l' : skel_line l = skel_line l' -> map erase_lop (ops_of_line l) = map erase_lop (ops_of_line l').
Proof.
  intros E. unfold ops_of_line.
  destruct (ws_parse l) as [[[tb ds] lit]|] eqn:W; destruct (ws_parse l') as [[[tb' ds'] lit']|] eqn:W'.
  - apply skel_line_ws in W, W'. rewrite E in W. rewrite W in W'. injection W' as -> ->. reflexivity.
  - apply skel_line_ws in W. apply skel_line_not_ws in W'. rewrite E in W. congruence.
  - apply skel_line_ws in W'. apply skel_line_not_ws in W. rewrite E in W. congruence.
  - cbn [map erase_lop]. unfold skel_line in E. rewrite W, W' in E. rewrite E. reflexivity.
Qed.

(* lines hold no LF, and neither do their skeletons *)
Lemma split_lf_no_lf s : forallb no_lf (split_lf s) = true.
Proof.
  induction s as [|c s IH]; [reflexivity|]. cbn [split_lf]. destruct (Byte.eqb c x0a) eqn:E.
  - cbn [forallb]. rewrite IH. reflexivity.
  - destruct (split_lf s) as [|h t]; [cbn; rewrite E; reflexivity|].
    cbn [forallb] in *. apply andb_prop in IH as [Hh Ht]. rewrite Ht, andb_true_r.
    unfold no_lf, no_byte in *. cbn [forallb]. rewrite E, Hh. reflexivity.
Qed.
Lemma split_lf_nonempty s : split_lf s <> [].
Proof. destruct s as [|c s]; cbn [split_lf]; [discriminate|]. destruct (Byte.eqb c x0a); [discriminate|]. destruct (split_lf s); discriminate. Qed.
Lemma no_lf_app a b : no_lf (a ++ b) = no_lf a && no_lf b.
Proof. unfold no_lf, no_byte. apply forallb_app. Qed.
Lemma no_lf_rev a : no_lf (rev a) = no_lf a.
Proof.
  induction a as [|c a IH]; [reflexivity|]. cbn [rev]. rewrite no_lf_app, IH. unfold no_lf, no_byte. cbn [forallb].
  rewrite andb_true_r. apply andb_comm.
Qed.
Lemma erase_pos_no_lf l : no_lf l = true -> no_lf (erase_pos l) = true.
Proof.
  intros H. unfold erase_pos. destruct (span is_tab l) as [tb r]. destruct (strip err_prefix r); [|exact H].
  destruct (strip [x7d] (frev l)) as [a|] eqn:S1; [|exact H]. rewrite frev_rev in S1. destruct (span is_digit a) as [c a1] eqn:S2.
  destruct (strip col_rev a1) as [a2|] eqn:S3; [|exact H]. destruct (span is_digit a2) as [ln a3] eqn:S4.
  destruct (strip line_rev a3) as [a4|] eqn:S5; [|exact H].
  apply strip_spec in S1, S3, S5. apply span_spec in S2 as [-> _]. apply span_spec in S4 as [-> _]. subst a1 a3.
  rewrite <- no_lf_rev, S1 in H. rewrite !no_lf_app in H.
  repeat (apply andb_prop in H as [? H]). rewrite frev_rev, no_lf_app, no_lf_rev, H. vm_compute. reflexivity.
Qed.
Lemma skel_line_no_lf l : no_lf l = true -> no_lf (skel_line l) = true.
Proof.
  intros H. unfold skel_line. destruct (ws_parse l) as [[[tb ds] lit]|] eqn:W; [|apply erase_pos_no_lf; exact H].
  apply ws_parse_spec in W as [-> _]. unfold ws_line in *. rewrite !no_lf_app in *.
  repeat (apply andb_prop in H as [? H]). repeat (apply andb_true_intro; split); try assumption; reflexivity.
Qed.
Lemma code_lines_no_lf c : forallb no_lf (code_lines c) = true.
Proof.
  unfold code_lines. pose proof (split_lf_no_lf c) as H. induction (split_lf c) as [|l L IH]; [reflexivity|].
  cbn [forallb] in H. apply andb_prop in H as [Hl HL]. cbn [filter]. destruct (negb (is_date l)); [cbn [forallb]; rewrite Hl|]; apply IH; exact HL.
Qed.

Lemma join_lf_inj a b : a <> [] -> b <> [] -> forallb no_lf a = true -> forallb no_lf b = true -> join_lf a = join_lf b -> a = b.
Proof. intros Na Nb Ha Hb E. rewrite <- (split_join a Na Ha), <- (split_join b Nb Hb), E. reflexivity. Qed.

(* equal skeletons: line by line the two files are the same statement, up to literal contents and error positions *)
Lemma skeleton_lines c c' : code_lines c <> [] -> code_lines c' <> [] -> skel_of_code c = skel_of_code c' ->
  map erase_lop (ops_of_code c) = map erase_lop (ops_of_code c').
Proof.
  unfold skel_of_code, ops_of_code. intros N N' E.
  pose proof (code_lines_no_lf c) as H. pose proof (code_lines_no_lf c') as H'.
  apply join_lf_inj in E.
  - revert E H H'. generalize (code_lines c) (code_lines c'). clear. induction l as [|x l IH]; intros l' E; destruct l' as [|x' l']; try discriminate; [reflexivity|].
    cbn [map flat_map] in *. injection E as Ex El. intros H H'. rewrite !map_app, (skel_line_op _ _ Ex). f_equal.
    cbn [forallb] in H, H'. apply andb_prop in H as [_ H]. apply andb_prop in H' as [_ H']. apply IH; assumption.
  - destruct (code_lines c); [congruence|discriminate].
  - destruct (code_lines c'); [congruence|discriminate].
  - clear - H. induction (code_lines c) as [|x l IH]; [reflexivity|]. cbn [forallb map] in *. apply andb_prop in H as [Hx H].
    rewrite (skel_line_no_lf _ Hx). apply IH. exact H.
  - clear - H'. induction (code_lines c') as [|x l IH]; [reflexivity|]. cbn [forallb map] in *. apply andb_prop in H' as [Hx H].
    rewrite (skel_line_no_lf _ Hx). apply IH. exact H.
Qed.

(* the literals found in the lines of a file hold no LF *)
Lemma code_lits_no_lf c : forallb no_lf (op_lits (ops_of_code c)) = true.
Proof.
  unfold ops_of_code. pose proof (code_lines_no_lf c) as H. induction (code_lines c) as [|l L IH]; [reflexivity|].
  cbn [forallb flat_map] in *. apply andb_prop in H as [Hl H]. unfold ops_of_line at 1.
  destruct (ws_parse l) as [[[tb ds] lit]|] eqn:W; cbn [op_lits app]; [|apply IH; exact H].
  cbn [forallb]. rewrite (IH H), andb_true_r. apply ws_parse_spec in W as [-> _]. unfold ws_line in Hl. rewrite !no_lf_app in Hl.
  repeat (apply andb_prop in Hl as [? Hl]). assumption.
Qed.

Section CodeDecision.
Variable St : Type.
Variable sem : sink -> bytes -> bytes.
Variable ev_str : St -> bytes -> bytes.
Variable ev_bool : St -> bytes -> bool.
Variable code : bytes -> nat -> St -> option (St * bytes * nat).
(* what is rendered does not depend on the Line/Col numbers written into templ.Error values *)
Hypothesis code_pos : forall l pc s, code l pc s = code (erase_pos l) pc s.

Lemma erase_lop_sim P : forall P', map erase_lop P = map erase_lop P' -> Forall2 (op_sim St code) P P'.
Proof.
  induction P as [|o P IH]; intros P' E; destruct P' as [|o' P']; try discriminate; [constructor|].
  cbn [map] in E. injection E as Eo EP. constructor; [|apply IH; exact EP].
  destruct o as [i l|k e|c n|c]; destruct o' as [i' l'|k' e'|c' n'|c']; cbn [erase_lop] in Eo; try discriminate; cbn [op_sim].
  - injection Eo as ->. reflexivity.
  - injection Eo as -> ->. split; reflexivity.
  - injection Eo as -> ->. split; reflexivity.
  - injection Eo as Eo. intros pc s. rewrite (code_pos c), (code_pos c'), Eo. reflexivity.
Qed.

(* The repaired HasChanged on the generated files themselves.  Both files are well-formed generator outputs and the
   text file is written from the literals that are in the new code; then a negative answer means: the program that
   is the OLD file, looking its strings up in the NEW text file, renders from every statement, in every state, what
   the program that is the NEW file renders. *)
Theorem code_decision_sound o o' ls es ls' es' c c' : wf_code c = true -> wf_code c' = true -> ls' = op_lits (ops_of_code c') ->
  has_changed bytes_eqb (gen_out_code o ls es c) (gen_out_code o' ls' es' c') = false ->
  forall fuel pc s,
  exec St sem ev_str ev_bool code (lk_dev (text_file ls')) fuel (ops_of_code c) pc s =
  exec St sem ev_str ev_bool code lk_normal fuel (ops_of_code c') pc s.
Proof.
  intros W W' -> H. apply (has_changed_false _ _ bytes_eqb_eq) in H as [_ E]. cbn [gen_out_code g_skel] in E.
  unfold wf_code in W, W'.
  apply exec_sim.
  - apply erase_lop_sim. apply skeleton_lines; [destruct (code_lines c); [discriminate|discriminate]|destruct (code_lines c'); [discriminate|discriminate]|exact E].
  - apply numbered_lookup; [destruct (code_lines c'); [discriminate|exact W']|apply code_lits_no_lf].
Qed.
End CodeDecision.
