(* C16 - proofs about whole literals (pieces), the scanner predicate and the full Unquote (fast path included). *)
From Coq.Strings Require Import Byte String.
From Coq Require Import List Arith NArith Bool Lia ZArith.
From Coq Require Import ZifyN ZifyNat ZifyBool.
Import ListNotations.
From V Require Import lib.Bytes model.Quote proofs.QuoteProof.
Open Scope N_scope.
Ltac Zify.zify_post_hook ::= Z.div_mod_to_equations.

(* ---------- bytes that need no care inside a double-quoted literal ---------- *)
Definition safe_byte (b : byte) : bool := negb (Byte.eqb b x22) && negb (Byte.eqb b x0a) && negb (Byte.eqb b x5c).

Lemma safe_Nb k : k < 256 -> k <> 34 -> k <> 10 -> k <> 92 -> safe_byte (Nb k) = true.
Proof.
  intros H A B C. unfold safe_byte.
  rewrite !eqb_neq_bN; [reflexivity| | |]; rewrite bN_Nb by exact H; [change (bN x5c) with 92|change (bN x0a) with 10|change (bN x22) with 34]; assumption.
Qed.

Lemma hex1_safe k : k < 16 -> safe_byte (hex1 k) = true.
Proof.
  intros H. assert (k = 0 \/ k = 1 \/ k = 2 \/ k = 3 \/ k = 4 \/ k = 5 \/ k = 6 \/ k = 7 \/ k = 8 \/ k = 9 \/ k = 10 \/
    k = 11 \/ k = 12 \/ k = 13 \/ k = 14 \/ k = 15) as C by lia.
  repeat (destruct C as [-> | C]; [vm_compute; reflexivity|]). subst; vm_compute; reflexivity.
Qed.

Lemma plain_safe b : plain_byte b = true -> safe_byte b = true.
Proof. unfold plain_byte, safe_byte. intros H. apply andb_prop in H as [H C]. apply andb_prop in H as [H B]. apply andb_prop in H as [_ A]. rewrite A, B, C. reflexivity. Qed.

Lemma scan_safe_cons c q : safe_byte c = true -> scan_ok (c :: q) = scan_ok q.
Proof.
  unfold safe_byte. intros H. apply andb_prop in H as [H C]. apply andb_prop in H as [A B].
  apply negb_true_iff in A, B, C. cbn [scan_ok]. rewrite A, B, C. reflexivity.
Qed.
Lemma scan_safe_app p : forallb safe_byte p = true -> forall q, scan_ok (p ++ q) = scan_ok q.
Proof.
  induction p as [|c p IH]; intros H q; [reflexivity|]. cbn [forallb] in H. apply andb_prop in H as [Hc Hp].
  cbn [app]. rewrite scan_safe_cons by exact Hc. apply IH. exact Hp.
Qed.
Lemma scan_esc e q : Byte.eqb e x0a = false -> scan_ok (x5c :: e :: q) = scan_ok q.
Proof. intros H. cbn [scan_ok]. change (Byte.eqb x5c x22) with false. change (Byte.eqb x5c x0a) with false.
  change (Byte.eqb x5c x5c) with true. cbv iota. rewrite H. reflexivity. Qed.

Lemma encode_safe r : r < 1114112 -> r <> 34 -> r <> 10 -> r <> 92 -> forallb safe_byte (encode_utf8 r) = true.
Proof.
  intros H A B C. unfold encode_utf8.
  repeat match goal with |- context [if ?c then _ else _] => let E := fresh "E" in destruct c eqn:E end;
  cbn [forallb]; rewrite !safe_Nb by lia; reflexivity.
Qed.

Lemma scan_hex2 n q : n < 256 -> scan_ok (hex2 n ++ q) = scan_ok q.
Proof. intros H. unfold hex2. cbn [app]. rewrite !scan_safe_cons by (apply hex1_safe; lia). reflexivity. Qed.
Lemma scan_hex4 n q : n < 65536 -> scan_ok (hex4 n ++ q) = scan_ok q.
Proof. intros H. unfold hex4. cbn [app]. rewrite !scan_safe_cons by (apply hex1_safe; lia). reflexivity. Qed.
Lemma scan_hex8 n q : n < 4294967296 -> scan_ok (hex8 n ++ q) = scan_ok q.
Proof. intros H. unfold hex8. rewrite <- app_assoc. rewrite scan_hex4 by lia. apply scan_hex4. lia. Qed.

Section Lit.
Variable is_print : N -> bool.
Hypothesis print_nl : is_print 10 = false.

Lemma scan_quote_rune r q : r < 1114112 -> scan_ok (quote_rune is_print r ++ q) = scan_ok q.
Proof.
  intros H. unfold quote_rune.
  destruct (r =? 34) eqn:E1; [cbn [app]; apply scan_esc; reflexivity|].
  destruct (r =? 92) eqn:E2; [cbn [app]; apply scan_esc; reflexivity|].
  apply N.eqb_neq in E1, E2.
  destruct (is_print r) eqn:P.
  { apply scan_safe_app. apply encode_safe; try assumption. intros ->. congruence. }
  repeat match goal with |- context [if r =? ?k then _ else _] => destruct (r =? k); [cbn [app]; apply scan_esc; reflexivity|] end.
  destruct ((r <? 32) || (r =? 127)) eqn:T8.
  { rewrite <- app_assoc. cbn [app]. rewrite scan_esc by reflexivity. apply scan_hex2. lia. }
  destruct (r <? 65536) eqn:T9.
  { rewrite <- app_assoc. cbn [app]. rewrite scan_esc by reflexivity. apply scan_hex4. lia. }
  rewrite <- app_assoc. cbn [app]. rewrite scan_esc by reflexivity. apply scan_hex8. lia.
Qed.

Lemma scan_quote_fuel n : forall s q, scan_ok (quote_fuel is_print n s ++ q) = scan_ok q.
Proof.
  induction n as [|n IH]; intros s q; [reflexivity|]. cbn [quote_fuel]. destruct s as [|b t]; [reflexivity|].
  destruct (decode_rune (b :: t)) as [r w] eqn:D. destruct (decode_valid _ _ _ D) as [_ Lr].
  destruct ((w =? 1)%nat && (r =? RuneError)).
  - rewrite <- !app_assoc. cbn [app]. rewrite scan_esc by reflexivity. rewrite scan_hex2 by apply bN_lt. apply IH.
  - rewrite <- app_assoc. rewrite scan_quote_rune by exact Lr. apply IH.
Qed.

(* Quote's output can stand between two double quotes on one line *)
Theorem quote_scan_ok s : scan_ok (quote is_print s) = true.
Proof. pose proof (scan_quote_fuel (length s) s []) as H. rewrite app_nil_r in H. exact H. Qed.

(* ---------- no backslash in the output => nothing was escaped => output = input ---------- *)
Lemma quote_rune_cases r : quote_rune is_print r = encode_utf8 r \/ exists y, quote_rune is_print r = x5c :: y.
Proof.
  unfold quote_rune.
  repeat match goal with |- context [if ?c then _ else _] => destruct c; [first [left; reflexivity | right; eexists; reflexivity]|] end.
  right; eexists; reflexivity.
Qed.

Lemma nobs_id n : forall s, (length s <= n)%nat -> no_byte x5c (quote_fuel is_print n s) = true -> quote_fuel is_print n s = s.
Proof.
  induction n as [|n IH]; intros s L H.
  - destruct s; [reflexivity|cbn in L; lia].
  - destruct s as [|b t]; [reflexivity|]. cbn [quote_fuel] in *.
    destruct (decode_rune (b :: t)) as [r w] eqn:D.
    assert (W : (1 <= w <= length (b :: t))%nat) by (apply (decode_width _ r w); [discriminate|exact D]).
    destruct ((w =? 1)%nat && (r =? RuneError)) eqn:Inv.
    + cbn in H. discriminate.
    + assert (Valid : r <> RuneError \/ (1 < w)%nat).
      { apply andb_false_iff in Inv as [Inv|Inv]; [right; apply Nat.eqb_neq in Inv; lia|left; apply N.eqb_neq in Inv; exact Inv]. }
      destruct (quote_rune_cases r) as [E|[y E]]; rewrite E in *.
      * unfold no_byte in H. rewrite forallb_app in H. apply andb_prop in H as [_ H].
        rewrite (IH (skipn w (b :: t))); [|rewrite skipn_length; cbn [length] in *; lia|exact H].
        rewrite (enc_dec _ _ _ D Valid). apply firstn_skipn.
      * cbn in H. discriminate.
Qed.

(* ---------- whole literals ---------- *)
Lemma unq_plain_app p : forallb plain_byte p = true -> forall rest v, unq_all rest v -> unq_all (p ++ rest) (p ++ v).
Proof.
  induction p as [|c p IH]; intros H rest v HR; [exact HR|].
  cbn [forallb] in H. apply andb_prop in H as [Hc Hp]. specialize (IH Hp rest v HR).
  intros f Lf. destruct f as [|f]; [cbn in Lf; lia|]. cbn [app] in *.
  unfold plain_byte in Hc. apply andb_prop in Hc as [Hc C3]. apply andb_prop in Hc as [Hc C2]. apply andb_prop in Hc as [C0 C1].
  apply negb_true_iff in C1, C2, C3. apply N.ltb_lt in C0.
  rewrite unq_plain; [rewrite IH by (cbn [length] in Lf; lia); reflexivity|exact C0| | |].
  - intros X. rewrite (byte_is c 34 x22 X eq_refl) in C1. vm_compute in C1. discriminate.
  - intros X. rewrite (byte_is c 10 x0a X eq_refl) in C2. vm_compute in C2. discriminate.
  - intros X. rewrite (byte_is c 92 x5c X eq_refl) in C3. vm_compute in C3. discriminate.
Qed.

Lemma unq_pe rest v : unq_all rest v -> unq_all ([x5c; x22] ++ rest) ([x22] ++ v).
Proof.
  intros HR f Lf. destruct f as [|f]; [cbn in Lf; lia|]. cbn [app].
  rewrite unq_bs by reflexivity. cbn -[unq]. rewrite HR by (cbn [length app] in Lf; lia). reflexivity.
Qed.

Lemma unq_lit ps : forallb piece_ok ps = true -> forall rest v, unq_all rest v ->
  unq_all (lit_text is_print ps ++ rest) (lit_value ps ++ v).
Proof.
  induction ps as [|p ps IH]; intros H rest v HR; [exact HR|].
  cbn [forallb] in H. apply andb_prop in H as [Hp Hps]. specialize (IH Hps rest v HR).
  unfold lit_text, lit_value in *. cbn [map concat]. rewrite <- !app_assoc.
  destruct p as [s|t|]; cbn [piece_text piece_value piece_ok] in *.
  - apply unq_quote_fuel; [exact print_nl|apply le_n|exact IH].
  - apply unq_plain_app; assumption.
  - apply unq_pe. exact IH.
Qed.

Lemma scan_lit ps : forallb piece_ok ps = true -> forall q, scan_ok (lit_text is_print ps ++ q) = scan_ok q.
Proof.
  induction ps as [|p ps IH]; intros H q; [reflexivity|].
  cbn [forallb] in H. apply andb_prop in H as [Hp Hps]. specialize (IH Hps q).
  unfold lit_text in *. cbn [map concat]. rewrite <- app_assoc.
  destruct p as [s|t|]; cbn [piece_text piece_ok] in *.
  - unfold quote. rewrite scan_quote_fuel. exact IH.
  - rewrite scan_safe_app; [exact IH|]. rewrite forallb_forall in *. intros x Hx. apply plain_safe. apply Hp. exact Hx.
  - cbn [app]. rewrite scan_esc by reflexivity. exact IH.
Qed.

Theorem lit_scan_ok ps : forallb piece_ok ps = true -> scan_ok (lit_text is_print ps) = true.
Proof. intros H. pose proof (scan_lit ps H []) as X. rewrite app_nil_r in X. exact X. Qed.

Lemma nobs_lit ps : no_byte x5c (lit_text is_print ps) = true -> lit_text is_print ps = lit_value ps.
Proof.
  induction ps as [|p ps IH]; intros H; [reflexivity|].
  unfold lit_text, lit_value in *. cbn [map concat] in *. unfold no_byte in H. rewrite forallb_app in H. apply andb_prop in H as [Hp Hps].
  rewrite (IH Hps). f_equal. destruct p as [s|t|]; cbn [piece_text piece_value] in *; [|reflexivity|cbn in Hp; discriminate].
  apply nobs_id; [apply le_n|exact Hp].
Qed.
End Lit.

(* ---------- the scanner predicate: consequences ---------- *)
Lemma scan_no_lf_n n : forall s, (length s <= n)%nat -> scan_ok s = true -> no_byte x0a s = true.
Proof.
  induction n as [|n IH]; intros s L H; [destruct s; [reflexivity|cbn in L; lia]|].
  destruct s as [|c r]; [reflexivity|]. cbn [scan_ok] in H. cbn [no_byte forallb].
  destruct (Byte.eqb c x22) eqn:A; [discriminate|]. destruct (Byte.eqb c x0a) eqn:B; [discriminate|]. cbn [negb andb].
  destruct (Byte.eqb c x5c) eqn:C.
  - destruct r as [|e r1]; [discriminate|]. destruct (Byte.eqb e x0a) eqn:E; [discriminate|].
    cbn [forallb]. rewrite E. cbn [negb andb]. apply (IH r1); [cbn [length] in L; lia|exact H].
  - apply (IH r); [cbn [length] in L; lia|exact H].
Qed.
Lemma scan_no_lf s : scan_ok s = true -> no_byte x0a s = true.
Proof. apply (scan_no_lf_n (length s)). apply le_n. Qed.

Lemma scan_before_quote_n n : forall s, (length s <= n)%nat -> scan_ok s = true -> no_byte x5c (before_quote s) = true -> before_quote s = s.
Proof.
  induction n as [|n IH]; intros s L H Hb; [destruct s; [reflexivity|cbn in L; lia]|].
  destruct s as [|c r]; [reflexivity|]. cbn [scan_ok before_quote] in *.
  destruct (Byte.eqb c x22) eqn:A; [discriminate|]. destruct (Byte.eqb c x0a) eqn:B; [discriminate|].
  cbn [no_byte forallb] in Hb. apply andb_prop in Hb as [Hc Hr]. apply negb_true_iff in Hc. rewrite Hc in H.
  f_equal. apply (IH r); [cbn [length] in L; lia|exact H|exact Hr].
Qed.
Lemma scan_before_quote s : scan_ok s = true -> no_byte x5c (before_quote s) = true -> before_quote s = s.
Proof. apply (scan_before_quote_n (length s)). apply le_n. Qed.

(* ---------- the full Unquote on a literal ---------- *)
Theorem unquote_lit (is_print : N -> bool) : is_print 10 = false -> forall ps, forallb piece_ok ps = true ->
  unquote (lit_text is_print ps) = Some (lit_value ps).
Proof.
  intros P ps H. unfold unquote.
  pose proof (lit_scan_ok is_print P ps H) as Sc.
  destruct (no_byte x5c (before_quote (lit_text is_print ps)) && no_byte x0a (before_quote (lit_text is_print ps)) && valid_utf8 (before_quote (lit_text is_print ps))) eqn:Fast.
  - apply andb_prop in Fast as [Fast _]. apply andb_prop in Fast as [NB _].
    pose proof (scan_before_quote _ Sc NB) as E. rewrite E in *. rewrite Nat.eqb_refl.
    f_equal. apply nobs_lit. exact NB.
  - pose proof (unq_lit is_print P ps H [] [] unq_all_nil) as U. rewrite !app_nil_r in U. apply U. lia.
Qed.

Theorem unquote_quote (is_print : N -> bool) : is_print 10 = false -> forall s, unquote (quote is_print s) = Some s.
Proof.
  intros P s. pose proof (unquote_lit is_print P [PQ s] eq_refl) as H.
  unfold lit_text, lit_value in H. cbn [map concat piece_text piece_value] in H. rewrite !app_nil_r in H. exact H.
Qed.

Theorem quote_no_lf_no_quote (is_print : N -> bool) : is_print 10 = false ->
  forall s : bytes, scan_ok (quote is_print s) = true /\ no_byte x0a (quote is_print s) = true.
Proof. intros H s. split; [apply quote_scan_ok; exact H|apply scan_no_lf; apply quote_scan_ok; exact H]. Qed.

Theorem literal_roundtrip (is_print : N -> bool) : is_print 10 = false ->
  forall ps : list piece, forallb piece_ok ps = true ->
  unquote (lit_text is_print ps) = Some (lit_value ps) /\ scan_ok (lit_text is_print ps) = true.
Proof. intros H ps Ok. split; [apply unquote_lit; assumption|apply lit_scan_ok; assumption]. Qed.
