(* C16 / C02 proofs over the WHOLE generator model (model/Gen.v gen_all):
   literal_indices    : every close_literal adds one to the index and records one literal; the generated text is
                        gap_1 ++ WriteString-call(1, lit_1) ++ gap_2 ++ WriteString-call(2, lit_2) ++ ... ++ tail,
                        the literal list is [lit_1; ...; lit_n] and the final index is n; no literal is left pending.
   literals_are_quoted: every literal is a concatenation of pieces (model/Quote.v: PQ = escapeQuotes of some bytes,
                        PF = plain ASCII text without double quote, backslash, LF, PE = backslash double-quote),
                        provided the element/attribute NAMES of the file are plain after html.EscapeString (the parser
                        allows only letters, digits and a few ASCII signs in names).
   Technique: a state invariant closed under the monadic combinators, driven by a syntactic tactic (as in
   proofs/GenAddsProof.v). *)
From Coq.Strings Require Import Byte String.
From Coq Require Import List Arith NArith Bool Lia ZArith ZifyN ZifyNat ZifyBool.
Import ListNotations.
From V Require Import lib.Bytes lib.Sexp model.Ast model.Url model.Gen model.Quote model.QuoteGo.
From V Require Import proofs.RangeWriterProof proofs.GenAddsProof proofs.GenExprsProof proofs.QuoteProof proofs.QuoteLitProof proofs.QuoteGoProof.
Local Open Scope nat_scope.
Ltac Zify.zify_post_hook ::= Z.div_mod_to_equations.

(* ================= statements ================= *)
(* the line closeLiteral writes for literal number i *)
Definition ws_line (lvl i : nat) (lit : bytes) : bytes :=
  tabs lvl ++ bs (P ++ "Err = templruntime.WriteString(" ++ P ++ "Buffer, ") ++ decn i ++ bs ", """ ++ lit ++ bs """)" ++ nlb.
(* gap_1 ++ call 1 ++ gap_2 ++ call 2 ++ ... : segments are (text before the call, indent level, literal) *)
Fixpoint calls_text (i : nat) (segs : list (bytes * nat * bytes)) : bytes :=
  match segs with [] => [] | (gap, lvl, lit) :: r => gap ++ ws_line lvl (S i) lit ++ calls_text (S i) r end.

(* the generator's own escapeQuotes (Gen.qesc) in the place of Quote.quote *)
Definition gpiece_text (p : piece) : bytes := match p with PQ s => qesc s | PF t => t | PE => [x5c; x22] end.
Definition glit_text (ps : list piece) : bytes := concat (map gpiece_text ps).
Definition built (s : bytes) : Prop := exists ps, forallb piece_ok ps = true /\ s = glit_text ps.

(* names are plain after html.EscapeString *)
Definition pl (n : bytes) : bool := forallb plain_byte (hesc n).
Definition spart_named (tx : bytes -> bool) (p : spart) : bool := match p with SJs v => tx v | SGo _ tr _ => tx tr end.
Fixpoint attr_named (nm tx : bytes -> bool) (a : attr) : bool :=
  match a with
  | ABoolConst n | ABoolExpr n _ | AExpr n _ => nm n
  | AConst n v => nm n && tx (hesc v)
  | ASpread _ => true
  | ACond _ th el => forallb (attr_named nm tx) th && forallb (attr_named nm tx) el
  end.
Notation attrs_named nm tx := (forallb (attr_named nm tx)).
Fixpoint node_named (nm tx : bytes -> bool) (n : node) : bool :=
  match n with
  | NDoc v | NText v _ | NHtmlComment v => tx v
  | NElem name attrs ch _ => nm name && attrs_named nm tx attrs && forallb (node_named nm tx) ch
  | NRaw name attrs c => nm name && attrs_named nm tx attrs && tx c
  | NScript attrs parts => attrs_named nm tx attrs && forallb (spart_named tx) parts
  | NCall _ ch => forallb (node_named nm tx) ch
  | NIf _ th elifs el => forallb (node_named nm tx) th && forallb (fun p => forallb (node_named nm tx) (snd p)) elifs && forallb (node_named nm tx) el
  | NSwitch _ cases => forallb (fun p => forallb (node_named nm tx) (snd p)) cases
  | NFor _ b => forallb (node_named nm tx) b
  | _ => true
  end.
Definition file_named (nm tx : bytes -> bool) (f : file) : Prop := forall e ch, In (FTempl e ch) (f_nodes f) -> forallb (node_named nm tx) ch = true.

(* ================= writer level ================= *)
Lemma calls_text_app : forall a i b, calls_text i (a ++ b) = calls_text i a ++ calls_text (length a + i) b.
Proof.
  induction a as [|[[gap lvl] lit] a IH]; intros i b; [reflexivity|].
  cbn [app calls_text length]. rewrite IH, <- !app_assoc, Nat.add_succ_r. reflexivity.
Qed.

Lemma close_literal_records lvl w :
  index (close_literal lvl w) = S (index w) /\
  lits (close_literal lvl w) = concat (rev (builder w)) :: lits w /\
  builder (close_literal lvl w) = [] /\ inlit (close_literal lvl w) = false /\
  outtext (close_literal lvl w) = outtext w ++ ws_line lvl (S (index w)) (concat (rev (builder w))) ++ err_handler_text lvl.
Proof.
  unfold close_literal. repeat split. rewrite !outtext_raw, <- app_assoc. reflexivity.
Qed.
Lemma raw_keeps s w : index (raw s w) = index w /\ lits (raw s w) = lits w /\ builder (raw s w) = builder w.
Proof. repeat split. Qed.
Lemma wl_keeps s w : index (wl_ s w) = index w /\ lits (wl_ s w) = lits w /\ out (wl_ s w) = out w /\ builder (wl_ s w) = s :: builder w.
Proof. repeat split. Qed.

Lemma built_nil : built [].
Proof. exists []. split; reflexivity. Qed.
Lemma built_app a b : built a -> built b -> built (a ++ b).
Proof.
  intros (pa & Ha & ->) (pb & Hb & ->). exists (pa ++ pb). split; [rewrite forallb_app, Ha, Hb; reflexivity|].
  unfold glit_text. rewrite map_app, concat_app. reflexivity.
Qed.
Lemma built_qesc s : built (qesc s).
Proof. exists [PQ s]. split; [reflexivity|]. unfold glit_text. cbn [map concat gpiece_text]. rewrite app_nil_r. reflexivity. Qed.
Lemma built_plain t : forallb plain_byte t = true -> built t.
Proof. intros H. exists [PF t]. split; [cbn [forallb piece_ok]; rewrite H; reflexivity|]. unfold glit_text. cbn [map concat gpiece_text]. rewrite app_nil_r. reflexivity. Qed.
Lemma built_pe : built [x5c; x22].
Proof. exists [PE]. split; reflexivity. Qed.
Lemma built_hesc n : pl n = true -> built (hesc n).
Proof. apply built_plain. Qed.


Section Lit.
(* B: what is demanded of a literal; nm: what is demanded of an element / attribute name *)
Variable B : bytes -> Prop.
Variable nm tx : bytes -> bool.
Hypothesis B_nil : B [].
Hypothesis B_app : forall a b, B a -> B b -> B (a ++ b).
Hypothesis B_qesc : forall s, tx s = true -> B (qesc s).
Hypothesis B_plain : forall t, forallb plain_byte t = true -> B t.
Hypothesis B_pe : B [x5c; x22].
Hypothesis B_hesc : forall n, nm n = true -> B (hesc n).

(* the invariant: counter = number of literals; the text is calls 1..n in order carrying the literals; every
   recorded literal and the pending one are piece-built *)
Definition LInv (w : rw) : Prop :=
  index w = length (lits w) /\
  (exists segs tail, outtext w = calls_text 0 segs ++ tail /\ map snd segs = rev (lits w)) /\
  Forall B (lits w) /\ B (concat (rev (builder w))).

Lemma LInv_rw0 : LInv rw0.
Proof. split; [reflexivity|]. split; [exists [], []; split; reflexivity|]. split; [constructor|apply B_nil]. Qed.
Lemma LInv_raw s w : LInv w -> LInv (raw s w).
Proof.
  intros (A & (segs & tail & Bo & C) & D & E). split; [exact A|]. split; [|split; [exact D|exact E]].
  exists segs, (tail ++ s). split; [rewrite outtext_raw, Bo, app_assoc; reflexivity|exact C].
Qed.
Lemma LInv_close lvl w : LInv w -> LInv (close_literal lvl w).
Proof.
  intros (A & (segs & tail & Bo & C) & D & E).
  destruct (close_literal_records lvl w) as (I & L & Bu & _ & O).
  split; [rewrite I, L, A; reflexivity|]. split; [|split].
  - exists (segs ++ [(tail, lvl, concat (rev (builder w)))]), (err_handler_text lvl). split.
    + rewrite O, Bo, calls_text_app. cbn [calls_text]. rewrite app_nil_r, Nat.add_0_r.
      assert (Hl : length segs = index w) by (rewrite <- (map_length snd), C, rev_length; symmetry; exact A).
      rewrite Hl, <- !app_assoc. reflexivity.
    + rewrite map_app, C, L. reflexivity.
  - rewrite L. constructor; assumption.
  - rewrite Bu. apply B_nil.
Qed.
Lemma LInv_close_if lvl w : LInv w -> LInv (if inlit w then close_literal lvl w else w).
Proof. intros H. destruct (inlit w); [apply LInv_close|]; exact H. Qed.
Lemma LInv_wi lvl s w : LInv w -> LInv (wi_ lvl s w).
Proof. intros H. unfold wi_. apply LInv_raw, LInv_raw, LInv_close_if, H. Qed.
Lemma LInv_wr s w : LInv w -> LInv (wr_ s w).
Proof. intros H. unfold wr_. apply LInv_raw, LInv_close_if, H. Qed.
Lemma LInv_wl s w : B s -> LInv w -> LInv (wl_ s w).
Proof.
  intros Hs (A & Bo & D & E). split; [exact A|]. split; [exact Bo|]. split; [exact D|].
  cbn [wl_ builder rev]. rewrite concat_app. cbn [concat]. rewrite app_nil_r. apply B_app; assumption.
Qed.

(* ================= generator level ================= *)
Definition LI (g : gst) : Prop := LInv (w g).
Definition lgood (m : M) : Prop := forall g, LI g -> LI (m g).

Lemma lgood_skip : lgood skip.
Proof. intros g H. exact H. Qed.
Lemma lgood_seq a b : lgood a -> lgood b -> lgood (a ;; b).
Proof. intros Ha Hb g H. apply Hb, Ha, H. Qed.
Lemma lgood_seqs l : Forall lgood l -> lgood (seqs l).
Proof. induction 1; cbn [seqs fold_right]; [apply lgood_skip|apply lgood_seq; assumption]. Qed.
Lemma lgood_seqs_map {A} (f : A -> M) l : (forall x, In x l -> lgood (f x)) -> lgood (seqs (map f l)).
Proof. intros H. apply lgood_seqs. apply Forall_forall. intros m Hm. apply in_map_iff in Hm. destruct Hm as (x & <- & Hx). apply H, Hx. Qed.
Lemma lgood_wi lvl s : lgood (wi lvl s).
Proof. intros g H. apply LInv_wi, H. Qed.
Lemma lgood_wr s : lgood (wr s).
Proof. intros g H. apply LInv_wr, H. Qed.
Lemma lgood_wl s : B s -> lgood (wl s).
Proof. intros Hs g H. apply LInv_wl; [exact Hs|exact H]. Qed.
Lemma lgood_wre e : lgood (wre e).
Proof. intros g H. unfold wre, LI. cbn [add_map w wr upd]. apply LInv_wr. apply LInv_close_if, H. Qed.
Lemma lgood_wre_nz e : lgood (wre_nz e).
Proof. unfold wre_nz. destruct (zero_range e); [apply lgood_wr|apply lgood_wre]. Qed.
Lemma lgood_wie lvl e s : lgood (wie lvl e s).
Proof. intros g H. unfold wie, LI. cbn [add_map w upd]. apply LInv_raw, LInv_raw, LInv_close_if, H. Qed.
Lemma lgood_with_var k : (forall v, lgood (k v)) -> lgood (with_var k).
Proof. intros H g Hg. unfold with_var. apply H. exact Hg. Qed.

Ltac by_lgood := match goal with |- LI (?m ?g) => cut (lgood m); [let G := fresh "G" in intros G; apply G|] end.

(* piece-built text, syntactically *)
Ltac bt :=
  lazymatch goal with
  | |- B (_ ++ _) => apply B_app; bt
  | |- B (qesc _) => apply B_qesc; assumption
  | |- B (hesc _) => apply B_hesc; assumption
  | |- B (bs "\""") => apply B_pe
  | |- B (bs "=\""") => apply (B_app (bs "=") [x5c; x22]); [apply B_plain; reflexivity|apply B_pe]
  | |- B _ => apply B_plain; reflexivity
  end.

Ltac lg_hook := fail.
Ltac lg1 :=
  lazymatch goal with
  | |- lgood skip => apply lgood_skip
  | |- lgood (seq _ _) => apply lgood_seq
  | |- lgood (wi _ _) => apply lgood_wi
  | |- lgood (wr _) => apply lgood_wr
  | |- lgood (wl _) => apply lgood_wl; bt
  | |- lgood (wis _ _) => apply lgood_wi
  | |- lgood (wrs _) => apply lgood_wr
  | |- lgood (wls _) => apply lgood_wl; bt
  | |- lgood nl => apply lgood_wr
  | |- lgood (text _) => apply lgood_wl; apply B_qesc; assumption
  | |- lgood (wre _) => apply lgood_wre
  | |- lgood (wre_nz _) => apply lgood_wre_nz
  | |- lgood (wie _ _ _) => apply lgood_wie
  | |- lgood (with_var _) => apply lgood_with_var; intro
  | |- lgood (match ?x with _ => _ end) => destruct x
  | |- lgood ((fun _ => _) _) => cbv beta
  | |- _ => first [ assumption | lg_hook ]
  end.
Ltac lg := repeat lg1.

Lemma lgood_err_handler lvl : lgood (err_handler lvl).
Proof. unfold err_handler. lg. Qed.
Ltac lg_hook ::= lazymatch goal with |- lgood (err_handler _) => apply lgood_err_handler end.
Lemma lgood_expr_err_handler lvl e : lgood (expr_err_handler lvl e).
Proof. intros g Hg. unfold expr_err_handler. by_lgood; [exact Hg|]. lg. Qed.
Lemma lgood_plain_write lvl vn : lgood (plain_write lvl vn).
Proof. unfold plain_write. lg. Qed.
Ltac lg_hook ::=
  lazymatch goal with
  | |- lgood (err_handler _) => apply lgood_err_handler
  | |- lgood (expr_err_handler _ _) => apply lgood_expr_err_handler
  | |- lgood (plain_write _ _) => apply lgood_plain_write
  end.
Lemma lgood_attr_value lvl elem n e : lgood (attr_value lvl elem n e).
Proof. unfold attr_value. lg. Qed.
Ltac lg_hook ::=
  lazymatch goal with
  | |- lgood (err_handler _) => apply lgood_err_handler
  | |- lgood (expr_err_handler _ _) => apply lgood_expr_err_handler
  | |- lgood (plain_write _ _) => apply lgood_plain_write
  | |- lgood (attr_value _ _ _ _) => apply lgood_attr_value
  end.

Lemma lgood_write_attrs : forall f lvl elem l, attrs_named nm tx l = true -> lgood (write_attrs f lvl elem l).
Proof.
  induction f as [|f IH]; intros lvl elem l Hn; cbn [write_attrs]; [apply lgood_skip|].
  rewrite forallb_forall in Hn.
  apply lgood_seqs_map. intros a Ha. specialize (Hn a Ha). destruct a; cbn [attr_named] in Hn; try solve [lg].
  - apply andb_true_iff in Hn. destruct Hn as [H1 H2]. lg.
  - apply andb_true_iff in Hn. destruct Hn as [H1 H2]. lg; apply IH; assumption.
Qed.

Lemma css_attrs_named : forall fu lvl l g, attrs_named nm tx (fst (css_attrs fu lvl l g)) = attrs_named nm tx l.
Proof.
  induction fu as [|fu IH]; intros lvl l g; [reflexivity|].
  destruct l as [|a r]; [reflexivity|]. cbn [css_attrs].
  match goal with |- context [let '(a', g0) := ?X in _] =>
    assert (HX : attr_named nm tx (fst X) = attr_named nm tx a); [|destruct X as [a' g1]; cbn [fst] in HX] end.
  - destruct a; try reflexivity.
    + destruct (beq (hesc n) (bs "class")); reflexivity.
    + pose proof (IH lvl th g) as P1. destruct (css_attrs fu lvl th g) as [th' g1]. cbn [fst] in P1.
      pose proof (IH lvl el g1) as P2. destruct (css_attrs fu lvl el g1) as [el' g2]. cbn [fst] in P2.
      cbn [fst attr_named]. rewrite P1, P2. reflexivity.
  - pose proof (IH lvl r g1) as P1. destruct (css_attrs fu lvl r g1) as [r' g2]. cbn [fst] in *.
    cbn [forallb]. rewrite HX, P1. reflexivity.
Qed.

Lemma css_attrs_LI : forall f lvl l g, LI g -> LI (snd (css_attrs f lvl l g)).
Proof.
  induction f as [|f IH]; intros lvl l g Hg; [exact Hg|].
  destruct l as [|a r]; [exact Hg|]. cbn [css_attrs].
  match goal with |- LI (snd (let '(a', g0) := ?X in _)) => assert (HX : LI (snd X)); [|destruct X as [a' g1]; cbn [snd] in HX] end.
  - destruct a; try exact Hg.
    + destruct (beq (hesc n) (bs "class")); [|exact Hg]. cbn [snd]. by_lgood; [exact Hg|]. lg.
    + pose proof (IH lvl th g Hg) as H1. destruct (css_attrs f lvl th g) as [th' g1]. cbn [snd] in H1.
      pose proof (IH lvl el g1 H1) as H2. destruct (css_attrs f lvl el g1) as [el' g2]. exact H2.
  - pose proof (IH lvl r g1 HX) as H1. destruct (css_attrs f lvl r g1) as [r' g2]. exact H1.
Qed.
Lemma lgood_css n lvl l (k : list attr -> M) : attrs_named nm tx l = true -> (forall a, attrs_named nm tx a = true -> lgood (k a)) ->
  lgood (fun g => let '(a', g0) := css_attrs n lvl l g in k a' g0).
Proof.
  intros Hn H g Hg. pose proof (css_attrs_LI n lvl l g Hg) as H1. pose proof (css_attrs_named n lvl l g) as H2.
  destruct (css_attrs n lvl l g) as [a' g0]. cbn [fst snd] in *. apply H; [rewrite H2; exact Hn|exact H1].
Qed.

Lemma lgood_element_script lvl l : lgood (element_script lvl l).
Proof. unfold element_script. lg. Qed.
Lemma lgood_string_expr lvl e : lgood (string_expr lvl e).
Proof. unfold string_expr. lg. Qed.
Lemma lgood_call_plain lvl e : lgood (call_plain lvl e).
Proof. unfold call_plain. lg. Qed.
Lemma lgood_templ_buffer lvl : lgood (templ_buffer lvl).
Proof. unfold templ_buffer. lg. Qed.
Lemma lgood_script_part lvl p : spart_named tx p = true -> lgood (script_part lvl p).
Proof. intros Hp. destruct p; cbn [script_part spart_named] in *; lg. Qed.

Ltac lg_hook ::=
  lazymatch goal with
  | |- lgood (err_handler _) => apply lgood_err_handler
  | |- lgood (expr_err_handler _ _) => apply lgood_expr_err_handler
  | |- lgood (plain_write _ _) => apply lgood_plain_write
  | |- lgood (attr_value _ _ _ _) => apply lgood_attr_value
  | |- lgood (write_attrs _ _ _ _) => apply lgood_write_attrs; assumption
  | |- lgood (element_script _ _) => apply lgood_element_script
  | |- lgood (string_expr _ _) => apply lgood_string_expr
  | |- lgood (call_plain _ _) => apply lgood_call_plain
  | |- lgood (templ_buffer _) => apply lgood_templ_buffer
  | |- lgood (fun g => _ g) => let g := fresh "g" in let Hg := fresh "Hg" in intros g Hg; cbv beta; by_lgood; [exact Hg|]
  end.

Lemma lgood_write_node : forall f lvl n next, node_named nm tx n = true -> lgood (write_node f lvl n next).
Proof.
  induction f as [|f IH]; intros lvl n next Hn; [apply lgood_skip|].
  assert (NA : forall lvl' l nx, forallb (node_named nm tx) l = true -> lgood ((fix wn (l : list node) (next : option node) {struct l} : M :=
              match l with
              | [] => skip
              | c :: r => write_node f lvl' c (match r with x :: _ => Some x | [] => next end) ;; wn r next
              end) l nx)).
  { intros lvl'. induction l as [|c r IHl]; intros nx H; [apply lgood_skip|]. cbn [forallb] in H. apply andb_true_iff in H. destruct H.
    apply lgood_seq; [apply IH; assumption|apply IHl; assumption]. }
  assert (NAlt : forall lvl' l nx, forallb (node_named nm tx) l = true -> lgood ((fix wn (l : list node) (next : option node) {struct l} : M :=
              match l with
              | [] => skip
              | c :: r => write_node f lvl' c (match r with x :: _ => Some x | [] => next end) ;; wn r next
              end) (strip_lt l) nx)).
  { intros lvl' l nx H. apply NA. apply forallb_strip_lt. exact H. }
  assert (NAws : forall lvl' l nx, forallb (node_named nm tx) l = true -> lgood ((fix wn (l : list node) (next : option node) {struct l} : M :=
              match l with
              | [] => skip
              | c :: r => write_node f lvl' c (match r with x :: _ => Some x | [] => next end) ;; wn r next
              end) (strip_ws l) nx)).
  { intros lvl' l nx H. apply NA. apply forallb_strip_ws. exact H. }
  assert (TR : forall (o : option trailing) (b : bool), lgood (match o with Some SpNone | None => skip | Some _ => if b then wl [x20] else skip end)).
  { intros o b. destruct o as [[| |]|]; try apply lgood_skip; destruct b; first [apply lgood_wl; apply B_plain; reflexivity|apply lgood_skip]. }
  destruct n; cbn [write_node node_named] in *; try (apply lgood_seq; [|apply TR]).
  - (* NWs *) lg.
  - (* NDoc *) lg.
  - (* NText *) lg.
  - (* NElem *)
    apply andb_true_iff in Hn. destruct Hn as [Hn Hc]. apply andb_true_iff in Hn. destruct Hn as [Hp Ha].
    apply lgood_seq.
    + destruct attrs as [|a attrs]; [lg|].
      apply (lgood_css 50 lvl (a :: attrs) _ Ha). intros a' Ha'. lg.
    + destruct (is_void_name name && match children with [] => true | _ :: _ => false end); [apply lgood_skip|].
      apply lgood_seq; [apply NAws; exact Hc|lg].
  - (* NRaw *)
    apply andb_true_iff in Hn. destruct Hn as [Hn Hc]. apply andb_true_iff in Hn. destruct Hn as [Hp Ha]. lg.
  - (* NScript *)
    apply andb_true_iff in Hn. destruct Hn as [Ha Hs]. lg.
    apply lgood_seqs_map. intros p Hp. apply lgood_script_part. rewrite forallb_forall in Hs. apply Hs, Hp.
  - (* NGoComment *) apply lgood_skip.
  - (* NHtmlComment *) lg.
  - (* NCallT *) lg.
  - (* NCall *)
    destruct children as [|c ch]; [lg|]. lg. apply NAlt. exact Hn.
  - (* NChildren *) lg.
  - (* NIf *)
    apply andb_true_iff in Hn. destruct Hn as [Hn Hel]. apply andb_true_iff in Hn. destruct Hn as [Hth Helifs].
    lg; try (apply NAlt; assumption).
    apply lgood_seqs_map. intros [ce cb] Hin. rewrite forallb_forall in Helifs. specialize (Helifs _ Hin). cbn [snd] in Helifs.
    lg. apply NAlt. exact Helifs.
  - (* NSwitch *)
    lg. apply lgood_seqs_map. intros [ce cb] Hin. rewrite forallb_forall in Hn. specialize (Hn _ Hin). cbn [snd] in Hn.
    lg. apply NAlt. exact Hn.
  - (* NFor *) lg. apply NAlt. exact Hn.
  - (* NGoCode *) lg.
  - (* NStr *) lg.
Qed.

Lemma lgood_write_nodes f lvl : forall l next, forallb (node_named nm tx) l = true -> lgood (write_nodes f lvl l next).
Proof.
  induction l as [|c r IH]; intros next H; cbn [write_nodes]; [apply lgood_skip|].
  cbn [forallb] in H. apply andb_true_iff in H. destruct H. apply lgood_seq; [apply lgood_write_node; assumption|apply IH; assumption].
Qed.
Ltac lg_hook ::=
  lazymatch goal with
  | |- lgood (err_handler _) => apply lgood_err_handler
  | |- lgood (templ_buffer _) => apply lgood_templ_buffer
  end.
Lemma lgood_write_template last e ch : forallb (node_named nm tx) ch = true -> lgood (write_template last e ch).
Proof.
  intros Hn. unfold write_template. lg.
  intros g Hg. by_lgood; [exact Hg|]. lg. apply lgood_write_nodes. apply forallb_strip_ws. exact Hn.
Qed.
Lemma lgood_go_block e : lgood (go_block e).
Proof. unfold go_block. lg. Qed.
Lemma lgood_css_prop p : lgood (match p with
    | CConst n v => wi 1 (bs (P ++ "CSSBuilder.WriteString(") ++ go_string (n ++ bs ":" ++ v ++ bs ";") ++ bs ")") ;; nl
    | CExpr n ex => wi 1 (bs (P ++ "CSSBuilder.WriteString(string(templ.SanitizeCSS(`") ++ n ++ bs "`, ") ;; wre ex ;; wrs ")))" ;; nl
    end).
Proof. lg. Qed.
Lemma lgood_write_css e name props : lgood (write_css e name props).
Proof.
  unfold write_css. lg. apply lgood_seqs_map. intros p _. apply lgood_css_prop.
Qed.
Lemma lgood_write_script name params value fn : lgood (write_script name params value fn).
Proof. unfold write_script. cbv zeta. lg. Qed.
Lemma lgood_write_fnodes : forall l, (forall e ch, In (FTempl e ch) l -> forallb (node_named nm tx) ch = true) -> lgood (write_fnodes l).
Proof.
  induction l as [|n r IH]; intros H; cbn [write_fnodes]; [apply lgood_skip|].
  apply lgood_seq; [|apply IH; intros e ch Hin; apply (H e ch); right; exact Hin].
  destruct n; [apply lgood_go_block|apply lgood_write_template; apply (H e children); left; reflexivity|apply lgood_write_css|apply lgood_write_script].
Qed.

Lemma LI_init fn : LI (g_init fn).
Proof. exact LInv_rw0. Qed.

Lemma lgood_gen_all f : file_named nm tx f -> lgood (gen_all f).
Proof.
  intros Hn. unfold gen_all. lg.
  - apply lgood_seqs_map. intros e _. apply lgood_go_block.
  - intros g Hg. unfold wpk. destruct (zero_range (f_pkg f)); [apply lgood_wr; exact Hg|]. unfold LI. cbn [add_map w]. apply lgood_wr. exact Hg.
  - apply lgood_write_fnodes. exact Hn.
Qed.

Lemma gen_state_inlit fn f : inlit (w (gen_state fn f)) = false.
Proof. unfold gen_state, gen_all, seq. apply inlit_after_wr. Qed.

End Lit.

(* ================= the two instances ================= *)
Definition any_bytes (_ : bytes) : bool := true.
Lemma attr_named_any : forall a, attr_named any_bytes any_bytes a = true.
Proof.
  fix IH 1. intros [n|n v|n e|n e|e|e th el]; cbn [attr_named]; try reflexivity.
  assert (L1 : forallb (attr_named any_bytes any_bytes) th = true) by (induction th as [|x r IHl]; [reflexivity|cbn [forallb]; rewrite IH, IHl; reflexivity]).
  assert (L2 : forallb (attr_named any_bytes any_bytes) el = true) by (induction el as [|x r IHl]; [reflexivity|cbn [forallb]; rewrite IH, IHl; reflexivity]).
  rewrite L1, L2. reflexivity.
Qed.
Lemma attrs_named_any l : forallb (attr_named any_bytes any_bytes) l = true.
Proof. induction l as [|x r IHl]; [reflexivity|cbn [forallb]; rewrite attr_named_any, IHl; reflexivity]. Qed.
Lemma sparts_named_any l : forallb (spart_named any_bytes) l = true.
Proof. induction l as [|[v|e t i] r IHl]; [reflexivity|exact IHl|exact IHl]. Qed.
Lemma node_named_any : forall n, node_named any_bytes any_bytes n = true.
Proof.
  fix IH 1.
  intros n. destruct n as [v|v|v t|name attrs ch t|name attrs c|attrs parts| |c|e|e ch| |e th elifs el|e cases|e b|e|e t]; cbn [node_named]; try reflexivity.
  - assert (L : forallb (node_named any_bytes any_bytes) ch = true) by (induction ch as [|x r IHl]; [reflexivity|cbn [forallb]; rewrite IH, IHl; reflexivity]).
    rewrite attrs_named_any, L. reflexivity.
  - rewrite attrs_named_any. reflexivity.
  - rewrite attrs_named_any, sparts_named_any. reflexivity.
  - induction ch as [|x r IHl]; [reflexivity|cbn [forallb]; rewrite IH, IHl; reflexivity].
  - assert (L1 : forallb (node_named any_bytes any_bytes) th = true) by (induction th as [|x r IHl]; [reflexivity|cbn [forallb]; rewrite IH, IHl; reflexivity]).
    assert (L3 : forallb (node_named any_bytes any_bytes) el = true) by (induction el as [|x r IHl]; [reflexivity|cbn [forallb]; rewrite IH, IHl; reflexivity]).
    assert (L2 : forallb (fun p => forallb (node_named any_bytes any_bytes) (snd p)) elifs = true).
    { induction elifs as [|[ce cb] r IHl]; [reflexivity|]. cbn [forallb snd]. rewrite IHl, andb_true_r.
      induction cb as [|x r' IHc]; [reflexivity|cbn [forallb]; rewrite IH, IHc; reflexivity]. }
    rewrite L1, L2, L3. reflexivity.
  - induction cases as [|[ce cb] r IHl]; [reflexivity|]. cbn [forallb snd]. rewrite IHl, andb_true_r.
    induction cb as [|x r' IHc]; [reflexivity|cbn [forallb]; rewrite IH, IHc; reflexivity].
  - induction b as [|x r IHl]; [reflexivity|cbn [forallb]; rewrite IH, IHl; reflexivity].
Qed.
Lemma file_named_any f : file_named any_bytes any_bytes f.
Proof. intros e ch _. apply forallb_forall. intros x _. apply node_named_any. Qed.

Lemma generate_eq fn f : generate fn f = (outtext (w (gen_state fn f)), rev (lits (w (gen_state fn f)))).
Proof. reflexivity. Qed.

(* 1. for EVERY file: the counter ends at the number of literals, nothing is left pending, and the code is
      gap, call 1 with literal 1, gap, call 2 with literal 2, ..., tail *)
Theorem literal_indices fn f :
  index (w (gen_state fn f)) = length (snd (generate fn f)) /\
  inlit (w (gen_state fn f)) = false /\
  exists segs tail, fst (generate fn f) = calls_text 0 segs ++ tail /\ map snd segs = snd (generate fn f).
Proof.
  pose proof (lgood_gen_all (fun _ => True) any_bytes any_bytes I (fun _ _ _ _ => I) (fun _ _ => I) (fun _ _ => I) I (fun _ _ => I) f
                (file_named_any f) (g_init fn) (LI_init _ I fn)) as (A & (segs & tail & Bo & C) & _).
  rewrite generate_eq. cbn [fst snd]. split; [rewrite rev_length; exact A|]. split; [apply gen_state_inlit|].
  exists segs, tail. split; assumption.
Qed.

(* the writer-level statement: the literal counter and the literal list change in close_literal only, by one *)
Theorem writer_literal_steps :
  (forall lvl w, index (close_literal lvl w) = S (index w) /\ lits (close_literal lvl w) = concat (rev (builder w)) :: lits w /\
     outtext (close_literal lvl w) = outtext w ++ ws_line lvl (S (index w)) (concat (rev (builder w))) ++ err_handler_text lvl) /\
  (forall s w, index (raw s w) = index w /\ lits (raw s w) = lits w) /\
  (forall s w, index (wl_ s w) = index w /\ lits (wl_ s w) = lits w /\ out (wl_ s w) = out w).
Proof.
  split; [|split].
  - intros lvl w0. destruct (close_literal_records lvl w0) as (A & Bo & _ & _ & C). auto.
  - intros; split; reflexivity.
  - intros; repeat split.
Qed.

(* 2. every literal of a file whose names are plain is piece-built *)
Theorem literals_are_quoted fn f : file_named pl any_bytes f -> Forall built (snd (generate fn f)).
Proof.
  intros Hn.
  pose proof (lgood_gen_all built pl any_bytes built_nil built_app (fun s _ => built_qesc s) built_plain built_pe built_hesc f Hn (g_init fn)
                (LI_init _ built_nil fn)) as (_ & _ & D & _).
  rewrite generate_eq. cbn [snd]. apply Forall_rev. exact D.
Qed.

(* ---------- consequences for the Go scanner / the text file ---------- *)
Definition qshape (l : bytes) : bool :=
  match l with
  | [] => false
  | [c] => safe_byte c
  | a :: e :: t => Byte.eqb a x5c && negb (Byte.eqb e x0a) && forallb safe_byte t
  end.
Lemma qesc1_qshape b : qshape (qesc1 b) = true.
Proof. destruct b; vm_compute; reflexivity. Qed.
Lemma qesc1_shape b : (exists c, qesc1 b = [c] /\ safe_byte c = true) \/
  (exists e t, qesc1 b = x5c :: e :: t /\ Byte.eqb e x0a = false /\ forallb safe_byte t = true).
Proof.
  pose proof (qesc1_qshape b) as H. destruct (qesc1 b) as [|a [|e t]]; cbn [qshape] in H; [discriminate|left; eauto|].
  right. apply andb_prop in H as [H Ht]. apply andb_prop in H as [Ha He]. apply byte_eqb_eq in Ha. subst a.
  apply negb_true_iff in He. eauto.
Qed.
Lemma scan_qesc : forall s q, scan_ok (qesc s ++ q) = scan_ok q.
Proof.
  induction s as [|b r IH]; intros q; [reflexivity|]. unfold qesc. cbn [flat_map]. fold (qesc r). rewrite <- app_assoc.
  destruct (qesc1_shape b) as [(c & E & Hc)|(e & t & E & He & Ht)]; rewrite E.
  - cbn [app]. rewrite scan_safe_cons by exact Hc. apply IH.
  - cbn [app]. rewrite scan_esc by exact He. rewrite scan_safe_app by exact Ht. apply IH.
Qed.
Lemma glit_scan ps : forallb piece_ok ps = true -> forall q, scan_ok (glit_text ps ++ q) = scan_ok q.
Proof.
  induction ps as [|p ps IH]; intros H q; [reflexivity|].
  cbn [forallb] in H. apply andb_prop in H as [Hp Hps]. specialize (IH Hps q).
  unfold glit_text in *. cbn [map concat]. rewrite <- app_assoc.
  destruct p as [s|t|]; cbn [gpiece_text piece_ok] in *.
  - rewrite scan_qesc. exact IH.
  - rewrite scan_safe_app; [exact IH|]. rewrite forallb_forall in *. intros x Hx. apply plain_safe. apply Hp. exact Hx.
  - cbn [app]. rewrite scan_esc by reflexivity. exact IH.
Qed.
Lemma built_scan_ok s : built s -> scan_ok s = true /\ no_byte x0a s = true.
Proof.
  intros (ps & Hp & ->). pose proof (glit_scan ps Hp []) as X. rewrite app_nil_r in X. cbn [scan_ok] in X.
  split; [exact X|apply scan_no_lf; exact X].
Qed.
(* no literal of the file holds a raw LF or a double quote that is not escaped, none ends inside an escape *)
Theorem literals_scan fn f : file_named pl any_bytes f ->
  Forall (fun lit => scan_ok lit = true /\ no_byte x0a lit = true) (snd (generate fn f)).
Proof. intros H. eapply Forall_impl; [|apply (literals_are_quoted fn f H)]. intros a. apply built_scan_ok. Qed.

(* ================= Gen.qesc and Quote.quote ================= *)
(* Gen.qesc passes every non-ASCII byte through; strconv.Quote does that exactly for valid UTF-8 whose non-ASCII
   runes are printable.  On such text - in particular on ASCII text - the two agree, for every printable-rune
   oracle that is right on ASCII. *)
Definition ascii_print_ok (is_print : N -> bool) : Prop := forall r, (r < 128)%N -> is_print r = ((32 <=? r) && (r <? 127))%N.
Fixpoint printable_fuel (is_print : N -> bool) (fuel : nat) (s : bytes) : bool :=
  match fuel with O => true | S f =>
  match s with
  | [] => true
  | b :: _ => if (bN b <? 128)%N then printable_fuel is_print f (skipn 1 s)
              else let '(r, w) := decode_rune s in
                   negb ((w =? 1)%nat && (r =? RuneError)%N) && is_print r && printable_fuel is_print f (skipn w s)
  end end.
Definition printable (is_print : N -> bool) (s : bytes) : bool := printable_fuel is_print (length s) s.
Definition ascii (s : bytes) : bool := forallb (fun b => (bN b <? 128)%N) s.

Lemma decode_ascii_byte b t : (bN b < 128)%N -> decode_rune (b :: t) = (bN b, 1).
Proof. intros H. unfold decode_rune. cbv zeta. apply N.ltb_lt in H. rewrite H. reflexivity. Qed.
Lemma quote_rune_ascii is_print b : ascii_print_ok is_print -> (bN b < 128)%N -> quote_rune is_print (bN b) = qesc1 b.
Proof.
  intros Hp H. unfold quote_rune. rewrite (Hp _ H).
  destruct b; try (exfalso; vm_compute in H; discriminate); vm_compute; reflexivity.
Qed.
Lemma qesc1_high b : (128 <=? bN b)%N = true -> qesc1 b = [b].
Proof. destruct b; intros H; try (vm_compute in H; discriminate); vm_compute; reflexivity. Qed.
Lemma qesc_high s : forallb (fun b => (128 <=? bN b)%N) s = true -> qesc s = s.
Proof.
  induction s as [|b r IH]; intros H; [reflexivity|]. cbn [forallb] in H. apply andb_prop in H as [Hb Hr].
  unfold qesc. cbn [flat_map]. fold (qesc r). rewrite (qesc1_high b Hb), (IH Hr). reflexivity.
Qed.
Lemma encode_high r : (128 <= r)%N -> (r < 1114112)%N -> forallb (fun b => (128 <=? bN b)%N) (encode_utf8 r) = true.
Proof.
  intros H1 H2. unfold encode_utf8.
  repeat match goal with |- context [if ?c then _ else _] => let E := fresh "E" in destruct c eqn:E end;
  cbn [forallb]; rewrite !bN_Nb by lia; rewrite ?andb_true_iff; repeat split; apply N.leb_le; lia.
Qed.
Lemma qesc_app a b : qesc (a ++ b) = qesc a ++ qesc b.
Proof. unfold qesc. apply flat_map_app. Qed.

Lemma qesc_quote_fuel is_print : ascii_print_ok is_print -> forall n m s, length s <= n -> length s <= m ->
  printable_fuel is_print m s = true -> quote_fuel is_print n s = qesc s.
Proof.
  intros Hp. induction n as [|n IH]; intros m s Ln Lm H.
  - destruct s; [reflexivity|cbn [length] in Ln; lia].
  - destruct s as [|b t]; [reflexivity|]. destruct m as [|m]; [cbn [length] in Lm; lia|].
    cbn [quote_fuel printable_fuel] in *. destruct (bN b <? 128)%N eqn:E.
    + apply N.ltb_lt in E. rewrite (decode_ascii_byte b t E).
      assert (X : ((1 =? 1) && (bN b =? RuneError)%N) = false).
      { cbn [Nat.eqb andb]. apply N.eqb_neq. unfold RuneError. lia. }
      rewrite X, (quote_rune_ascii is_print b Hp E). cbn [skipn] in *.
      rewrite (IH m t); [reflexivity|cbn [length] in Ln; lia|cbn [length] in Lm; lia|exact H].
    + destruct (decode_rune (b :: t)) as [r w] eqn:D.
      apply andb_prop in H as [H Hrest]. apply andb_prop in H as [Hinv Hpr]. apply negb_true_iff in Hinv. rewrite Hinv.
      assert (W : (1 <= w <= length (b :: t))%nat) by (apply (decode_width _ r w); [discriminate|exact D]).
      assert (Valid : r <> RuneError \/ (1 < w)%nat).
      { apply andb_false_iff in Hinv as [Hinv|Hinv]; [right; apply Nat.eqb_neq in Hinv; lia|left; apply N.eqb_neq in Hinv; exact Hinv]. }
      destruct (decode_valid _ _ _ D) as [_ Lr].
      assert (Hr : (128 <= r)%N).
      { destruct (N.lt_ge_cases r 128) as [Lt|Ge]; [|exact Ge]. destruct (decode_ascii b t r w D Lt) as [-> _]. apply N.ltb_ge in E. exact E. }
      assert (Q : quote_rune is_print r = encode_utf8 r).
      { unfold quote_rune. replace (r =? 34)%N with false by (symmetry; apply N.eqb_neq; lia).
        replace (r =? 92)%N with false by (symmetry; apply N.eqb_neq; lia). rewrite Hpr. reflexivity. }
      rewrite Q, (enc_dec _ _ _ D Valid).
      rewrite (IH m (skipn w (b :: t))); [|rewrite skipn_length; cbn [length] in *; lia|rewrite skipn_length; cbn [length] in *; lia|exact Hrest].
      rewrite <- (firstn_skipn w (b :: t)) at 3. rewrite qesc_app. f_equal. symmetry. apply qesc_high.
      rewrite <- (enc_dec _ _ _ D Valid). apply encode_high; assumption.
Qed.
Theorem qesc_quote is_print : ascii_print_ok is_print -> forall s, printable is_print s = true -> quote is_print s = qesc s.
Proof. intros Hp s H. unfold quote. apply (qesc_quote_fuel is_print Hp (length s) (length s) s); [apply le_n|apply le_n|exact H]. Qed.
Lemma ascii_printable is_print : forall m s, ascii s = true -> printable_fuel is_print m s = true.
Proof.
  induction m as [|m IH]; intros s H; [reflexivity|]. destruct s as [|b t]; [reflexivity|].
  cbn [ascii forallb] in H. apply andb_prop in H as [Hb Ht]. cbn [printable_fuel]. rewrite Hb. cbn [skipn]. apply IH. exact Ht.
Qed.
Theorem qesc_quote_ascii is_print : ascii_print_ok is_print -> forall s, ascii s = true -> quote is_print s = qesc s.
Proof. intros Hp s H. apply qesc_quote; [exact Hp|]. apply ascii_printable. exact H. Qed.
Lemma go_ascii_print_ok : ascii_print_ok go_is_print.
Proof.
  assert (T : forallb (fun r => Bool.eqb (go_is_print r) ((32 <=? r) && (r <? 127))%N) (map N.of_nat (List.seq 0 128)) = true) by (vm_compute; reflexivity).
  intros r H. rewrite forallb_forall in T. apply eqb_prop. apply T.
  rewrite <- (N2Nat.id r). apply in_map. apply in_seq. lia.
Qed.

(* the same statement with Quote.lit_text in the place of glit_text *)
Definition qbuilt (is_print : N -> bool) (s : bytes) : Prop := exists ps, forallb piece_ok ps = true /\ s = lit_text is_print ps.
Section QB.
Variable is_print : N -> bool.
Hypothesis Hp : ascii_print_ok is_print.
Lemma qbuilt_nil : qbuilt is_print [].
Proof. exists []. split; reflexivity. Qed.
Lemma qbuilt_app a b : qbuilt is_print a -> qbuilt is_print b -> qbuilt is_print (a ++ b).
Proof.
  intros (pa & Ha & ->) (pb & Hb & ->). exists (pa ++ pb). split; [rewrite forallb_app, Ha, Hb; reflexivity|].
  unfold lit_text. rewrite map_app, concat_app. reflexivity.
Qed.
Lemma qbuilt_qesc s : printable is_print s = true -> qbuilt is_print (qesc s).
Proof. intros H. exists [PQ s]. split; [reflexivity|]. unfold lit_text. cbn [map concat piece_text]. rewrite app_nil_r. symmetry. apply qesc_quote; assumption. Qed.
Lemma qbuilt_plain t : forallb plain_byte t = true -> qbuilt is_print t.
Proof. intros H. exists [PF t]. split; [cbn [forallb piece_ok]; rewrite H; reflexivity|]. unfold lit_text. cbn [map concat piece_text]. rewrite app_nil_r. reflexivity. Qed.
Lemma qbuilt_pe : qbuilt is_print [x5c; x22].
Proof. exists [PE]. split; reflexivity. Qed.
Lemma qbuilt_hesc n : pl n = true -> qbuilt is_print (hesc n).
Proof. apply qbuilt_plain. Qed.

(* every literal of a file with plain names and printable static text is a literal in the sense of model/Quote.v *)
Theorem literals_are_quote_built fn f : file_named pl (printable is_print) f -> Forall (qbuilt is_print) (snd (generate fn f)).
Proof.
  intros Hn.
  pose proof (lgood_gen_all (qbuilt is_print) pl (printable is_print) qbuilt_nil qbuilt_app qbuilt_qesc qbuilt_plain qbuilt_pe qbuilt_hesc f Hn (g_init fn)
                (LI_init _ qbuilt_nil fn)) as (_ & _ & D & _).
  rewrite generate_eq. cbn [snd]. apply Forall_rev. exact D.
Qed.
(* ... hence reads back (strconv.Unquote) as the bytes the author wrote and scans as one Go string literal *)
Theorem generated_literals_roundtrip fn f : is_print 10%N = false -> file_named pl (printable is_print) f ->
  Forall (fun lit => exists ps, forallb piece_ok ps = true /\ lit = lit_text is_print ps /\
                               unquote lit = Some (lit_value ps) /\ scan_ok lit = true) (snd (generate fn f)).
Proof.
  intros Hnl Hn. eapply Forall_impl; [|apply (literals_are_quote_built fn f Hn)].
  intros a (ps & Hok & ->). exists ps. destruct (literal_roundtrip is_print Hnl ps Hok) as [U S]. auto.
Qed.
End QB.

(* ================= example data (non-vacuity witnesses for props/C16.v) ================= *)
Definition lit_file : file :=
  {| f_header := [];
     f_pkg := mk_e (bs "package p") 0 0 0;
     f_nodes := [FTempl (mk_e (bs "T()") 17 2 6)
                   [NElem (bs "a") [AConst (bs "title") (bs "x\""y"); AExpr (bs "href") (mk_e (bs "u") 40 3 13)]
                      [NText (bs "a""b" ++ [x0a]) SpNone; NStr (mk_e (bs "s") 46 3 19) SpNone] SpNone]] |}.
Lemma lit_file_named : file_named pl (printable go_is_print) lit_file.
Proof. intros e ch [H|[]]. inversion H; subst. vm_compute. reflexivity. Qed.
