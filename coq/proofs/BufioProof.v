(* C10 - the buffered writer over an arbitrary destination: the prefix invariant and the sticky error. *)
From Coq.Strings Require Import Byte String.
From Coq Require Import List NArith Bool Arith Lia.
Import ListNotations.
From V Require Import lib.Bytes spec.RenderSpec model.Bufio.
Local Open Scope nat_scope.

Lemma first_refusal_app l e :
  first_refusal (l ++ [e]) = match first_refusal l with Some x => Some x | None => refusal e end.
Proof.
  induction l as [|a l IH]; cbn [app first_refusal].
  - destruct (refusal e); reflexivity.
  - destruct (refusal a); [reflexivity|exact IH].
Qed.

Lemma prefix_refl a : prefix a a.
Proof. exists []. now rewrite app_nil_r. Qed.
Lemma prefix_nil a : prefix [] a.
Proof. exists a. reflexivity. Qed.
Lemma prefix_app_r a b c : prefix a b -> prefix a (b ++ c).
Proof. intros [t ->]. exists (t ++ c). now rewrite app_assoc. Qed.
Lemma prefix_app_l a b c : prefix b c -> prefix (a ++ b) (a ++ c).
Proof. intros [t ->]. exists t. now rewrite app_assoc. Qed.
Lemma prefix_trans a b c : prefix a b -> prefix b c -> prefix a c.
Proof. intros [t ->] [u ->]. exists (t ++ u). now rewrite app_assoc. Qed.

Lemma prefixb_prefix a : forall b, prefixb a b = true <-> prefix a b.
Proof.
  induction a as [|x a IH]; intros b; cbn [prefixb].
  - split; [intros _; apply prefix_nil|reflexivity].
  - destruct b as [|y b].
    + split; [discriminate|]. intros [t H]. discriminate.
    + rewrite andb_true_iff, byte_eqb_eq, IH. split.
      * intros [-> [t ->]]. exists t. reflexivity.
      * intros [t H]. cbn in H. inversion H; subst. split; [reflexivity|]. exists t. reflexivity.
Qed.

Section BufioP.
Variable sink_st : Type.
Variable sink : sink_st -> bytes -> nat * option err * sink_st.
Variable cap : nat.
(* the destination never claims to have accepted more than it was offered *)
Hypothesis sink_le : forall s p, fst (fst (sink s p)) <= length p.

Notation worldT := (world sink_st).
Notation flushT := (bw_flush sink_st sink).
Notation writeT := (bw_write sink_st sink cap).

(* everything handed to the buffered writer so far = what the destination accepted ++ what is still buffered
   ++ a tail that can only be lost once an error is recorded; and the recorded error is exactly the
   destination's first refusal *)
Definition Inv (written : bytes) (b : bw) (w : worldT) : Prop :=
  (exists rest, written = recv w ++ buf b ++ rest /\ (berr b = None -> rest = [])) /\
  length (buf b) <= cap /\
  berr b = first_refusal (log w).

Lemma inv_lost written b w s : Inv written b w -> berr b <> None -> Inv (written ++ s) b w.
Proof.
  intros [[rest [Hw Hr]] [Hl He]] Hn. split; [|split; assumption].
  exists (rest ++ s). split; [rewrite Hw, <- !app_assoc; reflexivity|]. intros X. contradiction.
Qed.

Lemma flush_inv written b w b' w' : Inv written b w -> flushT b w = (b', w') -> Inv written b' w'.
Proof.
  intros I H. unfold bw_flush in H.
  destruct (berr b) eqn:Eb; [inversion H; subst; exact I|].
  destruct (buf b) as [|x xs] eqn:Bb; [inversion H; subst; exact I|].
  rewrite <- Bb in *. unfold sink_call in H.
  destruct (sink (sst w) (buf b)) as [[n e] s'] eqn:Sk.
  pose proof (sink_le (sst w) (buf b)) as Le. rewrite Sk in Le. cbn [fst] in Le.
  destruct I as [[rest [Hw Hr]] [Hl He]]. rewrite (Hr Eb), app_nil_r in Hw.
  assert (FR : first_refusal (log w ++ [LCall false (length (buf b)) n e]) =
               match e with Some x => Some x | None => if n <? length (buf b) then Some EShortWrite else None end).
  { rewrite first_refusal_app, <- He, Eb. cbn [refusal]. destruct e; reflexivity. }
  destruct (match e with Some x => Some x | None => if n <? length (buf b) then Some EShortWrite else None end) as [x0|] eqn:E'.
  - inversion H; subst b' w'. unfold Inv. cbn [recv buf berr log].
    split; [|split].
    + exists []. rewrite app_nil_r, <- app_assoc, firstn_skipn. split; [exact Hw|reflexivity].
    + rewrite skipn_length. lia.
    + symmetry. exact FR.
  - inversion H; subst b' w'. unfold Inv. cbn [recv buf berr log].
    destruct e; [discriminate|]. destruct (n <? length (buf b)) eqn:Lt; [discriminate|].
    apply Nat.ltb_ge in Lt. assert (n = length (buf b)) by lia. subst n.
    split; [|split].
    + exists []. rewrite firstn_all, !app_nil_r. split; [exact Hw|reflexivity].
    + cbn. lia.
    + symmetry. exact FR.
Qed.

(* what a flush leaves behind *)
Lemma flush_sticky b w x : berr b = Some x -> flushT b w = (b, w).
Proof. intros H. unfold bw_flush. rewrite H. reflexivity. Qed.

Lemma flush_clean b w b' w' : flushT b w = (b', w') -> berr b' = None -> buf b' = [].
Proof.
  intros H E. unfold bw_flush in H.
  destruct (berr b) eqn:Eb; [inversion H; subst; congruence|].
  destruct (buf b) eqn:Bb; [inversion H; subst; exact Bb|]. rewrite <- Bb in H. unfold sink_call in H.
  destruct (sink (sst w) (buf b)) as [[n e] s'].
  destruct (match e with Some x => Some x | None => if n <? length (buf b) then Some EShortWrite else None end);
    inversion H; subst; [discriminate|reflexivity].
Qed.

Lemma write_inv direct fuel : forall written b w s b' w',
  Inv written b w -> writeT direct fuel b w s = (b', w') -> Inv (written ++ s) b' w'.
Proof.
  induction fuel as [|f IH]; intros written b w s b' w' I H.
  - cbn [bw_write] in H. destruct (berr b) eqn:Eb.
    + inversion H; subst. apply inv_lost; [exact I|congruence].
    + destruct (length s <=? cap - length (buf b)) eqn:Fit.
      * apply Nat.leb_le in Fit. inversion H; subst b' w'. destruct I as [[rest [Hw Hr]] [Hl He]].
        rewrite (Hr Eb), app_nil_r in Hw. unfold Inv. cbn [buf berr].
        split; [|split].
        -- exists []. rewrite app_nil_r, Hw, <- app_assoc. split; reflexivity.
        -- rewrite app_length. lia.
        -- rewrite <- He, Eb. reflexivity.
      * inversion H; subst b' w'. destruct I as [[rest [Hw Hr]] [Hl He]].
        rewrite (Hr Eb), app_nil_r in Hw. unfold Inv. cbn [buf berr recv log].
        split; [|split].
        -- exists s. rewrite Hw, <- app_assoc. split; [reflexivity|discriminate].
        -- exact Hl.
        -- rewrite first_refusal_app, <- He, Eb. reflexivity.
  - cbn [bw_write] in H. destruct (berr b) eqn:Eb.
    + inversion H; subst. apply inv_lost; [exact I|congruence].
    + destruct (length s <=? cap - length (buf b)) eqn:Fit.
      * apply Nat.leb_le in Fit. inversion H; subst b' w'. destruct I as [[rest [Hw Hr]] [Hl He]].
        rewrite (Hr Eb), app_nil_r in Hw. unfold Inv. cbn [buf berr].
        split; [|split].
        -- exists []. rewrite app_nil_r, Hw, <- app_assoc. split; reflexivity.
        -- rewrite app_length. lia.
        -- rewrite <- He, Eb. reflexivity.
      * destruct (direct && is_nil (buf b)) eqn:D.
        -- (* large write, empty buffer: straight to the destination; the rest is offered again *)
           apply andb_prop in D as [_ Nil]. destruct (buf b) eqn:Bb; [|discriminate].
           unfold sink_call in H. destruct (sink (sst w) s) as [[n e] s'] eqn:Sk.
           rewrite <- (firstn_skipn n s) at 1. rewrite app_assoc.
           eapply IH; [|exact H].
           destruct I as [[rest [Hw Hr]] [Hl He]]. rewrite (Hr Eb), Bb in Hw. cbn [app] in Hw. rewrite app_nil_r in Hw.
           unfold Inv. cbn [buf berr recv log]. split; [|split].
           ++ exists []. cbn [app]. rewrite app_nil_r, Hw. split; reflexivity.
           ++ cbn. lia.
           ++ rewrite first_refusal_app, <- He, Eb. cbn [refusal]. destruct e; reflexivity.
        -- (* fill the buffer, flush it, go on with the rest *)
           set (n := cap - length (buf b)) in *.
           destruct (flushT {| buf := buf b ++ firstn n s; berr := None |} w) as [b1 w1] eqn:F.
           rewrite <- (firstn_skipn n s) at 1. rewrite app_assoc.
           eapply IH; [|exact H].
           eapply flush_inv; [|exact F].
           destruct I as [[rest [Hw Hr]] [Hl He]]. rewrite (Hr Eb), app_nil_r in Hw.
           unfold Inv. cbn [buf berr]. split; [|split].
           ++ exists []. rewrite app_nil_r, Hw, <- app_assoc. split; reflexivity.
           ++ rewrite app_length, firstn_length. unfold n. lia.
           ++ rewrite <- He, Eb. reflexivity.
Qed.


(* ---------- conservation: a buffered writer moves bytes, it neither invents nor (without an error) loses any ---------- *)
Lemma prefix_length (a b : bytes) : prefix a b -> length a <= length b.
Proof. intros [t ->]. rewrite app_length. lia. Qed.
Lemma prefix_firstn (a b : bytes) : prefix a b -> firstn (length a) b = a.
Proof. intros [t ->]. rewrite firstn_app, Nat.sub_diag, firstn_all. cbn. apply app_nil_r. Qed.

Lemma write_sticky direct fuel b w s x : berr b = Some x -> writeT direct fuel b w s = (b, w).
Proof. intros H. destruct fuel; cbn [bw_write]; rewrite H; reflexivity. Qed.

(* a flush moves bytes from the buffer to the writer behind it, and loses none *)
Lemma flush_conserve b w b' w' : flushT b w = (b', w') -> recv w' ++ buf b' = recv w ++ buf b.
Proof.
  intros H. unfold bw_flush in H.
  destruct (berr b); [inversion H; subst; reflexivity|].
  destruct (buf b) eqn:Bb; [inversion H; subst; rewrite Bb; reflexivity|]. rewrite <- Bb in *.
  unfold sink_call in H. destruct (sink (sst w) (buf b)) as [[n e] s'].
  destruct e as [x|].
  - inversion H; subst. cbn [recv buf]. rewrite <- app_assoc, firstn_skipn. reflexivity.
  - destruct (n <? length (buf b)) eqn:Lt.
    + inversion H; subst. cbn [recv buf]. rewrite <- app_assoc, firstn_skipn. reflexivity.
    + apply Nat.ltb_ge in Lt. inversion H; subst. cbn [recv buf]. rewrite firstn_all2 by exact Lt. apply app_nil_r.
Qed.

Lemma flush_err_sticky b w b' w' : flushT b w = (b', w') -> berr b' = None -> berr b = None.
Proof.
  intros H E. destruct (berr b) eqn:Eb; [|reflexivity].
  unfold bw_flush in H. rewrite Eb in H. inversion H; subst. congruence.
Qed.

(* a write consumes a prefix t of what it is offered - all of it unless an error is recorded - and t ends up
   behind the writer or in its buffer *)
Lemma write_conserve direct fuel : forall b w s b' w', writeT direct fuel b w s = (b', w') ->
  exists t, recv w' ++ buf b' = recv w ++ buf b ++ t /\ prefix t s /\ (berr b' = None -> t = s).
Proof.
  induction fuel as [|f IH]; intros b w s b' w' H; cbn [bw_write] in H.
  - destruct (berr b) eqn:Eb.
    + inversion H; subst. exists []. rewrite app_nil_r. split; [reflexivity|]. split; [apply prefix_nil|congruence].
    + destruct (length s <=? cap - length (buf b)); inversion H; subst; cbn [recv buf berr].
      * exists s. split; [reflexivity|]. split; [apply prefix_refl|reflexivity].
      * exists []. rewrite app_nil_r. split; [reflexivity|]. split; [apply prefix_nil|discriminate].
  - destruct (berr b) eqn:Eb.
    + inversion H; subst. exists []. rewrite app_nil_r. split; [reflexivity|]. split; [apply prefix_nil|congruence].
    + destruct (length s <=? cap - length (buf b)).
      * inversion H; subst; cbn [recv buf berr]. exists s. split; [reflexivity|]. split; [apply prefix_refl|reflexivity].
      * destruct (direct && is_nil (buf b)) eqn:D.
        -- apply andb_prop in D as [_ Nil]. destruct (buf b) eqn:Bb; [|discriminate].
           unfold sink_call in H. destruct (sink (sst w) s) as [[n e] s'].
           destruct (IH _ _ _ _ _ H) as [t2 [E2 [P2 F2]]]. cbn [recv buf] in E2.
           exists (firstn n s ++ t2). split; [|split].
           ++ rewrite E2. cbn [app]. rewrite <- app_assoc. reflexivity.
           ++ rewrite <- (firstn_skipn n s) at 2. apply prefix_app_l. exact P2.
           ++ intros En. rewrite (F2 En). apply firstn_skipn.
        -- set (n := cap - length (buf b)) in *.
           destruct (flushT {| buf := buf b ++ firstn n s; berr := None |} w) as [b1 w1] eqn:F.
           pose proof (flush_conserve _ _ _ _ F) as C1. cbn [buf] in C1.
           destruct (IH _ _ _ _ _ H) as [t2 [E2 [P2 F2]]].
           exists (firstn n s ++ t2). split; [|split].
           ++ rewrite E2, app_assoc, C1. rewrite <- !app_assoc. reflexivity.
           ++ rewrite <- (firstn_skipn n s) at 2. apply prefix_app_l. exact P2.
           ++ intros En. rewrite (F2 En). apply firstn_skipn.
Qed.

(* a flush, a write only ever add to the record of calls *)
Lemma flush_log b w b' w' : flushT b w = (b', w') -> exists l2, log w' = log w ++ l2.
Proof.
  intros H. unfold bw_flush in H.
  destruct (berr b); [inversion H; subst; exists []; symmetry; apply app_nil_r|].
  destruct (buf b) eqn:Bb; [inversion H; subst; exists []; symmetry; apply app_nil_r|]. rewrite <- Bb in *.
  unfold sink_call in H. destruct (sink (sst w) (buf b)) as [[n e] s'].
  destruct (match e with Some x => Some x | None => if n <? length (buf b) then Some EShortWrite else None end);
    inversion H; subst; cbn [log]; eexists; reflexivity.
Qed.

(* the two facts C10 needs *)
Lemma received_is_prefix written b w : Inv written b w -> prefix (recv w) written.
Proof. intros [[rest [Hw _]] _]. exists (buf b ++ rest). exact Hw. Qed.

Lemma clean_means_all written b w : Inv written b w -> berr b = None -> buf b = [] -> recv w = written.
Proof. intros [[rest [Hw Hr]] _] E B. rewrite (Hr E), B, !app_nil_r in Hw. symmetry. exact Hw. Qed.

(* ---------- termination of the write loop for a destination that honours io.Writer ---------- *)
(* io.Writer: "Write must return a non-nil error if it returns n < len(p)"; the loop only needs the weaker
   "a call that is offered something and returns a nil error accepts at least one byte" *)
Definition progresses : Prop :=
  forall s p n s', p <> [] -> sink s p = (n, None, s') -> 0 < n.

Definition no_spin (w : worldT) : Prop := ~ In LSpin (log w).

Lemma flush_no_spin b w b' w' : no_spin w -> flushT b w = (b', w') -> no_spin w'.
Proof.
  intros N H. unfold bw_flush in H.
  destruct (berr b); [inversion H; subst; exact N|].
  destruct (buf b) eqn:Bb; [inversion H; subst; exact N|]. rewrite <- Bb in H. unfold sink_call in H.
  destruct (sink (sst w) (buf b)) as [[n e] s'].
  assert (X : no_spin {| sst := s'; recv := recv w ++ firstn n (buf b);
                         log := log w ++ [LCall false (length (buf b)) n e]; marks := marks w |}).
  { unfold no_spin. cbn [log]. intros Hin. apply in_app_or in Hin as [Hin|Hin]; [exact (N Hin)|].
    destruct Hin as [Hin|[]]. discriminate. }
  destruct (match e with Some x => Some x | None => if n <? length (buf b) then Some EShortWrite else None end);
    inversion H; subst; exact X.
Qed.

Lemma write_no_spin direct : progresses -> 0 < cap -> forall fuel b w s b' w',
  no_spin w -> length (buf b) <= cap ->
  length s + (if is_nil (buf b) then 0 else 1) + 1 <= fuel ->
  writeT direct fuel b w s = (b', w') -> no_spin w'.
Proof.
  intros Pr Cp. induction fuel as [|f IH]; intros b w s b' w' N Hl Hf H; [lia|].
  cbn [bw_write] in H. destruct (berr b) eqn:Eb; [inversion H; subst; exact N|].
  destruct (length s <=? cap - length (buf b)) eqn:Fit; [inversion H; subst; exact N|].
  apply Nat.leb_gt in Fit.
  destruct (direct && is_nil (buf b)) eqn:D.
  - apply andb_prop in D as [_ Nil]. destruct (buf b) eqn:Bb; [|discriminate]. cbn [is_nil length] in *.
    unfold sink_call in H. destruct (sink (sst w) s) as [[n e] s'] eqn:Sk.
    pose proof (sink_le (sst w) s) as Le. rewrite Sk in Le. cbn [fst] in Le.
    set (w1 := {| sst := s'; recv := recv w ++ firstn n s; log := log w ++ [LCall true (length s) n e]; marks := marks w |}) in *.
    assert (N1 : no_spin w1).
    { unfold no_spin, w1. cbn [log]. intros Hin. apply in_app_or in Hin as [Hin|Hin]; [exact (N Hin)|].
      destruct Hin as [Hin|[]]. discriminate. }
    destruct e as [x|].
    + (* the destination reported an error: the loop ends *)
      destruct f; cbn [bw_write berr] in H; inversion H; subst; exact N1.
    + assert (0 < n). { eapply Pr; [|exact Sk]. intros ->. cbn in Fit. lia. }
      eapply (IH _ _ _ _ _ N1); [| |exact H]; cbn [buf length is_nil]; [lia|].
      rewrite skipn_length. lia.
  - set (n := cap - length (buf b)) in *.
    destruct (flushT {| buf := buf b ++ firstn n s; berr := None |} w) as [b1 w1] eqn:F.
    pose proof (flush_no_spin _ _ _ _ N F) as N1.
    destruct (berr b1) eqn:E1.
    + destruct f; cbn [bw_write] in H; rewrite E1 in H; inversion H; subst; exact N1.
    + pose proof (flush_clean _ _ _ _ F E1) as B1.
      eapply (IH _ _ _ _ _ N1); [| |exact H]; rewrite B1; cbn [length is_nil]; [lia|].
      rewrite skipn_length.
      destruct (buf b) eqn:Bb; cbn [is_nil length] in *; unfold n; lia.
Qed.
End BufioP.
