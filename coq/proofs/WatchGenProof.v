(* C16 - the skeleton of the generator model's output (model/Gen.v: generate = generator.Generate) and worked files. *)
From Coq.Strings Require Import Byte String.
From Coq Require Import List Arith NArith Bool.
Import ListNotations.
From V Require Import lib.Bytes model.Quote model.WatchMode model.Ast model.Gen proofs.GenAddsProof proofs.GenLitProof.
Open Scope N_scope.

(* GeneratorOutput.Skeleton for the generator model: skel_of_code of the generated text *)
Definition gen_skeleton (fn : bytes) (f : file) : bytes := skel_of_code (fst (Gen.generate fn f)).
Definition gen_output_of (o : gen_opts) (exprs : list bytes) (f : file) : gen_output bytes :=
  gen_out_code o (snd (Gen.generate (o_file o) f)) exprs (fst (Gen.generate (o_file o) f)).

(* lit_file (proofs/GenLitProof.v) after a text-only edit: other constant attribute value, other text, one more line
   of text in front of the expressions (their Line and Col move) *)
Definition lit_file_text : file :=
  {| f_header := [];
     f_pkg := mk_e (bs "package p") 0 0 0;
     f_nodes := [FTempl (mk_e (bs "T()") 17 2 6)
                   [NElem (bs "a") [AConst (bs "title") (bs "other \ title"); AExpr (bs "href") (mk_e (bs "u") 52 4 17)]
                      [NText (bs "c" ++ [x0a] ++ bs "d") SpNone; NStr (mk_e (bs "s") 60 5 3) SpNone] SpNone]] |}.
(* ... and after moving the expression u from href (URL writer) to title (attribute writer): same expressions, same
   number of literals *)
Definition lit_file_sink : file :=
  {| f_header := [];
     f_pkg := mk_e (bs "package p") 0 0 0;
     f_nodes := [FTempl (mk_e (bs "T()") 17 2 6)
                   [NElem (bs "a") [AConst (bs "href") (bs "x\""y"); AExpr (bs "title") (mk_e (bs "u") 40 3 13)]
                      [NText (bs "a""b" ++ [x0a]) SpNone; NStr (mk_e (bs "s") 46 3 19) SpNone] SpNone]] |}.
Definition ot : gen_opts := {| o_version := []; o_file := bs "t.templ"; o_skip := false; o_date := [] |}.
