(* Proofs for C09 over the formatter model: unfolding lemmas for the fuelled local fixpoints of model/Fmt.v,
   no_reason_stable (no named cause => first pass is a fixed point), flat_reparse_write, reparse_no_reason and
   two_pass_convergence. *)
From Coq.Strings Require Import Byte String.
From Coq Require Import List Arith NArith Bool Lia.
Import ListNotations.
From V Require Import lib.Bytes lib.Sexp model.Fmt model.FmtReasons spec.FmtSpec.
Local Open Scope nat_scope.

(* ---------- the local fixpoints of the model, as standalone functions ---------- *)
Definition eff_trail (indent : bool) (c : node) (r : list node) : trailing :=
  let tr0 := match trail_of c with Some t => t | None => SpVert end in
  let next_block := match r with x :: _ => is_block_node x | [] => false end in
  let is_last := match r with [] => true | _ => false end in
  if indent && (next_block || is_last || always_break c) then SpVert else tr0.
Definition next_lvl (start : nat) (tr : trailing) : nat := match tr with SpVert => start | _ => 0 end.

Section Generic.
Variable W : nat -> node -> bytes.
Variable R : nat -> node -> node.
Variable RS : node -> node -> list string.
Variable TS : node -> list string.
Fixpoint wnodes (start lvl : nat) (indent : bool) (l : list node) : bytes :=
  match l with
  | [] => []
  | c :: r =>
      if is_ws c then wnodes start lvl indent r else
      let tr0 := match trail_of c with Some t => t | None => SpVert end in
      let next_block := match r with x :: _ => is_block_node x | [] => false end in
      let is_last := match r with [] => true | _ => false end in
      let tr := if indent && (next_block || is_last || always_break c) then SpVert else tr0 in
      let lvl' := match tr with SpVert => start | _ => 0 end in
      W lvl c ++ trail_bytes tr ++ wnodes start lvl' indent r
  end.
Fixpoint rnodes (start lvl : nat) (indent : bool) (l : list node) : list node :=
  match l with
  | [] => []
  | c :: r =>
      if is_ws c then rnodes start lvl indent r else
      let tr0 := match trail_of c with Some t => t | None => SpVert end in
      let next_block := match r with x :: _ => is_block_node x | [] => false end in
      let is_last := match r with [] => true | _ => false end in
      let tr := if indent && (next_block || is_last || always_break c) then SpVert else tr0 in
      let lvl' := match tr with SpVert => start | _ => 0 end in
      set_trailing (R lvl c) tr :: rnodes start lvl' indent r
  end.
Fixpoint rlists (a b : list node) : list string :=
  match a, b with
  | x :: a', y :: b' => RS x y ++ rlists a' b'
  | _, _ => [] end.
Fixpoint rcases (a b : list (bytes * list node)) : list string :=
  match a, b with (_, x) :: a', (_, y) :: b' => rlists (filter (fun c => negb (is_ws c)) x) y ++ rcases a' b' | _, _ => [] end.
Fixpoint tlist (indent : bool) (l : list node) : list string :=
  match l with
  | [] => []
  | c :: r =>
      if is_ws c then tlist indent r else
      (if overridden indent c r then ["TrailingSpaceRewritten"%string] else []) ++ TS c ++ tlist indent r
  end.
End Generic.

Definition nows := filter (fun c : node => negb (is_ws c)).
(* a block whose children are only white space: reparse keeps a placeholder *)
Definition keep_block (ch ch' : list node) : list node := match ch' with [] => (match ch with [] => [] | _ => [NWs] end) | n0 :: l0 => n0 :: l0 end.

Lemma write_node_S f lvl n : write_node (S f) lvl n =
  let write_nodes := wnodes (write_node f) in
  let nodes_indented := fun l' l => write_nodes l' l' true l in
  match n with
  | NWs => []
  | NDoc v => ind lvl (bs "<!DOCTYPE " ++ v ++ bs ">")
  | NText v _ => ind lvl v
  | NStr v _ => ind lvl (str_expr v)
  | NGoComment c multi => if multi then ind lvl (bs "/*" ++ c ++ bs "*/") else ind lvl (bs "//" ++ c)
  | NHtmlComment c => ind lvl (bs "<!--" ++ c ++ bs "-->")
  | NCallT v => ind lvl (bs "@" ++ v)
  | NChildren => ind lvl (bs "{ children... }")
  | NGoCode src multi _ => if multi then ind lvl (bs "{{" ++ src ++ nlb) ++ ind lvl (bs "}}") else ind lvl (bs "{{ " ++ src ++ bs " }}")
  | NCall src ref ch =>
      (fix lines (i : nat) (s r : list bytes) : bytes :=
         match s with
         | [] => []
         | l :: s' =>
             (if i =? 0 then ind lvl (bs "@" ++ l)
              else nlb ++ (if beq l (hd [] r) then ind lvl l else l)) ++ lines (S i) s' (tl r)
         end) 0 src ref ++
      match ch with [] => [] | _ => bs " {" ++ nlb ++ nodes_indented (S lvl) ch ++ ind lvl (bs "}") end
  | NIf v th elifs el =>
      ind lvl (bs "if " ++ v ++ bs " {" ++ nlb) ++ nodes_indented (S lvl) th ++
      flat_map (fun '(cv, cb) => ind lvl (bs "} else if " ++ cv ++ bs " {" ++ nlb) ++ nodes_indented (S lvl) cb) elifs ++
      (match el with [] => [] | _ => ind lvl (bs "} else {" ++ nlb) ++ nodes_indented (S lvl) el end) ++ ind lvl (bs "}")
  | NSwitch v cases =>
      ind lvl (bs "switch " ++ v ++ bs " {" ++ nlb) ++
      flat_map (fun '(cv, cb) => ind (S lvl) (cv ++ nlb) ++ nodes_indented (S (S lvl)) cb) cases ++ ind lvl (bs "}")
  | NFor v b => ind lvl (bs "for " ++ v ++ bs " {" ++ nlb) ++ nodes_indented (S lvl) b ++ ind lvl (bs "}")
  | NRaw name attrs c => ind lvl (bs "<" ++ name) ++ flat_map (fun a => [x20] ++ write_attr 50 0 a) attrs ++ bs ">" ++ c ++ bs "</" ++ name ++ bs ">"
  | NScript attrs parts =>
      ind lvl (bs "<script") ++ flat_map (fun a => [x20] ++ write_attr 50 0 a) attrs ++ bs ">" ++
      flat_map (fun p => match p with SJs v => v | SGo v tr => bs "{{ " ++ (if ws_only v then [] else v) ++ bs " }}" ++ tr end) parts ++ bs "</script>"
  | NElem name attrs ia ch ic _ =>
      ind lvl (bs "<" ++ name) ++
      flat_map (fun a => if ia then nlb ++ write_attr 50 (S lvl) a else [x20] ++ write_attr 50 0 a) attrs ++
      (if ia then nlb else []) ++
      let cl := if ia then lvl else 0 in
      if existsb (fun c => negb (is_ws c)) ch then
        if ic then ind cl (bs ">" ++ nlb) ++ nodes_indented (S lvl) ch ++ ind lvl (bs "</" ++ name ++ bs ">")
        else ind cl (bs ">") ++ write_nodes 0 0 false ch ++ bs "</" ++ name ++ bs ">"
      else if is_void_name name then ind cl (bs "/>")
      else ind cl (bs "></" ++ name ++ bs ">")
  end.
Proof. destruct n; reflexivity. Qed.

Lemma reparse_node_S f lvl n : reparse_node (S f) lvl n =
  let rp_nodes := rnodes (reparse_node f) in
  let nodes_indented := fun l' l => rp_nodes l' l' true l in
  match n with
  | NGoCode src multi t => NGoCode src (has_nl src) t
  | NCall src ref ch =>
      NCall src ref (keep_block ch (nodes_indented (S lvl) ch))
  | NIf v th elifs el =>
      NIf v (nodes_indented (S lvl) th) (map (fun '(cv, cb) => (cv, nodes_indented (S lvl) cb)) elifs)
          (keep_block el (nodes_indented (S lvl) el))
  | NSwitch v cases => NSwitch v (map (fun '(cv, cb) => (cv, nodes_indented (S (S lvl)) cb)) cases)
  | NFor v b => NFor v (nodes_indented (S lvl) b)
  | NElem name attrs ia ch ic t =>
      let printed_attrs := flat_map (fun a => if ia then nlb ++ write_attr 50 (S lvl) a else [x20] ++ write_attr 50 0 a) attrs in
      let ia' := has_nl printed_attrs in
      let has_children := existsb (fun c => negb (is_ws c)) ch in
      let ic' := if has_children then (if ic then true else has_nl (flat_map (fun c => write_node 200 0 c) ch) || existsb (fun c => negb (is_ws c) && match trail_of c with None => true | Some SpVert => true | _ => false end) ch) else false in
      let ch' := if has_children then (if ic then nodes_indented (S lvl) ch else rp_nodes 0 0 false ch) else [] in
      NElem name attrs ia' ch' ic' t
  | _ => n
  end.
Proof. destruct n; reflexivity. Qed.

Lemma reasons_node_S f n n' : reasons_node (S f) n n' =
  node_reasons n n' ++
  match n, n' with
  | NElem _ _ _ ch _ _, NElem _ _ _ ch' _ _ => rlists (reasons_node f) (nows ch) ch'
  | NIf _ th elifs el, NIf _ th' elifs' el' =>
      rlists (reasons_node f) (nows th) th' ++ rcases (reasons_node f) elifs elifs' ++ rlists (reasons_node f) (nows el) el'
  | NSwitch _ cs, NSwitch _ cs' => rcases (reasons_node f) cs cs'
  | NFor _ b, NFor _ b' => rlists (reasons_node f) (nows b) b'
  | NCall _ _ ch, NCall _ _ ch' => rlists (reasons_node f) (nows ch) ch'
  | _, _ => []
  end.
Proof. destruct n, n'; reflexivity. Qed.

Lemma trail_reasons_S f n : trail_reasons (S f) n =
  let tl := tlist (trail_reasons f) in
  match n with
  | NElem _ _ _ ch ic _ => tl ic ch
  | NIf _ th elifs el => tl true th ++ flat_map (fun '(_, cb) => tl true cb) elifs ++ tl true el
  | NSwitch _ cs => flat_map (fun '(_, cb) => tl true cb) cs
  | NFor _ b => tl true b
  | NCall _ _ ch => tl true ch
  | _ => []
  end.
Proof. destruct n; reflexivity. Qed.

Lemma wnodes_cons W start lvl indent c r : wnodes W start lvl indent (c :: r) =
  if is_ws c then wnodes W start lvl indent r else
  W lvl c ++ trail_bytes (eff_trail indent c r) ++ wnodes W start (next_lvl start (eff_trail indent c r)) indent r.
Proof. reflexivity. Qed.
Lemma rnodes_cons R start lvl indent c r : rnodes R start lvl indent (c :: r) =
  if is_ws c then rnodes R start lvl indent r else
  set_trailing (R lvl c) (eff_trail indent c r) :: rnodes R start (next_lvl start (eff_trail indent c r)) indent r.
Proof. reflexivity. Qed.

(* set_trailing is invisible to everything but the sibling list *)
Lemma write_set_trailing f lvl n t : write_node f lvl (set_trailing n t) = write_node f lvl n.
Proof. destruct f; [reflexivity|]. destruct n; reflexivity. Qed.
Lemma reasons_set_trailing f x y t : reasons_node f x (set_trailing y t) = reasons_node f x y.
Proof. destruct f; [reflexivity|]. destruct x, y; reflexivity. Qed.
Lemma trail_reasons_set_trailing f y t : trail_reasons f (set_trailing y t) = trail_reasons f y.
Proof. destruct f; [reflexivity|]. destruct y; reflexivity. Qed.
Lemma is_ws_set_trailing n t : is_ws (set_trailing n t) = is_ws n.
Proof. destruct n; reflexivity. Qed.
Lemma is_ws_reparse f lvl n : is_ws (reparse_node f lvl n) = is_ws n.
Proof. destruct f; [reflexivity|]. destruct n; reflexivity. Qed.
Lemma always_break_set_trailing n t : always_break (set_trailing n t) = always_break n.
Proof. destruct n; reflexivity. Qed.
Lemma always_break_reparse f lvl n : always_break (reparse_node f lvl n) = always_break n.
Proof. destruct f; [reflexivity|]. destruct n; reflexivity. Qed.
Lemma trail_of_set_trailing n t : trail_of (set_trailing n t) = match trail_of n with Some _ => Some t | None => None end.
Proof. destruct n; reflexivity. Qed.
Lemma trail_of_reparse f lvl n : trail_of (reparse_node f lvl n) = trail_of n.
Proof. destruct f; [reflexivity|]. destruct n; reflexivity. Qed.

Lemma nows_cons c r : nows (c :: r) = if is_ws c then nows r else c :: nows r.
Proof. unfold nows; simpl. destruct (is_ws c); reflexivity. Qed.

(* the trailing space actually printed after a node of a reparsed list, when the writer does not override it *)
Lemma eff_trail_stable indent f lvl c r (rest : list node) :
  is_ws c = false ->
  overridden indent (set_trailing (reparse_node f lvl c) (eff_trail indent c r)) rest = false ->
  eff_trail indent (set_trailing (reparse_node f lvl c) (eff_trail indent c r)) rest = eff_trail indent c r.
Proof.
  intros Hws Ho.
  assert (Hn : trail_of c = None -> eff_trail indent c r = SpVert).
  { intro E. unfold eff_trail. rewrite E. match goal with |- (if ?b then _ else _) = _ => destruct b end; reflexivity. }
  unfold overridden in Ho. unfold eff_trail at 1.
  rewrite trail_of_set_trailing, trail_of_reparse in *.
  rewrite always_break_set_trailing, always_break_reparse in *.
  set (t := eff_trail indent c r) in *. clearbody t.
  destruct (trail_of c) eqn:E.
  - match goal with |- (if ?b then _ else _) = _ => destruct b end; [|reflexivity]. simpl in Ho. destruct t; try discriminate; reflexivity.
  - rewrite (Hn eq_refl). match goal with |- (if ?b then _ else _) = _ => destruct b end; reflexivity.
Qed.

Section Step.
Variable f : nat.
Hypothesis IH : forall lvl n, reasons_node f n (reparse_node f lvl n) = [] -> trail_reasons f (reparse_node f lvl n) = [] ->
  write_node f lvl (reparse_node f lvl n) = write_node f lvl n.

Lemma wnodes_reparse : forall l start lvl indent,
  rlists (reasons_node f) (nows l) (rnodes (reparse_node f) start lvl indent l) = [] ->
  tlist (trail_reasons f) indent (rnodes (reparse_node f) start lvl indent l) = [] ->
  wnodes (write_node f) start lvl indent (rnodes (reparse_node f) start lvl indent l) = wnodes (write_node f) start lvl indent l.
Proof.
  induction l as [|c r IHl]; intros start lvl indent Hr Ht; [reflexivity|].
  rewrite rnodes_cons, nows_cons in *. rewrite (wnodes_cons _ _ _ _ c r).
  destruct (is_ws c) eqn:Hws; [apply IHl; assumption|].
  cbn [rlists] in Hr. apply app_eq_nil in Hr. destruct Hr as [Hr1 Hr2].
  cbn [tlist] in Ht. rewrite is_ws_set_trailing, is_ws_reparse, Hws in Ht.
  apply app_eq_nil in Ht. destruct Ht as [Ht1 Ht2]. apply app_eq_nil in Ht2. destruct Ht2 as [Ht2 Ht3].
  rewrite wnodes_cons. rewrite is_ws_set_trailing, is_ws_reparse, Hws.
  assert (Ho : overridden indent (set_trailing (reparse_node f lvl c) (eff_trail indent c r))
                 (rnodes (reparse_node f) start (next_lvl start (eff_trail indent c r)) indent r) = false).
  { destruct (overridden _ _ _); [discriminate|reflexivity]. }
  rewrite (eff_trail_stable _ _ _ _ _ _ Hws Ho).
  rewrite write_set_trailing. rewrite reasons_set_trailing in Hr1. rewrite trail_reasons_set_trailing in Ht2.
  rewrite (IH _ _ Hr1 Ht2). rewrite (IHl _ _ _ Hr2 Ht3). reflexivity.
Qed.

Lemma rnodes_nil_wnodes W R : forall l start lvl indent, rnodes R start lvl indent l = [] -> wnodes W start lvl indent l = [].
Proof.
  induction l as [|c r IHl]; intros start lvl indent H; [reflexivity|].
  rewrite rnodes_cons in H. rewrite wnodes_cons. destruct (is_ws c); [eauto|discriminate].
Qed.
Lemma rnodes_nil_nows R : forall l start lvl indent, rnodes R start lvl indent l = [] -> nows l = [].
Proof.
  induction l as [|c r IHl]; intros start lvl indent H; [reflexivity|].
  rewrite rnodes_cons in H. rewrite nows_cons. destruct (is_ws c); [eauto|discriminate].
Qed.
Lemma existsb_rnodes g : forall l start lvl indent,
  existsb (fun c => negb (is_ws c)) (rnodes (reparse_node g) start lvl indent l) = existsb (fun c => negb (is_ws c)) l.
Proof.
  induction l as [|c r IHl]; intros start lvl indent; [reflexivity|].
  rewrite rnodes_cons. simpl. destruct (is_ws c) eqn:E; simpl; [apply IHl|].
  rewrite is_ws_set_trailing, is_ws_reparse, E. reflexivity.
Qed.

(* a block whose children are only white space: reparse keeps a placeholder *)
Lemma wnodes_keep_block : forall ch start lvl,
  rlists (reasons_node f) (nows ch) (keep_block ch (rnodes (reparse_node f) start lvl true ch)) = [] ->
  tlist (trail_reasons f) true (keep_block ch (rnodes (reparse_node f) start lvl true ch)) = [] ->
  wnodes (write_node f) start lvl true (keep_block ch (rnodes (reparse_node f) start lvl true ch)) = wnodes (write_node f) start lvl true ch.
Proof.
  intros ch start lvl Hr Ht. unfold keep_block in *.
  destruct (rnodes (reparse_node f) start lvl true ch) eqn:E.
  - rewrite (rnodes_nil_wnodes _ _ _ _ _ _ E). destruct ch; reflexivity.
  - rewrite <- E in *. apply wnodes_reparse; assumption.
Qed.
Lemma keep_block_nil ch ch' : keep_block ch ch' = [] <-> ch = [] /\ ch' = [].
Proof. unfold keep_block. destruct ch', ch; split; intros; try tauto; try discriminate; destruct H; discriminate. Qed.

Lemma cases_reparse (pre : bytes -> bytes) : forall cs start,
  rcases (reasons_node f) cs (map (fun '(cv, cb) => (cv, rnodes (reparse_node f) start start true cb)) cs) = [] ->
  flat_map (fun '(_, cb) => tlist (trail_reasons f) true cb) (map (fun '(cv, cb) => (cv, rnodes (reparse_node f) start start true cb)) cs) = [] ->
  flat_map (fun '(cv, cb) => pre cv ++ wnodes (write_node f) start start true cb) (map (fun '(cv, cb) => (cv, rnodes (reparse_node f) start start true cb)) cs)
  = flat_map (fun '(cv, cb) => pre cv ++ wnodes (write_node f) start start true cb) cs.
Proof.
  induction cs as [|[cv cb] cs IHc]; intros start Hr Ht; [reflexivity|].
  cbn [map rcases flat_map] in *. apply app_eq_nil in Hr. destruct Hr as [Hr1 Hr2].
  apply app_eq_nil in Ht. destruct Ht as [Ht1 Ht2].
  rewrite wnodes_reparse by assumption. rewrite IHc by assumption. reflexivity.
Qed.

Lemma step : forall lvl n, reasons_node (S f) n (reparse_node (S f) lvl n) = [] -> trail_reasons (S f) (reparse_node (S f) lvl n) = [] ->
  write_node (S f) lvl (reparse_node (S f) lvl n) = write_node (S f) lvl n.
Proof.
  intros lvl n Hr Ht. rewrite reasons_node_S in Hr. rewrite trail_reasons_S in Ht.
  rewrite reparse_node_S in *. rewrite !write_node_S.
  destruct n; try reflexivity; cbv beta iota zeta in Hr, Ht |- *.
  - (* NElem *)
    fold (nows children) in *.
    apply app_eq_nil in Hr. destruct Hr as [Hn Hr].
    cbn [node_reasons] in Hn. apply app_eq_nil in Hn. destruct Hn as [Hia Hic].
    set (ia' := has_nl _) in *. clearbody ia'.
    assert (Eia : iattrs = ia'). { unfold flag_eqb in Hia. destruct (Bool.eqb iattrs ia') eqn:E; [apply Bool.eqb_prop; exact E|]. revert Hia. destruct (existsb attr_is_cond attrs); [intro HH; discriminate HH|]. destruct (existsb attr_multiline_expr attrs); intro HH; discriminate HH. }
    subst ia'.
    set (ic' := if existsb _ children then _ else _) in *. clearbody ic'.
    assert (Eic : existsb (fun c => negb (is_ws c)) children = true -> ichildren = ic').
    { intros _. unfold flag_eqb in Hic. destruct (Bool.eqb ichildren ic') eqn:E; [apply Bool.eqb_prop; exact E|]. revert Hic. repeat match goal with |- (if ?b then _ else _) = _ -> _ => destruct b end; intro HH; discriminate HH. }
    destruct (existsb (fun c => negb (is_ws c)) children) eqn:Hc.
    + rewrite <- (Eic eq_refl) in *. clear Eic. destruct ichildren.
      * rewrite existsb_rnodes, Hc.
        rewrite wnodes_reparse by assumption. reflexivity.
      * rewrite existsb_rnodes, Hc.
        rewrite wnodes_reparse by assumption. reflexivity.
    + reflexivity.
  - (* NCall *)
    fold (nows children) in *.
    cbn [node_reasons app] in Hr.
    f_equal.
    remember (keep_block children (rnodes (reparse_node f) (S lvl) (S lvl) true children)) as kb eqn:E.
    destruct kb.
    + symmetry in E. apply keep_block_nil in E. destruct E as [-> _]. reflexivity.
    + rewrite E in *. rewrite wnodes_keep_block by assumption.
      destruct children; [|reflexivity]. discriminate E.
  - (* NIf *)
    fold (nows th) in *. fold (nows el) in *.
    cbn [node_reasons app] in Hr.
    apply app_eq_nil in Hr. destruct Hr as [Hr1 Hr]. apply app_eq_nil in Hr. destruct Hr as [Hr2 Hr3].
    apply app_eq_nil in Ht. destruct Ht as [Ht1 Ht]. apply app_eq_nil in Ht. destruct Ht as [Ht2 Ht3].
    rewrite wnodes_reparse by assumption.
    rewrite (cases_reparse (fun cv => ind lvl (bs "} else if " ++ cv ++ bs " {" ++ nlb))) by assumption.
    do 3 f_equal.
    remember (keep_block el (rnodes (reparse_node f) (S lvl) (S lvl) true el)) as kb eqn:E.
    destruct kb.
    + symmetry in E. apply keep_block_nil in E. destruct E as [-> _]. reflexivity.
    + rewrite E in *. rewrite wnodes_keep_block by assumption.
      destruct el; [|reflexivity]. discriminate E.
  - (* NSwitch *)
    cbn [node_reasons app] in Hr.
    rewrite (cases_reparse (fun cv => ind (S lvl) (cv ++ nlb))) by assumption. reflexivity.
  - (* NFor *)
    fold (nows body) in *. cbn [node_reasons app] in Hr.
    rewrite wnodes_reparse by assumption. reflexivity.
  - (* NGoCode *)
    cbn [node_reasons] in Hr. rewrite app_nil_r in Hr. unfold flag_eqb in Hr.
    destruct (Bool.eqb multi (has_nl src)) eqn:E; [|discriminate]. apply Bool.eqb_prop in E. rewrite <- E. reflexivity.
Qed.
End Step.

Lemma write_reparse_node : forall f lvl n, reasons_node f n (reparse_node f lvl n) = [] -> trail_reasons f (reparse_node f lvl n) = [] ->
  write_node f lvl (reparse_node f lvl n) = write_node f lvl n.
Proof. induction f; [reflexivity|]. apply step. exact IHf. Qed.

Lemma write_nodes_top_eq : forall l start lvl, write_nodes_top start lvl l = wnodes (write_node 200) start lvl true l.
Proof. induction l as [|c r IH]; intros; [reflexivity|]. cbn [write_nodes_top wnodes]. rewrite !IH. reflexivity. Qed.
Lemma reparse_top_eq : forall l start lvl, reparse_top start lvl l = rnodes (reparse_node 200) start lvl true l.
Proof. induction l as [|c r IH]; intros; [reflexivity|]. cbn [reparse_top rnodes]. rewrite !IH. reflexivity. Qed.
Lemma trail_reasons_top_eq : forall l, trail_reasons_top l = tlist (trail_reasons 200) true l.
Proof. induction l as [|c r IH]; intros; [reflexivity|]. cbn [trail_reasons_top tlist]. rewrite !IH. reflexivity. Qed.
Lemma fnode_reasons_templ s ch s' ch' : fnode_reasons (FTempl s ch) (FTempl s' ch') = rlists (reasons_node 200) (nows ch) ch'.
Proof. reflexivity. Qed.

Definition fnode_stable (n : fnode) : Prop :=
  fnode_reasons n (reparse_fnode n) = [] /\ fnode_trail_reasons (reparse_fnode n) = [].

Lemma write_reparse_fnode n : fnode_stable n -> write_fnode (reparse_fnode n) = write_fnode n.
Proof.
  destruct n; try reflexivity. intros [Hr Ht]. cbn [reparse_fnode] in *. rewrite fnode_reasons_templ in Hr.
  cbn [fnode_trail_reasons] in Ht. rewrite trail_reasons_top_eq in Ht. rewrite reparse_top_eq in *.
  cbn [write_fnode]. rewrite !write_nodes_top_eq.
  rewrite (wnodes_reparse 200 (write_reparse_node 200)) by assumption. reflexivity.
Qed.

Lemma write_fnodes_reparse : forall l, Forall fnode_stable l -> write_fnodes (map reparse_fnode l) = write_fnodes l.
Proof.
  induction l as [|n r IH]; intros H; [reflexivity|]. inversion H; subst.
  cbn [map write_fnodes]. rewrite write_reparse_fnode by assumption. rewrite IH by assumption.
  f_equal. f_equal. destruct r as [|m r']; [reflexivity|]. cbn [map]. destruct m; cbn [reparse_fnode]; try reflexivity.
  destruct n; reflexivity.
Qed.

Lemma dedup_nil l : dedup l = [] -> l = [].
Proof.
  induction l as [|x r IH]; [reflexivity|]. cbn [dedup]. destruct (existsb (String.eqb x) r) eqn:E; [|discriminate].
  intro H. rewrite (IH H) in E. discriminate.
Qed.
Lemma flat_map_nil {A B} (g : A -> list B) l : flat_map g l = [] -> Forall (fun x => g x = []) l.
Proof. induction l; intro H; constructor; cbn in H; apply app_eq_nil in H; destruct H; auto. Qed.
Lemma names_nil rs : flat_map (fun s : string => bs s ++ [x0a]) rs = [] -> rs = [].
Proof. destruct rs; [reflexivity|]. cbn. intro H. apply app_eq_nil in H. destruct H as [H _]. apply app_eq_nil in H. destruct H as [_ H]. discriminate. Qed.

Lemma unstable_reasons_nil f : unstable_reasons f = [] -> Forall fnode_stable (f_nodes f).
Proof.
  unfold unstable_reasons. intro H. apply names_nil in H. apply app_eq_nil in H. destruct H as [H1 H2].
  apply dedup_nil in H1. apply dedup_nil in H2. apply flat_map_nil in H1. apply flat_map_nil in H2.
  cbn [reparse f_nodes] in *. revert H1 H2. generalize (f_nodes f). induction l as [|n r IH]; intros H1 H2; constructor.
  - cbn [map combine] in *. inversion H1; inversion H2; subst. split; assumption.
  - cbn [map combine] in *. inversion H1; inversion H2; subst. apply IH; assumption.
Qed.

(* C09 (partial): when no named cause applies, the first formatting pass is a fixed point *)
Theorem no_reason_stable : forall f, unstable_reasons f = [] -> fmt_write (reparse f) = fmt_write f.
Proof.
  intros f H. apply unstable_reasons_nil in H. unfold fmt_write. cbn [reparse f_header f_pkg f_nodes].
  rewrite write_fnodes_reparse by assumption. reflexivity.
Qed.

Lemma ndepth_eq n : ndepth n =
  S (match n with
     | NElem _ _ _ ch _ _ => dlist ch
     | NCall _ _ ch => dlist ch
     | NIf _ th elifs el => Nat.max (dlist th) (Nat.max (dcases elifs) (dlist el))
     | NSwitch _ cs => dcases cs
     | NFor _ b => dlist b
     | _ => 0 end).
Proof. destruct n; reflexivity. Qed.
Lemma dlist_in c l : In c l -> ndepth c <= dlist l.
Proof. induction l; intros []; cbn [dlist]; [subst; lia|]. specialize (IHl H). lia. Qed.
Lemma dcases_in cv cb l : In (cv, cb) l -> dlist cb <= dcases l.
Proof. induction l as [|[a b] l IH]; intros []; cbn [dcases]; [inversion H; subst; lia|]. specialize (IH H). lia. Qed.

Lemma wnodes_ext W1 W2 : forall l start lvl indent, (forall c lvl, In c l -> W1 lvl c = W2 lvl c) ->
  wnodes W1 start lvl indent l = wnodes W2 start lvl indent l.
Proof.
  induction l as [|c r IH]; intros; [reflexivity|]. rewrite !wnodes_cons.
  rewrite IH by (intros; apply H; right; assumption). rewrite (IH _ (next_lvl _ _)) by (intros; apply H; right; assumption).
  rewrite H by (left; reflexivity). reflexivity.
Qed.

Lemma write_fuel : forall G1 G2 n lvl, ndepth n <= G1 -> ndepth n <= G2 -> write_node G1 lvl n = write_node G2 lvl n.
Proof.
  induction G1 as [|G1 IH]; intros G2 n lvl H1 H2; [rewrite ndepth_eq in H1; lia|].
  destruct G2 as [|G2]; [rewrite ndepth_eq in H2; lia|].
  rewrite !write_node_S. cbv zeta. rewrite ndepth_eq in H1, H2.
  assert (L : forall l start lvl indent, dlist l <= G1 -> dlist l <= G2 -> wnodes (write_node G1) start lvl indent l = wnodes (write_node G2) start lvl indent l).
  { intros. apply wnodes_ext. intros c lv Hc. apply dlist_in in Hc. apply IH; lia. }
  assert (LC : forall (pre : bytes -> bytes) cs start, dcases cs <= G1 -> dcases cs <= G2 ->
     flat_map (fun '(cv, cb) => pre cv ++ wnodes (write_node G1) start start true cb) cs = flat_map (fun '(cv, cb) => pre cv ++ wnodes (write_node G2) start start true cb) cs).
  { induction cs as [|[cv cb] cs IHc]; intros; [reflexivity|]. cbn [flat_map dcases] in *. rewrite L by lia. rewrite IHc by lia. reflexivity. }
  destruct n; try reflexivity.
  - rewrite (L children (S lvl)), (L children 0) by lia. reflexivity.
  - rewrite L by lia. reflexivity.
  - rewrite (L th), (L el) by lia. rewrite (LC (fun cv => ind lvl (bs "} else if " ++ cv ++ bs " {" ++ nlb))) by lia. reflexivity.
  - rewrite (LC (fun cv => ind (S lvl) (cv ++ nlb))) by lia. reflexivity.
  - rewrite L by lia. reflexivity.
Qed.

(* ---------- a node that prints on one line is printed the same after reparse ---------- *)
Lemma has_nl_app a b : has_nl (a ++ b) = has_nl a || has_nl b.
Proof. apply existsb_app. Qed.
Lemma has_nl_nlb : has_nl nlb = true. Proof. reflexivity. Qed.

Lemma next_lvl_0 t : next_lvl 0 t = 0. Proof. destruct t; reflexivity. Qed.
Definition flat_trail (c : node) : bool := match trail_of c with Some SpNone | Some SpHoriz => true | _ => false end.

(* non-indent list printed without a line break: every child is flat and carries no vertical space *)
Lemma wnodes_flat W : forall l, has_nl (wnodes W 0 0 false l) = false ->
  forall c, In c l -> is_ws c = false -> has_nl (W 0 c) = false /\ flat_trail c = true.
Proof.
  induction l as [|c r IH]; intros H x Hx Hws; [destruct Hx|].
  rewrite wnodes_cons in H. destruct Hx as [->|Hx].
  - rewrite Hws in H. rewrite !has_nl_app in H. apply orb_false_iff in H. destruct H as [H1 H]. apply orb_false_iff in H. destruct H as [H2 _].
    split; [assumption|]. unfold eff_trail in H2. cbn [andb] in H2. unfold flat_trail. destruct (trail_of x) as [[| |]|]; try reflexivity; discriminate.
  - destruct (is_ws c).
    + apply IH; assumption.
    + rewrite !has_nl_app in H. apply orb_false_iff in H. destruct H as [_ H]. apply orb_false_iff in H. destruct H as [_ H].
      replace (next_lvl 0 (eff_trail false c r)) with 0 in H by (destruct (eff_trail false c r); reflexivity).
      apply IH; assumption.
Qed.


Lemma eff_trail_false_set f l c r rest : eff_trail false (set_trailing (reparse_node f l c) (eff_trail false c r)) rest = eff_trail false c r.
Proof. unfold eff_trail. cbn [andb]. rewrite trail_of_set_trailing, trail_of_reparse. destruct (trail_of c); reflexivity. Qed.

Lemma flat_children f G
  (IH : forall c lvl l, ndepth c <= G -> G <= 200 -> has_nl (write_node G lvl c) = false -> write_node G lvl (reparse_node f l c) = write_node G lvl c) :
  forall l, (forall c, In c l -> is_ws c = false -> has_nl (write_node G 0 c) = false /\ flat_trail c = true) -> dlist l <= G -> G <= 200 ->
  wnodes (write_node G) 0 0 false (rnodes (reparse_node f) 0 0 false l) = wnodes (write_node G) 0 0 false l.
Proof.
  induction l as [|c r IHc]; intros Hfl Hd HG; [reflexivity|].
  rewrite rnodes_cons, (wnodes_cons _ _ _ _ c r). cbn [dlist] in Hd. destruct (is_ws c) eqn:Hws.
  - apply IHc; [intros; apply Hfl; [right|]; assumption|lia|assumption].
  - rewrite wnodes_cons, is_ws_set_trailing, is_ws_reparse, Hws. rewrite write_set_trailing, eff_trail_false_set. rewrite !next_lvl_0.
    destruct (Hfl c (or_introl eq_refl) Hws) as [Hc1 _].
    rewrite IH by (assumption || lia). rewrite IHc; [reflexivity|intros; apply Hfl; [right|]; assumption|lia|assumption].
Qed.

Ltac nlc H := exfalso; unfold ind in H; repeat rewrite has_nl_app in H; rewrite has_nl_nlb in H; cbn [orb] in H; repeat rewrite orb_true_r in H; discriminate H.

Lemma flat_reparse_write : forall f G c lvl l, ndepth c <= G -> G <= 200 -> has_nl (write_node G lvl c) = false ->
  write_node G lvl (reparse_node f l c) = write_node G lvl c.
Proof.
  induction f as [|f IH]; intros G c lvl l Hd HG Hf; [reflexivity|].
  destruct G as [|G]; [rewrite ndepth_eq in Hd; lia|].
  rewrite reparse_node_S. cbv zeta. rewrite ndepth_eq in Hd. rewrite write_node_S in Hf. cbv zeta in Hf.
  destruct c; try reflexivity.
  - (* NElem *)
    rewrite !has_nl_app in Hf. apply orb_false_iff in Hf. destruct Hf as [_ Hf]. apply orb_false_iff in Hf. destruct Hf as [Hpa Hf].
    apply orb_false_iff in Hf. destruct Hf as [Hia Hf].
    destruct iattrs; [discriminate Hia|]. rewrite Hpa.
    rewrite !write_node_S. cbv zeta.
    destruct (existsb (fun c => negb (is_ws c)) children) eqn:Hc; [|reflexivity].
    destruct ichildren.
    { exfalso. unfold ind in Hf. rewrite !has_nl_app in Hf. cbn in Hf. discriminate Hf. }
    rewrite existsb_rnodes, Hc.
    rewrite !has_nl_app in Hf. apply orb_false_iff in Hf. destruct Hf as [_ Hf]. apply orb_false_iff in Hf. destruct Hf as [Hch _].
    pose proof (wnodes_flat _ _ Hch) as Hfl.
    assert (E1 : has_nl (flat_map (fun c => write_node 200 0 c) children) = false).
    { clear -Hfl Hd HG. induction children as [|c r IHc]; [reflexivity|]. cbn [flat_map]. rewrite has_nl_app.
      cbn [dlist] in Hd. rewrite IHc; [|lia|intros; apply Hfl; [right|]; assumption]. rewrite orb_false_r.
      destruct (is_ws c) eqn:Hws; [destruct c; try discriminate; reflexivity|].
      rewrite (write_fuel 200 G) by lia. apply Hfl; [left; reflexivity|assumption]. }
    assert (E2 : existsb (fun c => negb (is_ws c) && match trail_of c with None => true | Some SpVert => true | _ => false end) children = false).
    { clear -Hfl. induction children as [|c r IHc]; [reflexivity|]. cbn [existsb]. rewrite IHc by (intros; apply Hfl; [right|]; assumption).
      rewrite orb_false_r. destruct (is_ws c) eqn:Hws; [reflexivity|]. destruct (Hfl c (or_introl eq_refl) Hws) as [_ Ht].
      unfold flat_trail in Ht. cbn [negb andb]. destruct (trail_of c) as [[| |]|]; try reflexivity; discriminate. }
    rewrite E1, E2. cbn [orb].
    rewrite (flat_children f G); [reflexivity|intros; apply IH; assumption|assumption|lia|lia].
  - (* NCall *)
    destruct children; [reflexivity|]. nlc Hf.
  - nlc Hf.
  - nlc Hf.
  - nlc Hf.
  - (* NGoCode *)
    destruct multi; [nlc Hf|]. destruct (has_nl src) eqn:E; [|reflexivity].
    exfalso. unfold ind in Hf. repeat rewrite has_nl_app in Hf. rewrite E in Hf. cbn [orb] in Hf. repeat rewrite orb_true_r in Hf. discriminate Hf.
Qed.

(* ---------- after one pass no named cause applies ---------- *)
Lemma reasons_set_trailing_l f x y t : reasons_node f (set_trailing x t) y = reasons_node f x y.
Proof. destruct f; [reflexivity|]. destruct x, y; reflexivity. Qed.
Lemma reparse_set_trailing f l y t : reparse_node f l (set_trailing y t) = set_trailing (reparse_node f l y) t.
Proof. destruct f; [reflexivity|]. destruct y; reflexivity. Qed.
Lemma is_block_set_trailing n t : is_block_node (set_trailing n t) = is_block_node n.
Proof. destruct n; reflexivity. Qed.

Definition settled (f : nat) (y : node) : Prop :=
  forall l, reasons_node f y (reparse_node f l y) = [] /\ trail_reasons f (reparse_node f l y) = [].

Lemma settled_set_trailing f y t : settled f y -> settled f (set_trailing y t).
Proof.
  intros H l. destruct (H l) as [H1 H2]. rewrite reparse_set_trailing, reasons_set_trailing, reasons_set_trailing_l, trail_reasons_set_trailing. split; assumption.
Qed.

Lemma stable_is_block f l y : reasons_node f y (reparse_node f l y) = [] -> is_block_node (reparse_node f l y) = is_block_node y.
Proof.
  destruct f; [reflexivity|]. rewrite reasons_node_S, reparse_node_S. cbv zeta. destruct y; try reflexivity.
  intro H. apply app_eq_nil in H. destruct H as [H _]. cbn [node_reasons] in H. apply app_eq_nil in H. destruct H as [_ H].
  cbn [is_block_node]. f_equal. unfold flag_eqb in H.
  match type of H with (if Bool.eqb ?a ?b then _ else _) = _ => destruct (Bool.eqb a b) eqn:E end.
  - apply Bool.eqb_prop in E. symmetry. exact E.
  - exfalso. revert H. repeat match goal with |- (if ?b then _ else _) = _ -> _ => destruct b end; intro HH; discriminate HH.
Qed.

Definition wsfree (l : list node) : Prop := forall c, In c l -> is_ws c = false.
Lemma nows_wsfree l : wsfree l -> nows l = l.
Proof. induction l as [|c r IH]; intro H; [reflexivity|]. rewrite nows_cons, (H c (or_introl eq_refl)), IH; [reflexivity|]. intros x Hx. apply H. right. exact Hx. Qed.
Lemma rnodes_wsfree f : forall l start lvl indent, wsfree (rnodes (reparse_node f) start lvl indent l).
Proof.
  induction l as [|c r IH]; intros start lvl indent x Hx; [destruct Hx|]. rewrite rnodes_cons in Hx. destruct (is_ws c) eqn:E; [eapply IH; exact Hx|].
  destruct Hx as [<-|Hx]; [rewrite is_ws_set_trailing, is_ws_reparse; exact E|eapply IH; exact Hx].
Qed.

(* a white-space-free list of settled nodes: reparsing it again names no cause *)
Lemma settled_list f : forall l, wsfree l -> (forall y, In y l -> settled f y) -> forall start lvl indent,
  rlists (reasons_node f) l (rnodes (reparse_node f) start lvl indent l) = [] /\
  tlist (trail_reasons f) indent (rnodes (reparse_node f) start lvl indent l) = [].
Proof.
  induction l as [|c r IH]; intros Hws Hs start lvl indent; [split; reflexivity|].
  rewrite rnodes_cons. rewrite (Hws c (or_introl eq_refl)).
  assert (Hws' : wsfree r) by (intros x Hx; apply Hws; right; exact Hx).
  assert (Hs' : forall y, In y r -> settled f y) by (intros x Hx; apply Hs; right; exact Hx).
  destruct (IH Hws' Hs' start (next_lvl start (eff_trail indent c r)) indent) as [I1 I2].
  destruct (Hs c (or_introl eq_refl) lvl) as [C1 C2].
  cbn [rlists tlist]. rewrite is_ws_set_trailing, is_ws_reparse, (Hws c (or_introl eq_refl)).
  rewrite reasons_set_trailing, trail_reasons_set_trailing, C1, C2, I1, I2. split; [reflexivity|].
  cbn [app]. rewrite app_nil_r.
  replace (overridden indent _ _) with false; [reflexivity|]. symmetry.
  unfold overridden. rewrite trail_of_set_trailing, trail_of_reparse, always_break_set_trailing, always_break_reparse.
  (* the override condition on the reparsed list is the one that computed the stored mark *)
  assert (E : (match rnodes (reparse_node f) start (next_lvl start (eff_trail indent c r)) indent r with x :: _ => is_block_node x | [] => false end
               || match rnodes (reparse_node f) start (next_lvl start (eff_trail indent c r)) indent r with [] => true | _ => false end)
              = (match r with x :: _ => is_block_node x | [] => false end || match r with [] => true | _ => false end)).
  { destruct r as [|c2 r2]; [reflexivity|]. rewrite rnodes_cons, (Hws' c2 (or_introl eq_refl)).
    rewrite is_block_set_trailing. destruct (Hs' c2 (or_introl eq_refl) (next_lvl start (eff_trail indent c (c2 :: r2)))) as [D1 _].
    rewrite (stable_is_block _ _ _ D1). reflexivity. }
  rewrite E. unfold eff_trail.
  destruct indent; [|reflexivity]. cbn [andb].
  destruct (_ || _ || always_break c); [|reflexivity]. cbn [andb]. destruct (trail_of c); reflexivity.
Qed.

Lemma attrs_flag_settled (attrs : list attr) ia lvl lvl2 :
  let PA := fun (ia : bool) (lvl : nat) => flat_map (fun a => if ia then nlb ++ write_attr 50 (S lvl) a else [x20] ++ write_attr 50 0 a) attrs in
  has_nl (PA (has_nl (PA ia lvl)) lvl2) = has_nl (PA ia lvl).
Proof.
  cbv zeta. destruct attrs as [|a r]; [reflexivity|]. destruct ia.
  - reflexivity.
  - remember (has_nl (flat_map (fun a0 : attr => [x20] ++ write_attr 50 0 a0) (a :: r))) as b eqn:E.
    destruct b; [reflexivity|]. symmetry in E. exact E.
Qed.

Lemma keep_block_ne ch ch' : ch' <> [] -> keep_block ch ch' = ch'.
Proof. destruct ch'; [contradiction|reflexivity]. Qed.

Section SStep.
Variable f : nat.
Hypothesis IH : forall n lvl, ndepth n <= 200 -> settled f (reparse_node f lvl n).

Lemma rnodes_settled : forall l start lvl indent, dlist l <= 200 -> forall y, In y (rnodes (reparse_node f) start lvl indent l) -> settled f y.
Proof.
  induction l as [|c r IHl]; intros start lvl indent Hd y Hy; [destruct Hy|]. cbn [dlist] in Hd.
  rewrite rnodes_cons in Hy. destruct (is_ws c); [eapply IHl; [lia|exact Hy]|].
  destruct Hy as [<-|Hy]; [apply settled_set_trailing, IH; lia|eapply IHl; [lia|exact Hy]].
Qed.

Lemma rr_settled : forall l start lvl indent start2 lvl2 indent2, dlist l <= 200 ->
  rlists (reasons_node f) (nows (rnodes (reparse_node f) start lvl indent l))
         (rnodes (reparse_node f) start2 lvl2 indent2 (rnodes (reparse_node f) start lvl indent l)) = [] /\
  tlist (trail_reasons f) indent2 (rnodes (reparse_node f) start2 lvl2 indent2 (rnodes (reparse_node f) start lvl indent l)) = [].
Proof.
  intros. rewrite nows_wsfree by apply rnodes_wsfree.
  apply settled_list; [apply rnodes_wsfree|apply rnodes_settled; assumption].
Qed.

Lemma kb_settled : forall l start start2, dlist l <= 200 ->
  let l' := keep_block l (rnodes (reparse_node f) start start true l) in
  rlists (reasons_node f) (nows l') (keep_block l' (rnodes (reparse_node f) start2 start2 true l')) = [] /\
  tlist (trail_reasons f) true (keep_block l' (rnodes (reparse_node f) start2 start2 true l')) = [].
Proof.
  intros l start start2 Hd. cbv zeta.
  pose proof (rnodes_wsfree f l start start true) as W.
  pose proof (rr_settled l start start true start2 start2 true Hd) as RR.
  set (l1 := rnodes (reparse_node f) start start true l) in *.
  assert (H : l1 = [] \/ l1 <> []) by (destruct l1; [left|right]; congruence).
  destruct H as [H|H].
  - rewrite H. destruct l; split; reflexivity.
  - rewrite (keep_block_ne l l1 H).
    assert (N : rnodes (reparse_node f) start2 start2 true l1 <> []).
    { destruct l1 as [|c r]; [congruence|]. rewrite rnodes_cons, (W c (or_introl eq_refl)). discriminate. }
    rewrite (keep_block_ne l1 _ N). exact RR.
Qed.

Lemma cases_settled : forall cs start start2, dcases cs <= 200 ->
  let cs' := map (fun '(cv, cb) => (cv, rnodes (reparse_node f) start start true cb)) cs in
  rcases (reasons_node f) cs' (map (fun '(cv, cb) => (cv, rnodes (reparse_node f) start2 start2 true cb)) cs') = [] /\
  flat_map (fun '(_, cb) => tlist (trail_reasons f) true cb) (map (fun '(cv, cb) => (cv, rnodes (reparse_node f) start2 start2 true cb)) cs') = [].
Proof.
  induction cs as [|[cv cb] cs IHc]; intros start start2 Hd; [split; reflexivity|]. cbn [dcases] in Hd. cbv zeta in *.
  cbn [map rcases flat_map]. fold (nows (rnodes (reparse_node f) start start true cb)).
  destruct (rr_settled cb start start true start2 start2 true ltac:(lia)) as [A1 A2].
  destruct (IHc start start2 ltac:(lia)) as [B1 B2]. rewrite A1, A2, B1, B2. split; reflexivity.
Qed.

Lemma flat_children_G : forall G, G = 200 -> forall ch, dlist ch <= 199 ->
  has_nl (flat_map (fun c => write_node G 0 c) ch) = false ->
  existsb (fun c => negb (is_ws c) && match trail_of c with None => true | Some SpVert => true | _ => false end) ch = false ->
  has_nl (flat_map (fun c => write_node G 0 c) (rnodes (reparse_node f) 0 0 false ch)) = false /\
  existsb (fun c => negb (is_ws c) && match trail_of c with None => true | Some SpVert => true | _ => false end) (rnodes (reparse_node f) 0 0 false ch) = false.
Proof.
  intros G HG.
  induction ch as [|c r IHc]; intros Hd H1 H2; [split; reflexivity|].
  cbn [dlist flat_map existsb] in Hd, H1, H2. rewrite has_nl_app in H1. apply orb_false_iff in H1. destruct H1 as [H1 H1']. apply orb_false_iff in H2. destruct H2 as [H2 H2'].
  rewrite rnodes_cons. rewrite next_lvl_0. destruct (is_ws c) eqn:Hws; [apply IHc; [lia|exact H1'|exact H2']|].
  destruct (IHc ltac:(lia) H1' H2') as [I1 I2].
  cbn [flat_map existsb]. rewrite has_nl_app, I1, I2, write_set_trailing, is_ws_set_trailing, is_ws_reparse, Hws.
  rewrite (flat_reparse_write f G c 0 0 ltac:(lia) ltac:(lia) H1). rewrite H1.
  rewrite trail_of_set_trailing, trail_of_reparse. unfold eff_trail. cbn [andb negb] in H2 |- *.
  split; [reflexivity|]. revert H2. destruct (trail_of c) as [[| |]|]; intro H2; try reflexivity; discriminate H2.
Qed.
Definition flat_children_200 := flat_children_G 200 eq_refl.

Lemma sstep : forall n lvl, ndepth n <= 200 -> settled (S f) (reparse_node (S f) lvl n).
Proof.
  intros n lvl Hd l. rewrite ndepth_eq in Hd. rewrite reasons_node_S, trail_reasons_S. rewrite (reparse_node_S f lvl n). cbv zeta.
  destruct n.
  1-3,5-9,11,16: (split; reflexivity).
  - (* NElem *)
    rewrite reparse_node_S. cbv zeta.
    set (hc := existsb (fun c => negb (is_ws c)) children) in *.
    set (ia1 := has_nl (flat_map (fun a => if iattrs then nlb ++ write_attr 50 (S lvl) a else [x20] ++ write_attr 50 0 a) attrs)).
    set (ic1 := if hc then (if ichildren then true else has_nl (flat_map (fun c => write_node 200 0 c) children) || existsb (fun c => negb (is_ws c) && match trail_of c with None => true | Some SpVert => true | _ => false end) children) else false).
    set (ch1 := if hc then (if ichildren then rnodes (reparse_node f) (S lvl) (S lvl) true children else rnodes (reparse_node f) 0 0 false children) else []).
    assert (Hhc : existsb (fun c => negb (is_ws c)) ch1 = hc).
    { unfold ch1. destruct hc eqn:E; [|reflexivity]. destruct ichildren; rewrite existsb_rnodes; exact E. }
    rewrite Hhc.
    assert (Eia : has_nl (flat_map (fun a => if ia1 then nlb ++ write_attr 50 (S l) a else [x20] ++ write_attr 50 0 a) attrs) = ia1).
    { unfold ia1. apply (attrs_flag_settled attrs iattrs lvl l). }
    rewrite Eia.
    assert (Eic : (if hc then (if ic1 then true else has_nl (flat_map (fun c => write_node 200 0 c) ch1) || existsb (fun c => negb (is_ws c) && match trail_of c with None => true | Some SpVert => true | _ => false end) ch1) else false) = ic1).
    { unfold ic1, ch1. destruct hc; [|reflexivity]. destruct ichildren; [reflexivity|].
      destruct (has_nl (flat_map (fun c => write_node 200 0 c) children)) eqn:A; [reflexivity|].
      destruct (existsb _ children) eqn:B; [reflexivity|]. cbn [orb].
      destruct (flat_children_200 children ltac:(lia) A B) as [A' B']. rewrite A', B'. reflexivity. }
    rewrite Eic.
    cbn [node_reasons]. unfold flag_eqb. rewrite !Bool.eqb_reflx. cbn [app].
    fold (nows ch1).
    unfold ch1. destruct hc; [|split; reflexivity].
    destruct ichildren.
    + unfold ic1. apply rr_settled. lia.
    + destruct ic1; apply rr_settled; lia.
  - (* NCall *)
    rewrite reparse_node_S. cbv zeta. cbn [node_reasons app]. fold (nows (keep_block children (rnodes (reparse_node f) (S lvl) (S lvl) true children))).
    apply kb_settled. lia.
  - (* NIf *)
    rewrite reparse_node_S. cbv zeta. cbn [node_reasons app].
    fold (nows (keep_block el (rnodes (reparse_node f) (S lvl) (S lvl) true el))). fold (nows (rnodes (reparse_node f) (S lvl) (S lvl) true th)).
    destruct (rr_settled th (S lvl) (S lvl) true (S l) (S l) true ltac:(lia)) as [A1 A2].
    destruct (cases_settled elifs (S lvl) (S l) ltac:(lia)) as [B1 B2].
    destruct (kb_settled el (S lvl) (S l) ltac:(lia)) as [C1 C2].
    rewrite A1, A2, B1, B2, C1, C2. split; reflexivity.
  - (* NSwitch *)
    rewrite reparse_node_S. cbv zeta. cbn [node_reasons app]. apply cases_settled. lia.
  - (* NFor *)
    rewrite reparse_node_S. cbv zeta. cbn [node_reasons app]. fold (nows (rnodes (reparse_node f) (S lvl) (S lvl) true body)).
    apply rr_settled. lia.
  - (* NGoCode *)
    rewrite reparse_node_S. cbn [node_reasons]. unfold flag_eqb. rewrite Bool.eqb_reflx. split; reflexivity.
Qed.
End SStep.

Lemma reparse_settled : forall f n lvl, ndepth n <= 200 -> settled f (reparse_node f lvl n).
Proof. induction f; [intros n lvl _ l; split; reflexivity|]. apply sstep. exact IHf. Qed.

Lemma reparse_fnode_stable n : shallow_fnode n = true -> fnode_stable (reparse_fnode n).
Proof.
  destruct n; try (intros _; split; reflexivity). intro H. cbn [shallow_fnode] in H. apply Nat.leb_le in H.
  unfold fnode_stable. cbn [reparse_fnode fnode_trail_reasons]. rewrite fnode_reasons_templ, trail_reasons_top_eq, !reparse_top_eq.
  apply (rr_settled 200 (reparse_settled 200)). exact H.
Qed.

Lemma dedup_flat_nil {A} (g : A -> list string) l : Forall (fun x => g x = []) l -> dedup (flat_map g l) = [].
Proof. intro H. replace (flat_map g l) with (@nil string); [reflexivity|]. induction H; [reflexivity|]. cbn [flat_map]. rewrite H, <- IHForall. reflexivity. Qed.

Lemma unstable_reasons_intro f : Forall fnode_stable (f_nodes f) -> unstable_reasons f = [].
Proof.
  intro H. unfold unstable_reasons. cbn [reparse f_nodes].
  rewrite (dedup_flat_nil (fun p => fnode_reasons (fst p) (snd p))), (dedup_flat_nil fnode_trail_reasons); [reflexivity| |].
  - apply Forall_map. eapply Forall_impl; [|exact H]. intros a [_ Ha]. exact Ha.
  - induction H; [constructor|]. cbn [map combine]. constructor; [apply H|exact IHForall].
Qed.

Theorem reparse_no_reason : forall f, shallow f = true -> unstable_reasons (reparse f) = [].
Proof.
  intros f H. apply unstable_reasons_intro. cbn [reparse f_nodes]. apply Forall_map.
  unfold shallow in H. rewrite forallb_forall in H. apply Forall_forall. intros n Hn. apply reparse_fnode_stable, H, Hn.
Qed.

Theorem two_pass_convergence : forall f, shallow f = true -> fmt_write (reparse (reparse f)) = fmt_write (reparse f).
Proof. intros f H. apply no_reason_stable, reparse_no_reason, H. Qed.
