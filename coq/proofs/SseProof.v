(* Proofs about the SSE broadcast transition system (model/Sse.v). *)
From Coq Require Import List Arith Bool Lia.
Import ListNotations.
From V Require Import model.Sse.

(* ---------- list helpers ---------- *)
Lemma pair_eqb_eq p q : pair_eqb p q = true <-> p = q.
Proof.
  destruct p as [a b], q as [c d]. unfold pair_eqb. cbn. rewrite andb_true_iff, !Nat.eqb_eq.
  split; [intros [-> ->]; reflexivity | intros H; inversion H; auto].
Qed.
Lemma pair_eqb_refl p : pair_eqb p p = true.
Proof. apply pair_eqb_eq. reflexivity. Qed.
Lemma mem_pair_In p l : mem_pair p l = true <-> In p l.
Proof.
  unfold mem_pair. rewrite existsb_exists. split.
  - intros [x [Hx E]]. apply pair_eqb_eq in E. subst. exact Hx.
  - intros H. exists p. split; [exact H | apply pair_eqb_refl].
Qed.
Lemma mem_nat_In n l : mem_nat n l = true <-> In n l.
Proof.
  unfold mem_nat. rewrite existsb_exists. split.
  - intros [x [Hx E]]. apply Nat.eqb_eq in E. subst. exact Hx.
  - intros H. exists n. split; [exact H | apply Nat.eqb_refl].
Qed.
Lemma In_remove_one p q l : In p (remove_one q l) -> In p l.
Proof.
  induction l as [|x r IH]; cbn; [tauto|]. destruct (pair_eqb q x); cbn; [auto|]. intros [H|H]; auto.
Qed.
Lemma In_remove_one_neq p q l : In p l -> p <> q -> In p (remove_one q l).
Proof.
  induction l as [|x r IH]; cbn; [tauto|]. intros [H|H] N.
  - subst x. destruct (pair_eqb q p) eqn:E; [apply pair_eqb_eq in E; congruence | left; reflexivity].
  - destruct (pair_eqb q x); [exact H | right; auto].
Qed.
Lemma length_remove_one p l : In p l -> S (length (remove_one p l)) = length l.
Proof.
  induction l as [|x r IH]; cbn; [tauto|]. intros H. destruct (pair_eqb p x) eqn:E; [reflexivity|].
  cbn. f_equal. apply IH. destruct H as [H|H]; [|exact H]. subst. rewrite pair_eqb_refl in E. discriminate.
Qed.
Lemma In_remove_nat x n l : In x (remove_nat n l) <-> In x l /\ x <> n.
Proof.
  unfold remove_nat. rewrite filter_In, negb_true_iff, Nat.eqb_neq. tauto.
Qed.
Lemma upd_same f c v : upd f c v c = v.
Proof. unfold upd. rewrite Nat.eqb_refl. reflexivity. Qed.
Lemma upd_other f c v k : k <> c -> upd f c v k = f k.
Proof. unfold upd. intros H. apply Nat.eqb_neq in H. rewrite H. reflexivity. Qed.

(* ---------- step inversion ---------- *)
Ltac inv_step H :=
  unfold step in H; cbv zeta in H;
  repeat (cbv beta iota in H;
    match type of H with
    | (if ?b then _ else _) = Some _ => let E := fresh "E" in destruct b eqn:E; try discriminate H
    | match ?x with _ => _ end = Some _ => let E := fresh "E" in destruct x eqn:E; try discriminate H
    end);
  cbv beta iota in H; inversion H; subst; clear H.

(* case split on  upd f c v k *)
Ltac upd_cases k c :=
  let E := fresh "E" in
  destruct (Nat.eq_dec k c) as [E|E];
  [subst; rewrite ?upd_same in * | rewrite ?(upd_other _ _ _ _ E) in *].

Lemma exec_invariant (old : bool) (P : state -> Prop) :
  (forall s a s', P s -> step old s a = Some s' -> P s') ->
  forall tr s0 s, P s0 -> exec old s0 tr = Some s -> P s.
Proof.
  intros HS. induction tr as [|a r IH]; intros s0 s H0 H; cbn in H.
  - inversion H; subst. exact H0.
  - destruct (step old s0 a) as [s1|] eqn:S1; [|discriminate]. exact (IH s1 s (HS _ _ _ H0 S1) H).
Qed.

Lemma exec_app (old : bool) tr1 : forall tr2 s s1 s2,
  exec old s tr1 = Some s1 -> exec old s1 tr2 = Some s2 -> exec old s (tr1 ++ tr2) = Some s2.
Proof.
  induction tr1 as [|a r IH]; intros tr2 s s1 s2 H1 H2; cbn in *.
  - inversion H1; subst. exact H2.
  - destruct (step old s a) as [s'|]; [|discriminate]. eapply IH; eauto.
Qed.

Lemma reachable_step (old : bool) s a s' : reachable old s -> step old s a = Some s' -> reachable old s'.
Proof.
  intros [tr H] S. exists (tr ++ [a]). eapply exec_app; [exact H|]. cbn. rewrite S. reflexivity.
Qed.

Lemma reachable_exec (old : bool) s tr s' : reachable old s -> exec old s tr = Some s' -> reachable old s'.
Proof.
  intros [tr0 H] S. exists (tr0 ++ tr). eapply exec_app; eauto.
Qed.

(* ================= 1. no panic (the code as it is) ================= *)
(* no events channel is ever closed; a done channel is closed exactly when its client has left *)
Definition cl_ok (x : client) : Prop :=
  ev_closed x = false /\ (done_closed x = true <-> cpc x = PGone).
Definition safe_inv (s : state) : Prop := panicked s = false /\ forall c, cl_ok (cl s c).

Lemma cl_ok_upd f c v : (forall k, cl_ok (f k)) -> cl_ok v -> forall k, cl_ok (upd f c v k).
Proof. intros F V k. unfold upd. destruct (k =? c); auto. Qed.

Lemma safe_init : safe_inv init.
Proof. split; [reflexivity|]. intros c. split; cbn; [reflexivity | split; discriminate]. Qed.

Lemma safe_step s a s' : safe_inv s -> step false s a = Some s' -> safe_inv s'.
Proof.
  intros (P & OK) H. inv_step H; unfold safe_inv; cbn; try (split; [first [reflexivity|assumption] | exact OK]).
  all: try (split; [first [reflexivity|assumption]|]; apply cl_ok_upd; [exact OK|]).
  all: try (pose proof (OK c) as [EV DN]; split; cbn; [try assumption; reflexivity|]).
  all: try (split; [intros D; apply DN in D; congruence | discriminate]).
  - split; cbn; [reflexivity | split; discriminate].
  - destruct (OK c) as [EV _]. congruence.
  - split; [reflexivity | intros _; apply DN; assumption].
  - destruct (OK c) as [_ DN]. apply DN in E3. congruence.
  - split; reflexivity.
Qed.

Theorem no_panic tr s : exec false init tr = Some s -> panicked s = false.
Proof.
  intros H. assert (safe_inv s) as [P _]; [|exact P].
  eapply exec_invariant; [exact safe_step | exact safe_init | exact H].
Qed.

(* the variant before the fix: subscribe; the client is busy writing its first ping while a Send
   runs; the browser goes away; the client leaves and closes its events channel; the pending
   delivery goroutine sends on the closed channel *)
Definition old_trace : list action :=
  [Subscribe; Tick 1; SendCall; SendLock 1; SendSpawn; SendUnlock; Cancel 1; WriteOK 1; SeeDone 1; Exit 1; Deliver 1 1].
Lemma old_variant_panics : exists s, exec true init old_trace = Some s /\ panicked s = true.
Proof. eexists. split; [vm_compute; reflexivity | reflexivity]. Qed.
(* the same schedule is harmless now: the delivery ends through the done case *)
Lemma old_trace_now_blocked : exec false init old_trace = None.
Proof. vm_compute. reflexivity. Qed.
Lemma fixed_trace_ok : exists s,
  exec false init [Subscribe; Tick 1; SendCall; SendLock 1; SendSpawn; SendUnlock; Cancel 1; WriteOK 1; SeeDone 1; Exit 1; Drop 1 1] = Some s
  /\ panicked s = false /\ pending s = [].
Proof. eexists. split; [vm_compute; reflexivity | split; reflexivity]. Qed.

(* ================= 2. registry = connected clients ================= *)
Definition reg_inv (s : state) : Prop :=
  (forall c, In c (registered s) <-> connected s c) /\ (forall c, next_id s <= c -> cpc (cl s c) = PNone).

Lemma reg_init : reg_inv init.
Proof. split; cbn; [|reflexivity]. intros c. unfold connected. cbn. intuition discriminate. Qed.

Lemma reg_step old s a s' : reg_inv s -> step old s a = Some s' -> reg_inv s'.
Proof.
  intros (R & F) H. inv_step H; unfold reg_inv, connected in *; cbn; try (split; assumption).
  all: try (split; intros k; [pose proof (R k) as Rk | pose proof (F k) as Fk]; unfold upd;
            destruct (Nat.eqb_spec k c) as [->|NE]; cbn; try assumption;
            try (intros L; apply Fk in L; congruence);
            try (match goal with E : cpc (cl _ _) = _ |- _ => rewrite E in Rk end; intuition congruence)).
  - split; intros k; unfold upd; destruct (Nat.eqb_spec k (next_id s)) as [->|NE]; cbn.
    + intuition.
    + rewrite <- R. intuition congruence.
    + lia.
    + intros L. apply F. lia.
  - rewrite In_remove_nat. intuition congruence.
  - rewrite In_remove_nat. rewrite R. intuition.
Qed.

(* ================= 3. the Send call holding the mutex ================= *)
(* the entries its range loop has still to visit are a suffix of the registry *)
Definition holder_inv (s : state) : Prop :=
  forall e todo, holder s = Some (e, todo) -> exists pre, registered s = pre ++ todo.

Lemma holder_init : holder_inv init.
Proof. intros e todo H. discriminate. Qed.

Lemma holder_step old s a s' : holder_inv s -> step old s a = Some s' -> holder_inv s'.
Proof.
  intros I H. inv_step H; unfold holder_inv in *; cbn; try assumption; try discriminate.
  - intros e0 todo X. inversion X; subst. exists []. reflexivity.
  - intros e0 todo X. inversion X; subst.
    match goal with E : holder s = Some _ |- _ => destruct (I _ _ E) as [pre P] end.
    exists (pre ++ [n0]). rewrite P, <- app_assoc. reflexivity.
Qed.

(* ================= 4. everything in flight belongs to a logged Send ================= *)
Definition logged (s : state) (c e : nat) : Prop := exists snap, In (e, snap) (log s) /\ In c snap.
Definition log_inv (s : state) : Prop :=
  (forall c e, In (c, e) (pending s) -> logged s c e) /\
  (forall e todo, holder s = Some (e, todo) -> exists snap, In (e, snap) (log s) /\ forall c, In c todo -> In c snap) /\
  (forall c e, In e (got (cl s c)) -> logged s c e) /\
  (forall e snap c, In (e, snap) (log s) -> In c snap -> cpc (cl s c) <> PNone).

Lemma log_init : log_inv init.
Proof. repeat split; cbn; intros; try tauto; discriminate. Qed.

Lemma log_step old s a s' : reg_inv s -> log_inv s -> step old s a = Some s' -> log_inv s'.
Proof.
  intros (R & F) (LP & LH & LG & LK) H. inv_step H; unfold log_inv, logged in *; cbn.
  all: (split; [|split; [|split]]); try assumption; try (intros; discriminate).
  all: try (intros c0 e0 X; apply In_remove_one in X; auto; fail).
  all: try (intros e0 snap c0 A B; pose proof (LK e0 snap c0 A B) as K; unfold upd;
            destruct (Nat.eqb_spec c0 c) as [->|NE]; cbn; [congruence | exact K]).
  all: try (intros c0 e0; unfold upd; destruct (Nat.eqb_spec c0 c) as [->|NE]; cbn; [|apply LG]; apply LG).
  - (* Subscribe: got *) intros c0 e0. unfold upd. destruct (Nat.eqb_spec c0 (next_id s)) as [->|NE]; cbn; [tauto | apply LG].
  - (* Subscribe: known *) intros e0 snap c0 A B. pose proof (LK e0 snap c0 A B) as K. unfold upd.
    destruct (Nat.eqb_spec c0 (next_id s)) as [->|NE]; cbn; [discriminate | exact K].
  - (* SendLock: pending *) intros c0 e0 X. destruct (LP _ _ X) as [snap [A B]]. exists snap. split; [apply in_or_app; left|]; assumption.
  - (* SendLock: holder *) intros e0 todo X. inversion X; subst. exists (registered s). split; [apply in_or_app; right; left; reflexivity | auto].
  - (* SendLock: got *) intros c0 e0 X. destruct (LG _ _ X) as [snap [A B]]. exists snap. split; [apply in_or_app; left|]; assumption.
  - (* SendLock: known *) intros e0 snap c0 A B. apply in_app_or in A. destruct A as [A|[A|[]]]; [exact (LK _ _ _ A B)|].
    inversion A; subst. apply R in B. unfold connected in B. intuition congruence.
  - (* SendSpawn: pending *) intros c0 e0 X. apply in_app_or in X. destruct X as [X|[X|[]]]; [exact (LP _ _ X)|].
    inversion X; subst. destruct (LH _ _ eq_refl) as [snap [A B]]. exists snap. split; [exact A | apply B; left; reflexivity].
  - (* SendSpawn: holder *) intros e0 todo X. inversion X; subst. destruct (LH _ _ eq_refl) as [snap [A B]].
    exists snap. split; [exact A | intros c0 C; apply B; right; exact C].
  - (* Deliver: got *) intros c0 e0. unfold upd. destruct (Nat.eqb_spec c0 c) as [->|NE]; cbn; [|apply LG].
    intros X. apply in_app_or in X. destruct X as [X|[X|[]]]; [exact (LG _ _ X)|]. subst e0.
    apply LP. apply mem_pair_In. assumption.
  - (* Exit: holder *) intros e0 todo X. congruence.
Qed.

(* ================= 5. nothing is dropped for a live client ================= *)
Definition in_todo (s : state) (c e : nat) : Prop := exists todo, holder s = Some (e, todo) /\ In c todo.
Definition reach_inv (s : state) : Prop :=
  forall e snap c, In (e, snap) (log s) -> In c snap ->
    delivered s c e \/ In (c, e) (pending s) \/ in_todo s c e \/ gone s c.

Lemma reach_init : reach_inv init.
Proof. intros e snap c []. Qed.

Lemma reach_step s a s' : safe_inv s -> reg_inv s -> log_inv s -> reach_inv s -> step false s a = Some s' -> reach_inv s'.
Proof.
  intros (_ & OK) (R & F) (LP & LH & LG & LK) I H.
  inv_step H; unfold reach_inv, delivered, in_todo, gone in *; cbn; try assumption.
  all: try (intros e0 snap c0 A B; pose proof (I _ _ _ A B) as D; unfold upd;
            destruct (Nat.eqb_spec c0 c) as [->|NE]; cbn; [|exact D];
            destruct D as [D|[D|[D|D]]];
            [left; exact D | right; left; exact D
            | right; right; left; first [exact D | destruct D as [? [X ?]]; congruence]
            | right; right; right; first [reflexivity | congruence]]; fail).
  - (* Subscribe *) intros e0 snap c0 A B. pose proof (I _ _ _ A B) as D. pose proof (LK _ _ _ A B) as K.
    unfold upd. destruct (Nat.eqb_spec c0 (next_id s)) as [->|NE]; cbn.
    + exfalso. apply K. apply F. lia.
    + destruct D as [D|[D|[[? [X ?]]|D]]]; auto. congruence.
  - (* SendLock *) intros e0 snap c0 A B. apply in_app_or in A. destruct A as [A|[A|[]]].
    + destruct (I _ _ _ A B) as [D|[D|[[? [X ?]]|D]]]; auto. congruence.
    + inversion A; subst. right; right; left. exists (registered s). split; [reflexivity | exact B].
  - (* SendSpawn *) intros e0 snap c0 A B. destruct (I _ _ _ A B) as [D|[D|[[todo [X Y]]|D]]]; auto.
    + right; left. apply in_or_app. left. exact D.
    + try (match goal with E : holder s = Some (_, _ :: _) |- _ => rewrite E in X end). inversion X; subst. destruct Y as [Y|Y].
      * subst. right; left. apply in_or_app. right. left. reflexivity.
      * right; right; left. exists l0. split; [reflexivity | exact Y].
  - (* SendUnlock *) intros e0 snap c0 A B. destruct (I _ _ _ A B) as [D|[D|[[todo [X Y]]|D]]]; auto.
    try (match goal with E : holder s = Some (_, []) |- _ => rewrite E in X end). inversion X; subst. destruct Y.
  - (* Deliver on a closed channel: impossible *) destruct (OK c) as [EV _]. congruence.
  - (* Deliver *) intros e0 snap c0 A B. pose proof (I _ _ _ A B) as D. unfold upd.
    destruct (Nat.eqb_spec c0 c) as [->|NE]; cbn.
    + destruct D as [D|[D|[D|D]]]; [left; apply in_or_app; left; exact D | | right; right; left; exact D | congruence].
      destruct (Nat.eq_dec e0 e) as [->|NE].
      * left. apply in_or_app. right. left. reflexivity.
      * right; left. apply In_remove_one_neq; [exact D | congruence].
    + destruct D as [D|[D|[D|D]]]; auto. right; left. apply In_remove_one_neq; [exact D | congruence].
  - (* Drop *) intros e0 snap c0 A B. destruct (I _ _ _ A B) as [D|[D|[D|D]]]; auto.
    destruct (pair_eqb (c0, e0) (c, e)) eqn:PE.
    + apply pair_eqb_eq in PE. inversion PE; subst. right; right; right.
      match goal with X : _ && _ = true |- _ => apply andb_true_iff in X; destruct X as [_ X] end.
      apply (OK c). assumption.
    + right; left. apply In_remove_one_neq; [exact D|]. intros Q. rewrite Q, pair_eqb_refl in PE. discriminate.
  - (* Exit *) intros e0 snap c0 A B. pose proof (I _ _ _ A B) as D. unfold upd.
    destruct (Nat.eqb_spec c0 c) as [->|NE]; cbn; [right; right; right; reflexivity|].
    destruct D as [D|[D|[[? [X ?]]|D]]]; auto. congruence.
Qed.

(* ================= 6. all invariants together ================= *)
Definition Inv (s : state) : Prop := safe_inv s /\ reg_inv s /\ holder_inv s /\ log_inv s /\ reach_inv s.

Lemma Inv_init : Inv init.
Proof. split; [apply safe_init | split; [apply reg_init | split; [apply holder_init | split; [apply log_init | apply reach_init]]]]. Qed.

Lemma Inv_step s a s' : Inv s -> step false s a = Some s' -> Inv s'.
Proof.
  intros (A & B & C & D & E) H. split; [|split; [|split; [|split]]].
  - eapply safe_step; eauto.
  - eapply reg_step; eauto.
  - eapply holder_step; eauto.
  - eapply log_step; eauto.
  - eapply reach_step; eauto.
Qed.

Lemma Inv_reachable s : reachable false s -> Inv s.
Proof. intros [tr H]. eapply exec_invariant; [exact Inv_step | exact Inv_init | exact H]. Qed.

Definition Inv0 (s : state) : Prop := reg_inv s /\ holder_inv s.
Lemma Inv0_reachable old s : reachable old s -> Inv0 s.
Proof.
  intros [tr H]. eapply exec_invariant; [| split; [exact reg_init | exact holder_init] | exact H].
  intros s0 a s1 [A B] S. split; [eapply reg_step | eapply holder_step]; eauto.
Qed.

Theorem broadcast_reaches_connected s : reachable false s ->
  forall e snap c, In (e, snap) (log s) -> In c snap ->
    delivered s c e \/ In (c, e) (pending s) \/ in_todo s c e \/ gone s c.
Proof. intros R. apply Inv_reachable in R. destruct R as (_ & _ & _ & _ & I). exact I. Qed.

(* the snapshot a Send iterates is the set of connected clients at the moment it takes the mutex *)
Lemma snapshot_is_connected s e s' : reachable false s -> step false s (SendLock e) = Some s' ->
  In (e, registered s) (log s') /\ forall c, In c (registered s) <-> connected s c.
Proof.
  intros R H. apply Inv_reachable in R. destruct R as (_ & (RG & _) & _). split; [|exact RG].
  inv_step H. cbn. apply in_or_app. right. left. reflexivity.
Qed.

Theorem quiescent_all_delivered s : reachable false s -> pending s = [] -> holder s = None ->
  forall e snap c, In (e, snap) (log s) -> In c snap -> delivered s c e \/ gone s c.
Proof.
  intros R P Hd e snap c A B. destruct (broadcast_reaches_connected s R e snap c A B) as [D|[D|[[todo [X _]]|D]]]; auto.
  - rewrite P in D. destruct D.
  - congruence.
Qed.

(* what a client receives was broadcast while it was registered *)
Theorem no_spurious_event s : reachable false s ->
  forall c e, delivered s c e -> exists snap, In (e, snap) (log s) /\ In c snap.
Proof. intros R. apply Inv_reachable in R. destruct R as (_ & _ & _ & (_ & _ & LG & _) & _). exact LG. Qed.

(* ================= 7. the broadcaster never blocks ================= *)
Theorem broadcaster_never_blocks old s : reachable old s -> panicked s = false ->
  (exists s', step old s SendCall = Some s' /\ waiting s' = waiting s ++ [next_ev s]) /\
  (forall e, holder s = None -> In e (waiting s) ->
     exists s', step old s (SendLock e) = Some s' /\ hold_work s' = S (length (registered s))) /\
  (forall a, holder_action s = Some a -> exists s', step old s a = Some s' /\ S (hold_work s') = hold_work s) /\
  hold_work s <= S (length (registered s)) /\
  (forall a s', step old s a = Some s' -> holder s <> None -> holder_action s <> Some a ->
     holder s' = holder s /\ registered s' = registered s).
Proof.
  intros R P. apply Inv0_reachable in R. destruct R as [_ HI]. repeat split.
  - unfold step. rewrite P. eexists. split; reflexivity.
  - intros e Hn W. unfold step. rewrite P, Hn. apply mem_nat_In in W. rewrite W. eexists. split; reflexivity.
  - intros a Ha. unfold holder_action in Ha. unfold step, hold_work. rewrite P.
    destruct (holder s) as [[e [|c todo]]|]; inversion Ha; subst; eexists; split; reflexivity.
  - unfold hold_work. destruct (holder s) as [[e todo]|] eqn:Hh; [|lia].
    destruct (HI _ _ Hh) as [pre Q]. rewrite Q, app_length. lia.
  - revert H H0 H1. intros H N NA. unfold holder_action in NA. inv_step H; cbn; try congruence.
  - revert H H0 H1. intros H N NA. unfold holder_action in NA. inv_step H; cbn; try congruence.
Qed.

(* a Send call runs to completion by its own steps alone: no client action is needed *)
Lemma drain_holder old : forall todo s e, panicked s = false -> holder s = Some (e, todo) ->
  exists s', exec old s (repeat SendSpawn (length todo) ++ [SendUnlock]) = Some s' /\
    holder s' = None /\ panicked s' = false /\ waiting s' = waiting s /\ registered s' = registered s /\
    returned s' = returned s ++ [e] /\ cl s' = cl s.
Proof.
  induction todo as [|c todo IH]; intros s e P Hh.
  - cbn. unfold step. rewrite P, Hh. eexists. split; [reflexivity|]. cbn. repeat split; reflexivity.
  - cbn [length repeat app exec]. unfold step at 1. rewrite P, Hh.
    match goal with |- context [exec old ?s1 _] => destruct (IH s1 e eq_refl eq_refl) as [s' (X & A & B & C & D & F & G)] end.
    exists s'. split; [exact X|]. cbn in *. repeat split; assumption.
Qed.

Theorem send_completes_alone old s e : reachable old s -> panicked s = false -> In e (waiting s) ->
  exists tr s', exec old s tr = Some s' /\ In e (returned s') /\
    (forall a, In a tr -> is_send_action a = true) /\
    length tr <= hold_work s + 2 + length (registered s) /\
    cl s' = cl s.
Proof.
  intros R P W.
  assert (forall s0, panicked s0 = false -> holder s0 = None -> In e (waiting s0) ->
    exists tr s', exec old s0 tr = Some s' /\ In e (returned s') /\ (forall a, In a tr -> is_send_action a = true) /\
      length tr = 2 + length (registered s0) /\ cl s' = cl s0) as Free.
  { intros s0 P0 H0 W0. apply mem_nat_In in W0.
    assert (step old s0 (SendLock e) = Some
      {| cl := cl s0; registered := registered s0; pending := pending s0; waiting := remove_nat e (waiting s0);
         holder := Some (e, registered s0); returned := returned s0; log := log s0 ++ [(e, registered s0)];
         panicked := false; next_id := next_id s0; next_ev := next_ev s0 |}) as S1.
    { unfold step. rewrite P0, H0, W0. reflexivity. }
    match type of S1 with _ = Some ?s1 => destruct (drain_holder old (registered s0) s1 e eq_refl eq_refl) as [s' (X & A & B & C & D & F & G)] end.
    exists (SendLock e :: repeat SendSpawn (length (registered s0)) ++ [SendUnlock]), s'. repeat split.
    - cbn [exec]. rewrite S1. exact X.
    - rewrite F. apply in_or_app. right. left. reflexivity.
    - intros a [<-|Ia]; [reflexivity|]. apply in_app_or in Ia. destruct Ia as [Ia|[<-|[]]]; [|reflexivity].
      apply repeat_spec in Ia. subst. reflexivity.
    - cbn. rewrite app_length, repeat_length. cbn. lia.
    - rewrite G. reflexivity. }
  destruct (holder s) as [[e0 todo]|] eqn:Hh.
  - destruct (drain_holder old todo s e0 P Hh) as [s1 (X & A & B & C & D & F & G)].
    assert (In e (waiting s1)) as W1 by (rewrite C; exact W).
    destruct (Free s1 B A W1) as [tr [s' (Y & I1 & I2 & I3 & I4)]].
    exists ((repeat SendSpawn (length todo) ++ [SendUnlock]) ++ tr), s'. repeat split.
    + eapply exec_app; eauto.
    + exact I1.
    + intros a Ia. apply in_app_or in Ia. destruct Ia as [Ia|Ia]; [|auto].
      apply in_app_or in Ia. destruct Ia as [Ia|[<-|[]]]; [|reflexivity]. apply repeat_spec in Ia. subst. reflexivity.
    + rewrite !app_length, repeat_length, I3, D. unfold hold_work. rewrite Hh. cbn. lia.
    + rewrite I4, G. reflexivity.
  - destruct (Free s P Hh W) as [tr [s' (Y & I1 & I2 & I3 & I4)]]. exists tr, s'. repeat split; auto.
    rewrite I3. lia.
Qed.

(* ================= 8. deliveries to a client that left terminate ================= *)
Theorem no_leaked_deliveries s c e : reachable false s -> gone s c -> In (c, e) (pending s) ->
  (exists s', step false s (Drop c e) = Some s' /\ pending s' = remove_one (c, e) (pending s) /\
              S (length (pending s')) = length (pending s)) /\
  (forall a s1, step false s a = Some s1 -> a <> Drop c e -> gone s1 c /\ In (c, e) (pending s1)).
Proof.
  intros R G Hp. apply Inv_reachable in R. destruct R as ((P & OK) & (RG & F) & _). split.
  - unfold step. rewrite P. apply mem_pair_In in Hp as Hm. rewrite Hm.
    destruct (OK c) as [_ DN]. unfold gone in G. apply DN in G. rewrite G. cbn.
    eexists. split; [reflexivity|]. cbn. split; [reflexivity | apply length_remove_one; exact Hp].
  - intros a s1 H NA. unfold gone in *. inv_step H; cbn; try (split; assumption).
    all: try (split; [unfold upd; destruct (Nat.eqb_spec c c0) as [->|NE]; cbn; [first [reflexivity|congruence] | exact G] | exact Hp]).
    + split; [|exact Hp]. unfold upd. destruct (Nat.eqb_spec c (next_id s)) as [->|NE]; cbn; [|exact G].
      rewrite F in G by lia. discriminate.
    + split; [exact G | apply in_or_app; left; exact Hp].
    + destruct (OK c0) as [EV _]. congruence.
    + split.
      * unfold upd. destruct (Nat.eqb_spec c c0) as [->|NE]; cbn; [congruence | exact G].
      * apply In_remove_one_neq; [exact Hp|]. intros Q. inversion Q; subst. congruence.
    + split; [exact G|]. apply In_remove_one_neq; [exact Hp|]. intros Q. inversion Q; subst. apply NA. reflexivity.
Qed.

(* ================= 9. a pending delivery waits for its own client only ================= *)
(* Deliver is enabled exactly when the delivery is pending and its client sits in the select:
   neither the mutex nor any other client's state matters *)
Lemma deliver_enabled_iff s c e : reachable false s ->
  (exists s', step false s (Deliver c e) = Some s') <-> (In (c, e) (pending s) /\ cpc (cl s c) = PLoop).
Proof.
  intros R. apply Inv_reachable in R. destruct R as ((P & OK) & _). destruct (OK c) as [EV _].
  unfold step. rewrite P. split.
  - intros [s' H]. destruct (mem_pair (c, e) (pending s)) eqn:M; [|discriminate]. apply mem_pair_In in M.
    rewrite EV in H. destruct (cpc (cl s c)); try discriminate. auto.
  - intros [M L]. apply mem_pair_In in M. rewrite M, EV, L. eexists. reflexivity.
Qed.

(* each pending delivery is at most its own client's next steps away from ending *)
Theorem delivery_progress s c e : reachable false s -> In (c, e) (pending s) ->
  match cpc (cl s c) with
  | PNone => False
  | PLoop => exists s', step false s (Deliver c e) = Some s' /\ delivered s' c e
  | PBusy => (exists s', step false s (WriteOK c) = Some s' /\ cpc (cl s' c) = PLoop /\ In (c, e) (pending s')) /\
             (exists s', step false s (WriteErr c) = Some s' /\ cpc (cl s' c) = PExiting)
  | PExiting => holder s = None -> exists s', step false s (Exit c) = Some s' /\ gone s' c
  | PGone => exists s', step false s (Drop c e) = Some s' /\ S (length (pending s')) = length (pending s)
  end.
Proof.
  intros R Hp. pose proof (Inv_reachable s R) as ((P & OK) & _ & _ & (LP & _ & _ & LK) & _).
  destruct (OK c) as [EV DN]. apply mem_pair_In in Hp as Hm.
  destruct (cpc (cl s c)) eqn:C.
  - destruct (LP _ _ Hp) as [snap [A B]]. exact (LK _ _ _ A B C).
  - unfold step. rewrite P, Hm, EV, C. eexists. split; [reflexivity|].
    unfold delivered. cbn. rewrite upd_same. cbn. apply in_or_app. right. left. reflexivity.
  - split; unfold step; rewrite P, C; eexists; (split; [reflexivity|]); cbn; rewrite upd_same; cbn; auto.
  - intros Hn. unfold step. rewrite P, Hn, C.
    destruct (done_closed (cl s c)) eqn:D; [exfalso; assert (PExiting = PGone) as Z by (apply DN; reflexivity); discriminate Z|].
    eexists. split; [reflexivity|]. unfold gone. cbn. rewrite upd_same. reflexivity.
  - destruct (no_leaked_deliveries s c e R C Hp) as [[s' (X & _ & L)] _]. exists s'. auto.
Qed.

(* ================= 10. the observation monitor only accepts model executions ================= *)
Lemma monitor_sound : forall h s0 i s, monitor s0 i h = inl s -> exists tr, exec false s0 tr = Some s.
Proof.
  induction h as [|o r IH]; intros s0 i s H; cbn in H.
  - inversion H; subst. exists []. reflexivity.
  - destruct (expand s0 o) as [acts|]; [|discriminate].
    destruct (exec false s0 acts) as [s1|] eqn:X; [|discriminate].
    destruct (IH _ _ _ H) as [tr Y]. exists (acts ++ tr). eapply exec_app; eauto.
Qed.

Theorem accepted_history_reachable h s : monitor init 0 h = inl s -> reachable false s.
Proof. intros H. destruct (monitor_sound _ _ _ _ H) as [tr X]. exists tr. exact X. Qed.

Theorem accepted_quiescent_delivered h s : monitor init 0 h = inl s -> quiescentb s = true ->
  panicked s = false /\
  forall e snap c, In (e, snap) (log s) -> In c snap -> delivered s c e \/ gone s c.
Proof.
  intros H Q. apply accepted_history_reachable in H. split.
  - destruct H as [tr X]. exact (no_panic _ _ X).
  - unfold quiescentb in Q. destruct (pending s) eqn:P; [|discriminate].
    destruct (holder s) eqn:Hd; [discriminate|]. apply quiescent_all_delivered; assumption.
Qed.

(* a client that is still in its loop receives a pending event by its own steps alone: at most
   the return of the write it is busy with, then the receive.  Nobody else has to move. *)
Theorem live_client_can_receive s c e : reachable false s -> In (c, e) (pending s) ->
  cpc (cl s c) = PLoop \/ cpc (cl s c) = PBusy ->
  exists tr s', exec false s tr = Some s' /\ delivered s' c e /\
    (forall a, In a tr -> client_of a = Some c) /\ length tr <= 2.
Proof.
  intros R Hp [L|B].
  - pose proof (delivery_progress s c e R Hp) as D. rewrite L in D. destruct D as [s' [X Y]].
    exists [Deliver c e], s'. repeat split.
    + cbn. rewrite X. reflexivity.
    + exact Y.
    + intros a [<-|[]]. reflexivity.
    + cbn. lia.
  - pose proof (delivery_progress s c e R Hp) as D. rewrite B in D. destruct D as [[s1 (X & L1 & P1)] _].
    pose proof (reachable_step false s _ s1 R X) as R1.
    pose proof (delivery_progress s1 c e R1 P1) as D. rewrite L1 in D. destruct D as [s' [X' Y]].
    exists [WriteOK c; Deliver c e], s'. repeat split.
    + cbn. rewrite X. cbn. rewrite X'. reflexivity.
    + exact Y.
    + intros a [<-|[<-|[]]]; reflexivity.
    + cbn. lia.
Qed.
