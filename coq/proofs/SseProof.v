(* Proofs about the SSE broadcast transition system (model/Sse.v). *)
From Coq Require Import List Arith Bool Lia.
Import ListNotations.
From V Require Import model.Sse.

(* ---------- list helpers ---------- *)
Lemma pair_eqb_eq p q : pair_eqb p q = true <-> p = q.
Proof.
  destruct p as [a b], q as [c d]. unfold pair_eqb. cbn. rewrite andb_true_iff, !Nat.eqb_eq.
  split; [intros [-> ->]; reflexivity | intros H; inversion H; auto].
Qed.
Lemma pair_eqb_refl p : pair_eqb p p = true.
Proof. apply pair_eqb_eq. reflexivity. Qed.
Lemma mem_pair_In p l : mem_pair p l = true <-> In p l.
Proof.
  unfold mem_pair. rewrite existsb_exists. split.
  - intros [x [Hx E]]. apply pair_eqb_eq in E. subst. exact Hx.
  - intros H. exists p. split; [exact H | apply pair_eqb_refl].
Qed.
Lemma mem_nat_In n l : mem_nat n l = true <-> In n l.
Proof.
  unfold mem_nat. rewrite existsb_exists. split.
  - intros [x [Hx E]]. apply Nat.eqb_eq in E. subst. exact Hx.
  - intros H. exists n. split; [exact H | apply Nat.eqb_refl].
Qed.
Lemma In_remove_one p q l : In p (remove_one q l) -> In p l.
Proof.
  induction l as [|x r IH]; cbn; [tauto|]. destruct (pair_eqb q x); cbn; [auto|]. intros [H|H]; auto.
Qed.
Lemma In_remove_one_neq p q l : In p l -> p <> q -> In p (remove_one q l).
Proof.
  induction l as [|x r IH]; cbn; [tauto|]. intros [H|H] N.
  - subst x. destruct (pair_eqb q p) eqn:E; [apply pair_eqb_eq in E; congruence | left; reflexivity].
  - destruct (pair_eqb q x); [exact H | right; auto].
Qed.
Lemma length_remove_one p l : In p l -> S (length (remove_one p l)) = length l.
Proof.
  induction l as [|x r IH]; cbn; [tauto|]. intros H. destruct (pair_eqb p x) eqn:E; [reflexivity|].
  cbn. f_equal. apply IH. destruct H as [H|H]; [|exact H]. subst. rewrite pair_eqb_refl in E. discriminate.
Qed.
Lemma In_remove_nat x n l : In x (remove_nat n l) <-> In x l /\ x <> n.
Proof.
  unfold remove_nat. rewrite filter_In, negb_true_iff, Nat.eqb_neq. tauto.
Qed.
Lemma upd_same f c v : upd f c v c = v.
Proof. unfold upd. rewrite Nat.eqb_refl. reflexivity. Qed.
Lemma upd_other f c v k : k <> c -> upd f c v k = f k.
Proof. unfold upd. intros H. apply Nat.eqb_neq in H. rewrite H. reflexivity. Qed.

(* ---------- step inversion ---------- *)
Ltac inv_step H :=
  unfold step in H; cbv zeta in H;
  repeat (cbv beta iota in H;
    match type of H with
    | (if ?b then _ else _) = Some _ => let E := fresh "E" in destruct b eqn:E; try discriminate H
    | match ?x with _ => _ end = Some _ => let E := fresh "E" in destruct x eqn:E; try discriminate H
    end);
  cbv beta iota in H; inversion H; subst; clear H.

(* case split on  upd f c v k *)
Ltac upd_cases k c :=
  let E := fresh "E" in
  destruct (Nat.eq_dec k c) as [E|E];
  [subst; rewrite ?upd_same in * | rewrite ?(upd_other _ _ _ _ E) in *].

Lemma exec_invariant (old : bool) (P : state -> Prop) :
  (forall s a s', P s -> step old s a = Some s' -> P s') ->
  forall tr s0 s, P s0 -> exec old s0 tr = Some s -> P s.
Proof.
  intros HS. induction tr as [|a r IH]; intros s0 s H0 H; cbn in H.
  - inversion H; subst. exact H0.
  - destruct (step old s0 a) as [s1|] eqn:S1; [|discriminate]. exact (IH s1 s (HS _ _ _ H0 S1) H).
Qed.

Lemma exec_app (old : bool) tr1 : forall tr2 s s1 s2,
  exec old s tr1 = Some s1 -> exec old s1 tr2 = Some s2 -> exec old s (tr1 ++ tr2) = Some s2.
Proof.
  induction tr1 as [|a r IH]; intros tr2 s s1 s2 H1 H2; cbn in *.
  - inversion H1; subst. exact H2.
  - destruct (step old s a) as [s'|]; [|discriminate]. eapply IH; eauto.
Qed.

Lemma reachable_step (old : bool) s a s' : reachable old s -> step old s a = Some s' -> reachable old s'.
Proof.
  intros [tr H] S. exists (tr ++ [a]). eapply exec_app; [exact H|]. cbn. rewrite S. reflexivity.
Qed.

Lemma reachable_exec (old : bool) s tr s' : reachable old s -> exec old s tr = Some s' -> reachable old s'.
Proof.
  intros [tr0 H] S. exists (tr0 ++ tr). eapply exec_app; eauto.
Qed.

(* ================= 1. no panic (the code as it is) ================= *)
(* no events channel is ever closed; a done channel is closed exactly when its client has left *)
Definition cl_ok (x : client) : Prop :=
  ev_closed x = false /\ (done_closed x = true <-> cpc x = PGone).
Definition safe_inv (s : state) : Prop := panicked s = false /\ forall c, cl_ok (cl s c).

Lemma cl_ok_upd f c v : (forall k, cl_ok (f k)) -> cl_ok v -> forall k, cl_ok (upd f c v k).
Proof. intros F V k. unfold upd. destruct (k =? c); auto. Qed.

Lemma safe_init : safe_inv init.
Proof. split; [reflexivity|]. intros c. split; cbn; [reflexivity | split; discriminate]. Qed.

Lemma safe_step s a s' : safe_inv s -> step false s a = Some s' -> safe_inv s'.
Proof.
  intros (P & OK) H. inv_step H; unfold safe_inv; cbn; try (split; [first [reflexivity|assumption] | exact OK]).
  all: try (split; [first [reflexivity|assumption]|]; apply cl_ok_upd; [exact OK|]).
  all: try (pose proof (OK c) as [EV DN]; split; cbn; [try assumption; reflexivity|]).
  all: try (split; [intros D; apply DN in D; congruence | discriminate]).
  - split; cbn; [reflexivity | split; discriminate].
  - destruct (OK c) as [EV _]. congruence.
  - split; [reflexivity | intros _; apply DN; assumption].
  - destruct (OK c) as [_ DN]. apply DN in E3. congruence.
  - split; reflexivity.
Qed.

Theorem no_panic tr s : exec false init tr = Some s -> panicked s = false.
Proof.
  intros H. assert (safe_inv s) as [P _]; [|exact P].
  eapply exec_invariant; [exact safe_step | exact safe_init | exact H].
Qed.

(* the variant before the fix: subscribe; the client is busy writing its first ping while a Send
   runs; the browser goes away; the client leaves and closes its events channel; the pending
   delivery goroutine sends on the closed channel *)
Definition old_trace : list action :=
  [Subscribe; Tick 1; SendCall; SendLock 1; SendSpawn; SendUnlock; Cancel 1; WriteOK 1; SeeDone 1; Exit 1; Deliver 1 1].
Lemma old_variant_panics : exists s, exec true init old_trace = Some s /\ panicked s = true.
Proof. eexists. split; [vm_compute; reflexivity | reflexivity]. Qed.
(* the same schedule is harmless now: the delivery ends through the done case *)
Lemma old_trace_now_blocked : exec false init old_trace = None.
Proof. vm_compute. reflexivity. Qed.
Lemma fixed_trace_ok : exists s,
  exec false init [Subscribe; Tick 1; SendCall; SendLock 1; SendSpawn; SendUnlock; Cancel 1; WriteOK 1; SeeDone 1; Exit 1; Drop 1 1] = Some s
  /\ panicked s = false /\ pending s = [].
Proof. eexists. split; [vm_compute; reflexivity | split; reflexivity]. Qed.

(* ================= 2. registry = connected clients ================= *)
Definition reg_inv (s : state) : Prop :=
  (forall c, In c (registered s) <-> connected s c) /\ (forall c, next_id s <= c -> cpc (cl s c) = PNone).

Lemma reg_init : reg_inv init.
Proof. split; cbn; [|reflexivity]. intros c. unfold connected. cbn. intuition discriminate. Qed.

Lemma reg_step old s a s' : reg_inv s -> step old s a = Some s' -> reg_inv s'.
Proof.
  intros (R & F) H. inv_step H; unfold reg_inv, connected in *; cbn; try (split; assumption).
  all: try (split; intros k; [pose proof (R k) as Rk | pose proof (F k) as Fk]; unfold upd;
            destruct (Nat.eqb_spec k c) as [->|NE]; cbn; try assumption;
            try (intros L; apply Fk in L; congruence);
            try (match goal with E : cpc (cl _ _) = _ |- _ => rewrite E in Rk end; intuition congruence)).
  - split; intros k; unfold upd; destruct (Nat.eqb_spec k (next_id s)) as [->|NE]; cbn.
    + intuition.
    + rewrite <- R. intuition congruence.
    + lia.
    + intros L. apply F. lia.
  - rewrite In_remove_nat. intuition congruence.
  - rewrite In_remove_nat. rewrite R. intuition.
Qed.

(* ================= 3. the Send call holding the mutex ================= *)
(* the entries its range loop has still to visit are a suffix of the registry *)
Definition holder_inv (s : state) : Prop :=
  forall e todo, holder s = Some (e, todo) -> exists pre, registered s = pre ++ todo.

Lemma holder_init : holder_inv init.
Proof. intros e todo H. discriminate. Qed.

Lemma holder_step old s a s' : holder_inv s -> step old s a = Some s' -> holder_inv s'.
Proof.
  intros I H. inv_step H; unfold holder_inv in *; cbn; try assumption; try discriminate.
  - intros e0 todo X. inversion X; subst. exists []. reflexivity.
  - intros e0 todo X. inversion X; subst.
    match goal with E : holder s = Some _ |- _ => destruct (I _ _ E) as [pre P] end.
    exists (pre ++ [n0]). rewrite P, <- app_assoc. reflexivity.
Qed.

(* ================= 4. everything in flight belongs to a logged Send ================= *)
Definition logged (s : state) (c e : nat) : Prop := exists snap, In (e, snap) (log s) /\ In c snap.
Definition log_inv (s : state) : Prop :=
  (forall c e, In (c, e) (pending s) -> logged s c e) /\
  (forall e todo, holder s = Some (e, todo) -> exists snap, In (e, snap) (log s) /\ forall c, In c todo -> In c snap) /\
  (forall c e, In e (got (cl s c)) -> logged s c e) /\
  (forall e snap c, In (e, snap) (log s) -> In c snap -> cpc (cl s c) <> PNone).

Lemma log_init : log_inv init.
Proof. repeat split; cbn; intros; try tauto; discriminate. Qed.

Lemma log_step old s a s' : reg_inv s -> log_inv s -> step old s a = Some s' -> log_inv s'.
Proof.
  intros (R & F) (LP & LH & LG & LK) H. inv_step H; unfold log_inv, logged in *; cbn.
  all: (split; [|split; [|split]]); try assumption; try (intros; discriminate).
  all: try (intros c0 e0 X; apply In_remove_one in X; auto; fail).
  all: try (intros e0 snap c0 A B; pose proof (LK e0 snap c0 A B) as K; unfold upd;
            destruct (Nat.eqb_spec c0 c) as [->|NE]; cbn; [congruence | exact K]).
  all: try (intros c0 e0; unfold upd; destruct (Nat.eqb_spec c0 c) as [->|NE]; cbn; [|apply LG]; apply LG).
  - (* Subscribe: got *) intros c0 e0. unfold upd. destruct (Nat.eqb_spec c0 (next_id s)) as [->|NE]; cbn; [tauto | apply LG].
  - (* Subscribe: known *) intros e0 snap c0 A B. pose proof (LK e0 snap c0 A B) as K. unfold upd.
    destruct (Nat.eqb_spec c0 (next_id s)) as [->|NE]; cbn; [discriminate | exact K].
  - (* SendLock: pending *) intros c0 e0 X. destruct (LP _ _ X) as [snap [A B]]. exists snap. split; [apply in_or_app; left|]; assumption.
  - (* SendLock: holder *) intros e0 todo X. inversion X; subst. exists (registered s). split; [apply in_or_app; right; left; reflexivity | auto].
  - (* SendLock: got *) intros c0 e0 X. destruct (LG _ _ X) as [snap [A B]]. exists snap. split; [apply in_or_app; left|]; assumption.
  - (* SendLock: known *) intros e0 snap c0 A B. apply in_app_or in A. destruct A as [A|[A|[]]]; [exact (LK _ _ _ A B)|].
    inversion A; subst. apply R in B. unfold connected in B. intuition congruence.
  - (* SendSpawn: pending *) intros c0 e0 X. apply in_app_or in X. destruct X as [X|[X|[]]]; [exact (LP _ _ X)|].
    inversion X; subst. destruct (LH _ _ eq_refl) as [snap [A B]]. exists snap. split; [exact A | apply B; left; reflexivity].
  - (* SendSpawn: holder *) intros e0 todo X. inversion X; subst. destruct (LH _ _ eq_refl) as [snap [A B]].
    exists snap. split; [exact A | intros c0 C; apply B; right; exact C].
  - (* Deliver: got *) intros c0 e0. unfold upd. destruct (Nat.eqb_spec c0 c) as [->|NE]; cbn; [|apply LG].
    intros X. apply in_app_or in X. destruct X as [X|[X|[]]]; [exact (LG _ _ X)|]. subst e0.
    apply LP. apply mem_pair_In. assumption.
  - (* Exit: holder *) intros e0 todo X. congruence.
Qed.

(* ================= 5. nothing is dropped for a live client ================= *)
Definition in_todo (s : state) (c e : nat) : Prop := exists todo, holder s = Some (e, todo) /\ In c todo.
Definition reach_inv (s : state) : Prop :=
  forall e snap c, In (e, snap) (log s) -> In c snap ->
    delivered s c e \/ In (c, e) (pending s) \/ in_todo s c e \/ gone s c.

Lemma reach_init : reach_inv init.
Proof. intros e snap c []. Qed.

Lemma reach_step s a s' : safe_inv s -> reg_inv s -> log_inv s -> reach_inv s -> step false s a = Some s' -> reach_inv s'.
Proof.
  intros (_ & OK) (R & F) (LP & LH & LG & LK) I H.
  inv_step H; unfold reach_inv, delivered, in_todo, gone in *; cbn; try assumption.
  all: try (intros e0 snap c0 A B; pose proof (I _ _ _ A B) as D; unfold upd;
            destruct (Nat.eqb_spec c0 c) as [->|NE]; cbn; [|exact D];
            destruct D as [D|[D|[D|D]]];
            [left; exact D | right; left; exact D
            | right; right; left; first [exact D | destruct D as [? [X ?]]; congruence]
            | right; right; right; first [reflexivity | congruence]]; fail).
  - (* Subscribe *) intros e0 snap c0 A B. pose proof (I _ _ _ A B) as D. pose proof (LK _ _ _ A B) as K.
    unfold upd. destruct (Nat.eqb_spec c0 (next_id s)) as [->|NE]; cbn.
    + exfalso. apply K. apply F. lia.
    + destruct D as [D|[D|[[? [X ?]]|D]]]; auto. congruence.
  - (* SendLock *) intros e0 snap c0 A B. apply in_app_or in A. destruct A as [A|[A|[]]].
    + destruct (I _ _ _ A B) as [D|[D|[[? [X ?]]|D]]]; auto. congruence.
    + inversion A; subst. right; right; left. exists (registered s). split; [reflexivity | exact B].
  - (* SendSpawn *) intros e0 snap c0 A B. destruct (I _ _ _ A B) as [D|[D|[[todo [X Y]]|D]]]; auto.
    + right; left. apply in_or_app. left. exact D.
    + try (match goal with E : holder s = Some (_, _ :: _) |- _ => rewrite E in X end). inversion X; subst. destruct Y as [Y|Y].
      * subst. right; left. apply in_or_app. right. left. reflexivity.
      * right; right; left. exists l0. split; [reflexivity | exact Y].
  - (* SendUnlock *) intros e0 snap c0 A B. destruct (I _ _ _ A B) as [D|[D|[[todo [X Y]]|D]]]; auto.
    try (match goal with E : holder s = Some (_, []) |- _ => rewrite E in X end). inversion X; subst. destruct Y.
  - (* Deliver on a closed channel: impossible *) destruct (OK c) as [EV _]. congruence.
  - (* Deliver *) intros e0 snap c0 A B. pose proof (I _ _ _ A B) as D. unfold upd.
    destruct (Nat.eqb_spec c0 c) as [->|NE]; cbn.
    + destruct D as [D|[D|[D|D]]]; [left; apply in_or_app; left; exact D | | right; right; left; exact D | congruence].
      destruct (Nat.eq_dec e0 e) as [->|NE].
      * left. apply in_or_app. right. left. reflexivity.
      * right; left. apply In_remove_one_neq; [exact D | congruence].
    + destruct D as [D|[D|[D|D]]]; auto. right; left. apply In_remove_one_neq; [exact D | congruence].
  - (* Drop *) intros e0 snap c0 A B. destruct (I _ _ _ A B) as [D|[D|[D|D]]]; auto.
    destruct (pair_eqb (c0, e0) (c, e)) eqn:PE.
    + apply pair_eqb_eq in PE. inversion PE; subst. right; right; right.
      match goal with X : _ && _ = true |- _ => apply andb_true_iff in X; destruct X as [_ X] end.
      apply (OK c). assumption.
    + right; left. apply In_remove_one_neq; [exact D|]. intros Q. rewrite Q, pair_eqb_refl in PE. discriminate.
  - (* Exit *) intros e0 snap c0 A B. pose proof (I _ _ _ A B) as D. unfold upd.
    destruct (Nat.eqb_spec c0 c) as [->|NE]; cbn; [right; right; right; reflexivity|].
    destruct D as [D|[D|[[? [X ?]]|D]]]; auto. congruence.
Qed.

(* ================= 6. all invariants together ================= *)
Definition Inv (s : state) : Prop := safe_inv s /\ reg_inv s /\ holder_inv s /\ log_inv s /\ reach_inv s.

Lemma Inv_init : Inv init.
Proof. split; [apply safe_init | split; [apply reg_init | split; [apply holder_init | split; [apply log_init | apply reach_init]]]]. Qed.

Lemma Inv_step s a s' : Inv s -> step false s a = Some s' -> Inv s'.
Proof.
  intros (A & B & C & D & E) H. split; [|split; [|split; [|split]]].
  - eapply safe_step; eauto.
  - eapply reg_step; eauto.
  - eapply holder_step; eauto.
  - eapply log_step; eauto.
  - eapply reach_step; eauto.
Qed.

Lemma Inv_reachable s : reachable false s -> Inv s.
Proof. intros [tr H]. eapply exec_invariant; [exact Inv_step | exact Inv_init | exact H]. Qed.

Definition Inv0 (s : state) : Prop := reg_inv s /\ holder_inv s.
Lemma Inv0_reachable old s : reachable old s -> Inv0 s.
Proof.
  intros [tr H]. eapply exec_invariant; [| split; [exact reg_init | exact holder_init] | exact H].
  intros s0 a s1 [A B] S. split; [eapply reg_step | eapply holder_step]; eauto.
Qed.

Theorem broadcast_reaches_connected s : reachable false s ->
  forall e snap c, In (e, snap) (log s) -> In c snap ->
    delivered s c e \/ In (c, e) (pending s) \/ in_todo s c e \/ gone s c.
Proof. intros R. apply Inv_reachable in R. destruct R as (_ & _ & _ & _ & I). exact I. Qed.

(* the snapshot a Send iterates is the set of connected clients at the moment it takes the mutex *)
Lemma snapshot_is_connected s e s' : reachable false s -> step false s (SendLock e) = Some s' ->
  In (e, registered s) (log s') /\ forall c, In c (registered s) <-> connected s c.
Proof.
  intros R H. apply Inv_reachable in R. destruct R as (_ & (RG & _) & _). split; [|exact RG].
  inv_step H. cbn. apply in_or_app. right. left. reflexivity.
Qed.

Theorem quiescent_all_delivered s : reachable false s -> pending s = [] -> holder s = None ->
  forall e snap c, In (e, snap) (log s) -> In c snap -> delivered s c e \/ gone s c.
Proof.
  intros R P Hd e snap c A B. destruct (broadcast_reaches_connected s R e snap c A B) as [D|[D|[[todo [X _]]|D]]]; auto.
  - rewrite P in D. destruct D.
  - congruence.
Qed.

(* what a client receives was broadcast while it was registered *)
Theorem no_spurious_event s : reachable false s ->
  forall c e, delivered s c e -> exists snap, In (e, snap) (log s) /\ In c snap.
Proof. intros R. apply Inv_reachable in R. destruct R as (_ & _ & _ & (_ & _ & LG & _) & _). exact LG. Qed.

(* ================= 7. the broadcaster never blocks ================= *)
Theorem broadcaster_never_blocks old s : reachable old s -> panicked s = false ->
  (exists s', step old s SendCall = Some s' /\ waiting s' = waiting s ++ [next_ev s]) /\
  (forall e, holder s = None -> In e (waiting s) ->
     exists s', step old s (SendLock e) = Some s' /\ hold_work s' = S (length (registered s))) /\
  (forall a, holder_action s = Some a -> exists s', step old s a = Some s' /\ S (hold_work s') = hold_work s) /\
  hold_work s <= S (length (registered s)) /\
  (forall a s', step old s a = Some s' -> holder s <> None -> holder_action s <> Some a ->
     holder s' = holder s /\ registered s' = registered s).
Proof.
  intros R P. apply Inv0_reachable in R. destruct R as [_ HI]. repeat split.
  - unfold step. rewrite P. eexists. split; reflexivity.
  - intros e Hn W. unfold step. rewrite P, Hn. apply mem_nat_In in W. rewrite W. eexists. split; reflexivity.
  - intros a Ha. unfold holder_action in Ha. unfold step, hold_work. rewrite P.
    destruct (holder s) as [[e [|c todo]]|]; inversion Ha; subst; eexists; split; reflexivity.
  - unfold hold_work. destruct (holder s) as [[e todo]|] eqn:Hh; [|lia].
    destruct (HI _ _ Hh) as [pre Q]. rewrite Q, app_length. lia.
  - revert H H0 H1. intros H N NA. unfold holder_action in NA. inv_step H; cbn; try congruence.
  - revert H H0 H1. intros H N NA. unfold holder_action in NA. inv_step H; cbn; try congruence.
Qed.

(* a Send call runs to completion by its own steps alone: no client action is needed *)
Lemma drain_holder old : forall todo s e, panicked s = false -> holder s = Some (e, todo) ->
  exists s', exec old s (repeat SendSpawn (length todo) ++ [SendUnlock]) = Some s' /\
    holder s' = None /\ panicked s' = false /\ waiting s' = waiting s /\ registered s' = registered s /\
    returned s' = returned s ++ [e] /\ cl s' = cl s.
Proof.
  induction todo as [|c todo IH]; intros s e P Hh.
  - cbn. unfold step. rewrite P, Hh. eexists. split; [reflexivity|]. cbn. repeat split; reflexivity.
  - cbn [length repeat app exec]. unfold step at 1. rewrite P, Hh.
    match goal with |- context [exec old ?s1 _] => destruct (IH s1 e eq_refl eq_refl) as [s' (X & A & B & C & D & F & G)] end.
    exists s'. split; [exact X|]. cbn in *. repeat split; assumption.
Qed.

Theorem send_completes_alone old s e : reachable old s -> panicked s = false -> In e (waiting s) ->
  exists tr s', exec old s tr = Some s' /\ In e (returned s') /\
    (forall a, In a tr -> is_send_action a = true) /\
    length tr <= hold_work s + 2 + length (registered s) /\
    cl s' = cl s.
Proof.
  intros R P W.
  assert (forall s0, panicked s0 = false -> holder s0 = None -> In e (waiting s0) ->
    exists tr s', exec old s0 tr = Some s' /\ In e (returned s') /\ (forall a, In a tr -> is_send_action a = true) /\
      length tr = 2 + length (registered s0) /\ cl s' = cl s0) as Free.
  { intros s0 P0 H0 W0. apply mem_nat_In in W0.
    assert (step old s0 (SendLock e) = Some
      {| cl := cl s0; registered := registered s0; pending := pending s0; waiting := remove_nat e (waiting s0);
         holder := Some (e, registered s0); returned := returned s0; log := log s0 ++ [(e, registered s0)];
         panicked := false; next_id := next_id s0; next_ev := next_ev s0 |}) as S1.
    { unfold step. rewrite P0, H0, W0. reflexivity. }
    match type of S1 with _ = Some ?s1 => destruct (drain_holder old (registered s0) s1 e eq_refl eq_refl) as [s' (X & A & B & C & D & F & G)] end.
    exists (SendLock e :: repeat SendSpawn (length (registered s0)) ++ [SendUnlock]), s'. repeat split.
    - cbn [exec]. rewrite S1. exact X.
    - rewrite F. apply in_or_app. right. left. reflexivity.
    - intros a [<-|Ia]; [reflexivity|]. apply in_app_or in Ia. destruct Ia as [Ia|[<-|[]]]; [|reflexivity].
      apply repeat_spec in Ia. subst. reflexivity.
    - cbn. rewrite app_length, repeat_length. cbn. lia.
    - rewrite G. reflexivity. }
  destruct (holder s) as [[e0 todo]|] eqn:Hh.
  - destruct (drain_holder old todo s e0 P Hh) as [s1 (X & A & B & C & D & F & G)].
    assert (In e (waiting s1)) as W1 by (rewrite C; exact W).
    destruct (Free s1 B A W1) as [tr [s' (Y & I1 & I2 & I3 & I4)]].
    exists ((repeat SendSpawn (length todo) ++ [SendUnlock]) ++ tr), s'. repeat split.
    + eapply exec_app; eauto.
    + exact I1.
    + intros a Ia. apply in_app_or in Ia. destruct Ia as [Ia|Ia]; [|auto].
      apply in_app_or in Ia. destruct Ia as [Ia|[<-|[]]]; [|reflexivity]. apply repeat_spec in Ia. subst. reflexivity.
    + rewrite !app_length, repeat_length, I3, D. unfold hold_work. rewrite Hh. cbn. lia.
    + rewrite I4, G. reflexivity.
  - destruct (Free s P Hh W) as [tr [s' (Y & I1 & I2 & I3 & I4)]]. exists tr, s'. repeat split; auto.
    rewrite I3. lia.
Qed.

(* ================= 8. deliveries to a client that left terminate ================= *)
Theorem no_leaked_deliveries s c e : reachable false s -> gone s c -> In (c, e) (pending s) ->
  (exists s', step false s (Drop c e) = Some s' /\ pending s' = remove_one (c, e) (pending s) /\
              S (length (pending s')) = length (pending s)) /\
  (forall a s1, step false s a = Some s1 -> a <> Drop c e -> gone s1 c /\ In (c, e) (pending s1)).
Proof.
  intros R G Hp. apply Inv_reachable in R. destruct R as ((P & OK) & (RG & F) & _). split.
  - unfold step. rewrite P. apply mem_pair_In in Hp as Hm. rewrite Hm.
    destruct (OK c) as [_ DN]. unfold gone in G. apply DN in G. rewrite G. cbn.
    eexists. split; [reflexivity|]. cbn. split; [reflexivity | apply length_remove_one; exact Hp].
  - intros a s1 H NA. unfold gone in *. inv_step H; cbn; try (split; assumption).
    all: try (split; [unfold upd; destruct (Nat.eqb_spec c c0) as [->|NE]; cbn; [first [reflexivity|congruence] | exact G] | exact Hp]).
    + split; [|exact Hp]. unfold upd. destruct (Nat.eqb_spec c (next_id s)) as [->|NE]; cbn; [|exact G].
      rewrite F in G by lia. discriminate.
    + split; [exact G | apply in_or_app; left; exact Hp].
    + destruct (OK c0) as [EV _]. congruence.
    + split.
      * unfold upd. destruct (Nat.eqb_spec c c0) as [->|NE]; cbn; [congruence | exact G].
      * apply In_remove_one_neq; [exact Hp|]. intros Q. inversion Q; subst. congruence.
    + split; [exact G|]. apply In_remove_one_neq; [exact Hp|]. intros Q. inversion Q; subst. apply NA. reflexivity.
Qed.

(* ================= 9. a pending delivery waits for its own client only ================= *)
(* Deliver is enabled exactly when the delivery is pending and its client sits in the select:
   neither the mutex nor any other client's state matters *)
Lemma deliver_enabled_iff s c e : reachable false s ->
  (exists s', step false s (Deliver c e) = Some s') <-> (In (c, e) (pending s) /\ cpc (cl s c) = PLoop).
Proof.
  intros R. apply Inv_reachable in R. destruct R as ((P & OK) & _). destruct (OK c) as [EV _].
  unfold step. rewrite P. split.
  - intros [s' H]. destruct (mem_pair (c, e) (pending s)) eqn:M; [|discriminate]. apply mem_pair_In in M.
    rewrite EV in H. destruct (cpc (cl s c)); try discriminate. auto.
  - intros [M L]. apply mem_pair_In in M. rewrite M, EV, L. eexists. reflexivity.
Qed.

(* each pending delivery is at most its own client's next steps away from ending *)
Theorem delivery_progress s c e : reachable false s -> In (c, e) (pending s) ->
  match cpc (cl s c) with
  | PNone => False
  | PLoop => exists s', step false s (Deliver c e) = Some s' /\ delivered s' c e
  | PBusy => (exists s', step false s (WriteOK c) = Some s' /\ cpc (cl s' c) = PLoop /\ In (c, e) (pending s')) /\
             (exists s', step false s (WriteErr c) = Some s' /\ cpc (cl s' c) = PExiting)
  | PExiting => holder s = None -> exists s', step false s (Exit c) = Some s' /\ gone s' c
  | PGone => exists s', step false s (Drop c e) = Some s' /\ S (length (pending s')) = length (pending s)
  end.
Proof.
  intros R Hp. pose proof (Inv_reachable s R) as ((P & OK) & _ & _ & (LP & _ & _ & LK) & _).
  destruct (OK c) as [EV DN]. apply mem_pair_In in Hp as Hm.
  destruct (cpc (cl s c)) eqn:C.
  - destruct (LP _ _ Hp) as [snap [A B]]. exact (LK _ _ _ A B C).
  - unfold step. rewrite P, Hm, EV, C. eexists. split; [reflexivity|].
    unfold delivered. cbn. rewrite upd_same. cbn. apply in_or_app. right. left. reflexivity.
  - split; unfold step; rewrite P, C; eexists; (split; [reflexivity|]); cbn; rewrite upd_same; cbn; auto.
  - intros Hn. unfold step. rewrite P, Hn, C.
    destruct (done_closed (cl s c)) eqn:D; [exfalso; assert (PExiting = PGone) as Z by (apply DN; reflexivity); discriminate Z|].
    eexists. split; [reflexivity|]. unfold gone. cbn. rewrite upd_same. reflexivity.
  - destruct (no_leaked_deliveries s c e R C Hp) as [[s' (X & _ & L)] _]. exists s'. auto.
Qed.

(* ================= 10. the observation monitor only accepts model executions ================= *)
Lemma monitor_sound : forall h s0 i s, monitor s0 i h = inl s -> exists tr, exec false s0 tr = Some s.
Proof.
  induction h as [|o r IH]; intros s0 i s H; cbn in H.
  - inversion H; subst. exists []. reflexivity.
  - destruct (expand s0 o) as [acts|]; [|discriminate].
    destruct (exec false s0 acts) as [s1|] eqn:X; [|discriminate].
    destruct (IH _ _ _ H) as [tr Y]. exists (acts ++ tr). eapply exec_app; eauto.
Qed.

Theorem accepted_history_reachable h s : monitor init 0 h = inl s -> reachable false s.
Proof. intros H. destruct (monitor_sound _ _ _ _ H) as [tr X]. exists tr. exact X. Qed.

Theorem accepted_quiescent_delivered h s : monitor init 0 h = inl s -> quiescentb s = true ->
  panicked s = false /\
  forall e snap c, In (e, snap) (log s) -> In c snap -> delivered s c e \/ gone s c.
Proof.
  intros H Q. apply accepted_history_reachable in H. split.
  - destruct H as [tr X]. exact (no_panic _ _ X).
  - unfold quiescentb in Q. destruct (pending s) eqn:P; [|discriminate].
    destruct (holder s) eqn:Hd; [discriminate|]. apply quiescent_all_delivered; assumption.
Qed.

(* a client that is still in its loop receives a pending event by its own steps alone: at most
   the return of the write it is busy with, then the receive.  Nobody else has to move. *)
Theorem live_client_can_receive s c e : reachable false s -> In (c, e) (pending s) ->
  cpc (cl s c) = PLoop \/ cpc (cl s c) = PBusy ->
  exists tr s', exec false s tr = Some s' /\ delivered s' c e /\
    (forall a, In a tr -> client_of a = Some c) /\ length tr <= 2.
Proof.
  intros R Hp [L|B].
  - pose proof (delivery_progress s c e R Hp) as D. rewrite L in D. destruct D as [s' [X Y]].
    exists [Deliver c e], s'. repeat split.
    + cbn. rewrite X. reflexivity.
    + exact Y.
    + intros a [<-|[]]. reflexivity.
    + cbn. lia.
  - pose proof (delivery_progress s c e R Hp) as D. rewrite B in D. destruct D as [[s1 (X & L1 & P1)] _].
    pose proof (reachable_step false s _ s1 R X) as R1.
    pose proof (delivery_progress s1 c e R1 P1) as D. rewrite L1 in D. destruct D as [s' [X' Y]].
    exists [WriteOK c; Deliver c e], s'. repeat split.
    + cbn. rewrite X. cbn. rewrite X'. reflexivity.
    + exact Y.
    + intros a [<-|[<-|[]]]; reflexivity.
    + cbn. lia.
Qed.

(* ================= 11. stalled clients hold up nobody ================= *)
Lemma pc_eqb_eq a b : pc_eqb a b = true <-> a = b.
Proof. destruct a, b; cbn; split; intros H; try reflexivity; discriminate H. Qed.

Lemma filter_nil_iff {A} (f : A -> bool) l : filter f l = [] <-> forall x, In x l -> f x = false.
Proof.
  split.
  - intros E x Hx. destruct (f x) eqn:F; [|reflexivity].
    assert (In x (filter f l)) as I by (apply filter_In; auto). rewrite E in I. destruct I.
  - intros H. destruct (filter f l) as [|y r] eqn:E; [reflexivity|].
    assert (In y (filter f l)) as I by (rewrite E; left; reflexivity).
    apply filter_In in I. destruct I as [I F]. rewrite (H _ I) in F. discriminate.
Qed.

Lemma stableb_spec s : stableb s = true <->
  holder s = None /\ waiting s = [] /\
  (forall c e, In (c, e) (pending s) -> cpc (cl s c) = PBusy) /\
  (forall c, c < next_id s -> client_restless (cl s c) = false).
Proof.
  unfold stableb. split.
  - intros H. destruct (holder s); [discriminate|]. destruct (waiting s); [|discriminate].
    destruct (held_up s) eqn:HU; [|discriminate]. repeat split.
    + intros c e I. unfold held_up in HU. rewrite filter_nil_iff in HU. specialize (HU _ I). cbn in HU.
      apply negb_false_iff in HU. unfold stalledb in HU. apply pc_eqb_eq in HU. exact HU.
    + intros c L. apply negb_true_iff in H.
      destruct (client_restless (cl s c)) eqn:CR; [|reflexivity].
      assert (existsb (fun c0 => client_restless (cl s c0)) (seq 0 (next_id s)) = true) as X.
      { apply existsb_exists. exists c. split; [apply in_seq; lia | exact CR]. }
      congruence.
  - intros (Hn & W & P & C). rewrite Hn, W.
    assert (held_up s = []) as HU.
    { unfold held_up. apply filter_nil_iff. intros [c e] I. cbn. apply negb_false_iff. unfold stalledb.
      apply pc_eqb_eq. exact (P _ _ I). }
    rewrite HU. apply negb_true_iff. destruct (existsb _ _) eqn:X; [|reflexivity].
    apply existsb_exists in X. destruct X as [c [I CR]]. apply in_seq in I. rewrite C in CR by lia. discriminate.
Qed.

(* When the handler is at rest, the only clients that lack an event of their snapshot are the ones
   that are themselves stalled in a write (the delivery is still waiting for them) or have left.
   Every other client - in particular every client sitting in its select - has received it. *)
Theorem stable_all_delivered s : reachable false s -> stableb s = true ->
  forall e snap c, In (e, snap) (log s) -> In c snap ->
    (delivered s c e \/ gone s c \/ (cpc (cl s c) = PBusy /\ In (c, e) (pending s))) /\
    (cpc (cl s c) = PLoop -> delivered s c e).
Proof.
  intros R St e snap c A B. apply stableb_spec in St. destruct St as (Hn & _ & P & _).
  destruct (broadcast_reaches_connected s R e snap c A B) as [D|[D|[[todo [X _]]|D]]].
  - split; [left; exact D | intros _; exact D].
  - pose proof (P _ _ D) as Bz. split; [right; right; split; assumption | intros L; congruence].
  - congruence.
  - split; [right; left; exact D | intros L; unfold gone in D; congruence].
Qed.

(* the client whose state an action reads *)
Theorem handler_steps_need_no_stalled_client s a s' : reachable false s ->
  handler_step a = true -> step false s a = Some s' ->
  forall c, touches a = Some c -> cpc (cl s c) <> PBusy.
Proof.
  intros R Hh H c T. apply Inv_reachable in R. destruct R as ((P & OK) & _).
  destruct a; cbn in Hh; try discriminate Hh; cbn in T; try discriminate T; inversion T; subst; clear T;
    destruct (OK c) as [EV DN]; inv_step H; try congruence.
  match goal with X : _ && _ = true |- _ => apply andb_true_iff in X; destruct X as [_ D0]; apply DN in D0; congruence end.
Qed.

(* stableb is exactly "no goroutine of the handler can take a step": whatever remains to be done
   is up to the environment (the stalled writes returning, the timer, new requests, new Send calls) *)
Theorem stable_iff_handler_at_rest s : reachable false s ->
  (stableb s = true <-> forall a, handler_step a = true -> step false s a = None).
Proof.
  intros R. pose proof (Inv_reachable s R) as ((P & OK) & (RG & F) & _).
  assert (forall c, cpc (cl s c) <> PNone -> c < next_id s) as Known.
  { intros c N. destruct (Nat.lt_ge_cases c (next_id s)) as [L|G]; [exact L|]. apply F in G. congruence. }
  split.
  - intros St a Hh. apply stableb_spec in St. destruct St as (Hn & W & Pd & C).
    destruct a; cbn in Hh; try discriminate Hh; unfold step; rewrite P.
    + rewrite Hn, W. reflexivity.
    + rewrite Hn. reflexivity.
    + rewrite Hn. reflexivity.
    + destruct (mem_pair (c, e) (pending s)) eqn:M; [|reflexivity]. apply mem_pair_In in M.
      destruct (OK c) as [EV _]. rewrite EV, (Pd _ _ M). reflexivity.
    + destruct (mem_pair (c, e) (pending s)) eqn:M; [|reflexivity]. apply mem_pair_In in M. cbn.
      destruct (OK c) as [_ DN]. destruct (done_closed (cl s c)) eqn:D; [|reflexivity].
      assert (cpc (cl s c) = PGone) as G by (apply DN; reflexivity). rewrite (Pd _ _ M) in G. discriminate.
    + destruct (cpc (cl s c)) eqn:E; try reflexivity.
      assert (c < next_id s) as L by (apply Known; congruence).
      specialize (C c L). unfold client_restless in C. rewrite E in C. rewrite C. reflexivity.
    + rewrite Hn. destruct (cpc (cl s c)) eqn:E; try reflexivity.
      assert (c < next_id s) as L by (apply Known; congruence).
      specialize (C c L). unfold client_restless in C. rewrite E in C. discriminate.
  - intros H. apply stableb_spec.
    destruct (broadcaster_never_blocks false s R P) as (_ & BL & BH & _).
    assert (holder s = None) as Hn.
    { destruct (holder s) as [[e todo]|] eqn:Hh; [|reflexivity]. exfalso.
      assert (exists a, holder_action s = Some a /\ handler_step a = true) as [a [Ha Hs]].
      { unfold holder_action. rewrite Hh. destruct todo; eexists; split; reflexivity. }
      destruct (BH a Ha) as [s' [X _]]. rewrite (H a Hs) in X. discriminate. }
    split; [exact Hn|]. split; [|split].
    + destruct (waiting s) as [|e w] eqn:W; [reflexivity|]. exfalso.
      destruct (BL e Hn (or_introl eq_refl)) as [s' [X _]].
      rewrite (H (SendLock e) eq_refl) in X. discriminate.
    + intros c e I. pose proof (delivery_progress s c e R I) as D.
      destruct (cpc (cl s c)) eqn:E; [destruct D | | reflexivity | |].
      * destruct D as [s' [X _]]. rewrite (H (Deliver c e) eq_refl) in X. discriminate.
      * destruct (D Hn) as [s' [X _]]. rewrite (H (Exit c) eq_refl) in X. discriminate.
      * destruct D as [s' [X _]]. rewrite (H (Drop c e) eq_refl) in X. discriminate.
    + intros c _. unfold client_restless. destruct (cpc (cl s c)) eqn:E; try reflexivity.
      * destruct (cancelled (cl s c)) eqn:Cn; [|reflexivity]. exfalso.
        pose proof (H (SeeDone c) eq_refl) as X. unfold step in X. rewrite P, E, Cn in X. discriminate.
      * exfalso. pose proof (H (Exit c) eq_refl) as X. unfold step in X. rewrite P, Hn, E in X.
        destruct (OK c) as [_ DN]. destruct (done_closed (cl s c)) eqn:D; [|discriminate X].
        assert (cpc (cl s c) = PGone) as G by (apply DN; reflexivity). congruence.
Qed.

(* the states [audit] reports are the monitor's states at the OSettled observations *)
Lemma audit_monitor : forall h s0 i0 i s, In (i, s) (audit s0 i0 h) ->
  exists k, i = i0 + k /\ nth_error h k = Some OSettled /\ monitor s0 i0 (firstn (S k) h) = inl s.
Proof.
  induction h as [|o r IH]; intros s0 i0 i s H; cbn [audit] in H; [destruct H|].
  destruct (expand s0 o) as [acts|] eqn:X; [|destruct H].
  destruct (exec false s0 acts) as [s1|] eqn:Y; [|destruct H].
  apply in_app_or in H. destruct H as [H|H].
  - destruct o; try (destruct H; fail). destruct H as [H|[]]. inversion H; subst.
    cbn in X. inversion X; subst acts. cbn in Y. inversion Y; subst s0.
    exists 0. split; [lia|]. split; reflexivity.
  - destruct (IH _ _ _ _ H) as [k (A & B & C)]. exists (S k). split; [lia|]. split; [exact B|].
    change (firstn (S (S k)) (o :: r)) with (o :: firstn (S k) r). cbn [monitor]. rewrite X, Y. exact C.
Qed.

Theorem settled_points_judged h i s : In (i, s) (audit init 0 h) ->
  nth_error h i = Some OSettled /\ monitor init 0 (firstn (S i) h) = inl s /\ reachable false s /\
  (stableb s = true ->
     forall e snap c, In (e, snap) (log s) -> In c snap ->
       (delivered s c e \/ gone s c \/ (cpc (cl s c) = PBusy /\ In (c, e) (pending s))) /\
       (cpc (cl s c) = PLoop -> delivered s c e)).
Proof.
  intros H. destruct (audit_monitor _ _ _ _ _ H) as [k (A & B & C)]. cbn in A. subst k.
  split; [exact B|]. split; [exact C|]. pose proof (accepted_history_reachable _ _ C) as R.
  split; [exact R|]. intros St. apply stable_all_delivered; assumption.
Qed.

(* ================= 12. the handler comes to rest by itself, stalled clients notwithstanding ================= *)
Definition b2n (b : bool) : nat := if b then 1 else 0.

Lemma count_upd (g : client -> bool) f c v : forall l, NoDup l -> In c l ->
  length (filter (fun k => g (upd f c v k)) l) + b2n (g (f c)) = length (filter (fun k => g (f k)) l) + b2n (g v).
Proof.
  induction l as [|k r IH]; intros ND I; [destruct I|].
  inversion ND as [|? ? NI ND']; subst. cbn [filter]. destruct I as [->|I].
  - rewrite upd_same.
    assert (filter (fun k => g (upd f c v k)) r = filter (fun k => g (f k)) r) as Eq.
    { apply filter_ext_in. intros k Hk. rewrite upd_other; [reflexivity|]. intros ->. contradiction. }
    rewrite Eq. destruct (g v), (g (f c)); cbn; lia.
  - assert (k <> c) as NE by (intros ->; contradiction).
    rewrite (upd_other f c v k NE). specialize (IH ND' I).
    destruct (g (f k)); cbn [length]; lia.
Qed.

Lemma count_pc_upd p f n c v : c < n ->
  count_pc p (upd f c v) n + b2n (pc_eqb (cpc (f c)) p) = count_pc p f n + b2n (pc_eqb (cpc v) p).
Proof.
  intros L. unfold count_pc. apply (count_upd (fun x => pc_eqb (cpc x) p)); [apply seq_NoDup | apply in_seq; lia].
Qed.

Lemma length_remove_nat_le n l : length (remove_nat n l) <= length l.
Proof. unfold remove_nat. induction l as [|x r IH]; cbn; [lia|]. destruct (negb (x =? n)); cbn; lia. Qed.
Lemma length_remove_nat_lt n l : In n l -> length (remove_nat n l) < length l.
Proof.
  unfold remove_nat. induction l as [|x r IH]; cbn; [tauto|]. intros [->|I].
  - rewrite Nat.eqb_refl. cbn. pose proof (length_remove_nat_le n r) as Q. unfold remove_nat in Q. lia.
  - specialize (IH I). destruct (negb (x =? n)); cbn; lia.
Qed.

(* every step of the handler's own goroutines uses up part of the bound *)
Theorem handler_step_decreases s a s' : reachable false s ->
  handler_step a = true -> step false s a = Some s' -> rest_bound s' < rest_bound s.
Proof.
  intros R Hh H. pose proof (Inv_reachable s R) as ((P & OK) & (RG & F) & _).
  assert (forall c, cpc (cl s c) <> PNone -> c < next_id s) as Known.
  { intros c N. destruct (Nat.lt_ge_cases c (next_id s)) as [L|G]; [exact L|]. apply F in G. congruence. }
  unfold rest_bound, hold_work.
  destruct a; cbn in Hh; try discriminate Hh; inv_step H; cbn [pending holder waiting registered cl next_id with_pending with_cl with_panic].
  - (* SendLock *)
    match goal with X : mem_nat _ _ = true |- _ => apply mem_nat_In in X; pose proof (length_remove_nat_lt _ _ X) as LT end.
    set (K := 2 * length (registered s) + 4).
    assert (length (remove_nat e (waiting s)) * K + K <= length (waiting s) * K) as M.
    { replace (length (remove_nat e (waiting s)) * K + K) with (S (length (remove_nat e (waiting s))) * K) by (cbn; lia).
      apply Nat.mul_le_mono_r. lia. }
    unfold K in *. lia.
  - (* SendSpawn *) rewrite app_length. cbn [length]. lia.
  - (* SendUnlock *) cbn [length]. lia.
  - (* Deliver on a closed channel *) destruct (OK c) as [EV _]. congruence.
  - (* Deliver *)
    match goal with X : mem_pair _ _ = true |- _ => apply mem_pair_In in X; pose proof (length_remove_one _ _ X) as LR end.
    assert (c < next_id s) as L by (apply Known; congruence).
    match goal with |- context [upd (cl s) c ?v] =>
      pose proof (count_pc_upd PLoop (cl s) (next_id s) c v L) as C1;
      pose proof (count_pc_upd PExiting (cl s) (next_id s) c v L) as C2 end.
    match goal with X : cpc (cl s c) = PLoop |- _ => rewrite X in C1, C2 end. cbn in C1, C2. lia.
  - (* Drop *)
    match goal with X : _ && _ = true |- _ => apply andb_true_iff in X; destruct X as [M _] end.
    apply mem_pair_In in M. pose proof (length_remove_one _ _ M) as LR. lia.
  - (* SeeDone *) assert (c < next_id s) as L by (apply Known; congruence).
    pose proof (count_pc_upd PLoop (cl s) (next_id s) c (set_pc (cl s c) PExiting) L) as C1.
    pose proof (count_pc_upd PExiting (cl s) (next_id s) c (set_pc (cl s c) PExiting) L) as C2.
    match goal with X : cpc (cl s c) = PLoop |- _ => rewrite X in C1, C2 end. cbn in C1, C2. lia.
  - (* Exit, second close *) destruct (OK c) as [_ DN].
    assert (cpc (cl s c) = PGone) as G by (apply DN; assumption). congruence.
  - (* Exit *) assert (c < next_id s) as L by (apply Known; congruence).
    match goal with |- context [upd (cl s) c ?v] =>
      pose proof (count_pc_upd PLoop (cl s) (next_id s) c v L) as C1;
      pose proof (count_pc_upd PExiting (cl s) (next_id s) c v L) as C2 end.
    match goal with X : cpc (cl s c) = PExiting |- _ => rewrite X in C1, C2 end. cbn in C1, C2.
    pose proof (length_remove_nat_le c (registered s)) as LR.
    assert (length (waiting s) * (2 * length (remove_nat c (registered s)) + 4) <= length (waiting s) * (2 * length (registered s) + 4)) as M.
    { apply Nat.mul_le_mono_l. lia. }
    lia.
Qed.

(* a run made of handler steps only is at most rest_bound long: the handler cannot keep itself busy *)
Theorem handler_runs_terminate tr : forall s s', reachable false s -> exec false s tr = Some s' ->
  (forall a, In a tr -> handler_step a = true) -> length tr + rest_bound s' <= rest_bound s.
Proof.
  induction tr as [|a r IH]; intros s s' R H A; cbn in H.
  - inversion H; subst. cbn. lia.
  - destruct (step false s a) as [s1|] eqn:S1; [|discriminate].
    pose proof (handler_step_decreases s a s1 R (A a (or_introl eq_refl)) S1) as D.
    pose proof (IH s1 s' (reachable_step false s a s1 R S1) H (fun x Hx => A x (or_intror Hx))) as Q.
    cbn [length]. lia.
Qed.

(* as long as the handler is not at rest one of its goroutines can move *)
Lemma unstable_can_move s : reachable false s -> stableb s = false ->
  exists a s', handler_step a = true /\ step false s a = Some s'.
Proof.
  intros R U. pose proof (Inv_reachable s R) as ((P & OK) & _).
  destruct (broadcaster_never_blocks false s R P) as (_ & BL & BH & _).
  unfold stableb in U.
  destruct (holder s) as [[e todo]|] eqn:Hh.
  { assert (exists a, holder_action s = Some a /\ handler_step a = true) as [a [Ha Hs]].
    { unfold holder_action. rewrite Hh. destruct todo; eexists; split; reflexivity. }
    destruct (BH a Ha) as [s' [X _]]. exists a, s'. auto. }
  destruct (waiting s) as [|e w] eqn:W.
  2:{ destruct (BL e eq_refl (or_introl eq_refl)) as [s' [X _]]. exists (SendLock e), s'. auto. }
  destruct (held_up s) as [|[c e] r] eqn:HU.
  2:{ assert (In (c, e) (held_up s)) as I by (rewrite HU; left; reflexivity).
      unfold held_up in I. apply filter_In in I. destruct I as [I NS]. cbn in NS.
      apply negb_true_iff in NS. unfold stalledb in NS.
      pose proof (delivery_progress s c e R I) as D.
      destruct (cpc (cl s c)) eqn:E; [destruct D | | discriminate NS | |].
      - destruct D as [s' [X _]]. exists (Deliver c e), s'. auto.
      - destruct (D Hh) as [s' [X _]]. exists (Exit c), s'. auto.
      - destruct D as [s' [X _]]. exists (Drop c e), s'. auto. }
  apply negb_false_iff in U. apply existsb_exists in U. destruct U as [c [_ CR]].
  unfold client_restless in CR. destruct (cpc (cl s c)) eqn:E; try discriminate CR.
  - exists (SeeDone c). unfold step. rewrite P, E, CR. eexists. split; reflexivity.
  - exists (Exit c). unfold step. rewrite P, Hh, E. destruct (OK c) as [_ DN].
    destruct (done_closed (cl s c)) eqn:D.
    + assert (cpc (cl s c) = PGone) as G by (apply DN; reflexivity). congruence.
    + eexists. split; reflexivity.
Qed.

(* a handler step leaves every client it does not touch as it was *)
Lemma handler_step_frame s a s' c : handler_step a = true -> step false s a = Some s' ->
  touches a <> Some c -> cl s' c = cl s c.
Proof.
  intros Hh H T. destruct a; cbn in Hh; try discriminate Hh; inv_step H; cbn in *; try reflexivity.
  all: apply upd_other; congruence.
Qed.

(* From any reachable state the handler's own goroutines bring it to rest in at most rest_bound
   steps, no environment step needed - in particular no stalled write has to return - and the
   clients stalled in a write are exactly as they were. *)
Theorem handler_comes_to_rest s : reachable false s ->
  exists tr s', exec false s tr = Some s' /\ stableb s' = true /\
    (forall a, In a tr -> handler_step a = true) /\ length tr <= rest_bound s /\
    (forall c, cpc (cl s c) = PBusy -> cl s' c = cl s c).
Proof.
  remember (rest_bound s) as n eqn:N. assert (rest_bound s <= n) as B by lia. clear N.
  revert s B. induction n as [|n IH]; intros s B R.
  - destruct (stableb s) eqn:St.
    + exists [], s. split; [reflexivity|]. split; [exact St|]. split; [intros a []|]. split; [cbn; lia | auto].
    + destruct (unstable_can_move s R St) as [a [s1 [Hh X]]].
      pose proof (handler_step_decreases s a s1 R Hh X). lia.
  - destruct (stableb s) eqn:St.
    + exists [], s. split; [reflexivity|]. split; [exact St|]. split; [intros a []|]. split; [cbn; lia | auto].
    + destruct (unstable_can_move s R St) as [a [s1 [Hh X]]].
      pose proof (handler_step_decreases s a s1 R Hh X) as D.
      pose proof (reachable_step false s a s1 R X) as R1.
      destruct (IH s1 ltac:(lia) R1) as [tr [s' (E & S' & A & L & K)]].
      exists (a :: tr), s'. split; [cbn; rewrite X; exact E|]. split; [exact S'|]. split; [|split].
      * intros x [<-|Hx]; auto.
      * cbn [length]. lia.
      * intros c Bz.
        assert (cl s1 c = cl s c) as Fr.
        { apply (handler_step_frame s a s1 c Hh X). intros T.
          exact (handler_steps_need_no_stalled_client s a s1 R Hh X c T Bz). }
        rewrite <- Fr. apply K. rewrite Fr. exact Bz.
Qed.
