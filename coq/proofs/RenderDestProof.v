(* C10 - a render into a buffered writer owned by the caller: what reaches the writer behind it. *)
From Coq.Strings Require Import Byte String.
From Coq Require Import List NArith Bool Arith Lia.
Import ListNotations.
From V Require Import lib.Bytes spec.RenderSpec spec.RenderDestSpec model.Bufio model.RenderSkel model.RenderDest
                      proofs.BufioProof proofs.RenderSkelProof.
Local Open Scope nat_scope.

(* ---------- the caller's bufio.Writer as a destination ---------- *)
Section WrapP.
Variable inner_st : Type.
Variable inner : inner_st -> bytes -> nat * option err * inner_st.
Variable size : nat.
Hypothesis inner_le : forall s p, fst (fst (inner s p)) <= length p.

Notation wst := (bw * world inner_st)%type.
Notation iflush := (bw_flush inner_st inner).
Notation iwrite := (bw_write inner_st inner size).
Notation wstep := (wrap_step inner_st inner size).
Notation InvI := (Inv inner_st size).

Lemma wrap_count (s : wst) p b' w' : iwrite true (length p + 2) (fst s) (snd s) p = (b', w') ->
  exists t, fst (fst (wstep s p)) = length t /\ prefix t p /\ (berr b' = None -> t = p) /\
            recv w' ++ buf b' = (recv (snd s) ++ buf (fst s)) ++ t.
Proof.
  intros W. destruct (write_conserve inner_st inner size _ _ _ _ _ _ _ W) as [t [E [Pt Ft]]].
  exists t. unfold wrap_step. rewrite W. cbn [fst]. split; [|split; [exact Pt|split; [exact Ft|]]].
  - assert (L : length (recv w') + length (buf b') = length (recv (snd s)) + length (buf (fst s)) + length t).
    { rewrite <- !app_length, E, !app_length. lia. }
    lia.
  - rewrite E, app_assoc. reflexivity.
Qed.

(* the caller's bufio.Writer is itself a well-behaved io.Writer ... *)
Lemma wrap_le : forall s p, fst (fst (wstep s p)) <= length p.
Proof.
  intros s p. destruct (iwrite true (length p + 2) (fst s) (snd s) p) as [b' w'] eqn:W.
  destruct (wrap_count s p b' w' W) as [t [-> [Pt _]]]. apply prefix_length. exact Pt.
Qed.

(* ... that takes everything unless it reports an error *)
Lemma wrap_progresses : progresses wst wstep.
Proof.
  intros s p n s' Hp H.
  destruct (iwrite true (length p + 2) (fst s) (snd s) p) as [b' w'] eqn:W.
  destruct (wrap_count s p b' w' W) as [t [Hn [_ [Ft _]]]].
  unfold wrap_step in H. rewrite W in H. inversion H; subst n s'.
  assert (En : berr b' = None) by congruence.
  unfold wrap_step in Hn. rewrite W in Hn. cbn [fst] in Hn. rewrite Hn, (Ft En).
  destruct p; [contradiction|cbn; lia].
Qed.

(* the link between what templ's buffer was told by the caller's writer and what the writer behind that one did *)
Definition Link (w : world wst) : Prop :=
  recv w = recv (snd (sst w)) ++ buf (fst (sst w)) /\
  length (buf (fst (sst w))) <= size /\
  berr (fst (sst w)) = first_refusal (log (snd (sst w))) /\
  marks (snd (sst w)) = [] /\
  (no_spin wst w -> first_refusal (log w) = first_refusal (log (snd (sst w)))).

Lemma link_inv w : Link w -> InvI (recv w) (fst (sst w)) (snd (sst w)).
Proof.
  intros [R [Hl [He _]]]. split; [|split; assumption].
  exists []. rewrite app_nil_r. split; [exact R|reflexivity].
Qed.

Lemma iflush_marks b w b' w' : marks w = [] -> iflush b w = (b', w') -> marks w' = [].
Proof.
  apply (flush_pres inner_st inner (fun w => marks w = [])).
  intros w0 d p M. unfold sink_call. destruct (inner (sst w0) p) as [[n e] s']. exact M.
Qed.

Lemma iwrite_marks direct fuel b w s b' w' : marks w = [] -> iwrite direct fuel b w s = (b', w') -> marks w' = [].
Proof.
  apply (write_pres inner_st inner size (fun w => marks w = [])).
  - intros w0 d p M. unfold sink_call. destruct (inner (sst w0) p) as [[n e] s']. exact M.
  - intros w0 M. exact M.
Qed.

Lemma link_call w direct p : Link w -> Link (snd (sink_call wst wstep direct w p)).
Proof.
  intros L. pose proof (link_inv w L) as I. destruct L as [R [Hl [He [Mk Fr]]]].
  destruct (iwrite true (length p + 2) (fst (sst w)) (snd (sst w)) p) as [b' w1] eqn:W.
  destruct (wrap_count (sst w) p b' w1 W) as [t [Hn [Pt [Ft Et]]]].
  pose proof (write_inv inner_st inner size inner_le true _ _ _ _ _ _ _ I W) as [_ [Hl' He']].
  pose proof (iwrite_marks _ _ _ _ _ _ _ Mk W) as Mk'.
  assert (S : wstep (sst w) p = (length t, berr b', (b', w1))).
  { unfold wrap_step in Hn |- *. rewrite W in Hn |- *. cbn [fst] in Hn. rewrite Hn. reflexivity. }
  unfold sink_call. rewrite S. cbn [snd].
  unfold Link. cbn [sst recv log marks fst snd]. split; [|split; [exact Hl'|split; [exact He'|split; [exact Mk'|]]]].
  - rewrite (prefix_firstn _ _ Pt), Et, <- R. reflexivity.
  - intros Ns. assert (N0 : no_spin wst w).
    { intros Hin. apply Ns. cbn [log]. apply in_or_app. left. exact Hin. }
    rewrite first_refusal_app, (Fr N0), <- He.
    destruct (berr (fst (sst w))) as [x|] eqn:Eb.
    + rewrite (write_sticky inner_st inner size _ _ _ _ _ _ Eb) in W. inversion W; subst. exact He.
    + rewrite <- He'. destruct (berr b') as [y|] eqn:Eb'; [destruct direct; reflexivity|].
      rewrite (Ft eq_refl). cbn [refusal]. destruct direct; [reflexivity|]. rewrite Nat.ltb_irrefl. reflexivity.
Qed.

Lemma link_mark w k : Link w -> Link {| sst := sst w; recv := recv w; log := log w; marks := marks w ++ [k] |}.
Proof. intros L. exact L. Qed.

Lemma link_spin w : Link w -> Link {| sst := sst w; recv := recv w; log := log w ++ [LSpin]; marks := marks w |}.
Proof.
  intros [R [Hl [He [Mk _]]]]. unfold Link. cbn [sst recv log]. repeat (split; [assumption|]).
  intros Ns. exfalso. apply Ns. cbn [log]. apply in_or_app. right. left. reflexivity.
Qed.

Lemma link0 s0 : Link (wrap_world0 inner_st s0).
Proof. unfold Link, wrap_world0. cbn. repeat split; lia. Qed.

Section WrapRender.
Variable cap : nat.
Variable esc : bytes -> bytes.
Variable env : list nat -> N -> bytes * option N.
Variable benv : list nat -> N -> bool.
Variable senv : list nat -> N -> nat.
Variable cnt : list nat -> N -> nat.
Variable cancel : option N.
Hypothesis cap_pos : 0 < cap.
Notation denoteT := (denote esc env benv senv cnt cancel).

(* C10 for a render into the caller's bufio.Writer followed by the caller's Flush, stated on the writer behind it;
   and the caller's writer is clean again afterwards (flushed, or Reset after an error), so the next render into
   it starts exactly like this one *)
Theorem wrapped_spec pool choice g body (s0 : inner_st) :
  let o := render_wrapped inner_st inner size cap esc env benv senv cnt cancel pool choice g body s0 in
  spec_wrap_ok (fst (denoteT (Templ g body) [])) (snd (denoteT (Templ g body) [])) (host_errs (Templ g body))
               (wo_res o) (wo_fres o) (wo_got o) (wo_log1 o) (wo_log2 o) 0 /\
  wo_marks o = [] /\ wo_after o = bw_fresh.
Proof.
  unfold render_wrapped.
  destruct (render_top wst wstep cap true false esc env benv senv cnt cancel true pool choice g body (wrap_world0 inner_st s0))
    as [[res w'] pool'] eqn:R.
  pose proof (render_top_spec wst wstep cap true false esc env benv senv cnt cancel wrap_le cap_pos pool choice g body (wrap_world0 inner_st s0) res w' pool' eq_refl eq_refl R) as SP.
  pose proof (render_top_no_spin cap esc env benv senv cnt cancel cap_pos wst wstep true false wrap_le wrap_progresses
                pool choice g body (wrap_world0 inner_st s0) res w' pool' eq_refl R) as NS.
  pose proof (render_top_pres cap esc env benv senv cnt cancel wst wstep true false Link link_call link_mark link_spin
                _ _ _ _ _ _ _ _ _ (link0 s0) R) as L.
  pose proof (link_inv _ L) as I. destruct L as [Rw [Hl [He [Mk Fr]]]]. specialize (Fr NS).
  destruct (iflush (fst (sst w')) (snd (sst w'))) as [wb2 iw2] eqn:F. cbn [wo_res wo_fres wo_got wo_log1 wo_log2 wo_marks wo_after].
  pose proof (flush_inv inner_st inner size inner_le _ _ _ _ _ I F) as I2.
  destruct (flush_log inner_st inner _ _ _ _ F) as [l2 Hl2].
  assert (S2 : skipn (length (log (snd (sst w')))) (log iw2) = l2).
  { rewrite Hl2, skipn_app, Nat.sub_diag, skipn_all. reflexivity. }
  rewrite S2.
  destruct SP as [P1 [P2 [P3 P4]]].
  split; [|split].
  - unfold spec_wrap_ok. split; [|split; [|split; [|split; [|split]]]].
    + eapply prefix_trans; [exact (received_is_prefix _ _ _ _ _ I2)|exact P1].
    + intros Hr Hf. destruct (P2 Hr) as [G D]. split; [|exact D].
      rewrite <- G. eapply clean_means_all; [exact I2|exact Hf|eapply flush_clean; eassumption].
    + intros x Hx. apply P3. rewrite Fr. exact Hx.
    + intros Hn. apply P4. rewrite Fr. exact Hn.
    + rewrite <- Hl2. destruct I2 as [_ [_ X]]. exact X.
    + reflexivity.
  - eapply iflush_marks; eassumption.
  - destruct (berr wb2) eqn:E2; [reflexivity|].
    pose proof (flush_clean _ _ _ _ _ _ F E2) as B2. destruct wb2 as [bb be]. cbn in *. subst. reflexivity.
Qed.

(* which pooled buffer templ hands out is irrelevant here as well *)
Theorem wrapped_pool_irrelevant pool choice g body (s0 : inner_st) :
  render_wrapped inner_st inner size cap esc env benv senv cnt cancel pool choice g body s0
  = render_wrapped inner_st inner size cap esc env benv senv cnt cancel [] 0 g body s0.
Proof.
  unfold render_wrapped.
  pose proof (render_top_pool_irrelevant wst wstep cap true false esc env benv senv cnt cancel pool choice g body (wrap_world0 inner_st s0)) as PI.
  destruct (render_top wst wstep cap true false esc env benv senv cnt cancel true pool choice g body (wrap_world0 inner_st s0)) as [[r1 w1] p1].
  destruct (render_top wst wstep cap true false esc env benv senv cnt cancel true [] 0 g body (wrap_world0 inner_st s0)) as [[r2 w2] p2].
  cbn [fst] in PI. inversion PI; subst. reflexivity.
Qed.
End WrapRender.
End WrapP.

(* ---------- the caller's other destination objects ---------- *)
Lemma store_set_other {A} : forall (st : list A) i k x, k <> i -> nth_error (store_set A st i x) k = nth_error st k.
Proof.
  induction st as [|y r IH]; intros i k x Hk; [destruct i; reflexivity|].
  destruct i as [|i]; destruct k as [|k]; cbn [store_set nth_error]; try reflexivity; [contradiction|].
  apply IH. intros ->. apply Hk. reflexivity.
Qed.

Theorem on_slot_frame {A B} (f : A -> B * A) (st : list A) i k :
  k <> i -> nth_error (snd (on_slot A f st i)) k = nth_error st k.
Proof.
  intros Hk. unfold on_slot. destruct (nth_error st i) as [x|]; [|reflexivity].
  destruct (f x) as [o x']. cbn [snd]. apply store_set_other. exact Hk.
Qed.
