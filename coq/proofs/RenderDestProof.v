(* C10 - a render into a buffered writer owned by the caller: what reaches the writer behind it. *)
From Coq.Strings Require Import Byte String.
From Coq Require Import List NArith Bool Arith Lia.
Import ListNotations.
From V Require Import lib.Bytes spec.RenderSpec spec.RenderDestSpec model.Bufio model.RenderSkel model.RenderDest
                      proofs.BufioProof proofs.RenderSkelProof.
Local Open Scope nat_scope.

(* ---------- any property of the destination that every call on it preserves is preserved by a whole render ---------- *)
Section Preserve.
Variable sink_st : Type.
Variable sink : sink_st -> bytes -> nat * option err * sink_st.
Variable cap : nat.
Variable sw : bool.
Variable flusher : bool.
Variable esc : bytes -> bytes.
Variable env : list nat -> N -> bytes * option N.
Variable benv : list nat -> N -> bool.
Variable senv : list nat -> N -> nat.
Variable cnt : list nat -> N -> nat.
Variable cancel : option N.

Notation worldT := (world sink_st).
Notation rstateT := (rstate sink_st).
Notation runT := (run sink_st sink cap sw flusher esc env benv senv cnt cancel).
Notation seq_rT := (seq_r sink_st).

Variable P : worldT -> Prop.
Hypothesis P_call : forall w direct p, P w -> P (snd (sink_call sink_st sink direct w p)).
Hypothesis P_mark : forall w k, P w -> P {| sst := sst w; recv := recv w; log := log w; marks := marks w ++ [k] |}.
Hypothesis P_spin : forall w, P w -> P {| sst := sst w; recv := recv w; log := log w ++ [LSpin]; marks := marks w |}.

Lemma flush_pres b w b' w' : P w -> bw_flush sink_st sink b w = (b', w') -> P w'.
Proof.
  intros Pw H. unfold bw_flush in H.
  destruct (berr b); [inversion H; subst; exact Pw|].
  destruct (buf b) eqn:Bb; [inversion H; subst; exact Pw|]. rewrite <- Bb in H.
  pose proof (P_call w false (buf b) Pw) as P1.
  destruct (sink_call sink_st sink false w (buf b)) as [[n e] w1]. cbn [snd] in P1.
  destruct (match e with Some x => Some x | None => if n <? length (buf b) then Some EShortWrite else None end);
    inversion H; subst; exact P1.
Qed.

Lemma write_pres direct fuel : forall b w s b' w',
  P w -> bw_write sink_st sink cap direct fuel b w s = (b', w') -> P w'.
Proof.
  induction fuel as [|f IH]; intros b w s b' w' Pw H; cbn [bw_write] in H.
  - destruct (berr b); [inversion H; subst; exact Pw|].
    destruct (length s <=? cap - length (buf b)); inversion H; subst; [exact Pw|apply P_spin; exact Pw].
  - destruct (berr b); [inversion H; subst; exact Pw|].
    destruct (length s <=? cap - length (buf b)); [inversion H; subst; exact Pw|].
    destruct (direct && is_nil (buf b)).
    + pose proof (P_call w true s Pw) as P1.
      destruct (sink_call sink_st sink true w s) as [[n e] w1]. cbn [snd] in P1.
      eapply IH; [exact P1|exact H].
    + destruct (bw_flush sink_st sink {| buf := buf b ++ firstn (cap - length (buf b)) s; berr := None |} w) as [b1 w1] eqn:F.
      eapply IH; [|exact H]. eapply flush_pres; [exact Pw|exact F].
Qed.

Definition RP (st : rstateT) : Prop := P (rw st).

Lemma do_write_pres direct st s st' e : RP st -> do_write sink_st sink cap direct st s = (st', e) -> RP st'.
Proof.
  unfold RP, do_write. intros Pw H.
  destruct (bw_write sink_st sink cap direct (length s + 2) (rb st) (rw st) s) as [b w] eqn:W.
  inversion H; subst. cbn [rw]. eapply write_pres; eassumption.
Qed.

Lemma buffer_flush_pres st st' e : RP st -> buffer_flush sink_st sink flusher st = (st', e) -> RP st'.
Proof.
  unfold RP, buffer_flush. intros Pw H.
  destruct (bw_flush sink_st sink (rb st) (rw st)) as [b w] eqn:F.
  pose proof (flush_pres _ _ _ _ Pw F) as P1.
  destruct (berr b); inversion H; subst; cbn [rw]; [exact P1|].
  destruct flusher; [apply P_mark; exact P1|exact P1].
Qed.

Lemma seq_pres {A} (f : A -> rstateT -> rstateT * option err) (l : list A) :
  Forall (fun x => forall st st' e, RP st -> f x st = (st', e) -> RP st') l ->
  forall st st' e, RP st -> seq_rT A f l st = (st', e) -> RP st'.
Proof.
  induction 1 as [|x r Hx Hr IH]; intros st st' e Pw H; cbn [seq_r] in H.
  - inversion H; subst. exact Pw.
  - destruct (f x st) as [st1 e1] eqn:F. pose proof (Hx _ _ _ Pw F) as P1.
    destruct e1; [inversion H; subst; exact P1|]. eapply IH; eassumption.
Qed.

Lemma run_pres : forall n path st st' e, RP st -> runT n path st = (st', e) -> RP st'.
Proof.
  induction n as [s|id f l c|g body IHb|cs IHb|ch IHb|h e0|ops| |c thn els IHt IHe|id body IHb] using node_ind';
    intros path st st' e Pw H; cbn [run] in H.
  - eapply do_write_pres; eassumption.
  - destruct (env path id) as [v [x|]]; [inversion H; subst; exact Pw|eapply do_write_pres; eassumption].
  - pose proof (good_at (fun x p => forall st st' e, RP st -> runT x p st = (st', e) -> RP st') body path IHb) as Gb.
    destruct g; [destruct cancel|]; [inversion H; subst; exact Pw| |]; eapply (seq_pres _ body Gb); eassumption.
  - pose proof (good_at (fun x p => forall st st' e, RP st -> runT x p st = (st', e) -> RP st') cs path IHb) as Gb.
    eapply (seq_pres _ cs Gb); eassumption.
  - pose proof (good_at (fun x p => forall st st' e, RP st -> runT x p st = (st', e) -> RP st') ch path IHb) as Gb.
    destruct (seq_rT node (fun x => runT x path) ch st) as [st1 e1] eqn:S.
    pose proof (seq_pres _ ch Gb _ _ _ Pw S) as P1.
    destruct e1; [inversion H; subst; exact P1|]. eapply buffer_flush_pres; eassumption.
  - destruct e0; [inversion H; subst; exact Pw|eapply do_write_pres; eassumption].
  - eapply (seq_pres _ ops); [|exact Pw|exact H]. apply Forall_forall. intros o _ s1 s2 e1 P1 H1.
    destruct o; cbn [run_op] in H1; [eapply do_write_pres; eassumption|eapply do_write_pres; eassumption|inversion H1; subst; exact P1].
  - inversion H; subst. exact Pw.
  - pose proof (good_at (fun x p => forall st st' e, RP st -> runT x p st = (st', e) -> RP st') thn path IHt) as Gt.
    pose proof (good_at (fun x p => forall st st' e, RP st -> runT x p st = (st', e) -> RP st') els path IHe) as Ge.
    destruct (test benv senv path c); [eapply (seq_pres _ thn Gt)|eapply (seq_pres _ els Ge)]; eassumption.
  - eapply (seq_pres (fun k => seq_rT node (fun x => runT x (k :: path)) body) (seq 0 (cnt path id))); [|exact Pw|exact H].
    apply Forall_forall. intros k _ s1 s2 e1 P1 H1.
    eapply (seq_pres _ body); [|exact P1|exact H1].
    apply (good_at (fun x p => forall st st' e, RP st -> runT x p st = (st', e) -> RP st') body (k :: path) IHb).
Qed.

Theorem render_top_pres reset pool choice g body (w0 : worldT) res w' pool' :
  P w0 -> render_top sink_st sink cap sw flusher esc env benv senv cnt cancel reset pool choice g body w0 = (res, w', pool') -> P w'.
Proof.
  intros Pw H. unfold render_top in H. destruct (if g then cancel else None).
  - inversion H; subst. exact Pw.
  - destruct (acquire pool choice) as [b0 pool1].
    destruct (seq_rT node (fun x => runT x []) body {| rb := if reset then bw_reset b0 else b0; rw := w0 |}) as [st1 e] eqn:S.
    destruct (buffer_flush sink_st sink flusher st1) as [st2 fe] eqn:F. inversion H; subst.
    assert (P1 : RP st1).
    { eapply (seq_pres _ body); [| |exact S]; [|exact Pw]. apply Forall_forall. intros n _ s1 s2 e1. apply run_pres. }
    exact (buffer_flush_pres _ _ _ P1 F).
Qed.
End Preserve.

(* ---------- the caller's bufio.Writer as a destination ---------- *)
Lemma prefix_length (a b : bytes) : prefix a b -> length a <= length b.
Proof. intros [t ->]. rewrite app_length. lia. Qed.
Lemma prefix_firstn (a b : bytes) : prefix a b -> firstn (length a) b = a.
Proof. intros [t ->]. rewrite firstn_app, Nat.sub_diag, firstn_all. cbn. apply app_nil_r. Qed.

Section WrapP.
Variable inner_st : Type.
Variable inner : inner_st -> bytes -> nat * option err * inner_st.
Variable size : nat.
Hypothesis inner_le : forall s p, fst (fst (inner s p)) <= length p.

Notation wst := (bw * world inner_st)%type.
Notation iflush := (bw_flush inner_st inner).
Notation iwrite := (bw_write inner_st inner size).
Notation wstep := (wrap_step inner_st inner size).
Notation InvI := (Inv inner_st size).

Lemma write_sticky direct fuel b w s x : berr b = Some x -> iwrite direct fuel b w s = (b, w).
Proof. intros H. destruct fuel; cbn [bw_write]; rewrite H; reflexivity. Qed.

(* a flush moves bytes from the buffer to the writer behind it, and loses none *)
Lemma flush_conserve b w b' w' : iflush b w = (b', w') -> recv w' ++ buf b' = recv w ++ buf b.
Proof.
  intros H. unfold bw_flush in H.
  destruct (berr b); [inversion H; subst; reflexivity|].
  destruct (buf b) eqn:Bb; [inversion H; subst; rewrite Bb; reflexivity|]. rewrite <- Bb in *.
  unfold sink_call in H. destruct (inner (sst w) (buf b)) as [[n e] s'].
  destruct e as [x|].
  - inversion H; subst. cbn [recv buf]. rewrite <- app_assoc, firstn_skipn. reflexivity.
  - destruct (n <? length (buf b)) eqn:Lt.
    + inversion H; subst. cbn [recv buf]. rewrite <- app_assoc, firstn_skipn. reflexivity.
    + apply Nat.ltb_ge in Lt. inversion H; subst. cbn [recv buf]. rewrite firstn_all2 by exact Lt. apply app_nil_r.
Qed.

Lemma flush_err_sticky b w b' w' : iflush b w = (b', w') -> berr b' = None -> berr b = None.
Proof.
  intros H E. destruct (berr b) eqn:Eb; [|reflexivity].
  unfold bw_flush in H. rewrite Eb in H. inversion H; subst. congruence.
Qed.

(* a write consumes a prefix t of what it is offered - all of it unless an error is recorded - and t ends up
   behind the writer or in its buffer *)
Lemma write_conserve direct fuel : forall b w s b' w', iwrite direct fuel b w s = (b', w') ->
  exists t, recv w' ++ buf b' = recv w ++ buf b ++ t /\ prefix t s /\ (berr b' = None -> t = s).
Proof.
  induction fuel as [|f IH]; intros b w s b' w' H; cbn [bw_write] in H.
  - destruct (berr b) eqn:Eb.
    + inversion H; subst. exists []. rewrite app_nil_r. split; [reflexivity|]. split; [apply prefix_nil|congruence].
    + destruct (length s <=? size - length (buf b)); inversion H; subst; cbn [recv buf berr].
      * exists s. split; [reflexivity|]. split; [apply prefix_refl|reflexivity].
      * exists []. rewrite app_nil_r. split; [reflexivity|]. split; [apply prefix_nil|discriminate].
  - destruct (berr b) eqn:Eb.
    + inversion H; subst. exists []. rewrite app_nil_r. split; [reflexivity|]. split; [apply prefix_nil|congruence].
    + destruct (length s <=? size - length (buf b)).
      * inversion H; subst; cbn [recv buf berr]. exists s. split; [reflexivity|]. split; [apply prefix_refl|reflexivity].
      * destruct (direct && is_nil (buf b)) eqn:D.
        -- apply andb_prop in D as [_ Nil]. destruct (buf b) eqn:Bb; [|discriminate].
           unfold sink_call in H. destruct (inner (sst w) s) as [[n e] s'].
           destruct (IH _ _ _ _ _ H) as [t2 [E2 [P2 F2]]]. cbn [recv buf] in E2.
           exists (firstn n s ++ t2). split; [|split].
           ++ rewrite E2. cbn [app]. rewrite <- app_assoc. reflexivity.
           ++ rewrite <- (firstn_skipn n s) at 2. apply prefix_app_l. exact P2.
           ++ intros En. rewrite (F2 En). apply firstn_skipn.
        -- set (n := size - length (buf b)) in *.
           destruct (iflush {| buf := buf b ++ firstn n s; berr := None |} w) as [b1 w1] eqn:F.
           pose proof (flush_conserve _ _ _ _ F) as C1. cbn [buf] in C1.
           destruct (IH _ _ _ _ _ H) as [t2 [E2 [P2 F2]]].
           exists (firstn n s ++ t2). split; [|split].
           ++ rewrite E2, app_assoc, C1. rewrite <- !app_assoc. reflexivity.
           ++ rewrite <- (firstn_skipn n s) at 2. apply prefix_app_l. exact P2.
           ++ intros En. rewrite (F2 En). apply firstn_skipn.
Qed.

Lemma wrap_count (s : wst) p b' w' : iwrite true (length p + 2) (fst s) (snd s) p = (b', w') ->
  exists t, fst (fst (wstep s p)) = length t /\ prefix t p /\ (berr b' = None -> t = p) /\
            recv w' ++ buf b' = (recv (snd s) ++ buf (fst s)) ++ t.
Proof.
  intros W. destruct (write_conserve _ _ _ _ _ _ _ W) as [t [E [Pt Ft]]].
  exists t. unfold wrap_step. rewrite W. cbn [fst]. split; [|split; [exact Pt|split; [exact Ft|]]].
  - assert (L : length (recv w') + length (buf b') = length (recv (snd s)) + length (buf (fst s)) + length t).
    { rewrite <- !app_length, E, !app_length. lia. }
    lia.
  - rewrite E, app_assoc. reflexivity.
Qed.

(* the caller's bufio.Writer is itself a well-behaved io.Writer ... *)
Lemma wrap_le : forall s p, fst (fst (wstep s p)) <= length p.
Proof.
  intros s p. destruct (iwrite true (length p + 2) (fst s) (snd s) p) as [b' w'] eqn:W.
  destruct (wrap_count s p b' w' W) as [t [-> [Pt _]]]. apply prefix_length. exact Pt.
Qed.

(* ... that takes everything unless it reports an error *)
Lemma wrap_progresses : progresses wst wstep.
Proof.
  intros s p n s' Hp H.
  destruct (iwrite true (length p + 2) (fst s) (snd s) p) as [b' w'] eqn:W.
  destruct (wrap_count s p b' w' W) as [t [Hn [_ [Ft _]]]].
  unfold wrap_step in H. rewrite W in H. inversion H; subst n s'.
  assert (En : berr b' = None) by congruence.
  unfold wrap_step in Hn. rewrite W in Hn. cbn [fst] in Hn. rewrite Hn, (Ft En).
  destruct p; [contradiction|cbn; lia].
Qed.

(* the link between what templ's buffer was told by the caller's writer and what the writer behind that one did *)
Definition Link (w : world wst) : Prop :=
  recv w = recv (snd (sst w)) ++ buf (fst (sst w)) /\
  length (buf (fst (sst w))) <= size /\
  berr (fst (sst w)) = first_refusal (log (snd (sst w))) /\
  marks (snd (sst w)) = [] /\
  (no_spin wst w -> first_refusal (log w) = first_refusal (log (snd (sst w)))).

Lemma link_inv w : Link w -> InvI (recv w) (fst (sst w)) (snd (sst w)).
Proof.
  intros [R [Hl [He _]]]. split; [|split; assumption].
  exists []. rewrite app_nil_r. split; [exact R|reflexivity].
Qed.

Lemma iflush_marks b w b' w' : marks w = [] -> iflush b w = (b', w') -> marks w' = [].
Proof.
  apply (flush_pres inner_st inner (fun w => marks w = [])).
  intros w0 d p M. unfold sink_call. destruct (inner (sst w0) p) as [[n e] s']. exact M.
Qed.

Lemma iwrite_marks direct fuel b w s b' w' : marks w = [] -> iwrite direct fuel b w s = (b', w') -> marks w' = [].
Proof.
  apply (write_pres inner_st inner size (fun w => marks w = [])).
  - intros w0 d p M. unfold sink_call. destruct (inner (sst w0) p) as [[n e] s']. exact M.
  - intros w0 M. exact M.
Qed.

Lemma link_call w direct p : Link w -> Link (snd (sink_call wst wstep direct w p)).
Proof.
  intros L. pose proof (link_inv w L) as I. destruct L as [R [Hl [He [Mk Fr]]]].
  destruct (iwrite true (length p + 2) (fst (sst w)) (snd (sst w)) p) as [b' w1] eqn:W.
  destruct (wrap_count (sst w) p b' w1 W) as [t [Hn [Pt [Ft Et]]]].
  pose proof (write_inv inner_st inner size inner_le true _ _ _ _ _ _ _ I W) as [_ [Hl' He']].
  pose proof (iwrite_marks _ _ _ _ _ _ _ Mk W) as Mk'.
  assert (S : wstep (sst w) p = (length t, berr b', (b', w1))).
  { unfold wrap_step in Hn |- *. rewrite W in Hn |- *. cbn [fst] in Hn. rewrite Hn. reflexivity. }
  unfold sink_call. rewrite S. cbn [snd].
  unfold Link. cbn [sst recv log marks fst snd]. split; [|split; [exact Hl'|split; [exact He'|split; [exact Mk'|]]]].
  - rewrite (prefix_firstn _ _ Pt), Et, <- R. reflexivity.
  - intros Ns. assert (N0 : no_spin wst w).
    { intros Hin. apply Ns. cbn [log]. apply in_or_app. left. exact Hin. }
    rewrite first_refusal_app, (Fr N0), <- He.
    destruct (berr (fst (sst w))) as [x|] eqn:Eb.
    + rewrite (write_sticky _ _ _ _ _ _ Eb) in W. inversion W; subst. exact He.
    + rewrite <- He'. destruct (berr b') as [y|] eqn:Eb'; [destruct direct; reflexivity|].
      rewrite (Ft eq_refl). cbn [refusal]. destruct direct; [reflexivity|]. rewrite Nat.ltb_irrefl. reflexivity.
Qed.

Lemma link_mark w k : Link w -> Link {| sst := sst w; recv := recv w; log := log w; marks := marks w ++ [k] |}.
Proof. intros L. exact L. Qed.

Lemma link_spin w : Link w -> Link {| sst := sst w; recv := recv w; log := log w ++ [LSpin]; marks := marks w |}.
Proof.
  intros [R [Hl [He [Mk _]]]]. unfold Link. cbn [sst recv log]. repeat (split; [assumption|]).
  intros Ns. exfalso. apply Ns. cbn [log]. apply in_or_app. right. left. reflexivity.
Qed.

Lemma link0 s0 : Link (wrap_world0 inner_st s0).
Proof. unfold Link, wrap_world0. cbn. repeat split; lia. Qed.

Lemma iflush_log b w b' w' : iflush b w = (b', w') -> exists l2, log w' = log w ++ l2.
Proof.
  intros H. unfold bw_flush in H.
  destruct (berr b); [inversion H; subst; exists []; symmetry; apply app_nil_r|].
  destruct (buf b) eqn:Bb; [inversion H; subst; exists []; symmetry; apply app_nil_r|]. rewrite <- Bb in *.
  unfold sink_call in H. destruct (inner (sst w) (buf b)) as [[n e] s'].
  destruct (match e with Some x => Some x | None => if n <? length (buf b) then Some EShortWrite else None end);
    inversion H; subst; cbn [log]; eexists; reflexivity.
Qed.

Section WrapRender.
Variable cap : nat.
Variable esc : bytes -> bytes.
Variable env : list nat -> N -> bytes * option N.
Variable benv : list nat -> N -> bool.
Variable senv : list nat -> N -> nat.
Variable cnt : list nat -> N -> nat.
Variable cancel : option N.
Hypothesis cap_pos : 0 < cap.
Notation denoteT := (denote esc env benv senv cnt cancel).

(* C10 for a render into the caller's bufio.Writer followed by the caller's Flush, stated on the writer behind it;
   and the caller's writer is clean again afterwards (flushed, or Reset after an error), so the next render into
   it starts exactly like this one *)
Theorem wrapped_spec pool choice g body (s0 : inner_st) :
  let o := render_wrapped inner_st inner size cap esc env benv senv cnt cancel pool choice g body s0 in
  spec_wrap_ok (fst (denoteT (Templ g body) [])) (snd (denoteT (Templ g body) []))
               (wo_res o) (wo_fres o) (wo_got o) (wo_log1 o) (wo_log2 o) 0 /\
  wo_marks o = [] /\ wo_after o = bw_fresh.
Proof.
  unfold render_wrapped.
  destruct (render_top wst wstep cap true false esc env benv senv cnt cancel true pool choice g body (wrap_world0 inner_st s0))
    as [[res w'] pool'] eqn:R.
  pose proof (render_top_spec wst wstep cap true false esc env benv senv cnt cancel wrap_le pool choice g body (wrap_world0 inner_st s0) res w' pool' eq_refl eq_refl R) as SP.
  pose proof (render_top_no_spin wst wstep cap true false esc env benv senv cnt cancel wrap_le wrap_progresses cap_pos
                pool choice g body (wrap_world0 inner_st s0) res w' pool' eq_refl R) as NS.
  pose proof (render_top_pres wst wstep cap true false esc env benv senv cnt cancel Link link_call link_mark link_spin
                _ _ _ _ _ _ _ _ _ (link0 s0) R) as L.
  pose proof (link_inv _ L) as I. destruct L as [Rw [Hl [He [Mk Fr]]]]. specialize (Fr NS).
  destruct (iflush (fst (sst w')) (snd (sst w'))) as [wb2 iw2] eqn:F. cbn [wo_res wo_fres wo_got wo_log1 wo_log2 wo_marks wo_after].
  pose proof (flush_inv inner_st inner size inner_le _ _ _ _ _ I F) as I2.
  destruct (iflush_log _ _ _ _ F) as [l2 Hl2].
  assert (S2 : skipn (length (log (snd (sst w')))) (log iw2) = l2).
  { rewrite Hl2, skipn_app, Nat.sub_diag, skipn_all. reflexivity. }
  rewrite S2.
  destruct SP as [P1 [P2 [P3 P4]]].
  split; [|split].
  - unfold spec_wrap_ok. split; [|split; [|split; [|split; [|split]]]].
    + eapply prefix_trans; [exact (received_is_prefix _ _ _ _ _ I2)|exact P1].
    + intros Hr Hf. destruct (P2 Hr) as [G D]. split; [|exact D].
      rewrite <- G. eapply clean_means_all; [exact I2|exact Hf|eapply flush_clean; eassumption].
    + intros x Hx. apply P3. rewrite Fr. exact Hx.
    + intros Hn. apply P4. rewrite Fr. exact Hn.
    + rewrite <- Hl2. destruct I2 as [_ [_ X]]. exact X.
    + reflexivity.
  - eapply iflush_marks; eassumption.
  - destruct (berr wb2) eqn:E2; [reflexivity|].
    pose proof (flush_clean _ _ _ _ _ _ F E2) as B2. destruct wb2 as [bb be]. cbn in *. subst. reflexivity.
Qed.

(* which pooled buffer templ hands out is irrelevant here as well *)
Theorem wrapped_pool_irrelevant pool choice g body (s0 : inner_st) :
  render_wrapped inner_st inner size cap esc env benv senv cnt cancel pool choice g body s0
  = render_wrapped inner_st inner size cap esc env benv senv cnt cancel [] 0 g body s0.
Proof.
  unfold render_wrapped.
  pose proof (render_top_pool_irrelevant wst wstep cap true false esc env benv senv cnt cancel pool choice g body (wrap_world0 inner_st s0)) as PI.
  destruct (render_top wst wstep cap true false esc env benv senv cnt cancel true pool choice g body (wrap_world0 inner_st s0)) as [[r1 w1] p1].
  destruct (render_top wst wstep cap true false esc env benv senv cnt cancel true [] 0 g body (wrap_world0 inner_st s0)) as [[r2 w2] p2].
  cbn [fst] in PI. inversion PI; subst. reflexivity.
Qed.
End WrapRender.
End WrapP.

(* ---------- the caller's other destination objects ---------- *)
Lemma store_set_other {A} : forall (st : list A) i k x, k <> i -> nth_error (store_set A st i x) k = nth_error st k.
Proof.
  induction st as [|y r IH]; intros i k x Hk; [destruct i; reflexivity|].
  destruct i as [|i]; destruct k as [|k]; cbn [store_set nth_error]; try reflexivity; [contradiction|].
  apply IH. intros ->. apply Hk. reflexivity.
Qed.

Theorem on_slot_frame {A B} (f : A -> B * A) (st : list A) i k :
  k <> i -> nth_error (snd (on_slot A f st i)) k = nth_error st k.
Proof.
  intros Hk. unfold on_slot. destruct (nth_error st i) as [x|]; [|reflexivity].
  destruct (f x) as [o x']. cbn [snd]. apply store_set_other. exact Hk.
Qed.
