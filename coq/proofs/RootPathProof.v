(* Proofs for C15, root spelling (model/RootPath.v): whatever the -path argument and the working directory are, the
   handler gives the generator the root-relative slash path of the template; hence a run is the run of model/Walk.v
   with the specification's own oracle, and proofs/WalkProof.v applies. *)
From Coq.Strings Require Import Byte String.
From Coq Require Import List NArith ZArith Bool Lia Permutation Arith.
Import ListNotations.
From V Require Import lib.Bytes model.Walk spec.WalkSpec proofs.WalkProof model.RootPath.

(* a component filepath.Clean keeps where it is *)
Definition plain (c : bytes) : bool := negb (bytes_eqb c [] || bytes_eqb c dot || bytes_eqb c dotdot).

Lemma valid_plain c : valid_name c = true -> plain c = true.
Proof.
  unfold valid_name, plain. intros H. apply andb_prop in H as [H _]. apply andb_prop in H as [H H3].
  apply andb_prop in H as [H1 H2]. unfold dot, dotdot.
  apply negb_true_iff in H1, H2, H3. rewrite H1, H2, H3. reflexivity.
Qed.

Lemma clean_abs_plain st cs : forallb plain cs = true -> clean_abs st cs = rev st ++ cs.
Proof.
  revert st. induction cs as [|c r IH]; intros st H; cbn [clean_abs].
  - rewrite app_nil_r. reflexivity.
  - cbn [forallb] in H. apply andb_prop in H as [Hc Hr]. unfold plain in Hc. apply negb_true_iff in Hc.
    apply orb_false_iff in Hc as [Hc H3]. rewrite Hc, H3. rewrite (IH _ Hr). cbn [rev]. rewrite <- app_assoc. reflexivity.
Qed.

Lemma clean_abs_app st a b : clean_abs st (a ++ b) = clean_abs (rev (clean_abs st a)) b.
Proof.
  revert st. induction a as [|c r IH]; intros st; cbn [app clean_abs].
  - rewrite rev_involutive. reflexivity.
  - destruct (bytes_eqb c [] || bytes_eqb c dot); [apply IH|]. destruct (bytes_eqb c dotdot); apply IH.
Qed.

Lemma forallb_tl {A} (f : A -> bool) l : forallb f l = true -> forallb f (tl l) = true.
Proof. destruct l; cbn; [auto|]. intros H. apply andb_prop in H as [_ H]. exact H. Qed.

Lemma clean_abs_is_plain st cs : forallb plain st = true -> forallb plain (clean_abs st cs) = true.
Proof.
  revert st. induction cs as [|c r IH]; intros st H; cbn [clean_abs].
  - rewrite forallb_forall in *. intros x I. apply H. apply in_rev. exact I.
  - destruct (bytes_eqb c [] || bytes_eqb c dot) eqn:E1; [apply IH; exact H|].
    destruct (bytes_eqb c dotdot) eqn:E2; [apply IH; apply forallb_tl; exact H|].
    apply IH. cbn [forallb]. rewrite H. unfold plain. rewrite E1, E2. reflexivity.
Qed.

Lemma clean_is_plain cs : forallb plain (clean cs) = true.
Proof. apply clean_abs_is_plain. reflexivity. Qed.

(* Clean is idempotent *)
Lemma clean_clean cs : clean (clean cs) = clean cs.
Proof. unfold clean at 1. rewrite clean_abs_plain by apply clean_is_plain. reflexivity. Qed.

(* Clean(root + "/" + names) = Clean(root) + "/" + names *)
Lemma clean_root_names root ns : forallb plain ns = true -> clean (root ++ ns) = clean root ++ ns.
Proof.
  intros H. unfold clean. rewrite clean_abs_app. rewrite (clean_abs_plain _ _ H). rewrite rev_involutive. reflexivity.
Qed.

Lemma event_name_clean root p : forallb plain (full p) = true -> event_name root p = clean root ++ full p.
Proof.
  intros H. unfold event_name. rewrite (clean_root_names root _ H).
  rewrite (clean_root_names (clean root) _ H). rewrite clean_clean. reflexivity.
Qed.

Lemma rel_comps_prefix b t : rel_comps b (b ++ t) = t.
Proof. induction b as [|x b IH]; cbn; [destruct t; reflexivity|]. rewrite bytes_eqb_refl. exact IH. Qed.

Lemma rel_below root ns : forallb plain ns = true -> ns <> [] -> rel root (clean root ++ ns) = ns.
Proof.
  intros H N. unfold rel. rewrite (clean_root_names (clean root) _ H), clean_clean.
  rewrite rel_comps_prefix. destruct ns; [contradiction|reflexivity].
Qed.

Lemma is_abs_join x r : x <> [] -> is_abs (join_slash (x :: r)) = is_abs x.
Proof. intros N. destruct x as [|b x]; [contradiction|]. destruct r; reflexivity. Qed.

Lemma valid_not_abs c : valid_name c = true -> c <> [] /\ is_abs c = false.
Proof.
  unfold valid_name. intros H. apply andb_prop in H as [H H4]. apply andb_prop in H as [H _]. apply andb_prop in H as [H1 _].
  destruct c as [|b c]; [discriminate|]. split; [discriminate|]. cbn [forallb] in H4. apply andb_prop in H4 as [H4 _].
  apply andb_prop in H4 as [H4 _]. apply negb_true_iff in H4. exact H4.
Qed.

Lemma with_file_name_rel ns : ns <> [] -> forallb valid_name ns = true -> with_file_name (join_slash ns) = join_slash ns.
Proof.
  intros N H. destruct ns as [|x r]; [contradiction|]. cbn [forallb] in H. apply andb_prop in H as [H _].
  destruct (valid_not_abs _ H) as [A B]. unfold with_file_name. rewrite (is_abs_join _ _ A), B. reflexivity.
Qed.

Lemma forallb_valid_plain ns : forallb valid_name ns = true -> forallb plain ns = true.
Proof. rewrite !forallb_forall. intros H x I. apply valid_plain. apply H. exact I. Qed.

(* The file name the handler gives the generator is the root-relative slash path: whatever the spelling of the root
   (absolute or relative, clean or not) and whatever the working directory. *)
Theorem name_given_root_relative arg cwd p :
  forallb valid_name (full p) = true -> name_given arg cwd p = of_path p.
Proof.
  intros V. pose proof (forallb_valid_plain _ V) as P.
  assert (N : full p <> []) by (unfold full; destruct (fst p); discriminate).
  unfold name_given, of_path. rewrite (event_name_clean _ _ P).
  rewrite (clean_root_names _ _ P), clean_clean. rewrite (rel_below _ _ P N).
  apply with_file_name_rel; assumption.
Qed.

(* ---------- a run under a pointwise-equal generation function is the same run ---------- *)
Lemma effect_gen_ext g g' keep lazy t p :
  (source_of p = None -> forall x, g p x = g' p x) -> effect g keep lazy t p = effect g' keep lazy t p.
Proof.
  intros H. unfold effect. destruct (source_of p); [reflexivity|]. specialize (H eq_refl).
  destruct (t p) as [e|]; [|reflexivity]. destruct (target_of p); [|reflexivity]. destruct e; [|reflexivity].
  rewrite H. reflexivity.
Qed.

Lemma steps_gen_ext g g' keep lazy now w es c0 c :
  (forall p, In p es -> source_of p = None -> forall x, g p x = g' p x) ->
  incl (pending c0) es ->
  steps g keep lazy now w c0 c -> steps g' keep lazy now w c0 c /\ incl (pending c) es.
Proof.
  intros E I0 St. induction St as [c|c c' c'' St IH Sp].
  - split; [apply steps_refl|exact I0].
  - destruct (IH I0) as [St' I']. inversion Sp as [cc p rest Pe Lt|cc pre p a k post Ie]; subst.
    + assert (Ip : In p es) by (apply I'; rewrite Pe; left; reflexivity).
      split; [|cbn [pending]; intros q Iq; apply I'; rewrite Pe; right; exact Iq].
      eapply steps_step; [exact St'|].
      rewrite (effect_gen_ext g g' keep lazy (ctree c') p (E p Ip)). apply step_start; assumption.
    + split; [|cbn [pending]; exact I'].
      eapply steps_step; [exact St'|]. eapply step_finish; exact Ie.
Qed.

Lemma wf_valid_names generate lazy root l p :
  wf_tree generate lazy root l = true -> In p (map fst l) -> forallb valid_name (full p) = true.
Proof.
  unfold wf_tree. intros H I. apply andb_prop in H as [H _]. apply andb_prop in H as [H _]. apply andb_prop in H as [_ H].
  rewrite forallb_forall in H. apply in_map_iff in I as [[q e] [Eq I]]. cbn in Eq. subst q.
  specialize (H _ I). cbn [fst] in H. apply andb_prop in H as [H _]. exact H.
Qed.

Lemma walk_in_listing l p : In p (walk l) -> In p (map fst l).
Proof.
  unfold walk. rewrite in_map_iff. intros [[q e] [Eq I]]. cbn in Eq. subst q. apply filter_In in I as [I _].
  apply (Permutation_in _ (isort_perm l)) in I. apply (in_map fst) in I. exact I.
Qed.

(* a run started with any spelling of the root is a run with the specification's oracle *)
Lemma spelled_steps g0 arg cwd keep lazy now root l w es c :
  wf_tree (gen_rel g0) lazy root l = true ->
  (forall p, In p es -> In p (walk l) \/ late_gen (lookup l) p) ->
  steps (gen_spelled g0 arg cwd) keep lazy now w (start_cfg (lookup l) es) c ->
  steps (gen_rel g0) keep lazy now w (start_cfg (lookup l) es) c.
Proof.
  intros WF EV St.
  refine (proj1 (steps_gen_ext _ _ keep lazy now w es _ c _ _ St)); [|cbn [pending start_cfg]; apply incl_refl].
  intros p Ip S x. destruct (EV p Ip) as [W|[src [S' _]]]; [|congruence].
  unfold gen_spelled, gen_rel. rewrite (name_given_root_relative arg cwd p); [reflexivity|].
  eapply wf_valid_names; [exact WF|]. apply walk_in_listing. exact W.
Qed.

Theorem spelled_generate_spec g0 arg cwd keep lazy now root l w es c :
  wf_tree (gen_rel g0) lazy root l = true -> events_ok l es ->
  steps (gen_spelled g0 arg cwd) keep lazy now w (start_cfg (lookup l) es) c -> finished c ->
  spec_holds (gen_rel g0) keep l (ctree c) (exit_fail (cerrs c)).
Proof.
  intros WF EV St Fi. eapply generate_spec; [exact WF|exact EV| |exact Fi].
  eapply spelled_steps; [exact WF|exact (proj2 (proj2 EV))|exact St].
Qed.

(* two spellings of the root of one tree: same contents at every path, same exit status *)
Theorem spellings_agree g0 arg cwd arg' cwd' keep lazy lazy' now now' root root' l w w' es es' c c' :
  wf_tree (gen_rel g0) lazy root l = true -> wf_tree (gen_rel g0) lazy' root' l = true ->
  events_ok l es -> events_ok l es' ->
  steps (gen_spelled g0 arg cwd) keep lazy now w (start_cfg (lookup l) es) c -> finished c ->
  steps (gen_spelled g0 arg' cwd') keep lazy' now' w' (start_cfg (lookup l) es') c' -> finished c' ->
  (forall q, content_of (ctree c q) = content_of (ctree c' q)) /\ exit_fail (cerrs c) = exit_fail (cerrs c').
Proof.
  intros WF WF' EV EV' St Fi St' Fi'.
  exact (spec_times_irrelevant (gen_rel g0) keep l l _ _ _ _ (fun q => eq_refl)
           (spelled_generate_spec g0 arg cwd keep lazy now root l w es c WF EV St Fi)
           (spelled_generate_spec g0 arg' cwd' keep lazy' now' root' l w' es' c' WF' EV' St' Fi')).
Qed.
