(* C01 / C04 / C02 proofs over the WHOLE generator model (model/Gen.v gen_all): which write operations the generator
   performs around dynamic values.
   The generator's run is replayed as a list of write operations (op): WriteIndent / Write / WriteStringLiteral of the
   generator's own text, and the writes of user expressions.  [replay l] from the initial state reproduces the writer
   state (code, literals, positions) and the source-map additions of [gen_all f] exactly, and l is [Sunk]:
   - a WriteIndent whose text starts with the Buffer.WriteString( statement occurs only inside a sink group, where the
     written variable was assigned from the user expression through the matching typed declaration / sanitiser:
       text and default attributes  templ.JoinStringErrs(e)                     -> WriteString(templ.EscapeString(v))
       URL attributes               var v templ.SafeURL = e                     -> WriteString(templ.EscapeString(string(v)))
       on* / hx-on: attributes      var v templ.ComponentScript = e             -> WriteString(v.Call)
       style attribute              templruntime.SanitizeStyleAttributeValues(e)-> WriteString(v)
       script parts                 templruntime.ScriptContentInside/OutsideStringLiteral(e) -> WriteString(v)
   - an attribute sink group stands between the literal ` name=` + `"` and the literal `"`, inside the operations of
     the element whose name decides the sink kind (URL kind exactly when url_sink elem attr);
   - a WriteIndent whose text starts with templ_7745c5c3_Var or var templ_7745c5c3_Var occurs only inside a group,
     group k of the run uses number (first number + k), so the declared variable numbers are consecutive, increasing
     in emission order, and none is declared twice (fresh_vars at the level of the emitted operations). *)
From Coq.Strings Require Import Byte String.
From Coq Require Import List Arith NArith Bool Lia.
Import ListNotations.
From V Require Import lib.Bytes lib.Sexp model.Ast model.Url model.Gen.
From V Require Import proofs.RangeWriterProof proofs.GenAddsProof.
From V Require Import proofs.GenFreshProof.
Local Open Scope nat_scope.

(* ================= write operations ================= *)
Inductive op :=
| OI (lvl : nat) (s : bytes)      (* WriteIndent(level, generator text) *)
| OR (s : bytes)                  (* Write(generator text) *)
| OL (s : bytes)                  (* WriteStringLiteral(generator text) *)
| OE (e : expr)                   (* Write(e.Value) + sourceMap.Add: a user expression *)
| OEN (e : expr)                  (* the same, not added when the range is zero (writeExpressionAttributeValueDefault) *)
| OEI (lvl : nat) (e : expr) (s : bytes)   (* WriteIndent(level, s) mapped to e: raw Go code, case clauses *)
| OP (e : expr) (s : bytes).      (* the package clause *)
Definition run1 (o : op) : M :=
  match o with
  | OI lvl s => wi lvl s | OR s => wr s | OL s => wl s
  | OE e => wre e | OEN e => wre_nz e | OEI lvl e s => wie lvl e s
  | OP e s => wpk e s
  end.
Definition replay (l : list op) : M := seqs (map run1 l).
(* what a run is observed by: the writer (output chunks, literals, counter, position) and the source-map additions *)
Definition same (a b : gst) : Prop := w a = w b /\ adds a = adds b.

(* ---------- classification of generator text ---------- *)
Definition wpre : bytes := bs ("_, " ++ P ++ "Err = " ++ P ++ "Buffer.WriteString(").
Definition vpre : bytes := bs (P ++ "Var").
Definition is_writer (s : bytes) : bool := has_prefix wpre s.
Definition is_varline (s : bytes) : bool := has_prefix vpre s || has_prefix (bs "var " ++ vpre) s.
Definition nolf (s : bytes) : bool := forallb (fun b => negb (Byte.eqb b x0a)) s.
Definition or_ok (s : bytes) : bool := nolf s || forallb (fun b => Byte.eqb b x0a) s.
(* an operation that is neither a Buffer.WriteString statement nor a line about a generated variable, and (Write)
   does not start a new statement *)
Definition plain_op (o : op) : bool :=
  match o with
  | OI _ s => negb (is_writer s) && negb (is_varline s)
  | OR s => or_ok s
  | _ => true
  end.

(* ---------- the groups ---------- *)
Definition eh (lvl : nat) : list op :=
  [OI lvl (bs ("if " ++ P ++ "Err != nil {")); OR nlb; OI (S lvl) (bs ("return " ++ P ++ "Err")); OR nlb; OI lvl (bs "}"); OR nlb].
Definition xeh (lvl : nat) (fn : bytes) (e : expr) : list op :=
  [OI lvl (bs ("if " ++ P ++ "Err != nil {")); OR nlb;
   OI (S lvl) (bs "return" ++ [x09] ++ bs ("templ.Error{Err: " ++ P ++ "Err, FileName: ") ++ go_string fn
               ++ bs ", Line: " ++ dec (N.succ (e_tl e)) ++ bs ", Col: " ++ dec (e_tc e) ++ bs "}"); OR nlb;
   OI lvl (bs "}"); OR nlb].
(* text position and default attributes: JoinStringErrs, then EscapeString *)
Definition g_text (lvl : nat) (vn fn : bytes) (oe : op) (e : expr) : list op :=
  [OI lvl (bs "var " ++ vn ++ bs " string"); OR nlb;
   OI lvl (vn ++ bs (", " ++ P ++ "Err = templ.JoinStringErrs(")); oe; OR (bs ")"); OR nlb] ++ xeh lvl fn e ++
  [OI lvl (bs ("_, " ++ P ++ "Err = " ++ P ++ "Buffer.WriteString(templ.EscapeString(") ++ vn ++ bs "))"); OR nlb] ++ eh lvl.
Definition g_url (lvl : nat) (vn : bytes) (e : expr) : list op :=
  [OI lvl (bs "var " ++ vn ++ bs " templ.SafeURL = "); OE e; OR nlb;
   OI lvl (bs ("_, " ++ P ++ "Err = " ++ P ++ "Buffer.WriteString(templ.EscapeString(string(") ++ vn ++ bs ")))"); OR nlb] ++ eh lvl.
Definition g_on (lvl : nat) (vn : bytes) (e : expr) : list op :=
  [OI lvl (bs "var " ++ vn ++ bs " templ.ComponentScript = "); OE e; OR nlb;
   OI lvl (bs ("_, " ++ P ++ "Err = " ++ P ++ "Buffer.WriteString(") ++ vn ++ bs ".Call)"); OR nlb] ++ eh lvl.
Definition g_style (lvl : nat) (vn fn : bytes) (e : expr) : list op :=
  [OI lvl (bs "var " ++ vn ++ bs " string"); OR nlb;
   OI lvl (vn ++ bs (", " ++ P ++ "Err = templruntime.SanitizeStyleAttributeValues(")); OE e; OR (bs ")"); OR nlb] ++ xeh lvl fn e ++
  [OI lvl (bs ("_, " ++ P ++ "Err = " ++ P ++ "Buffer.WriteString(") ++ vn ++ bs ")"); OR nlb] ++ eh lvl.
Definition g_spart (lvl : nat) (vn fn : bytes) (e : expr) (inside : bool) : list op :=
  [OI lvl (vn ++ bs (", " ++ P ++ "Err := ") ++ bs (if inside then "templruntime.ScriptContentInsideStringLiteral" else "templruntime.ScriptContentOutsideStringLiteral") ++ bs "(");
   OE e; OR (bs ")"); OR nlb] ++ xeh lvl fn e ++
  [OI lvl (bs ("_, " ++ P ++ "Err = " ++ P ++ "Buffer.WriteString(") ++ vn ++ bs ")"); OR nlb] ++ eh lvl.
Inductive kind := KUrl | KOn | KStyle | KDefault.
Definition attr_kind (elem n : bytes) : kind :=
  if url_sink elem n then KUrl else if is_script_attr n then KOn else if beq n (bs "style") then KStyle else KDefault.
Definition g_attr (k : kind) (lvl : nat) (vn fn : bytes) (e : expr) : list op :=
  match k with KUrl => g_url lvl vn e | KOn => g_on lvl vn e | KStyle => g_style lvl vn fn e | KDefault => g_text lvl vn fn (OEN e) e end.
(* variables that are not sinks: the hoisted class list, a block passed to a call, the children of a template *)
Definition g_class (lvl : nat) (vn : bytes) (e : expr) : list op :=
  [OI lvl (bs "var " ++ vn ++ bs " = []any{"); OE e; OR (bs "}"); OR nlb;
   OI lvl (bs (P ++ "Err = templ.RenderCSSItems(ctx, " ++ P ++ "Buffer, ") ++ vn ++ bs "...)"); OR nlb] ++ eh lvl.
Definition g_callvar (lvl : nat) (vn : bytes) : list op :=
  [OI lvl (vn ++ bs (" := templruntime.GeneratedTemplate(func(" ++ P ++ "Input templruntime.GeneratedComponentInput) (" ++ P ++ "Err error) {"))].
Definition g_children (vn : bytes) : list op :=
  [OI 2 (vn ++ bs " := templ.GetChildren(ctx)"); OR nlb; OI 2 (bs "if " ++ vn ++ bs " == nil {"); OR nlb;
   OI 3 (vn ++ bs " = templ.NopComponent"); OR nlb].

(* ---------- the grammar.  Sunk ctx a b l: l uses the variable numbers a+1 .. b, in this order; ctx = Some elem inside
   the attribute list of element elem ---------- *)
Inductive Sunk : option bytes -> nat -> nat -> list op -> Prop :=
| S_nil c n : Sunk c n n []
| S_app c a b d l1 l2 : Sunk c a b l1 -> Sunk c b d l2 -> Sunk c a d (l1 ++ l2)
| S_one c n o : plain_op o = true -> Sunk c n n [o]
| S_expr elem v lvl n fn e :
    Sunk (Some elem) v (S v) ([OL ([x20] ++ hesc n ++ bs "="); OL (bs "\""")] ++ g_attr (attr_kind elem n) lvl (vname (S v)) fn e ++ [OL (bs "\""")])
| S_elem name a b l : Sunk (Some name) a b l -> Sunk None a b ([OL (bs "<" ++ hesc name)] ++ l ++ [OL (bs ">")])
| S_text v lvl fn e : Sunk None v (S v) (g_text lvl (vname (S v)) fn (OE e) e)
| S_spart v lvl fn e inside : Sunk None v (S v) (g_spart lvl (vname (S v)) fn e inside)
| S_class v lvl e : Sunk None v (S v) (g_class lvl (vname (S v)) e)
| S_callvar v lvl : Sunk None v (S v) (g_callvar lvl (vname (S v)))
| S_children v : Sunk None v (S v) (g_children (vname (S v))).

(* ================= replay ================= *)
Lemma replay_app l1 l2 g : replay (l1 ++ l2) g = replay l2 (replay l1 g).
Proof. revert g. induction l1 as [|o r IH]; intros g; [reflexivity|]. unfold replay in *. cbn [app map seqs fold_right]. unfold seq at 1 3. apply IH. Qed.
Lemma replay_one o g : replay [o] g = run1 o g.
Proof. reflexivity. Qed.
Lemma run1_keeps o g : vid (run1 o g) = vid g /\ fname (run1 o g) = fname g /\ cvar (run1 o g) = cvar g.
Proof.
  destruct o; cbn [run1]; try (repeat split; fail).
  - unfold wre_nz. destruct (zero_range e); repeat split.
  - unfold wpk. destruct (zero_range e); repeat split.
Qed.
Lemma replay_keeps l : forall g, vid (replay l g) = vid g /\ fname (replay l g) = fname g /\ cvar (replay l g) = cvar g.
Proof.
  induction l as [|o r IH]; intros g; [repeat split|]. change (o :: r) with ([o] ++ r). rewrite replay_app, replay_one.
  destruct (IH (run1 o g)) as (A & B & C). destruct (run1_keeps o g) as (A' & B' & C'). rewrite A, B, C. auto.
Qed.
Lemma same_refl g : same g g.
Proof. split; reflexivity. Qed.
Lemma same_trans a b c : same a b -> same b c -> same a c.
Proof. intros [A B] [C D]. split; congruence. Qed.
Lemma same_sym a b : same a b -> same b a.
Proof. intros [A B]. split; congruence. Qed.
Lemma same_upd f a b : same a b -> same (upd f a) (upd f b).
Proof. intros [A B]. split; cbn [upd w adds]; congruence. Qed.
Lemma same_wre e a b : same a b -> same (wre e a) (wre e b).
Proof. intros [A B]. unfold wre. split; cbn [add_map wr upd w adds]; rewrite ?A, ?B; reflexivity. Qed.
Lemma same_wie lvl e s a b : same a b -> same (wie lvl e s a) (wie lvl e s b).
Proof. intros [A B]. unfold wie. split; cbn [add_map upd w adds]; rewrite ?A, ?B; reflexivity. Qed.
Lemma run1_same o a b : same a b -> same (run1 o a) (run1 o b).
Proof.
  intros H. destruct o; cbn [run1]; try (apply same_upd; exact H); try (apply same_wre; exact H); try (apply same_wie; exact H).
  - unfold wre_nz. destruct (zero_range e); [apply same_upd|apply same_wre]; exact H.
  - unfold wpk. destruct (zero_range e); [apply same_upd; exact H|]. destruct H as [A B]. split; cbn [add_map wr upd w adds]; rewrite ?A, ?B; reflexivity.
Qed.
Lemma replay_same l : forall a b, same a b -> same (replay l a) (replay l b).
Proof.
  induction l as [|o r IH]; intros a b H; [exact H|]. change (o :: r) with ([o] ++ r). rewrite !replay_app, !replay_one.
  apply IH. apply run1_same. exact H.
Qed.

(* ================= the invariant ================= *)
Definition emits_at (c : option bytes) (m : M) (g : gst) : Prop :=
  exists l, same (m g) (replay l g) /\ Sunk c (vid g) (vid (m g)) l.
Definition emits (c : option bytes) (m : M) : Prop := forall g, emits_at c m g.

Lemma emits_skip c : emits c skip.
Proof. intros g. exists []. split; [apply same_refl|apply S_nil]. Qed.
Lemma emits_seq c a b : emits c a -> emits c b -> emits c (a ;; b).
Proof.
  intros Ha Hb g. destruct (Ha g) as (la & Sa & Ka). destruct (Hb (a g)) as (lb & Sb & Kb).
  exists (la ++ lb). unfold seq. split; [|eapply S_app; eassumption].
  rewrite replay_app. eapply same_trans; [exact Sb|]. apply replay_same. exact Sa.
Qed.
Lemma emits_seqs c l : Forall (emits c) l -> emits c (seqs l).
Proof. induction 1; cbn [seqs fold_right]; [apply emits_skip|apply emits_seq; assumption]. Qed.
Lemma emits_seqs_map {A} c (f : A -> M) l : (forall x, emits c (f x)) -> emits c (seqs (map f l)).
Proof. intros H. apply emits_seqs. apply Forall_forall. intros m Hm. apply in_map_iff in Hm. destruct Hm as (x & <- & _). apply H. Qed.
Lemma emits_op c o : plain_op o = true -> emits c (run1 o).
Proof.
  intros H g. exists [o]. split; [rewrite replay_one; apply same_refl|].
  destruct (run1_keeps o g) as (A & _). rewrite A. apply S_one. exact H.
Qed.
(* a group first (variable number vid+1), then the rest; h: what with_var / set_cvar do to the state before *)
Lemma emits_group_then c (m : M) (h : gst -> gst) (G : gst -> list op) (R : gst -> M) :
  (forall g, same (h g) g /\ vid (h g) = S (vid g)) ->
  (forall g, m g = R g (replay (G g) (h g))) ->
  (forall g, Sunk c (vid g) (S (vid g)) (G g)) ->
  (forall g0, emits c (R g0)) -> emits c m.
Proof.
  intros Hh Hm HG HR g. destruct (Hh g) as [Sh Vh]. unfold emits_at. rewrite Hm.
  set (g2 := replay (G g) (h g)). destruct (replay_keeps (G g) (h g)) as (V2 & _). fold g2 in V2.
  destruct (HR g g2) as (l2 & S2 & K2). exists (G g ++ l2). split.
  - rewrite replay_app. eapply same_trans; [exact S2|]. apply replay_same. unfold g2. apply replay_same. exact Sh.
  - eapply S_app; [apply HG|]. rewrite V2, Vh in K2. exact K2.
Qed.
Lemma emits_group c (m : M) (G : gst -> list op) :
  (forall g, m g = replay (G g) (set_vid (S (vid g)) g)) -> (forall g, Sunk c (vid g) (S (vid g)) (G g)) -> emits c m.
Proof.
  intros Hm HG. apply (emits_group_then c m (fun g => set_vid (S (vid g)) g) G (fun _ => skip)).
  - intros g. split; [split; reflexivity|reflexivity].
  - exact Hm.
  - exact HG.
  - intros _. apply emits_skip.
Qed.
Lemma emits_with_var_first c lvl (s : bytes -> bytes) (rest : bytes -> M) :
  (forall v, Sunk c v (S v) [OI lvl (s (vname (S v)))]) -> (forall v, emits c (rest (vname v))) ->
  emits c (with_var (fun vn => wi lvl (s vn) ;; rest vn)).
Proof.
  intros HG HR.
  apply (emits_group_then c _ (fun g => set_vid (S (vid g)) g) (fun g => [OI lvl (s (vname (S (vid g))))]) (fun g => rest (vname (S (vid g))))).
  - intros g. split; [split; reflexivity|reflexivity].
  - intros g. reflexivity.
  - intros g. apply HG.
  - intros g0. apply HR.
Qed.
Lemma emits_elem name s m : s = bs "<" ++ hesc name -> emits (Some name) m -> emits None (wl s ;; m ;; wls ">").
Proof.
  intros -> Hm g. set (g1 := wl (bs "<" ++ hesc name) g). destruct (Hm g1) as (l & Sl & Kl).
  exists ([OL (bs "<" ++ hesc name)] ++ l ++ [OL (bs ">")]). unfold seq. fold g1. split.
  - rewrite !replay_app, !replay_one. cbn [run1]. fold g1. apply (same_upd (wl_ (bs ">"))). exact Sl.
  - apply S_elem. exact Kl.
Qed.

Ltac by_emits := match goal with |- emits_at ?c ?m ?g => cut (emits c m); [let G := fresh "G" in intros G; apply G|] end.
Ltac plain := vm_compute; reflexivity.

Ltac em_hook := fail.
Ltac em_pre := fail.
Ltac em1 := first [ em_pre |
  lazymatch goal with
  | |- emits _ skip => apply emits_skip
  | |- emits _ (seq _ _) => apply emits_seq
  | |- emits ?c (wi ?l ?s) => apply (emits_op c (OI l s)); plain
  | |- emits ?c (wis ?l ?s) => apply (emits_op c (OI l (bs s))); plain
  | |- emits ?c (wr ?s) => apply (emits_op c (OR s)); plain
  | |- emits ?c (wrs ?s) => apply (emits_op c (OR (bs s))); plain
  | |- emits ?c nl => apply (emits_op c (OR nlb)); plain
  | |- emits ?c (wl ?s) => apply (emits_op c (OL s)); reflexivity
  | |- emits ?c (wls ?s) => apply (emits_op c (OL (bs s))); reflexivity
  | |- emits ?c (text ?s) => apply (emits_op c (OL (qesc s))); reflexivity
  | |- emits ?c (wre ?e) => apply (emits_op c (OE e)); reflexivity
  | |- emits ?c (wre_nz ?e) => apply (emits_op c (OEN e)); reflexivity
  | |- emits ?c (wie ?l ?e ?s) => apply (emits_op c (OEI l e s)); reflexivity
  | |- emits _ (seqs (map _ _)) => apply emits_seqs_map; intro
  | |- emits _ (match ?x with _ => _ end) => destruct x
  | |- emits _ ((fun _ => _) _) => cbv beta
  | |- _ => first [ assumption | em_hook ]
  end ].
Ltac em := repeat em1.

Lemma fname_wre_nz e g : fname (wre_nz e g) = fname g.
Proof. unfold wre_nz. destruct (zero_range e); reflexivity. Qed.
Ltac norm_m := cbv [g_text g_url g_on g_style g_spart g_class g_callvar g_children g_attr xeh eh]; cbn [app];
  cbv [replay map seqs fold_right run1 seq skip
                     with_var vname string_expr plain_write err_handler expr_err_handler wis wrs wls text nl];
  cbn [fname upd wi wr wl wre wie add_map set_vid set_cvar]; rewrite ?fname_wre_nz;
  cbn [fname upd wi wr wl wre wie add_map set_vid set_cvar]; cbn [app].

Lemma emits_err_handler c lvl : emits c (err_handler lvl).
Proof. unfold err_handler. em. Qed.
Ltac em_hook ::= lazymatch goal with |- emits _ (err_handler _) => apply emits_err_handler end.

(* ---------- the sinks, as the generator writes them ---------- *)
Theorem string_expr_ops lvl e g : all_ws (e_val e) = false ->
  string_expr lvl e g = replay (g_text lvl (vname (S (vid g))) (fname g) (OE e) e) (set_vid (S (vid g)) g).
Proof. intros H. unfold string_expr. rewrite H. norm_m. reflexivity. Qed.
Theorem attr_value_ops lvl elem n e g :
  attr_value lvl elem n e g = replay (g_attr (attr_kind elem n) lvl (vname (S (vid g))) (fname g) e) (set_vid (S (vid g)) g).
Proof.
  unfold attr_value, attr_kind. destruct (url_sink elem n); [norm_m; reflexivity|].
  destruct (is_script_attr n); [norm_m; reflexivity|]. destruct (beq n (bs "style")); norm_m; reflexivity.
Qed.
Theorem attr_expr_ops lvl elem n e g :
  (wl ([x20] ++ hesc n ++ bs "=") ;; wls "\""" ;; attr_value lvl elem n e ;; wls "\""") g =
  replay ([OL ([x20] ++ hesc n ++ bs "="); OL (bs "\""")] ++ g_attr (attr_kind elem n) lvl (vname (S (vid g))) (fname g) e ++ [OL (bs "\""")])
         (set_vid (S (vid g)) g).
Proof.
  unfold seq at 1 2 3. rewrite attr_value_ops. rewrite !replay_app. reflexivity.
Qed.
Lemma emits_attr_expr elem lvl n e : emits (Some elem) (wl ([x20] ++ hesc n ++ bs "=") ;; wls "\""" ;; attr_value lvl elem n e ;; wls "\""").
Proof.
  apply (emits_group (Some elem) _ (fun g => [OL ([x20] ++ hesc n ++ bs "="); OL (bs "\""")] ++ g_attr (attr_kind elem n) lvl (vname (S (vid g))) (fname g) e ++ [OL (bs "\""")])).
  - intros g. apply attr_expr_ops.
  - intros g. apply S_expr.
Qed.
Lemma emits_string_expr lvl e : emits None (string_expr lvl e).
Proof.
  destruct (all_ws (e_val e)) eqn:E.
  - unfold string_expr. rewrite E. apply emits_skip.
  - apply (emits_group None _ (fun g => g_text lvl (vname (S (vid g))) (fname g) (OE e) e)).
    + intros g. apply string_expr_ops. exact E.
    + intros g. apply S_text.
Qed.
Theorem script_part_ops lvl e tr inside g :
  script_part lvl (SGo e tr inside) g =
  (match tr with [] => skip | _ => text tr end) (replay (g_spart lvl (vname (S (vid g))) (fname g) e inside) (set_vid (S (vid g)) g)).
Proof. cbn [script_part]. norm_m. reflexivity. Qed.
Lemma emits_script_part lvl p : emits None (script_part lvl p).
Proof.
  destruct p as [v|e tr inside]; [cbn [script_part]; em|].
  apply (emits_group_then None _ (fun g => set_vid (S (vid g)) g) (fun g => g_spart lvl (vname (S (vid g))) (fname g) e inside)
           (fun _ => match tr with [] => skip | _ => text tr end)).
  - intros g. split; [split; reflexivity|reflexivity].
  - intros g. apply script_part_ops.
  - intros g. apply S_spart.
  - intros _. em.
Qed.

Ltac em_hook ::=
  lazymatch goal with
  | |- emits _ (err_handler _) => apply emits_err_handler
  | IH : forall _ _ _, emits _ (write_attrs _ _ _ _) |- emits _ (write_attrs _ _ _ _) => apply IH
  end.
Lemma emits_write_attrs : forall f lvl elem l, emits (Some elem) (write_attrs f lvl elem l).
Proof.
  induction f as [|f IH]; intros lvl elem l; cbn [write_attrs]; [apply emits_skip|].
  apply emits_seqs_map. intros a. destruct a; try solve [em].
  apply emits_attr_expr.
Qed.

(* the hoisted class lists *)
Lemma class_ops lvl e v g :
  (wi lvl (bs "var " ++ vname v ++ bs " = []any{") ;; wre e ;; wrs "}" ;; nl ;;
   wi lvl (bs (P ++ "Err = templ.RenderCSSItems(ctx, " ++ P ++ "Buffer, ") ++ vname v ++ bs "...)") ;; nl ;; err_handler lvl) g
  = replay (g_class lvl (vname v) e) g.
Proof. norm_m. reflexivity. Qed.
Lemma css_attrs_emits : forall f lvl l g,
  exists ops, same (snd (css_attrs f lvl l g)) (replay ops g) /\ Sunk None (vid g) (vid (snd (css_attrs f lvl l g))) ops.
Proof.
  induction f as [|f IH]; intros lvl l g; [exists []; split; [apply same_refl|apply S_nil]|].
  destruct l as [|a r]; [exists []; split; [apply same_refl|apply S_nil]|]. cbn [css_attrs].
  match goal with |- context [let '(a', g0) := ?X in _] =>
    assert (HX : exists ops, same (snd X) (replay ops g) /\ Sunk None (vid g) (vid (snd X)) ops); [|destruct X as [a' g1]; cbn [snd] in HX] end.
  - destruct a; try (exists []; split; [apply same_refl|apply S_nil]).
    + destruct (beq (hesc n) (bs "class")); [|exists []; split; [apply same_refl|apply S_nil]]. cbn [snd].
      change (bs (P ++ "Var") ++ decn (S (vid g))) with (vname (S (vid g))). rewrite class_ops.
      exists (g_class lvl (vname (S (vid g))) e). split; [apply replay_same; split; reflexivity|].
      destruct (replay_keeps (g_class lvl (vname (S (vid g))) e) (set_vid (S (vid g)) g)) as (V & _). rewrite V. apply S_class.
    + destruct (IH lvl th g) as (o1 & S1 & K1). destruct (css_attrs f lvl th g) as [th' g1]. cbn [snd] in *.
      destruct (IH lvl el g1) as (o2 & S2 & K2). destruct (css_attrs f lvl el g1) as [el' g2]. cbn [snd] in *.
      exists (o1 ++ o2). split; [|eapply S_app; eassumption].
      rewrite replay_app. eapply same_trans; [exact S2|]. apply replay_same. exact S1.
  - destruct HX as (o1 & S1 & K1). destruct (IH lvl r g1) as (o2 & S2 & K2). destruct (css_attrs f lvl r g1) as [r' g2]. cbn [snd] in *.
    exists (o1 ++ o2). split; [|eapply S_app; eassumption].
    rewrite replay_app. eapply same_trans; [exact S2|]. apply replay_same. exact S1.
Qed.
Lemma emits_css n lvl l (k : list attr -> M) : (forall a, emits None (k a)) ->
  emits None (fun g => let '(a', g0) := css_attrs n lvl l g in k a' g0).
Proof.
  intros H g. destruct (css_attrs_emits n lvl l g) as (o1 & S1 & K1). unfold emits_at.
  destruct (css_attrs n lvl l g) as [a' g0]. cbn [snd] in *.
  destruct (H a' g0) as (o2 & S2 & K2). exists (o1 ++ o2). split; [|eapply S_app; eassumption].
  rewrite replay_app. eapply same_trans; [exact S2|]. apply replay_same. exact S1.
Qed.

Ltac rd := let g := fresh "g" in intros g; unfold emits_at; cbv beta;
  match goal with |- exists l, same (?m g) (replay l g) /\ Sunk ?c _ _ l => change (emits_at c m g) end; by_emits.
Lemma emits_expr_err_handler c lvl e : emits c (expr_err_handler lvl e).
Proof. unfold expr_err_handler. rd. em. Qed.
Lemma emits_element_script c lvl l : emits c (element_script lvl l).
Proof. unfold element_script. em. Qed.
Lemma emits_call_plain c lvl e : emits c (call_plain lvl e).
Proof. unfold call_plain. em. Qed.
Lemma emits_templ_buffer c lvl : emits c (templ_buffer lvl).
Proof. unfold templ_buffer. em. Qed.

(* Write of the call line that names the block variable: no LF in a variable name *)
Lemma nolf_app a b : nolf (a ++ b) = nolf a && nolf b.
Proof. unfold nolf. apply forallb_app. Qed.
Lemma nolf_vname v : nolf (vname v) = true.
Proof.
  unfold vname. rewrite nolf_app. replace (nolf (bs (P ++ "Var"))) with true by (vm_compute; reflexivity). cbn [andb].
  unfold nolf. pose proof (decn_digits v) as H. rewrite forallb_forall in *. intros b Hb. specialize (H b Hb).
  destruct b; try reflexivity. vm_compute in H. discriminate.
Qed.
Lemma emits_render_with c v : emits c (wr (bs ".Render(templ.WithChildren(ctx, " ++ vname v ++ bs ("), " ++ P ++ "Buffer)"))).
Proof.
  apply (emits_op c (OR _)). cbn [plain_op]. unfold or_ok. rewrite !nolf_app, nolf_vname. vm_compute. reflexivity.
Qed.

Ltac em_hook ::=
  lazymatch goal with
  | |- emits _ (err_handler _) => apply emits_err_handler
  | |- emits _ (expr_err_handler _ _) => apply emits_expr_err_handler
  | |- emits _ (element_script _ _) => apply emits_element_script
  | |- emits _ (call_plain _ _) => apply emits_call_plain
  | |- emits _ (templ_buffer _) => apply emits_templ_buffer
  | |- emits None (string_expr _ _) => apply emits_string_expr
  | |- emits None (script_part _ _) => apply emits_script_part
  | |- emits None (fun g => let '(_, _) := css_attrs _ _ _ g in _) => apply emits_css; intro
  | |- emits _ (fun g => _ g) => rd
  | |- emits None (with_var (fun cn => wi _ (cn ++ _) ;; _)) => apply emits_with_var_first; [intro; apply S_callvar|intro]
  | IH : forall _ _ _, emits None (write_node _ _ _ _) |- emits None (write_node _ _ _ _) => apply IH
  | NA : forall _ _ _, emits None _ |- emits None ((fix wn (l : list node) (next : option node) {struct l} : M := _) _ _) => apply NA
  end.

Ltac em_pre ::=
  lazymatch goal with
  | |- emits _ (wr (bs ".Render(templ.WithChildren(ctx, " ++ vname _ ++ _)) => apply emits_render_with
  | |- emits None (wl (bs "<" ++ hesc ?name) ;; write_attrs _ _ ?name _ ;; wls ">") => apply (emits_elem name); [reflexivity|apply emits_write_attrs]
  | |- emits None (wls "<script" ;; write_attrs _ _ _ _ ;; wls ">") => apply (emits_elem (bs "script")); [vm_compute; reflexivity|apply emits_write_attrs]
  end.
Lemma emits_write_node : forall f lvl n next, emits None (write_node f lvl n next).
Proof.
  induction f as [|f IH]; intros lvl n next; [apply emits_skip|].
  assert (NA : forall lvl' l nx, emits None ((fix wn (l : list node) (next : option node) {struct l} : M :=
              match l with
              | [] => skip
              | c :: r => write_node f lvl' c (match r with x :: _ => Some x | [] => next end) ;; wn r next
              end) l nx)).
  { intros lvl'. induction l as [|c r IHl]; intros nx; [apply emits_skip|]. apply emits_seq; [apply IH|apply IHl]. }
  destruct n; cbn [write_node].
  all: em.
Qed.

Lemma emits_write_nodes f lvl : forall l next, emits None (write_nodes f lvl l next).
Proof. induction l as [|c r IH]; intros next; cbn [write_nodes]; [apply emits_skip|]. apply emits_seq; [apply emits_write_node|apply IH]. Qed.

Ltac em_pre ::= fail.
Ltac em_hook ::=
  lazymatch goal with
  | |- emits _ (err_handler _) => apply emits_err_handler
  | |- emits _ (templ_buffer _) => apply emits_templ_buffer
  | |- emits None (write_nodes _ _ _ _) => apply emits_write_nodes
  end.
(* the children variable of a template *)
Lemma emits_template_var ch :
  emits None (with_var (fun cv => fun g =>
    (wi 2 (cv ++ bs " := templ.GetChildren(ctx)") ;; nl ;; wi 2 (bs "if " ++ cv ++ bs " == nil {") ;; nl ;;
     wi 3 (cv ++ bs " = templ.NopComponent") ;; nl ;; wis 2 "}" ;; nl ;; wis 2 "ctx = templ.ClearChildren(ctx)" ;; nl ;;
     write_nodes 100 2 (strip_ws ch) None)
    (set_cvar cv g))).
Proof.
  apply (emits_group_then None _ (fun g => set_cvar (vname (S (vid g))) (set_vid (S (vid g)) g)) (fun g => g_children (vname (S (vid g))))
           (fun _ => wis 2 "}" ;; nl ;; wis 2 "ctx = templ.ClearChildren(ctx)" ;; nl ;; write_nodes 100 2 (strip_ws ch) None)).
  - intros g. split; [split; reflexivity|reflexivity].
  - intros g. unfold with_var, vname. cbv [replay g_children map seqs fold_right run1 seq skip]. reflexivity.
  - intros g. apply S_children.
  - intros _. em.
Qed.
Lemma emits_write_template last e ch : emits None (write_template last e ch).
Proof.
  unfold write_template. do 16 (apply emits_seq; [em|]). apply emits_seq; [apply emits_template_var|]. em.
Qed.
Lemma emits_go_block e : emits None (go_block e).
Proof. unfold go_block. em. Qed.
Lemma emits_write_css e name props : emits None (write_css e name props).
Proof. unfold write_css. em. Qed.
Lemma emits_write_script name params value fn : emits None (write_script name params value fn).
Proof. unfold write_script. cbv zeta. em. Qed.
Lemma emits_write_fnodes : forall l, emits None (write_fnodes l).
Proof.
  induction l as [|n r IH]; cbn [write_fnodes]; [apply emits_skip|]. apply emits_seq; [|exact IH].
  destruct n; [apply emits_go_block|apply emits_write_template|apply emits_write_css|apply emits_write_script].
Qed.
Ltac em_hook ::=
  lazymatch goal with
  | |- emits None (write_fnodes _) => apply emits_write_fnodes
  | |- emits None (go_block _) => apply emits_go_block
  | |- emits ?c (wpk ?e ?s) => apply (emits_op c (OP e s)); reflexivity
  end.
Lemma emits_gen_all f : emits None (gen_all f).
Proof. unfold gen_all. em. Qed.

(* ================= the whole file ================= *)
Theorem gen_ops fn f :
  exists l, same (gen_state fn f) (replay l (g_init fn)) /\ Sunk None 0 (vid (gen_state fn f)) l.
Proof. exact (emits_gen_all f (g_init fn)). Qed.
(* ... so the replayed operations give the code and the literals of generate *)
Lemma same_generate fn f l : same (gen_state fn f) (replay l (g_init fn)) ->
  generate fn f = (outtext (w (replay l (g_init fn))), rev (lits (w (replay l (g_init fn))))).
Proof. intros [A _]. rewrite <- A. reflexivity. Qed.

(* ================= what Sunk says ================= *)
Lemma Sunk_le c a b l : Sunk c a b l -> a <= b.
Proof. induction 1; lia. Qed.

(* ---------- every Buffer.WriteString statement sits in a sink group ---------- *)
Inductive sink : list op -> Prop :=
| sk_text lvl vn fn e : sink (g_text lvl vn fn (OE e) e)
| sk_attr lvl vn fn e : sink (g_text lvl vn fn (OEN e) e)
| sk_url lvl vn e : sink (g_url lvl vn e)
| sk_on lvl vn e : sink (g_on lvl vn e)
| sk_style lvl vn fn e : sink (g_style lvl vn fn e)
| sk_spart lvl vn fn e inside : sink (g_spart lvl vn fn e inside).
Lemma sink_attr k lvl vn fn e : sink (g_attr k lvl vn fn e).
Proof. destruct k; constructor. Qed.
Definition in_sink (l : list op) (o : op) : Prop := exists pre grp post, l = pre ++ grp ++ post /\ sink grp /\ In o grp.
Lemma in_sink_l l1 l2 o : in_sink l1 o -> in_sink (l1 ++ l2) o.
Proof. intros (pre & grp & post & -> & S & I). exists pre, grp, (post ++ l2). rewrite <- !app_assoc. auto. Qed.
Lemma in_sink_r l1 l2 o : in_sink l2 o -> in_sink (l1 ++ l2) o.
Proof. intros (pre & grp & post & -> & S & I). exists (l1 ++ pre), grp, post. rewrite <- !app_assoc. auto. Qed.
Lemma in_sink_self l o : sink l -> In o l -> in_sink l o.
Proof. intros S I. exists [], l, []. rewrite app_nil_r. auto. Qed.
Ltac not_writer H I :=
  cbn [In app] in I; repeat (destruct I as [I|I]; [first [discriminate I | injection I as <- <-; vm_compute in H; discriminate H]|]); destruct I.
Theorem Sunk_writers c a b l : Sunk c a b l ->
  forall lvl s, In (OI lvl s) l -> is_writer s = true -> in_sink l (OI lvl s).
Proof.
  induction 1; intros lv s I W.
  - destruct I.
  - apply in_app_or in I. destruct I as [I|I]; [apply in_sink_l; eauto|apply in_sink_r; eauto].
  - destruct I as [->|[]]. cbn [plain_op] in H. rewrite W in H. discriminate.
  - apply in_app_or in I. destruct I as [I|I]; [not_writer W I|].
    apply in_app_or in I. destruct I as [I|I]; [|not_writer W I].
    apply in_sink_r, in_sink_l, in_sink_self; [apply sink_attr|exact I].
  - apply in_app_or in I. destruct I as [I|I]; [not_writer W I|].
    apply in_app_or in I. destruct I as [I|I]; [|not_writer W I].
    apply in_sink_r, in_sink_l. eauto.
  - apply in_sink_self; [constructor|exact I].
  - apply in_sink_self; [constructor|exact I].
  - exfalso. unfold g_class, eh in I. not_writer W I.
  - exfalso. unfold g_callvar in I. not_writer W I.
  - exfalso. unfold g_children in I. not_writer W I.
Qed.

(* ---------- the variable lines: gap, group of number a+1, gap, group of number a+2, ..., tail ---------- *)
Definition novar (o : op) : bool := match o with OI _ s => negb (is_varline s) | _ => true end.
Inductive vgroup (v : nat) : list op -> Prop :=
| vg_text lvl fn oe e : vgroup v (g_text lvl (vname v) fn oe e)
| vg_url lvl e : vgroup v (g_url lvl (vname v) e)
| vg_on lvl e : vgroup v (g_on lvl (vname v) e)
| vg_style lvl fn e : vgroup v (g_style lvl (vname v) fn e)
| vg_spart lvl fn e inside : vgroup v (g_spart lvl (vname v) fn e inside)
| vg_class lvl e : vgroup v (g_class lvl (vname v) e)
| vg_callvar lvl : vgroup v (g_callvar lvl (vname v))
| vg_children : vgroup v (g_children (vname v)).
Inductive vseq : nat -> nat -> list op -> Prop :=
| vs_tail a t : forallb novar t = true -> vseq a a t
| vs_cons a b gap grp r : forallb novar gap = true -> vgroup (S a) grp -> vseq (S a) b r -> vseq a b (gap ++ grp ++ r).
Lemma vseq_prepend t a b l : forallb novar t = true -> vseq a b l -> vseq a b (t ++ l).
Proof.
  intros Ht H. destruct H as [a t2 H2|a b gap grp r Hg Hv Hr].
  - apply vs_tail. rewrite forallb_app, Ht, H2. reflexivity.
  - rewrite app_assoc. apply vs_cons; [rewrite forallb_app, Ht, Hg; reflexivity|exact Hv|exact Hr].
Qed.
Lemma vseq_app a b d l1 l2 : vseq a b l1 -> vseq b d l2 -> vseq a d (l1 ++ l2).
Proof.
  induction 1 as [a t Ht|a b gap grp r Hg Hv Hr IH]; intros H2.
  - apply vseq_prepend; assumption.
  - rewrite <- !app_assoc. apply vs_cons; [exact Hg|exact Hv|]. apply IH. exact H2.
Qed.
Lemma vseq_group v grp : vgroup (S v) grp -> vseq v (S v) grp.
Proof. intros H. rewrite <- (app_nil_r grp). apply (vs_cons v (S v) [] grp []); [reflexivity|exact H|apply vs_tail; reflexivity]. Qed.
Lemma vgroup_attr k v lvl fn e : vgroup v (g_attr k lvl (vname v) fn e).
Proof. destruct k; constructor. Qed.
Theorem Sunk_vars c a b l : Sunk c a b l -> vseq a b l.
Proof.
  induction 1.
  - apply vs_tail. reflexivity.
  - eapply vseq_app; eassumption.
  - apply vs_tail. cbn [forallb]. rewrite andb_true_r. destruct o; try reflexivity. cbn [plain_op novar] in *.
    apply andb_prop in H. tauto.
  - apply (vseq_prepend [_; _]); [reflexivity|]. eapply vseq_app; [apply vseq_group, vgroup_attr|apply vs_tail; reflexivity].
  - apply (vseq_prepend [_]); [reflexivity|]. eapply vseq_app; [exact IHSunk|apply vs_tail; reflexivity].
  - apply vseq_group. constructor.
  - apply vseq_group. constructor.
  - apply vseq_group. constructor.
  - apply vseq_group. constructor.
  - apply vseq_group. constructor.
Qed.

(* ================= the statements for props/ ================= *)
(* 4. gen_sinks_escaped *)
Theorem gen_sinks_escaped fn f :
  exists l, same (gen_state fn f) (replay l (g_init fn)) /\ Sunk None 0 (vid (gen_state fn f)) l /\
    forall lvl s, In (OI lvl s) l -> is_writer s = true -> in_sink l (OI lvl s).
Proof. destruct (gen_ops fn f) as (l & A & B). exists l. split; [exact A|]. split; [exact B|]. apply (Sunk_writers _ _ _ _ B). Qed.
(* 3. fresh_vars at the level of the emitted operations *)
Theorem fresh_vars_ops fn f :
  exists l, same (gen_state fn f) (replay l (g_init fn)) /\ vseq 0 (vid (gen_state fn f)) l.
Proof. destruct (gen_ops fn f) as (l & A & B). exists l. split; [exact A|]. apply (Sunk_vars _ _ _ _ B). Qed.

(* the attribute and text occurrences *)
Theorem attr_occurrence f lvl elem n e g :
  write_attrs (S f) lvl elem [AExpr n e] g =
  replay ([OL ([x20] ++ hesc n ++ bs "="); OL (bs "\""")] ++ g_attr (attr_kind elem n) lvl (vname (S (vid g))) (fname g) e ++ [OL (bs "\""")])
         (set_vid (S (vid g)) g).
Proof. rewrite <- attr_expr_ops. reflexivity. Qed.
Theorem url_kind_iff elem n : attr_kind elem n = KUrl <-> url_sink elem n = true.
Proof.
  unfold attr_kind. destruct (url_sink elem n); [split; reflexivity|].
  destruct (is_script_attr n); [split; discriminate|]. destruct (beq n (bs "style")); split; discriminate.
Qed.
Theorem text_occurrence f lvl e t next g : all_ws (e_val e) = false ->
  write_node (S f) lvl (NStr e t) next g =
  (match t with SpNone => skip | _ => if inline_or_text next then wl [x20] else skip end)
    (replay (g_text lvl (vname (S (vid g))) (fname g) (OE e) e) (set_vid (S (vid g)) g)).
Proof.
  intros H. cbn [write_node trail_of]. unfold seq. rewrite string_expr_ops by exact H.
  destruct t; reflexivity.
Qed.

(* non-vacuity: a bare Buffer.WriteString(x) is not Sunk *)
Lemma sink_length grp : sink grp -> 11 <= length grp.
Proof. intros H. destruct H; cbn; lia. Qed.
Lemma bare_write_not_sunk c a b : ~ Sunk c a b [OI 0 (wpre ++ bs "x)")].
Proof.
  intros H. destruct (Sunk_writers _ _ _ _ H 0 (wpre ++ bs "x)") (or_introl eq_refl) eq_refl) as (pre & grp & post & E & S & _).
  apply sink_length in S. apply (f_equal (@length op)) in E. rewrite !app_length in E. cbn [length] in E. lia.
Qed.
Lemma ex_kinds :
  attr_kind (bs "a") (bs "href") = KUrl /\ attr_kind (bs "A") (bs "HREF") = KUrl /\ attr_kind (bs "form") (bs "action") = KUrl /\
  attr_kind (bs "div") (bs "href") = KDefault /\ attr_kind (bs "button") (bs "onclick") = KOn /\ attr_kind (bs "p") (bs "style") = KStyle.
Proof. repeat split; vm_compute; reflexivity. Qed.
