(* Proofs about the handler behind its HTTP transport (model/SseTransport.v). *)
From Coq Require Import List Arith Bool Lia.
Import ListNotations.
From V Require Import model.Sse model.SseTransport spec.Browser proofs.SseProof.

Lemma setf_same {A} (f : nat -> A) c v : setf f c v c = v.
Proof. unfold setf. rewrite Nat.eqb_refl. reflexivity. Qed.
Lemma setf_other {A} (f : nat -> A) c v k : k <> c -> setf f c v k = f k.
Proof. unfold setf. intros H. apply Nat.eqb_neq in H. rewrite H. reflexivity. Qed.

Lemma expired_none cfg ts c : wdl cfg = None -> expired cfg ts c = false.
Proof. unfold expired. intros ->. reflexivity. Qed.

(* a timed step is a (possibly empty) handler-level schedule *)
Lemma tstep_base cfg ts ta ts' : tstep cfg ts ta = Some ts' ->
  exec false (base ts) (base_actions cfg ts ta) = Some (base ts').
Proof.
  intros H. destruct ta as [a|dt]; [|inversion H; subst; reflexivity].
  destruct a; cbn [tstep base_actions] in *;
  try (destruct (step false (base ts) _) as [s1|] eqn:S; [|discriminate]; inversion H; subst; cbn; rewrite S; reflexivity).
  - destruct (step false (base ts) (WriteOK c)) as [s1|] eqn:S; [|discriminate].
    destruct (expired cfg ts c).
    + destruct (step false s1 (Cancel c)) as [s2|] eqn:S2; [|discriminate]. inversion H; subst. cbn. rewrite S, S2. reflexivity.
    + inversion H; subst. cbn. rewrite S. reflexivity.
  - destruct (left ts c || expired cfg ts c); [|discriminate].
    destruct (step false (base ts) (WriteErr c)) as [s1|] eqn:S; [|discriminate]. inversion H; subst. cbn. rewrite S. reflexivity.
Qed.

Lemma texec_base cfg : forall tr ts ts', texec cfg ts tr = Some ts' -> exists btr, exec false (base ts) btr = Some (base ts').
Proof.
  induction tr as [|a r IH]; intros ts ts' H; cbn in H.
  - inversion H; subst. exists []. reflexivity.
  - destruct (tstep cfg ts a) as [ts1|] eqn:S; [|discriminate].
    destruct (IH _ _ H) as [btr X]. exists (base_actions cfg ts a ++ btr).
    eapply exec_app; [apply tstep_base; exact S | exact X].
Qed.

Lemma treachable_base cfg ts : treachable cfg ts -> reachable false (base ts).
Proof. intros [tr H]. destruct (texec_base _ _ _ _ H) as [btr X]. exists btr. exact X. Qed.

Lemma texec_invariant cfg (P : tstate -> Prop) :
  (forall ts a ts', P ts -> tstep cfg ts a = Some ts' -> P ts') ->
  forall tr ts0 ts, P ts0 -> texec cfg ts0 tr = Some ts -> P ts.
Proof.
  intros HS. induction tr as [|a r IH]; intros ts0 ts H0 H; cbn in H.
  - inversion H; subst. exact H0.
  - destruct (tstep cfg ts0 a) as [ts1|] eqn:S1; [|discriminate]. exact (IH ts1 ts (HS _ _ _ H0 S1) H).
Qed.

(* per client: the handler's goroutine, what it is writing, what its browser has read, whether the browser left *)
Definition cinv (x : client) (w : option nat) (bg : list nat) (lf : bool) : Prop :=
  ev_closed x = false /\
  (cancelled x = true -> lf = true) /\
  (cpc x = PExiting \/ cpc x = PGone -> lf = true) /\
  (forall e, In e (got x) -> In e bg \/ (cpc x = PBusy /\ w = Some e) \/ lf = true).

Definition TI (ts : tstate) : Prop := forall c, cinv (cl (base ts) c) (writing ts c) (bgot ts c) (left ts c).

Lemma TI_init : TI tinit.
Proof. intros c. repeat split; cbn; try discriminate; intuition discriminate. Qed.

Ltac split_k k c :=
  let NE := fresh "NE" in
  destruct (Nat.eq_dec k c) as [->|NE];
  [rewrite ?upd_same, ?setf_same | rewrite ?upd_other, ?setf_other by exact NE].

Lemma TI_step cfg ts a ts' : wdl cfg = None -> TI ts -> tstep cfg ts a = Some ts' -> TI ts'.
Proof.
  intros W I H. destruct a as [a|dt]; [|inversion H; subst; exact I].
  destruct a; cbn [tstep] in H; rewrite ?(expired_none cfg ts _ W), ?orb_false_r in H.
  all: try (destruct (left ts c) eqn:LF; [|discriminate]).
  all: destruct (step false (base ts) _) as [s1|] eqn:S; [|discriminate]; inversion H; subst; clear H.
  all: inv_step S; intros k; cbn; pose proof (I k) as Ik.
  all: try exact Ik.
  all: try (destruct (writing ts c) as [w|] eqn:WR).
  all: try (split_k k c; [|exact Ik]).
  all: try (split_k k (next_id (base ts)); [|exact Ik]).
  all: unfold cinv in *; cbn.
  all: destruct Ik as (I0 & I1 & I2 & I3).
  all: repeat match goal with |- _ /\ _ => split end; intros; auto; try congruence.
  all: repeat match goal with
       | H : In _ (_ ++ [_]) |- _ => apply in_app_or in H; destruct H as [H|[H|[]]]
       | H : forall e, In e ?g -> _, H1 : In ?x ?g |- _ => specialize (H x H1)
       end.
  all: rewrite ?in_app_iff; cbn.
  all: try solve [intuition (subst; try congruence)].
Qed.

Lemma TI_reachable cfg ts : wdl cfg = None -> treachable cfg ts -> TI ts.
Proof.
  intros W [tr H]. eapply texec_invariant; [|exact TI_init|exact H].
  intros ts0 a ts1 I S. eapply TI_step; eauto.
Qed.

(* ================= no write deadline: the server side never ends a healthy browser's stream ================= *)
Theorem transport_keeps_browser cfg ts c : wdl cfg = None -> treachable cfg ts ->
  left ts c = false -> cpc (cl (base ts) c) <> PNone ->
  (cpc (cl (base ts) c) = PLoop \/ cpc (cl (base ts) c) = PBusy) /\
  cancelled (cl (base ts) c) = false /\ In c (registered (base ts)).
Proof.
  intros W R L N. pose proof (TI_reachable _ _ W R c) as (_ & I1 & I2 & _).
  assert (cpc (cl (base ts) c) = PLoop \/ cpc (cl (base ts) c) = PBusy) as P.
  { destruct (cpc (cl (base ts) c)) eqn:E; auto; try congruence.
    - assert (left ts c = true) by (apply I2; auto). congruence.
    - assert (left ts c = true) by (apply I2; auto). congruence. }
  split; [exact P|]. split.
  - destruct (cancelled (cl (base ts) c)) eqn:E; [|reflexivity]. assert (left ts c = true) by (apply I1; reflexivity). congruence.
  - apply treachable_base in R. apply Inv_reachable in R. destruct R as (_ & (RG & _) & _).
    apply RG. unfold connected. tauto.
Qed.

(* ================= ... and once nothing is in flight its browser has read every broadcast ================= *)
Theorem transport_browser_has_every_event cfg ts : wdl cfg = None -> treachable cfg ts ->
  pending (base ts) = [] -> holder (base ts) = None ->
  forall e snap c, In (e, snap) (log (base ts)) -> In c snap ->
    left ts c = false -> cpc (cl (base ts) c) <> PBusy -> In e (bgot ts c).
Proof.
  intros W R P Hd e snap c A B L PC.
  pose proof (TI_reachable _ _ W R c) as (_ & _ & I2 & I3).
  destruct (quiescent_all_delivered _ (treachable_base _ _ R) P Hd e snap c A B) as [D|G].
  - destruct (I3 e D) as [X|[[X _]|X]]; [exact X | congruence | congruence].
  - unfold gone in G. assert (left ts c = true) by (apply I2; auto). congruence.
Qed.

(* ================= a write deadline: past it the browser never reads anything again ================= *)
Definition past_deadline (d : nat) (ts : tstate) (c : nat) : Prop :=
  c < next_id (base ts) /\ opened ts c + d <= now ts.

Lemma step_next_id old s a s' : step old s a = Some s' -> next_id s <= next_id s'.
Proof. intros H. inv_step H; cbn; lia. Qed.

Lemma past_deadline_step cfg d ts a ts' c : wdl cfg = Some d -> tstep cfg ts a = Some ts' ->
  past_deadline d ts c -> past_deadline d ts' c /\ bgot ts' c = bgot ts c.
Proof.
  intros W H [LT EX]. unfold past_deadline.
  destruct a as [a|dt]; [|inversion H; subst; cbn; repeat split; [exact LT|lia]].
  assert (forall k, k = c -> expired cfg ts k = true) as XP.
  { intros k ->. unfold expired. rewrite W. apply Nat.leb_le. exact EX. }
  destruct a; cbn [tstep] in H.
  all: try (destruct (step false (base ts) _) as [s1|] eqn:S; [|discriminate]).
  all: try (pose proof (step_next_id _ _ _ _ S) as NI).
  all: try (inversion H; subst; cbn; repeat split; [lia | exact EX]).
  - (* Subscribe *) inversion H; subst; cbn. rewrite setf_other by lia. repeat split; [lia | exact EX].
  - (* WriteOK *)
    destruct (expired cfg ts c0) eqn:X.
    + destruct (step false s1 (Cancel c0)) as [s2|] eqn:S2; [|discriminate].
      pose proof (step_next_id _ _ _ _ S2). inversion H; subst; cbn. repeat split; [lia | exact EX].
    + inversion H; subst; cbn. split; [split; [lia | exact EX]|].
      destruct (writing ts c0); [|reflexivity]. apply setf_other. intros ->. rewrite XP in X by reflexivity. discriminate.
  - (* WriteErr *)
    destruct (left ts c0 || expired cfg ts c0); [|discriminate].
    destruct (step false (base ts) (WriteErr c0)) as [s1|] eqn:S; [|discriminate].
    pose proof (step_next_id _ _ _ _ S). inversion H; subst; cbn. repeat split; [lia | exact EX].
Qed.

Theorem transport_deadline_starves cfg d : wdl cfg = Some d ->
  forall tr ts ts' c, texec cfg ts tr = Some ts' -> past_deadline d ts c ->
    past_deadline d ts' c /\ bgot ts' c = bgot ts c.
Proof.
  intros W. induction tr as [|a r IH]; intros ts ts' c H P; cbn in H.
  - inversion H; subst. split; [exact P | reflexivity].
  - destruct (tstep cfg ts a) as [ts1|] eqn:S; [|discriminate].
    destruct (past_deadline_step _ _ _ _ _ _ W S P) as [P1 E1].
    destruct (IH _ _ _ H P1) as [P2 E2]. split; [exact P2 | congruence].
Qed.

Lemma texec_app cfg tr1 : forall tr2 ts ts1 ts2,
  texec cfg ts tr1 = Some ts1 -> texec cfg ts1 tr2 = Some ts2 -> texec cfg ts (tr1 ++ tr2) = Some ts2.
Proof.
  induction tr1 as [|a r IH]; intros tr2 ts ts1 ts2 H1 H2; cbn in *.
  - inversion H1; subst. exact H2.
  - destruct (tstep cfg ts a) as [ts'|]; [|discriminate]. eapply IH; eauto.
Qed.

Lemma tmonitor_sound cfg : forall h ts0 i ts, tmonitor cfg ts0 i h = inl ts -> exists tr, texec cfg ts0 tr = Some ts.
Proof.
  induction h as [|o r IH]; intros ts0 i ts H; cbn in H.
  - inversion H; subst. exists []. reflexivity.
  - destruct (texpand ts0 o) as [acts|]; [|discriminate].
    destruct (texec cfg ts0 acts) as [ts1|] eqn:X; [|discriminate].
    destruct (IH _ _ _ H) as [tr Y]. exists (acts ++ tr). eapply texec_app; eauto.
Qed.

Lemma unserved_In ts c e : In (c, e) (unserved ts) ->
  exists snap, In (e, snap) (log (base ts)) /\ In c snap /\ left ts c = false /\ ~ In e (bgot ts c).
Proof.
  unfold unserved. rewrite in_flat_map. intros [[e0 snap] [A B]]. cbn in B.
  rewrite in_map_iff in B. destruct B as [c0 [E F]]. inversion E; subst.
  rewrite filter_In in F. destruct F as [F G]. rewrite andb_true_iff, !negb_true_iff in G. destruct G as [G1 G2].
  exists snap. repeat split; auto. intros X. apply mem_nat_In in X. congruence.
Qed.

(* a browser-side history the transport monitor accepts is an execution of the handler behind a server
   without write deadline; if it ends with nothing in flight and no write in progress, no browser that has not
   left lacks a broadcast *)
Theorem transport_accepted_served cfg h ts : wdl cfg = None -> tmonitor cfg tinit 0 h = inl ts ->
  treachable cfg ts /\
  (quiescentb (base ts) = true -> (forall c, left ts c = false -> cpc (cl (base ts) c) <> PBusy) -> unserved ts = []).
Proof.
  intros W H. assert (treachable cfg ts) as R by (destruct (tmonitor_sound _ _ _ _ _ H) as [tr X]; exists tr; exact X).
  split; [exact R|]. intros Q NB.
  unfold quiescentb in Q. destruct (pending (base ts)) eqn:P; [|discriminate].
  destruct (holder (base ts)) eqn:Hd; [discriminate|].
  destruct (unserved ts) as [|[c e] r] eqn:U; [reflexivity|]. exfalso.
  assert (In (c, e) (unserved ts)) as X by (rewrite U; left; reflexivity).
  apply unserved_In in X. destruct X as (snap & A & B & L & N). apply N.
  eapply transport_browser_has_every_event; eauto.
Qed.

(* the seeded situation, in the model: write deadline 10 ticks; a browser connects and reads its first ping; its
   connection turns 10 ticks old; a reload is broadcast while it is connected and reaches its handler; the write is
   accepted and lost, the context is cancelled, the handler leaves.  The browser never left, the Send iterated a
   registry that held it, nothing is in flight - and the browser has not read the event. *)
Definition deadline_trace : list taction :=
  [Act Subscribe; Act (Tick 1); Act (WriteOK 1); Advance 10; Act SendCall; Act (SendLock 1); Act SendSpawn; Act SendUnlock;
   Act (Deliver 1 1); Act (WriteOK 1); Act (SeeDone 1); Act (Exit 1)].
Lemma deadline_loses_event : exists ts,
  texec {| wdl := Some 10 |} tinit deadline_trace = Some ts /\
  left ts 1 = false /\ log (base ts) = [(1, [1])] /\ quiescentb (base ts) = true /\ cpc (cl (base ts) 1) = PGone /\
  bgot ts 1 = [] /\ unserved ts = [(1, 1)].
Proof. eexists. split; [vm_compute; reflexivity | repeat split]. Qed.
(* the same schedule behind a server without write deadline: the browser reads the event *)
Lemma no_deadline_delivers : exists ts,
  texec {| wdl := None |} tinit [Act Subscribe; Act (Tick 1); Act (WriteOK 1); Advance 10; Act SendCall; Act (SendLock 1); Act SendSpawn;
                                 Act SendUnlock; Act (Deliver 1 1); Act (WriteOK 1)] = Some ts /\
  bgot ts 1 = [1] /\ unserved ts = [] /\ cpc (cl (base ts) 1) = PLoop.
Proof. eexists. split; [vm_compute; reflexivity | repeat split]. Qed.
(* ... and behind it the handler cannot leave on its own: a write error is not admissible for a browser that is there *)
Lemma no_deadline_no_write_error :
  texec {| wdl := None |} tinit [Act Subscribe; Act (Tick 1); Advance 100; Act (WriteErr 1)] = None.
Proof. vm_compute. reflexivity. Qed.

(* events are numbered by SendCall; a Send that has taken the mutex is not waiting for it any more *)
Definition ev_inv (s : state) : Prop :=
  (forall e snap, In (e, snap) (log s) -> e < next_ev s /\ ~ In e (waiting s)) /\
  (forall e, In e (waiting s) -> e < next_ev s).
Lemma ev_init : ev_inv init.
Proof. split; cbn; intros; tauto. Qed.
Lemma ev_step old s a s' : ev_inv s -> step old s a = Some s' -> ev_inv s'.
Proof.
  intros [L W] H. inv_step H; unfold ev_inv; cbn; try (split; assumption).
  - (* SendCall *) split.
    + intros e snap A. destruct (L _ _ A) as [X Y]. split; [lia|]. rewrite in_app_iff. cbn. intros [Z|[Z|[]]]; [tauto | lia].
    + intros e A. apply in_app_or in A. destruct A as [A|[A|[]]]; [apply W in A; lia | lia].
  - (* SendLock *) split.
    + intros e0 snap A. apply in_app_or in A. destruct A as [A|[A|[]]].
      * destruct (L _ _ A) as [X Y]. split; [exact X|]. rewrite In_remove_nat. tauto.
      * inversion A; subst. match goal with X : mem_nat _ _ = true |- _ => apply mem_nat_In in X; split; [apply W; exact X|] end. rewrite In_remove_nat. tauto.
    + intros e0 A. apply In_remove_nat in A. apply W. tauto.
Qed.
Lemma ev_reachable old s : reachable old s -> ev_inv s.
Proof. intros [tr H]. eapply exec_invariant; [apply ev_step | exact ev_init | exact H]. Qed.

Definition KI (ts : tstate) : Prop :=
  (forall c, next_id (base ts) <= c -> left ts c = false /\ bgot ts c = [] /\ writing ts c = None) /\
  (forall c e, In e (bgot ts c) -> In e (got (cl (base ts) c))) /\
  (forall c e, writing ts c = Some e -> In e (got (cl (base ts) c))).

Lemma KI_init : KI tinit.
Proof. repeat split; cbn; intros; try tauto; discriminate. Qed.

Lemma KI_step cfg ts a ts' : safe_inv (base ts) -> reg_inv (base ts) -> KI ts -> tstep cfg ts a = Some ts' -> KI ts'.
Proof.
  intros [_ SF] [_ RF] (K1 & K2 & K4) H. destruct a as [a|dt]; [|inversion H; subst; exact (conj K1 (conj K2 K4))].
  destruct a; cbn [tstep] in H.
  all: try (destruct (left ts c || expired cfg ts c); [|discriminate]).
  all: destruct (step false (base ts) _) as [s1|] eqn:S; [|discriminate].
  all: try (destruct (expired cfg ts c) eqn:XP; [destruct (step false s1 (Cancel c)) as [s2|] eqn:S2; [|discriminate]; inv_step S2|]).
  all: inversion H; subst; clear H.
  all: inv_step S; unfold KI; cbn.
  all: try (destruct (SF c) as [EV _]; congruence).
  all: try (destruct (writing ts c) as [w|] eqn:WR).
  all: (split; [|split]).
  all: try (intros k Hk; assert (next_id (base ts) <= k) as Hk' by lia; destruct (K1 k Hk') as (A1 & A2 & A3);
            repeat split; auto; rewrite setf_other; auto; intros ->; specialize (RF _ Hk'); congruence).
  all: intros k e0 X.
  all: first [split_k k c | split_k k (next_id (base ts))]; rewrite ?upd_same; cbn; rewrite ?in_app_iff; cbn; auto.
  all: try (rewrite setf_same in X); try (rewrite setf_other in X by assumption); auto.
  all: try (apply in_app_or in X; destruct X as [X|[X|[]]]; subst; auto).
  all: try (inversion X; subst; auto; fail).
  all: try (destruct (K1 _ (le_n _)) as (A1 & A2 & A3); first [rewrite A2 in X; destruct X | congruence]).
Qed.

Definition TK (ts : tstate) : Prop := reachable false (base ts) /\ KI ts.
Lemma TK_reachable cfg ts : treachable cfg ts -> KI ts.
Proof.
  intros [tr H]. assert (TK ts) as [_ K]; [|exact K].
  refine (texec_invariant cfg TK _ tr tinit ts _ H); [| split; [exists (@nil action); reflexivity | exact KI_init]].
  intros ts0 a ts1 [R K] S. split.
  - eapply reachable_exec; [exact R | apply tstep_base; exact S].
  - pose proof (Inv_reachable _ R) as (SF & RG & _). eapply KI_step; eauto.
Qed.

(* ---- what the browsers see of a timed execution, in the vocabulary of spec/Browser.v ---- *)
Definition bview (cfg : tconfig) (ts : tstate) (ta : taction) : list bev :=
  match ta with
  | Act Subscribe => [BOpen (next_id (base ts))]
  | Act (Cancel c) => [BLeave c]
  | Act (SendLock e) => [BBroadcast e]
  | Act (WriteOK c) => if expired cfg ts c then [] else match writing ts c with Some e => [BRecv c e] | None => [] end
  | Act (Exit c) => if left ts c then [] else [BCut c]
  | _ => []
  end.
Fixpoint tview (cfg : tconfig) (ts : tstate) (tr : list taction) : list bev :=
  match tr with
  | [] => []
  | a :: r => bview cfg ts a ++ match tstep cfg ts a with Some ts' => tview cfg ts' r | None => [] end
  end.

Definition JI (ts : tstate) (b : bstate) : Prop :=
  (forall c, In c (present b) -> left ts c = false /\ cpc (cl (base ts) c) <> PNone) /\
  (forall c e, In (c, e) (owed b) ->
     left ts c = false /\ (exists snap, In (e, snap) (log (base ts)) /\ In c snap) /\ ~ In e (bgot ts c)).

Lemma step_keeps_known old s a s' c : step old s a = Some s' -> cpc (cl s c) <> PNone -> cpc (cl s' c) <> PNone.
Proof.
  intros H N. inv_step H; cbn; auto.
  all: try (unfold upd; destruct (c =? c0) eqn:Q; cbn; [try discriminate|exact N]).
  unfold upd. destruct (c =? next_id s); cbn; [discriminate | exact N].
Qed.

Lemma step_log_mono old s a s' x : step old s a = Some s' -> In x (log s) -> In x (log s').
Proof. intros H A. inv_step H; cbn; auto. apply in_or_app. left. exact A. Qed.

(* a step that shows the browsers nothing and changes neither who left nor what was read *)
Lemma JI_frame ts ts' b : JI ts b -> left ts' = left ts -> bgot ts' = bgot ts ->
  (forall x, In x (log (base ts)) -> In x (log (base ts'))) ->
  (forall c, cpc (cl (base ts) c) <> PNone -> cpc (cl (base ts') c) <> PNone) -> JI ts' b.
Proof.
  intros [P O] L B LG K. split.
  - intros c A. destruct (P c A) as [X Y]. rewrite L. split; [exact X | apply K; exact Y].
  - intros c e A. destruct (O c e A) as (X & (snap & Y & Z) & W). rewrite L, B. repeat split; auto. exists snap. auto.
Qed.

Lemma JI_step cfg ts a ts' b : wdl cfg = None -> treachable cfg ts -> JI ts b -> tstep cfg ts a = Some ts' ->
  JI ts' (fold_left bstep (bview cfg ts a) b).
Proof.
  intros W R J H.
  pose proof (TK_reachable _ _ R) as (K1 & K2 & K4).
  pose proof (Inv_reachable _ (treachable_base _ _ R)) as (SF & RG & _ & LI & _).
  pose proof (ev_reachable _ _ (treachable_base _ _ R)) as [EVL EVW].
  destruct a as [a|dt]; [|inversion H; subst; cbn; eapply JI_frame; eauto].
  assert (forall s1, step false (base ts) a = Some s1 ->
            (forall x, In x (log (base ts)) -> In x (log s1)) /\
            (forall c, cpc (cl (base ts) c) <> PNone -> cpc (cl s1 c) <> PNone)) as FR.
  { intros s1 S. split; [intros x; eapply step_log_mono; eauto | intros c; eapply step_keeps_known; eauto]. }
  destruct a; cbn [tstep bview] in *; rewrite ?(expired_none cfg ts _ W), ?orb_false_r in *.
  all: try (destruct (left ts c) eqn:LF; [|discriminate]).
  all: destruct (step false (base ts) _) as [s1|] eqn:S; [|discriminate]; inversion H; subst; clear H.
  all: destruct (FR _ eq_refl) as [FL FK]; clear FR.
  all: try (cbn; eapply JI_frame; eauto; fail).
  - (* Subscribe *)
    destruct J as [P O]. inv_step S. split; cbn.
    + intros c [<-|A].
      * split; [apply K1; apply le_n | rewrite upd_same; discriminate].
      * destruct (P c A) as [X Y]. split; [exact X | apply FK; exact Y].
    + intros c e A. destruct (O c e A) as (X & (snap & Y & Z) & Wn). repeat split; auto. exists snap. auto.
  - (* SendLock *)
    destruct J as [P O]. inv_step S. split; cbn; [exact P|].
    intros c e0 A. apply in_app_or in A. destruct A as [A|A].
    + destruct (O c e0 A) as (X & (snap & Y & Z) & Wn). repeat split; auto. exists snap. split; [apply in_or_app; left; exact Y | exact Z].
    + apply in_map_iff in A. destruct A as [c0 [Q A]]. inversion Q; subst. destruct (P c A) as [X Y].
      destruct (transport_keeps_browser cfg ts c W R X Y) as (_ & _ & RGc).
      repeat split; [exact X | exists (registered (base ts)); split; [apply in_or_app; right; left; reflexivity | exact RGc] |].
      intros IN. apply K2 in IN. destruct LI as (_ & _ & LG & _). destruct (LG _ _ IN) as [snap [LA _]].
      destruct (EVL _ _ LA) as [_ NW]. apply NW. apply mem_nat_In. assumption.
  - (* WriteOK *)
    destruct (writing ts c) as [w|] eqn:WR; [|cbn; eapply JI_frame; eauto].
    destruct J as [P O]. split; cbn.
    + intros c' A. destruct (P c' A) as [X Y]. split; [exact X | apply FK; exact Y].
    + intros c' e A. unfold drop_pair in A. apply filter_In in A. destruct A as [A N]. cbn in N.
      destruct (O c' e A) as (X & (snap & Y & Z) & Wn). repeat split; auto. { exists snap. auto. }
      intros IN. unfold setf in IN. destruct (c' =? c) eqn:Q; [|exact (Wn IN)].
      apply Nat.eqb_eq in Q. subst c'. apply in_app_or in IN. destruct IN as [IN|[IN|[]]]; [exact (Wn IN)|].
      subst e. rewrite !Nat.eqb_refl in N. discriminate.
  - (* Cancel *)
    destruct J as [P O]. split; cbn.
    + intros c' A. apply filter_In in A. destruct A as [A N]. apply negb_true_iff, Nat.eqb_neq in N.
      rewrite setf_other by exact N. destruct (P c' A) as [X Y]. split; [exact X | apply FK; exact Y].
    + intros c' e A. apply filter_In in A. destruct A as [A N]. cbn in N. apply negb_true_iff, Nat.eqb_neq in N.
      rewrite setf_other by exact N. destruct (O c' e A) as (X & (snap & Y & Z) & Wn). repeat split; auto. exists snap. auto.
  - (* Exit *)
    assert (JI (with_base ts s1) b) as [P O] by (eapply JI_frame; eauto).
    destruct (left ts c); cbn; split; assumption.
Qed.

Lemma JI_exec cfg : wdl cfg = None -> forall tr ts ts' b, treachable cfg ts -> JI ts b -> texec cfg ts tr = Some ts' ->
  JI ts' (fold_left bstep (tview cfg ts tr) b).
Proof.
  intros W. induction tr as [|a r IH]; intros ts ts' b R J H; cbn in *.
  - inversion H; subst. exact J.
  - destruct (tstep cfg ts a) as [ts1|] eqn:S; [|discriminate]. rewrite fold_left_app.
    apply IH; [| eapply JI_step; eauto | exact H].
    destruct R as [tr0 X]. exists (tr0 ++ [a]). eapply texec_app; [exact X|]. cbn. rewrite S. reflexivity.
Qed.

(* ================= the model behind a server without write deadline satisfies the browser-side specification ================= *)
Theorem transport_satisfies_browser_spec cfg tr ts : wdl cfg = None -> texec cfg tinit tr = Some ts ->
  quiescentb (base ts) = true -> (forall c, left ts c = false -> cpc (cl (base ts) c) <> PBusy) ->
  browsers_served (tview cfg tinit tr).
Proof.
  intros W H Q NB. unfold browsers_served, brun.
  assert (JI ts (fold_left bstep (tview cfg tinit tr) binit)) as [_ O].
  { apply JI_exec; auto; [exists []; reflexivity | split; cbn; intros; tauto]. }
  unfold quiescentb in Q. destruct (pending (base ts)) eqn:P; [|discriminate].
  destruct (holder (base ts)) eqn:Hd; [discriminate|].
  destruct (owed _) as [|[c e] r] eqn:U; [reflexivity|]. exfalso.
  destruct (O c e (or_introl eq_refl)) as (L & (snap & A & B) & N). apply N.
  eapply transport_browser_has_every_event; eauto. exists tr. exact H.
Qed.

(* with a write deadline the browsers' view of the seeded schedule violates it *)
Lemma deadline_view_violates_spec :
  tview {| wdl := Some 10 |} tinit deadline_trace = [BOpen 1; BBroadcast 1; BCut 1] /\
  owed (brun (tview {| wdl := Some 10 |} tinit deadline_trace)) = [(1, 1)].
Proof. split; vm_compute; reflexivity. Qed.

