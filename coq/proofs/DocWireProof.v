(* Proofs for C17 at the wire: decoding gives each change exactly the range its own JSON carries, and the
   per-URI document map tracks the editor's open buffers through any stream of notifications. *)
From Coq.Strings Require Import Byte String.
From Coq Require Import List NArith Lia.
Import ListNotations.
From V Require Import lib.Bytes lib.Lsp lib.LspWire spec.Splice spec.SpliceWire model.DocEdit model.DocWire proofs.DocEditProof.

Lemma decode_edit s w : edit_change s (decode_change w) = wire_edit s w.
Proof. unfold edit_change, decode_change, wire_edit, edit. cbn. destruct (wrange w); reflexivity. Qed.

Lemma decode_valid w : wchange_valid w -> change_valid (decode_change w).
Proof. unfold wchange_valid, change_valid, decode_change, range_valid. cbn. destruct (wrange w); auto. Qed.

Lemma decode_fold cs : forall s, fold_left edit_change (map decode_change cs) s = fold_left wire_edit cs s.
Proof. induction cs as [|w cs IH]; intros s; [reflexivity|]. cbn [map fold_left]. rewrite decode_edit. apply IH. Qed.

Lemma decode_forall cs : Forall wchange_valid cs -> Forall change_valid (map decode_change cs).
Proof. induction 1; cbn [map]; constructor; [apply decode_valid; assumption|assumption]. Qed.

Lemma wire_changes_track d s cs : doc_wf d -> doc_string d = s -> Forall wchange_valid cs ->
  doc_wf (apply_changes d (map decode_change cs)) /\
  doc_string (apply_changes d (map decode_change cs)) = fold_left wire_edit cs s.
Proof.
  intros Hwf Hs Hv. rewrite <- decode_fold. apply changes_track; [assumption|assumption|apply decode_forall; assumption].
Qed.

(* the document map and the editor's buffers agree at every URI *)
Definition tracks (ms : bytes -> option (list bytes)) (me : bytes -> option bytes) : Prop :=
  forall k, match ms k, me k with
            | Some d, Some s => doc_wf d /\ doc_string d = s
            | None, None => True
            | _, _ => False
            end.

Lemma note_tracks ms me n : tracks ms me -> note_valid n -> tracks (server_note ms n) (editor_note me n).
Proof.
  intros T V. destruct n as [u s|u cs|u]; cbn [server_note editor_note].
  - intros k. destruct (bytes_eqb k u); [apply new_document_string|apply T].
  - pose proof (T u) as Tu. destruct (ms u) as [d|], (me u) as [s|]; try contradiction; [|exact T].
    destruct Tu as [Hwf Hs]. cbn [note_valid] in V.
    intros k. destruct (bytes_eqb k u); [apply wire_changes_track; assumption|apply T].
  - intros k. destruct (bytes_eqb k u); [exact I|apply T].
Qed.

Lemma notes_track ns : forall ms me, tracks ms me -> Forall note_valid ns ->
  tracks (fold_left server_note ns ms) (fold_left editor_note ns me).
Proof.
  induction ns as [|n ns IH]; intros ms me T V; [exact T|].
  cbn [fold_left]. inversion V; subst. apply IH; [apply note_tracks; assumption|assumption].
Qed.

Theorem wire_history_tracks_editor ns u : Forall note_valid ns ->
  option_map doc_string (server_contents ns u) = editor_buffers ns u.
Proof.
  intros V. pose proof (notes_track ns no_contents no_buffers (fun _ => I) V u) as H.
  unfold server_contents, editor_buffers.
  destruct (fold_left server_note ns no_contents u), (fold_left editor_note ns no_buffers u); try contradiction; cbn [option_map].
  - destruct H as [_ H]. rewrite H. reflexivity.
  - reflexivity.
Qed.

(* ---------- a decoder that decodes into the slots left by the previous notification is refuted ---------- *)
(* "ab", then the full text "Z" (no range member) decoded into a slot that still holds the range 0:1-0:1 *)
Lemma reused_slot_refuted :
  let prev := {| crange := R 0 1 0 1; ctext := bs "x" |} in
  let w := {| wrange := Absent; wrange_length := Absent; wtext := bs "Z" |} in
  doc_string (apply_change (new_document (bs "ab")) (decode_into (Some prev) w)) <> wire_edit (bs "ab") w.
Proof. vm_compute. discriminate. Qed.
