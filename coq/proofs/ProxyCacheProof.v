(* C07: the source map the proxy holds is the map of the text it holds (invariant of model/ProxyCache.v). *)
From Coq.Strings Require Import Byte String.
From Coq Require Import List Arith NArith Bool.
Import ListNotations.
From V Require Import lib.Bytes lib.Sexp model.Ast model.Gen model.SourceMap spec.SmSpec model.ProxyCache spec.ProxySpec.
From V Require Import proofs.SourceMapProof proofs.RangeWriterProof proofs.SmFaithfulProof proofs.GenAddsProof.

(* ---- Go-map algebra ---- *)
Lemma beq_neq (a b : bytes) : a <> b -> bytes_eqb a b = false.
Proof. intros H. destruct (bytes_eqb a b) eqn:E; [apply bytes_eqb_eq in E; contradiction|reflexivity]. Qed.
Lemma lookup_remove_same {A} u (m : list (bytes * A)) : lookup u (remove u m) = None.
Proof.
  induction m as [|[k v] r IH]; [reflexivity|]. cbn [remove]. destruct (bytes_eqb k u) eqn:E; [exact IH|].
  cbn [lookup]. rewrite E. exact IH.
Qed.
Lemma lookup_remove_other {A} u u' (m : list (bytes * A)) : u <> u' -> lookup u (remove u' m) = lookup u m.
Proof.
  intros N. induction m as [|[k v] r IH]; [reflexivity|]. cbn [remove lookup].
  destruct (bytes_eqb k u') eqn:E.
  - apply bytes_eqb_eq in E. subst k. rewrite (beq_neq u' u) by (intro X; apply N; symmetry; exact X). exact IH.
  - cbn [lookup]. rewrite IH. reflexivity.
Qed.
Lemma lookup_set_same {A} u (v : A) m : lookup u (set u v m) = Some v.
Proof. unfold set. cbn [lookup]. rewrite bytes_eqb_refl. reflexivity. Qed.
Lemma lookup_set_other {A} u u' (v : A) m : u <> u' -> lookup u (set u' v m) = lookup u m.
Proof.
  intros N. unfold set. cbn [lookup]. rewrite (beq_neq u' u) by (intro X; apply N; symmetry; exact X).
  apply lookup_remove_other. exact N.
Qed.
Lemma bytes_dec (a b : bytes) : a = b \/ a <> b.
Proof. destruct (bytes_eqb a b) eqn:E; [left; apply bytes_eqb_eq; exact E|right; intros X; subst; rewrite bytes_eqb_refl in E; discriminate]. Qed.

Section Inv.
  Variable parse : bytes -> option file.

  (* the generator as the specification sees it: accepted text -> (Go text, tables) *)
  Definition gen_of (d : bytes) : option (bytes * (smap * smap)) :=
    match parse d with Some f => Some (generate_tables [] f) | None => None end.

  Definition coherent_at (s : pstate) (u : bytes) : Prop :=
    held_map_current gen_of (lookup u (docs s)) (lookup u (cache s)) (lookup u (gopls s)) /\
    held_map_matches_gopls gen_of (lookup u (cache s)) (lookup u (gopls s)).
  Definition coherent (s : pstate) : Prop := forall u, coherent_at s u.

  Lemma coherent_p0 : coherent pinit.
  Proof. intros u. split; [intros d code m H; discriminate|intros m H; discriminate]. Qed.

  (* DidOpen / DidChange after the held text was set to t *)
  Lemma coherent_regenerate s u t : coherent s -> coherent (regenerate parse u t (with_doc u t s)).
  Proof.
    intros C u'. unfold regenerate. destruct (parse t) as [f|] eqn:P.
    - destruct (generate_tables [] f) as [code m] eqn:G. destruct (bytes_dec u' u) as [->|N].
      + split; cbn [docs cache gopls gosrc with_doc]; rewrite !lookup_set_same.
        * intros d c' m' Hd Hg. injection Hd as <-. unfold gen_of in Hg. rewrite P, G in Hg. injection Hg as <- <-. split; reflexivity.
        * intros m' Hm. injection Hm as <-. exists t, code. split; [unfold gen_of; rewrite P, G; reflexivity|reflexivity].
      + destruct (C u') as [C1 C2]. split; cbn [docs cache gopls gosrc with_doc]; rewrite !(lookup_set_other u' u) by exact N; assumption.
    - destruct (bytes_dec u' u) as [->|N].
      + destruct (C u) as [_ C2]. split; cbn [docs cache gopls gosrc with_doc]; [|exact C2].
        rewrite lookup_set_same. intros d c' m' Hd Hg. injection Hd as <-. unfold gen_of in Hg. rewrite P in Hg. discriminate.
      + destruct (C u') as [C1 C2]. split; cbn [docs cache gopls gosrc with_doc]; [|exact C2].
        rewrite (lookup_set_other u' u) by exact N. exact C1.
  Qed.

  Lemma coherent_step s e : coherent s -> coherent (step parse s e).
  Proof.
    intros C. destruct e as [u t|u t|u]; cbn [step].
    - apply coherent_regenerate; exact C.
    - destruct (lookup u (docs s)); [apply coherent_regenerate; exact C|exact C].
    - intros u'. destruct (bytes_dec u' u) as [->|N].
      + split; cbn [docs cache gopls gosrc]; rewrite !lookup_remove_same; [intros d c' m' H; discriminate|intros m H; discriminate].
      + destruct (C u') as [C1 C2]. split; cbn [docs cache gopls gosrc]; rewrite !(lookup_remove_other u' u) by exact N; assumption.
  Qed.

  Lemma coherent_fold evs : forall s, coherent s -> coherent (fold_left (step parse) evs s).
  Proof. induction evs as [|e r IH]; intros s C; [exact C|]. cbn [fold_left]. apply IH. apply coherent_step. exact C. Qed.

  Lemma proxy_coherent evs : coherent (run parse evs).
  Proof. apply coherent_fold. exact coherent_p0. Qed.
End Inv.

(* the server's Generate is the generator the other theorems of C07 speak about *)
Lemma generate_tables_eq fn f :
  generate_tables fn f = (fst (fst (generate_all fn f)), sourcemap (rev (adds (gen_state fn f)))).
Proof.
  unfold generate_tables, generate_all, gen_state, g_init.
  destruct (sourcemap (rev (adds (gen_all f {| w := rw0; vid := 0; cvar := []; fname := fn; adds := [] |})))). reflexivity.
Qed.

(* After any history, for a document whose held text is accepted: the proxy holds a map and gopls a Go text such that
   the harness predicate holds of every added expression of the held text. *)
Lemma proxy_held_map_faithful parse evs u d f :
  let s := run parse evs in
  lookup u (docs s) = Some d -> parse d = Some f ->
  pairwise_disj (rev (adds (gen_state [] f))) ->
  exists m code, lookup u (cache s) = Some m /\ lookup u (gopls s) = Some code /\
    forall e tp, In (e, tp) (adds (gen_state [] f)) -> Forall aligned (split_on x0a (e_val e) []) ->
      add_faithful d code (fst m) (snd m) e = true.
Proof.
  cbv zeta. intros Hd Hp Hdisj. destruct (proxy_coherent parse evs u) as [C1 _].
  destruct (C1 d (fst (fst (generate_all [] f))) (sourcemap (rev (adds (gen_state [] f)))) Hd) as [Hc Hg].
  - unfold gen_of. rewrite Hp, generate_tables_eq. reflexivity.
  - eexists; eexists. split; [exact Hc|]. split; [exact Hg|]. intros e tp Hin Hal.
    exact (generated_file_add_faithful [] f d Hdisj e tp Hin Hal).
Qed.

(* ---- the skipping variant is not coherent: witness ---- *)
Definition sk_t1 : bytes := bs "package p" ++ [x0a; x0a] ++ bs "templ T() {" ++ [x0a] ++ bs "}" ++ [x0a].
Definition sk_t2 : bytes := bs "package p" ++ [x0a; x0a; x0a] ++ bs "templ T() {" ++ [x0a] ++ bs "}" ++ [x0a].
Definition sk_f1 : file := {| f_header := []; f_pkg := mk_e (bs "package p") 0 0 0; f_nodes := [FTempl (mk_e (bs "T()") 17 2 6) []] |}.
Definition sk_f2 : file := {| f_header := []; f_pkg := mk_e (bs "package p") 0 0 0; f_nodes := [FTempl (mk_e (bs "T()") 18 3 6) []] |}.
Definition sk_parse (t : bytes) : option file :=
  if bytes_eqb t sk_t1 then Some sk_f1 else if bytes_eqb t sk_t2 then Some sk_f2 else None.
Definition sk_u : bytes := bs "file:///v.templ".
Definition sk_evs : list pev := [Open sk_u sk_t1; Change sk_u sk_t2].

Lemma skip_variant_stale :
  let s := run_skip sk_parse sk_evs in
  fst (generate_tables [] sk_f1) = fst (generate_tables [] sk_f2) /\
  lookup sk_u (docs s) = Some sk_t2 /\
  lookup sk_u (cache s) = Some (snd (generate_tables [] sk_f1)) /\
  target_from_source (fst (snd (generate_tables [] sk_f1))) 3 6 = None /\
  target_from_source (fst (snd (generate_tables [] sk_f2))) 3 6 <> None /\
  ~ held_map_current (gen_of sk_parse) (lookup sk_u (docs s)) (lookup sk_u (cache s)) (lookup sk_u (gopls s)).
Proof.
  cbv zeta. split; [vm_compute; reflexivity|]. split; [vm_compute; reflexivity|]. split; [vm_compute; reflexivity|].
  split; [vm_compute; reflexivity|]. split; [vm_compute; discriminate|].
  intros H. destruct (H sk_t2 (fst (generate_tables [] sk_f2)) (snd (generate_tables [] sk_f2))) as [Hc _].
  - vm_compute. reflexivity.
  - vm_compute. reflexivity.
  - vm_compute in Hc. discriminate.
Qed.

(* the real transition system on the same history holds the moved map *)
Lemma real_variant_current :
  let s := run sk_parse sk_evs in
  lookup sk_u (cache s) = Some (snd (generate_tables [] sk_f2)) /\ lookup sk_u (gopls s) = Some (fst (generate_tables [] sk_f2)).
Proof. cbv zeta. split; vm_compute; reflexivity. Qed.
