(* The fragment denotation of model/IrFrag.v (lexical child blocks, results as a monoid, fuel only at calls) and the
   denotational renderer of spec/Denote.v (shared children slot threaded through a state, fuel at every node) are the
   same function on the fragment: for every AST node that to_frag accepts, rendering it with Denote.render_node from a
   state with an empty slot appends exactly the output of the fragment denotation (oracles read from the same
   environment: model/IrFragEnv.v), fails at the same position, and leaves the slot empty - unless one of the two
   models reports its own internal error, position (0,0): fuel exhausted, or an expression / callee the environment does
   not know (a templ.Error never has line 0).  on* attributes are outside spec/Denote.v (it reports (0,0) for them). *)
From Coq.Strings Require Import Byte String.
From Coq Require Import List Arith NArith Bool Lia.
Import ListNotations.
From V Require Import lib.Bytes lib.Sexp model.Ast model.Url model.Gen spec.Denote model.IrFrag model.IrFragPrint model.IrFragEnv proofs.IrFragProof.
Local Open Scope nat_scope.

(* ---------- the two files' helper tables are the same functions ---------- *)
Lemma hesc1_same b : Gen.hesc1 b = Denote.hesc1 b.
Proof. destruct b; reflexivity. Qed.
Lemma hesc_same s : Gen.hesc s = Denote.hesc s.
Proof. unfold Gen.hesc, Denote.hesc. induction s as [|b r IH]; [reflexivity|]. cbn [flat_map]. rewrite IH, hesc1_same. reflexivity. Qed.
Lemma beq_same a b : Ast.beq a b = Denote.beq a b.
Proof.
  unfold Ast.beq, Denote.beq. destruct (list_eq_dec Byte.byte_eq_dec a b) as [->|N].
  - symmetry. apply bytes_eqb_refl.
  - destruct (bytes_eqb a b) eqn:Eb; [|reflexivity]. apply bytes_eqb_eq in Eb. contradiction.
Qed.
Lemma mem_same n l : Gen.mem n l = Denote.mem n l.
Proof. unfold Gen.mem, Denote.mem. induction l as [|s r IH]; [reflexivity|]. cbn [existsb]. rewrite IH, beq_same. reflexivity. Qed.
Lemma block_same n : Gen.is_block_name n = Denote.block_name n.
Proof. apply mem_same. Qed.
Lemma void_same n : Gen.is_void_name n = Denote.void_name n.
Proof. apply mem_same. Qed.
Lemma blank_same s : Gen.all_ws s = forallb Denote.blank s.
Proof. reflexivity. Qed.
Lemma callee_same s : callee_name s = Denote.upto_paren s.
Proof. induction s as [|b r IH]; [reflexivity|]. cbn. rewrite IH. reflexivity. Qed.

(* ---------- states as results ---------- *)
Definition flat (x : st) : bytes := concat (rev (outp x)).
Notation p00 := (Some (0%N, 0%N)).
(* T appends r; the children slot goes from s to s' *)
Definition agreeS (s s' : option block) (T : st -> st) (r : res) : Prop :=
  forall x, failed x = None -> slot x = s ->
    failed (T x) = p00 \/ err_of r = p00 \/
    (flat (T x) = flat x ++ out_of r /\ failed (T x) = err_of r /\ (failed (T x) = None -> slot (T x) = s')).
Notation agree := (agreeS None None).
(* T does nothing observable on a failed state *)
Definition inert (T : st -> st) : Prop := forall x p, failed x = Some p -> failed (T x) = Some p /\ flat (T x) = flat x.

Lemma flat_emit s x : failed x = None -> flat (emit s x) = flat x ++ s.
Proof. intros H. unfold emit, flat. rewrite H. cbn. rewrite concat_app. cbn. rewrite app_nil_r. reflexivity. Qed.
Lemma failed_emit s x : failed (emit s x) = failed x.
Proof. unfold emit. destruct (failed x) eqn:E; [exact E|reflexivity]. Qed.
Lemma emit_failed s x p : failed x = Some p -> emit s x = x.
Proof. intros H. unfold emit. rewrite H. reflexivity. Qed.
Lemma fail0_failed x p : failed x = Some p -> Denote.fail0 x = x.
Proof. intros H. unfold Denote.fail0. rewrite H. reflexivity. Qed.
Lemma fail_at_failed e x p : failed x = Some p -> fail_at e x = x.
Proof. intros H. unfold fail_at. rewrite H. reflexivity. Qed.

Lemma inert_id : inert (fun x => x).
Proof. intros x p H. split; [exact H|reflexivity]. Qed.
Lemma inert_emit s : inert (emit s).
Proof. intros x p H. rewrite (emit_failed s x p H). split; [exact H|reflexivity]. Qed.
Lemma inert_fail0 : inert Denote.fail0.
Proof. intros x p H. rewrite (fail0_failed x p H). split; [exact H|reflexivity]. Qed.
Lemma inert_fail_at e : inert (fail_at e).
Proof. intros x p H. rewrite (fail_at_failed e x p H). split; [exact H|reflexivity]. Qed.
Lemma inert_seq T1 T2 : inert T1 -> inert T2 -> inert (fun x => T2 (T1 x)).
Proof. intros H1 H2 x p H. destruct (H1 x p H) as [A B]. destruct (H2 (T1 x) p A) as [C D]. split; [exact C|rewrite D; exact B]. Qed.
Lemma inert_set_slot b : inert (set_slot b).
Proof. intros x p H. split; [exact H|reflexivity]. Qed.
Lemma inert_ext T T' : (forall x, T x = T' x) -> inert T -> inert T'.
Proof. intros E H x p Hx. rewrite <- E. apply H, Hx. Qed.

Lemma agree_ext s s' T T' r : (forall x, T x = T' x) -> agreeS s s' T r -> agreeS s s' T' r.
Proof. intros E H x Hf Hs. rewrite <- E. apply H; assumption. Qed.
Lemma agree_id s : agreeS s s (fun x => x) unit_r.
Proof. intros x Hf Hs. right; right. cbn. rewrite app_nil_r. repeat split; auto. Qed.
Lemma agree_emit s a : agreeS s s (emit a) (lit a).
Proof.
  intros x Hf Hs. right; right. repeat split.
  - apply flat_emit, Hf.
  - rewrite failed_emit. exact Hf.
  - intros _. unfold emit. rewrite Hf. exact Hs.
Qed.
Lemma agree_set_slot s b : agreeS s b (set_slot b) unit_r.
Proof. intros x Hf Hs. right; right. cbn. rewrite app_nil_r. repeat split; auto. Qed.
Lemma agree_fail0 s s' r : agreeS s s' Denote.fail0 r.
Proof. intros x Hf Hs. left. unfold Denote.fail0. rewrite Hf. reflexivity. Qed.
Lemma agree_my00 s s' T r : err_of r = p00 -> agreeS s s' T r.
Proof. intros H x _ _. right; left. exact H. Qed.
Lemma agree_fail_at s s' e tr : agreeS s s' (fail_at e) ([], tr, Some (epos_of e)).
Proof.
  intros x Hf Hs. right; right. unfold fail_at. rewrite Hf. cbn. rewrite app_nil_r. repeat split. discriminate.
Qed.
Lemma agree_trace s s' T o t t' p : agreeS s s' T (o, t, p) -> agreeS s s' T (o, t', p).
Proof. intros H x Hf Hs. exact (H x Hf Hs). Qed.
Lemma err_andthen_l a b p : err_of a = Some p -> andthen a b = a.
Proof. destruct a as [[o t] [q|]]; [reflexivity|discriminate]. Qed.
Lemma andthen_ok a b : err_of a = None -> out_of (andthen a b) = out_of a ++ out_of b /\ err_of (andthen a b) = err_of b.
Proof. destruct a as [[o t] [q|]]; [discriminate|]. destruct b as [[o' t'] q']. intros _. split; reflexivity. Qed.
Lemma agree_seq s s' s'' T1 T2 r1 r2 : agreeS s s' T1 r1 -> agreeS s' s'' T2 r2 -> inert T2 -> agreeS s s'' (fun x => T2 (T1 x)) (andthen r1 r2).
Proof.
  intros A1 A2 I2 x Hf Hs. destruct (A1 x Hf Hs) as [D|[M|[E1 [E2 E3]]]].
  - left. apply (I2 _ _ D).
  - right; left. rewrite (err_andthen_l _ _ _ M). exact M.
  - destruct (err_of r1) as [p|] eqn:Er.
    + right; right. rewrite (err_andthen_l _ _ _ Er). destruct (I2 _ _ E2) as [F1 F2]. rewrite F1, F2, E1, Er.
      repeat split. discriminate.
    + destruct (andthen_ok r1 r2 Er) as [O1 O2]. destruct (A2 (T1 x) E2 (E3 E2)) as [D|[M|[G1 [G2 G3]]]].
      * left. exact D.
      * right; left. rewrite O2. exact M.
      * right; right. rewrite O1, O2, G1, E1, app_assoc. repeat split; assumption.
Qed.
Arguments agree_seq {s s' s''}. Arguments agree_trace {s s'}. Arguments agree_ext {s s'}.
Lemma agree_ext_slot s s' T T' r : (forall x, slot x = s -> T x = T' x) -> agreeS s s' T' r -> agreeS s s' T r.
Proof. intros E H x Hf Hs. rewrite (E x Hs). apply H; assumption. Qed.
Lemma agree_after_set s b s' T r : inert T -> agreeS b s' T r -> agreeS s s' (fun x => T (set_slot b x)) r.
Proof.
  intros I H. rewrite <- (andthen_unit_l r). apply (agree_seq (s':=b) (set_slot b) T unit_r r); [apply agree_set_slot|exact H|exact I].
Qed.
Lemma agree_then_set s s' b T r : agreeS s s' T r -> agreeS s b (fun x => set_slot b (T x)) r.
Proof.
  intros H. rewrite <- (andthen_unit_r r). apply (agree_seq (s':=s') T (set_slot b) r unit_r); [exact H|apply agree_set_slot|apply inert_set_slot].
Qed.
Lemma agree_evt s s' T k e r : agreeS s s' T r -> agreeS s s' T (andthen (evt k e) r).
Proof. destruct r as [[o t] p]. intros H. exact (agree_trace T o t _ p H). Qed.
Lemma agree_emit' z a a' : a = a' -> agreeS z z (emit a) (lit a').
Proof. intros ->. apply agree_emit. Qed.

(* ---------- lists ---------- *)
Lemma opt_list_Forall2 {A B} (f : A -> option B) l l' : opt_list (map f l) = Some l' -> Forall2 (fun a b => f a = Some b) l l'.
Proof.
  revert l'. induction l as [|a r IH]; intros l' H.
  - cbn in H. inversion H. constructor.
  - cbn [map opt_list fold_right] in H. fold (opt_list (map f r)) in H.
    destruct (f a) as [b|] eqn:Ea; [|discriminate]. destruct (opt_list (map f r)) as [r'|] eqn:Er; [|discriminate].
    inversion H; subst. constructor; [exact Ea|apply IH; reflexivity].
Qed.

(* ---------- attributes ---------- *)
(* the sinks spec/Denote.v models as the fragment does: on* attributes are outside spec/Denote.v; for URL and class-list values
   it has an error case (an error value in the environment for an expression that cannot return an error) the code has not *)
Fixpoint ascope (a : fattr) : bool :=
  match a with
  | FScript _ _ | FUrl _ _ | FClass _ _ => false
  | FCond _ th el => forallb ascope th && forallb ascope el
  | _ => true end.

Lemma attr_failed f : forall elem e a x p, failed x = Some p -> render_attr f elem e a x = x.
Proof.
  induction f as [|f IH]; intros elem e a x p H; cbn [render_attr]; [apply (fail0_failed x p H)|].
  assert (FL : forall l, fold_left (fun x a => render_attr f elem e a x) l x = x).
  { induction l as [|a0 r IHl]; [reflexivity|]. cbn [fold_left]. rewrite (IH elem e a0 x p H). exact IHl. }
  destruct a as [n|n v|n ex|n ex|ex|ex th el].
  - apply (emit_failed _ x p H).
  - apply (emit_failed _ x p H).
  - destruct (lookup e (e_val ex)) as [[| |[]| |]|]; try apply (fail0_failed x p H); [apply (emit_failed _ x p H)|reflexivity].
  - rewrite (emit_failed _ x p H).
    repeat match goal with
           | |- context [if ?c then _ else _] => destruct c
           | |- context [match lookup ?a ?b with _ => _ end] => destruct (lookup a b) as [[| | | |]|]
           end; rewrite ?(emit_failed _ x p H), ?(fail0_failed x p H), ?(fail_at_failed _ x p H); reflexivity.
  - destruct (lookup e _) as [[| | | |]|]; try apply (fail0_failed x p H). apply (emit_failed _ x p H).
  - destruct (lookup e (e_val ex)) as [[| |[]| |]|]; try apply (fail0_failed x p H); apply FL.
Qed.
Lemma inert_attr f elem e a : inert (render_attr f elem e a).
Proof. intros x p H. rewrite (attr_failed f elem e a x p H). split; [exact H|reflexivity]. Qed.
Lemma attrs_failed f elem e l x p : failed x = Some p -> fold_left (fun x a => render_attr f elem e a x) l x = x.
Proof. intros H. induction l as [|a r IH]; [reflexivity|]. cbn [fold_left]. rewrite (attr_failed f elem e a x p H). exact IH. Qed.

Section Attrs.
Variable tc : bool.
Notation DA := (dattr fr_orc tc).
(* a list of attributes, given each one *)
Lemma agree_attr_list f elem e l l' :
  Forall2 (fun a a' => agree (render_attr f elem e a) (DA e a')) l l' ->
  agree (fun x => fold_left (fun x a => render_attr f elem e a x) l x) (seq_list (DA e) l').
Proof.
  induction 1 as [|a a' r r' Ha _ IH]; [apply agree_id|].
  cbn [fold_left seq_list]. fold (seq_list (DA e)).
  apply (agree_seq (s':=None) (render_attr f elem e a) (fun x => fold_left (fun x a => render_attr f elem e a x) r x)); [exact Ha|exact IH|].
  intros x p H. rewrite (attrs_failed f elem e r x p H). split; [exact H|reflexivity].
Qed.
Lemma expr_attr_bytes n v : ([x20] ++ Denote.hesc n ++ bs "=""") ++ v ++ bs """" = out_of (expr_attr fr_orc n (lit v)).
Proof. unfold expr_attr, attr_open. cbn. rewrite hesc_same, <- !app_assoc. reflexivity. Qed.

Lemma agree_res s s' T r r' : out_of r = out_of r' -> err_of r = err_of r' -> agreeS s s' T r -> agreeS s s' T r'.
Proof. intros Ho He H x Hf Hs. rewrite <- Ho, <- He. exact (H x Hf Hs). Qed.
Arguments agree_res {s s'}.
Lemma agree_emit3 a b c : agree (fun x => emit c (emit b (emit a x))) (lit (a ++ b ++ c)).
Proof.
  apply (agree_res _ (andthen (andthen (lit a) (lit b)) (lit c))); [cbn; rewrite <- app_assoc; reflexivity|reflexivity|].
  apply (agree_seq (s':=None) (fun x => emit b (emit a x)) (emit c)); [|apply agree_emit|apply inert_emit].
  apply (agree_seq (s':=None) (emit a) (emit b)); [apply agree_emit|apply agree_emit|apply inert_emit].
Qed.
Lemma agree_emit_fail_at a e tr : agree (fun x => fail_at e (emit a x)) (a, tr, Some (epos_of e)).
Proof.
  apply (agree_res _ (andthen (lit a) ([], tr, Some (epos_of e)))); [cbn; rewrite app_nil_r; reflexivity|reflexivity|].
  apply (agree_seq (s':=None) (emit a) (fail_at e)); [apply agree_emit|apply agree_fail_at|apply inert_fail_at].
Qed.
Lemma agree_emit_fail0 a r : agree (fun x => Denote.fail0 (emit a x)) r.
Proof. intros x Hf Hs. left. unfold Denote.fail0. rewrite failed_emit, Hf. reflexivity. Qed.

Lemma attr_agree g : forall f cls elem e a a', g <= f -> to_fattr g cls elem a = Some a' -> ascope a' = true ->
  agree (render_attr f elem e a) (DA e a').
Proof.
  induction g as [|g IH]; intros f cls elem e a a' Hle Hc Hs; [discriminate|].
  destruct f as [|f]; [lia|]. apply le_S_n in Hle. cbn [to_fattr] in Hc. cbn [render_attr].
  destruct a as [n|n v|n ex|n ex|ex|ex th el].
  - destruct (name_ok n); [|discriminate]. inversion Hc; subst. cbn [dattr]. apply agree_emit'. cbn. rewrite hesc_same. reflexivity.
  - destruct (name_ok n); [|discriminate]. inversion Hc; subst. cbn [dattr]. apply agree_emit'.
    unfold attr_open. cbn. rewrite !hesc_same, <- !app_assoc. reflexivity.
  - destruct (name_ok n); [|discriminate]. inversion Hc; subst. cbn [dattr]. apply agree_evt.
    cbn [o_bool fr_orc]. unfold fr_bool.
    destruct (lookup e (e_val ex)) as [[| |[]| |]|]; try apply agree_fail0.
    + apply agree_emit'. cbn. rewrite hesc_same. reflexivity.
    + apply agree_id.
  - (* expression attribute *)
    destruct (negb (name_ok n) || zero_range ex || negb (Bool.eqb (is_script_attr n) (is_script_attr (Gen.hesc n)))); [discriminate|].
    destruct (Ast.beq (Gen.hesc n) (bs "class")) eqn:Ecl; [destruct cls; inversion Hc; subst; discriminate|].
    destruct (url_sink elem n) eqn:Eu; [inversion Hc; subst; discriminate|].
    destruct (is_script_attr n) eqn:Es; [inversion Hc; subst; discriminate|].
    change (script_attr n) with (is_script_attr n). rewrite Es.
    rewrite <- !hesc_same, <- !beq_same, Ecl.
    destruct (Ast.beq n (bs "style")) eqn:Est; inversion Hc; subst; cbn [dattr]; unfold expr_attr, attr_open, sink_val, str_val.
    + (* style *)
      cbn [o_style o_escape fr_orc]. unfold fr_style, fr_look.
      destruct (lookup e (pre "style:" (e_val ex))) as [[s| | | |]|]; cbn [val_or_err]; try apply agree_emit_fail0.
      * apply (agree_res _ (lit (([x20] ++ Gen.hesc n ++ bs "=""") ++ s ++ bs """"))); [cbn; rewrite <- !app_assoc; reflexivity|reflexivity|].
        apply agree_emit3.
      * apply (agree_res _ ([x20] ++ Gen.hesc n ++ bs "=""", [(KStyle, ex)], Some (epos_of ex))); [cbn; rewrite ?app_nil_r, <- ?app_assoc; reflexivity|reflexivity|].
        apply agree_emit_fail_at.
    + (* default sink *)
      cbn [o_str o_escape fr_orc]. unfold fr_str.
      destruct (lookup e (e_val ex)) as [[s| | | |]|]; cbn [val_or_err option_map]; try apply agree_emit_fail0.
      * rewrite <- (hesc_same s). apply (agree_res _ (lit (([x20] ++ Gen.hesc n ++ bs "=""") ++ Gen.hesc s ++ bs """"))); [cbn; rewrite <- !app_assoc; reflexivity|reflexivity|].
        apply agree_emit3.
      * apply (agree_res _ ([x20] ++ Gen.hesc n ++ bs "=""", [(KStr, ex)], Some (epos_of ex))); [cbn; rewrite ?app_nil_r, <- ?app_assoc; reflexivity|reflexivity|].
        apply agree_emit_fail_at.
  - (* spread *)
    inversion Hc; subst. cbn [dattr o_spread fr_orc]. unfold fr_spread, fr_look.
    destruct (lookup e (pre "spread:" (e_val ex))) as [[s| | | |]|]; try apply agree_fail0.
    apply (agree_trace _ _ [] _ None). apply agree_emit.
  - (* conditional *)
    destruct (opt_list (map (to_fattr g cls elem) th)) as [th'|] eqn:Eth; [|discriminate].
    destruct (opt_list (map (to_fattr g cls elem) el)) as [el'|] eqn:Eel; [|discriminate].
    inversion Hc; subst. cbn [ascope] in Hs. apply andb_prop in Hs as [S1 S2]. cbn [dattr]. apply agree_evt.
    cbn [o_bool fr_orc]. unfold fr_bool.
    assert (L : forall l l', opt_list (map (to_fattr g cls elem) l) = Some l' -> forallb ascope l' = true ->
                agree (fun x => fold_left (fun x a => render_attr f elem e a x) l x) (seq_list (DA e) l')).
    { intros l l' Hl Hsc. apply agree_attr_list. apply opt_list_Forall2 in Hl.
      revert Hsc. induction Hl as [|a a' r r' Ha _ IHl]; intros Hsc; constructor.
      - cbn [forallb] in Hsc. apply andb_prop in Hsc as [Sa _]. apply (IH f cls elem e a a' Hle Ha Sa).
      - cbn [forallb] in Hsc. apply andb_prop in Hsc as [_ Sr]. apply IHl, Sr. }
    destruct (lookup e (e_val ex)) as [[| |[]| |]|]; try apply agree_fail0; [apply L|apply L]; assumption.
Qed.
Lemma attrs_agree elem e cls l l' : opt_list (map (to_fattr 40 cls elem) l) = Some l' -> forallb ascope l' = true ->
  agree (render_attrs elem e l) (dattrs fr_orc tc e l').
Proof.
  intros Hl Hsc. unfold render_attrs, dattrs. apply agree_attr_list. apply opt_list_Forall2 in Hl.
  revert Hsc. induction Hl as [|a a' r r' Ha _ IHl]; intros Hsc; constructor.
  - cbn [forallb] in Hsc. apply andb_prop in Hsc as [Sa _]. apply (attr_agree 40 50 cls elem e a a'); [lia|exact Ha|exact Sa].
  - cbn [forallb] in Hsc. apply andb_prop in Hsc as [_ Sr]. apply IHl, Sr.
Qed.
Lemma attrs_inert elem e l : inert (render_attrs elem e l).
Proof. intros x p H. unfold render_attrs. rewrite (attrs_failed 50 elem e l x p H). split; [exact H|reflexivity]. Qed.
End Attrs.
Arguments agree_res {s s'}.

(* ---------- conversion and whitespace stripping commute ---------- *)
Lemma Forall2_rev {A B} (R : A -> B -> Prop) l l' : Forall2 R l l' -> Forall2 R (rev l) (rev l').
Proof. induction 1 as [|a b r r' H _ IH]; [constructor|]. cbn [rev]. apply Forall2_app; [exact IH|constructor; [exact H|constructor]]. Qed.

Section Nodes.
Variable tc : bool.
Variable ok : bytes -> bool.                              (* the call expressions to_frag accepts *)
Hypothesis Hok : forall x, ok x = true ->
  match comp_of x with COnce _ | CFlush | CUnknown | CJoin _ | CFlushWith _ | CEager _ => False | _ => True end.
Variable tblA : list (bytes * list node).                 (* the templates of the file: AST ... *)
Variable tbl : list (bytes * list nd).                    (* ... and fragment form *)

Notation conv g n m := (to_frag ok g n = Some m).
Ltac crack H := repeat (match type of H with
  | (if ?c then _ else _) = _ => destruct c
  | (match ?c with _ => _ end) = _ => destruct c
  | option_map _ ?c = _ => destruct c; cbn [option_map] in H
  end; try discriminate).
Lemma ws_same g n m : conv g n m -> is_wsn n = is_ws_f m.
Proof.
  destruct g as [|g]; [discriminate|]. cbn [to_frag]. intros H.
  destruct n; crack H; inversion H; reflexivity.
Qed.
Notation convs g l c := (Forall2 (fun n m => conv g n m) l c).
Lemma strip_ws_conv g l c : convs g l c -> convs g (Denote.strip_ws l) (strip_ws_f c).
Proof.
  induction 1 as [|n m r r' H _ IH]; [constructor|]. unfold Denote.strip_ws, strip_ws_f. cbn [filter].
  rewrite (ws_same g n m H). destruct (is_ws_f m); cbn [negb]; [exact IH|constructor; [exact H|exact IH]].
Qed.
Lemma strip_lead_conv g l c : convs g l c -> convs g (Denote.strip_lead l) (strip_lead_f c).
Proof.
  induction 1 as [|n m r r' H H' IH]; [constructor|]. cbn [Denote.strip_lead strip_lead_f].
  rewrite (ws_same g n m H). destruct (is_ws_f m); [exact IH|constructor; assumption].
Qed.
Lemma strip_lt_conv g l c : convs g l c -> convs g (Denote.strip_lt l) (strip_lt_f c).
Proof. intros H. unfold Denote.strip_lt, strip_lt_f. apply Forall2_rev, strip_lead_conv, Forall2_rev, strip_lead_conv, H. Qed.

(* the whitespace rule reads the same facts off both trees *)
Lemma trail_same g n m : conv g n m -> Denote.trail_of n = IrFrag.trail_of m.
Proof.
  destruct g as [|g]; [discriminate|]. cbn [to_frag]. intros H. destruct n; crack H; inversion H; reflexivity.
Qed.
Lemma inline_same g n m : conv g n m -> Denote.inline_or_text (Some n) = inline (Some m).
Proof.
  destruct g as [|g]; [discriminate|]. cbn [to_frag]. intros H. destruct n; crack H; inversion H; try reflexivity.
  cbn [Denote.inline_or_text inline]. rewrite block_same. reflexivity.
Qed.
Definition NRel (nx : option node) (nx' : option nd) : Prop :=
  match nx, nx' with
  | None, None => True
  | Some n, Some m => exists g, conv g n m
  | _, _ => False end.
Lemma inline_rel nx nx' : NRel nx nx' -> Denote.inline_or_text nx = inline nx'.
Proof. destruct nx as [n|], nx' as [m|]; cbn [NRel]; try contradiction; [intros [g H]; apply (inline_same g n m H)|reflexivity]. Qed.
(* writeNode's trailing space *)
Definition TRL (n : node) (next : option node) (y : st) : st :=
  match Denote.trail_of n with
  | Some SpNone | None => y
  | Some _ => if Denote.inline_or_text (Some n) && Denote.inline_or_text next then emit [x20] y else y end.
Lemma TRL_agree g n m next next' : conv g n m -> NRel next next' -> agree (TRL n next) (lit (trailer m next')).
Proof.
  intros H Hn. unfold TRL, trailer. rewrite (trail_same g n m H), (inline_same g n m H), (inline_rel _ _ Hn).
  destruct (IrFrag.trail_of m) as [[| |]|]; try apply agree_id; destruct (inline (Some m) && inline next'); try apply agree_id; apply agree_emit.
Qed.
Lemma TRL_inert n next : inert (TRL n next).
Proof.
  unfold TRL. destruct (Denote.trail_of n) as [[| |]|]; try apply inert_id;
    destruct (Denote.inline_or_text (Some n) && Denote.inline_or_text next); try apply inert_id; apply inert_emit.
Qed.

(* a failed state is left alone by every node *)
Lemma node_failed F e kids n next x p : failed x = Some p -> render_node tblA F e kids n next x = x.
Proof. intros H. destruct F; cbn [render_node]; [apply (fail0_failed x p H)|rewrite H; reflexivity]. Qed.
Lemma nodes_failed F e kids l : forall next x p, failed x = Some p -> nodes_with (render_node tblA F) e kids l next x = x.
Proof. induction l as [|c r IH]; intros next x p H; [reflexivity|]. cbn [nodes_with]. rewrite (node_failed F e kids c _ x p H). apply (IH next x p H). Qed.
Lemma nodes_inert F e kids l next : inert (nodes_with (render_node tblA F) e kids l next).
Proof. intros x p H. rewrite (nodes_failed F e kids l next x p H). split; [exact H|reflexivity]. Qed.

(* a node list, given its nodes *)
Lemma nodes_agree F g e kids (d : nd -> option nd -> res) l c :
  convs g l c ->
  (forall n m nx nx', In m c -> conv g n m -> NRel nx nx' -> agree (render_node tblA F e kids n nx) (d m nx')) ->
  forall next next', NRel next next' ->
  agree (nodes_with (render_node tblA F) e kids l next) (seq_nodes d c next').
Proof.
  induction 1 as [|n m r r' H Hr IH]; intros Hd next next' Hn; [apply agree_id|].
  cbn [nodes_with seq_nodes]. fold (seq_nodes d).
  apply (agree_seq (s':=None) (render_node tblA F e kids n (match r with y :: _ => Some y | [] => next end))
                   (nodes_with (render_node tblA F) e kids r next)).
  - apply Hd; [left; reflexivity|exact H|]. destruct Hr as [|n2 m2 r2 r2' H2 _]; [exact Hn|]. cbn [next_of NRel]. exists g. exact H2.
  - apply IH; [|exact Hn]. intros n0 m0 nx nx' Hin. apply Hd. right. exact Hin.
  - apply nodes_inert.
Qed.

(* ---------- scope: what spec/Denote.v models as the fragment does (see ascope) ---------- *)
Fixpoint nscope (n : nd) : bool :=
  match n with
  | Elem _ _ _ attrs ch _ => forallb ascope attrs && forallb nscope ch
  | Raw _ attrs _ => forallb ascope attrs
  | Script attrs _ => forallb ascope attrs
  | If _ th elifs _ el => forallb nscope th && cases_all (forallb nscope) elifs && forallb nscope el
  | Switch _ cases => cases_all (forallb nscope) cases
  | For _ body => forallb nscope body
  | CallB _ ch => forallb nscope ch
  | _ => true end.
Lemma ascope_no_defs l e : forallb ascope l = true -> css_defs fr_orc e l = unit_r /\ scripts_defs fr_orc e l = unit_r.
Proof.
  intros H. assert (Hh : existsb attr_hoisted l = false).
  { induction l as [|a r IH]; [reflexivity|]. cbn [forallb] in H. apply andb_prop in H as [Ha Hr]. cbn [existsb]. rewrite (IH Hr), orb_false_r.
    clear -Ha. induction a using fattr_ind'; try reflexivity; try discriminate.
    cbn [ascope] in Ha. apply andb_prop in Ha as [A1 A2]. cbn [attr_hoisted].
    assert (L : forall l, Forall (fun a => ascope a = true -> attr_hoisted a = false) l -> forallb ascope l = true -> existsb attr_hoisted l = false).
    { intros l HL. induction HL as [|x r Hx _ IHl]; intros Hs; [reflexivity|]. cbn [forallb] in Hs. apply andb_prop in Hs as [S1 S2].
      cbn [existsb]. rewrite (Hx S1), (IHl S2). reflexivity. }
    rewrite (L th H A1), (L el H0 A2). reflexivity. }
  destruct (not_hoisted_nil_list l Hh) as [H1 H2]. unfold css_defs, scripts_defs. rewrite H1, H2. split; reflexivity.
Qed.

(* child blocks: the AST block of spec/Denote.v and the lexical block of the fragment *)
Inductive BRel : option block -> option (dblock env) -> Prop :=
| BR_none : BRel None None
| BR_some g ch c e k k' : convs g ch c -> forallb nscope (strip_lt_f c) = true -> BRel k k' ->
    BRel (Some (Blk ch e k)) (Some (DBlk (strip_lt_f c) e k')).
(* the two template tables *)
Definition TRel : Prop := forall name,
  match find_templ tblA name with
  | Some body => exists g c, convs g body c /\ forallb nscope (strip_ws_f c) = true /\ IrFrag.find tbl name = Some (strip_ws_f c)
  | None => IrFrag.find tbl name = None end.
Hypothesis Htbl : TRel.

Notation CD cf := (call_d fr_orc tc tbl cf).
Notation BD cf := (blk_d fr_orc tc tbl cf).
Notation DN cf := (denote fr_orc tc (CD cf) (BD cf)).

(* render_node (S f) on a live state: the node's own rendering, then the trailing space *)
Definition body_of (f : nat) (e : env) (kids : option block) (n : node) (next : option node) (x : st) : st :=
  let R := render_node tblA f in
  match n with
  | NWs v => match v with [] => x | _ => emit [x20] x end
  | NDoc v => emit (bs "<!doctype " ++ v ++ bs ">") x
  | NText v _ => emit v x
  | NStr ex _ => if forallb blank (e_val ex) then x else
                 match lookup e (e_val ex) with
                 | Some (VStr s) => emit (Denote.hesc s) x
                 | Some VErr => fail_at ex x
                 | _ => Denote.fail0 x end
  | NGoComment => x
  | NGoCode _ => x
  | NHtmlComment c => emit (bs "<!--" ++ c ++ bs "-->") x
  | NChildren => render_block_with R kids x
  | NCallT ex => render_comp_with tblA R e (comp_of (e_val ex)) x
  | NCall ex [] => render_comp_with tblA R e (comp_of (e_val ex)) x
  | NCall ex ch => set_slot None (render_comp_with tblA R e (comp_of (e_val ex)) (set_slot (Some (Blk ch e kids)) x))
  | NIf ex th elifs el =>
      match lookup e (e_val ex) with
      | Some (VBool true) => nodes_with R e kids (Denote.strip_lt th) next x
      | Some (VBool false) => chain_with R e kids next el elifs x
      | _ => Denote.fail0 x end
  | NSwitch ex cases =>
      match lookup e (pre "switch:" (e_val ex) ++ bs "@" ++ dec (e_fi ex)) with
      | Some (VIdx i) => match nth_error cases i with
                         | Some (_, body) => nodes_with R e kids (Denote.strip_lt body) next x
                         | None => x end
      | _ => Denote.fail0 x end
  | NFor ex body =>
      match lookup e (e_val ex) with
      | Some (VIter its) => fold_left (fun x bind => nodes_with R (bind ++ e) kids (Denote.strip_lt body) next x) its x
      | _ => Denote.fail0 x end
  | NElem name attrs ch _ =>
      let x := Denote.open_tag name e attrs x in
      if void_name name && match ch with [] => true | _ => false end then x
      else emit (bs "</" ++ Denote.hesc name ++ bs ">") (nodes_with R e kids (Denote.strip_ws ch) None x)
  | NRaw name attrs c => emit (bs "</" ++ Denote.hesc name ++ bs ">") (emit c (Denote.open_tag name e attrs x))
  | NScript attrs parts => emit (bs "</script>") (fold_left (fun x p => render_spart e p x) parts (Denote.open_tag (bs "script") e attrs x))
  end.
Lemma render_node_S f e kids n next x : failed x = None ->
  render_node tblA (S f) e kids n next x = TRL n next (body_of f e kids n next x).
Proof. intros H. cbn [render_node]. rewrite H. reflexivity. Qed.
Lemma agree_node f e kids n next rb rt :
  agree (body_of f e kids n next) rb -> agree (TRL n next) rt ->
  agree (render_node tblA (S f) e kids n next) (andthen rb rt).
Proof.
  intros Hb Ht x Hf Hs. rewrite (render_node_S f e kids n next x Hf).
  exact (agree_seq (s':=None) (body_of f e kids n next) (TRL n next) rb rt Hb Ht (TRL_inert n next) x Hf Hs).
Qed.

Definition node_ok (F : nat) : Prop := forall cf g e kids dk n m next next',
  conv g n m -> nscope m = true -> BRel kids dk -> NRel next next' ->
  agree (render_node tblA F e kids n next) (DN cf e dk m next').

Lemma blk_d_none cf : BD cf None = unit_r.
Proof. destruct cf; reflexivity. Qed.

Lemma call_d_S cf e ex blk :
  CD (S cf) e ex blk =
  match fr_comp ex with
  | KTempl name => match IrFrag.find tbl name with
                   | Some body => denotes fr_orc tc (CD cf) (BD cf) (restrict e) blk body None
                   | None => fail0 end
  | KWrap o c => andthen (lit o) (andthen (BD cf blk) (lit c))
  | KOpaque s => lit s
  | KNop => unit_r
  | KUnknown => fail0 end.
Proof. reflexivity. Qed.
Lemma blk_d_S cf body cap k : BD (S cf) (Some (DBlk body cap k)) = denotes fr_orc tc (CD cf) (BD cf) cap k body None.
Proof. reflexivity. Qed.

Section Step.
Variable f : nat.
Hypothesis IHf : node_ok f.
Notation R := (render_node tblA f).

Lemma nodes_ok cf g e kids dk l c next next' :
  convs g l c -> forallb nscope c = true -> BRel kids dk -> NRel next next' ->
  agree (nodes_with R e kids l next) (denotes fr_orc tc (CD cf) (BD cf) e dk c next').
Proof.
  intros Hc Hs Hk Hn. unfold denotes. apply (nodes_agree f g e kids (fun m nx => DN cf e dk m nx) l c Hc); [|exact Hn].
  intros n m nx nx' Hin Hnm Hnx. apply (IHf cf g e kids dk n m nx nx'); try assumption. rewrite forallb_forall in Hs. apply Hs, Hin.
Qed.
Lemma blk_ok cf b b' : BRel b b' -> agree (render_block_with R b) (BD cf b').
Proof.
  intros [|g ch c e k k' Hc Hs Hk].
  - rewrite blk_d_none. apply agree_id.
  - destruct cf as [|cf]; [apply agree_my00; reflexivity|]. rewrite blk_d_S. cbn [render_block_with].
    apply nodes_ok with (g := g); [apply strip_lt_conv, Hc|exact Hs|exact Hk|exact I].
Qed.
Lemma blk_inert b : inert (render_block_with R b).
Proof. destruct b as [[body cap k]|]; [apply nodes_inert|apply inert_id]. Qed.

(* a call: the component named by ex, handed the block in the slot *)
Lemma comp_ok cf e ex blkA blkD : ok (e_val ex) = true -> BRel blkA blkD ->
  exists s', (blkA = None -> s' = None) /\
             agreeS blkA s' (render_comp_with tblA R e (comp_of (e_val ex))) (CD cf e ex blkD).
Proof.
  intros Hk Hb. specialize (Hok _ Hk).
  destruct cf as [|cf]; [exists None; split; [reflexivity|apply agree_my00; reflexivity]|].
  rewrite call_d_S. unfold fr_comp. destruct (comp_of (e_val ex)) as [name|o c| |s|k| | | |jargs|farg|earg] eqn:Ec; try contradiction.
  - (* a template of the file *)
    exists None. split; [reflexivity|]. specialize (Htbl name). intros x Hf Hs0. cbn [render_comp_with].
    destruct (find_templ tblA name) as [body|].
    + destruct Htbl as [g [c0 [Hc [Hs Hfd]]]]. rewrite Hfd. rewrite Hs0.
      exact (nodes_ok cf g (restrict e) blkA blkD (Denote.strip_ws body) (strip_ws_f c0) None None
                  (strip_ws_conv g body c0 Hc) Hs Hb I (set_slot None x) Hf eq_refl).
    + left. unfold Denote.fail0. rewrite Hf. reflexivity.
  - (* a wrapper: o, the block it was handed, c *)
    exists None. split; [reflexivity|].
    apply (agree_ext_slot _ _ _ (fun x => emit c (render_block_with R blkA (set_slot None (emit o x))))).
    { intros x Hx. cbn [render_comp_with]. rewrite Hx. reflexivity. }
    rewrite <- andthen_assoc.
    apply (agree_seq (s':=None) (fun x => render_block_with R blkA (set_slot None (emit o x))) (emit c)); [|apply agree_emit|apply inert_emit].
    apply (agree_seq (s':=blkA) (emit o) (fun y => render_block_with R blkA (set_slot None y))); [apply agree_emit| |].
    + apply (agree_after_set blkA None None (render_block_with R blkA)); [apply blk_inert|apply blk_ok, Hb].
    + apply (inert_seq (set_slot None) (render_block_with R blkA)); [apply inert_set_slot|apply blk_inert].
  - (* ignore() *) exists blkA. split; [auto|]. cbn [render_comp_with]. apply agree_emit.
  - (* templ.Raw *) exists blkA. split; [auto|]. cbn [render_comp_with]. apply agree_emit.
  - (* templ.NopComponent *) exists blkA. split; [auto|]. apply (agree_ext (fun x => x)); [reflexivity|apply agree_id].
Qed.
Lemma comp_inert e c : inert (render_comp_with tblA R e c).
Proof.
  intros x p H. destruct c as [name|o c| |s|k| | | |jargs|farg|earg]; cbn [render_comp_with].
  - destruct (find_templ tblA name) as [body|].
    + apply (inert_seq (set_slot None) (nodes_with R (restrict e) (slot x) (Denote.strip_ws body) None));
        [apply inert_set_slot|apply nodes_inert|exact H].
    + apply inert_fail0, H.
  - apply (inert_seq (fun y => render_block_with R (slot x) (set_slot None (emit o y))) (emit c)); [|apply inert_emit|exact H].
    apply (inert_seq (emit o) (fun y => render_block_with R (slot x) (set_slot None y))); [apply inert_emit|].
    apply (inert_seq (set_slot None) (render_block_with R (slot x))); [apply inert_set_slot|apply blk_inert].
  - apply inert_emit, H.
  - apply inert_emit, H.
  - destruct (existsb (Denote.beq k) (onces x)); [apply inert_id, H|].
    unfold render_children_restoring.
    apply (inert_seq (fun y => render_block_with R (slot (mark_once k x)) (set_slot None (mark_once k y))) (set_slot (slot (mark_once k x)))); [|apply inert_set_slot|exact H].
    apply (inert_seq (mark_once k) (fun y => render_block_with R (slot (mark_once k x)) (set_slot None y))); [intros y q Hy; split; [exact Hy|reflexivity]|].
    apply (inert_seq (set_slot None) (render_block_with R (slot (mark_once k x)))); [apply inert_set_slot|apply blk_inert].
  - unfold render_children_restoring.
    apply (inert_seq (fun y => render_block_with R (slot x) (set_slot None y)) (set_slot (slot x))); [|apply inert_set_slot|exact H].
    apply (inert_seq (set_slot None) (render_block_with R (slot x))); [apply inert_set_slot|apply blk_inert].
  - apply inert_id, H.
  - apply inert_fail0, H.
  - (* templ.Join *)
    assert (E : forall l y, failed y = Some p ->
              fold_left (fun z a => R e None (NCallT {| e_val := a; e_fi := 0%N; e_fl := 0%N; e_fc := 0%N; e_ti := 0%N; e_tl := 0%N; e_tc := 0%N |}) None z) l y = y).
    { induction l as [|a l IHl]; intros y Hy; [reflexivity|]. cbn [fold_left]. rewrite (node_failed f e None _ None y p Hy). apply IHl, Hy. }
    rewrite (E jargs x H). split; [exact H|reflexivity].
  - (* flushWith *)
    unfold render_children_restoring.
    set (blk := Some (Blk [NCallT {| e_val := farg; e_fi := 0%N; e_fl := 0%N; e_fc := 0%N; e_ti := 0%N; e_tl := 0%N; e_tc := 0%N |}] e None)).
    apply (inert_seq (fun y => set_slot (slot (set_slot blk x)) (render_block_with R (slot (set_slot blk x)) (set_slot None (set_slot blk y)))) (set_slot None)); [|apply inert_set_slot|exact H].
    apply (inert_seq (fun y => render_block_with R (slot (set_slot blk x)) (set_slot None (set_slot blk y))) (set_slot (slot (set_slot blk x)))); [|apply inert_set_slot].
    apply (inert_seq (fun y => set_slot None (set_slot blk y)) (render_block_with R (slot (set_slot blk x)))); [|apply blk_inert].
    apply (inert_seq (set_slot blk) (set_slot None)); apply inert_set_slot.
  - (* eager *)
    assert (E1 : emit (bs "<e>") (set_slot None x) = set_slot None x) by (unfold emit; cbn [failed set_slot]; rewrite H; reflexivity).
    rewrite E1. rewrite (node_failed f e None _ None (set_slot None x) p H).
    assert (E2 : emit (bs "</e>") (set_slot None x) = set_slot None x) by (unfold emit; cbn [failed set_slot]; rewrite H; reflexivity).
    rewrite E2. split; [exact H|reflexivity].
Qed.

(* the cases of if / else-if, of switch, and the iterations of for *)
Notation convc g l c := (Forall2 (fun (p : expr * list node) (q : expr * list nd) =>
                                    exists b', fst q = fst p /\ convs g (snd p) b' /\ snd q = strip_lt_f b') l c).
Lemma cases_conv g l c :
  opt_list (map (fun p : expr * list node => let '(ce, b) := p in
                  option_map (fun b' => (ce, strip_lt_f b')) (opt_list (map (to_frag ok g) b))) l) = Some c -> convc g l c.
Proof.
  intros H. apply opt_list_Forall2 in H. induction H as [|[ce b] [ce' b2] r r' Hp _ IH]; constructor; [|exact IH].
  destruct (opt_list (map (to_frag ok g) b)) as [b'|] eqn:Eb; [|discriminate]. cbn [option_map] in Hp. inversion Hp; subst.
  exists b'. repeat split. apply opt_list_Forall2, Eb.
Qed.
Lemma chain_ok cf g e kids dk next next' elA elD l c :
  convc g l c -> cases_all (forallb nscope) c = true -> BRel kids dk -> NRel next next' ->
  agree (nodes_with R e kids (Denote.strip_lt elA) next) elD ->
  agree (chain_with R e kids next elA l) (chain fr_orc e (fun b => denotes fr_orc tc (CD cf) (BD cf) e dk b next') c elD).
Proof.
  intros Hc. revert elD. induction Hc as [|[ce b] [ce' b2] r r' [b' [E1 [E2 E3]]] _ IH]; intros elD Hs Hk Hn Hel; [exact Hel|].
  cbn [fst snd] in *. subst. unfold cases_all in Hs. cbn [forallb] in Hs. apply andb_prop in Hs as [S1 S2].
  cbn [chain_with chain]. apply agree_evt. cbn [o_bool fr_orc]. unfold fr_bool.
  destruct (lookup e (e_val ce)) as [[| |[]| |]|]; try apply agree_fail0.
  - apply nodes_ok with (g := g); [apply strip_lt_conv, E2|exact S1|exact Hk|exact Hn].
  - apply IH; assumption.
Qed.
Lemma pick_ok cf g e kids dk next next' l c i :
  convc g l c -> cases_all (forallb nscope) c = true -> BRel kids dk -> NRel next next' ->
  agree (fun x => match nth_error l i with Some (_, body) => nodes_with R e kids (Denote.strip_lt body) next x | None => x end)
        (pick (fun b => denotes fr_orc tc (CD cf) (BD cf) e dk b next') c i).
Proof.
  intros Hc. revert i. induction Hc as [|[ce b] [ce' b2] r r' [b' [E1 [E2 E3]]] _ IH]; intros i Hs Hk Hn.
  - destruct i; apply agree_id.
  - cbn [fst snd] in *. subst. unfold cases_all in Hs. cbn [forallb] in Hs. apply andb_prop in Hs as [S1 S2].
    destruct i as [|i]; cbn [nth_error pick].
    + apply nodes_ok with (g := g); [apply strip_lt_conv, E2|exact S1|exact Hk|exact Hn].
    + apply IH; assumption.
Qed.
Lemma for_ok cf g e kids dk next next' body c its :
  convs g body c -> forallb nscope (strip_lt_f c) = true -> BRel kids dk -> NRel next next' ->
  agree (fun x => fold_left (fun x bind => nodes_with R (bind ++ e) kids (Denote.strip_lt body) next x) its x)
        (seq_list (fun env' => denotes fr_orc tc (CD cf) (BD cf) env' dk (strip_lt_f c) next') (map (fun b => b ++ e) its)).
Proof.
  intros Hc Hs Hk Hn. induction its as [|bd its IH]; [apply agree_id|].
  cbn [fold_left map seq_list].
  apply (agree_seq (s':=None) (nodes_with R (bd ++ e) kids (Denote.strip_lt body) next)
                   (fun x => fold_left (fun x bind => nodes_with R (bind ++ e) kids (Denote.strip_lt body) next x) its x)).
  - apply nodes_ok with (g := g); [apply strip_lt_conv, Hc|exact Hs|exact Hk|exact Hn].
  - exact IH.
  - clear. induction its as [|b2 its IH]; [apply inert_id|]. cbn [fold_left].
    apply (inert_seq (nodes_with R (b2 ++ e) kids (Denote.strip_lt body) next)
                     (fun x => fold_left (fun x bind => nodes_with R (bind ++ e) kids (Denote.strip_lt body) next x) its x)); [apply nodes_inert|exact IH].
Qed.
(* <script> contents *)
Lemma parts_ok e parts :
  agree (fun x => fold_left (fun x p => render_spart e p x) parts x) (seq_list (dpart fr_orc e) (map to_jpart parts)) /\
  inert (fun x => fold_left (fun x p => render_spart e p x) parts x).
Proof.
  assert (PI : forall p, inert (render_spart e p)).
  { intros [v|ex tr i] x q H; cbn [render_spart].
    - apply inert_emit, H.
    - destruct (lookup e _) as [[| | | |]|]; try (apply inert_fail0, H); [|apply inert_fail_at, H].
      apply (inert_seq (emit s) (emit tr)); [apply inert_emit|apply inert_emit|exact H]. }
  induction parts as [|p r [IH1 IH2]]; [split; [apply agree_id|apply inert_id]|]. split.
  - cbn [fold_left map seq_list].
    apply (agree_seq (s':=None) (render_spart e p) (fun x => fold_left (fun x p => render_spart e p x) r x)); [|exact IH1|exact IH2].
    destruct p as [v|ex tr i]; cbn [render_spart to_jpart dpart]; [apply agree_emit|].
    unfold js_val. cbn [o_js fr_orc]. unfold fr_js, fr_look.
    change (render_spart e (Ast.SGo ex tr i)) with
      (fun x => match lookup e (pre (if i then "js-in:" else "js-out:") (e_val ex)) with
                | Some (VStr s) => emit tr (emit s x) | Some VErr => fail_at ex x | _ => Denote.fail0 x end).
    destruct (lookup e (pre (if i then "js-in:" else "js-out:") (e_val ex))) as [[s| | | |]|]; cbn [val_or_err]; try apply agree_fail0.
    + apply (agree_res _ (andthen (lit s) (lit tr))); [reflexivity|reflexivity|].
      apply (agree_seq (s':=None) (emit s) (emit tr)); [apply agree_emit|apply agree_emit|apply inert_emit].
    + apply (agree_res _ ([], [(KJs, ex)], Some (epos_of ex))); [reflexivity|reflexivity|apply agree_fail_at].
  - cbn [fold_left]. apply (inert_seq (render_spart e p) (fun x => fold_left (fun x p => render_spart e p x) r x)); [apply PI|exact IH2].
Qed.
Lemma open_tag_ok elem e cls attrs a : opt_list (map (to_fattr 40 cls elem) attrs) = Some a -> forallb ascope a = true ->
  agree (Denote.open_tag elem e attrs) (andthen (lit (open_tag fr_orc elem)) (andthen (dattrs fr_orc tc e a) (lit [x3e]))) /\
  inert (Denote.open_tag elem e attrs).
Proof.
  intros Ha Hs. unfold Denote.open_tag. split.
  - rewrite <- andthen_assoc.
    apply (agree_seq (s':=None) (fun x => render_attrs elem e attrs (emit (bs "<" ++ Denote.hesc elem) x)) (emit (bs ">"))); [|apply agree_emit|apply inert_emit].
    apply (agree_seq (s':=None) (emit (bs "<" ++ Denote.hesc elem)) (render_attrs elem e attrs)).
    + apply agree_emit'. unfold open_tag. cbn. rewrite hesc_same. reflexivity.
    + apply (attrs_agree tc elem e cls attrs a Ha Hs).
    + apply attrs_inert.
  - apply (inert_seq (fun x => render_attrs elem e attrs (emit (bs "<" ++ Denote.hesc elem) x)) (emit (bs ">"))); [|apply inert_emit].
    apply (inert_seq (emit (bs "<" ++ Denote.hesc elem)) (render_attrs elem e attrs)); [apply inert_emit|apply attrs_inert].
Qed.

Lemma call_node_ok cf e ex (blkA : option block) blkD :
  ok (e_val ex) = true -> BRel blkA blkD ->
  agree (fun x => set_slot None (render_comp_with tblA R e (comp_of (e_val ex)) (set_slot blkA x)))
        (andthen (evt KCall ex) (CD cf e ex blkD)).
Proof.
  intros Hk Hb. apply agree_evt. destruct (comp_ok cf e ex blkA blkD Hk Hb) as [s' [_ Hc]].
  apply (agree_then_set None s' None (fun x => render_comp_with tblA R e (comp_of (e_val ex)) (set_slot blkA x))).
  apply (agree_after_set None blkA s' (render_comp_with tblA R e (comp_of (e_val ex)))); [apply comp_inert|exact Hc].
Qed.
Lemma call_node_plain cf e ex : ok (e_val ex) = true ->
  agree (render_comp_with tblA R e (comp_of (e_val ex))) (andthen (evt KCall ex) (CD cf e ex None)).
Proof.
  intros Hk. apply agree_evt. destruct (comp_ok cf e ex None None Hk BR_none) as [s' [Hs Hc]]. rewrite (Hs eq_refl) in Hc. exact Hc.
Qed.

Theorem node_step : node_ok (S f).
Proof.
  intros cf g e kids dk n m next next' Hc Hs Hk Hn.
  assert (HT := TRL_agree g n m next next' Hc Hn).
  destruct g as [|g]; [discriminate|]. cbn [to_frag] in Hc.
  destruct n as [v|v|v t|name attrs ch t|name attrs c|attrs parts| |c|ex|ex ch| |ex th elifs el|ex cases|ex body|ex|ex t].
  - (* whitespace *) destruct v as [|b v]; [discriminate|]. inversion Hc; subst. cbn [denote]. apply agree_node; [apply agree_emit|exact HT].
  - (* doctype *) inversion Hc; subst. cbn [denote]. apply agree_node; [apply agree_emit|exact HT].
  - (* text *) destruct v as [|b v]; [discriminate|]. inversion Hc; subst. cbn [denote]. apply agree_node; [apply agree_emit|exact HT].
  - (* element *)
    destruct (negb (name_ok name) || (is_void_name name && negb (is_nil ch))) eqn:Ev; [discriminate|].
    destruct (opt_list (map (to_fattr 40 true name) attrs)) as [a|] eqn:Ea; [|discriminate].
    destruct (opt_list (map (to_frag ok g) ch)) as [c|] eqn:Ech; [|discriminate]. inversion Hc; subst.
    cbn [nscope] in Hs. apply andb_prop in Hs as [Sa Sc]. cbn [denote].
    destruct (ascope_no_defs a e Sa) as [D1 D2]. rewrite D1, D2, !andthen_unit_l.
    destruct (open_tag_ok name e true attrs a Ea Sa) as [OA OI].
    apply agree_node; [|exact HT]. unfold body_of; cbv beta iota zeta. rewrite <- void_same.
    apply orb_false_elim in Ev as [_ Ev].
    destruct (is_void_name name) eqn:Evn.
    + (* void: no children *)
      cbn [andb] in Ev. apply negb_false_iff in Ev. destruct ch as [|c0 ch]; [|discriminate].
      cbn in Ech. inversion Ech; subst. cbn [andb is_nil strip_ws_f filter].
      rewrite <- (andthen_unit_r (lit [x3e])), <- !andthen_assoc, andthen_unit_r, !andthen_assoc. exact OA.
    + cbn [andb].
      rewrite <- !andthen_assoc.
      apply (agree_seq (s':=None) (fun x => nodes_with R e kids (Denote.strip_ws ch) None (Denote.open_tag name e attrs x)) (emit (bs "</" ++ Denote.hesc name ++ bs ">"))).
      * apply (agree_seq (s':=None) (Denote.open_tag name e attrs) (nodes_with R e kids (Denote.strip_ws ch) None)).
        -- rewrite !andthen_assoc. exact OA.
        -- apply nodes_ok with (g := g); [apply strip_ws_conv, opt_list_Forall2, Ech|exact Sc|exact Hk|exact I].
        -- apply nodes_inert.
      * apply agree_emit'. unfold close_tag. cbn. rewrite hesc_same. reflexivity.
      * apply inert_emit.
  - (* raw element *)
    destruct (negb (name_ok name)); [discriminate|].
    destruct (opt_list (map (to_fattr 40 false name) attrs)) as [a|] eqn:Ea; [|discriminate]. cbn [option_map] in Hc. inversion Hc; subst.
    cbn [nscope] in Hs. cbn [denote]. destruct (ascope_no_defs a e Hs) as [_ D2]. rewrite D2, andthen_unit_l.
    destruct (open_tag_ok name e false attrs a Ea Hs) as [OA OI].
    apply agree_node; [|exact HT]. unfold body_of; cbv beta iota zeta.
    apply (agree_res _ (andthen (andthen (andthen (lit (open_tag fr_orc name)) (andthen (dattrs fr_orc tc e a) (lit [x3e]))) (lit c)) (lit (close_tag fr_orc name)))).
    { rewrite !andthen_assoc. destruct (dattrs fr_orc tc e a) as [[o t0] [q|]]; [reflexivity|]. cbn. rewrite <- ?app_assoc. reflexivity. }
    { rewrite !andthen_assoc. destruct (dattrs fr_orc tc e a) as [[o t0] [q|]]; reflexivity. }
    apply (agree_seq (s':=None) (fun x => emit c (Denote.open_tag name e attrs x)) (emit (bs "</" ++ Denote.hesc name ++ bs ">"))).
    + apply (agree_seq (s':=None) (Denote.open_tag name e attrs) (emit c)); [exact OA|apply agree_emit|apply inert_emit].
    + apply agree_emit'. unfold close_tag. cbn. rewrite hesc_same. reflexivity.
    + apply inert_emit.
  - (* script element *)
    destruct (opt_list (map (to_fattr 40 false (bs "script")) attrs)) as [a|] eqn:Ea; [|discriminate]. cbn [option_map] in Hc. inversion Hc; subst.
    cbn [nscope] in Hs. cbn [denote]. destruct (ascope_no_defs a e Hs) as [_ D2]. rewrite D2, andthen_unit_l.
    destruct (open_tag_ok (bs "script") e false attrs a Ea Hs) as [OA OI]. destruct (parts_ok e parts) as [PA PI].
    apply agree_node; [|exact HT]. unfold body_of; cbv beta iota zeta. rewrite <- !andthen_assoc.
    apply (agree_seq (s':=None) (fun x => fold_left (fun x p => render_spart e p x) parts (Denote.open_tag (bs "script") e attrs x)) (emit (bs "</script>"))).
    + apply (agree_seq (s':=None) (Denote.open_tag (bs "script") e attrs) (fun x => fold_left (fun x p => render_spart e p x) parts x)).
      * rewrite !andthen_assoc. exact OA.
      * exact PA.
      * exact PI.
    + apply agree_emit'. reflexivity.
    + apply inert_emit.
  - (* Go comment *) inversion Hc; subst. cbn [denote]. apply agree_node; [apply agree_id|exact HT].
  - (* HTML comment *) inversion Hc; subst. cbn [denote]. apply agree_node; [apply agree_emit|exact HT].
  - (* {! e } / @e *)
    destruct (ok (e_val ex)) eqn:Ek; [|discriminate]. inversion Hc; subst. cbn [denote]. apply agree_node; [|exact HT].
    unfold body_of; cbv beta iota zeta. apply call_node_plain, Ek.
  - (* @e { ... } *)
    destruct (ok (e_val ex)) eqn:Ek; [|discriminate]. destruct ch as [|c0 ch].
    + inversion Hc; subst. cbn [denote]. apply agree_node; [|exact HT]. unfold body_of; cbv beta iota zeta. apply call_node_plain, Ek.
    + destruct (opt_list (map (to_frag ok g) (c0 :: ch))) as [c|] eqn:Ech; [|discriminate]. cbn [option_map] in Hc. inversion Hc; subst.
      cbn [nscope] in Hs. cbn [denote]. apply agree_node; [|exact HT]. unfold body_of; cbv beta iota zeta.
      apply (call_node_ok cf e ex (Some (Blk (c0 :: ch) e kids)) (Some (DBlk (strip_lt_f c) e dk)) Ek).
      apply (BR_some g); [apply opt_list_Forall2, Ech|exact Hs|exact Hk].
  - (* { children... } *)
    inversion Hc; subst. cbn [denote]. apply agree_node; [|exact HT]. unfold body_of; cbv beta iota zeta. apply blk_ok, Hk.
  - (* if *)
    destruct (opt_list (map (to_frag ok g) th)) as [th'|] eqn:Eth; [|discriminate].
    destruct (opt_list (map _ elifs)) as [ei'|] eqn:Eei; [|discriminate].
    destruct (opt_list (map (to_frag ok g) el)) as [el'|] eqn:Eel; [|discriminate]. inversion Hc; subst.
    cbn [nscope] in Hs. apply andb_prop in Hs as [Hs S3]. apply andb_prop in Hs as [S1 S2].
    cbn [denote]. apply agree_node; [|exact HT]. unfold body_of; cbv beta iota zeta. apply agree_evt. cbn [o_bool fr_orc]. unfold fr_bool.
    destruct (lookup e (e_val ex)) as [[| |[]| |]|]; try apply agree_fail0.
    + apply nodes_ok with (g := g); [apply strip_lt_conv, opt_list_Forall2, Eth|exact S1|exact Hk|exact Hn].
    + apply (chain_ok cf g e kids dk next next' el _ elifs ei'); [apply cases_conv, Eei|exact S2|exact Hk|exact Hn|].
      apply nodes_ok with (g := g); [apply strip_lt_conv, opt_list_Forall2, Eel|exact S3|exact Hk|exact Hn].
  - (* switch *)
    destruct (opt_list (map _ cases)) as [cs'|] eqn:Ecs; [|discriminate]. cbn [option_map] in Hc. inversion Hc; subst.
    cbn [nscope] in Hs. cbn [denote]. apply agree_node; [|exact HT]. unfold body_of; cbv beta iota zeta. apply agree_evt. cbn [o_sw fr_orc]. unfold fr_sw.
    destruct (lookup e _) as [[| | |i|]|]; try apply agree_fail0.
    apply (pick_ok cf g e kids dk next next' cases cs' i); [apply cases_conv, Ecs|exact Hs|exact Hk|exact Hn].
  - (* for *)
    destruct (opt_list (map (to_frag ok g) body)) as [b'|] eqn:Eb; [|discriminate]. cbn [option_map] in Hc. inversion Hc; subst.
    cbn [nscope] in Hs. cbn [denote]. apply agree_node; [|exact HT]. unfold body_of; cbv beta iota zeta. apply agree_evt. cbn [o_for fr_orc]. unfold fr_for.
    destruct (lookup e (e_val ex)) as [[| | | |its]|]; try apply agree_fail0.
    apply (for_ok cf g e kids dk next next' body b' its); [apply opt_list_Forall2, Eb|exact Hs|exact Hk|exact Hn].
  - (* raw Go code *)
    destruct (all_ws (e_val ex)); [discriminate|]. inversion Hc; subst. cbn [denote]. apply agree_node; [|exact HT].
    unfold body_of; cbv beta iota zeta. apply (agree_trace _ [] [] _ None). apply agree_id.
  - (* string expression *)
    destruct (all_ws (e_val ex)) eqn:Ew; [discriminate|]. inversion Hc; subst. cbn [denote]. apply agree_node; [|exact HT].
    unfold body_of; cbv beta iota zeta. rewrite <- blank_same, Ew. unfold str_val. cbn [o_str o_escape fr_orc]. unfold fr_str.
    destruct (lookup e (e_val ex)) as [[s| | | |]|]; cbn [val_or_err option_map]; try apply agree_fail0.
    + apply (agree_trace _ _ [] _ None). apply agree_emit'. symmetry; apply hesc_same.
    + apply agree_fail_at.
Qed.
End Step.

(* the two specifications agree on every node of the fragment, at every fuel of either *)
Theorem denote_agrees F : node_ok F.
Proof.
  induction F as [|f IH]; [|apply node_step, IH].
  intros cf g e kids dk n m next next' _ _ _ _. apply (agree_ext Denote.fail0); [reflexivity|apply agree_fail0].
Qed.
End Nodes.

(* ================= whole files ================= *)
Lemma known_ok names x : fr_known names x = true ->
  match comp_of x with COnce _ | CFlush | CUnknown | CJoin _ | CFlushWith _ | CEager _ => False | _ => True end.
Proof. unfold fr_known. destruct (comp_of x); try exact (fun _ => I); discriminate. Qed.
Lemma bytes_eqb_sym a b : bytes_eqb a b = bytes_eqb b a.
Proof.
  destruct (bytes_eqb a b) eqn:E1, (bytes_eqb b a) eqn:E2; try reflexivity.
  - apply bytes_eqb_eq in E1. subst. rewrite bytes_eqb_refl in E2. discriminate.
  - apply bytes_eqb_eq in E2. subst. rewrite bytes_eqb_refl in E1. discriminate.
Qed.
Definition tbl_scope (tbl : list (bytes * list nd)) : bool := forallb (fun p => forallb nscope (snd p)) tbl.

Lemma file_TRel ok ns l :
  opt_list (map (fun n => match n with
                          | FGo e => Some (FFGo e)
                          | FTempl e ch => option_map (FFTempl e) (to_frag_body ok ch)
                          | other => Some (FFOther other) end) ns) = Some l ->
  tbl_scope (frag_table l) = true ->
  TRel ok (flat_map (fun n => match n with FTempl e ch => [(upto_paren (e_val e), ch)] | _ => [] end) ns) (frag_table l).
Proof.
  intros H. apply opt_list_Forall2 in H. induction H as [|n fn r r' Hn _ IH]; intros Hs name; [reflexivity|].
  destruct n as [e|e ch|e nm props|nm params v fnn]; try (inversion Hn; subst; cbn [flat_map frag_table app]; apply IH, Hs).
  unfold to_frag_body in Hn. destruct (opt_list (map (to_frag ok 90) ch)) as [c|] eqn:Ec; [|discriminate]. cbn [option_map] in Hn.
  inversion Hn; subst. cbn [flat_map frag_table app] in *. unfold tbl_scope in Hs. cbn [forallb snd] in Hs. apply andb_prop in Hs as [S1 S2].
  cbn [find_templ IrFrag.find]. change (callee_name (e_val e)) with (upto_paren (e_val e)). unfold Denote.beq. rewrite (bytes_eqb_sym name (upto_paren (e_val e))).
  destruct (bytes_eqb (upto_paren (e_val e)) name).
  - exists 90, c. repeat split; [apply opt_list_Forall2, Ec|exact S1].
  - apply IH, S2.
Qed.

(* rendering a template of a fragment file: spec/Denote.v's renderer and the fragment denotation agree *)
Theorem file_agrees tc fl l name bodyA F cf ev x :
  to_frag_file fr_known fl = Some l -> tbl_scope (frag_table l) = true ->
  find_templ (templ_table fl) name = Some bodyA ->
  failed x = None -> slot x = None ->
  exists body', IrFrag.find (frag_table l) name = Some body' /\
    let x' := nodes_with (render_node (templ_table fl) F) ev None (Denote.strip_ws bodyA) None x in
    let r := denote_f fr_orc tc (frag_table l) cf ev None body' None in
    failed x' = p00 \/ err_of r = p00 \/
    (flat x' = flat x ++ out_of r /\ failed x' = err_of r /\ (failed x' = None -> slot x' = None)).
Proof.
  intros Hl Hs Hf Hx Hsl. unfold to_frag_file in Hl. unfold templ_table in *.
  pose proof (file_TRel (fr_known (templ_names fl)) (f_nodes fl) l Hl Hs) as HT.
  pose proof (HT name) as Hn. rewrite Hf in Hn. destruct Hn as [g [c [Hc [Hsc Hfd]]]].
  exists (strip_ws_f c). split; [exact Hfd|]. cbv zeta. unfold denote_f.
  exact (nodes_ok tc (fr_known (templ_names fl)) _ _ F
           (denote_agrees tc (fr_known (templ_names fl)) (known_ok (templ_names fl)) _ _ HT F)
           cf g ev None None (Denote.strip_ws bodyA) (strip_ws_f c) None None (strip_ws_conv _ g bodyA c Hc) Hsc (BR_none _) I x Hx Hsl).
Qed.
