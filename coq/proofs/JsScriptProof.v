(* Proofs for the script level of C03 (spec/JsScript.v, model/JsTrack.v):
     PART 1  the string mode of the script lexer makes the decisions of JsLex.lex_go, so everything proved about
             lex_string (literal_closed, json_string_closed) carries over: an escaped value is read through
     PART 2  values_confined: values escaped for their true lexical position leave the token structure alone
     PART 3  tracker_agrees: on the fragment the parser's tracker judges every hole as the lexer does and ends the
             contents at the end tag;  script_structure: both together *)
From Coq.Strings Require Import Byte String.
From Coq Require Import List NArith Bool Lia Arith.
Import ListNotations.
From V Require Import lib.Bytes lib.Utf8 spec.JsLex spec.JsScript model.JsEsc model.JsTrack proofs.JsEscProof.
(* ========================================================================================== *)
(* PART 1: the string mode of the script lexer makes the decisions of JsLex.lex_go             *)

Lemma run_cons vals m x r :
  run vals m (x :: r) = snd (step vals m (x :: r)) ++ run vals (fst (step vals m (x :: r))) r.
Proof. cbn [run]. destruct (step vals m (x :: r)). reflexivity. Qed.

Definition head_ok (R : list sym) : Prop := match R with SB c :: _ => is_cont c = false | _ => True end.
Definition push (b : bytes) (ps : list piece) : list piece := rev (map PcRaw b) ++ ps.

Lemma push_cons c b ps : push (c :: b) ps = push b (PcRaw c :: ps).
Proof. unfold push. cbn [map rev]. rewrite <- app_assoc. reflexivity. Qed.

Lemma lex_go_ge_k q : forall k s e n m, (length s <= k)%nat -> lex_go q e s n = LClosed m -> (n <= m)%nat.
Proof.
  induction k as [|k IH]; intros s e n m L H; destruct s as [|c r]; cbn [lex_go] in H; try discriminate; cbn [length] in L; [lia|].
  assert (IH' : forall e n m, lex_go q e r n = LClosed m -> (n <= m)%nat) by (intros; eapply IH; [|eassumption]; lia).
  destruct e.
  - destruct (Byte.eqb c x0d).
    + destruct r as [|d r']; [apply IH' in H; lia|].
      destruct (Byte.eqb d x0a).
      * cbn [length] in L. apply IH in H; lia.
      * apply IH' in H. lia.
    + apply IH' in H. lia.
  - destruct (Byte.eqb c x5c); [apply IH' in H; lia|].
    destruct (Byte.eqb c (qbyte q)); [inversion H; lia|].
    destruct (is_backtick q && Byte.eqb c x24 && next_is x7b r); [discriminate|].
    destruct (negb (is_backtick q) && lt_at (c :: r)); [discriminate|].
    apply IH' in H. lia.
Qed.
Lemma lex_go_ge q s e n m : lex_go q e s n = LClosed m -> (n <= m)%nat.
Proof. apply (lex_go_ge_k q (length s)). lia. Qed.

Lemma cont_eqb c d : is_cont d = false -> is_cont c = true -> Byte.eqb c d = false.
Proof. intros H1 H2. apply byte_eqb_neq. intros ->. congruence. Qed.

(* the three-byte look-ahead for U+2028/9 sees the same thing whether the body is followed by its quote or by
   anything that does not start with a continuation byte *)
Lemma lsps_bridge c b q t R : head_ok R ->
  lsps_at (c :: b ++ qbyte q :: t) = s_lsps_at (SB c :: map SB b ++ R).
Proof.
  intros HR. unfold lsps_at, s_lsps_at, ls_bytes, ps_bytes. cbn [has_prefix sb_prefix app map].
  destruct (Byte.eqb xe2 c); cbn [andb]; [|reflexivity].
  destruct b as [|b1 [|b2 b']]; cbn [app map has_prefix sb_prefix].
  - assert (Q : Byte.eqb x80 (qbyte q) = false) by (destruct q; reflexivity). rewrite Q. cbn [andb orb].
    destruct R as [|[d|i] R']; cbn [sb_prefix]; try reflexivity.
    cbn in HR. rewrite (cont_eqb x80 d HR) by reflexivity. reflexivity.
  - destruct (Byte.eqb x80 b1); cbn [andb]; [|reflexivity].
    assert (Q1 : Byte.eqb xa8 (qbyte q) = false) by (destruct q; reflexivity).
    assert (Q2 : Byte.eqb xa9 (qbyte q) = false) by (destruct q; reflexivity).
    rewrite Q1, Q2. cbn [andb orb].
    destruct R as [|[d|i] R']; cbn [sb_prefix]; try reflexivity.
    cbn in HR. rewrite (cont_eqb xa8 d HR), (cont_eqb xa9 d HR) by reflexivity. reflexivity.
  - reflexivity.
Qed.

Lemma bridge q vals : forall b e n t ps R,
  forallb (fun c => negb (Byte.eqb c x0d)) b = true ->
  (is_backtick q = true -> forallb (fun c => negb (Byte.eqb c x24)) b = true) ->
  head_ok R ->
  lex_go q e (b ++ qbyte q :: t) n = LClosed (n + length b) ->
  run vals (MStr q (if e then E1 else E0) ps) (map SB b ++ R) = run vals (MStr q E0 (push b ps)) R.
Proof.
  induction b as [|c b IH]; intros e n t ps R Hcr Hd HR H.
  - cbn [app length] in H. destruct e; [|reflexivity].
    cbn [lex_go] in H. assert (Q : Byte.eqb (qbyte q) x0d = false) by (destruct q; reflexivity). rewrite Q in H.
    apply lex_go_ge in H. lia.
  - cbn [forallb] in Hcr. apply andb_prop in Hcr as [Hc Hcr]. apply negb_true_iff in Hc.
    assert (Hd' : is_backtick q = true -> forallb (fun c => negb (Byte.eqb c x24)) b = true).
    { intros B. specialize (Hd B). cbn [forallb] in Hd. apply andb_prop in Hd as [_ Hd]. exact Hd. }
    cbn [app map length] in *. rewrite run_cons. rewrite push_cons.
    replace (n + S (length b))%nat with (S n + length b)%nat in H by lia.
    destruct e.
    + cbn [lex_go] in H. rewrite Hc in H.
      cbn [step fst snd]. rewrite Hc. cbn [app].
      apply (IH false (S n) t _ R Hcr Hd' HR H).
    + cbn [lex_go] in H. cbn [step].
      destruct (Byte.eqb c x5c) eqn:E5.
      { cbn [fst snd app]. apply (IH true (S n) t _ R Hcr Hd' HR H). }
      destruct (Byte.eqb c (qbyte q)) eqn:Eq; [inversion H; lia|].
      destruct (is_backtick q && Byte.eqb c x24 && next_is x7b (b ++ qbyte q :: t)) eqn:Ei; [discriminate|].
      destruct (negb (is_backtick q) && lt_at (c :: b ++ qbyte q :: t)) eqn:El; [discriminate|].
      assert (A1 : is_backtick q && Byte.eqb c x24 && s_next_is x7b (map SB b ++ R) = false).
      { destruct (is_backtick q) eqn:B; [|reflexivity]. specialize (Hd eq_refl). cbn [forallb] in Hd.
        apply andb_prop in Hd as [Hd _]. apply negb_true_iff in Hd. rewrite Hd. reflexivity. }
      assert (A2 : negb (is_backtick q) && s_lt_at (SB c :: map SB b ++ R) = false).
      { rewrite <- El. f_equal. unfold lt_at, s_lt_at. rewrite (lsps_bridge c b q t R HR). reflexivity. }
      rewrite A1, A2. cbn [fst snd app].
      apply (IH false (S n) t _ R Hcr Hd' HR H).
Qed.

Lemma clean_no (x : byte) : danger x = true -> forall l, clean l = true -> forallb (fun c => negb (Byte.eqb c x)) l = true.
Proof.
  intros D l. unfold clean. rewrite !forallb_forall. intros H c Hc. specialize (H c Hc).
  apply negb_true_iff. apply byte_eqb_neq. intros ->. rewrite D in H. discriminate.
Qed.
Lemma cool_no (x : byte) : hot x = true -> forall l, cool l = true -> forallb (fun c => negb (Byte.eqb c x)) l = true.
Proof.
  intros D l. unfold cool. rewrite !forallb_forall. intros H c Hc. specialize (H c Hc).
  apply negb_true_iff. apply byte_eqb_neq. intros ->. rewrite D in H. discriminate.
Qed.

(* a value escaped for a literal is read through, in that literal, whatever follows *)
Lemma pass_replace q vals v ps R : head_ok R ->
  run vals (MStr q E0 ps) (map SB (replace v) ++ R) = run vals (MStr q E0 (push (replace v) ps)) R.
Proof.
  intros HR. destruct (replace_clean v) as [C _].
  apply (bridge q vals (replace v) false 0 [] ps R).
  - apply (clean_no x0d); [reflexivity|exact C].
  - intros _. apply (clean_no x24); [reflexivity|exact C].
  - exact HR.
  - apply (literal_closed q v []).
Qed.

(* a marshalled string is read as one double-quoted literal *)
Lemma pass_json vals v ps R :
  run vals (MStr QDouble E0 ps) (map SB (json_body v) ++ SB x22 :: R) = run vals (MStr QDouble E0 (push (json_body v) ps)) (SB x22 :: R).
Proof.
  destruct (json_string_clean v) as [C _]. unfold json_string in C. rewrite !cool_app in C.
  apply andb_prop in C as [_ C]. apply andb_prop in C as [C _].
  apply (bridge QDouble vals (json_body v) false 0 [] ps (SB x22 :: R)).
  - apply (cool_no x0d); [reflexivity|exact C].
  - intros B. discriminate B.
  - reflexivity.
  - apply (json_string_closed v []).
Qed.

(* ========================================================================================== *)
(* PART 2: values escaped for their true lexical position leave the token structure alone      *)

Definition sim (m m' : mode) : Prop :=
  match m, m' with
  | MCode a, MCode a' => a = a'
  | MStr q e _, MStr q' e' _ => q = q' /\ e = e'
  | MLine a, MLine a' => a = a'
  | MBlockOpen a, MBlockOpen a' => a = a'
  | MBlock a s, MBlock a' s' => a = a' /\ s = s'
  | MStop, MStop => True
  | _, _ => False
  end.

Lemma positions_app a b : positions (a ++ b) = positions a ++ positions b.
Proof. induction a as [|[t|p] a IH]; cbn; [reflexivity|exact IH|rewrite IH; reflexivity]. Qed.
Lemma toks_of_app a b : toks_of (a ++ b) = toks_of a ++ toks_of b.
Proof. induction a as [|[t|p] a IH]; cbn; [reflexivity|rewrite IH; reflexivity|exact IH]. Qed.
Lemma skeleton_app a b : skeleton (a ++ b) = skeleton a ++ skeleton b.
Proof. unfold skeleton. rewrite toks_of_app, map_app. reflexivity. Qed.
Lemma skeleton_code_tok acc : skeleton (code_tok acc) = match acc with [] => [] | _ => [TCode (rev acc)] end.
Proof. destruct acc; reflexivity. Qed.

Lemma byte_eqb_sym a b : Byte.eqb a b = Byte.eqb b a.
Proof.
  destruct (Byte.eqb a b) eqn:E.
  - apply byte_eqb_eq in E. subst. symmetry. apply byte_eqb_refl.
  - symmetry. apply byte_eqb_neq. apply byte_eqb_neq in E. congruence.
Qed.

Lemma flush_sim m m' : sim m m' -> skeleton (flush m') = skeleton (flush m).
Proof.
  destruct m, m'; cbn; intros H; try contradiction; try reflexivity; try (subst; reflexivity).
Qed.

Ltac fin := repeat split; try reflexivity; try (match goal with a : bytes |- _ => destruct a; reflexivity end).

(* one byte of the author's text, read on the template and in the rendering: same decision when the look-ahead agrees *)
Lemma step_SB vals m m' c r R :
  sim m m' ->
  s_lt_at (SB c :: R) = s_lt_at (SB c :: r) ->
  (in_code m = true -> Byte.eqb c x2f = true -> s_next_is x2f R = s_next_is x2f r /\ s_next_is x2a R = s_next_is x2a r) ->
  (forall q e ps, m = MStr q e ps -> e <> E1 -> is_backtick q = true -> Byte.eqb c x24 = true -> s_next_is x7b R = s_next_is x7b r) ->
  sim (fst (step vals m (SB c :: r))) (fst (step [] m' (SB c :: R))) /\
  skeleton (snd (step [] m' (SB c :: R))) = skeleton (snd (step vals m (SB c :: r))) /\
  positions (snd (step vals m (SB c :: r))) = [].
Proof.
  intros S H3 H1 H2.
  destruct m as [acc|q e ps|acc|acc|acc st|]; destruct m' as [acc'|q' e' ps'|acc'|acc'|acc' st'|]; cbn [sim] in S; try contradiction.
  - subst acc'. cbn [step].
    destruct (quote_of c) eqn:Q.
    + cbn [fst snd sim]. fin.
    + destruct (Byte.eqb c x2f) eqn:E.
      * destruct (H1 eq_refl eq_refl) as [A B]. rewrite A, B. cbn [andb].
        destruct (s_next_is x2f r); [cbn [fst snd sim]; fin|].
        destruct (s_next_is x2a r); cbn [fst snd sim]; fin.
      * cbn [andb fst snd sim]. fin.
  - destruct S as [<- <-]. cbn [step].
    assert (E0case : e <> E1 ->
      forall ps0 ps0',
      let A := (if Byte.eqb c x5c then (MStr q E1 (PcRaw c :: ps0), [])
                else if Byte.eqb c (qbyte q) then (MCode [], [ETok (TStr (lit_value q vals (rev ps0) []))])
                else if is_backtick q && Byte.eqb c x24 && s_next_is x7b r then stop x49
                else if negb (is_backtick q) && s_lt_at (SB c :: r) then stop x4c
                else (MStr q E0 (PcRaw c :: ps0), [])) in
      let B := (if Byte.eqb c x5c then (MStr q E1 (PcRaw c :: ps0'), [])
                else if Byte.eqb c (qbyte q) then (MCode [], [ETok (TStr (lit_value q [] (rev ps0') []))])
                else if is_backtick q && Byte.eqb c x24 && s_next_is x7b R then stop x49
                else if negb (is_backtick q) && s_lt_at (SB c :: R) then stop x4c
                else (MStr q E0 (PcRaw c :: ps0'), [])) in
      sim (fst A) (fst B) /\ skeleton (snd B) = skeleton (snd A) /\ positions (snd A) = []).
    { intros NE ps0 ps0'. cbv zeta.
      destruct (Byte.eqb c x5c); [cbn; fin|].
      destruct (Byte.eqb c (qbyte q)); [cbn; fin|].
      destruct (is_backtick q) eqn:B; cbn [andb negb].
      * destruct (Byte.eqb c x24) eqn:E24; cbn [andb]; [|cbn; fin].
        rewrite (H2 q e ps eq_refl NE B eq_refl). destruct (s_next_is x7b r); cbn; fin.
      * rewrite H3. destruct (s_lt_at (SB c :: r)); cbn; fin. }
    destruct e.
    + apply E0case. discriminate.
    + cbn. fin.
    + destruct (Byte.eqb c x0a); [cbn; fin|]. apply E0case. discriminate.
  - subst acc'. cbn [step]. rewrite H3. destruct (s_lt_at (SB c :: r)); cbn; fin.
  - subst acc'. cbn. fin.
  - destruct S as [<- <-]. cbn [step]. destruct (st && Byte.eqb c x2f); cbn; fin.
  - cbn. fin.
Qed.

Local Open Scope N_scope.

Definition bhead_ok (l : bytes) : Prop := match l with b :: _ => is_cont b = false | [] => True end.

Lemma is_cont_lo b : bN b < 128 -> is_cont b = false.
Proof. intros H. unfold is_cont, inr. apply andb_false_intro1. apply N.leb_gt. exact H. Qed.

Lemma head_replace v : head_not_cont v = true -> bhead_ok (replace v).
Proof.
  intros H. rewrite replace_is_bytewise. destruct v as [|b t]; [exact I|].
  destruct (lsps_at (b :: t)) eqn:E.
  - apply lsps_at_inv in E as [t' [E|E]]; rewrite E; [rewrite replace_b_ls|rewrite replace_b_ps]; reflexivity.
  - rewrite replace_b_other by exact E.
    destruct (N.lt_ge_cases (bN b) 128) as [Lo|Hi].
    + destruct (chunk_cases b Lo) as [[S _]|[-> _]].
      * destruct (esc_shape_head _ _ S) as [r ->]. reflexivity.
      * cbn. apply is_cont_lo. exact Lo.
    + rewrite chunk_hi by exact Hi. cbn. cbn in H. apply negb_true_iff in H. exact H.
Qed.
Close Scope N_scope.

Section Conf.
Variable vals : list bytes.

(* the template rendered with every hole escaped for its true lexical position *)
Definition rend (m : mode) (r : list sym) : list sym := map SB (render (positions (run vals m r)) vals r).

Lemma step_SB_pos m c r : positions (snd (step vals m (SB c :: r))) = [].
Proof.
  destruct m as [acc|q e ps|acc|acc|acc st|]; cbn [step].
  - destruct (quote_of c); [destruct acc; reflexivity|].
    destruct (Byte.eqb c x2f && s_next_is x2f r); [destruct acc; reflexivity|].
    destruct (Byte.eqb c x2f && s_next_is x2a r); [destruct acc; reflexivity|reflexivity].
  - destruct (match e with E2 => if Byte.eqb c x0a then E2 else E0 | _ => e end); try reflexivity.
    destruct (Byte.eqb c x5c); [reflexivity|]. destruct (Byte.eqb c (qbyte q)); [reflexivity|].
    destruct (is_backtick q && Byte.eqb c x24 && s_next_is x7b r); [reflexivity|].
    destruct (negb (is_backtick q) && s_lt_at (SB c :: r)); reflexivity.
  - destruct (s_lt_at (SB c :: r)); reflexivity.
  - reflexivity.
  - destruct (st && Byte.eqb c x2f); reflexivity.
  - reflexivity.
Qed.

Lemma rend_nil m : rend m [] = [].
Proof. reflexivity. Qed.
Lemma rend_SB m d r : rend m (SB d :: r) = SB d :: rend (fst (step vals m (SB d :: r))) r.
Proof.
  unfold rend. rewrite run_cons, positions_app, step_SB_pos. reflexivity.
Qed.
Lemma rend_hole_code acc i r :
  rend (MCode acc) (SH i :: r) = SB x22 :: map SB (json_body (nth i vals [])) ++ SB x22 :: rend (MCode []) r.
Proof.
  unfold rend. rewrite run_cons. cbn [step fst snd]. rewrite positions_app, positions_app.
  replace (positions (code_tok acc)) with (@nil bool) by (destruct acc; reflexivity).
  cbn [positions app render]. unfold script_content_outside. cbn [json_encode]. unfold json_string.
  cbn [app map]. rewrite map_app, map_app. cbn [map app]. rewrite <- app_assoc. reflexivity.
Qed.
Lemma rend_hole_str q e ps i r : e <> E1 ->
  rend (MStr q e ps) (SH i :: r) = map SB (replace (nth i vals [])) ++ rend (MStr q E0 (PcHole i :: ps)) r.
Proof.
  intros NE. unfold rend. rewrite run_cons.
  destruct e; [|congruence|]; cbn [step fst snd positions app render]; unfold script_content_inside;
  rewrite map_app; reflexivity.
Qed.

(* after backslash CR, anything but an LF is read as after a complete continuation *)
Lemma run_e2 vs q ps X : match X with SB d :: _ => Byte.eqb d x0a = false | _ => True end ->
  run vs (MStr q E2 ps) X = run vs (MStr q E0 ps) X.
Proof.
  destruct X as [|[d|j] X']; intros H; [reflexivity| |reflexivity].
  rewrite !run_cons. cbn [step]. rewrite H. reflexivity.
Qed.

Lemma replace_head_not_lf v : match replace v with c :: _ => Byte.eqb c x0a = false | [] => True end.
Proof.
  destruct (replace_clean v) as [C _]. pose proof (clean_no x0a eq_refl _ C) as N.
  destruct (replace v) as [|c l]; [exact I|]. cbn [forallb] in N. apply andb_prop in N as [N _].
  apply negb_true_iff in N. exact N.
Qed.
Lemma replace_nonempty b t : replace (b :: t) <> [].
Proof.
  intros E. pose proof (replace_roundtrip QSingle (b :: t)) as RT. rewrite E in RT. cbn in RT. discriminate RT.
Qed.

Lemma walk_cons ok m x r : walk ok vals m (x :: r) = true ->
  ok m (x :: r) = true /\ is_stop (fst (step vals m (x :: r))) = false /\ walk ok vals (fst (step vals m (x :: r))) r = true.
Proof.
  cbn [walk]. intros H. apply andb_prop in H as [H H3]. apply andb_prop in H as [H1 H2].
  apply negb_true_iff in H2. auto.
Qed.

Lemma rend_head_ok : forall r q ps,
  walk (ok_junction vals) vals (MStr q E0 ps) r = true ->
  match r with SB d :: _ => is_cont d = false | _ => True end ->
  head_ok (rend (MStr q E0 ps) r).
Proof.
  induction r as [|[d|j] r IH]; intros q ps W Hd.
  - exact I.
  - rewrite rend_SB. exact Hd.
  - rewrite rend_hole_str by discriminate. apply walk_cons in W as (O & _ & W). cbn [step fst] in W.
    cbn [ok_junction] in O. apply andb_prop in O as [O _]. apply andb_prop in O as [O1 O2].
    pose proof (head_replace _ O1) as HR.
    destruct (replace (nth j vals [])) as [|b l]; [|exact HR].
    cbn [map app]. apply IH; [exact W|].
    destruct r as [|[d|k] r']; try exact I. apply negb_true_iff in O2. exact O2.
Qed.

Lemma lt_at_agree c r R :
  (Byte.eqb c xe2 = true -> exists d1 d2 r3 R3, r = SB d1 :: SB d2 :: r3 /\ R = SB d1 :: SB d2 :: R3) ->
  s_lt_at (SB c :: R) = s_lt_at (SB c :: r).
Proof.
  intros H. unfold s_lt_at, s_lsps_at, ls_bytes, ps_bytes. cbn [sb_prefix].
  rewrite (byte_eqb_sym xe2 c). destruct (Byte.eqb c xe2); [|reflexivity].
  destruct (H eq_refl) as (d1 & d2 & r3 & R3 & -> & ->). reflexivity.
Qed.

Lemma conf_gen : forall tpl m m', sim m m' -> walk (ok_junction vals) vals m tpl = true ->
  skeleton (run [] m' (rend m tpl)) = skeleton (run vals m tpl).
Proof.
  induction tpl as [|[c|i] r IH]; intros m m' S W.
  - rewrite rend_nil. cbn [run]. apply flush_sim. exact S.
  - apply walk_cons in W as (O & NS & W). rewrite rend_SB.
    set (m1 := fst (step vals m (SB c :: r))) in *. set (R := rend m1 r).
    assert (H3 : s_lt_at (SB c :: R) = s_lt_at (SB c :: r)).
    { apply lt_at_agree. intros E. cbn [ok_junction] in O. rewrite E in O. apply andb_prop in O as [O _].
      destruct r as [|[d1|?] [|[d2|?] r3]]; try discriminate O.
      exists d1, d2, r3. subst R.
      assert (X : exists R3, rend m1 (SB d1 :: SB d2 :: r3) = SB d1 :: SB d2 :: R3) by (rewrite rend_SB, rend_SB; eauto).
      destruct X as [R3 X]. exists R3. split; [reflexivity|exact X]. }
    assert (H1 : in_code m = true -> Byte.eqb c x2f = true -> s_next_is x2f R = s_next_is x2f r /\ s_next_is x2a R = s_next_is x2a r).
    { intros C E. apply byte_eqb_eq in E. subst c. destruct m as [acc| | | | |]; try discriminate C.
      destruct r as [|[d|j] r2].
      - subst R. rewrite rend_nil. split; reflexivity.
      - subst R. rewrite rend_SB. split; reflexivity.
      - subst R m1. change (fst (step vals (MCode acc) (SB x2f :: SH j :: r2))) with (MCode (x2f :: acc)).
        rewrite rend_hole_code. split; reflexivity. }
    assert (H2 : forall q e ps, m = MStr q e ps -> e <> E1 -> is_backtick q = true -> Byte.eqb c x24 = true -> s_next_is x7b R = s_next_is x7b r).
    { intros q e ps -> NE B E. destruct r as [|[d|j] r2].
      - subst R. rewrite rend_nil. reflexivity.
      - subst R. rewrite rend_SB. reflexivity.
      - exfalso. cbn [ok_junction] in O. apply andb_prop in O as [_ O]. rewrite B, E in O.
        destruct e; try discriminate O. apply NE. reflexivity. }
    destruct (step_SB vals m m' c r R S H3 H1 H2) as (S1 & K & _).
    rewrite !run_cons, !skeleton_app. rewrite K. f_equal.
    apply IH; [exact S1|exact W].
  - apply walk_cons in W as (O & NS & W).
    destruct m as [acc|q e ps|acc|acc|acc st|]; try (cbn in NS; discriminate NS).
    + destruct m' as [acc'| | | | |]; cbn [sim] in S; try contradiction. subst acc'.
      rewrite rend_hole_code. rewrite (run_cons [] (MCode acc)).
      change (step [] (MCode acc) (SB x22 :: map SB (json_body (nth i vals [])) ++ SB x22 :: rend (MCode []) r))
        with (MStr QDouble E0 [], code_tok acc).
      cbn [fst snd]. rewrite pass_json. rewrite (run_cons [] (MStr QDouble E0 _)).
      change (step [] (MStr QDouble E0 (push (json_body (nth i vals [])) [])) (SB x22 :: rend (MCode []) r))
        with (MCode [], [ETok (TStr (lit_value QDouble [] (rev (push (json_body (nth i vals [])) [])) []))]).
      cbn [fst snd]. rewrite (run_cons vals (MCode acc)). cbn [step fst snd].
      rewrite !skeleton_app. cbn [fst] in W. rewrite <- app_assoc. f_equal.
      change (skeleton [EPos false; ETok (TStr (Some (scrub (nth i vals []))))]) with [TStr None].
      change (skeleton [ETok (TStr (lit_value QDouble [] (rev (push (json_body (nth i vals [])) [])) []))]) with [TStr None].
      f_equal. apply IH; [reflexivity|exact W].
    + assert (NE : e <> E1) by (intros ->; cbn in NS; discriminate NS).
      destruct m' as [|q' e' ps'| | | |]; cbn [sim] in S; try contradiction. destruct S as [<- <-].
      rewrite rend_hole_str by exact NE.
      assert (W' : walk (ok_junction vals) vals (MStr q E0 (PcHole i :: ps)) r = true) by (destruct e; [exact W|congruence|exact W]).
      cbn [ok_junction] in O. apply andb_prop in O as [O OC]. apply andb_prop in O as [O1 O2].
      assert (HR : head_ok (rend (MStr q E0 (PcHole i :: ps)) r)).
      { apply rend_head_ok; [exact W'|]. destruct r as [|[d|k] r']; try exact I. apply negb_true_iff in O2. exact O2. }
      assert (E20 : run [] (MStr q e ps') (map SB (replace (nth i vals [])) ++ rend (MStr q E0 (PcHole i :: ps)) r)
                  = run [] (MStr q E0 ps') (map SB (replace (nth i vals [])) ++ rend (MStr q E0 (PcHole i :: ps)) r)).
      { destruct e; [reflexivity|congruence|]. apply run_e2. cbn [after_bs_cr] in OC.
        pose proof (replace_head_not_lf (nth i vals [])) as HL.
        destruct (nth i vals []) as [|b t] eqn:V.
        - change (replace []) with (@nil byte). cbn [map app]. cbn [cr_lf_kept] in OC.
          destruct r as [|[d|k] r']; [rewrite rend_nil; exact I| |discriminate OC].
          rewrite rend_SB. apply negb_true_iff in OC. exact OC.
        - pose proof (replace_nonempty b t) as NN. destruct (replace (b :: t)) as [|c l]; [congruence|]. exact HL. }
      rewrite E20. rewrite pass_replace by exact HR.
      rewrite (run_cons vals). replace (step vals (MStr q e ps) (SH i :: r)) with (MStr q E0 (PcHole i :: ps), [EPos true]) by (destruct e; [reflexivity|congruence|reflexivity]).
      cbn [fst snd]. rewrite skeleton_app.
      change (skeleton [EPos true]) with (@nil tok). cbn [app].
      apply IH; [split; reflexivity|exact W'].
Qed.
End Conf.

(* ========================================================================================== *)
(* PART 3: on the fragment, the parser's tracker judges every hole as the lexer does           *)

Notation ETAG := (map SB end_tag).

Inductive rel : mode -> tst -> list sym -> Prop :=
| R_code acc top ws s : rel (MCode acc) (KChar None top ws) s
| R_str q ps s : rel (MStr q E0 ps) (KChar (Some q) false false) s
| R_str_top q ps s : skip_ws s <> [] -> sb_prefix lt_slash (skip_ws s) = false -> rel (MStr q E0 ps) (KChar (Some q) true true) s
| R_esc q ps s : rel (MStr q E1 ps) (KEsc (Some q)) s
| R_esc2 q ps s : rel (MStr q E2 ps) (KChar (Some q) false false) s
| R_lineopen acc r : rel (MLine acc) (KLineOpen None) (SB x2f :: r)
| R_line acc s : rel (MLine acc) (KLine None) s
| R_blockopen acc s : rel (MBlockOpen acc) (KBlockOpen None) s
| R_block acc st s : rel (MBlock acc st) (KBlock None st) s.

Lemma trun_cons k x r n : trun k (x :: r) n = snd (tstep k (x :: r) n) ++ trun (fst (tstep k (x :: r) n)) r (S n).
Proof. unfold trun, tstep. cbn [trun_gen]. destruct (tstep_gen false k (x :: r) n). reflexivity. Qed.
Lemma trun_end s n : trun KEnd s n = [].
Proof. revert n. induction s as [|x r IH]; intros n; [reflexivity|]. rewrite trun_cons. cbn. apply IH. Qed.

Lemma ws_plain c : is_ws c = true -> quote_of c = None /\ Byte.eqb c x2f = false /\ Byte.eqb c x5c = false /\ Byte.eqb c x24 = false.
Proof. destruct c; intros H; try discriminate H; repeat split; reflexivity. Qed.
Lemma is_ws_js c : is_ws c = js_ws c. Proof. reflexivity. Qed.

Lemma quote_of_facts c q : quote_of c = Some q -> c = qbyte q /\ Byte.eqb c x2f = false /\ Byte.eqb c x5c = false.
Proof.
  unfold quote_of. destruct (Byte.eqb c x27) eqn:A; [apply byte_eqb_eq in A; intros H; inversion H; subst; repeat split; reflexivity|].
  destruct (Byte.eqb c x22) eqn:B; [apply byte_eqb_eq in B; intros H; inversion H; subst; repeat split; reflexivity|].
  destruct (Byte.eqb c x60) eqn:C; [apply byte_eqb_eq in C; intros H; inversion H; subst; repeat split; reflexivity|discriminate].
Qed.
Lemma quote_of_qbyte q : quote_of (qbyte q) = Some q. Proof. destruct q; reflexivity. Qed.

Lemma toggle_str q c : toggle (Some q) c = if Byte.eqb c (qbyte q) then None else Some q.
Proof.
  unfold toggle. destruct (quote_of c) as [q'|] eqn:Q.
  - apply quote_of_facts in Q as [-> _]. destruct q, q'; reflexivity.
  - destruct (Byte.eqb c (qbyte q)) eqn:E; [|reflexivity]. apply byte_eqb_eq in E. subst. rewrite quote_of_qbyte in Q. discriminate.
Qed.

Lemma sb_prefix_two a b c r : sb_prefix [a; b] (SB c :: r) = Byte.eqb c a && s_next_is b r.
Proof.
  cbn [sb_prefix]. rewrite (byte_eqb_sym a c). destruct (Byte.eqb c a); [|reflexivity]. cbn [andb].
  destruct r as [|[d|j] r']; cbn [sb_prefix s_next_is]; try reflexivity. rewrite (byte_eqb_sym b d), andb_true_r. reflexivity.
Qed.
(* a two-byte pattern whose second byte is not "<" cannot straddle the end of the contents *)
Lemma sb_prefix_etag a b x r : Byte.eqb b x3c = false -> sb_prefix [a; b] (x :: r ++ ETAG) = sb_prefix [a; b] (x :: r).
Proof.
  intros H. destruct x as [c|j]; [|reflexivity]. cbn [sb_prefix]. destruct (Byte.eqb a c); [|reflexivity]. cbn [andb].
  destruct r as [|[d|j] r']; cbn [app map sb_prefix end_tag]; try reflexivity. rewrite H. reflexivity.
Qed.

Lemma skip_ws_app s : skip_ws s <> [] -> skip_ws (s ++ ETAG) = skip_ws s ++ ETAG.
Proof.
  induction s as [|[c|j] r IH]; intros H; cbn [skip_ws app] in *; [congruence| |reflexivity].
  destruct (js_ws c); [apply IH; exact H|reflexivity].
Qed.

Section Track.
Variable vals : list bytes.

Lemma tstep_str_plain q c rest n :
  tstep (KChar (Some q) false false) (SB c :: rest) n =
  (if Byte.eqb c x5c then KEsc (Some q) else KChar (toggle (Some q) c) false false, []).
Proof. unfold tstep, tstep_gen. cbn. destruct (Byte.eqb c x5c); reflexivity. Qed.

Lemma tstep_str_top q c rest n : is_ws c = false -> sb_prefix lt_slash (SB c :: rest) = false ->
  tstep (KChar (Some q) true true) (SB c :: rest) n = tstep (KChar (Some q) false false) (SB c :: rest) n.
Proof. intros W E. unfold tstep, tstep_gen. rewrite W, E. cbn. reflexivity. Qed.

(* a character of a literal at an ordinary position (not right after a backslash) *)
Lemma str_char q e ps c r n :
  (e = E0 \/ (e = E2 /\ Byte.eqb c x0a = false)) ->
  is_stop (fst (step vals (MStr q e ps) (SB c :: r))) = false ->
  exists k', tstep (KChar (Some q) false false) (SB c :: r ++ ETAG) n = (k', []) /\
             rel (fst (step vals (MStr q e ps) (SB c :: r))) k' r /\
             positions (snd (step vals (MStr q e ps) (SB c :: r))) = [].
Proof.
  intros He NS. rewrite tstep_str_plain. rewrite toggle_str.
  assert (X : step vals (MStr q e ps) (SB c :: r) = step vals (MStr q E0 ps) (SB c :: r)).
  { destruct He as [->|[-> L]]; [reflexivity|]. cbn [step]. rewrite L. reflexivity. }
  rewrite X in *. clear X He. cbn [step] in *.
  destruct (Byte.eqb c x5c); [eexists; repeat split; constructor|].
  destruct (Byte.eqb c (qbyte q)); [eexists; repeat split; constructor|].
  destruct (is_backtick q && Byte.eqb c x24 && s_next_is x7b r); [discriminate NS|].
  destruct (negb (is_backtick q) && s_lt_at (SB c :: r)); [discriminate NS|].
  eexists; repeat split; constructor.
Qed.

Lemma tstep_rel m k x r n :
  rel m k (x :: r) -> ok_tracker m (x :: r) = true -> is_stop (fst (step vals m (x :: r))) = false ->
  exists k', tstep k (x :: r ++ ETAG) n = (k', map FHole (positions (snd (step vals m (x :: r))))) /\
             rel (fst (step vals m (x :: r))) k' r.
Proof.
  intros R O NS. unfold lt_slash in *. inversion R; subst; clear R.
  - (* script text *)
    destruct x as [c|i].
    + cbn [ok_tracker] in O. apply andb_prop in O as [O1 O2]. apply negb_true_iff in O1. apply negb_true_iff in O2.
      unfold tstep, tstep_gen. unfold lt_slash in *.
      destruct (ws && is_ws c) eqn:W.
      * apply andb_prop in W as [_ W]. destruct (ws_plain c W) as (Q & S2 & _).
        cbn [step]. rewrite Q, S2. cbn [andb fst snd positions map]. eexists; split; [reflexivity|constructor].
      * rewrite (sb_prefix_etag x3c x2f (SB c) r eq_refl). rewrite O2, andb_false_r.
        cbn [is_none orb andb]. unfold slash_slash, slash_star. rewrite (sb_prefix_etag x2f x2f (SB c) r eq_refl), (sb_prefix_etag x2f x2a (SB c) r eq_refl).
        rewrite !sb_prefix_two. cbn [step].
        destruct (quote_of c) as [q|] eqn:Q.
        -- destruct (quote_of_facts c q Q) as (_ & S2 & S5). rewrite S2, S5. cbn [andb].
           unfold toggle. rewrite Q. replace (positions (snd (MStr q E0 [], code_tok acc))) with (@nil bool) by (destruct acc; reflexivity).
           eexists; split; [reflexivity|constructor].
        -- destruct (Byte.eqb c x2f && s_next_is x2f r) eqn:A.
           { apply andb_prop in A as [A1 A2]. destruct r as [|[d|j] r']; try discriminate A2. cbn in A2. apply byte_eqb_eq in A2. subst d.
             replace (positions (snd (MLine [c], code_tok acc))) with (@nil bool) by (destruct acc; reflexivity).
             eexists; split; [reflexivity|constructor]. }
           destruct (Byte.eqb c x2f && s_next_is x2a r) eqn:B.
           { replace (positions (snd (MBlockOpen [c], code_tok acc))) with (@nil bool) by (destruct acc; reflexivity).
             eexists; split; [reflexivity|constructor]. }
           rewrite O1. unfold toggle. rewrite Q. eexists; split; [reflexivity|constructor].
    + unfold tstep, tstep_gen. cbn. rewrite andb_false_r, andb_false_r. cbn [is_none negb].
      rewrite positions_app. replace (positions (code_tok acc)) with (@nil bool) by (destruct acc; reflexivity).
      eexists; split; [reflexivity|constructor].
  - (* inside a literal *)
    destruct x as [c|i].
    + destruct (str_char q E0 ps c r n (or_introl eq_refl) NS) as (k' & T & Rl & P). rewrite P. eauto.
    + unfold tstep, tstep_gen. cbn [ok_tracker] in O. cbn.
      destruct (skip_ws r) eqn:SK; [discriminate O|]. apply negb_true_iff in O.
      eexists; split; [reflexivity|]. constructor; rewrite SK; [discriminate|exact O].
  - (* inside a literal, just after a hole *)
    destruct x as [c|i].
    + destruct (is_ws c) eqn:W.
      * unfold tstep, tstep_gen. cbn [andb]. rewrite W. cbn [andb].
        destruct (ws_plain c W) as (Q & S2 & S5 & S24). cbn [step] in *. rewrite S5, S24 in *.
        assert (NQ : Byte.eqb c (qbyte q) = false).
        { destruct (Byte.eqb c (qbyte q)) eqn:E; [|reflexivity]. apply byte_eqb_eq in E. subst c. rewrite quote_of_qbyte in Q. discriminate. }
        rewrite NQ in *. rewrite andb_false_r in *. cbn [andb] in *.
        destruct (negb (is_backtick q) && s_lt_at (SB c :: r)); [discriminate NS|].
        cbn [fst snd positions map]. eexists; split; [reflexivity|].
        cbn [skip_ws] in H, H0. rewrite <- is_ws_js, W in H, H0. constructor; assumption.
      * cbn [skip_ws] in H, H0. rewrite <- is_ws_js, W in H, H0.
        rewrite tstep_str_top; [|exact W|unfold lt_slash; rewrite (sb_prefix_etag x3c x2f (SB c) r eq_refl); exact H0].
        destruct (str_char q E0 ps c r n (or_introl eq_refl) NS) as (k' & T & Rl & P). rewrite P. eauto.
    + unfold tstep, tstep_gen. cbn [ok_tracker] in O. cbn.
      destruct (skip_ws r) eqn:SK; [discriminate O|]. apply negb_true_iff in O.
      eexists; split; [reflexivity|]. constructor; rewrite SK; [discriminate|exact O].
  - (* after a backslash *)
    destruct x as [c|i]; [|cbn in NS; discriminate NS].
    unfold tstep, tstep_gen. cbn. destruct (Byte.eqb c x0d); eexists; split; try reflexivity; constructor.
  - (* after backslash CR *)
    destruct x as [c|i].
    + destruct (Byte.eqb c x0a) eqn:L.
      * rewrite tstep_str_plain, toggle_str. apply byte_eqb_eq in L. subst c.
        replace (Byte.eqb x0a (qbyte q)) with false by (destruct q; reflexivity). cbn.
        eexists; split; [reflexivity|constructor].
      * destruct (str_char q E2 ps c r n (or_intror (conj eq_refl L)) NS) as (k' & T & Rl & P). rewrite P. eauto.
    + (* a hole right after backslash CR: the continuation is complete, the hole is inside the literal *)
      unfold tstep, tstep_gen. cbn [ok_tracker] in O. cbn.
      destruct (skip_ws r) eqn:SK; [discriminate O|]. apply negb_true_iff in O.
      eexists; split; [reflexivity|]. constructor; rewrite SK; [discriminate|exact O].
  - (* the second slash of "//" *)
    unfold tstep, tstep_gen. cbn. eexists; split; [reflexivity|constructor].
  - (* line comment *)
    destruct x as [c|i]; [|cbn in NS; discriminate NS].
    cbn [ok_tracker] in O. apply andb_prop in O as [O1 O2]. apply negb_true_iff in O1. apply negb_true_iff in O2.
    unfold tstep, tstep_gen. cbn [step]. unfold s_lt_at. rewrite O1, O2, !orb_false_r.
    destruct (Byte.eqb c x0a); cbn; eexists; split; try reflexivity; constructor.
  - destruct x as [c|i]; [|cbn in NS; discriminate NS].
    unfold tstep, tstep_gen. cbn. eexists; split; [reflexivity|constructor].
  - destruct x as [c|i]; [|cbn in NS; discriminate NS].
    unfold tstep, tstep_gen. cbn [step]. destruct (st && Byte.eqb c x2f); cbn; eexists; split; try reflexivity; constructor.
Qed.
End Track.

Lemma track_gen vals : forall s m k n, rel m k s -> walk ok_tracker vals m s = true ->
  trun k (s ++ ETAG) n = map FHole (positions (run vals m s)) ++ [FEnd (n + length s)].
Proof.
  induction s as [|x r IH]; intros m k n R W.
  - cbn [walk] in W. destruct m as [acc| | | | |]; try discriminate W. inversion R; subst.
    cbn [app run flush length]. replace (positions (code_tok acc)) with (@nil bool) by (destruct acc; reflexivity).
    unfold end_tag. cbn [map app]. rewrite trun_cons. unfold tstep, tstep_gen. cbn. rewrite andb_false_r, orb_true_r. cbn.
    rewrite Nat.add_0_r. reflexivity.
  - apply walk_cons in W as (O & NS & W). destruct (tstep_rel vals m k x r n R O NS) as (k' & T & R').
    cbn [app]. rewrite trun_cons, T. cbn [fst snd]. rewrite (IH _ _ _ R' W).
    rewrite run_cons, positions_app, map_app, <- app_assoc.
    replace (S n + length r)%nat with (n + length (x :: r))%nat by (cbn [length]; lia). reflexivity.
Qed.

Theorem tracker_agrees vals tpl : tracker_fragment vals tpl = true ->
  track (tpl ++ map SB end_tag) = map FHole (positions (lex_script vals tpl)) ++ [FEnd (length tpl)].
Proof. intros W. unfold track, lex_script. apply (track_gen vals tpl (MCode []) _ 0); [constructor|exact W]. Qed.

Theorem values_confined vals tpl : lexes_cleanly vals tpl = true ->
  skeleton (lex_script [] (bytes_syms (render (positions (lex_script vals tpl)) vals tpl))) = skeleton (lex_script vals tpl).
Proof. intros W. apply (conf_gen vals tpl (MCode []) (MCode [])); [reflexivity|exact W]. Qed.

Lemma walk_weaken (ok1 ok2 : mode -> list sym -> bool) vals :
  (forall m s, ok1 m s = true -> ok2 m s = true) -> forall s m, walk ok1 vals m s = true -> walk ok2 vals m s = true.
Proof.
  intros H. induction s as [|x r IH]; intros m W; [exact W|].
  apply walk_cons in W as (O & NS & W). cbn [walk]. rewrite (H _ _ O), NS, (IH _ W). reflexivity.
Qed.

Lemma flags_holes ps n : flags (map FHole ps ++ [FEnd n]) = ps.
Proof. induction ps as [|b ps IH]; [reflexivity|]. cbn. rewrite IH. reflexivity. Qed.

Theorem script_structure vals tpl : fragment vals tpl = true ->
  skeleton (lex_script [] (bytes_syms (render (flags (track (tpl ++ map SB end_tag))) vals tpl))) = skeleton (lex_script vals tpl).
Proof.
  intros W.
  assert (W1 : lexes_cleanly vals tpl = true).
  { apply (walk_weaken (ok_both vals) (ok_junction vals)); [|exact W]. intros m s H. apply andb_prop in H as [H _]. exact H. }
  assert (W2 : tracker_fragment vals tpl = true).
  { apply (walk_weaken (ok_both vals) ok_tracker); [|exact W]. intros m s H. apply andb_prop in H as [_ H]. exact H. }
  rewrite (tracker_agrees vals tpl W2), flags_holes. apply values_confined. exact W1.
Qed.

