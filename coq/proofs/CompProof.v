(* Proofs for C11, components: the model of templ's combinators (model/CompModel.v) meets the Render
   contract spelled out in spec/CompSpec.v - an error iff a failure point is reached, the complete document
   otherwise - and so a composed component served by the buffered handler gets an all-or-nothing response;
   a Flush that kept its children's error to itself would break that. *)
From Coq.Strings Require Import Byte String.
From Coq Require Import List NArith Bool Lia.
Import ListNotations.
From V Require Import lib.Bytes spec.HandlerSpec spec.CompSpec model.Handler model.CompModel proofs.HandlerProof.
Open Scope N_scope.

Lemma run_sound : forall c d st,
  match run d c st with (x, false, st') => ok d st c x st' | (_, true, _) => ko d st c end.
Proof.
  unfold run. induction c; intros d st; cbn [run_gen].
  - constructor.
  - destruct fail; constructor.
  - constructor.
  - specialize (IHc1 d st). destruct (run_gen false d c1 st) as [[x1 f1] st1]. destruct f1.
    + apply ko_seq_l; assumption.
    + specialize (IHc2 d st1). destruct (run_gen false d c2 st1) as [[x2 f2] st2]. destruct f2.
      * eapply ko_seq_r; eassumption.
      * econstructor; eassumption.
  - specialize (IHc d (enter st)). destruct (run_gen false d c (enter st)) as [[x f] st']. destruct f.
    + constructor; assumption.
    + constructor; assumption.
  - destruct (seen h (enter st)) eqn:E.
    + apply ok_once_again; assumption.
    + specialize (IHc d (mark h (enter st))). destruct (run_gen false d c (mark h (enter st))) as [[x f] st']. destruct f.
      * apply ko_once; assumption.
      * apply ok_once_first; assumption.
  - destruct (seen h st) eqn:E.
    + apply ok_oncec_again; assumption.
    + specialize (IHc d (mark h st)). destruct (run_gen false d c (mark h st)) as [[x f] st']. destruct f.
      * apply ko_oncec; assumption.
      * apply ok_oncec_first; assumption.
  - destruct d eqn:D.
    + apply ko_templ_ctx; reflexivity.
    + specialize (IHc false (enter st)). destruct (run_gen false false c (enter st)) as [[x f] st']. destruct f.
      * apply ko_templ; [reflexivity | assumption].
      * apply ok_templ; [reflexivity | assumption].
  - specialize (IHc d st). destruct (run_gen false d c st) as [[x f] st']. destruct f; cbn [orb].
    + apply ko_limit_in; assumption.
    + destruct (n <? N.of_nat (length x)) eqn:E.
      * apply N.ltb_lt in E. eapply ko_limit; eassumption.
      * apply N.ltb_ge in E. rewrite firstn_all2 by lia. apply ok_limit; assumption.
Qed.

Ltac use_det :=
  repeat match goal with
  | [ IH : forall d st x1 s1 x2 s2, ok d st ?c x1 s1 -> ok d st ?c x2 s2 -> _,
      A : ok ?d ?st ?c ?x1 ?s1, B : ok ?d ?st ?c ?x2 ?s2 |- _ ] =>
      assert_fails (constr_eq A B);
      let E1 := fresh in let E2 := fresh in
      destruct (IH _ _ _ _ _ _ A B) as [E1 E2]; subst; clear B
  end.

Lemma ok_det : forall c d st x1 s1 x2 s2, ok d st c x1 s1 -> ok d st c x2 s2 -> x1 = x2 /\ s1 = s2.
Proof.
  induction c; intros d st x1 s1 x2 s2 H1 H2; inversion H1; subst; inversion H2; subst;
    try congruence; use_det; split; reflexivity.
Qed.

Ltac use_det' :=
  repeat match goal with
  | [ A : ok ?d ?st ?c ?x1 ?s1, B : ok ?d ?st ?c ?x2 ?s2 |- _ ] =>
      assert_fails (constr_eq A B);
      let E1 := fresh in let E2 := fresh in
      destruct (ok_det _ _ _ _ _ _ _ A B) as [E1 E2]; subst; clear B
  end.

Lemma ok_not_ko : forall c d st x s, ok d st c x s -> ko d st c -> False.
Proof.
  induction c; intros d st x s H1 H2; inversion H1; subst; inversion H2; subst;
    try congruence; use_det'; try lia;
    match goal with
    | [ IH : forall d st x s, ok d st ?c x s -> ko d st ?c -> False, A : ok _ _ ?c _ _, B : ko _ _ ?c |- _ ] => exact (IH _ _ _ _ A B)
    end.
Qed.

(* the Render contract, for the model of every composition *)
Lemma run_ok_iff c d st x st' : run d c st = (x, false, st') <-> ok d st c x st'.
Proof.
  pose proof (run_sound c d st) as S. split; intros H.
  - rewrite H in S. exact S.
  - destruct (run d c st) as [[x0 f0] s0]. destruct f0.
    + exfalso. eapply ok_not_ko; eassumption.
    + destruct (ok_det _ _ _ _ _ _ _ S H) as [-> ->]. reflexivity.
Qed.

Lemma run_ko_iff c d st : snd (fst (run d c st)) = true <-> ko d st c.
Proof.
  pose proof (run_sound c d st) as S. destruct (run d c st) as [[x0 f0] s0]; cbn. destruct f0; split; intros H; try assumption; try reflexivity; try discriminate.
  exfalso. eapply ok_not_ko; eassumption.
Qed.

Lemma render_total c d : (exists doc, renders_to d c doc) \/ render_fails d c.
Proof.
  pose proof (run_sound c d None) as S. destruct (run d c None) as [[x f] s]. destruct f.
  - right. exact S.
  - left. exists x, s. exact S.
Qed.

Lemma render_exclusive c d doc : renders_to d c doc -> render_fails d c -> False.
Proof. intros [s H] K. eapply ok_not_ko; eassumption. Qed.

(* what the handler sees of a composed component *)
Lemma comp_component_ok c s doc :
  renders_to (ctx_done s) c doc -> fails (comp_component c s) = false /\ document (comp_component c s) = doc.
Proof.
  intros [st' H]. apply run_ok_iff in H. unfold comp_component. rewrite H. cbn. rewrite app_nil_r. split; reflexivity.
Qed.

Lemma comp_component_ko c s : render_fails (ctx_done s) c -> fails (comp_component c s) = true.
Proof.
  intros H. apply run_ko_iff in H. unfold comp_component. destruct (run (ctx_done s) c None) as [[x f] st']. cbn in *. exact H.
Qed.

Lemma composed_all_or_nothing : forall (q : request) (c : cfg) (t : comp),
  c_stream c = false ->
  let r := observe (serve q c (comp_component t)) in
  (forall doc, renders_to (ctx_done (q_ctx q)) t doc ->
     all_or_nothing (c_status c) (c_ctype c) (eh_alone q c) doc false r) /\
  (render_fails (ctx_done (q_ctx q)) t ->
     forall doc, all_or_nothing (c_status c) (c_ctype c) (eh_alone q c) doc true r).
Proof.
  intros q c t Hs r. pose proof (buffered_all_or_nothing q c (comp_component t) Hs) as A. cbv zeta in A. split.
  - intros doc H. apply comp_component_ok in H as [F D]. rewrite F, D in A. exact A.
  - intros H doc. apply comp_component_ko in H. rewrite H in A. exact A.
Qed.

Lemma composed_all_or_nothing_wire : forall (q : request) (c : cfg) (t : comp),
  c_stream c = false ->
  let r := client_view q (observe (serve q c (comp_component t))) in
  let eh := option_map (client_view q) (eh_alone q c) in
  (forall doc, renders_to (ctx_done (q_ctx q)) t doc ->
     all_or_nothing_wire (is_head q) (c_status c) (c_ctype c) eh doc false r) /\
  (render_fails (ctx_done (q_ctx q)) t ->
     forall doc, all_or_nothing_wire (is_head q) (c_status c) (c_ctype c) eh doc true r).
Proof.
  intros q c t Hs r eh. pose proof (buffered_all_or_nothing_wire q c (comp_component t) Hs) as A. cbv zeta in A. split.
  - intros doc H. apply comp_component_ok in H as [F D]. rewrite F, D in A. exact A.
  - intros H doc. apply comp_component_ko in H. rewrite H in A.
    unfold all_or_nothing_wire in *. destruct (is_head q); exact A.
Qed.

(* ---------- the contract is what the theorem rests on ----------
   A FlushComponent.Render that keeps its children's error to itself (returning the result of the writer's
   Flush instead): a generated page whose flushed list fails half-way is answered with the success status
   and a document with a hole. *)
Definition holed_page : comp :=
  CTempl (CSeq (CRaw (bs "<h1>r</h1>"))
         (CSeq (CFlush (CSeq (CRaw (bs "<ul>")) (CSeq (CLeaf [bs "<li>row</li>"] true) (CRaw (bs "</ul>")))))
               (CRaw (bs "<footer>end</footer>")))).
Definition plain_get : request :=
  {| q_method := bs "GET"; q_major := 1; q_minor := 1; q_target := []; q_hdr := []; q_body := []; q_ctx := CtxLive |}.
Definition cfg_202 : cfg := {| c_status := 202; c_ctype := bs "text/html; charset=utf-8"; c_errh := None; c_stream := false |}.

Lemma swallowed_error_breaks_it :
  render_fails false holed_page /\
  let r := observe (serve plain_get cfg_202 (comp_component_sw holed_page)) in
  r_status r = 202 /\ r_body r = bs "<h1>r</h1><ul><li>row</li><footer>end</footer>" /\
  forall doc, ~ all_or_nothing 202 (bs "text/html; charset=utf-8") None doc true r.
Proof.
  split.
  - apply run_ko_iff. vm_compute. reflexivity.
  - cbv zeta. split; [vm_compute; reflexivity|]. split; [vm_compute; reflexivity|].
    intros doc H. cbn [all_or_nothing] in H. destruct H as [H _]. vm_compute in H. discriminate.
Qed.

(* with flush.go as it is, the same page gets the error response *)
Lemma holed_page_error_response :
  observe (serve plain_get cfg_202 (comp_component holed_page))
  = {| r_status := 500; r_hdr := [(h_ctype, text_plain); (h_nosniff, nosniff)]; r_body := err_body |}.
Proof. vm_compute. reflexivity. Qed.
