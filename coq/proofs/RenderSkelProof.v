(* C10 - a render of the generated-code shape meets [spec_ok] on every destination, and does not depend on the pools. *)
From Coq.Strings Require Import Byte String.
From Coq Require Import List NArith Bool Arith Lia.
Import ListNotations.
From V Require Import lib.Bytes spec.RenderSpec model.Bufio model.RenderSkel proofs.BufioProof.
Local Open Scope nat_scope.

(* induction over programs with the nested lists *)
Section NodeInd.
Variable P : node -> Prop.
Hypothesis HLit : forall s, P (Lit s).
Hypothesis HExpr : forall id f l c, P (Expr id f l c).
Hypothesis HTempl : forall g body, Forall P body -> P (Templ g body).
Hypothesis HJoin : forall cs, Forall P cs -> P (Join cs).
Hypothesis HFlush : forall ch, Forall P ch -> P (Flush ch).
Hypothesis HRaw : forall h e, P (Raw h e).
Hypothesis HFunc : forall ops, P (Func ops).
Hypothesis HNop : P Nop.
Hypothesis HIf : forall c thn els, Forall P thn -> Forall P els -> P (If c thn els).
Hypothesis HFor : forall id body, Forall P body -> P (For id body).
Hypothesis HHost : forall k times ch, Forall P ch -> P (Host k times ch).
Fixpoint node_ind' (n : node) : P n :=
  let fix go (l : list node) : Forall P l :=
    match l with [] => Forall_nil P | x :: r => Forall_cons x (node_ind' x) (go r) end in
  match n with
  | Lit s => HLit s
  | Expr id f l c => HExpr id f l c
  | Templ g body => HTempl g body (go body)
  | Join cs => HJoin cs (go cs)
  | Flush ch => HFlush ch (go ch)
  | Raw h e => HRaw h e
  | Func ops => HFunc ops
  | Nop => HNop
  | If c thn els => HIf c thn els (go thn) (go els)
  | For id body => HFor id body (go body)
  | Host k times ch => HHost k times ch (go ch)
  end.
End NodeInd.

Lemma good_at {A} (P : A -> list nat -> Prop) (l : list A) path :
  Forall (fun x => forall p, P x p) l -> Forall (fun x => P x path) l.
Proof. intros H. eapply Forall_impl; [|exact H]. intros x Hx. apply Hx. Qed.

(* the children of a hand-written component, rendered k times: only the number of times matters *)
Lemma seq_d_const {A B} (g : bytes * option err) : forall (l1 : list A) (l2 : list B), length l1 = length l2 ->
  seq_d A (fun _ => g) l1 = seq_d B (fun _ => g) l2.
Proof.
  induction l1 as [|a l1 IH]; intros [|b l2] L; cbn in L; try discriminate; [reflexivity|].
  cbn [seq_d]. destruct g as [d [e|]]; [reflexivity|]. rewrite (IH l2) by lia. reflexivity.
Qed.

Lemma in_flat_map_const {A B} (L : list B) (l : list A) y : In y (flat_map (fun _ => L) l) -> In y L.
Proof. induction l as [|a l IH]; cbn [flat_map]; [intros []|]. intros H. apply in_app_or in H as [H|H]; auto. Qed.

(* ====================================================================================================== *)
(* facts about one destination                                                                            *)
(* ====================================================================================================== *)
Section Local.
Variable sink_st : Type.
Variable sink : sink_st -> bytes -> nat * option err * sink_st.
Variable cap : nat.
Hypothesis sink_le : forall s p, fst (fst (sink s p)) <= length p.

Notation worldT := (world sink_st).
Notation rstateT := (rstate sink_st).
Notation InvT := (Inv sink_st cap).
Notation do_writeT := (do_write sink_st sink cap).
Notation seq_rT := (seq_r sink_st).

Definition RInv (written : bytes) (st : rstateT) : Prop := InvT written (rb st) (rw st).

Lemma do_write_spec direct written st s st' e :
  RInv written st -> do_writeT direct st s = (st', e) -> RInv (written ++ s) st' /\ e = berr (rb st').
Proof.
  unfold RInv, do_write. intros I H.
  destruct (bw_write sink_st sink cap direct (length s + 2) (rb st) (rw st) s) as [b w] eqn:W.
  inversion H; subst. cbn [rb rw]. split; [|reflexivity].
  eapply write_inv; eassumption.
Qed.

Lemma buffer_flush_spec flusher written st st' e :
  RInv written st -> buffer_flush sink_st sink flusher st = (st', e) ->
  RInv written st' /\ e = berr (rb st') /\ (e = None -> buf (rb st') = []) /\
  (forall x, berr (rb st) = Some x -> berr (rb st') = Some x).
Proof.
  unfold RInv, buffer_flush. intros I H.
  destruct (bw_flush sink_st sink (rb st) (rw st)) as [b w] eqn:F.
  pose proof (flush_inv _ _ _ sink_le _ _ _ _ _ I F) as I1.
  assert (St : forall x, berr (rb st) = Some x -> berr b = Some x).
  { intros x Hx. rewrite (flush_sticky _ sink _ _ x Hx) in F. inversion F; subst. exact Hx. }
  destruct (berr b) eqn:Eb.
  - inversion H; subst. cbn [rb rw]. split; [exact I1|]. split; [symmetry; exact Eb|]. split; [discriminate|].
    intros x Hx. rewrite Eb. apply St. exact Hx.
  - inversion H; subst. cbn [rb rw]. split; [|split; [symmetry; exact Eb|split]].
    + destruct flusher; exact I1.
    + intros _. eapply flush_clean; eassumption.
    + intros x Hx. specialize (St x Hx). discriminate.
Qed.

(* what one statement of a sequence does, against what it denotes; hs: the errors of the limited writers of
   hand-written components inside it *)
Definition Good {A} (f : A -> rstateT -> rstateT * option err) (g : A -> bytes * option err) (hs : A -> list err) (x : A) : Prop :=
  forall written st st' e, RInv written st -> berr (rb st) = None -> f x st = (st', e) ->
  exists done, RInv (written ++ done) st' /\
    match e with
    | None => g x = (done, None) /\ berr (rb st') = None
    | Some y => prefix done (fst (g x)) /\ (snd (g x) = Some y \/ berr (rb st') = Some y \/ In y (hs x))
    end.

Lemma good_weaken {A} (f : A -> rstateT -> rstateT * option err) g (hs1 hs2 : A -> list err) x :
  (forall y, In y (hs1 x) -> In y (hs2 x)) -> Good f g hs1 x -> Good f g hs2 x.
Proof.
  intros W G written st st' e I Eb H. destruct (G _ _ _ _ I Eb H) as [d [I1 C]]. exists d. split; [exact I1|].
  destruct e as [y|]; [|exact C]. destruct C as [P [D|[D|D]]]; (split; [exact P|]); auto.
Qed.

Lemma seq_good {A} (f : A -> rstateT -> rstateT * option err) (g : A -> bytes * option err) hs (l : list A) :
  Forall (Good f g hs) l -> Good (seq_rT A f) (seq_d A g) (flat_map hs) l.
Proof.
  induction 1 as [|x r Hx Hr IH]; intros written st st' e I Eb H; cbn [seq_r seq_d flat_map] in *.
  - inversion H; subst. exists []. rewrite app_nil_r. split; [exact I|]. split; [reflexivity|exact Eb].
  - destruct (f x st) as [st1 e1] eqn:F.
    destruct (Hx _ _ _ _ I Eb F) as [d1 [I1 C1]].
    destruct e1 as [y|].
    + inversion H; subst. exists d1. split; [exact I1|]. destruct C1 as [P1 D1].
      destruct (g x) as [dx ex] eqn:G. cbn [fst snd] in P1, D1.
      split.
      * destruct ex; [exact P1|]. destruct (seq_d A g r). cbn [fst]. apply prefix_app_r. exact P1.
      * destruct D1 as [D1|[D1|D1]].
        -- left. subst ex. reflexivity.
        -- right. left. exact D1.
        -- right. right. apply in_or_app. left. exact D1.
    + destruct C1 as [G1 E1]. rewrite G1.
      destruct (IH _ _ _ _ I1 E1 H) as [d2 [I2 C2]].
      exists (d1 ++ d2). rewrite app_assoc. split; [exact I2|].
      destruct (seq_d A g r) as [dr er] eqn:S.
      destruct e as [y|].
      * destruct C2 as [P2 D2]. cbn [fst snd] in *. split; [apply prefix_app_l; exact P2|].
        destruct D2 as [D2|[D2|D2]]; [left; exact D2|right; left; exact D2|right; right; apply in_or_app; right; exact D2].
      * destruct C2 as [G2 E2]. inversion G2; subst. split; [reflexivity|exact E2].
Qed.

Lemma write_good direct (s : bytes) (d : bytes * option err) (hs : list err) written st st' e :
  d = (s, None) -> RInv written st -> do_writeT direct st s = (st', e) ->
  exists done, RInv (written ++ done) st' /\
    match e with
    | None => d = (done, None) /\ berr (rb st') = None
    | Some y => prefix done (fst d) /\ (snd d = Some y \/ berr (rb st') = Some y \/ In y hs)
    end.
Proof.
  intros -> I H. destruct (do_write_spec _ _ _ _ _ _ I H) as [I1 E1].
  exists s. split; [exact I1|]. destruct e as [y|].
  - split; [apply prefix_refl|right; left; symmetry; exact E1].
  - split; [reflexivity|symmetry; exact E1].
Qed.

Lemma run_op_good sw o : Good (run_op sink_st sink cap sw) denote_op (fun _ => []) o.
Proof.
  intros written st st' e I Eb H. destruct o as [p|s|n]; cbn [run_op denote_op] in *.
  - eapply write_good; eauto.
  - eapply write_good; eauto.
  - inversion H; subst. exists []. rewrite app_nil_r. split; [exact I|]. split; [apply prefix_refl|left; reflexivity].
Qed.

(* ---------- a block rendered on this destination through a pooled buffer of its own ---------- *)
(* what such a render does to the destination, against what the block denotes *)
Definition WGood (f : worldT -> option err * worldT) (g : bytes * option err) (hs : list err) : Prop :=
  forall w r w', first_refusal (log w) = None -> f w = (r, w') ->
  match r with
  | None => recv w' = recv w ++ fst g /\ snd g = None /\ first_refusal (log w') = None
  | Some y => prefix (recv w') (recv w ++ fst g) /\ (snd g = Some y \/ first_refusal (log w') = Some y \/ In y hs)
  end.

Lemma closure_top_good flusher (body : rstateT -> rstateT * option err) (g : bytes * option err) (hs : list err) :
  Good (fun _ : unit => body) (fun _ => g) (fun _ => hs) tt ->
  WGood (closure_top sink_st sink flusher true body) g hs.
Proof.
  intros G w r w' Q H. unfold closure_top in H.
  destruct (body {| rb := bw_reset bw_fresh; rw := w |}) as [st1 e] eqn:B.
  destruct (buffer_flush sink_st sink flusher st1) as [st2 fe] eqn:F. inversion H; subst r w'. clear H.
  assert (I0 : RInv (recv w) {| rb := bw_reset bw_fresh; rw := w |}).
  { unfold RInv, Inv. cbn [rb rw bw_reset bw_fresh buf berr]. split; [|split]; [|cbn; lia|symmetry; exact Q].
    exists []. rewrite !app_nil_r. split; reflexivity. }
  destruct (G _ _ _ _ I0 eq_refl B) as [done [I1 C1]].
  destruct (buffer_flush_spec _ _ _ _ _ I1 F) as [I2 [E2 [B2 St]]].
  pose proof (received_is_prefix _ _ _ _ _ I2) as PR.
  assert (FR : berr (rb st2) = first_refusal (log (rw st2))) by (destruct I2 as [_ [_ X]]; exact X).
  destruct e as [y|].
  - destruct C1 as [P1 D1]. split.
    + eapply prefix_trans; [exact PR|]. apply prefix_app_l. exact P1.
    + destruct D1 as [D1|[D1|D1]]; [left; exact D1| |right; right; exact D1].
      right. left. rewrite <- FR. apply St. exact D1.
  - destruct C1 as [G1 E1]. rewrite G1. cbn [fst snd]. destruct fe as [y|].
    + split; [exact PR|]. right. left. rewrite <- FR. symmetry. exact E2.
    + split; [|split; [reflexivity|]].
      * eapply clean_means_all; [exact I2|symmetry; exact E2|apply B2; reflexivity].
      * rewrite <- FR. symmetry. exact E2.
Qed.

Lemma closure_times_good (f : worldT -> option err * worldT) (g : bytes * option err) (hs : list err) :
  WGood f g hs -> forall k, WGood (closure_times f k) (seq_d nat (fun _ => g) (seq 0 k)) hs.
Proof.
  intros G k. induction k as [|k IH]; intros w r w' Q H; cbn [closure_times] in H.
  - inversion H; subst. cbn [seq seq_d fst snd]. rewrite app_nil_r. repeat split; auto.
  - assert (SQ : seq_d nat (fun _ => g) (seq 0 (S k)) =
                 let '(d, e) := g in match e with Some _ => (d, e) | None => let '(d2, e2) := seq_d nat (fun _ => g) (seq 0 k) in (d ++ d2, e2) end).
    { cbn [seq seq_d]. destruct g as [d [e|]]; [reflexivity|].
      rewrite (seq_d_const (d, None) (seq 1 k) (seq 0 k)) by (rewrite !seq_length; reflexivity). reflexivity. }
    rewrite SQ. clear SQ.
    destruct (f w) as [e1 w1] eqn:F. pose proof (G _ _ _ Q F) as C1.
    destruct g as [d ge] eqn:Eg. cbn [fst snd] in *.
    destruct e1 as [y|].
    + inversion H; subst r w'. destruct C1 as [P1 D1]. destruct ge as [z|]; cbn [fst snd].
      * split; assumption.
      * destruct (seq_d nat (fun _ => (d, None)) (seq 0 k)) as [d2 e2]. cbn [fst snd]. split.
        -- rewrite app_assoc. apply prefix_app_r. exact P1.
        -- destruct D1 as [D1|D1]; [discriminate|right; exact D1].
    + destruct C1 as [R1 [S1 Q1]]. subst ge.
      pose proof (IH _ _ _ Q1 H) as C2.
      destruct (seq_d nat (fun _ => (d, None)) (seq 0 k)) as [d2 e2]. cbn [fst snd] in *.
      rewrite R1 in C2. rewrite <- app_assoc in C2. exact C2.
Qed.
End Local.

(* ====================================================================================================== *)
(* any property of the destination that every call on it preserves is preserved by a whole render         *)
(* ====================================================================================================== *)
Section PreserveLocal.
Variable sink_st : Type.
Variable sink : sink_st -> bytes -> nat * option err * sink_st.
Variable cap : nat.

Notation worldT := (world sink_st).
Notation rstateT := (rstate sink_st).

Variable P : worldT -> Prop.
Hypothesis P_call : forall w direct p, P w -> P (snd (sink_call sink_st sink direct w p)).
Hypothesis P_mark : forall w k, P w -> P {| sst := sst w; recv := recv w; log := log w; marks := marks w ++ [k] |}.
Hypothesis P_spin : forall w, P w -> P {| sst := sst w; recv := recv w; log := log w ++ [LSpin]; marks := marks w |}.

Lemma flush_pres b w b' w' : P w -> bw_flush sink_st sink b w = (b', w') -> P w'.
Proof.
  intros Pw H. unfold bw_flush in H.
  destruct (berr b); [inversion H; subst; exact Pw|].
  destruct (buf b) eqn:Bb; [inversion H; subst; exact Pw|]. rewrite <- Bb in H.
  pose proof (P_call w false (buf b) Pw) as P1.
  destruct (sink_call sink_st sink false w (buf b)) as [[n e] w1]. cbn [snd] in P1.
  destruct (match e with Some x => Some x | None => if n <? length (buf b) then Some EShortWrite else None end);
    inversion H; subst; exact P1.
Qed.

Lemma write_pres direct fuel : forall b w s b' w',
  P w -> bw_write sink_st sink cap direct fuel b w s = (b', w') -> P w'.
Proof.
  induction fuel as [|f IH]; intros b w s b' w' Pw H; cbn [bw_write] in H.
  - destruct (berr b); [inversion H; subst; exact Pw|].
    destruct (length s <=? cap - length (buf b)); inversion H; subst; [exact Pw|apply P_spin; exact Pw].
  - destruct (berr b); [inversion H; subst; exact Pw|].
    destruct (length s <=? cap - length (buf b)); [inversion H; subst; exact Pw|].
    destruct (direct && is_nil (buf b)).
    + pose proof (P_call w true s Pw) as P1.
      destruct (sink_call sink_st sink true w s) as [[n e] w1]. cbn [snd] in P1.
      eapply IH; [exact P1|exact H].
    + destruct (bw_flush sink_st sink {| buf := buf b ++ firstn (cap - length (buf b)) s; berr := None |} w) as [b1 w1] eqn:F.
      eapply IH; [|exact H]. eapply flush_pres; [exact Pw|exact F].
Qed.

Definition RP (st : rstateT) : Prop := P (rw st).

Lemma do_write_pres direct st s st' e : RP st -> do_write sink_st sink cap direct st s = (st', e) -> RP st'.
Proof.
  unfold RP, do_write. intros Pw H.
  destruct (bw_write sink_st sink cap direct (length s + 2) (rb st) (rw st) s) as [b w] eqn:W.
  inversion H; subst. cbn [rw]. eapply write_pres; eassumption.
Qed.

Lemma buffer_flush_pres flusher st st' e : RP st -> buffer_flush sink_st sink flusher st = (st', e) -> RP st'.
Proof.
  unfold RP, buffer_flush. intros Pw H.
  destruct (bw_flush sink_st sink (rb st) (rw st)) as [b w] eqn:F.
  pose proof (flush_pres _ _ _ _ Pw F) as P1.
  destruct (berr b); inversion H; subst; cbn [rw]; [exact P1|].
  destruct flusher; [apply P_mark; exact P1|exact P1].
Qed.

Lemma seq_pres {A} (f : A -> rstateT -> rstateT * option err) (l : list A) :
  Forall (fun x => forall st st' e, RP st -> f x st = (st', e) -> RP st') l ->
  forall st st' e, RP st -> seq_r sink_st A f l st = (st', e) -> RP st'.
Proof.
  induction 1 as [|x r Hx Hr IH]; intros st st' e Pw H; cbn [seq_r] in H.
  - inversion H; subst. exact Pw.
  - destruct (f x st) as [st1 e1] eqn:F. pose proof (Hx _ _ _ Pw F) as P1.
    destruct e1; [inversion H; subst; exact P1|]. eapply IH; eassumption.
Qed.

Lemma closure_top_pres flusher own (body : rstateT -> rstateT * option err) :
  (forall st st' e, RP st -> body st = (st', e) -> RP st') ->
  forall w r w', P w -> closure_top sink_st sink flusher own body w = (r, w') -> P w'.
Proof.
  intros Hb w r w' Pw H. unfold closure_top in H.
  destruct (body {| rb := bw_reset bw_fresh; rw := w |}) as [st1 e] eqn:B.
  assert (P1 : RP st1) by (eapply Hb; [|exact B]; exact Pw).
  destruct own.
  - destruct (buffer_flush sink_st sink flusher st1) as [st2 fe] eqn:F. inversion H; subst.
    exact (buffer_flush_pres _ _ _ _ P1 F).
  - inversion H; subst. exact P1.
Qed.

Lemma closure_times_pres (f : worldT -> option err * worldT) :
  (forall w r w', P w -> f w = (r, w') -> P w') ->
  forall k w r w', P w -> closure_times f k w = (r, w') -> P w'.
Proof.
  intros Hf. induction k as [|k IH]; intros w r w' Pw H; cbn [closure_times] in H.
  - inversion H; subst. exact Pw.
  - destruct (f w) as [e1 w1] eqn:F. pose proof (Hf _ _ _ Pw F) as P1.
    destruct e1; [inversion H; subst; exact P1|]. eapply IH; eassumption.
Qed.
End PreserveLocal.

Section RunPres.
Variable cap : nat.
Variable esc : bytes -> bytes.
Variable env : list nat -> N -> bytes * option N.
Variable benv : list nat -> N -> bool.
Variable senv : list nat -> N -> nat.
Variable cnt : list nat -> N -> nat.
Variable cancel : option N.

(* the calls a forwarding writer of a hand-written component makes on the buffer behind it are ordinary writes *)
Lemma fwd_step_pres (S : Type) (sink : S -> bytes -> nat * option err * S) (P : world S -> Prop) x :
  (forall w direct p, P w -> P (snd (sink_call S sink direct w p))) ->
  (forall w, P w -> P {| sst := sst w; recv := recv w; log := log w ++ [LSpin]; marks := marks w |}) ->
  forall s p, P (rw (snd s)) -> P (rw (snd (snd (fwd_step S sink cap x s p)))).
Proof.
  intros Pc Ps s p Pw. unfold fwd_step. destruct (h_trip (fst s)); [exact Pw|].
  set (q := match h_rem (fst s) with Some r => firstn r p | None => p end).
  destruct (do_write S sink cap true (snd s) q) as [st' e] eqn:W.
  assert (P1 : P (rw st')).
  { eapply (do_write_pres S sink cap P Pc Ps); [|exact W]. exact Pw. }
  destruct e; [exact P1|]. destruct (length q <? length p); exact P1.
Qed.

Definition PresAt (n : node) : Prop :=
  forall (S : Type) (sink : S -> bytes -> nat * option err * S) (sw flusher : bool) (P : world S -> Prop),
  (forall w direct p, P w -> P (snd (sink_call S sink direct w p))) ->
  (forall w k, P w -> P {| sst := sst w; recv := recv w; log := log w; marks := marks w ++ [k] |}) ->
  (forall w, P w -> P {| sst := sst w; recv := recv w; log := log w ++ [LSpin]; marks := marks w |}) ->
  forall path st st' e, P (rw st) -> run S sink cap sw flusher esc env benv senv cnt cancel n path st = (st', e) -> P (rw st').

Lemma pres_list (l : list node) : Forall PresAt l ->
  forall (S : Type) (sink : S -> bytes -> nat * option err * S) (sw flusher : bool) (P : world S -> Prop),
  (forall w direct p, P w -> P (snd (sink_call S sink direct w p))) ->
  (forall w k, P w -> P {| sst := sst w; recv := recv w; log := log w; marks := marks w ++ [k] |}) ->
  (forall w, P w -> P {| sst := sst w; recv := recv w; log := log w ++ [LSpin]; marks := marks w |}) ->
  forall path st st' e, P (rw st) ->
  seq_r S node (fun x => run S sink cap sw flusher esc env benv senv cnt cancel x path) l st = (st', e) -> P (rw st').
Proof.
  intros Hl S sink sw flusher P Pc Pm Ps path st st' e Pw H.
  refine (seq_pres S P _ l _ st st' e Pw H).
  eapply Forall_impl; [|exact Hl]. intros n Hn s1 s2 e1 P1 H1. exact (Hn S sink sw flusher P Pc Pm Ps path s1 s2 e1 P1 H1).
Qed.

Lemma run_pres : forall n, PresAt n.
Proof.
  induction n as [s|id f l c|g body IHb|cs IHb|ch IHb|h e0|ops| |c thn els IHt IHe|id body IHb|k times ch IHb] using node_ind';
    intros S sink sw flusher P Pc Pm Ps path st st' e Pw H; cbn [run] in H.
  - exact (do_write_pres S sink cap P Pc Ps _ _ _ _ _ Pw H).
  - destruct (env path id) as [v [x|]]; [inversion H; subst; exact Pw|exact (do_write_pres S sink cap P Pc Ps _ _ _ _ _ Pw H)].
  - destruct g.
    + set (cc := cancel) in H at 1. clearbody cc. destruct cc; [inversion H; subst; exact Pw|].
      exact (pres_list body IHb S sink sw flusher P Pc Pm Ps path st st' e Pw H).
    + exact (pres_list body IHb S sink sw flusher P Pc Pm Ps path st st' e Pw H).
  - exact (pres_list cs IHb S sink sw flusher P Pc Pm Ps path st st' e Pw H).
  - destruct (seq_r S node (fun x => run S sink cap sw flusher esc env benv senv cnt cancel x path) ch st) as [st1 e1] eqn:Sq.
    pose proof (pres_list ch IHb S sink sw flusher P Pc Pm Ps _ _ _ _ Pw Sq) as P1.
    destruct e1; [inversion H; subst; exact P1|]. exact (buffer_flush_pres S sink P Pc Pm _ _ _ _ P1 H).
  - destruct e0; [inversion H; subst; exact Pw|exact (do_write_pres S sink cap P Pc Ps _ _ _ _ _ Pw H)].
  - refine (seq_pres S P _ ops _ st st' e Pw H). apply Forall_forall. intros o _ s1 s2 e1 P1 H1.
    destruct o; cbn [run_op] in H1; [exact (do_write_pres S sink cap P Pc Ps _ _ _ _ _ P1 H1)|exact (do_write_pres S sink cap P Pc Ps _ _ _ _ _ P1 H1)|inversion H1; subst; exact P1].
  - inversion H; subst. exact Pw.
  - destruct (test benv senv path c).
    + exact (pres_list thn IHt S sink sw flusher P Pc Pm Ps path st st' e Pw H).
    + exact (pres_list els IHe S sink sw flusher P Pc Pm Ps path st st' e Pw H).
  - refine (seq_pres S P _ (seq 0 (cnt path id)) _ st st' e Pw H).
    apply Forall_forall. intros j _ s1 s2 e1 P1 H1. exact (pres_list body IHb S sink sw flusher P Pc Pm Ps (j :: path) s1 s2 e1 P1 H1).
  - destruct k as [|limit x ownf|].
    + refine (seq_pres S P _ (seq 0 times) _ st st' e Pw H).
      apply Forall_forall. intros j _ s1 s2 e1 P1 H1. exact (pres_list ch IHb S sink sw flusher P Pc Pm Ps path s1 s2 e1 P1 H1).
    + unfold host_fwd in H.
      match type of H with (let '(_, _) := closure_times ?f ?t ?w0 in _) = _ => destruct (closure_times f t w0) as [r w'] eqn:CT end.
      inversion H; subst st' e. clear H.
      set (P' := fun w' : world (hstate * rstate S) => P (rw (snd (sst w')))).
      assert (Pc' : forall w direct p, P' w -> P' (snd (sink_call _ (fwd_step S sink cap x) direct w p))).
      { intros w direct p Hw. unfold P', sink_call in *.
        pose proof (fwd_step_pres S sink P x Pc Ps (sst w) p Hw) as X.
        destruct (fwd_step S sink cap x (sst w) p) as [[n0 e0] s']. cbn [snd sst] in *. exact X. }
      assert (Pm' : forall w j, P' w -> P' {| sst := sst w; recv := recv w; log := log w; marks := marks w ++ [j] |}) by (intros w j Hw; exact Hw).
      assert (Ps' : forall w, P' w -> P' {| sst := sst w; recv := recv w; log := log w ++ [LSpin]; marks := marks w |}) by (intros w Hw; exact Hw).
      refine (closure_times_pres _ P' _ _ times _ r w' _ CT).
      * intros w r1 w1 Hw H1. refine (closure_top_pres _ (fwd_step S sink cap x) P' Pc' Pm' _ _ _ _ w r1 w1 Hw H1).
        intros s1 s2 e1 Q1 H2. exact (pres_list ch IHb _ (fwd_step S sink cap x) false false P' Pc' Pm' Ps' path s1 s2 e1 Q1 H2).
      * exact Pw.
    + unfold host_capture in H.
      match type of H with (let '(_, _) := closure_times ?f ?t ?w0 in _) = _ => destruct (closure_times f t w0) as [r w'] eqn:CT end.
      destruct r; [inversion H; subst; exact Pw|]. exact (do_write_pres S sink cap P Pc Ps _ _ _ _ _ Pw H).
Qed.

Theorem render_top_pres (S : Type) (sink : S -> bytes -> nat * option err * S) (sw flusher : bool) (P : world S -> Prop) :
  (forall w direct p, P w -> P (snd (sink_call S sink direct w p))) ->
  (forall w k, P w -> P {| sst := sst w; recv := recv w; log := log w; marks := marks w ++ [k] |}) ->
  (forall w, P w -> P {| sst := sst w; recv := recv w; log := log w ++ [LSpin]; marks := marks w |}) ->
  forall reset pool choice g body (w0 : world S) res w' pool',
  P w0 -> render_top S sink cap sw flusher esc env benv senv cnt cancel reset pool choice g body w0 = (res, w', pool') -> P w'.
Proof.
  intros Pc Pm Ps reset pool choice g body w0 res w' pool' Pw H. unfold render_top in H. destruct (if g then cancel else None).
  - inversion H; subst. exact Pw.
  - destruct (acquire pool choice) as [b0 pool1].
    destruct (seq_r S node (fun x => run S sink cap sw flusher esc env benv senv cnt cancel x []) body {| rb := if reset then bw_reset b0 else b0; rw := w0 |}) as [st1 e] eqn:Sq.
    destruct (buffer_flush S sink flusher st1) as [st2 fe] eqn:F. inversion H; subst.
    assert (P1 : P (rw st1)).
    { refine (pres_list body _ S sink sw flusher P Pc Pm Ps [] _ st1 e _ Sq); [|exact Pw]. apply Forall_forall. intros n _. apply run_pres. }
    exact (buffer_flush_pres S sink P Pc Pm _ _ _ _ P1 F).
Qed.
End RunPres.

(* ====================================================================================================== *)
(* the forwarding writer of a hand-written component is itself a well-behaved io.Writer                   *)
(* ====================================================================================================== *)
Section FwdWriter.
Variable sink_st : Type.
Variable sink : sink_st -> bytes -> nat * option err * sink_st.
Variable cap : nat.

(* Buffer.Write reports the number of bytes it consumed: a prefix t of what it was offered, all of it unless it
   reports an error; t is now behind the buffer or in it *)
Lemma do_write_count direct (st : rstate sink_st) q st' e : do_write sink_st sink cap direct st q = (st', e) ->
  exists t, length (recv (rw st')) + length (buf (rb st')) - (length (recv (rw st)) + length (buf (rb st))) = length t /\
            prefix t q /\ (e = None -> t = q) /\
            recv (rw st') ++ buf (rb st') = (recv (rw st) ++ buf (rb st)) ++ t.
Proof.
  unfold do_write. intros H.
  destruct (bw_write sink_st sink cap direct (length q + 2) (rb st) (rw st) q) as [b w] eqn:W.
  inversion H; subst st' e. cbn [rb rw].
  destruct (write_conserve _ _ _ _ _ _ _ _ _ _ W) as [t [E [Pt Ft]]].
  exists t. split; [|split; [exact Pt|split; [exact Ft|]]].
  - assert (L : length (recv w) + length (buf b) = length (recv (rw st)) + length (buf (rb st)) + length t).
    { rewrite <- !app_length, E, !app_length. lia. }
    lia.
  - rewrite E, app_assoc. reflexivity.
Qed.

Lemma fwd_le x : forall s p, fst (fst (fwd_step sink_st sink cap x s p)) <= length p.
Proof.
  intros s p. unfold fwd_step. destruct (h_trip (fst s)); [cbn; lia|].
  set (q := match h_rem (fst s) with Some r => firstn r p | None => p end).
  assert (Lq : length q <= length p) by (unfold q; destruct (h_rem (fst s)); [rewrite firstn_length; lia|lia]).
  destruct (do_write sink_st sink cap true (snd s) q) as [st' e] eqn:W.
  destruct (do_write_count _ _ _ _ _ W) as [t [-> [Pt _]]].
  apply prefix_length in Pt.
  destruct e; [cbn [fst]; lia|]. destruct (length q <? length p); cbn [fst]; lia.
Qed.

Lemma fwd_progresses x : progresses (hstate * rstate sink_st) (fwd_step sink_st sink cap x).
Proof.
  intros s p n s' Hp H. unfold fwd_step in H. destruct (h_trip (fst s)); [discriminate|].
  set (q := match h_rem (fst s) with Some r => firstn r p | None => p end) in *.
  destruct (do_write sink_st sink cap true (snd s) q) as [st' e] eqn:W.
  destruct (do_write_count _ _ _ _ _ W) as [t [Hn [_ [Ft _]]]].
  destruct e; [discriminate|]. destruct (length q <? length p) eqn:Lt; [discriminate|].
  inversion H; subst n s'. rewrite Hn, (Ft eq_refl). apply Nat.ltb_ge in Lt.
  destruct p; [contradiction|cbn [length] in Lt; lia].
Qed.
End FwdWriter.

Lemma buffer_sink_le : forall s p, fst (fst (buffer_sink s p)) <= length p.
Proof. intros s p. cbn. lia. Qed.
Lemma buffer_sink_progresses : progresses unit buffer_sink.
Proof. intros s p n s' Hp H. inversion H; subst. destruct p; [contradiction|cbn; lia]. Qed.

(* ====================================================================================================== *)
(* no spinning for a destination that honours io.Writer                                                   *)
(* ====================================================================================================== *)
Section NoSpinLocal.
Variable sink_st : Type.
Variable sink : sink_st -> bytes -> nat * option err * sink_st.
Variable cap : nat.
Hypothesis sink_le : forall s p, fst (fst (sink s p)) <= length p.
Hypothesis contract : progresses sink_st sink.
Hypothesis cap_pos : 0 < cap.

Notation rstateT := (rstate sink_st).

Definition RNoSpin (st : rstateT) : Prop := no_spin sink_st (rw st) /\ length (buf (rb st)) <= cap.

Lemma write_len direct fuel : forall b w s b' w',
  length (buf b) <= cap -> bw_write sink_st sink cap direct fuel b w s = (b', w') -> length (buf b') <= cap.
Proof.
  induction fuel as [|f IH]; intros b w s b' w' Hl H; cbn [bw_write] in H.
  - destruct (berr b); [inversion H; subst; exact Hl|].
    destruct (length s <=? cap - length (buf b)) eqn:Fit; inversion H; subst; cbn [buf]; [|exact Hl].
    apply Nat.leb_le in Fit. rewrite app_length. lia.
  - destruct (berr b); [inversion H; subst; exact Hl|].
    destruct (length s <=? cap - length (buf b)) eqn:Fit.
    + inversion H; subst; cbn [buf]. apply Nat.leb_le in Fit. rewrite app_length. lia.
    + destruct (direct && is_nil (buf b)).
      * unfold sink_call in H. destruct (sink (sst w) s) as [[n e] s'].
        eapply IH; [|exact H]. cbn. lia.
      * destruct (bw_flush sink_st sink {| buf := buf b ++ firstn (cap - length (buf b)) s; berr := None |} w) as [b1 w1] eqn:F.
        eapply IH; [|exact H].
        unfold bw_flush in F. cbn [berr buf] in F.
        destruct (buf b ++ firstn (cap - length (buf b)) s) eqn:Z.
        -- inversion F; subst. cbn. lia.
        -- rewrite <- Z in *. unfold sink_call in F.
           destruct (sink (sst w) (buf b ++ firstn (cap - length (buf b)) s)) as [[n e] s'].
           assert (length (buf b ++ firstn (cap - length (buf b)) s) <= cap) by (rewrite app_length, firstn_length; lia).
           destruct (match e with Some x => Some x | None => if n <? length (buf b ++ firstn (cap - length (buf b)) s) then Some EShortWrite else None end);
             inversion F; subst; cbn [buf]; [rewrite skipn_length; lia|cbn; lia].
Qed.

Lemma do_write_no_spin direct st s st' e :
  RNoSpin st -> do_write sink_st sink cap direct st s = (st', e) -> RNoSpin st'.
Proof.
  unfold RNoSpin, do_write. intros [N Hl] H.
  destruct (bw_write sink_st sink cap direct (length s + 2) (rb st) (rw st) s) as [b w] eqn:W.
  inversion H; subst. cbn [rb rw]. split.
  - eapply (write_no_spin _ sink cap sink_le direct contract cap_pos); [exact N|exact Hl| |exact W].
    destruct (is_nil (buf (rb st))); lia.
  - eapply write_len; eassumption.
Qed.

Lemma buffer_flush_no_spin flusher st st' e : RNoSpin st -> buffer_flush sink_st sink flusher st = (st', e) -> RNoSpin st'.
Proof.
  unfold RNoSpin, buffer_flush. intros [N Hl] H.
  destruct (bw_flush sink_st sink (rb st) (rw st)) as [b w] eqn:F.
  pose proof (flush_no_spin _ sink _ _ _ _ N F) as N1.
  assert (Hl1 : length (buf b) <= cap).
  { unfold bw_flush in F. destruct (berr (rb st)); [inversion F; subst; exact Hl|].
    destruct (buf (rb st)) eqn:Bb; [inversion F; subst; rewrite Bb; cbn; lia|]. rewrite <- Bb in *.
    unfold sink_call in F. destruct (sink (sst (rw st)) (buf (rb st))) as [[n e0] s'].
    destruct (match e0 with Some x => Some x | None => if n <? length (buf (rb st)) then Some EShortWrite else None end);
      inversion F; subst; cbn [buf]; [rewrite skipn_length; lia|cbn; lia]. }
  destruct (berr b); inversion H; subst; cbn [rb rw]; split; auto.
  destruct flusher; [|exact N1]. exact N1.
Qed.

Lemma seq_no_spin {A} (f : A -> rstateT -> rstateT * option err) (l : list A) :
  Forall (fun x => forall st st' e, RNoSpin st -> f x st = (st', e) -> RNoSpin st') l ->
  forall st st' e, RNoSpin st -> seq_r sink_st A f l st = (st', e) -> RNoSpin st'.
Proof.
  induction 1 as [|x r Hx Hr IH]; intros st st' e N H; cbn [seq_r] in H.
  - inversion H; subst. exact N.
  - destruct (f x st) as [st1 e1] eqn:F. pose proof (Hx _ _ _ N F) as N1.
    destruct e1; [inversion H; subst; exact N1|]. eapply IH; eassumption.
Qed.

Lemma closure_top_no_spin flusher own (body : rstateT -> rstateT * option err) :
  (forall st st' e, RNoSpin st -> body st = (st', e) -> RNoSpin st') ->
  forall w r w', no_spin sink_st w -> closure_top sink_st sink flusher own body w = (r, w') -> no_spin sink_st w'.
Proof.
  intros Hb w r w' N H. unfold closure_top in H.
  destruct (body {| rb := bw_reset bw_fresh; rw := w |}) as [st1 e] eqn:B.
  assert (N1 : RNoSpin st1).
  { eapply Hb; [|exact B]. split; cbn [rb rw bw_reset buf]; [exact N|cbn; lia]. }
  destruct own.
  - destruct (buffer_flush sink_st sink flusher st1) as [st2 fe] eqn:F. inversion H; subst.
    exact (proj1 (buffer_flush_no_spin _ _ _ _ N1 F)).
  - inversion H; subst. exact (proj1 N1).
Qed.

Lemma closure_times_no_spin (f : world sink_st -> option err * world sink_st) :
  (forall w r w', no_spin sink_st w -> f w = (r, w') -> no_spin sink_st w') ->
  forall k w r w', no_spin sink_st w -> closure_times f k w = (r, w') -> no_spin sink_st w'.
Proof.
  intros Hf. induction k as [|k IH]; intros w r w' N H; cbn [closure_times] in H.
  - inversion H; subst. exact N.
  - destruct (f w) as [e1 w1] eqn:F. pose proof (Hf _ _ _ N F) as N1.
    destruct e1; [inversion H; subst; exact N1|]. eapply IH; eassumption.
Qed.
End NoSpinLocal.

Section RunNoSpin.
Variable cap : nat.
Variable esc : bytes -> bytes.
Variable env : list nat -> N -> bytes * option N.
Variable benv : list nat -> N -> bool.
Variable senv : list nat -> N -> nat.
Variable cnt : list nat -> N -> nat.
Variable cancel : option N.
Hypothesis cap_pos : 0 < cap.

Definition NoSpinAt (n : node) : Prop :=
  forall (S : Type) (sink : S -> bytes -> nat * option err * S) (sw flusher : bool),
  (forall s p, fst (fst (sink s p)) <= length p) -> progresses S sink ->
  forall path st st' e, RNoSpin S cap st -> run S sink cap sw flusher esc env benv senv cnt cancel n path st = (st', e) -> RNoSpin S cap st'.

Lemma no_spin_list (l : list node) : Forall NoSpinAt l ->
  forall (S : Type) (sink : S -> bytes -> nat * option err * S) (sw flusher : bool),
  (forall s p, fst (fst (sink s p)) <= length p) -> progresses S sink ->
  forall path st st' e, RNoSpin S cap st ->
  seq_r S node (fun x => run S sink cap sw flusher esc env benv senv cnt cancel x path) l st = (st', e) -> RNoSpin S cap st'.
Proof.
  intros Hl S sink sw flusher Le Pr path st st' e N H.
  refine (seq_no_spin S cap _ l _ st st' e N H).
  eapply Forall_impl; [|exact Hl]. intros n Hn s1 s2 e1 N1 H1. exact (Hn S sink sw flusher Le Pr path s1 s2 e1 N1 H1).
Qed.

Lemma run_no_spin : forall n, NoSpinAt n.
Proof.
  induction n as [s|id f l c|g body IHb|cs IHb|ch IHb|h e0|ops| |c thn els IHt IHe|id body IHb|k times ch IHb] using node_ind';
    intros S sink sw flusher Le Pr path st st' e N H; cbn [run] in H.
  - exact (do_write_no_spin S sink cap Le Pr cap_pos _ _ _ _ _ N H).
  - destruct (env path id) as [v [x|]]; [inversion H; subst; exact N|exact (do_write_no_spin S sink cap Le Pr cap_pos _ _ _ _ _ N H)].
  - destruct g.
    + set (cc := cancel) in H at 1. clearbody cc. destruct cc; [inversion H; subst; exact N|].
      exact (no_spin_list body IHb S sink sw flusher Le Pr path st st' e N H).
    + exact (no_spin_list body IHb S sink sw flusher Le Pr path st st' e N H).
  - exact (no_spin_list cs IHb S sink sw flusher Le Pr path st st' e N H).
  - destruct (seq_r S node (fun x => run S sink cap sw flusher esc env benv senv cnt cancel x path) ch st) as [st1 e1] eqn:Sq.
    pose proof (no_spin_list ch IHb S sink sw flusher Le Pr _ _ _ _ N Sq) as N1.
    destruct e1; [inversion H; subst; exact N1|]. exact (buffer_flush_no_spin S sink cap cap_pos _ _ _ _ N1 H).
  - destruct e0; [inversion H; subst; exact N|exact (do_write_no_spin S sink cap Le Pr cap_pos _ _ _ _ _ N H)].
  - refine (seq_no_spin S cap _ ops _ st st' e N H). apply Forall_forall. intros o _ s1 s2 e1 N1 H1.
    destruct o; cbn [run_op] in H1; [exact (do_write_no_spin S sink cap Le Pr cap_pos _ _ _ _ _ N1 H1)|exact (do_write_no_spin S sink cap Le Pr cap_pos _ _ _ _ _ N1 H1)|inversion H1; subst; exact N1].
  - inversion H; subst. exact N.
  - destruct (test benv senv path c).
    + exact (no_spin_list thn IHt S sink sw flusher Le Pr path st st' e N H).
    + exact (no_spin_list els IHe S sink sw flusher Le Pr path st st' e N H).
  - refine (seq_no_spin S cap _ (seq 0 (cnt path id)) _ st st' e N H).
    apply Forall_forall. intros j _ s1 s2 e1 N1 H1. exact (no_spin_list body IHb S sink sw flusher Le Pr (j :: path) s1 s2 e1 N1 H1).
  - destruct k as [|limit x ownf|].
    + refine (seq_no_spin S cap _ (seq 0 times) _ st st' e N H).
      apply Forall_forall. intros j _ s1 s2 e1 N1 H1. exact (no_spin_list ch IHb S sink sw flusher Le Pr path s1 s2 e1 N1 H1).
    + (* the enclosing render's buffer and destination are only reached through ordinary writes *)
      unfold host_fwd in H.
      match type of H with (let '(_, _) := closure_times ?f ?t ?w0 in _) = _ => destruct (closure_times f t w0) as [r w'] eqn:CT end.
      inversion H; subst st' e. clear H.
      set (P' := fun w' : world (hstate * rstate S) => RNoSpin S cap (snd (sst w'))).
      assert (Pc' : forall w direct p, P' w -> P' (snd (sink_call _ (fwd_step S sink cap x) direct w p))).
      { intros w direct p Hw. unfold P', sink_call in *.
        assert (X : RNoSpin S cap (snd (snd (fwd_step S sink cap x (sst w) p)))).
        { unfold fwd_step. destruct (h_trip (fst (sst w))); [exact Hw|].
          set (q := match h_rem (fst (sst w)) with Some r0 => firstn r0 p | None => p end).
          destruct (do_write S sink cap true (snd (sst w)) q) as [st1 e1] eqn:W.
          pose proof (do_write_no_spin S sink cap Le Pr cap_pos _ _ _ _ _ Hw W) as N1.
          destruct e1; [exact N1|]. destruct (length q <? length p); exact N1. }
        destruct (fwd_step S sink cap x (sst w) p) as [[n0 e0] s']. cbn [snd sst] in *. exact X. }
      assert (Pm' : forall w j, P' w -> P' {| sst := sst w; recv := recv w; log := log w; marks := marks w ++ [j] |}) by (intros w j Hw; exact Hw).
      assert (Ps' : forall w, P' w -> P' {| sst := sst w; recv := recv w; log := log w ++ [LSpin]; marks := marks w |}) by (intros w Hw; exact Hw).
      refine (closure_times_pres _ P' _ _ times _ r w' _ CT).
      * intros w r1 w1 Hw H1. refine (closure_top_pres _ (fwd_step S sink cap x) P' Pc' Pm' _ _ _ _ w r1 w1 Hw H1).
        intros s1 s2 e1 Q1 H2.
        refine (pres_list cap esc env benv senv cnt cancel ch _ _ (fwd_step S sink cap x) false false P' Pc' Pm' Ps' path s1 s2 e1 Q1 H2).
        apply Forall_forall. intros n _. apply run_pres.
      * exact N.
    + unfold host_capture in H.
      match type of H with (let '(_, _) := closure_times ?f ?t ?w0 in _) = _ => destruct (closure_times f t w0) as [r w'] eqn:CT end.
      destruct r; [inversion H; subst; exact N|]. exact (do_write_no_spin S sink cap Le Pr cap_pos _ _ _ _ _ N H).
Qed.

(* a block rendered through a pooled buffer of its own never spins either *)
Lemma block_no_spin (S : Type) (sink : S -> bytes -> nat * option err * S) (sw flusher own : bool) ch path times :
  (forall s p, fst (fst (sink s p)) <= length p) -> progresses S sink ->
  forall w r w', no_spin S w ->
  closure_times (closure_top S sink flusher own
                   (seq_r S node (fun c => run S sink cap sw flusher esc env benv senv cnt cancel c path) ch)) times w = (r, w') ->
  no_spin S w'.
Proof.
  intros Le Pr w r w' N H.
  refine (closure_times_no_spin S _ _ times w r w' N H).
  intros w1 r1 w2 N1 H1. refine (closure_top_no_spin S sink cap cap_pos flusher own _ _ w1 r1 w2 N1 H1).
  intros s1 s2 e1 Q1 H2. refine (no_spin_list ch _ S sink sw flusher Le Pr path s1 s2 e1 Q1 H2).
  apply Forall_forall. intros n _. apply run_no_spin.
Qed.

Theorem render_top_no_spin (S : Type) (sink : S -> bytes -> nat * option err * S) (sw flusher : bool) :
  (forall s p, fst (fst (sink s p)) <= length p) -> progresses S sink ->
  forall pool choice g body (w0 : world S) res w' pool',
  log w0 = [] -> render_top S sink cap sw flusher esc env benv senv cnt cancel true pool choice g body w0 = (res, w', pool') -> ~ In LSpin (log w').
Proof.
  intros Le Pr pool choice g body w0 res w' pool' L0 H.
  unfold render_top in H. destruct (if g then cancel else None).
  - inversion H; subst. rewrite L0. intros [].
  - destruct (acquire pool choice) as [b0 pool1].
    destruct (seq_r S node (fun x => run S sink cap sw flusher esc env benv senv cnt cancel x []) body {| rb := bw_reset b0; rw := w0 |}) as [st1 e] eqn:Sq.
    destruct (buffer_flush S sink flusher st1) as [st2 fe] eqn:F. inversion H; subst.
    assert (N0 : RNoSpin S cap {| rb := bw_reset b0; rw := w0 |}).
    { split; cbn [rb rw bw_reset buf]; [unfold no_spin; rewrite L0; intros []|cbn; lia]. }
    assert (N1 : RNoSpin S cap st1).
    { refine (no_spin_list body _ S sink sw flusher Le Pr [] _ st1 e N0 Sq). apply Forall_forall. intros n _. apply run_no_spin. }
    destruct (buffer_flush_no_spin S sink cap cap_pos _ _ _ _ N1 F) as [N2 _]. exact N2.
Qed.
End RunNoSpin.

(* ====================================================================================================== *)
(* the link between what a block's own buffer was told by the forwarding writer of a hand-written          *)
(* component and what that writer did to the enclosing render's buffer                                    *)
(* ====================================================================================================== *)
Section HostLink.
Variable sink_st : Type.
Variable sink : sink_st -> bytes -> nat * option err * sink_st.
Variable cap : nat.
Hypothesis sink_le : forall s p, fst (fst (sink s p)) <= length p.
Variable x : N.
Variable limit : option nat.
Variable written : bytes.          (* what the enclosing render had written into its buffer when the component was called *)

Notation hst := (hstate * rstate sink_st)%type.
Notation fstep := (fwd_step sink_st sink cap x).

Definition LinkH (w' : world hst) : Prop :=
  RInv sink_st cap (written ++ recv w') (snd (sst w')) /\
  (limit = None -> h_rem (fst (sst w')) = None) /\
  (h_trip (fst (sst w')) = true -> limit <> None) /\
  (no_spin hst w' ->
   match first_refusal (log w') with
   | None => berr (rb (snd (sst w'))) = None /\ h_trip (fst (sst w')) = false
   | Some y => berr (rb (snd (sst w'))) = Some y \/ (y = EComp x /\ h_trip (fst (sst w')) = true /\ limit <> None)
   end).

Lemma no_spin_app_inv (w' : world hst) e0 :
  ~ In LSpin (log w' ++ [e0]) -> no_spin hst w'.
Proof. intros Ns Hin. apply Ns. apply in_or_app. left. exact Hin. Qed.

Lemma link_call w' direct p : LinkH w' -> LinkH (snd (sink_call hst fstep direct w' p)).
Proof.
  intros [I [Lm [Tl Fr]]]. unfold sink_call, fwd_step.
  destruct (h_trip (fst (sst w'))) eqn:Tr.
  - (* the writer has failed already *)
    cbn [snd fst]. unfold LinkH. cbn [sst recv log fst snd]. split; [|split; [exact Lm|split; [intros _; apply Tl; reflexivity|]]].
    + cbn [firstn]. rewrite app_nil_r. exact I.
    + intros Ns. specialize (Fr (no_spin_app_inv _ _ Ns)). rewrite first_refusal_app.
      destruct (first_refusal (log w')) as [z|]; [|destruct Fr as [_ Fr]; congruence].
      rewrite Tr. exact Fr.
  - set (q := match h_rem (fst (sst w')) with Some r => firstn r p | None => p end).
    assert (Pq : prefix q p).
    { unfold q. destruct (h_rem (fst (sst w'))) as [r|]; [|apply prefix_refl].
      exists (skipn r p). symmetry. apply firstn_skipn. }
    destruct (do_write sink_st sink cap true (snd (sst w')) q) as [st' e] eqn:W.
    destruct (do_write_spec _ _ _ sink_le _ _ _ _ _ _ I W) as [I1 E1].
    destruct (do_write_count _ _ _ _ _ _ _ _ W) as [t [Hn [Pt [Ft Et]]]].
    rewrite Hn.
    assert (Ptp : prefix t p) by (eapply prefix_trans; eassumption).
    assert (Ft' : firstn (length t) p = t) by (apply prefix_firstn; exact Ptp).
    (* the enclosing buffer has consumed exactly t *)
    assert (I2 : RInv sink_st cap (written ++ recv w' ++ t) st').
    { unfold RInv in *. destruct I as [[rest [Hw Hr]] [Hl He]]. destruct I1 as [_ [Hl' He']].
      assert (D : (exists z, berr (rb (snd (sst w'))) = Some z) \/ berr (rb (snd (sst w'))) = None)
        by (destruct (berr (rb (snd (sst w')))); eauto).
      destruct D as [[z Eb]|Eb].
      - (* it had failed before: nothing happens *)
        unfold do_write in W. rewrite (write_sticky _ sink cap true _ _ _ _ z Eb) in W. inversion W; subst st' e. cbn [rb rw] in *.
        assert (t = []).
        { apply (f_equal (@length byte)) in Et. rewrite !app_length in Et. destruct t; [reflexivity|cbn in Et; lia]. }
        subst t. rewrite app_nil_r. split; [|split; assumption]. exists rest. split; [exact Hw|exact Hr].
      - rewrite (Hr Eb), app_nil_r in Hw. split; [|split; assumption].
        exists []. rewrite app_nil_r. split; [|reflexivity]. rewrite app_assoc, Hw, Et. reflexivity. }
    assert (Lm' : limit = None -> match h_rem (fst (sst w')) with Some r => Some (r - length t) | None => None end = None).
    { intros L. rewrite (Lm L). reflexivity. }
    assert (St : forall z, berr (rb (snd (sst w'))) = Some z -> berr (rb st') = Some z).
    { intros z Eb. unfold do_write in W. rewrite (write_sticky _ sink cap true _ _ _ _ z Eb) in W. inversion W; subst. exact Eb. }
    destruct e as [y|].
    + cbn [snd fst]. unfold LinkH. cbn [sst recv log fst snd h_rem h_trip]. rewrite Ft'.
      split; [exact I2|split; [exact Lm'|split; [discriminate|]]].
      intros Ns. specialize (Fr (no_spin_app_inv _ _ Ns)). rewrite first_refusal_app.
      destruct (first_refusal (log w')) as [z|].
      * destruct Fr as [Fr|[_ [Fr _]]]; [left; apply St; exact Fr|congruence].
      * assert (R0 : refusal (LCall direct (length p) (length t) (Some y)) = Some y) by (destruct direct; reflexivity).
        rewrite R0. left. symmetry. exact E1.
    + destruct (length q <? length p) eqn:Lt.
      * (* the call would go beyond the limit: the writer takes what fits and fails *)
        assert (Ln : limit <> None).
        { intros L. specialize (Lm L). unfold q in Lt. rewrite Lm in Lt. rewrite Nat.ltb_irrefl in Lt. discriminate. }
        cbn [snd fst]. unfold LinkH. cbn [sst recv log fst snd h_rem h_trip]. rewrite Ft'.
        split; [exact I2|split; [exact Lm'|split; [intros _; exact Ln|]]].
        intros Ns. specialize (Fr (no_spin_app_inv _ _ Ns)). rewrite first_refusal_app.
        destruct (first_refusal (log w')) as [z|].
        -- destruct Fr as [Fr|[_ [Fr _]]]; [|congruence]. specialize (St z Fr). congruence.
        -- assert (R0 : refusal (LCall direct (length p) (length t) (Some (EComp x))) = Some (EComp x)) by (destruct direct; reflexivity).
           rewrite R0. right. split; [reflexivity|split; [reflexivity|exact Ln]].
      * cbn [snd fst]. unfold LinkH. cbn [sst recv log fst snd h_rem h_trip]. rewrite Ft'.
        split; [exact I2|split; [exact Lm'|split; [discriminate|]]].
        intros Ns. specialize (Fr (no_spin_app_inv _ _ Ns)). rewrite first_refusal_app.
        destruct (first_refusal (log w')) as [z|].
        -- destruct Fr as [Fr|[_ [Fr _]]]; [|congruence]. specialize (St z Fr). congruence.
        -- assert (Ln : length t = length p).
           { rewrite (Ft eq_refl). apply Nat.ltb_ge in Lt. apply prefix_length in Pq. lia. }
           assert (R0 : refusal (LCall direct (length p) (length t) None) = None).
           { rewrite Ln. destruct direct; cbn [refusal]; [reflexivity|]. rewrite Nat.ltb_irrefl. reflexivity. }
           rewrite R0. split; [symmetry; exact E1|reflexivity].
Qed.

Lemma link_mark w' k : LinkH w' -> LinkH {| sst := sst w'; recv := recv w'; log := log w'; marks := marks w' ++ [k] |}.
Proof. intros L. exact L. Qed.

Lemma link_spin w' : LinkH w' -> LinkH {| sst := sst w'; recv := recv w'; log := log w' ++ [LSpin]; marks := marks w' |}.
Proof.
  intros [I [Lm [Tl _]]]. unfold LinkH. cbn [sst recv log]. split; [exact I|split; [exact Lm|split; [exact Tl|]]].
  intros Ns. exfalso. apply Ns. cbn [log]. apply in_or_app. right. left. reflexivity.
Qed.
End HostLink.

(* a bytes.Buffer of the component's own never refuses *)
Definition CapQ (w : world unit) : Prop := no_spin unit w -> first_refusal (log w) = None.
Lemma capq_call w direct p : CapQ w -> CapQ (snd (sink_call unit buffer_sink direct w p)).
Proof.
  intros Q Ns. unfold sink_call, buffer_sink in *. cbn [snd log] in *.
  rewrite first_refusal_app, Q; [|intros Hin; apply Ns; apply in_or_app; left; exact Hin].
  destruct direct; cbn [refusal]; [reflexivity|]. rewrite Nat.ltb_irrefl. reflexivity.
Qed.
Lemma capq_spin w : CapQ w -> CapQ {| sst := sst w; recv := recv w; log := log w ++ [LSpin]; marks := marks w |}.
Proof. intros _ Ns. exfalso. apply Ns. cbn [log]. apply in_or_app. right. left. reflexivity. Qed.

(* ====================================================================================================== *)
(* every statement does what it denotes, on every destination                                             *)
(* ====================================================================================================== *)
Section RunGood.
Variable cap : nat.
Variable esc : bytes -> bytes.
Variable env : list nat -> N -> bytes * option N.
Variable benv : list nat -> N -> bool.
Variable senv : list nat -> N -> nat.
Variable cnt : list nat -> N -> nat.
Variable cancel : option N.
Hypothesis cap_pos : 0 < cap.

Notation denoteT := (denote esc env benv senv cnt cancel).

Definition GoodAt (n : node) : Prop :=
  forall (S : Type) (sink : S -> bytes -> nat * option err * S) (sw flusher : bool),
  (forall s p, fst (fst (sink s p)) <= length p) ->
  forall path,
  Good S cap (fun x => run S sink cap sw flusher esc env benv senv cnt cancel x path) (fun x => denoteT x path) host_errs n.

Lemma good_list (l : list node) : Forall GoodAt l ->
  forall (S : Type) (sink : S -> bytes -> nat * option err * S) (sw flusher : bool),
  (forall s p, fst (fst (sink s p)) <= length p) ->
  forall path,
  Good S cap (seq_r S node (fun x => run S sink cap sw flusher esc env benv senv cnt cancel x path))
       (seq_d node (fun x => denoteT x path)) (flat_map host_errs) l.
Proof.
  intros Hl S sink sw flusher Le path. apply seq_good.
  eapply Forall_impl; [|exact Hl]. intros n Hn. exact (Hn S sink sw flusher Le path).
Qed.

(* the whole block, as one statement *)
Lemma block_good (ch : list node) : Forall GoodAt ch ->
  forall (S : Type) (sink : S -> bytes -> nat * option err * S) (sw flusher : bool),
  (forall s p, fst (fst (sink s p)) <= length p) ->
  forall path times,
  WGood S (closure_times (closure_top S sink flusher true
                            (seq_r S node (fun c => run S sink cap sw flusher esc env benv senv cnt cancel c path) ch)) times)
        (seq_d nat (fun _ => seq_d node (fun x => denoteT x path) ch) (seq 0 times)) (flat_map host_errs ch).
Proof.
  intros Hl S sink sw flusher Le path times.
  apply closure_times_good. apply (closure_top_good S sink cap Le).
  intros written st st' e I Eb H. exact (good_list ch Hl S sink sw flusher Le path written st st' e I Eb H).
Qed.

Lemma run_good : forall n, GoodAt n.
Proof.
  induction n as [s|id f l c|g body IHb|cs IHb|ch IHb|h e0|ops| |c thn els IHt IHe|id body IHb|k times ch IHb] using node_ind';
    intros S sink sw flusher Le path written st st' e I Eb H; cbn beta in H |- *; cbn [run denote host_errs] in *.
  - eapply write_good; eauto.
  - destruct (env path id) as [v [x|]].
    + inversion H; subst. exists []. rewrite app_nil_r. split; [exact I|]. split; [apply prefix_refl|left; reflexivity].
    + eapply write_good; eauto.
  - pose proof (good_list body IHb S sink sw flusher Le path) as Gb. clear IHb.
    destruct g; [destruct cancel as [c|]|].
    + inversion H; subst. exists []. rewrite app_nil_r. split; [exact I|]. split; [apply prefix_refl|left; reflexivity].
    + exact (Gb written st st' e I Eb H).
    + exact (Gb written st st' e I Eb H).
  - exact (good_list cs IHb S sink sw flusher Le path written st st' e I Eb H).
  - pose proof (good_list ch IHb S sink sw flusher Le path) as Gb.
    destruct (seq_r S node (fun x => run S sink cap sw flusher esc env benv senv cnt cancel x path) ch st) as [st1 e1] eqn:Sq.
    destruct (Gb _ _ _ _ I Eb Sq) as [d1 [I1 C1]].
    destruct e1 as [y|].
    + inversion H; subst. exists d1. split; assumption.
    + destruct C1 as [G1 E1].
      destruct (buffer_flush_spec S sink cap Le _ _ _ _ _ I1 H) as [I2 [E2 _]].
      exists d1. split; [exact I2|]. rewrite G1. destruct e as [y|].
      * split; [apply prefix_refl|right; left; symmetry; exact E2].
      * split; [reflexivity|symmetry; exact E2].
  - destruct e0 as [x|].
    + inversion H; subst. exists []. rewrite app_nil_r. split; [exact I|]. split; [apply prefix_refl|left; reflexivity].
    + eapply write_good; eauto.
  - refine (good_weaken S cap _ _ (flat_map (fun _ => [])) (fun _ => []) ops _ _ written st st' e I Eb H).
    + intros y Hy. apply in_flat_map_const in Hy. exact Hy.
    + apply seq_good. apply Forall_forall. intros o _. apply run_op_good. exact Le.
  - inversion H; subst. exists []. rewrite app_nil_r. split; [exact I|]. split; [reflexivity|exact Eb].
  - (* if / else, switch arm, conditional and boolean attribute: model and specification read the same oracle *)
    assert (T : test benv senv path c = holds benv senv path c) by (destruct c; reflexivity).
    rewrite T in H. destruct (holds benv senv path c).
    + destruct (good_list thn IHt S sink sw flusher Le path written st st' e I Eb H) as [d [I1 C]]. exists d. split; [exact I1|].
      destruct e as [y|]; [|exact C]. destruct C as [P [D|[D|D]]]; (split; [exact P|]); auto.
      right. right. apply in_or_app. left. exact D.
    + destruct (good_list els IHe S sink sw flusher Le path written st st' e I Eb H) as [d [I1 C]]. exists d. split; [exact I1|].
      destruct e as [y|]; [|exact C]. destruct C as [P [D|[D|D]]]; (split; [exact P|]); auto.
      right. right. apply in_or_app. right. exact D.
  - (* for: induction over the list of iterations, each iteration a statement list *)
    refine (good_weaken S cap _ _ (flat_map (fun _ => flat_map host_errs body)) (fun _ => flat_map host_errs body) (seq 0 (cnt path id)) _ _ written st st' e I Eb H).
    + intros y Hy. apply in_flat_map_const in Hy. exact Hy.
    + apply (seq_good S cap (fun j => seq_r S node (fun x => run S sink cap sw flusher esc env benv senv cnt cancel x (j :: path)) body)
                      (fun j => seq_d node (fun x => denoteT x (j :: path)) body)).
      apply Forall_forall. intros j _. exact (good_list body IHb S sink sw flusher Le (j :: path)).
  - (* a hand-written component that is passed a block of children *)
    destruct k as [|limit x ownf|].
    + (* the block is handed the enclosing render's buffer *)
      refine (good_weaken S cap _ _ (flat_map (fun _ => flat_map host_errs ch)) (fun _ => flat_map host_errs ch) (seq 0 times) _ _ written st st' e I Eb H).
      * intros y Hy. apply in_flat_map_const in Hy. cbn [app]. exact Hy.
      * apply (seq_good S cap (fun _ => seq_r S node (fun x => run S sink cap sw flusher esc env benv senv cnt cancel x path) ch)
                        (fun _ => seq_d node (fun x => denoteT x path) ch)).
        apply Forall_forall. intros j _. exact (good_list ch IHb S sink sw flusher Le path).
    + (* ... a forwarding writer of the component's own: the block takes a pooled buffer, flushes it into that writer, and
         that writer hands the bytes on to the enclosing render's buffer *)
      unfold host_fwd in H.
      match type of H with (let '(_, _) := closure_times ?f ?t ?w0 in _) = _ => destruct (closure_times f t w0) as [r w'] eqn:CT; set (w0' := w0) in * end.
      inversion H; subst st' e. clear H.
      pose proof (block_good ch IHb _ (fwd_step S sink cap x) false false (fwd_le S sink cap x) path times w0' r w' eq_refl CT) as WG.
      assert (NS : no_spin _ w').
      { refine (block_no_spin cap esc env benv senv cnt cancel cap_pos _ (fwd_step S sink cap x) false false true ch path times
                  (fwd_le S sink cap x) (fwd_progresses S sink cap x) w0' r w' _ CT). intros []. }
      assert (LK : LinkH S cap x limit written w').
      { refine (closure_times_pres _ (LinkH S cap x limit written) _ _ times w0' r w' _ CT).
        - intros w1 r1 w2 Hw H1.
          refine (closure_top_pres _ (fwd_step S sink cap x) (LinkH S cap x limit written)
                    (fun w d p => link_call S sink cap Le x limit written w d p) (link_mark S cap x limit written) false true _ _ w1 r1 w2 Hw H1).
          intros s1 s2 e1 Q1 H2.
          refine (pres_list cap esc env benv senv cnt cancel ch _ _ (fwd_step S sink cap x) false false (LinkH S cap x limit written)
                    (fun w d p => link_call S sink cap Le x limit written w d p) (link_mark S cap x limit written) (link_spin S cap x limit written)
                    path s1 s2 e1 Q1 H2).
          apply Forall_forall. intros n _. apply run_pres.
        - unfold LinkH, w0'. cbn [sst recv log fst snd h_rem h_trip]. rewrite app_nil_r.
          split; [exact I|split; [intros L; exact L|split; [discriminate|]]]. intros _. cbn [first_refusal]. split; [exact Eb|reflexivity]. }
      destruct LK as [I' [Lm [Tl Fr]]]. specialize (Fr NS).
      unfold w0' in WG. cbn [recv app] in WG.
      set (gH := seq_d nat (fun _ => seq_d node (fun x0 => denoteT x0 path) ch) (seq 0 times)) in *.
      exists (recv w'). split; [exact I'|].
      assert (InX : limit <> None -> In (EComp x) (match limit with Some _ => [EComp x] | None => [] end ++ flat_map host_errs ch)).
      { intros Ln. destruct limit; [left; reflexivity|contradiction]. }
      destruct (ownf && h_trip (fst (sst w'))) eqn:OT.
      * (* the component reports its own writer's failure *)
        apply andb_prop in OT as [_ Tr].
        assert (PR : prefix (recv w') (fst gH)).
        { destruct r as [y|]; [exact (proj1 WG)|]. destruct WG as [R _]. rewrite R. apply prefix_refl. }
        split; [exact PR|]. right. right. apply InX. apply Tl. exact Tr.
      * destruct r as [y|].
        -- destruct WG as [PR D]. split; [exact PR|].
           destruct D as [D|[D|D]]; [left; exact D| |right; right; apply in_or_app; right; exact D].
           rewrite D in Fr. destruct Fr as [Fr|[Fy [_ Ln]]]; [right; left; exact Fr|].
           right. right. subst y. apply InX. exact Ln.
        -- destruct WG as [R [Sn Q]]. rewrite Q in Fr. destruct Fr as [Fr _].
           split; [|exact Fr]. rewrite R. destruct gH as [d de]. cbn [fst snd] in *. subst de. reflexivity.
    + (* ... a bytes.Buffer of the component's own, copied once the children have returned nil *)
      unfold host_capture in H.
      match type of H with (let '(_, _) := closure_times ?f ?t ?w0 in _) = _ => destruct (closure_times f t w0) as [r w'] eqn:CT; set (w0' := w0) in * end.
      pose proof (block_good ch IHb _ buffer_sink true false buffer_sink_le path times w0' r w' eq_refl CT) as WG.
      assert (NS : no_spin _ w').
      { refine (block_no_spin cap esc env benv senv cnt cancel cap_pos _ buffer_sink true false true ch path times
                  buffer_sink_le buffer_sink_progresses w0' r w' _ CT). intros []. }
      assert (CQ : CapQ w').
      { refine (closure_times_pres _ CapQ _ _ times w0' r w' _ CT).
        - intros w1 r1 w2 Hw H1.
          refine (closure_top_pres _ buffer_sink CapQ capq_call (fun w j Hq => Hq) false true _ _ w1 r1 w2 Hw H1).
          intros s1 s2 e1 Q1 H2.
          refine (pres_list cap esc env benv senv cnt cancel ch _ _ buffer_sink true false CapQ capq_call (fun w j Hq => Hq) capq_spin
                    path s1 s2 e1 Q1 H2).
          apply Forall_forall. intros n _. apply run_pres.
        - intros _. reflexivity. }
      specialize (CQ NS).
      unfold w0' in WG. cbn [recv app] in WG.
      set (gH := seq_d nat (fun _ => seq_d node (fun x0 => denoteT x0 path) ch) (seq 0 times)) in *.
      destruct r as [y|].
      * inversion H; subst st' e. exists []. rewrite app_nil_r. split; [exact I|]. split; [apply prefix_nil|].
        destruct WG as [_ [D|[D|D]]]; [left; exact D|congruence|right; right; exact D].
      * destruct WG as [R [Sn _]].
        destruct (do_write_spec S sink cap Le _ _ _ _ _ _ I H) as [I1 E1].
        exists (recv w'). split; [exact I1|]. rewrite R. destruct e as [y|].
        -- split; [apply prefix_refl|right; left; symmetry; exact E1].
        -- split; [|symmetry; exact E1]. destruct gH as [d de]. cbn [fst snd] in *. subst de. reflexivity.
Qed.
End RunGood.

(* ====================================================================================================== *)
(* the whole of C10 for one render                                                                        *)
(* ====================================================================================================== *)
Section SkelP.
Variable sink_st : Type.
Variable sink : sink_st -> bytes -> nat * option err * sink_st.
Variable cap : nat.
Variable sw : bool.
Variable flusher : bool.
Variable esc : bytes -> bytes.
Variable env : list nat -> N -> bytes * option N.
Variable benv : list nat -> N -> bool.
Variable senv : list nat -> N -> nat.
Variable cnt : list nat -> N -> nat.
Variable cancel : option N.
Hypothesis sink_le : forall s p, fst (fst (sink s p)) <= length p.
Hypothesis cap_pos : 0 < cap.

Notation worldT := (world sink_st).
Notation rstateT := (rstate sink_st).
Notation runT := (run sink_st sink cap sw flusher esc env benv senv cnt cancel).
Notation denoteT := (denote esc env benv senv cnt cancel).
Notation seq_rT := (seq_r sink_st).
Notation buffer_flushT := (buffer_flush sink_st sink flusher).
Notation render_topT := (render_top sink_st sink cap sw flusher esc env benv senv cnt cancel).

Lemma body_good body path :
  Good sink_st cap (seq_rT node (fun x => runT x path)) (seq_d node (fun x => denoteT x path)) (flat_map host_errs) body.
Proof.
  apply (good_list cap esc env benv senv cnt cancel body); [|exact sink_le].
  apply Forall_forall. intros n _. apply run_good. exact cap_pos.
Qed.

Theorem render_top_spec pool choice g body (w0 : worldT) res w' pool' :
  recv w0 = [] -> log w0 = [] ->
  render_topT true pool choice g body w0 = (res, w', pool') ->
  spec_ok (fst (denoteT (Templ g body) [])) (snd (denoteT (Templ g body) [])) (host_errs (Templ g body)) res (recv w') (log w').
Proof.
  intros R0 L0 H. unfold render_top in H. cbn [host_errs].
  destruct (if g then cancel else None) as [c|] eqn:G.
  - (* ctx.Err() != nil: nothing is acquired, nothing is written *)
    destruct g; [|discriminate]. inversion H; subst res w' pool'. cbn [denote]. rewrite G, R0, L0. cbn [fst snd].
    unfold spec_ok. cbn [first_refusal]. repeat split; try discriminate; auto using prefix_nil.
  - assert (D : denoteT (Templ g body) [] = seq_d node (fun x => denoteT x []) body).
    { cbn [denote]. destruct g; [rewrite G|]; reflexivity. }
    rewrite D. clear D.
    destruct (acquire pool choice) as [b0 pool1].
    destruct (seq_rT node (fun x => runT x []) body {| rb := bw_reset b0; rw := w0 |}) as [st1 e] eqn:S.
    destruct (buffer_flushT st1) as [st2 fe] eqn:F. inversion H; subst res w' pool'. clear H.
    assert (I0 : RInv sink_st cap [] {| rb := bw_reset b0; rw := w0 |}).
    { unfold RInv, Inv. cbn [rb rw bw_reset buf berr]. rewrite R0, L0. split; [|split]; cbn; auto; try lia.
      exists []. split; reflexivity. }
    destruct (body_good body [] _ _ _ _ I0 eq_refl S) as [done [I1 C1]]. cbn [app] in I1.
    destruct (buffer_flush_spec sink_st sink cap sink_le _ _ _ _ _ I1 F) as [I2 [E2 [B2 St]]].
    destruct (seq_d node (fun x => denoteT x []) body) as [d de] eqn:SD. cbn [fst snd] in *.
    pose proof (received_is_prefix _ _ _ _ _ I2) as PR.
    assert (FR : berr (rb st2) = first_refusal (log (rw st2))) by (destruct I2 as [_ [_ X]]; exact X).
    unfold spec_ok. destruct e as [y|].
    + destruct C1 as [P1 D1]. repeat split.
      * eapply prefix_trans; eassumption.
      * discriminate.
      * discriminate.
      * intros x Hx. rewrite <- FR in Hx. destruct D1 as [D1|[D1|D1]].
        -- right. left. subst de. split; [reflexivity|discriminate].
        -- left. rewrite (St _ D1) in Hx. congruence.
        -- right. right. exists y. split; [reflexivity|exact D1].
      * intros Hn. rewrite <- FR in Hn. destruct D1 as [D1|[D1|D1]].
        -- left. subst de. reflexivity.
        -- rewrite (St _ D1) in Hn. discriminate.
        -- right. exists y. split; [reflexivity|exact D1].
    + destruct C1 as [G1 E1]. inversion G1; subst d de. repeat split.
      * exact PR.
      * subst fe. eapply clean_means_all; [exact I2|exact H|apply B2; exact H].
      * intros x Hx. left. rewrite <- FR in Hx. congruence.
      * intros Hn. left. rewrite <- FR in Hn. congruence.
Qed.

(* a cancelled context: the error is the context's, the destination and the pool are untouched *)
Theorem cancelled_no_output pool choice body (w0 : worldT) c :
  cancel = Some c ->
  render_topT true pool choice true body w0 = (Some (ECtx c), w0, pool).
Proof. intros C. unfold render_top. rewrite C. reflexivity. Qed.

(* the result does not depend on what the pool holds or hands out *)
Theorem render_top_pool_irrelevant pool choice g body (w0 : worldT) :
  fst (render_topT true pool choice g body w0) = fst (render_topT true [] 0 g body w0).
Proof.
  unfold render_top. destruct (if g then cancel else None); [reflexivity|].
  destruct (acquire pool choice) as [b0 p1]. destruct (acquire [] 0) as [b00 p0].
  unfold bw_reset.
  destruct (seq_rT node (fun x => runT x []) body {| rb := {| buf := []; berr := None |}; rw := w0 |}) as [st1 e].
  destruct (buffer_flushT st1) as [st2 fe]. reflexivity.
Qed.
End SkelP.

(* ---------- sequences of renders: the pools carry nothing from one render into the next ---------- *)
Lemma take_In {A} : forall i (l : list A) x r, take i l = Some (x, r) -> In x l /\ (forall y, In y r -> In y l).
Proof.
  induction i as [|i IH]; intros [|a l] x r H; cbn [take] in H; try discriminate.
  - inversion H; subst. split; [left; reflexivity|intros y Hy; right; exact Hy].
  - destruct (take i l) as [[y r']|] eqn:T; [|discriminate]. inversion H; subst.
    destruct (IH _ _ _ T) as [I1 I2]. split; [right; exact I1|].
    intros z [->|Hz]; [left; reflexivity|right; apply I2; exact Hz].
Qed.

Lemma take_nil {A} i : @take A i [] = None.
Proof. destruct i; reflexivity. Qed.

Section JobsP.
Variable sink_st : Type.
Variable sink : sink_st -> bytes -> nat * option err * sink_st.
Variable cap : nat.
Variable sw : bool.
Variable flusher : bool.
Variable esc : bytes -> bytes.

Notation run_jobT := (run_job sink_st sink cap sw flusher esc).
Notation run_jobsT := (run_jobs sink_st sink cap sw flusher esc).
Notation jobT := (job sink_st).

(* every pooled bytes.Buffer is empty (ReleaseBuffer resets before Put; the pool starts empty) *)
Definition pools_clean (ps : list bw * list bytes) : Prop := Forall (fun c => c = []) (snd ps).

Lemma run_job_indep ps (j : jobT) : pools_clean ps ->
  fst (run_jobT true true ps j) = fst (run_jobT true true ([], []) j) /\ pools_clean (snd (run_jobT true true ps j)).
Proof.
  intros C. unfold run_job. destruct (j_html sink_st j).
  - cbn [fst snd]. unfold acquire2. rewrite take_nil.
    destruct (take (j_choice2 sink_st j) (snd ps)) as [[c bp1]|] eqn:T.
    + destruct (take_In _ _ _ _ T) as [I1 I2].
      assert (c = []) by (eapply (proj1 (Forall_forall _ _) C); exact I1). subst c.
      pose proof (render_top_pool_irrelevant unit buffer_sink cap true false esc (j_env _ j) (j_benv _ j) (j_senv _ j) (j_cnt _ j) (j_cancel _ j)
                    (fst ps) (j_choice _ j) (j_guard _ j) (j_body _ j) {| sst := tt; recv := []; log := []; marks := [] |}) as PI.
      destruct (render_top unit buffer_sink cap true false esc (j_env _ j) (j_benv _ j) (j_senv _ j) (j_cnt _ j) (j_cancel _ j) true (fst ps) (j_choice _ j)
                  (j_guard _ j) (j_body _ j) {| sst := tt; recv := []; log := []; marks := [] |}) as [[e w] rp].
      destruct (render_top unit buffer_sink cap true false esc (j_env _ j) (j_benv _ j) (j_senv _ j) (j_cnt _ j) (j_cancel _ j) true [] (j_choice _ j)
                  (j_guard _ j) (j_body _ j) {| sst := tt; recv := []; log := []; marks := [] |}) as [[e1 w1] rp1] eqn:R1.
      pose proof (render_top_pool_irrelevant unit buffer_sink cap true false esc (j_env _ j) (j_benv _ j) (j_senv _ j) (j_cnt _ j) (j_cancel _ j)
                    [] (j_choice _ j) (j_guard _ j) (j_body _ j) {| sst := tt; recv := []; log := []; marks := [] |}) as PI1.
      rewrite R1 in PI1. rewrite <- PI1 in PI. cbn [fst] in PI. inversion PI; subst.
      cbn [fst snd]. split; [reflexivity|].
      unfold pools_clean. cbn [snd]. constructor; [reflexivity|].
      apply Forall_forall. intros y Hy. eapply (proj1 (Forall_forall _ _) C). apply I2. exact Hy.
    + pose proof (render_top_pool_irrelevant unit buffer_sink cap true false esc (j_env _ j) (j_benv _ j) (j_senv _ j) (j_cnt _ j) (j_cancel _ j)
                    (fst ps) (j_choice _ j) (j_guard _ j) (j_body _ j) {| sst := tt; recv := []; log := []; marks := [] |}) as PI.
      destruct (render_top unit buffer_sink cap true false esc (j_env _ j) (j_benv _ j) (j_senv _ j) (j_cnt _ j) (j_cancel _ j) true (fst ps) (j_choice _ j)
                  (j_guard _ j) (j_body _ j) {| sst := tt; recv := []; log := []; marks := [] |}) as [[e w] rp].
      destruct (render_top unit buffer_sink cap true false esc (j_env _ j) (j_benv _ j) (j_senv _ j) (j_cnt _ j) (j_cancel _ j) true [] (j_choice _ j)
                  (j_guard _ j) (j_body _ j) {| sst := tt; recv := []; log := []; marks := [] |}) as [[e1 w1] rp1] eqn:R1.
      pose proof (render_top_pool_irrelevant unit buffer_sink cap true false esc (j_env _ j) (j_benv _ j) (j_senv _ j) (j_cnt _ j) (j_cancel _ j)
                    [] (j_choice _ j) (j_guard _ j) (j_body _ j) {| sst := tt; recv := []; log := []; marks := [] |}) as PI1.
      rewrite R1 in PI1. rewrite <- PI1 in PI. cbn [fst] in PI. inversion PI; subst.
      cbn [fst snd]. split; [reflexivity|].
      unfold pools_clean. cbn [snd]. constructor; [reflexivity|exact C].
  - cbn [fst snd].
    pose proof (render_top_pool_irrelevant sink_st sink cap sw flusher esc (j_env _ j) (j_benv _ j) (j_senv _ j) (j_cnt _ j) (j_cancel _ j)
                  (fst ps) (j_choice _ j) (j_guard _ j) (j_body _ j) {| sst := j_sink0 _ j; recv := []; log := []; marks := [] |}) as PI.
    destruct (render_top sink_st sink cap sw flusher esc (j_env _ j) (j_benv _ j) (j_senv _ j) (j_cnt _ j) (j_cancel _ j) true (fst ps) (j_choice _ j)
                (j_guard _ j) (j_body _ j) {| sst := j_sink0 _ j; recv := []; log := []; marks := [] |}) as [[e w] rp].
    destruct (render_top sink_st sink cap sw flusher esc (j_env _ j) (j_benv _ j) (j_senv _ j) (j_cnt _ j) (j_cancel _ j) true [] (j_choice _ j)
                (j_guard _ j) (j_body _ j) {| sst := j_sink0 _ j; recv := []; log := []; marks := [] |}) as [[e1 w1] rp1] eqn:R1.
    pose proof (render_top_pool_irrelevant sink_st sink cap sw flusher esc (j_env _ j) (j_benv _ j) (j_senv _ j) (j_cnt _ j) (j_cancel _ j)
                  [] (j_choice _ j) (j_guard _ j) (j_body _ j) {| sst := j_sink0 _ j; recv := []; log := []; marks := [] |}) as PI1.
    rewrite R1 in PI1. rewrite <- PI1 in PI. cbn [fst] in PI. inversion PI; subst.
    cbn [fst snd]. split; [reflexivity|exact C].
Qed.

(* every render of every sequence, whatever the pools hold and hand out and whatever failed before,
   is observed exactly as that render run alone on empty pools *)
Theorem jobs_pool_independent (js : list jobT) : forall ps, pools_clean ps ->
  run_jobsT true true ps js = map (fun j => fst (run_jobT true true ([], []) j)) js.
Proof.
  induction js as [|j r IH]; intros ps C; cbn [run_jobs map]; [reflexivity|].
  destruct (run_job_indep ps j C) as [E C'].
  destruct (run_jobT true true ps j) as [o ps'] eqn:R. cbn [fst snd] in *.
  rewrite E. f_equal. apply IH. exact C'.
Qed.
End JobsP.

(* ---------- what the two resets are for: the leaks without them (cap = 4) ---------- *)
Definition leak_env : list nat -> N -> bytes * option N := fun _ _ => ([], None).
Definition leak_job (body : list node) (html : bool) (mode : N) (limit : nat) : job fsink :=
  {| j_env := leak_env; j_benv := fun _ _ => false; j_senv := fun _ _ => 0; j_cnt := fun _ _ => 0; j_cancel := None; j_guard := true; j_body := body; j_html := html;
     j_sink0 := {| f_mode := mode; f_limit := limit; f_tripped := false; f_err := 7%N |};
     j_choice := 0; j_choice2 := 0 |}.
Definition leak_jobs1 : list (job fsink) :=
  [leak_job [Lit (bs "abcdef")] false 1%N 2; leak_job [Lit (bs "xy")] false 0%N 0].
Definition leak_jobs2 : list (job fsink) :=
  [leak_job [Lit (bs "ab")] true 0%N 0; leak_job [Lit (bs "xy")] true 0%N 0].
Definition obs_view (o : obs) : option err * bytes := (o_err o, o_out o).

(* without Buffer.Reset in GetBuffer, the render after a failed one gets the failed one's sticky error *)
Lemma leak_without_acquire_reset :
  map obs_view (run_jobs fsink fsink_step 4 false false (fun s => s) false true ([], []) leak_jobs1)
    = [(Some (ESink 7%N), bs "ab"); (Some (ESink 7%N), [])] /\
  map obs_view (run_jobs fsink fsink_step 4 false false (fun s => s) true true ([], []) leak_jobs1)
    = [(Some (ESink 7%N), bs "ab"); (None, bs "xy")].
Proof. split; vm_compute; reflexivity. Qed.

(* without bytes.Buffer.Reset in templ.ReleaseBuffer, ToGoHTML returns the previous caller's output too *)
Lemma leak_without_release_reset :
  map obs_view (run_jobs fsink fsink_step 4 false false (fun s => s) true false ([], []) leak_jobs2)
    = [(None, bs "ab"); (None, bs "abxy")] /\
  map obs_view (run_jobs fsink fsink_step 4 false false (fun s => s) true true ([], []) leak_jobs2)
    = [(None, bs "ab"); (None, bs "xy")].
Proof. split; vm_compute; reflexivity. Qed.

(* the spin: a destination answering (0, nil) to a large direct write (mode 4, io.StringWriter) *)
Lemma spin_witness :
  map obs_view (run_jobs fsink fsink_step 4 true false (fun s => s) true true ([], [])
                  [leak_job [Lit (bs "abcdefgh")] false 4%N 0])
    = [(Some ESpin, [])].
Proof. vm_compute. reflexivity. Qed.

(* ---------- what the block's own release is for ---------- *)
(* a block { abc } handed a forwarding writer of a hand-written component, buffer size 4, destination that never fails *)
Definition block_body (S : Type) (sink : S -> bytes -> nat * option err * S) (st : rstate S) : rstate S * option err :=
  do_write S sink 4 false st (bs "abc").
Definition block_view (own : bool) : option err * bytes * bytes :=
  let w0 := {| sst := {| f_mode := 0%N; f_limit := 0; f_tripped := false; f_err := 0%N |}; recv := []; log := []; marks := [] |} in
  let '(st1, e) := host_fwd fsink fsink_step 4 own None 1%N false 1 (block_body _ (fwd_step fsink fsink_step 4 1%N))
                     {| rb := bw_fresh; rw := w0 |} in
  let '(st2, fe) := buffer_flush fsink fsink_step false st1 in
  (match e with Some x => Some x | None => fe end, recv (rw st2), buf (rb st2)).
(* with the release the destination gets the block's output; without it the component's writer is never called,
   Render returns nil and the output is lost *)
Lemma block_without_own_release :
  block_view true = (None, bs "abc", []) /\ block_view false = (None, [], []).
Proof. split; vm_compute; reflexivity. Qed.

(* ---------- the sentences of C10, read off [render_top_spec] ---------- *)
Lemma seq_d_fail_at {A} (g : A -> bytes * option err) pre x post y :
  snd (seq_d A g pre) = None -> g x = ([], Some y) ->
  seq_d A g (pre ++ x :: post) = (fst (seq_d A g pre), Some y).
Proof.
  induction pre as [|a pre IH]; intros Hp Hx; cbn [app seq_d] in *.
  - rewrite Hx. reflexivity.
  - destruct (g a) as [da [ea|]]; [cbn in Hp; discriminate|].
    destruct (seq_d A g pre) as [dp ep] eqn:S. cbn [snd fst] in *.
    rewrite (IH Hp Hx). reflexivity.
Qed.

Section Sentences.
Variable sink_st : Type.
Variable sink : sink_st -> bytes -> nat * option err * sink_st.
Variable cap : nat.
Variable sw : bool.
Variable flusher : bool.
Variable esc : bytes -> bytes.
Variable env : list nat -> N -> bytes * option N.
Variable benv : list nat -> N -> bool.
Variable senv : list nat -> N -> nat.
Variable cnt : list nat -> N -> nat.
Variable cancel : option N.
Hypothesis sink_le : forall s p, fst (fst (sink s p)) <= length p.
Hypothesis cap_pos : 0 < cap.
Notation render_topT := (render_top sink_st sink cap sw flusher esc env benv senv cnt cancel).
Notation denoteT := (denote esc env benv senv cnt cancel).
Notation worldT := (world sink_st).
Notation specT := (render_top_spec sink_st sink cap sw flusher esc env benv senv cnt cancel sink_le cap_pos).

Theorem nil_means_all pool choice g body (w0 : worldT) w' pool' :
  recv w0 = [] -> log w0 = [] ->
  render_topT true pool choice g body w0 = (None, w', pool') ->
  recv w' = fst (denoteT (Templ g body) []) /\ snd (denoteT (Templ g body) []) = None.
Proof.
  intros R0 L0 H. destruct (specT _ _ _ _ _ _ _ _ R0 L0 H) as [_ [X _]].
  apply X. reflexivity.
Qed.

(* hs: the errors of the limited writers of the program's hand-written components; [] if it has none *)
Theorem fail_stop pool choice g body (w0 : worldT) res w' pool' :
  recv w0 = [] -> log w0 = [] ->
  render_topT true pool choice g body w0 = (res, w', pool') ->
  prefix (recv w') (fst (denoteT (Templ g body) [])) /\
  (forall x, first_refusal (log w') = Some x ->
     res <> None /\
     (res = Some x \/ (res = snd (denoteT (Templ g body) []) /\ snd (denoteT (Templ g body) []) <> None) \/
      (exists y, res = Some y /\ In y (host_errs (Templ g body)))) /\
     (snd (denoteT (Templ g body) []) = None -> host_errs (Templ g body) = [] -> res = Some x)).
Proof.
  intros R0 L0 H. destruct (specT _ _ _ _ _ _ _ _ R0 L0 H) as [P [_ [X _]]].
  split; [exact P|]. intros x Hx. destruct (X x Hx) as [E|[[E1 E2]|[y [E1 E2]]]].
  - split; [rewrite E; discriminate|]. split; [left; exact E|intros _ _; exact E].
  - split; [rewrite E1; exact E2|]. split; [right; left; split; assumption|intros D; contradiction].
  - split; [rewrite E1; discriminate|]. split; [right; right; exists y; split; assumption|].
    intros _ Hn. rewrite Hn in E2. contradiction.
Qed.

(* the program's own first failure is what Render returns when the destination never refuses (or the error of one of
   the limited writers of its hand-written components, if it has any) *)
Theorem program_error_returned pool choice g body (w0 : worldT) res w' pool' y :
  recv w0 = [] -> log w0 = [] ->
  render_topT true pool choice g body w0 = (res, w', pool') ->
  snd (denoteT (Templ g body) []) = Some y ->
  (first_refusal (log w') = None -> res = Some y \/ (exists z, res = Some z /\ In z (host_errs (Templ g body)))) /\
  (forall x, first_refusal (log w') = Some x ->
     res = Some y \/ res = Some x \/ (exists z, res = Some z /\ In z (host_errs (Templ g body)))) /\
  prefix (recv w') (fst (denoteT (Templ g body) [])).
Proof.
  intros R0 L0 H D. destruct (specT _ _ _ _ _ _ _ _ R0 L0 H) as [P [_ [X Y]]].
  split; [intros Nr; destruct (Y Nr) as [E|E]; [left; rewrite E; exact D|right; exact E]|]. split; [|exact P].
  intros x Hx. destruct (X x Hx) as [E|[[E1 _]|E]]; [right; left; exact E|left; rewrite E1; exact D|right; right; exact E].
Qed.

Theorem expr_error_position pool choice (g : bool) pre id file line col post v x (w0 : worldT) res w' pool' :
  recv w0 = [] -> log w0 = [] ->
  (if g then cancel else None) = None ->
  snd (seq_d node (fun n => denoteT n []) pre) = None ->  (* everything before the expression renders *)
  env [] id = (v, Some x) ->                              (* the expression returns an error *)
  render_topT true pool choice g (pre ++ Expr id file line col :: post) w0 = (res, w', pool') ->
  prefix (recv w') (fst (seq_d node (fun n => denoteT n []) pre)) /\
  (first_refusal (log w') = None ->
     res = Some (ETempl file line col (EExpr x)) \/
     (exists z, res = Some z /\ In z (host_errs (Templ g (pre ++ Expr id file line col :: post))))) /\
  (forall z, first_refusal (log w') = Some z ->
     res = Some (ETempl file line col (EExpr x)) \/ res = Some z \/
     (exists z', res = Some z' /\ In z' (host_errs (Templ g (pre ++ Expr id file line col :: post))))).
Proof.
  intros R0 L0 G Hp He H.
  assert (D : denoteT (Templ g (pre ++ Expr id file line col :: post)) [] =
              (fst (seq_d node (fun n => denoteT n []) pre), Some (ETempl file line col (EExpr x)))).
  { cbn [denote]. assert (DE : (fun n => denoteT n []) (Expr id file line col) = ([], Some (ETempl file line col (EExpr x)))) by (cbn beta; cbn [denote]; rewrite He; reflexivity).
    cbn beta in DE. destruct g; [cbn in G; revert Hp DE; rewrite G; intros Hp DE|]; (eapply seq_d_fail_at; [exact Hp|cbn beta; exact DE]). }
  destruct (program_error_returned _ _ _ _ _ _ _ _ _ R0 L0 H (f_equal snd D)) as [A [B C]].
  rewrite D in C. cbn [fst] in C. split; [exact C|]. split; assumption.
Qed.
End Sentences.

(* ---------- statements in the argument order props/C10.v uses ---------- *)
Theorem no_spin_under_contract :
  forall (sink_st : Type) (sink : sink_st -> bytes -> nat * option err * sink_st) (cap : nat) (sw flusher : bool)
         (esc : bytes -> bytes) (env : list nat -> N -> bytes * option N) (benv : list nat -> N -> bool)
         (senv cnt : list nat -> N -> nat) (cancel : option N),
  (forall s p, fst (fst (sink s p)) <= length p) ->
  (forall s p n s', p <> [] -> sink s p = (n, None, s') -> 0 < n) ->
  0 < cap ->
  forall pool choice g body (w0 : world sink_st) res w' pool',
  log w0 = [] ->
  render_top sink_st sink cap sw flusher esc env benv senv cnt cancel true pool choice g body w0 = (res, w', pool') ->
  ~ In LSpin (log w').
Proof.
  intros sink_st sink cap sw flusher esc env benv senv cnt cancel Le Pr Cp.
  exact (render_top_no_spin cap esc env benv senv cnt cancel Cp sink_st sink sw flusher Le Pr).
Qed.

(* a block of children rendered `times` times on ANY writer w that is not the enclosing render's buffer (each time through
   a pooled buffer of the block's own, flushed and released when the block returns): if the last render returns nil, w has
   received exactly the block's output that many times and has never refused; otherwise w has received a prefix of it and
   the error is the block's own failure, w's first refusal, or the error of a limited writer inside the block *)
Theorem block_meets_spec :
  forall (sink_st : Type) (sink : sink_st -> bytes -> nat * option err * sink_st) (cap : nat) (sw flusher : bool)
         (esc : bytes -> bytes) (env : list nat -> N -> bytes * option N) (benv : list nat -> N -> bool)
         (senv cnt : list nat -> N -> nat) (cancel : option N),
  (forall s p, fst (fst (sink s p)) <= length p) -> 0 < cap ->
  forall ch path times (w : world sink_st) r w',
  first_refusal (log w) = None ->
  closure_times (closure_top sink_st sink flusher true
                   (seq_r sink_st node (fun c => run sink_st sink cap sw flusher esc env benv senv cnt cancel c path) ch)) times w = (r, w') ->
  let g := denote esc env benv senv cnt cancel (Host HPass times ch) path in
  match r with
  | None => recv w' = recv w ++ fst g /\ snd g = None /\ first_refusal (log w') = None
  | Some y => prefix (recv w') (recv w ++ fst g) /\ (snd g = Some y \/ first_refusal (log w') = Some y \/ In y (flat_map host_errs ch))
  end.
Proof.
  intros sink_st sink cap sw flusher esc env benv senv cnt cancel Le Cp ch path times w r w' Q H.
  refine (block_good cap esc env benv senv cnt cancel ch _ sink_st sink sw flusher Le path times w r w' Q H).
  apply Forall_forall. intros n _. apply run_good. exact Cp.
Qed.
