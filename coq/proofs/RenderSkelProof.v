(* C10 - a render of the generated-code shape meets [spec_ok] on every destination, and does not depend on the pools. *)
From Coq.Strings Require Import Byte String.
From Coq Require Import List NArith Bool Arith Lia.
Import ListNotations.
From V Require Import lib.Bytes spec.RenderSpec model.Bufio model.RenderSkel proofs.BufioProof.
Local Open Scope nat_scope.

(* induction over programs with the nested lists *)
Section NodeInd.
Variable P : node -> Prop.
Hypothesis HLit : forall s, P (Lit s).
Hypothesis HExpr : forall id f l c, P (Expr id f l c).
Hypothesis HTempl : forall g body, Forall P body -> P (Templ g body).
Hypothesis HJoin : forall cs, Forall P cs -> P (Join cs).
Hypothesis HFlush : forall ch, Forall P ch -> P (Flush ch).
Hypothesis HRaw : forall h e, P (Raw h e).
Hypothesis HFunc : forall ops, P (Func ops).
Hypothesis HNop : P Nop.
Hypothesis HIf : forall c thn els, Forall P thn -> Forall P els -> P (If c thn els).
Hypothesis HFor : forall id body, Forall P body -> P (For id body).
Fixpoint node_ind' (n : node) : P n :=
  let fix go (l : list node) : Forall P l :=
    match l with [] => Forall_nil P | x :: r => Forall_cons x (node_ind' x) (go r) end in
  match n with
  | Lit s => HLit s
  | Expr id f l c => HExpr id f l c
  | Templ g body => HTempl g body (go body)
  | Join cs => HJoin cs (go cs)
  | Flush ch => HFlush ch (go ch)
  | Raw h e => HRaw h e
  | Func ops => HFunc ops
  | Nop => HNop
  | If c thn els => HIf c thn els (go thn) (go els)
  | For id body => HFor id body (go body)
  end.
End NodeInd.

Section SkelP.
Variable sink_st : Type.
Variable sink : sink_st -> bytes -> nat * option err * sink_st.
Variable cap : nat.
Variable sw : bool.
Variable flusher : bool.
Variable esc : bytes -> bytes.
Variable env : list nat -> N -> bytes * option N.
Variable benv : list nat -> N -> bool.
Variable senv : list nat -> N -> nat.
Variable cnt : list nat -> N -> nat.
Variable cancel : option N.
Hypothesis sink_le : forall s p, fst (fst (sink s p)) <= length p.

Notation worldT := (world sink_st).
Notation rstateT := (rstate sink_st).
Notation InvT := (Inv sink_st cap).
Notation do_writeT := (do_write sink_st sink cap).
Notation buffer_flushT := (buffer_flush sink_st sink flusher).
Notation runT := (run sink_st sink cap sw flusher esc env benv senv cnt cancel).
Notation run_opT := (run_op sink_st sink cap sw).
Notation denoteT := (denote esc env benv senv cnt cancel).
Notation seq_rT := (seq_r sink_st).

Definition RInv (written : bytes) (st : rstateT) : Prop := InvT written (rb st) (rw st).

Lemma do_write_spec direct written st s st' e :
  RInv written st -> do_writeT direct st s = (st', e) -> RInv (written ++ s) st' /\ e = berr (rb st').
Proof.
  unfold RInv, do_write. intros I H.
  destruct (bw_write sink_st sink cap direct (length s + 2) (rb st) (rw st) s) as [b w] eqn:W.
  inversion H; subst. cbn [rb rw]. split; [|reflexivity].
  eapply write_inv; eassumption.
Qed.

Lemma buffer_flush_spec written st st' e :
  RInv written st -> buffer_flushT st = (st', e) ->
  RInv written st' /\ e = berr (rb st') /\ (e = None -> buf (rb st') = []) /\
  (forall x, berr (rb st) = Some x -> berr (rb st') = Some x).
Proof.
  unfold RInv, buffer_flush. intros I H.
  destruct (bw_flush sink_st sink (rb st) (rw st)) as [b w] eqn:F.
  pose proof (flush_inv _ _ _ sink_le _ _ _ _ _ I F) as I1.
  assert (St : forall x, berr (rb st) = Some x -> berr b = Some x).
  { intros x Hx. rewrite (flush_sticky _ sink _ _ x Hx) in F. inversion F; subst. exact Hx. }
  destruct (berr b) eqn:Eb.
  - inversion H; subst. cbn [rb rw]. split; [exact I1|]. split; [symmetry; exact Eb|]. split; [discriminate|].
    intros x Hx. rewrite Eb. apply St. exact Hx.
  - inversion H; subst. cbn [rb rw]. split; [|split; [symmetry; exact Eb|split]].
    + destruct flusher; exact I1.
    + intros _. eapply flush_clean; eassumption.
    + intros x Hx. specialize (St x Hx). discriminate.
Qed.

(* what one statement of a sequence does, against what it denotes *)
Definition Good {A} (f : A -> rstateT -> rstateT * option err) (g : A -> bytes * option err) (x : A) : Prop :=
  forall written st st' e, RInv written st -> berr (rb st) = None -> f x st = (st', e) ->
  exists done, RInv (written ++ done) st' /\
    match e with
    | None => g x = (done, None) /\ berr (rb st') = None
    | Some y => prefix done (fst (g x)) /\ (g x = (done, Some y) \/ berr (rb st') = Some y)
    end.

Lemma seq_good {A} (f : A -> rstateT -> rstateT * option err) (g : A -> bytes * option err) (l : list A) :
  Forall (Good f g) l -> Good (seq_rT A f) (seq_d A g) l.
Proof.
  induction 1 as [|x r Hx Hr IH]; intros written st st' e I Eb H; cbn [seq_r seq_d] in *.
  - inversion H; subst. exists []. rewrite app_nil_r. split; [exact I|]. split; [reflexivity|exact Eb].
  - destruct (f x st) as [st1 e1] eqn:F.
    destruct (Hx _ _ _ _ I Eb F) as [d1 [I1 C1]].
    destruct e1 as [y|].
    + inversion H; subst. exists d1. split; [exact I1|]. destruct C1 as [P1 D1].
      destruct (g x) as [dx ex] eqn:G. cbn [fst] in P1.
      destruct D1 as [D1|D1].
      * inversion D1; subst. split; [apply prefix_refl|]. left. reflexivity.
      * split.
        -- destruct ex; [exact P1|]. destruct (seq_d A g r). cbn [fst]. apply prefix_app_r. exact P1.
        -- right. exact D1.
    + destruct C1 as [G1 E1]. rewrite G1.
      destruct (IH _ _ _ _ I1 E1 H) as [d2 [I2 C2]].
      exists (d1 ++ d2). rewrite app_assoc. split; [exact I2|].
      destruct (seq_d A g r) as [dr er] eqn:S.
      destruct e as [y|].
      * destruct C2 as [P2 D2]. cbn [fst] in *. split; [apply prefix_app_l; exact P2|].
        destruct D2 as [D2|D2]; [left; inversion D2; subst; reflexivity|right; exact D2].
      * destruct C2 as [G2 E2]. inversion G2; subst. split; [reflexivity|exact E2].
Qed.

Lemma write_good direct (s : bytes) (d : bytes * option err) written st st' e :
  d = (s, None) -> RInv written st -> do_writeT direct st s = (st', e) ->
  exists done, RInv (written ++ done) st' /\
    match e with
    | None => d = (done, None) /\ berr (rb st') = None
    | Some y => prefix done (fst d) /\ (d = (done, Some y) \/ berr (rb st') = Some y)
    end.
Proof.
  intros -> I H. destruct (do_write_spec _ _ _ _ _ _ I H) as [I1 E1].
  exists s. split; [exact I1|]. destruct e as [y|].
  - split; [apply prefix_refl|right; symmetry; exact E1].
  - split; [reflexivity|symmetry; exact E1].
Qed.

Lemma run_op_good o : Good run_opT denote_op o.
Proof.
  intros written st st' e I Eb H. destruct o as [p|s|n]; cbn [run_op denote_op] in *.
  - eapply write_good; eauto.
  - eapply write_good; eauto.
  - inversion H; subst. exists []. rewrite app_nil_r. split; [exact I|]. split; [apply prefix_refl|left; reflexivity].
Qed.

Lemma good_at {A} (P : A -> list nat -> Prop) (l : list A) path :
  Forall (fun x => forall p, P x p) l -> Forall (fun x => P x path) l.
Proof. intros H. eapply Forall_impl; [|exact H]. intros x Hx. apply Hx. Qed.

Lemma run_good : forall n path, Good (fun x => runT x path) (fun x => denoteT x path) n.
Proof.
  induction n as [s|id f l c|g body IHb|cs IHb|ch IHb|h e0|ops| |c thn els IHt IHe|id body IHb] using node_ind';
    intros path written st st' e I Eb H; cbn beta in H |- *; cbn [run denote] in *.
  - eapply write_good; eauto.
  - destruct (env path id) as [v [x|]].
    + inversion H; subst. exists []. rewrite app_nil_r. split; [exact I|]. split; [apply prefix_refl|left; reflexivity].
    + eapply write_good; eauto.
  - pose proof (good_at (fun x p => Good (fun y => runT y p) (fun y => denoteT y p) x) body path IHb) as Gb.
    destruct g; [destruct cancel as [c|]|].
    + inversion H; subst. exists []. rewrite app_nil_r. split; [exact I|]. split; [apply prefix_refl|left; reflexivity].
    + eapply (seq_good _ _ body Gb); eauto.
    + eapply (seq_good _ _ body Gb); eauto.
  - pose proof (good_at (fun x p => Good (fun y => runT y p) (fun y => denoteT y p) x) cs path IHb) as Gb.
    eapply (seq_good _ _ cs Gb); eauto.
  - pose proof (good_at (fun x p => Good (fun y => runT y p) (fun y => denoteT y p) x) ch path IHb) as Gb.
    destruct (seq_rT node (fun x => runT x path) ch st) as [st1 e1] eqn:S.
    destruct (seq_good _ _ ch Gb _ _ _ _ I Eb S) as [d1 [I1 C1]].
    destruct e1 as [y|].
    + inversion H; subst. exists d1. split; assumption.
    + destruct C1 as [G1 E1].
      destruct (buffer_flush_spec _ _ _ _ I1 H) as [I2 [E2 _]].
      exists d1. split; [exact I2|]. rewrite G1. destruct e as [y|].
      * split; [apply prefix_refl|right; symmetry; exact E2].
      * split; [reflexivity|symmetry; exact E2].
  - destruct e0 as [x|].
    + inversion H; subst. exists []. rewrite app_nil_r. split; [exact I|]. split; [apply prefix_refl|left; reflexivity].
    + eapply write_good; eauto.
  - eapply (seq_good _ _ ops); eauto. apply Forall_forall. intros o _. apply run_op_good.
  - inversion H; subst. exists []. rewrite app_nil_r. split; [exact I|]. split; [reflexivity|exact Eb].
  - (* if / else, switch arm, conditional and boolean attribute: model and specification read the same oracle *)
    pose proof (good_at (fun x p => Good (fun y => runT y p) (fun y => denoteT y p) x) thn path IHt) as Gt.
    pose proof (good_at (fun x p => Good (fun y => runT y p) (fun y => denoteT y p) x) els path IHe) as Ge.
    assert (T : test benv senv path c = holds benv senv path c) by (destruct c; reflexivity).
    rewrite T in H. destruct (holds benv senv path c).
    + eapply (seq_good _ _ thn Gt); eauto.
    + eapply (seq_good _ _ els Ge); eauto.
  - (* for: induction over the list of iterations, each iteration a statement list *)
    eapply (seq_good (fun k => seq_rT node (fun x => runT x (k :: path)) body)
                     (fun k => seq_d node (fun x => denoteT x (k :: path)) body) (seq 0 (cnt path id))); eauto.
    apply Forall_forall. intros k _. apply seq_good.
    apply (good_at (fun x p => Good (fun y => runT y p) (fun y => denoteT y p) x) body (k :: path) IHb).
Qed.

Lemma body_good body path : Good (seq_rT node (fun x => runT x path)) (seq_d node (fun x => denoteT x path)) body.
Proof. apply seq_good. apply Forall_forall. intros n _. apply run_good. Qed.

Notation render_topT := (render_top sink_st sink cap sw flusher esc env benv senv cnt cancel).

(* ---------- the whole of C10 for one render ---------- *)
Theorem render_top_spec pool choice g body (w0 : worldT) res w' pool' :
  recv w0 = [] -> log w0 = [] ->
  render_topT true pool choice g body w0 = (res, w', pool') ->
  spec_ok (fst (denoteT (Templ g body) [])) (snd (denoteT (Templ g body) [])) res (recv w') (log w').
Proof.
  intros R0 L0 H. unfold render_top in H.
  destruct (if g then cancel else None) as [c|] eqn:G.
  - (* ctx.Err() != nil: nothing is acquired, nothing is written *)
    destruct g; [|discriminate]. inversion H; subst res w' pool'. cbn [denote]. rewrite G, R0, L0. cbn [fst snd].
    unfold spec_ok. cbn [first_refusal]. repeat split; try discriminate; auto using prefix_nil.
  - assert (D : denoteT (Templ g body) [] = seq_d node (fun x => denoteT x []) body).
    { cbn [denote]. destruct g; [rewrite G|]; reflexivity. }
    rewrite D. clear D.
    destruct (acquire pool choice) as [b0 pool1].
    destruct (seq_rT node (fun x => runT x []) body {| rb := bw_reset b0; rw := w0 |}) as [st1 e] eqn:S.
    destruct (buffer_flushT st1) as [st2 fe] eqn:F. inversion H; subst res w' pool'. clear H.
    assert (I0 : RInv [] {| rb := bw_reset b0; rw := w0 |}).
    { unfold RInv, Inv. cbn [rb rw bw_reset buf berr]. rewrite R0, L0. split; [|split]; cbn; auto; try lia.
      exists []. split; reflexivity. }
    destruct (body_good body [] _ _ _ _ I0 eq_refl S) as [done [I1 C1]]. cbn [app] in I1.
    destruct (buffer_flush_spec _ _ _ _ I1 F) as [I2 [E2 [B2 St]]].
    destruct (seq_d node (fun x => denoteT x []) body) as [d de] eqn:SD. cbn [fst snd].
    pose proof (received_is_prefix _ _ _ _ _ I2) as PR.
    assert (FR : berr (rb st2) = first_refusal (log (rw st2))) by (destruct I2 as [_ [_ X]]; exact X).
    unfold spec_ok. destruct e as [y|].
    + destruct C1 as [P1 D1]. cbn [fst] in P1. repeat split.
      * eapply prefix_trans; eassumption.
      * discriminate.
      * discriminate.
      * intros x Hx. rewrite <- FR in Hx. destruct D1 as [D1|D1].
        -- inversion D1; subst. right. split; [reflexivity|discriminate].
        -- left. rewrite (St _ D1) in Hx. congruence.
      * intros Hn. rewrite <- FR in Hn. destruct D1 as [D1|D1].
        -- inversion D1; subst. reflexivity.
        -- rewrite (St _ D1) in Hn. discriminate.
    + destruct C1 as [G1 E1]. inversion G1; subst d de. repeat split.
      * exact PR.
      * subst fe. eapply clean_means_all; [exact I2|exact H|apply B2; exact H].
      * intros x Hx. left. rewrite <- FR in Hx. congruence.
      * intros Hn. rewrite <- FR in Hn. congruence.
Qed.

(* a cancelled context: the error is the context's, the destination and the pool are untouched *)
Theorem cancelled_no_output pool choice body (w0 : worldT) c :
  cancel = Some c ->
  render_topT true pool choice true body w0 = (Some (ECtx c), w0, pool).
Proof. intros C. unfold render_top. rewrite C. reflexivity. Qed.

(* the result does not depend on what the pool holds or hands out *)
Theorem render_top_pool_irrelevant pool choice g body (w0 : worldT) :
  fst (render_topT true pool choice g body w0) = fst (render_topT true [] 0 g body w0).
Proof.
  unfold render_top. destruct (if g then cancel else None); [reflexivity|].
  destruct (acquire pool choice) as [b0 p1]. destruct (acquire [] 0) as [b00 p0].
  unfold bw_reset.
  destruct (seq_rT node (fun x => runT x []) body {| rb := {| buf := []; berr := None |}; rw := w0 |}) as [st1 e].
  destruct (buffer_flushT st1) as [st2 fe]. reflexivity.
Qed.

(* ---------- no spinning for a destination that honours io.Writer ---------- *)
Hypothesis contract : progresses sink_st sink.
Hypothesis cap_pos : 0 < cap.

Definition RNoSpin (st : rstateT) : Prop := no_spin sink_st (rw st) /\ length (buf (rb st)) <= cap.

Lemma write_len direct fuel : forall b w s b' w',
  length (buf b) <= cap -> bw_write sink_st sink cap direct fuel b w s = (b', w') -> length (buf b') <= cap.
Proof.
  induction fuel as [|f IH]; intros b w s b' w' Hl H; cbn [bw_write] in H.
  - destruct (berr b); [inversion H; subst; exact Hl|].
    destruct (length s <=? cap - length (buf b)) eqn:Fit; inversion H; subst; cbn [buf]; [|exact Hl].
    apply Nat.leb_le in Fit. rewrite app_length. lia.
  - destruct (berr b); [inversion H; subst; exact Hl|].
    destruct (length s <=? cap - length (buf b)) eqn:Fit.
    + inversion H; subst; cbn [buf]. apply Nat.leb_le in Fit. rewrite app_length. lia.
    + destruct (direct && is_nil (buf b)).
      * unfold sink_call in H. destruct (sink (sst w) s) as [[n e] s'].
        eapply IH; [|exact H]. cbn. lia.
      * destruct (bw_flush sink_st sink {| buf := buf b ++ firstn (cap - length (buf b)) s; berr := None |} w) as [b1 w1] eqn:F.
        eapply IH; [|exact H].
        unfold bw_flush in F. cbn [berr buf] in F.
        destruct (buf b ++ firstn (cap - length (buf b)) s) eqn:Z.
        -- inversion F; subst. cbn. lia.
        -- rewrite <- Z in *. unfold sink_call in F.
           destruct (sink (sst w) (buf b ++ firstn (cap - length (buf b)) s)) as [[n e] s'].
           assert (length (buf b ++ firstn (cap - length (buf b)) s) <= cap) by (rewrite app_length, firstn_length; lia).
           destruct (match e with Some x => Some x | None => if n <? length (buf b ++ firstn (cap - length (buf b)) s) then Some EShortWrite else None end);
             inversion F; subst; cbn [buf]; [rewrite skipn_length; lia|cbn; lia].
Qed.

Lemma do_write_no_spin direct st s st' e :
  RNoSpin st -> do_writeT direct st s = (st', e) -> RNoSpin st'.
Proof.
  unfold RNoSpin, do_write. intros [N Hl] H.
  destruct (bw_write sink_st sink cap direct (length s + 2) (rb st) (rw st) s) as [b w] eqn:W.
  inversion H; subst. cbn [rb rw]. split.
  - eapply (write_no_spin _ sink cap sink_le direct contract cap_pos); [exact N|exact Hl| |exact W].
    destruct (is_nil (buf (rb st))); lia.
  - eapply write_len; eassumption.
Qed.

Lemma buffer_flush_no_spin st st' e : RNoSpin st -> buffer_flushT st = (st', e) -> RNoSpin st'.
Proof.
  unfold RNoSpin, buffer_flush. intros [N Hl] H.
  destruct (bw_flush sink_st sink (rb st) (rw st)) as [b w] eqn:F.
  pose proof (flush_no_spin _ sink _ _ _ _ N F) as N1.
  assert (Hl1 : length (buf b) <= cap).
  { unfold bw_flush in F. destruct (berr (rb st)); [inversion F; subst; exact Hl|].
    destruct (buf (rb st)) eqn:Bb; [inversion F; subst; rewrite Bb; cbn; lia|]. rewrite <- Bb in *.
    unfold sink_call in F. destruct (sink (sst (rw st)) (buf (rb st))) as [[n e0] s'].
    destruct (match e0 with Some x => Some x | None => if n <? length (buf (rb st)) then Some EShortWrite else None end);
      inversion F; subst; cbn [buf]; [rewrite skipn_length; lia|cbn; lia]. }
  destruct (berr b); inversion H; subst; cbn [rb rw]; split; auto.
  destruct flusher; [|exact N1]. exact N1.
Qed.

Lemma seq_no_spin {A} (f : A -> rstateT -> rstateT * option err) (l : list A) :
  Forall (fun x => forall st st' e, RNoSpin st -> f x st = (st', e) -> RNoSpin st') l ->
  forall st st' e, RNoSpin st -> seq_rT A f l st = (st', e) -> RNoSpin st'.
Proof.
  induction 1 as [|x r Hx Hr IH]; intros st st' e N H; cbn [seq_r] in H.
  - inversion H; subst. exact N.
  - destruct (f x st) as [st1 e1] eqn:F. pose proof (Hx _ _ _ N F) as N1.
    destruct e1; [inversion H; subst; exact N1|]. eapply IH; eassumption.
Qed.

Lemma run_no_spin : forall n path st st' e, RNoSpin st -> runT n path st = (st', e) -> RNoSpin st'.
Proof.
  induction n as [s|id f l c|g body IHb|cs IHb|ch IHb|h e0|ops| |c thn els IHt IHe|id body IHb] using node_ind';
    intros path st st' e N H; cbn [run] in H.
  - eapply do_write_no_spin; eassumption.
  - destruct (env path id) as [v [x|]]; [inversion H; subst; exact N|eapply do_write_no_spin; eassumption].
  - pose proof (good_at (fun x p => forall st st' e, RNoSpin st -> runT x p st = (st', e) -> RNoSpin st') body path IHb) as Gb.
    destruct g; [destruct cancel|]; [inversion H; subst; exact N| |]; eapply (seq_no_spin _ body Gb); eassumption.
  - pose proof (good_at (fun x p => forall st st' e, RNoSpin st -> runT x p st = (st', e) -> RNoSpin st') cs path IHb) as Gb.
    eapply (seq_no_spin _ cs Gb); eassumption.
  - pose proof (good_at (fun x p => forall st st' e, RNoSpin st -> runT x p st = (st', e) -> RNoSpin st') ch path IHb) as Gb.
    destruct (seq_rT node (fun x => runT x path) ch st) as [st1 e1] eqn:S.
    pose proof (seq_no_spin _ ch Gb _ _ _ N S) as N1.
    destruct e1; [inversion H; subst; exact N1|]. eapply buffer_flush_no_spin; eassumption.
  - destruct e0; [inversion H; subst; exact N|eapply do_write_no_spin; eassumption].
  - eapply (seq_no_spin _ ops); [|exact N|exact H]. apply Forall_forall. intros o _ s1 s2 e1 N1 H1.
    destruct o; cbn [run_op] in H1; [eapply do_write_no_spin; eassumption|eapply do_write_no_spin; eassumption|inversion H1; subst; exact N1].
  - inversion H; subst. exact N.
  - pose proof (good_at (fun x p => forall st st' e, RNoSpin st -> runT x p st = (st', e) -> RNoSpin st') thn path IHt) as Gt.
    pose proof (good_at (fun x p => forall st st' e, RNoSpin st -> runT x p st = (st', e) -> RNoSpin st') els path IHe) as Ge.
    destruct (test benv senv path c); [eapply (seq_no_spin _ thn Gt)|eapply (seq_no_spin _ els Ge)]; eassumption.
  - eapply (seq_no_spin (fun k => seq_rT node (fun x => runT x (k :: path)) body) (seq 0 (cnt path id))); [|exact N|exact H].
    apply Forall_forall. intros k _ s1 s2 e1 N1 H1.
    eapply (seq_no_spin _ body); [|exact N1|exact H1].
    apply (good_at (fun x p => forall st st' e, RNoSpin st -> runT x p st = (st', e) -> RNoSpin st') body (k :: path) IHb).
Qed.

Theorem render_top_no_spin pool choice g body (w0 : worldT) res w' pool' :
  log w0 = [] -> render_topT true pool choice g body w0 = (res, w', pool') -> ~ In LSpin (log w').
Proof.
  intros L0 H.
  unfold render_top in H. destruct (if g then cancel else None).
  - inversion H; subst. rewrite L0. intros [].
  - destruct (acquire pool choice) as [b0 pool1].
    destruct (seq_rT node (fun x => runT x []) body {| rb := bw_reset b0; rw := w0 |}) as [st1 e] eqn:S.
    destruct (buffer_flushT st1) as [st2 fe] eqn:F. inversion H; subst.
    assert (N0 : RNoSpin {| rb := bw_reset b0; rw := w0 |}).
    { split; cbn [rb rw bw_reset buf]; [unfold no_spin; rewrite L0; intros []|cbn; lia]. }
    assert (N1 : RNoSpin st1).
    { eapply (seq_no_spin _ body); [|exact N0|exact S]. apply Forall_forall. intros n _ s1 s2 e1. apply run_no_spin. }
    destruct (buffer_flush_no_spin _ _ _ N1 F) as [N2 _]. exact N2.
Qed.
End SkelP.

(* ---------- sequences of renders: the pools carry nothing from one render into the next ---------- *)
Lemma take_In {A} : forall i (l : list A) x r, take i l = Some (x, r) -> In x l /\ (forall y, In y r -> In y l).
Proof.
  induction i as [|i IH]; intros [|a l] x r H; cbn [take] in H; try discriminate.
  - inversion H; subst. split; [left; reflexivity|intros y Hy; right; exact Hy].
  - destruct (take i l) as [[y r']|] eqn:T; [|discriminate]. inversion H; subst.
    destruct (IH _ _ _ T) as [I1 I2]. split; [right; exact I1|].
    intros z [->|Hz]; [left; reflexivity|right; apply I2; exact Hz].
Qed.

Lemma take_nil {A} i : @take A i [] = None.
Proof. destruct i; reflexivity. Qed.

Section JobsP.
Variable sink_st : Type.
Variable sink : sink_st -> bytes -> nat * option err * sink_st.
Variable cap : nat.
Variable sw : bool.
Variable flusher : bool.
Variable esc : bytes -> bytes.

Notation run_jobT := (run_job sink_st sink cap sw flusher esc).
Notation run_jobsT := (run_jobs sink_st sink cap sw flusher esc).
Notation jobT := (job sink_st).

(* every pooled bytes.Buffer is empty (ReleaseBuffer resets before Put; the pool starts empty) *)
Definition pools_clean (ps : list bw * list bytes) : Prop := Forall (fun c => c = []) (snd ps).

Lemma run_job_indep ps (j : jobT) : pools_clean ps ->
  fst (run_jobT true true ps j) = fst (run_jobT true true ([], []) j) /\ pools_clean (snd (run_jobT true true ps j)).
Proof.
  intros C. unfold run_job. destruct (j_html sink_st j).
  - cbn [fst snd]. unfold acquire2. rewrite take_nil.
    destruct (take (j_choice2 sink_st j) (snd ps)) as [[c bp1]|] eqn:T.
    + destruct (take_In _ _ _ _ T) as [I1 I2].
      assert (c = []) by (eapply (proj1 (Forall_forall _ _) C); exact I1). subst c.
      pose proof (render_top_pool_irrelevant unit buffer_sink cap true false esc (j_env _ j) (j_benv _ j) (j_senv _ j) (j_cnt _ j) (j_cancel _ j)
                    (fst ps) (j_choice _ j) (j_guard _ j) (j_body _ j) {| sst := tt; recv := []; log := []; marks := [] |}) as PI.
      destruct (render_top unit buffer_sink cap true false esc (j_env _ j) (j_benv _ j) (j_senv _ j) (j_cnt _ j) (j_cancel _ j) true (fst ps) (j_choice _ j)
                  (j_guard _ j) (j_body _ j) {| sst := tt; recv := []; log := []; marks := [] |}) as [[e w] rp].
      destruct (render_top unit buffer_sink cap true false esc (j_env _ j) (j_benv _ j) (j_senv _ j) (j_cnt _ j) (j_cancel _ j) true [] (j_choice _ j)
                  (j_guard _ j) (j_body _ j) {| sst := tt; recv := []; log := []; marks := [] |}) as [[e1 w1] rp1] eqn:R1.
      pose proof (render_top_pool_irrelevant unit buffer_sink cap true false esc (j_env _ j) (j_benv _ j) (j_senv _ j) (j_cnt _ j) (j_cancel _ j)
                    [] (j_choice _ j) (j_guard _ j) (j_body _ j) {| sst := tt; recv := []; log := []; marks := [] |}) as PI1.
      rewrite R1 in PI1. rewrite <- PI1 in PI. cbn [fst] in PI. inversion PI; subst.
      cbn [fst snd]. split; [reflexivity|].
      unfold pools_clean. cbn [snd]. constructor; [reflexivity|].
      apply Forall_forall. intros y Hy. eapply (proj1 (Forall_forall _ _) C). apply I2. exact Hy.
    + pose proof (render_top_pool_irrelevant unit buffer_sink cap true false esc (j_env _ j) (j_benv _ j) (j_senv _ j) (j_cnt _ j) (j_cancel _ j)
                    (fst ps) (j_choice _ j) (j_guard _ j) (j_body _ j) {| sst := tt; recv := []; log := []; marks := [] |}) as PI.
      destruct (render_top unit buffer_sink cap true false esc (j_env _ j) (j_benv _ j) (j_senv _ j) (j_cnt _ j) (j_cancel _ j) true (fst ps) (j_choice _ j)
                  (j_guard _ j) (j_body _ j) {| sst := tt; recv := []; log := []; marks := [] |}) as [[e w] rp].
      destruct (render_top unit buffer_sink cap true false esc (j_env _ j) (j_benv _ j) (j_senv _ j) (j_cnt _ j) (j_cancel _ j) true [] (j_choice _ j)
                  (j_guard _ j) (j_body _ j) {| sst := tt; recv := []; log := []; marks := [] |}) as [[e1 w1] rp1] eqn:R1.
      pose proof (render_top_pool_irrelevant unit buffer_sink cap true false esc (j_env _ j) (j_benv _ j) (j_senv _ j) (j_cnt _ j) (j_cancel _ j)
                    [] (j_choice _ j) (j_guard _ j) (j_body _ j) {| sst := tt; recv := []; log := []; marks := [] |}) as PI1.
      rewrite R1 in PI1. rewrite <- PI1 in PI. cbn [fst] in PI. inversion PI; subst.
      cbn [fst snd]. split; [reflexivity|].
      unfold pools_clean. cbn [snd]. constructor; [reflexivity|exact C].
  - cbn [fst snd].
    pose proof (render_top_pool_irrelevant sink_st sink cap sw flusher esc (j_env _ j) (j_benv _ j) (j_senv _ j) (j_cnt _ j) (j_cancel _ j)
                  (fst ps) (j_choice _ j) (j_guard _ j) (j_body _ j) {| sst := j_sink0 _ j; recv := []; log := []; marks := [] |}) as PI.
    destruct (render_top sink_st sink cap sw flusher esc (j_env _ j) (j_benv _ j) (j_senv _ j) (j_cnt _ j) (j_cancel _ j) true (fst ps) (j_choice _ j)
                (j_guard _ j) (j_body _ j) {| sst := j_sink0 _ j; recv := []; log := []; marks := [] |}) as [[e w] rp].
    destruct (render_top sink_st sink cap sw flusher esc (j_env _ j) (j_benv _ j) (j_senv _ j) (j_cnt _ j) (j_cancel _ j) true [] (j_choice _ j)
                (j_guard _ j) (j_body _ j) {| sst := j_sink0 _ j; recv := []; log := []; marks := [] |}) as [[e1 w1] rp1] eqn:R1.
    pose proof (render_top_pool_irrelevant sink_st sink cap sw flusher esc (j_env _ j) (j_benv _ j) (j_senv _ j) (j_cnt _ j) (j_cancel _ j)
                  [] (j_choice _ j) (j_guard _ j) (j_body _ j) {| sst := j_sink0 _ j; recv := []; log := []; marks := [] |}) as PI1.
    rewrite R1 in PI1. rewrite <- PI1 in PI. cbn [fst] in PI. inversion PI; subst.
    cbn [fst snd]. split; [reflexivity|exact C].
Qed.

(* every render of every sequence, whatever the pools hold and hand out and whatever failed before,
   is observed exactly as that render run alone on empty pools *)
Theorem jobs_pool_independent (js : list jobT) : forall ps, pools_clean ps ->
  run_jobsT true true ps js = map (fun j => fst (run_jobT true true ([], []) j)) js.
Proof.
  induction js as [|j r IH]; intros ps C; cbn [run_jobs map]; [reflexivity|].
  destruct (run_job_indep ps j C) as [E C'].
  destruct (run_jobT true true ps j) as [o ps'] eqn:R. cbn [fst snd] in *.
  rewrite E. f_equal. apply IH. exact C'.
Qed.
End JobsP.

(* ---------- what the two resets are for: the leaks without them (cap = 4) ---------- *)
Definition leak_env : list nat -> N -> bytes * option N := fun _ _ => ([], None).
Definition leak_job (body : list node) (html : bool) (mode : N) (limit : nat) : job fsink :=
  {| j_env := leak_env; j_benv := fun _ _ => false; j_senv := fun _ _ => 0; j_cnt := fun _ _ => 0; j_cancel := None; j_guard := true; j_body := body; j_html := html;
     j_sink0 := {| f_mode := mode; f_limit := limit; f_tripped := false; f_err := 7%N |};
     j_choice := 0; j_choice2 := 0 |}.
Definition leak_jobs1 : list (job fsink) :=
  [leak_job [Lit (bs "abcdef")] false 1%N 2; leak_job [Lit (bs "xy")] false 0%N 0].
Definition leak_jobs2 : list (job fsink) :=
  [leak_job [Lit (bs "ab")] true 0%N 0; leak_job [Lit (bs "xy")] true 0%N 0].
Definition obs_view (o : obs) : option err * bytes := (o_err o, o_out o).

(* without Buffer.Reset in GetBuffer, the render after a failed one gets the failed one's sticky error *)
Lemma leak_without_acquire_reset :
  map obs_view (run_jobs fsink fsink_step 4 false false (fun s => s) false true ([], []) leak_jobs1)
    = [(Some (ESink 7%N), bs "ab"); (Some (ESink 7%N), [])] /\
  map obs_view (run_jobs fsink fsink_step 4 false false (fun s => s) true true ([], []) leak_jobs1)
    = [(Some (ESink 7%N), bs "ab"); (None, bs "xy")].
Proof. split; vm_compute; reflexivity. Qed.

(* without bytes.Buffer.Reset in templ.ReleaseBuffer, ToGoHTML returns the previous caller's output too *)
Lemma leak_without_release_reset :
  map obs_view (run_jobs fsink fsink_step 4 false false (fun s => s) true false ([], []) leak_jobs2)
    = [(None, bs "ab"); (None, bs "abxy")] /\
  map obs_view (run_jobs fsink fsink_step 4 false false (fun s => s) true true ([], []) leak_jobs2)
    = [(None, bs "ab"); (None, bs "xy")].
Proof. split; vm_compute; reflexivity. Qed.

(* the spin: a destination answering (0, nil) to a large direct write (mode 4, io.StringWriter) *)
Lemma spin_witness :
  map obs_view (run_jobs fsink fsink_step 4 true false (fun s => s) true true ([], [])
                  [leak_job [Lit (bs "abcdefgh")] false 4%N 0])
    = [(Some ESpin, [])].
Proof. vm_compute. reflexivity. Qed.

(* ---------- the sentences of C10, read off [render_top_spec] ---------- *)
Lemma seq_d_fail_at {A} (g : A -> bytes * option err) pre x post y :
  snd (seq_d A g pre) = None -> g x = ([], Some y) ->
  seq_d A g (pre ++ x :: post) = (fst (seq_d A g pre), Some y).
Proof.
  induction pre as [|a pre IH]; intros Hp Hx; cbn [app seq_d] in *.
  - rewrite Hx. reflexivity.
  - destruct (g a) as [da [ea|]]; [cbn in Hp; discriminate|].
    destruct (seq_d A g pre) as [dp ep] eqn:S. cbn [snd fst] in *.
    rewrite (IH Hp Hx). reflexivity.
Qed.

Section Sentences.
Variable sink_st : Type.
Variable sink : sink_st -> bytes -> nat * option err * sink_st.
Variable cap : nat.
Variable sw : bool.
Variable flusher : bool.
Variable esc : bytes -> bytes.
Variable env : list nat -> N -> bytes * option N.
Variable benv : list nat -> N -> bool.
Variable senv : list nat -> N -> nat.
Variable cnt : list nat -> N -> nat.
Variable cancel : option N.
Hypothesis sink_le : forall s p, fst (fst (sink s p)) <= length p.
Notation render_topT := (render_top sink_st sink cap sw flusher esc env benv senv cnt cancel).
Notation denoteT := (denote esc env benv senv cnt cancel).
Notation worldT := (world sink_st).

Theorem nil_means_all pool choice g body (w0 : worldT) w' pool' :
  recv w0 = [] -> log w0 = [] ->
  render_topT true pool choice g body w0 = (None, w', pool') ->
  recv w' = fst (denoteT (Templ g body) []) /\ snd (denoteT (Templ g body) []) = None.
Proof.
  intros R0 L0 H. destruct (render_top_spec sink_st sink cap sw flusher esc env benv senv cnt cancel sink_le _ _ _ _ _ _ _ _ R0 L0 H) as [_ [X _]].
  apply X. reflexivity.
Qed.

Theorem fail_stop pool choice g body (w0 : worldT) res w' pool' :
  recv w0 = [] -> log w0 = [] ->
  render_topT true pool choice g body w0 = (res, w', pool') ->
  prefix (recv w') (fst (denoteT (Templ g body) [])) /\
  (forall x, first_refusal (log w') = Some x ->
     res <> None /\
     (res = Some x \/ (res = snd (denoteT (Templ g body) []) /\ snd (denoteT (Templ g body) []) <> None)) /\
     (snd (denoteT (Templ g body) []) = None -> res = Some x)).
Proof.
  intros R0 L0 H. destruct (render_top_spec sink_st sink cap sw flusher esc env benv senv cnt cancel sink_le _ _ _ _ _ _ _ _ R0 L0 H) as [P [_ [X _]]].
  split; [exact P|]. intros x Hx. destruct (X x Hx) as [E|[E1 E2]].
  - split; [rewrite E; discriminate|]. split; [left; exact E|intros _; exact E].
  - split; [rewrite E1; exact E2|]. split; [right; split; assumption|intros D; contradiction].
Qed.

(* the program's own first failure is what Render returns when the destination never refuses *)
Theorem program_error_returned pool choice g body (w0 : worldT) res w' pool' y :
  recv w0 = [] -> log w0 = [] ->
  render_topT true pool choice g body w0 = (res, w', pool') ->
  snd (denoteT (Templ g body) []) = Some y ->
  (first_refusal (log w') = None -> res = Some y) /\
  (forall x, first_refusal (log w') = Some x -> res = Some y \/ res = Some x) /\
  prefix (recv w') (fst (denoteT (Templ g body) [])).
Proof.
  intros R0 L0 H D. destruct (render_top_spec sink_st sink cap sw flusher esc env benv senv cnt cancel sink_le _ _ _ _ _ _ _ _ R0 L0 H) as [P [_ [X Y]]].
  split; [intros Nr; rewrite (Y Nr); exact D|]. split; [|exact P].
  intros x Hx. destruct (X x Hx) as [E|[E1 _]]; [right; exact E|left; rewrite E1; exact D].
Qed.

Theorem expr_error_position pool choice (g : bool) pre id file line col post v x (w0 : worldT) res w' pool' :
  recv w0 = [] -> log w0 = [] ->
  (if g then cancel else None) = None ->
  snd (seq_d node (fun n => denoteT n []) pre) = None ->  (* everything before the expression renders *)
  env [] id = (v, Some x) ->                              (* the expression returns an error *)
  render_topT true pool choice g (pre ++ Expr id file line col :: post) w0 = (res, w', pool') ->
  prefix (recv w') (fst (seq_d node (fun n => denoteT n []) pre)) /\
  (first_refusal (log w') = None -> res = Some (ETempl file line col (EExpr x))) /\
  (forall z, first_refusal (log w') = Some z -> res = Some (ETempl file line col (EExpr x)) \/ res = Some z).
Proof.
  intros R0 L0 G Hp He H.
  assert (D : denoteT (Templ g (pre ++ Expr id file line col :: post)) [] =
              (fst (seq_d node (fun n => denoteT n []) pre), Some (ETempl file line col (EExpr x)))).
  { cbn [denote]. assert (DE : (fun n => denoteT n []) (Expr id file line col) = ([], Some (ETempl file line col (EExpr x)))) by (cbn beta; cbn [denote]; rewrite He; reflexivity).
    cbn beta in DE. destruct g; [cbn in G; revert Hp DE; rewrite G; intros Hp DE|]; (eapply seq_d_fail_at; [exact Hp|cbn beta; exact DE]). }
  destruct (program_error_returned _ _ _ _ _ _ _ _ _ R0 L0 H (f_equal snd D)) as [A [B C]].
  rewrite D in C. cbn [fst] in C. split; [exact C|]. split; assumption.
Qed.
End Sentences.
