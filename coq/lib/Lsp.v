(* LSP protocol data shared by the C17 specification and model (lsp/protocol: Position, Range,
   TextDocumentContentChangeEvent).  Line and Character are uint32 in Go; here N (every uint32 is an N). *)
From Coq.Strings Require Import Byte String.
From Coq Require Import List NArith.
Import ListNotations.
From V Require Import lib.Bytes.

Record pos := { line : N; char : N }.
Record range := { start : pos; stop : pos }.

(* TextDocumentContentChangeEvent: Range == nil means "the text is the whole new document" *)
Record change := { crange : option range; ctext : bytes }.

(* what the editor sends about one document after the first didOpen:
   a further didOpen with a text, or a didChange carrying a list of content changes *)
Inductive event :=
| Open (s : bytes)
| Change (cs : list change).
