(* Source positions and recorded Go expressions (parser/v2 types.go: Position, Range, Expression;
   github.com/a-h/parse: Position).  Pure data shared by spec/PosOf.v and model/ParseInput.v. *)
From Coq.Strings Require Import Byte String.
From Coq Require Import List.
From V Require Import lib.Bytes.

(* index, line, column - all zero based; the column is counted in BYTES (a-h/parse subtracts byte indices) *)
Record position := mkpos { p_index : nat; p_line : nat; p_col : nat }.

(* text + range *)
Record expression := mkexpr { e_value : bytes; e_from : position; e_to : position }.
