(* Shared byte-string conventions: Go strings are [list byte]. *)
From Coq.Strings Require Import Byte String.
From Coq Require Import List NArith Bool Lia.
Import ListNotations.
Open Scope N_scope.

Notation bytes := (list byte).
Definition bs (s : string) : bytes := list_byte_of_string s.
Definition bN (b : byte) : N := Byte.to_N b.
Definition Nb (n : N) : byte := match Byte.of_N n with Some b => b | None => x00 end.

Lemma byte_eqb_eq a b : Byte.eqb a b = true <-> a = b.
Proof. split; [apply Byte.byte_dec_bl | apply Byte.byte_dec_lb]. Qed.

Lemma byte_eqb_neq a b : Byte.eqb a b = false <-> a <> b.
Proof.
  split.
  - intros H E. apply byte_eqb_eq in E. congruence.
  - intros H. destruct (Byte.eqb a b) eqn:E; [apply byte_eqb_eq in E; contradiction|reflexivity].
Qed.

Lemma byte_eqb_refl a : Byte.eqb a a = true.
Proof. apply byte_eqb_eq; reflexivity. Qed.

Fixpoint bytes_eqb (a b : bytes) : bool :=
  match a, b with
  | [], [] => true
  | x :: a', y :: b' => Byte.eqb x y && bytes_eqb a' b'
  | _, _ => false
  end.

Lemma bytes_eqb_eq a b : bytes_eqb a b = true <-> a = b.
Proof.
  revert b; induction a as [|x a IH]; destruct b as [|y b]; cbn; split; intros H;
    try reflexivity; try discriminate.
  - apply andb_prop in H as [H1 H2]. apply byte_eqb_eq in H1. apply IH in H2. congruence.
  - inversion H; subst. rewrite byte_eqb_refl. cbn. apply IH. reflexivity.
Qed.

Lemma bytes_eqb_refl a : bytes_eqb a a = true.
Proof. apply bytes_eqb_eq; reflexivity. Qed.

(* ASCII case mapping *)
Definition lower (b : byte) : byte :=
  let n := bN b in if (65 <=? n) && (n <=? 90) then Nb (n + 32) else b.
Definition upper (b : byte) : byte :=
  let n := bN b in if (97 <=? n) && (n <=? 122) then Nb (n - 32) else b.

Fixpoint has_prefix (p s : bytes) : bool :=
  match p, s with
  | [], _ => true
  | x :: p', y :: s' => Byte.eqb x y && has_prefix p' s'
  | _ :: _, [] => false
  end.

Fixpoint drop_while (f : byte -> bool) (s : bytes) : bytes :=
  match s with [] => [] | b :: r => if f b then drop_while f r else s end.

(* decimal rendering of N (strconv.Itoa on non-negative numbers) *)
Definition digit (n : N) : byte := Nb (48 + n).
Fixpoint dec_fuel (fuel : nat) (n : N) (acc : bytes) : bytes :=
  match fuel with
  | O => acc
  | S f => let acc' := digit (n mod 10) :: acc in
           if n / 10 =? 0 then acc' else dec_fuel f (n / 10) acc'
  end.
Definition dec (n : N) : bytes := dec_fuel (S (N.to_nat (N.log2 n))) n [].

Fixpoint undec_acc (s : bytes) (acc : N) : option N :=
  match s with
  | [] => Some acc
  | b :: r => let n := bN b in
              if (48 <=? n) && (n <=? 57) then undec_acc r (acc * 10 + (n - 48)) else None
  end.
Definition undec (s : bytes) : option N := match s with [] => None | _ => undec_acc s 0 end.

Definition b2 (b : bool) : bytes := if b then [x31] else [x30].
